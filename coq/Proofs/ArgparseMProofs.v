(* Proofs/ArgparseMProofs.v — the token-level argparse model (Model/ArgparseM.v) satisfies the interface
   (Model/ArgparseMSpec.v) for ALL action lists and ALL argv: I1 defaults, I2 group step, I3 `=` spelling,
   I5 error paths, I6 overwrite, and the COMPOSITION theorem that justifies the per-field ("one option group")
   abstraction of Model/Leaf.v.  Induction on the token list / the group list / the action list; no bound. *)
From Coq Require Import Permutation.
From SPV Require Import Base.Str Model.Namespace Model.LeafSpec Model.ArgparseM Model.ArgparseMSpec
     Proofs.NamespaceProofs.

(* ====================================================================== *)
(* tokens                                                                  *)
(* ====================================================================== *)

Definition asA (vs : list string) : list (string * cls) := map (fun v => (v, CA)) vs.

Lemma asA_length vs : List.length (asA vs) = List.length vs.
Proof. unfold asA. apply map_length. Qed.

Lemma map_fst_asA vs : map fst (asA vs) = vs.
Proof. induction vs as [|v r IH]; simpl; [reflexivity | now rewrite IH]. Qed.

Lemma count_A_asA vs rest : count_A (asA vs ++ rest) = List.length vs + count_A rest.
Proof. induction vs as [|v r IH]; simpl; [reflexivity | now rewrite IH]. Qed.

Lemma firstn_asA vs rest : firstn (List.length vs) (asA vs ++ rest) = asA vs.
Proof.
  rewrite <- (asA_length vs). rewrite firstn_app, firstn_all, Nat.sub_diag. simpl. apply app_nil_r.
Qed.

Lemma lookup_opt_In tbl o i : lookup_opt tbl o = Some i -> In (o, i) tbl.
Proof.
  unfold lookup_opt. destruct (filter (fun p => String.eqb (fst p) o) tbl) as [|[k j] r] eqn:E; [discriminate|].
  intros H. injection H as ->.
  assert (Hin : In (k, i) (filter (fun p => String.eqb (fst p) o) tbl)) by (rewrite E; now left).
  apply filter_In in Hin as [Hin He]. simpl in He. apply String.eqb_eq in He. now subst k.
Qed.

Lemma prefixb_dash c r : prefixb "-" (String c r) = Ascii.eqb "-"%char c.
Proof. cbn [prefixb]. apply andb_true_r. Qed.

Lemma classify_nondash ab tbl hn t : prefixb "-" t = false -> classify ab tbl hn t = CA.
Proof.
  destruct t as [|c r]; [reflexivity|]. rewrite prefixb_dash. intros H.
  unfold classify. cbv beta iota. rewrite Ascii.eqb_sym, H. reflexivity.
Qed.

Lemma classify_exact ab tbl hn o i :
  prefixb "-" o = true -> lookup_opt tbl o = Some i -> classify ab tbl hn o = CO i o None.
Proof.
  destruct o as [|c r]; [discriminate|]. rewrite prefixb_dash. intros H L.
  unfold classify. cbv beta iota. rewrite Ascii.eqb_sym, H, L. reflexivity.
Qed.

Section P.
  Variable V : Type.
  Variable K : Type.
  Variable cvt : K -> string -> res V.
  Variable veqb : V -> V -> bool.
  Notation actT := (act V K).
  Notation storedT := (stored V).
  Notation nsT := (ns (stored V)).
  Notation run := (run cvt veqb).
  Notation values_of := (values_of cvt veqb).
  Notation finish := (finish cvt).
  Notation parse_known := (parse_known cvt veqb).
  Notation parse_args := (parse_args cvt veqb).
  Notation group_values := (group_values cvt veqb).
  Notation spec_fields := (spec_fields cvt veqb).
  Notation spec_groups := (spec_groups cvt veqb).
  Notation spec_empty := (spec_empty cvt veqb).
  Notation default_value := (default_value cvt).

  Implicit Types (acts : list actT) (n : nsT) (a : actT).

  (* ---------- the option table ---------- *)
  Lemma all_opts_In acts : forall i0 o i, In (o, i) (all_opts i0 acts) ->
    exists j a, i = i0 + j /\ nth_error acts j = Some a /\ In o (a_opts a).
  Proof.
    induction acts as [|a r IH]; intros i0 o i H; simpl in H; [contradiction|].
    apply in_app_or in H as [H|H].
    - apply in_map_iff in H as [o' [E Ho]]. injection E as -> <-.
      exists 0, a. repeat split; [lia | exact Ho].
    - apply IH in H as [j [b [E [Hn Ho]]]]. exists (S j), b. repeat split; [lia | exact Hn | exact Ho].
  Qed.

  Lemma dashed_opt acts o i :
    opts_dashed acts = true -> lookup_opt (all_opts 0 acts) o = Some i -> prefixb "-" o = true.
  Proof.
    intros D L. apply lookup_opt_In, all_opts_In in L as [j [a [_ [Hn Ho]]]].
    unfold opts_dashed in D. rewrite forallb_forall in D.
    specialize (D a (nth_error_In _ _ Hn)). rewrite forallb_forall in D. apply D, Ho.
  Qed.

  (* ---------- lexing is token-wise ---------- *)
  Lemma lex_app ab acts x y : lex ab acts (x ++ y) = (lex ab acts x ++ lex ab acts y)%list.
  Proof. unfold lex. apply map_app. Qed.

  Lemma lex_plain ab acts vs : tokens_plain ab acts vs = true -> lex ab acts vs = asA vs.
  Proof.
    unfold tokens_plain, tok_plain, lex, asA. induction vs as [|v r IH]; simpl; [reflexivity|].
    intros H. apply andb_true_iff in H as [Hv Hr]. rewrite (IH Hr). f_equal. f_equal.
    destruct (classify ab (all_opts 0 acts) (has_neg (all_opts 0 acts)) v); try discriminate. reflexivity.
  Qed.

  Lemma lex_exact ab acts o i :
    opts_dashed acts = true -> lookup_opt (all_opts 0 acts) o = Some i ->
    lex ab acts [o] = [(o, CO i o None)].
  Proof.
    intros D L. unfold lex. simpl. rewrite (classify_exact ab _ _ o i (dashed_opt acts o i D L) L). reflexivity.
  Qed.

  (* ---------- skipping consumed tokens ---------- *)
  Lemma run_skip acts n seen ex rest : forall pre,
    run acts n seen ex (List.length pre) (pre ++ rest) = run acts n seen ex 0 rest.
  Proof. induction pre as [|[s c] r IH]; simpl; [reflexivity | exact IH]. Qed.

  (* ====================================================================== *)
  (* I2: the group step                                                      *)
  (* ====================================================================== *)
  Definition head_not_A (cs : list (string * cls)) : Prop := count_A cs = 0.

  Theorem I2_group_step acts n seen ex i o a vs rest :
    nth_error acts i = Some a ->
    admissible (a_na a) (List.length vs) = true ->
    head_not_A rest ->
    run acts n seen ex 0 ((o, CO i o None) :: asA vs ++ rest) =
      match values_of a vs with
      | Ok v => run acts (set_ns n (a_dest a) v) (i :: seen) ex 0 rest
      | Err e => Err e
      end.
  Proof.
    intros Hn Hadm Hrest. cbn [ArgparseM.run]. rewrite Hn, count_A_asA, Hrest, Nat.add_0_r.
    unfold admissible in Hadm.
    destruct (count_for (a_na a) (List.length vs)) as [k|]; simpl in Hadm; [|discriminate].
    apply Nat.eqb_eq in Hadm. subst k.
    rewrite firstn_asA, map_fst_asA.
    destruct (values_of a vs) as [v|e]; [|reflexivity].
    rewrite <- (asA_length vs). apply run_skip.
  Qed.

  (* "sets only its own destination" *)
  Lemma I2_only_own_dest n d v d' : d <> d' -> lookup d' (set_ns n d v) = lookup d' n.
  Proof.
    intros H. rewrite lookup_set. destruct (String.eqb d d') eqn:E; [|reflexivity].
    apply String.eqb_eq in E. contradiction.
  Qed.
  Lemma I2_own_dest n d v : lookup d (set_ns n d v) = Some v.
  Proof. rewrite lookup_set, String.eqb_refl. reflexivity. Qed.

  (* ====================================================================== *)
  (* I3: `--opt=v` is `--opt v` when the option takes exactly that token     *)
  (* ====================================================================== *)
  Theorem I3_eq_spelling acts n seen ex t i o e a rest :
    nth_error acts i = Some a ->
    takes_one_of (a_na a) (count_A rest) = true ->
    run acts n seen ex 0 ((t, CO i o (Some e)) :: rest) =
    run acts n seen ex 0 ((o, CO i o None) :: (e, CA) :: rest).
  Proof.
    intros Hn H1. cbn [ArgparseM.run]. rewrite Hn. cbn [count_A].
    unfold takes_one_of in H1.
    destruct (count_for (a_na a) (S (count_A rest))) as [k|] eqn:Ek; simpl in H1; [|discriminate].
    apply Nat.eqb_eq in H1. subst k.
    assert (E1 : count_for (a_na a) 1 = Some 1).
    { destruct (a_na a) as [| | | |m]; simpl in *; try reflexivity.
      destruct (Nat.leb m (S (count_A rest))); [|discriminate]. injection Ek as ->. reflexivity. }
    rewrite E1. cbn [firstn map fst].
    destruct (values_of a [e]) as [v|x]; reflexivity.
  Qed.

  (* ====================================================================== *)
  (* I5: error paths                                                         *)
  (* ====================================================================== *)
  Theorem I5_arity acts n seen ex i o a rest :
    nth_error acts i = Some a -> count_for (a_na a) (count_A rest) = None ->
    run acts n seen ex 0 ((o, CO i o None) :: rest) = Err (Exit 2).
  Proof. intros Hn Hc. cbn [ArgparseM.run]. rewrite Hn, Hc. reflexivity. Qed.

  Theorem I5_explicit_arity acts n seen ex t i o e a rest :
    nth_error acts i = Some a -> count_for (a_na a) 1 <> Some 1 ->
    run acts n seen ex 0 ((t, CO i o (Some e)) :: rest) = Err (Exit 2).
  Proof.
    intros Hn Hc. cbn [ArgparseM.run]. rewrite Hn.
    destruct (count_for (a_na a) 1) as [[|[|k]]|]; try reflexivity. congruence.
  Qed.

  Lemma conv_all_err k ss s e : In s ss -> cvt k s = Err e -> exists e', conv_all cvt k ss = Err e'.
  Proof.
    induction ss as [|x r IH]; intros Hin He; [contradiction|]. simpl.
    destruct Hin as [->|Hin].
    - rewrite He. eauto.
    - destruct (cvt k x); [|eauto]. destruct (IH Hin He) as [e' ->]. eauto.
  Qed.

  (* a token the converter refuses makes the group fail (whatever the other tokens are) *)
  Theorem I5_converter a vs s e :
    In s vs -> cvt (a_cv a) s = Err e -> exists e', values_of a vs = Err e'.
  Proof.
    intros Hin He. destruct (conv_all_err (a_cv a) vs s e Hin He) as [e' Hc].
    unfold ArgparseM.values_of.
    destruct (a_na a); destruct vs as [|x [|y r]]; try contradiction; rewrite ?Hc; eauto.
    all: destruct Hin as [->|[]]; rewrite He; eauto.
  Qed.

  (* when the converter only fails through argparse's error path, so does the group *)
  Lemma conv_all_exit2 k ss e :
    (forall s x, In s ss -> cvt k s = Err x -> x = Exit 2) -> conv_all cvt k ss = Err e -> e = Exit 2.
  Proof.
    induction ss as [|x r IH]; intros H; simpl; [discriminate|].
    destruct (cvt k x) eqn:E.
    - destruct (conv_all cvt k r) eqn:E2; [discriminate|]. intros X. injection X as <-.
      apply IH; [|reflexivity]. intros s y Hs. apply H. now right.
    - intros X. injection X as <-. apply (H x); [now left | exact E].
  Qed.

  Theorem I5_exit2 a vs e :
    (forall s x, In s vs -> cvt (a_cv a) s = Err x -> x = Exit 2) -> values_of a vs = Err e -> e = Exit 2.
  Proof.
    intros H. unfold ArgparseM.values_of.
    assert (G : match conv_all cvt (a_cv a) vs with
                | Err e0 => Err e0
                | Ok vs0 => if forallb (check_choice veqb a) vs0 then Ok (SMany vs0) else Err (Exit 2) end = Err e -> e = Exit 2).
    { destruct (conv_all cvt (a_cv a) vs) eqn:E.
      - destruct (forallb (check_choice veqb a) a0); [discriminate|]. intros X. now injection X as <-.
      - intros X. injection X as <-. eapply conv_all_exit2; eauto. }
    assert (G1 : forall s, vs = [s] -> match cvt (a_cv a) s with
                | Err e0 => Err e0
                | Ok v => if check_choice veqb a v then Ok (SOne v) else Err (Exit 2) end = Err e -> e = Exit 2).
    { intros s -> . destruct (cvt (a_cv a) s) eqn:E.
      - destruct (check_choice veqb a a0); [discriminate|]. intros X. now injection X as <-.
      - intros X. injection X as <-. apply (H s); [now left | exact E]. }
    destruct (a_na a); destruct vs as [|x [|y r]]; try exact G; try discriminate; apply (G1 x); reflexivity.
  Qed.

  (* a converted value outside the choices is refused *)
  Theorem I5_choices a s v :
    (a_na a = NaOne \/ a_na a = NaOpt) -> cvt (a_cv a) s = Ok v -> check_choice veqb a v = false ->
    values_of a [s] = Err (Exit 2).
  Proof. intros [H|H] Hc Hk; unfold ArgparseM.values_of; rewrite H, Hc, Hk; reflexivity. Qed.

  Theorem I5_leftovers ab acts argv n x ex :
    parse_known ab acts argv = Ok (n, x :: ex) -> parse_args ab acts argv = Err (Exit 2).
  Proof. unfold ArgparseM.parse_args. intros ->. reflexivity. Qed.

  (* ====================================================================== *)
  (* I6: a later occurrence overwrites the earlier one                       *)
  (* ====================================================================== *)
  Lemma set_ns_twice n d v1 v2 : set_ns (set_ns n d v1) d v2 = set_ns n d v2.
  Proof.
    induction n as [|[k x] r IH]; simpl.
    - rewrite String.eqb_refl. reflexivity.
    - destruct (String.eqb k d) eqn:E; simpl; rewrite E; [reflexivity | now rewrite IH].
  Qed.

  Theorem I6_overwrite acts n seen ex i o1 o2 a vs1 vs2 rest :
    nth_error acts i = Some a ->
    admissible (a_na a) (List.length vs1) = true -> admissible (a_na a) (List.length vs2) = true ->
    head_not_A rest ->
    run acts n seen ex 0 (((o1, CO i o1 None) :: asA vs1) ++ ((o2, CO i o2 None) :: asA vs2) ++ rest) =
      match values_of a vs1 with
      | Err e => Err e
      | Ok _ => match values_of a vs2 with
                | Ok v2 => run acts (set_ns n (a_dest a) v2) (i :: i :: seen) ex 0 rest
                | Err e => Err e end
      end.
  Proof.
    intros Hn A1 A2 Hr. simpl app.
    rewrite (I2_group_step acts n seen ex i o1 a vs1 _ Hn A1) by reflexivity.
    destruct (values_of a vs1) as [v1|e]; [|reflexivity].
    rewrite (I2_group_step acts _ _ ex i o2 a vs2 rest Hn A2 Hr).
    destruct (values_of a vs2) as [v2|e]; [|reflexivity].
    rewrite set_ns_twice. reflexivity.
  Qed.

  (* ====================================================================== *)
  (* COMPOSITION: an argv that is a concatenation of well-formed groups       *)
  (* ====================================================================== *)
  Definition lexed (gs : list group) : list (string * cls) :=
    flat_map (fun g => (g_opt g, CO (g_idx g) (g_opt g) None) :: asA (g_toks g)) gs.

  Lemma group_ok_inv ab acts g : group_ok ab acts g = true ->
    lookup_opt (all_opts 0 acts) (g_opt g) = Some (g_idx g)
    /\ (exists a, nth_error acts (g_idx g) = Some a /\ admissible (a_na a) (List.length (g_toks g)) = true)
    /\ tokens_plain ab acts (g_toks g) = true.
  Proof.
    unfold group_ok. intros H. apply andb_true_iff in H as [H H3]. apply andb_true_iff in H as [H1 H2].
    split; [|split].
    - destruct (lookup_opt (all_opts 0 acts) (g_opt g)) as [j|]; simpl in H1; [|discriminate].
      apply Nat.eqb_eq in H1. now subst j.
    - destruct (nth_error acts (g_idx g)) as [a|]; [eauto | discriminate].
    - exact H3.
  Qed.

  Lemma flatten_cons g gs : flatten (g :: gs) = (g_opt g :: g_toks g ++ flatten gs)%list.
  Proof. reflexivity. Qed.

  Lemma lex_flatten ab acts gs :
    opts_dashed acts = true -> forallb (group_ok ab acts) gs = true -> lex ab acts (flatten gs) = lexed gs.
  Proof.
    intros D. induction gs as [|g gs IH]; intros H; [reflexivity|].
    cbn [forallb] in H. apply andb_true_iff in H as [Hg Hr].
    destruct (group_ok_inv ab acts g Hg) as [HL [_ HP]].
    rewrite flatten_cons. change (g_opt g :: g_toks g ++ flatten gs)%list with ([g_opt g] ++ g_toks g ++ flatten gs)%list.
    rewrite !lex_app, (lex_exact ab acts _ _ D HL), (lex_plain ab acts _ HP), (IH Hr). reflexivity.
  Qed.

  Lemma head_lexed gs : head_not_A (lexed gs).
  Proof. destruct gs; reflexivity. Qed.

  Lemma lexed_no_ambig gs : existsb (fun p => is_ambig (snd p)) (lexed gs) = false.
  Proof.
    induction gs as [|g gs IH]; [reflexivity|].
    change (lexed (g :: gs)) with ((g_opt g, CO (g_idx g) (g_opt g) None) :: asA (g_toks g) ++ lexed gs)%list.
    cbn [existsb snd is_ambig]. rewrite existsb_app, IH, orb_false_r. simpl.
    induction (g_toks g) as [|v r IHv]; [reflexivity | exact IHv].
  Qed.

  Definition groups_indexed acts (gs : list group) : Prop :=
    forall g, In g gs -> exists a, nth_error acts (g_idx g) = Some a /\ admissible (a_na a) (List.length (g_toks g)) = true.

  Lemma groups_ok_indexed ab acts gs : forallb (group_ok ab acts) gs = true -> groups_indexed acts gs.
  Proof.
    intros H g Hin. rewrite forallb_forall in H. destruct (group_ok_inv ab acts g (H g Hin)) as [_ [X _]]. exact X.
  Qed.

  (* the token loop over the groups IS the fold of the per-group results over the namespace *)
  Lemma run_lexed acts : forall gs n seen,
    groups_indexed acts gs ->
    run acts n seen [] 0 (lexed gs) =
      match group_values acts gs with
      | Err e => Err e
      | Ok occs => Ok (apply_all occs n, (rev (map g_idx gs) ++ seen)%list, [])
      end.
  Proof.
    induction gs as [|g gs IH]; intros n seen H; [reflexivity|].
    destruct (H g (or_introl eq_refl)) as [a [Hn Ha]].
    change (lexed (g :: gs)) with ((g_opt g, CO (g_idx g) (g_opt g) None) :: asA (g_toks g) ++ lexed gs)%list.
    rewrite (I2_group_step acts n seen [] _ _ a _ _ Hn Ha (head_lexed gs)).
    cbn [ArgparseMSpec.group_values]. rewrite Hn.
    destruct (values_of a (g_toks g)) as [v|e]; [|reflexivity].
    rewrite IH by (intros g' Hg'; apply H; now right).
    destruct (group_values acts gs) as [occs|e]; [|reflexivity].
    cbn [map rev]. rewrite <- app_assoc. reflexivity.
  Qed.

  Theorem composition ab acts gs :
    opts_dashed acts = true ->
    forallb (group_ok ab acts) gs = true ->
    parse_args ab acts (flatten gs) =
      match group_values acts gs with
      | Err e => Err e
      | Ok occs => finish 0 acts (rev (map g_idx gs)) (apply_all occs (init_ns acts)) false
      end.
  Proof.
    intros D H. unfold ArgparseM.parse_args, ArgparseM.parse_known.
    rewrite (lex_flatten ab acts gs D H), lexed_no_ambig.
    rewrite (run_lexed acts gs _ _ (groups_ok_indexed ab acts gs H)).
    destruct (group_values acts gs) as [occs|e]; [|reflexivity].
    rewrite app_nil_r.
    destruct (finish 0 acts (rev (map g_idx gs)) (apply_all occs (init_ns acts)) false); reflexivity.
  Qed.

  (* the same for parse_known_args: nothing is left over *)
  Theorem composition_known ab acts gs :
    opts_dashed acts = true ->
    forallb (group_ok ab acts) gs = true ->
    parse_known ab acts (flatten gs) =
      match parse_args ab acts (flatten gs) with Ok n => Ok (n, []) | Err e => Err e end.
  Proof.
    intros D H. unfold ArgparseM.parse_args, ArgparseM.parse_known.
    rewrite (lex_flatten ab acts gs D H), lexed_no_ambig.
    rewrite (run_lexed acts gs _ _ (groups_ok_indexed ab acts gs H)).
    destruct (group_values acts gs) as [occs|e]; [|reflexivity].
    destruct (finish 0 acts (rev (map g_idx gs) ++ []) (apply_all occs (init_ns acts)) false); reflexivity.
  Qed.

  (* ====================================================================== *)
  (* the per-field view (distinct destinations)                              *)
  (* ====================================================================== *)
  (* a namespace laid out along the action list: action number i0+j holds f (i0+j) a *)
  Fixpoint ns_of (l : list actT) (f : nat -> actT -> storedT) (i0 : nat) : nsT :=
    match l with [] => [] | a :: r => (a_dest a, f i0 a) :: ns_of r f (S i0) end.

  Lemma ns_of_ext l : forall f g i0,
    (forall j a, nth_error l j = Some a -> f (i0 + j) a = g (i0 + j) a) -> ns_of l f i0 = ns_of l g i0.
  Proof.
    induction l as [|a r IH]; intros f g i0 H; cbn [ns_of]; [reflexivity|]. f_equal.
    - f_equal. specialize (H 0 a eq_refl). now rewrite Nat.add_0_r in H.
    - apply IH. intros j b Hj. specialize (H (S j) b Hj). replace (S i0 + j) with (i0 + S j) by lia. exact H.
  Qed.

  Lemma ns_of_app l1 : forall l2 f i0,
    ns_of (l1 ++ l2) f i0 = (ns_of l1 f i0 ++ ns_of l2 f (i0 + List.length l1))%list.
  Proof.
    induction l1 as [|a r IH]; intros l2 f i0; cbn [ns_of app List.length].
    - now rewrite Nat.add_0_r.
    - rewrite IH. replace (S i0 + List.length r) with (i0 + S (List.length r)) by lia. reflexivity.
  Qed.

  Lemma lookup_ns_of l : NoDup (map a_dest l) -> forall f i0 j a,
    nth_error l j = Some a -> lookup (a_dest a) (ns_of l f i0) = Some (f (i0 + j) a).
  Proof.
    induction l as [|b r IH]; intros N f i0 j a Hj; [destruct j; discriminate|].
    inversion N as [|? ? Hb Hr]; subst. cbn [ns_of lookup]. destruct j as [|j].
    - injection Hj as ->. rewrite String.eqb_refl, Nat.add_0_r. reflexivity.
    - cbn [nth_error] in Hj. destruct (String.eqb (a_dest b) (a_dest a)) eqn:E.
      + apply String.eqb_eq in E. exfalso. apply Hb. rewrite E. apply in_map. eapply nth_error_In; eauto.
      + rewrite (IH Hr f (S i0) j a Hj). replace (S i0 + j) with (i0 + S j) by lia. reflexivity.
  Qed.

  Lemma set_ns_ns_of l : NoDup (map a_dest l) -> forall f i0 j a v,
    nth_error l j = Some a ->
    set_ns (ns_of l f i0) (a_dest a) v = ns_of l (fun k b => if Nat.eqb k (i0 + j) then v else f k b) i0.
  Proof.
    induction l as [|b r IH]; intros N f i0 j a v Hj; [destruct j; discriminate|].
    inversion N as [|? ? Hb Hr]; subst. cbn [ns_of set_ns]. destruct j as [|j].
    - injection Hj as ->. rewrite String.eqb_refl, Nat.add_0_r, Nat.eqb_refl. f_equal.
      apply ns_of_ext. intros j b _. destruct (Nat.eqb_spec (S i0 + j) i0); [lia | reflexivity].
    - cbn [nth_error] in Hj. destruct (String.eqb (a_dest b) (a_dest a)) eqn:E.
      + apply String.eqb_eq in E. exfalso. apply Hb. rewrite E. apply in_map. eapply nth_error_In; eauto.
      + destruct (Nat.eqb_spec i0 (i0 + S j)); [lia|]. f_equal.
        rewrite (IH Hr f (S i0) j a v Hj). apply ns_of_ext. intros j0 b0 _.
        replace (i0 + S j) with (S i0 + j) by lia. reflexivity.
  Qed.

  Lemma lookup_app_none (d : string) (x y : nsT) : lookup d x = None -> lookup d (x ++ y)%list = lookup d y.
  Proof.
    induction x as [|[k v] r IH]; cbn [lookup app]; [reflexivity|].
    destruct (String.eqb k d); [discriminate | exact IH].
  Qed.

  Lemma init_from_nodup l : forall pre i0,
    NoDup (map a_dest l) -> (forall a, In a l -> lookup (a_dest a) pre = None) ->
    init_from l pre = (pre ++ ns_of l (fun _ a => a_dflt a) i0)%list.
  Proof.
    induction l as [|a r IH]; intros pre i0 N H; cbn [init_from ns_of].
    - now rewrite app_nil_r.
    - inversion N as [|? ? Ha Hr]; subst. rewrite (H a (or_introl eq_refl)).
      rewrite (IH _ (S i0) Hr).
      + rewrite <- app_assoc. reflexivity.
      + intros b Hb. rewrite lookup_app_none by (apply H; now right). cbn [lookup].
        destruct (String.eqb (a_dest a) (a_dest b)) eqn:E; [|reflexivity].
        apply String.eqb_eq in E. exfalso. apply Ha. rewrite E. now apply in_map.
  Qed.

  Lemma init_ns_nodup acts : NoDup (map a_dest acts) -> init_ns acts = ns_of acts (fun _ a => a_dflt a) 0.
  Proof. intros N. unfold init_ns. rewrite (init_from_nodup acts [] 0 N); [reflexivity | reflexivity]. Qed.

  (* the value of field j once the groups gs have been written over f *)
  Definition upd (gs : list group) (f : nat -> actT -> storedT) : nat -> actT -> storedT :=
    fun j a => match last_group j gs with
               | Some g => match values_of a (g_toks g) with Ok v => v | Err _ => SNone end
               | None => f j a end.

  Lemma find_snoc {A} (p : A -> bool) l x :
    find p (l ++ [x]) = match find p l with Some y => Some y | None => if p x then Some x else None end.
  Proof. induction l as [|y r IH]; cbn [find app]; [reflexivity|]. destruct (p y); [reflexivity | exact IH]. Qed.

  Lemma last_group_cons j g gs :
    last_group j (g :: gs) =
      match last_group j gs with Some x => Some x | None => if Nat.eqb (g_idx g) j then Some g else None end.
  Proof. unfold last_group. cbn [rev]. exact (find_snoc (fun g0 => Nat.eqb (g_idx g0) j) (rev gs) g). Qed.

  Lemma last_group_spec j gs :
    match last_group j gs with
    | Some g => In g gs /\ g_idx g = j /\ existsb (Nat.eqb j) (rev (map g_idx gs)) = true
    | None => existsb (Nat.eqb j) (rev (map g_idx gs)) = false
    end.
  Proof.
    unfold last_group. rewrite <- map_rev.
    assert (G : forall l, match find (fun g => Nat.eqb (g_idx g) j) l with
                          | Some g => In g l /\ g_idx g = j /\ existsb (Nat.eqb j) (map g_idx l) = true
                          | None => existsb (Nat.eqb j) (map g_idx l) = false end).
    { induction l as [|x r IH]; cbn [find map existsb]; [reflexivity|].
      rewrite (Nat.eqb_sym j (g_idx x)). destruct (Nat.eqb (g_idx x) j) eqn:E.
      - apply Nat.eqb_eq in E. repeat split; [now left | exact E].
      - destruct (find (fun g => Nat.eqb (g_idx g) j) r); [|exact IH].
        destruct IH as [H1 [H2 H3]]. repeat split; [now right | exact H2 | exact H3]. }
    specialize (G (rev gs)). destruct (find (fun g => Nat.eqb (g_idx g) j) (rev gs)); [|exact G].
    destruct G as [H1 [H2 H3]]. repeat split; [now apply in_rev | exact H2 | exact H3].
  Qed.

  Lemma apply_all_cons (p : string * storedT) l n : apply_all (p :: l) n = apply_all l (set_ns n (fst p) (snd p)).
  Proof. reflexivity. Qed.

  Lemma apply_groups acts : NoDup (map a_dest acts) -> forall gs f occs,
    group_values acts gs = Ok occs -> apply_all occs (ns_of acts f 0) = ns_of acts (upd gs f) 0.
  Proof.
    intros N. induction gs as [|g gs IH]; intros f occs H.
    - injection H as <-. reflexivity.
    - cbn [ArgparseMSpec.group_values] in H.
      destruct (nth_error acts (g_idx g)) as [a|] eqn:Hn; [|discriminate].
      destruct (values_of a (g_toks g)) as [v|] eqn:Hv; [|discriminate].
      destruct (group_values acts gs) as [l|] eqn:Hl; [|discriminate]. injection H as <-.
      rewrite apply_all_cons. cbn [fst snd].
      rewrite (set_ns_ns_of acts N f 0 _ a v Hn). rewrite (IH _ l eq_refl). apply ns_of_ext.
      intros j b Hj. unfold upd. rewrite last_group_cons. cbn [Nat.add].
      destruct (last_group j gs); [reflexivity|].
      destruct (Nat.eqb_spec j (g_idx g)) as [->|Hne].
      + rewrite Nat.eqb_refl. assert (b = a) by congruence. subst b. rewrite Hv. reflexivity.
      + destruct (Nat.eqb_spec (g_idx g) j); [congruence | reflexivity].
  Qed.

  Definition groups_valued acts gs : Prop :=
    forall g, In g gs -> forall a, nth_error acts (g_idx g) = Some a -> exists v, values_of a (g_toks g) = Ok v.

  Lemma group_values_valued acts gs : forall occs, group_values acts gs = Ok occs -> groups_valued acts gs.
  Proof.
    induction gs as [|g gs IH]; intros occs H x Hin a Ha; [contradiction|].
    cbn [ArgparseMSpec.group_values] in H.
    destruct (nth_error acts (g_idx g)) as [b|] eqn:Hn; [|discriminate].
    destruct (values_of b (g_toks g)) as [v|] eqn:Hv; [|discriminate].
    destruct (group_values acts gs) as [l|] eqn:Hl; [|discriminate].
    destruct Hin as [<-|Hin].
    - assert (a = b) by congruence. subst. eauto.
    - eapply IH; eauto.
  Qed.

  (* the final loop over a laid-out namespace computes exactly the per-field specification *)
  Lemma finish_fields acts gs :
    NoDup (map a_dest acts) -> groups_valued acts gs ->
    forall r pre f m, acts = (pre ++ r)%list ->
    (forall j a, nth_error r j = Some a ->
                 f (List.length pre + j) a = upd gs (fun _ b => a_dflt b) (List.length pre + j) a) ->
    finish (List.length pre) r (rev (map g_idx gs)) (ns_of acts f 0) m =
      match spec_fields (List.length pre) r gs m with
      | Ok l => Ok (ns_of pre f 0 ++ l)%list
      | Err e => Err e
      end.
  Proof.
    intros N HV. induction r as [|a r IH]; intros pre f m E Hf.
    - rewrite app_nil_r in E. subst pre. cbn [ArgparseM.finish ArgparseMSpec.spec_fields].
      destruct m; [reflexivity|]. now rewrite app_nil_r.
    - assert (Hn : nth_error acts (List.length pre) = Some a).
      { subst acts. rewrite nth_error_app2, Nat.sub_diag; [reflexivity | lia]. }
      assert (E' : acts = ((pre ++ [a]) ++ r)%list) by (rewrite <- app_assoc; exact E).
      assert (L' : List.length (pre ++ [a]) = S (List.length pre)) by (rewrite app_length; cbn; lia).
      assert (Hpre : forall f', ns_of (pre ++ [a]) f' 0 = (ns_of pre f' 0 ++ [(a_dest a, f' (List.length pre) a)])%list).
      { intros f'. rewrite ns_of_app. reflexivity. }
      assert (Hf0 := Hf 0 a eq_refl). rewrite Nat.add_0_r in Hf0.
      assert (Hf' : forall j b, nth_error r j = Some b ->
                f (S (List.length pre) + j) b = upd gs (fun _ b0 => a_dflt b0) (S (List.length pre) + j) b).
      { intros j b Hj. replace (S (List.length pre) + j) with (List.length pre + S j) by lia. apply Hf. exact Hj. }
      cbn [ArgparseM.finish ArgparseMSpec.spec_fields].
      pose proof (last_group_spec (List.length pre) gs) as LS. unfold upd in Hf0.
      destruct (last_group (List.length pre) gs) as [g|].
      + destruct LS as [Hin [Hidx Hmem]]. rewrite Hmem.
        destruct (HV g Hin a) as [v Hv]; [rewrite Hidx; exact Hn|].
        rewrite Hv in Hf0 |- *.
        rewrite <- L'. rewrite (IH (pre ++ [a])%list f m E') by (rewrite L'; exact Hf').
        rewrite L'. destruct (spec_fields (S (List.length pre)) r gs m); [|reflexivity].
        rewrite Hpre, Hf0, <- app_assoc. reflexivity.
      + rewrite LS. destruct (a_req a).
        * rewrite <- L'. rewrite (IH (pre ++ [a])%list f true E') by (rewrite L'; exact Hf').
          rewrite L'. destruct (spec_fields (S (List.length pre)) r gs true); [|reflexivity].
          rewrite Hpre, Hf0, <- app_assoc. reflexivity.
        * unfold ArgparseMSpec.default_value.
          destruct (a_dflt a) as [dv| |dvs|s] eqn:Ed.
          1-3: rewrite <- L'; rewrite (IH (pre ++ [a])%list f m E') by (rewrite L'; exact Hf');
               rewrite L'; destruct (spec_fields (S (List.length pre)) r gs m); [|reflexivity];
               rewrite Hpre, Hf0, <- app_assoc; reflexivity.
          unfold holds_raw. rewrite (lookup_ns_of acts N f 0 _ a Hn). cbn [Nat.add].
          rewrite Hf0, String.eqb_refl.
          destruct (cvt (a_cv a) s) as [v|e]; [|reflexivity].
          rewrite (set_ns_ns_of acts N f 0 _ a (SOne v) Hn). cbn [Nat.add].
          set (f' := fun k b => if Nat.eqb k (List.length pre) then SOne v else f k b).
          rewrite <- L'. rewrite (IH (pre ++ [a])%list f' m E').
          2:{ intros j b Hj. rewrite L'. unfold f'.
              destruct (Nat.eqb_spec (S (List.length pre) + j) (List.length pre)); [lia|]. apply Hf'. exact Hj. }
          rewrite L'. destruct (spec_fields (S (List.length pre)) r gs m); [|reflexivity].
          rewrite Hpre. unfold f' at 2. rewrite Nat.eqb_refl, <- app_assoc.
          f_equal. f_equal. apply ns_of_ext. intros j b Hj. unfold f'. cbn [Nat.add].
          assert (j < List.length pre) by (apply nth_error_Some; congruence).
          destruct (Nat.eqb_spec j (List.length pre)); [lia | reflexivity].
  Qed.

  (* PER-FIELD THEOREM: on a concatenation of well-formed groups, parse_args answers exactly what the per-field
     specification says: errors of written groups (argv order), else each field's own last group or its default *)
  Theorem per_field ab acts gs :
    NoDup (map a_dest acts) ->
    opts_dashed acts = true ->
    forallb (group_ok ab acts) gs = true ->
    parse_args ab acts (flatten gs) = spec_groups acts gs.
  Proof.
    intros N D H. rewrite (composition ab acts gs D H). unfold ArgparseMSpec.spec_groups.
    destruct (group_values acts gs) as [occs|e] eqn:Hg; [|reflexivity].
    rewrite (init_ns_nodup acts N), (apply_groups acts N gs _ occs Hg).
    rewrite (finish_fields acts gs N (group_values_valued acts gs occs Hg) acts [] _ false eq_refl).
    - cbn [List.length ns_of app]. destruct (spec_fields 0 acts gs false); reflexivity.
    - intros j a _. reflexivity.
  Qed.

  (* ====================================================================== *)
  (* I1: the empty command line                                              *)
  (* ====================================================================== *)
  Theorem I1_empty ab acts :
    NoDup (map a_dest acts) -> opts_dashed acts = true -> parse_args ab acts [] = spec_empty acts.
  Proof. intros N D. exact (per_field ab acts [] N D eq_refl). Qed.

  Theorem I1_empty_known ab acts :
    NoDup (map a_dest acts) -> opts_dashed acts = true ->
    parse_known ab acts [] = match spec_empty acts with Ok n => Ok (n, []) | Err e => Err e end.
  Proof.
    intros N D. rewrite <- (I1_empty ab acts N D). exact (composition_known ab acts [] D eq_refl).
  Qed.

  Lemma spec_fields_missing acts : forall i gs, exists e, spec_fields i acts gs true = Err e.
  Proof.
    induction acts as [|a r IH]; intros i gs; cbn [ArgparseMSpec.spec_fields]; [eauto|].
    destruct (last_group i gs).
    - destruct (values_of a (g_toks g)); [|eauto]. destruct (IH (S i) gs) as [e ->]. eauto.
    - destruct (a_req a).
      + destruct (IH (S i) gs) as [e ->]. eauto.
      + destruct (default_value a); [|eauto]. destruct (IH (S i) gs) as [e ->]. eauto.
  Qed.

  (* a required option that is not written makes the parse fail *)
  Lemma spec_fields_required acts : forall i gs m j a,
    nth_error acts j = Some a -> a_req a = true -> last_group (i + j) gs = None ->
    exists e, spec_fields i acts gs m = Err e.
  Proof.
    induction acts as [|b r IH]; intros i gs m j a Hj Hr Hl; [destruct j; discriminate|].
    cbn [ArgparseMSpec.spec_fields]. destruct j as [|j].
    - injection Hj as ->. rewrite Nat.add_0_r in Hl. rewrite Hl, Hr.
      destruct (spec_fields_missing r (S i) gs) as [e ->]. eauto.
    - cbn [nth_error] in Hj.
      assert (X : forall m', exists e, spec_fields (S i) r gs m' = Err e).
      { intros m'. apply (IH (S i) gs m' j a Hj Hr). replace (S i + j) with (i + S j) by lia. exact Hl. }
      destruct (last_group i gs).
      + destruct (values_of b (g_toks g)); [|eauto]. destruct (X m) as [e ->]. eauto.
      + destruct (a_req b).
        * destruct (X true) as [e ->]. eauto.
        * destruct (default_value b); [|eauto]. destruct (X m) as [e ->]. eauto.
  Qed.

  Theorem I1_required ab acts j a :
    NoDup (map a_dest acts) -> opts_dashed acts = true ->
    nth_error acts j = Some a -> a_req a = true -> exists e, parse_args ab acts [] = Err e.
  Proof.
    intros N D Hj Hr. rewrite (I1_empty ab acts N D). unfold ArgparseMSpec.spec_empty.
    apply (spec_fields_required acts 0 [] false j a Hj Hr). reflexivity.
  Qed.

  (* I5 (required), for any well-formed command line *)
  Theorem I5_required ab acts gs j a :
    NoDup (map a_dest acts) -> opts_dashed acts = true -> forallb (group_ok ab acts) gs = true ->
    nth_error acts j = Some a -> a_req a = true -> ~ In j (map g_idx gs) ->
    exists e, parse_args ab acts (flatten gs) = Err e.
  Proof.
    intros N D H Hj Hr Hnin. rewrite (per_field ab acts gs N D H). unfold ArgparseMSpec.spec_groups.
    destruct (group_values acts gs); [|eauto].
    apply (spec_fields_required acts 0 gs false j a Hj Hr). cbn [Nat.add].
    pose proof (last_group_spec j gs) as LS. destruct (last_group j gs) as [g|]; [|reflexivity].
    destruct LS as [Hin [Hidx _]]. exfalso. apply Hnin. rewrite <- Hidx. now apply in_map.
  Qed.

  (* ====================================================================== *)
  (* permutation invariance (distinct destinations among the written groups)  *)
  (* ====================================================================== *)
  Definition gval acts (g : group) : res (string * storedT) :=
    match nth_error acts (g_idx g) with
    | None => Err (Exit 2)
    | Some a => match values_of a (g_toks g) with Ok v => Ok (a_dest a, v) | Err e => Err e end
    end.

  Lemma group_values_map acts gs : forall occs,
    group_values acts gs = Ok occs <-> map (gval acts) gs = map Ok occs.
  Proof.
    induction gs as [|g gs IH]; intros occs; cbn [ArgparseMSpec.group_values map].
    - split; intros H.
      + injection H as <-. reflexivity.
      + destruct occs; [reflexivity | discriminate].
    - unfold gval at 1. destruct (nth_error acts (g_idx g)) as [a|].
      + destruct (values_of a (g_toks g)) as [v|e].
        * destruct (group_values acts gs) as [l|e] eqn:Hl.
          -- split; intros H.
             ++ injection H as <-. cbn [map]. f_equal. now apply IH.
             ++ destruct occs as [|p occs]; [discriminate|]. cbn [map] in H. injection H as <- H.
                apply IH in H. injection H as ->. reflexivity.
          -- split; intros H; [discriminate|].
             destruct occs as [|p occs]; [discriminate|]. cbn [map] in H. injection H as _ H.
             apply IH in H. discriminate.
        * split; intros H; [discriminate|]. destruct occs; discriminate.
      + split; intros H; [discriminate|]. destruct occs; discriminate.
  Qed.

  Lemma group_values_perm acts gs gs' occs :
    Permutation gs gs' -> group_values acts gs = Ok occs ->
    exists occs', group_values acts gs' = Ok occs' /\ Permutation occs occs'.
  Proof.
    intros P H. apply group_values_map in H.
    assert (Q : Permutation (map (gval acts) gs') (map Ok occs)).
    { rewrite <- H. apply Permutation_map, Permutation_sym, P. }
    apply Permutation_map_inv in Q as [occs' [E Q]].
    exists occs'. split; [now apply group_values_map | exact Q].
  Qed.

  Definition ns_equiv (n n' : nsT) : Prop := forall d, lookup d n = lookup d n'.

  Lemma set_ns_equiv n n' d v : ns_equiv n n' -> ns_equiv (set_ns n d v) (set_ns n' d v).
  Proof. intros H d'. rewrite !lookup_set, (H d'). reflexivity. Qed.

  (* the final loop only looks destinations up, and only asks whether an action was seen *)
  Lemma finish_equiv acts : forall i seen seen' n n' m,
    (forall j, existsb (Nat.eqb j) seen = existsb (Nat.eqb j) seen') -> ns_equiv n n' ->
    match finish i acts seen n m, finish i acts seen' n' m with
    | Ok x, Ok y => ns_equiv x y
    | Err e, Err e' => e = e'
    | _, _ => False
    end.
  Proof.
    induction acts as [|a r IH]; intros i seen seen' n n' m Hs Hn; cbn [ArgparseM.finish].
    - destruct m; [reflexivity | exact Hn].
    - rewrite <- (Hs i). destruct (existsb (Nat.eqb i) seen); [now apply IH|].
      destruct (a_req a); [now apply IH|].
      destruct (a_dflt a) as [dv| |dvs|s]; try (now apply IH).
      unfold holds_raw. rewrite <- (Hn (a_dest a)).
      destruct (match lookup (a_dest a) n with Some (SRaw s') => String.eqb s s' | _ => false end); [|now apply IH].
      destruct (cvt (a_cv a) s) as [v|e]; [|reflexivity].
      apply IH; [exact Hs | now apply set_ns_equiv].
  Qed.

  Lemma existsb_perm j (l l' : list nat) : Permutation l l' -> existsb (Nat.eqb j) l = existsb (Nat.eqb j) l'.
  Proof.
    induction 1 as [|x l l' _ IH|x y l|l l' l'' _ IH1 _ IH2]; cbn [existsb].
    - reflexivity.
    - now rewrite IH.
    - rewrite !orb_assoc, (orb_comm (Nat.eqb j y)). reflexivity.
    - now rewrite IH1.
  Qed.

  Definition dests_of acts (gs : list group) : list string :=
    map (fun g => match nth_error acts (g_idx g) with Some a => a_dest a | None => "" end) gs.

  Lemma group_values_dests acts gs : forall occs, group_values acts gs = Ok occs -> map fst occs = dests_of acts gs.
  Proof.
    induction gs as [|g gs IH]; intros occs H; cbn [ArgparseMSpec.group_values] in H.
    - injection H as <-. reflexivity.
    - unfold dests_of. cbn [map]. destruct (nth_error acts (g_idx g)) as [a|]; [|discriminate].
      destruct (values_of a (g_toks g)) as [v|]; [|discriminate].
      destruct (group_values acts gs) as [l|]; [|discriminate]. injection H as <-.
      cbn [map fst]. f_equal. now apply IH.
  Qed.

  (* writing the groups in another order gives the same result, destination by destination
     (Proofs/NamespaceProofs.v order_independent, lifted through the token loop and the final loop) *)
  Theorem permutation_invariant ab acts gs gs' n :
    opts_dashed acts = true ->
    forallb (group_ok ab acts) gs = true ->
    NoDup (dests_of acts gs) ->
    Permutation gs gs' ->
    parse_args ab acts (flatten gs) = Ok n ->
    exists n', parse_args ab acts (flatten gs') = Ok n' /\ forall d, lookup d n = lookup d n'.
  Proof.
    intros D H N P Hpa.
    assert (H' : forallb (group_ok ab acts) gs' = true).
    { rewrite forallb_forall in H |- *. intros g Hg. apply H.
      eapply Permutation_in; [apply Permutation_sym; exact P | exact Hg]. }
    rewrite (composition ab acts gs D H) in Hpa. rewrite (composition ab acts gs' D H').
    destruct (group_values acts gs) as [occs|] eqn:Hg; [|discriminate].
    destruct (group_values_perm acts gs gs' occs P Hg) as [occs' [Hg' Pocc]]. rewrite Hg'.
    assert (Hseen : forall j, existsb (Nat.eqb j) (rev (map g_idx gs)) = existsb (Nat.eqb j) (rev (map g_idx gs'))).
    { intros j. apply existsb_perm.
      eapply Permutation_trans; [apply Permutation_sym, Permutation_rev|].
      eapply Permutation_trans; [apply Permutation_map; exact P | apply Permutation_rev]. }
    assert (Hns : ns_equiv (apply_all occs (init_ns acts)) (apply_all occs' (init_ns acts))).
    { intros d. apply order_independent; [|exact Pocc].
      rewrite (group_values_dests acts gs occs Hg). exact N. }
    pose proof (finish_equiv acts 0 _ _ _ _ false Hseen Hns) as X. rewrite Hpa in X.
    destruct (finish 0 acts (rev (map g_idx gs')) (apply_all occs' (init_ns acts)) false) as [n'|]; [|contradiction].
    exists n'. split; [reflexivity | exact X].
  Qed.
End P.

Arguments dests_of {V K}. Arguments ns_of {V K}. Arguments upd {V K}. Arguments gval {V K}. Arguments ns_equiv {V}.
Arguments groups_indexed {V K}. Arguments groups_valued {V K}.

(* ====================================================================== *)
(* which tokens are argument-class: the syntactic condition of LeafSpec     *)
(* ====================================================================== *)
Lemma neg_like_inv t : neg_number_like t = true ->
  exists r, t = String "-"%char r
  /\ ((negb (String.eqb r "") && all_digits r)
      || match split_at_char "."%char r "" with
         | Some (a, b) => all_digits a && negb (String.eqb b "") && all_digits b
         | None => false end) = true.
Proof.
  destruct t as [|c r]; [discriminate|]. intros H.
  assert (E : c = "-"%char).
  { destruct c as [[] [] [] [] [] [] [] []]; try reflexivity; cbv in H; discriminate H. }
  subst c. exists r. split; [reflexivity | exact H].
Qed.

Lemma split_at_char_app c s : forall acc a b,
  split_at_char c s acc = Some (a, b) -> acc ++ s = a ++ String c b.
Proof.
  induction s as [|x r IH]; intros acc a b H; cbn [split_at_char] in H; [discriminate|].
  destruct (Ascii.eqb_spec x c) as [->|Hne].
  - injection H as <- <-. reflexivity.
  - apply IH in H. rewrite append_assoc in H. exact H.
Qed.

Lemma split_at_char_none c s : forall acc, has_char c s = false -> split_at_char c s acc = None.
Proof.
  induction s as [|x r IH]; intros acc H; cbn [split_at_char has_char] in *; [reflexivity|].
  apply orb_false_iff in H as [H1 H2]. rewrite H1. apply IH, H2.
Qed.

Lemma has_char_app x a b : has_char x (a ++ b) = has_char x a || has_char x b.
Proof. induction a as [|c r IH]; cbn [has_char append]; [reflexivity|]. now rewrite IH, orb_assoc. Qed.

Lemma all_digits_cons a r : all_digits (String a r) = is_digit a && all_digits r.
Proof. reflexivity. Qed.

Lemma all_digits_no c s :
  (forall a, is_digit a = true -> Ascii.eqb a c = false) -> all_digits s = true -> has_char c s = false.
Proof.
  intros Hc. induction s as [|a r IH]; [reflexivity|]. rewrite all_digits_cons. cbn [has_char].
  intros H. apply andb_true_iff in H as [Ha Hr]. now rewrite (Hc a Ha), (IH Hr).
Qed.

Lemma digit_not_eq a : is_digit a = true -> Ascii.eqb a "="%char = false.
Proof. intros H. destruct (Ascii.eqb_spec a "="%char) as [->|]; [vm_compute in H; discriminate | reflexivity]. Qed.

(* a negative-number-like token: '-' then a digit or '.', and no '=' anywhere *)
Lemma neg_like_shape t : neg_number_like t = true ->
  exists c r, t = String "-"%char (String c r)
  /\ (is_digit c || Ascii.eqb c "."%char) = true /\ has_char "="%char t = false.
Proof.
  intros H. apply neg_like_inv in H as [r [-> H]]. apply orb_true_iff in H as [H|H].
  - apply andb_true_iff in H as [Hne Hd]. destruct r as [|c r']; [discriminate|].
    exists c, r'. split; [reflexivity|]. rewrite all_digits_cons in Hd.
    pose proof Hd as Hd0. apply andb_true_iff in Hd0 as [Hc _]. split; [now rewrite Hc|].
    change (has_char "="%char (String "-"%char (String c r'))) with (false || has_char "="%char (String c r')).
    apply (all_digits_no "="%char _ digit_not_eq). rewrite all_digits_cons. exact Hd.
  - destruct (split_at_char "."%char r "") as [[a b]|] eqn:E; [|discriminate].
    apply andb_true_iff in H as [H Hb]. apply andb_true_iff in H as [Ha Hbne].
    apply split_at_char_app in E. cbn [append] in E. subst r.
    assert (Hno : has_char "="%char (a ++ String "."%char b) = false).
    { rewrite has_char_app. cbn [has_char].
      rewrite (all_digits_no "="%char a digit_not_eq Ha), (all_digits_no "="%char b digit_not_eq Hb). reflexivity. }
    destruct a as [|c a'].
    + exists "."%char, b. repeat split. exact Hno.
    + exists c, (a' ++ String "."%char b). split; [reflexivity|]. rewrite all_digits_cons in Ha.
      apply andb_true_iff in Ha as [Hc _]. split; [now rewrite Hc | exact Hno].
Qed.

Lemma digit_free_contra c r :
  (is_digit c || Ascii.eqb c "."%char) = true -> digit_free_opt (String "-"%char (String c r)) = false.
Proof. intros H. cbn [digit_free_opt]. now rewrite H. Qed.

Lemma flat_map_nil {A B} (f : A -> list B) l : (forall x, In x l -> f x = []) -> flat_map f l = [].
Proof.
  induction l as [|x r IH]; intros H; cbn [flat_map]; [reflexivity|].
  rewrite (H x (or_introl eq_refl)), IH; [reflexivity | intros y Hy; apply H; now right].
Qed.

Lemma prefixb_two c r o :
  prefixb (String "-"%char (String c r)) o = true -> exists r', o = String "-"%char (String c r').
Proof.
  destruct o as [|x [|y q]]; cbn [prefixb]; try discriminate.
  - rewrite andb_false_r. discriminate.
  - intros H. apply andb_true_iff in H as [H1 H]. apply andb_true_iff in H as [H2 _].
    apply Ascii.eqb_eq in H1, H2. subst. eauto.
Qed.

Section Plain.
  Variable V : Type.
  Variable K : Type.
  Implicit Types (acts : list (act V K)).

  Lemma tbl_opts acts o i : In (o, i) (all_opts 0 acts) ->
    opts_dashed acts = true -> digit_free_opts acts = true -> prefixb "-" o = true /\ digit_free_opt o = true.
  Proof.
    intros Hin D F. apply (all_opts_In V K) in Hin as [j [a [_ [Hn Ho]]]].
    unfold opts_dashed in D. unfold digit_free_opts in F. rewrite forallb_forall in D, F.
    specialize (D a (nth_error_In _ _ Hn)). specialize (F a (nth_error_In _ _ Hn)).
    rewrite forallb_forall in D, F. split; [apply D, Ho | apply F, Ho].
  Qed.

  Lemma lookup_opt_none_of tbl t : (forall i, ~ In (t, i) tbl) -> lookup_opt tbl t = None.
  Proof.
    intros H. destruct (lookup_opt tbl t) as [i|] eqn:E; [|reflexivity].
    apply lookup_opt_In in E. exfalso. exact (H i E).
  Qed.

  (* LeafSpec.token_plain is enough when no option string looks like `-<digit>...` or `-.` *)
  Theorem plain_sufficient ab acts t :
    opts_dashed acts = true -> digit_free_opts acts = true ->
    token_plain t = true -> tok_plain ab acts t = true.
  Proof.
    intros D F H. unfold tok_plain. unfold token_plain in H. apply orb_true_iff in H as [H|H].
    - apply negb_true_iff in H. now rewrite classify_nondash.
    - destruct (neg_like_shape t H) as [c [r [-> [Hc Heq]]]].
      set (t := String "-"%char (String c r)) in *. set (tbl := all_opts 0 acts).
      assert (Hnot : forall o i, In (o, i) tbl -> forall r', o <> String "-"%char (String c r')).
      { intros o i Hin r' ->. destruct (tbl_opts acts _ i Hin D F) as [_ X].
        rewrite (digit_free_contra c r' Hc) in X. discriminate. }
      assert (Hlook : lookup_opt tbl t = None).
      { apply lookup_opt_none_of. intros i Hin. exact (Hnot _ i Hin r eq_refl). }
      assert (Hneg : has_neg tbl = false).
      { unfold has_neg. destruct (existsb (fun p => neg_number_like (fst p)) tbl) eqn:E; [|reflexivity].
        apply existsb_exists in E as [[o i] [Hin Ho]]. cbn [fst] in Ho.
        destruct (neg_like_shape o Ho) as [c' [r' [-> [Hc' _]]]].
        destruct (tbl_opts acts _ i Hin D F) as [_ X]. rewrite (digit_free_contra c' r' Hc') in X. discriminate. }
      assert (Hcd : Ascii.eqb "-"%char c = false).
      { destruct (Ascii.eqb_spec "-"%char c) as [<-|]; [vm_compute in Hc; discriminate | reflexivity]. }
      unfold classify, t. cbv beta iota. fold t. fold tbl.
      rewrite Ascii.eqb_refl. cbn [negb]. rewrite Hlook.
      change (Nat.eqb (String.length t) 1) with false. cbv beta iota.
      unfold split_eq. rewrite (split_at_char_none _ _ "" Heq).
      assert (Hdd : starts_dd t = false).
      { unfold starts_dd, t. cbn [prefixb]. rewrite Ascii.eqb_refl, Hcd. reflexivity. }
      rewrite Hdd, Hneg.
      rewrite flat_map_nil.
      + rewrite H. reflexivity.
      + intros [o i] Hin. cbn [fst snd].
        destruct (String.eqb o (first2 t)) eqn:E1.
        { apply String.eqb_eq in E1. exfalso. exact (Hnot o i Hin "" E1). }
        destruct (prefixb t o) eqn:E2; [|reflexivity].
        apply prefixb_two in E2 as [r' ->]. exfalso. exact (Hnot _ i Hin r' eq_refl).
  Qed.

  Corollary tokens_plain_sufficient ab acts ts :
    opts_dashed acts = true -> digit_free_opts acts = true ->
    forallb token_plain ts = true -> tokens_plain ab acts ts = true.
  Proof.
    intros D F H. unfold tokens_plain. rewrite forallb_forall in H |- *.
    intros t Ht. apply plain_sufficient; auto.
  Qed.
End Plain.

(* ====================================================================== *)
(* BRIDGE: Model/Leaf.v take_values is this model's handling of one group   *)
(* ====================================================================== *)
Section Bridge.
  Variable str2bool : string -> option bool.
  Variable enum_miss_cls : string.
  Notation lconvert := (Leaf.convert str2bool enum_miss_cls).
  Notation ltake := (Leaf.take_values str2bool enum_miss_cls).

  (* the model instantiated with Leaf's values and converters (a converter that does not depend on the position
     of the token in the group: everything but the heterogeneous-tuple converter KSeq) *)
  Definition lcvt (k : Leaf.conv) (s : string) : res value := lconvert k 0 s.
  Definition idx_free (k : Leaf.conv) : Prop := forall i s, lconvert k i s = lconvert k 0 s.

  Fixpoint no_seq (k : Leaf.conv) : bool :=
    match k with KSeq _ => false | KOptional k' => no_seq k' | _ => true end.

  Lemma no_seq_idx_free k : no_seq k = true -> idx_free k.
  Proof.
    induction k; intros H i s; try reflexivity; try discriminate.
    cbn [no_seq] in H. cbn [Leaf.convert]. rewrite (IHk H i s). reflexivity.
  Qed.

  Definition na_of (n : Leaf.nargs) : nargs_t :=
    match n with NOne => NaOne | NOpt => NaOpt | NStar => NaStar | NNum m => NaNum m end.
  Definition st_of (r : raw) : stored value :=
    match r with ROne v => SOne v | RNone => SNone | RMany vs => SMany vs end.
  Definition lift (r : res raw) : res (stored value) := match r with Ok x => Ok (st_of x) | Err e => Err e end.
  Definition choices_of (c : option (list string)) : option (list value) := option_map (map VStr) c.

  Definition leaf_arity_ok (n : Leaf.nargs) (toks : list string) : bool :=
    match n with
    | NOne => Nat.eqb (List.length toks) 1
    | NOpt => Nat.leb (List.length toks) 1
    | NStar => true
    | NNum m => Nat.eqb (List.length toks) m
    end.

  Lemma bridge_arity n toks : admissible (na_of n) (List.length toks) = leaf_arity_ok n toks.
  Proof.
    unfold admissible. destruct n as [| | |m]; cbn [na_of count_for leaf_arity_ok].
    - destruct (List.length toks) as [|[|k]]; reflexivity.
    - destruct (List.length toks) as [|[|k]]; reflexivity.
    - cbn [opt_eqb]. apply Nat.eqb_refl.
    - destruct (Nat.leb m (List.length toks)) eqn:E; cbn [opt_eqb].
      + apply Nat.eqb_sym.
      + apply Nat.leb_gt in E. symmetry. apply Nat.eqb_neq. lia.
  Qed.

  Lemma bridge_conv_all k : idx_free k -> forall toks i,
    Leaf.convert_all str2bool enum_miss_cls k i toks = conv_all lcvt k toks.
  Proof.
    intros F. induction toks as [|s r IH]; intros i; cbn [Leaf.convert_all conv_all]; [reflexivity|].
    unfold lcvt at 1. rewrite (F i s). destruct (lconvert k 0 s); [|reflexivity]. rewrite IH. reflexivity.
  Qed.

  Lemma bridge_choice (a : act value Leaf.conv) choices v :
    a_choices a = choices_of choices -> check_choice value_eqb a v = Leaf.check_choice choices v.
  Proof.
    intros E. unfold check_choice, Leaf.check_choice. rewrite E. clear E. destruct choices as [cs|]; [|reflexivity].
    cbn [choices_of option_map]. induction cs as [|c r IH]; cbn [map existsb].
    - destruct v; reflexivity.
    - rewrite IH. destruct v; reflexivity.
  Qed.

  Lemma bridge_choices (a : act value Leaf.conv) choices vs :
    a_choices a = choices_of choices ->
    forallb (check_choice value_eqb a) vs = forallb (Leaf.check_choice choices) vs.
  Proof.
    intros E. induction vs as [|v r IH]; cbn [forallb]; [reflexivity|]. now rewrite IH, (bridge_choice a choices v E).
  Qed.

  (* for an admissible number of tokens, the model's per-group value IS Leaf.take_values *)
  Theorem bridge_take_values (a : act value Leaf.conv) n k choices toks :
    a_na a = na_of n -> a_cv a = k -> a_choices a = choices_of choices -> idx_free k ->
    admissible (na_of n) (List.length toks) = true ->
    values_of lcvt value_eqb a toks = lift (ltake n k choices toks).
  Proof.
    intros En Ek Ec F A. rewrite bridge_arity in A.
    unfold Leaf.take_values. fold (leaf_arity_ok n toks). rewrite A. cbn [negb].
    rewrite (bridge_conv_all k F toks 0). unfold values_of. rewrite En, Ek.
    destruct n as [| | |m]; cbn [na_of leaf_arity_ok] in *.
    - destruct toks as [|s [|s2 r]]; try discriminate. cbn [conv_all].
      destruct (lcvt k s) as [v|e]; [|reflexivity]. cbn [forallb]. rewrite andb_true_r.
      rewrite (bridge_choice a choices v Ec). destruct (Leaf.check_choice choices v); reflexivity.
    - destruct toks as [|s [|s2 r]]; try discriminate.
      + reflexivity.
      + cbn [conv_all]. destruct (lcvt k s) as [v|e]; [|reflexivity]. cbn [forallb]. rewrite andb_true_r.
        rewrite (bridge_choice a choices v Ec). destruct (Leaf.check_choice choices v); reflexivity.
    - destruct (conv_all lcvt k toks) as [vs|e]; [|destruct toks as [|? [|? ?]]; reflexivity].
      rewrite (bridge_choices a choices vs Ec).
      destruct (forallb (Leaf.check_choice choices) vs); destruct toks as [|? [|? ?]]; reflexivity.
    - destruct (conv_all lcvt k toks) as [vs|e]; [|destruct toks as [|? [|? ?]]; reflexivity].
      rewrite (bridge_choices a choices vs Ec).
      destruct (forallb (Leaf.check_choice choices) vs); destruct toks as [|? [|? ?]]; reflexivity.
  Qed.

  (* for any other number of tokens Leaf.take_values answers argparse's error path *)
  Theorem bridge_take_values_arity n k choices toks :
    admissible (na_of n) (List.length toks) = false -> ltake n k choices toks = Err (Exit 2).
  Proof.
    intros A. rewrite bridge_arity in A. unfold Leaf.take_values. fold (leaf_arity_ok n toks). rewrite A. reflexivity.
  Qed.

  (* hence: one group of the token-level model = the per-field model of C02/C04 *)
  Corollary bridge_group_step (acts : list (act value Leaf.conv)) ns0 seen ex i o a n k choices toks rest :
    nth_error acts i = Some a ->
    a_na a = na_of n -> a_cv a = k -> a_choices a = choices_of choices -> idx_free k ->
    admissible (na_of n) (List.length toks) = true ->
    head_not_A rest ->
    run lcvt value_eqb acts ns0 seen ex 0 ((o, CO i o None) :: asA toks ++ rest) =
      match ltake n k choices toks with
      | Ok r => run lcvt value_eqb acts (set_ns ns0 (a_dest a) (st_of r)) (i :: seen) ex 0 rest
      | Err e => Err e
      end.
  Proof.
    intros Hn En Ek Ec F A Hr.
    assert (A' : admissible (a_na a) (List.length toks) = true) by (rewrite En; exact A).
    rewrite (I2_group_step _ _ lcvt value_eqb acts ns0 seen ex i o a toks rest Hn A' Hr).
    rewrite (bridge_take_values a n k choices toks En Ek Ec F A).
    destruct (ltake n k choices toks); reflexivity.
  Qed.
End Bridge.

(* ====================================================================== *)
(* I3 for a whole command line: the twin relation of the specification      *)
(* ====================================================================== *)
Section Twin.
  Variable V : Type.
  Variable K : Type.
  Variable cvt : K -> string -> res V.
  Variable veqb : V -> V -> bool.
  Notation run := (run cvt veqb).
  Implicit Types (acts : list (act V K)).

  Lemma count_for_le n avail k : count_for n avail = Some k -> k <= avail.
  Proof.
    destruct n as [| | | |m]; cbn [count_for]; intros H.
    - destruct (Nat.leb_spec 1 avail); [injection H as <-; lia | discriminate].
    - injection H as <-. destruct avail; lia.
    - injection H as <-. lia.
    - destruct (Nat.leb_spec 1 avail); [injection H as <-; lia | discriminate].
    - destruct (Nat.leb_spec m avail); [injection H as <-; lia | discriminate].
  Qed.

  (* two classified token lists that the token loop cannot tell apart, from any state *)
  Definition same_run acts (r r' : list (string * cls)) : Prop :=
    count_A r = count_A r'
    /\ (forall k, k <= count_A r -> map fst (firstn k r) = map fst (firstn k r'))
    /\ (forall k n seen ex, k <= count_A r -> run acts n seen ex k r = run acts n seen ex k r')
    /\ existsb (fun p => is_ambig (snd p)) r = existsb (fun p => is_ambig (snd p)) r'.

  Lemma same_run_refl acts r : same_run acts r r.
  Proof. repeat split. Qed.

  Lemma same_run_cons acts t c r r' : same_run acts r r' -> same_run acts ((t, c) :: r) ((t, c) :: r').
  Proof.
    intros [Hc [Hf [Hr Ha]]]. split; [|split; [|split]].
    - cbn [count_A]. destruct c; try reflexivity. now rewrite Hc.
    - intros k Hk. destruct k as [|k]; [reflexivity|]. cbn [firstn map]. f_equal.
      apply Hf. cbn [count_A] in Hk. destruct c; try lia.
    - intros k n seen ex Hk. destruct k as [|k].
      + cbn [ArgparseM.run]. destruct c as [|i o expl| |].
        * apply Hr. lia.
        * destruct (nth_error acts i) as [a|]; [|reflexivity]. destruct expl as [e|].
          -- destruct (count_for (a_na a) 1) as [[|[|q]]|]; try reflexivity.
             destruct (values_of cvt veqb a [e]); [|reflexivity]. apply Hr. lia.
          -- rewrite <- Hc. destruct (count_for (a_na a) (count_A r)) as [q|] eqn:Eq; [|reflexivity].
             apply count_for_le in Eq. rewrite <- (Hf q Eq).
             destruct (values_of cvt veqb a (map fst (firstn q r))); [|reflexivity]. apply Hr. exact Eq.
        * apply Hr. lia.
        * reflexivity.
      + cbn [ArgparseM.run]. apply Hr. cbn [count_A] in Hk. destruct c; try lia.
    - cbn [existsb]. now rewrite Ha.
  Qed.

  Lemma same_run_eq acts t i o e a r r' :
    nth_error acts i = Some a -> takes_one_of (a_na a) (count_A r) = true -> same_run acts r r' ->
    same_run acts ((t, CO i o (Some e)) :: r) ((o, CO i o None) :: (e, CA) :: r').
  Proof.
    intros Hn H1 S.
    pose proof (same_run_cons acts o (CO i o None) _ _ (same_run_cons acts e CA _ _ S)) as [_ [_ [Hr Ha]]].
    split; [|split; [|split]].
    - reflexivity.
    - intros k Hk. cbn [count_A] in Hk. replace k with 0 by lia. reflexivity.
    - intros k n seen ex Hk. cbn [count_A] in Hk. replace k with 0 by lia.
      rewrite (I3_eq_spelling V K cvt veqb acts n seen ex t i o e a r Hn H1). apply Hr. cbn [count_A]. lia.
    - cbn [existsb snd is_ambig orb] in Ha |- *. exact Ha.
  Qed.

  Lemma twin_same_run ab acts : opts_dashed acts = true -> forall argv argv',
    twin_ok ab acts argv argv' = true -> same_run acts (lex ab acts argv) (lex ab acts argv').
  Proof.
    intros D. induction argv as [|t r IH]; intros argv' H; destruct argv' as [|t' r']; cbn [twin_ok] in H;
      try discriminate; [apply same_run_refl|].
    apply orb_true_iff in H as [H|H].
    - apply andb_true_iff in H as [He Hr]. apply String.eqb_eq in He. subst t'.
      change (lex ab acts (t :: r)) with ((t, classify ab (all_opts 0 acts) (has_neg (all_opts 0 acts)) t) :: lex ab acts r).
      change (lex ab acts (t :: r')) with ((t, classify ab (all_opts 0 acts) (has_neg (all_opts 0 acts)) t) :: lex ab acts r').
      apply same_run_cons, IH, Hr.
    - change (lex ab acts (t :: r)) with ((t, classify ab (all_opts 0 acts) (has_neg (all_opts 0 acts)) t) :: lex ab acts r).
      destruct (classify ab (all_opts 0 acts) (has_neg (all_opts 0 acts)) t) as [|i o [e|]| |]; try discriminate.
      destruct r' as [|e' r'']; [discriminate|].
      repeat (apply andb_true_iff in H as [H ?]).
      apply String.eqb_eq in H. subst t'.
      match goal with X : String.eqb e e' = true |- _ => apply String.eqb_eq in X; subst e' end.
      match goal with X : opt_eqb Nat.eqb (lookup_opt _ o) (Some i) = true |- _ => rename X into HL end.
      match goal with X : prefixb "-" o = true |- _ => rename X into HD end.
      match goal with X : tok_plain ab acts e = true |- _ => rename X into HP end.
      destruct (nth_error acts i) as [a|] eqn:Hn; [|discriminate].
      assert (L : lookup_opt (all_opts 0 acts) o = Some i).
      { destruct (lookup_opt (all_opts 0 acts) o) as [j|]; cbn [opt_eqb] in HL; [|discriminate].
        apply Nat.eqb_eq in HL. now subst. }
      change (lex ab acts (o :: e :: r'')) with
        ((o, classify ab (all_opts 0 acts) (has_neg (all_opts 0 acts)) o)
         :: (e, classify ab (all_opts 0 acts) (has_neg (all_opts 0 acts)) e) :: lex ab acts r'').
      rewrite (classify_exact ab _ _ o i HD L).
      unfold tok_plain in HP.
      destruct (classify ab (all_opts 0 acts) (has_neg (all_opts 0 acts)) e); try discriminate.
      apply (same_run_eq acts t i o e a _ _ Hn); [assumption | apply IH; assumption].
  Qed.

  Theorem I3_twin ab acts argv argv' :
    opts_dashed acts = true -> twin_ok ab acts argv argv' = true ->
    parse_known cvt veqb ab acts argv = parse_known cvt veqb ab acts argv'.
  Proof.
    intros D H. destruct (twin_same_run ab acts D argv argv' H) as [_ [_ [Hr Ha]]].
    unfold parse_known. rewrite Ha, (Hr 0 _ _ _ (Nat.le_0_l _)). reflexivity.
  Qed.
End Twin.
