(* Proofs/ArgparsePosProofs.v — theorems about the argparse model WITH positionals (Model/ArgparsePos.v):
   (1) without positionals it is the model of Model/ArgparseM.v (so every earlier theorem carries over);
   (2) POSITIONALS IN ORDER: with distinct destinations and fixed-arity positionals, on a command line made of option
       groups and runs of blocks, the i-th block goes to the i-th positional in declaration order (and every other
       field is decided by its own last group or its default);
   (3) too few blocks for the required positionals: error (exit status 2 when converters only fail that way). *)
From SPV Require Import Base.Str Model.Namespace Model.LeafSpec Model.ArgparseM Model.ArgparseMSpec
     Model.ArgparsePos Model.ArgparsePosSpec Proofs.NamespaceProofs Proofs.ArgparseMProofs.

(* ====================================================================== *)
(* the pattern match on fixed-arity positionals                            *)
(* ====================================================================== *)
Lemma fixed_count_inv n k : fixed_count n k = true -> fixed_na n = true /\ min_of n = k /\ 1 <= k.
Proof.
  destruct n as [| | | |[|m]]; cbn [fixed_count fixed_na min_of]; intros H; try discriminate;
    apply Nat.eqb_eq in H; subst; repeat split; lia.
Qed.

Lemma fixed_count_count n k extra : fixed_count n k = true -> count_for n (k + extra) = Some k.
Proof.
  destruct n as [| | | |[|m]]; cbn [fixed_count count_for]; intros H; try discriminate; apply Nat.eqb_eq in H; subst.
  - reflexivity.
  - destruct (Nat.leb_spec (S m) (S m + extra)); [reflexivity | lia].
Qed.

Lemma fixed_na_min n : fixed_na n = true -> 1 <= min_of n.
Proof. destruct n as [| | | |[|m]]; cbn [fixed_na min_of]; intros H; try discriminate; lia. Qed.

Lemma alloc_fixed l : forallb fixed_na l = true -> alloc l (minsum l) = map min_of l.
Proof.
  induction l as [|a r IH]; intros H; [reflexivity|].
  cbn [forallb] in H. apply andb_true_iff in H as [Ha Hr].
  cbn [alloc minsum map].
  assert (E : Nat.min (max_of a (min_of a + minsum r)) (min_of a + minsum r - minsum r) = min_of a).
  { replace (min_of a + minsum r - minsum r) with (min_of a) by lia.
    destruct a as [| | | |[|m]]; try discriminate; cbn [max_of min_of]; apply Nat.min_id. }
  rewrite E. f_equal. replace (min_of a + minsum r - min_of a) with (minsum r) by lia. exact (IH Hr).
Qed.

Lemma fit_fixed l rest :
  forallb fixed_na l = true -> match rest with [] => True | n :: _ => 1 <= min_of n end ->
  fit (l ++ rest) (minsum l) = l.
Proof.
  induction l as [|a r IH]; intros H T.
  - cbn [app minsum]. destruct rest as [|n q]; [reflexivity|]. cbn [fit].
    destruct (Nat.leb_spec (min_of n) 0); [lia | reflexivity].
  - cbn [forallb] in H. apply andb_true_iff in H as [Ha Hr]. cbn [app minsum fit].
    destruct (Nat.leb_spec (min_of a) (min_of a + minsum r)); [|lia].
    replace (min_of a + minsum r - min_of a) with (minsum r) by lia. now rewrite IH.
Qed.

Lemma firstn_len_app {A} (b r : list A) : firstn (List.length b) (b ++ r) = b.
Proof. induction b as [|x q IH]; cbn [List.length firstn app]; [reflexivity | now rewrite IH]. Qed.
Lemma skipn_len_app {A} (b r : list A) : skipn (List.length b) (b ++ r) = r.
Proof. induction b as [|x q IH]; cbn [List.length skipn app]; [reflexivity | exact IH]. Qed.

Lemma length_concat_sum (bs : list (list string)) :
  fold_right Nat.add 0 (map (@List.length string) bs) = List.length (List.concat bs).
Proof. induction bs as [|b r IH]; cbn [map fold_right List.concat]; [reflexivity|]. now rewrite app_length, IH. Qed.

Lemma asA_app x y : asA (x ++ y) = (asA x ++ asA y)%list.
Proof. unfold asA. apply map_app. Qed.

Lemma asA_no_ambigP vs : existsb (fun p => is_ambig (snd p)) (asA vs) = false.
Proof. induction vs as [|t r IH]; [reflexivity | exact IH]. Qed.

Section PP.
  Variable V : Type.
  Variable K : Type.
  Variable cvt : K -> string -> res V.
  Variable veqb : V -> V -> bool.
  Notation actT := (act V K).
  Notation storedT := (stored V).
  Notation nsT := (ns (stored V)).
  Notation run := (run cvt veqb).
  Notation runP := (runP cvt veqb).
  Notation values_of := (values_of cvt veqb).
  Notation pos_values := (pos_values cvt veqb).
  Notation apply_pos := (apply_pos cvt veqb).
  Notation consume_pos := (consume_pos cvt veqb).
  Notation finish := (finish cvt).
  Notation parse_known := (parse_known cvt veqb).
  Notation parse_args := (parse_args cvt veqb).
  Notation parse_knownP := (parse_knownP cvt veqb).
  Notation parse_argsP := (parse_argsP cvt veqb).
  Notation group_values := (group_values cvt veqb).
  Notation spec_fields := (spec_fields cvt veqb).
  Notation spec_groups := (spec_groups cvt veqb).
  Implicit Types (acts : list actT) (n : nsT) (a : actT).

  (* ====================================================================== *)
  (* (1) no positionals: the model of Model/ArgparseM.v                      *)
  (* ====================================================================== *)
  Definition no_positionals acts : bool := forallb (fun a => negb (is_positional a)) acts.

  Lemma positionals_none acts : no_positionals acts = true -> positionals acts = [].
  Proof.
    unfold positionals. generalize 0. induction acts as [|a r IH]; intros i H; [reflexivity|].
    cbn [no_positionals forallb] in H. apply andb_true_iff in H as [Ha Hr]. cbn [positionals_from].
    apply negb_true_iff in Ha. rewrite Ha. exact (IH (S i) Hr).
  Qed.

  Lemma consume_pos_none acts toks n seen : consume_pos acts [] toks n seen = Ok (n, seen, [], 0).
  Proof. reflexivity. Qed.

  Definition mode_skip (md : mode) (k : nat) : Prop := md = MOpt k \/ (md = MRun 0 /\ k = 0).

  Lemma runP_no_positionals acts : forall cs n seen ex md k, mode_skip md k ->
    runP acts [] n seen ex md cs = run acts n seen ex k cs.
  Proof.
    induction cs as [|[s c] r IH]; intros n seen ex md k M.
    - destruct M as [->|[-> ->]]; reflexivity.
    - destruct M as [->|[-> ->]].
      + destruct k as [|j].
        * destruct c as [|i o expl| |]; cbn [ArgparsePos.runP ArgparseM.run].
          -- rewrite consume_pos_none. apply IH. right. split; reflexivity.
          -- destruct (nth_error acts i) as [a|]; [|reflexivity]. destruct expl as [e|].
             ++ destruct (count_for (a_na a) 1) as [[|[|q]]|]; try reflexivity.
                destruct (values_of a [e]); [|reflexivity]. apply IH. now left.
             ++ destruct (count_for (a_na a) (count_A r)) as [q|]; [|reflexivity].
                destruct (values_of a (map fst (firstn q r))); [|reflexivity]. apply IH. now left.
          -- apply IH. now left.
          -- reflexivity.
        * destruct c; cbn [ArgparsePos.runP ArgparseM.run]; apply IH; now left.
      + destruct c as [|i o expl| |]; cbn [ArgparsePos.runP ArgparseM.run].
        * apply IH. right. split; reflexivity.
        * destruct (nth_error acts i) as [a|]; [|reflexivity]. destruct expl as [e|].
          -- destruct (count_for (a_na a) 1) as [[|[|q]]|]; try reflexivity.
             destruct (values_of a [e]); [|reflexivity]. apply IH. now left.
          -- destruct (count_for (a_na a) (count_A r)) as [q|]; [|reflexivity].
             destruct (values_of a (map fst (firstn q r))); [|reflexivity]. apply IH. now left.
        * apply IH. now left.
        * reflexivity.
  Qed.

  Theorem no_positionals_same_known ab acts argv :
    no_positionals acts = true -> parse_knownP ab acts argv = parse_known ab acts argv.
  Proof.
    intros H. unfold ArgparsePos.parse_knownP, ArgparseM.parse_known. rewrite (positionals_none acts H).
    rewrite (runP_no_positionals acts _ _ _ _ (MOpt 0) 0) by (now left). reflexivity.
  Qed.

  Theorem no_positionals_same ab acts argv :
    no_positionals acts = true -> parse_argsP ab acts argv = parse_args ab acts argv.
  Proof.
    intros H. unfold ArgparsePos.parse_argsP, ArgparseM.parse_args. now rewrite no_positionals_same_known.
  Qed.

  (* ====================================================================== *)
  (* steps of the token loop                                                 *)
  (* ====================================================================== *)
  Lemma runP_skip_opt acts posl n seen ex rest : forall pre,
    runP acts posl n seen ex (MOpt (List.length pre)) (pre ++ rest) = runP acts posl n seen ex (MOpt 0) rest.
  Proof. induction pre as [|[s c] r IH]; [reflexivity|]. destruct c; exact IH. Qed.

  Lemma runP_skip_run acts posl n seen ex rest : forall pre,
    runP acts posl n seen ex (MRun (List.length pre)) (pre ++ rest) = runP acts posl n seen ex (MRun 0) rest.
  Proof. induction pre as [|[s c] r IH]; [reflexivity|]. destruct c; exact IH. Qed.

  Lemma runP_run0_opt acts posl n seen ex s c r :
    is_A c = false ->
    runP acts posl n seen ex (MRun 0) ((s, c) :: r) = runP acts posl n seen ex (MOpt 0) ((s, c) :: r).
  Proof. destruct c; intros H; try discriminate; reflexivity. Qed.

  Lemma runP_group acts posl n seen ex i o a vs rest :
    nth_error acts i = Some a ->
    count_for (a_na a) (List.length vs + count_A rest) = Some (List.length vs) ->
    runP acts posl n seen ex (MOpt 0) ((o, CO i o None) :: asA vs ++ rest) =
      match values_of a vs with
      | Ok v => runP acts posl (set_ns n (a_dest a) v) (i :: seen) ex (MOpt 0) rest
      | Err e => Err e
      end.
  Proof.
    intros Hn Hc. cbn [ArgparsePos.runP]. rewrite Hn, count_A_asA, Hc, firstn_asA, map_fst_asA.
    destruct (values_of a vs) as [v|e]; [|reflexivity].
    rewrite <- (asA_length vs). apply runP_skip_opt.
  Qed.

  Lemma runP_start_run acts posl n seen ex t ts rest :
    head_not_A rest ->
    runP acts posl n seen ex (MOpt 0) (asA (t :: ts) ++ rest) =
      match consume_pos acts posl (t :: ts) n seen with
      | Err e => Err e
      | Ok (n', seen', posl', total) =>
          match total with
          | 0 => runP acts posl' n' seen' (ex ++ [t])%list (MRun 0) (asA ts ++ rest)
          | S k => runP acts posl' n' seen' ex (MRun k) (asA ts ++ rest)
          end
      end.
  Proof.
    intros H. change (asA (t :: ts) ++ rest)%list with ((t, CA) :: asA ts ++ rest)%list.
    cbn [ArgparsePos.runP]. cbn [count_A]. rewrite count_A_asA, H, Nat.add_0_r.
    cbn [firstn map fst]. rewrite firstn_asA, map_fst_asA. reflexivity.
  Qed.

  (* ====================================================================== *)
  (* runs of blocks                                                          *)
  (* ====================================================================== *)
  Definition pos_fixed acts (posl : list nat) : Prop := forall p, In p posl -> 1 <= min_of (na_at acts p).

  Lemma pos_values_fixed a toks : fixed_na (a_na a) = true -> pos_values a toks = values_of a toks.
  Proof.
    intros H. unfold ArgparsePos.pos_values. destruct toks; [|reflexivity].
    destruct (a_na a) as [| | | |[|m]]; try discriminate; reflexivity.
  Qed.

  Lemma blocks_nas ab acts : forall bs posl posl',
    blocks_rest ab acts posl bs = Some posl' ->
    exists l, map (na_at acts) posl = (l ++ map (na_at acts) posl')%list
              /\ forallb fixed_na l = true
              /\ minsum l = List.length (List.concat bs)
              /\ map min_of l = map (@List.length string) bs
              /\ posl = (firstn (List.length bs) posl ++ posl')%list
              /\ skipn (List.length bs) posl = posl'
              /\ tokens_plain ab acts (List.concat bs) = true.
  Proof.
    induction bs as [|b rb IH]; intros posl posl' H; cbn [blocks_rest] in H.
    - injection H as <-. exists []. repeat split.
    - destruct posl as [|p rp]; [discriminate|].
      destruct (nth_error acts p) as [a|] eqn:Hn; [|discriminate].
      destruct (is_positional a && fixed_count (a_na a) (List.length b) && tokens_plain ab acts b) eqn:C; [|discriminate].
      apply andb_true_iff in C as [C Hp]. apply andb_true_iff in C as [_ Hf].
      destruct (fixed_count_inv _ _ Hf) as [F1 [F2 _]].
      destruct (IH rp posl' H) as [l [E1 [E2 [E3 [E4 [E5 [E6 E7]]]]]]].
      assert (Na : na_at acts p = a_na a) by (unfold na_at; now rewrite Hn).
      exists (a_na a :: l). cbn [map List.length firstn skipn List.concat app forallb minsum].
      rewrite Na, E1, F1, E2, E3, F2, E4, app_length, <- E5, E6. repeat split.
      unfold tokens_plain in *. now rewrite forallb_app, Hp, E7.
  Qed.

  Lemma match_partial_blocks ab acts bs posl posl' :
    blocks_rest ab acts posl bs = Some posl' -> pos_fixed acts posl ->
    match_partial (map (na_at acts) posl) (List.length (List.concat bs)) = map (@List.length string) bs.
  Proof.
    intros H F. destruct (blocks_nas ab acts bs posl posl' H) as [l [E1 [E2 [E3 [E4 [E5 _]]]]]].
    unfold match_partial. rewrite E1, <- E3, fit_fixed; [now rewrite alloc_fixed | exact E2 |].
    destruct posl' as [|q r]; [exact I|]. cbn [map]. apply F. rewrite E5. apply in_or_app. right. now left.
  Qed.

  Lemma apply_pos_blocks ab acts : forall bs posl posl' n seen,
    blocks_rest ab acts posl bs = Some posl' ->
    apply_pos acts (combine posl (map (@List.length string) bs)) (List.concat bs) n seen =
      match group_values acts (blocks_groups posl bs) with
      | Err e => Err e
      | Ok occs => Ok (apply_all occs n, (rev (map g_idx (blocks_groups posl bs)) ++ seen)%list)
      end.
  Proof.
    induction bs as [|b rb IH]; intros posl posl' n seen H; cbn [blocks_rest] in H.
    - destruct posl; reflexivity.
    - destruct posl as [|p rp]; [discriminate|].
      destruct (nth_error acts p) as [a|] eqn:Hn; [|discriminate].
      destruct (is_positional a && fixed_count (a_na a) (List.length b) && tokens_plain ab acts b) eqn:C; [|discriminate].
      apply andb_true_iff in C as [C _]. apply andb_true_iff in C as [_ Hf].
      destruct (fixed_count_inv _ _ Hf) as [F1 _].
      cbn [map combine ArgparsePos.apply_pos List.concat blocks_groups ArgparseMSpec.group_values g_idx g_toks].
      rewrite Hn, firstn_len_app, skipn_len_app, (pos_values_fixed a b F1).
      destruct (values_of a b) as [v|e]; [|reflexivity].
      rewrite (IH rp posl' _ _ H).
      destruct (group_values acts (blocks_groups rp rb)) as [occs|e]; [|reflexivity].
      cbn [rev]. rewrite <- app_assoc. reflexivity.
  Qed.

  Lemma blocks_first_nonempty ab acts b rb posl posl' :
    blocks_rest ab acts posl (b :: rb) = Some posl' -> exists t ts, List.concat (b :: rb) = t :: ts.
  Proof.
    cbn [blocks_rest]. destruct posl as [|p rp]; [discriminate|].
    destruct (nth_error acts p) as [a|]; [|discriminate].
    destruct (is_positional a && fixed_count (a_na a) (List.length b) && tokens_plain ab acts b) eqn:C; [|discriminate].
    apply andb_true_iff in C as [C _]. apply andb_true_iff in C as [_ Hf].
    destruct (fixed_count_inv _ _ Hf) as [_ [_ L]]. intros _.
    destruct b as [|t tb]; [cbn in L; lia|]. cbn [List.concat app]. eauto.
  Qed.

  Lemma runP_blocks ab acts posl posl' bs n seen ex rest :
    blocks_rest ab acts posl bs = Some posl' -> bs <> [] -> pos_fixed acts posl -> head_not_A rest ->
    runP acts posl n seen ex (MOpt 0) (asA (List.concat bs) ++ rest) =
      match group_values acts (blocks_groups posl bs) with
      | Err e => Err e
      | Ok occs => runP acts posl' (apply_all occs n) (rev (map g_idx (blocks_groups posl bs)) ++ seen)%list ex (MRun 0) rest
      end.
  Proof.
    intros H Hne F Hr. destruct bs as [|b rb]; [congruence|].
    destruct (blocks_first_nonempty ab acts b rb posl posl' H) as [t [ts E]].
    destruct (blocks_nas ab acts (b :: rb) posl posl' H) as [l [_ [_ [_ [_ [_ [Hskip _]]]]]]].
    pose proof (match_partial_blocks ab acts (b :: rb) posl posl' H F) as MP.
    pose proof (apply_pos_blocks ab acts (b :: rb) posl posl' n seen H) as AP.
    pose proof (length_concat_sum (b :: rb)) as LS.
    rewrite E in *. rewrite (runP_start_run acts posl n seen ex t ts rest Hr).
    unfold ArgparsePos.consume_pos. rewrite MP, AP.
    destruct (group_values acts (blocks_groups posl (b :: rb))) as [occs|e]; [|reflexivity].
    rewrite map_length, Hskip, LS. cbn [List.length].
    rewrite <- (asA_length ts). apply runP_skip_run.
  Qed.

  Lemma consume_pos_nil_fixed acts posl n seen :
    pos_fixed acts posl -> consume_pos acts posl [] n seen = Ok (n, seen, posl, 0).
  Proof.
    intros F. unfold ArgparsePos.consume_pos, match_partial. cbn [List.length].
    assert (E : fit (map (na_at acts) posl) 0 = []).
    { destruct posl as [|p r]; [reflexivity|]. cbn [map fit].
      specialize (F p (or_introl eq_refl)). destruct (Nat.leb_spec (min_of (na_at acts p)) 0); [lia | reflexivity]. }
    rewrite E. cbn [alloc]. destruct posl; reflexivity.
  Qed.

  (* ====================================================================== *)
  (* well-formed command lines                                               *)
  (* ====================================================================== *)
  Definition lexed_seg (sg : seg) : list (string * cls) :=
    match sg with
    | SG g => (g_opt g, CO (g_idx g) (g_opt g) None) :: asA (g_toks g)
    | SR bs => asA (List.concat bs)
    end.
  Definition lexed_segs (segs : list seg) : list (string * cls) := flat_map lexed_seg segs.

  Definition mode_of (pv : prev) : mode := match pv with PRun => MRun 0 | _ => MOpt 0 end.

  Lemma segs_rest_head ab acts posl pv segs rest :
    (pv = PVar \/ pv = PRun) -> segs_rest ab acts posl pv segs = Some rest -> head_not_A (lexed_segs segs).
  Proof.
    intros Hp H. destruct segs as [|[g|bs] r]; [reflexivity | reflexivity |].
    exfalso. cbn [segs_rest] in H. destruct Hp as [-> | ->]; discriminate.
  Qed.

  Lemma lex_segs ab acts : opts_dashed acts = true -> forall segs posl pv rest,
    segs_rest ab acts posl pv segs = Some rest -> lex ab acts (flatten_segs segs) = lexed_segs segs.
  Proof.
    intros D. induction segs as [|[g|bs] r IH]; intros posl pv rest H; [reflexivity| |];
      cbn [segs_rest] in H; unfold flatten_segs in *; cbn [map List.concat seg_tokens lexed_segs flat_map lexed_seg];
      rewrite lex_app.
    - destruct (group_ok ab acts g) eqn:G; [|discriminate].
      destruct (nth_error acts (g_idx g)) as [a|]; [|discriminate].
      destruct (group_ok_inv _ _ ab acts g G) as [HL [_ HP]].
      rewrite (IH _ _ _ H). unfold group_tokens.
      change (g_opt g :: g_toks g)%list with ([g_opt g] ++ g_toks g)%list.
      rewrite lex_app, (lex_exact _ _ ab acts _ _ D HL), (lex_plain _ _ ab acts _ HP). reflexivity.
    - assert (X : exists posl', blocks_rest ab acts posl bs = Some posl' /\ segs_rest ab acts posl' PRun r = Some rest).
      { destruct pv; destruct bs as [|b rb]; try discriminate;
          (destruct (blocks_rest ab acts posl (b :: rb)) as [posl'|]; [eauto | discriminate]). }
      destruct X as [posl' [HB HS]].
      destruct (blocks_nas ab acts bs posl posl' HB) as [_ [_ [_ [_ [_ [_ [_ HP]]]]]]].
      rewrite (IH _ _ _ HS), (lex_plain _ _ ab acts _ HP). reflexivity.
  Qed.

  Lemma lexed_segs_no_ambig segs : existsb (fun p => is_ambig (snd p)) (lexed_segs segs) = false.
  Proof.
    induction segs as [|[g|bs] r IH]; [reflexivity| |]; cbn [lexed_segs flat_map lexed_seg]; fold (lexed_segs r).
    - cbn [app existsb snd is_ambig orb]. now rewrite existsb_app, asA_no_ambigP, IH.
    - now rewrite existsb_app, asA_no_ambigP, IH.
  Qed.

  Lemma group_values_app acts g1 g2 :
    group_values acts (g1 ++ g2) =
      match group_values acts g1 with
      | Err e => Err e
      | Ok o1 => match group_values acts g2 with Err e => Err e | Ok o2 => Ok (o1 ++ o2)%list end
      end.
  Proof.
    induction g1 as [|g r IH]; cbn [app ArgparseMSpec.group_values].
    - destruct (group_values acts g2); reflexivity.
    - destruct (nth_error acts (g_idx g)) as [a|]; [|reflexivity].
      destruct (values_of a (g_toks g)) as [v|e]; [|reflexivity]. rewrite IH.
      destruct (group_values acts r) as [o1|e]; [|reflexivity].
      destruct (group_values acts g2); reflexivity.
  Qed.

  Lemma apply_all_app (o1 o2 : list (string * storedT)) n : apply_all (o1 ++ o2) n = apply_all o2 (apply_all o1 n).
  Proof. unfold apply_all. apply fold_left_app. Qed.

  Lemma pos_fixed_rest ab acts posl bs posl' :
    blocks_rest ab acts posl bs = Some posl' -> pos_fixed acts posl -> pos_fixed acts posl'.
  Proof.
    intros H F p Hp. destruct (blocks_nas ab acts bs posl posl' H) as [_ [_ [_ [_ [_ [E _]]]]]].
    apply F. rewrite E. apply in_or_app. now right.
  Qed.

  (* the token loop over a well-formed command line is the fold of the per-segment results, blocks attributed to the
     positionals in declaration order *)
  Lemma runP_segs ab acts : forall segs posl pv rest n seen,
    segs_rest ab acts posl pv segs = Some rest -> pos_fixed acts posl ->
    runP acts posl n seen [] (mode_of pv) (lexed_segs segs) =
      match group_values acts (as_groups posl segs) with
      | Err e => Err e
      | Ok occs => Ok (apply_all occs n, (rev (map g_idx (as_groups posl segs)) ++ seen)%list, [])
      end.
  Proof.
    induction segs as [|[g|bs] r IH]; intros posl pv rest n seen H F.
    - cbn [lexed_segs flat_map as_groups ArgparseMSpec.group_values ArgparsePos.runP].
      destruct pv; cbn [mode_of]; try reflexivity; now rewrite (consume_pos_nil_fixed acts posl n seen F).
    - cbn [segs_rest] in H.
      destruct (group_ok ab acts g) eqn:G; [|discriminate].
      destruct (nth_error acts (g_idx g)) as [a|] eqn:Hn; [|discriminate].
      destruct (group_ok_inv _ _ ab acts g G) as [_ [[a' [Hn' Hadm]] _]].
      assert (a' = a) by congruence. subst a'.
      cbn [lexed_segs flat_map lexed_seg]. fold (lexed_segs r).
      change (((g_opt g, CO (g_idx g) (g_opt g) None) :: asA (g_toks g)) ++ lexed_segs r)%list
        with ((g_opt g, CO (g_idx g) (g_opt g) None) :: asA (g_toks g) ++ lexed_segs r)%list.
      assert (M : runP acts posl n seen [] (mode_of pv) ((g_opt g, CO (g_idx g) (g_opt g) None) :: asA (g_toks g) ++ lexed_segs r)
                  = runP acts posl n seen [] (MOpt 0) ((g_opt g, CO (g_idx g) (g_opt g) None) :: asA (g_toks g) ++ lexed_segs r))
        by (destruct pv; reflexivity).
      rewrite M. clear M.
      assert (Hc : count_for (a_na a) (List.length (g_toks g) + count_A (lexed_segs r)) = Some (List.length (g_toks g))).
      { destruct (fixed_count (a_na a) (List.length (g_toks g))) eqn:Fx.
        - apply fixed_count_count, Fx.
        - rewrite (segs_rest_head ab acts posl PVar r rest (or_introl eq_refl) H), Nat.add_0_r.
          unfold admissible in Hadm. destruct (count_for (a_na a) (List.length (g_toks g))) as [k|]; [|discriminate].
          cbn [opt_eqb] in Hadm. apply Nat.eqb_eq in Hadm. now subst. }
      rewrite (runP_group acts posl n seen [] _ _ a _ _ Hn Hc).
      cbn [as_groups ArgparseMSpec.group_values]. rewrite Hn.
      destruct (values_of a (g_toks g)) as [v|e]; [|reflexivity].
      set (pv' := if fixed_count (a_na a) (List.length (g_toks g)) then PFixed else PVar) in H.
      assert (M : mode_of pv' = MOpt 0) by (unfold pv'; destruct (fixed_count (a_na a) (List.length (g_toks g))); reflexivity).
      rewrite <- M, (IH posl pv' rest _ _ H F).
      destruct (group_values acts (as_groups posl r)) as [occs|e]; [|reflexivity].
      cbn [map rev]. rewrite <- app_assoc. reflexivity.
    - cbn [segs_rest] in H.
      assert (X : exists posl', (pv = PStart \/ pv = PFixed) /\ bs <> [] /\ blocks_rest ab acts posl bs = Some posl'
                                /\ segs_rest ab acts posl' PRun r = Some rest).
      { destruct pv; destruct bs as [|b rb]; try discriminate;
          (destruct (blocks_rest ab acts posl (b :: rb)) as [posl'|]; [|discriminate]);
          exists posl'; repeat split; auto; discriminate. }
      destruct X as [posl' [Hpv [Hne [HB HS]]]].
      assert (M : mode_of pv = MOpt 0) by (destruct Hpv as [-> | ->]; reflexivity).
      rewrite M. cbn [lexed_segs flat_map lexed_seg]. fold (lexed_segs r).
      rewrite (runP_blocks ab acts posl posl' bs n seen [] _ HB Hne F
                 (segs_rest_head ab acts posl' PRun r rest (or_intror eq_refl) HS)).
      destruct (blocks_nas ab acts bs posl posl' HB) as [_ [_ [_ [_ [_ [_ [Hskip _]]]]]]].
      cbn [as_groups]. rewrite Hskip, group_values_app.
      destruct (group_values acts (blocks_groups posl bs)) as [o1|e]; [|reflexivity].
      change (MRun 0) with (mode_of PRun).
      rewrite (IH posl' PRun rest _ _ HS (pos_fixed_rest ab acts posl bs posl' HB F)).
      destruct (group_values acts (as_groups posl' r)) as [o2|e]; [|reflexivity].
      rewrite apply_all_app, map_app, rev_app_distr, <- app_assoc. reflexivity.
  Qed.

  (* ---------- the positionals of a parser ---------- *)
  Lemma positionals_from_spec : forall (r pre : list actT) p,
    In p (positionals_from (List.length pre) r) ->
    exists a, nth_error (pre ++ r) p = Some a /\ is_positional a = true /\ List.length pre <= p.
  Proof.
    induction r as [|a r IH]; intros pre p H; cbn [positionals_from] in H; [contradiction|].
    assert (IH' : In p (positionals_from (S (List.length pre)) r) ->
                  exists a0, nth_error (pre ++ a :: r) p = Some a0 /\ is_positional a0 = true /\ List.length pre <= p).
    { intros Hin. replace (S (List.length pre)) with (List.length (pre ++ [a])) in Hin by (rewrite app_length; cbn; lia).
      destruct (IH (pre ++ [a])%list p Hin) as [a0 [E1 [E2 E3]]]. rewrite <- app_assoc in E1.
      rewrite app_length in E3. cbn in E3. exists a0. repeat split; [exact E1 | exact E2 | lia]. }
    destruct (is_positional a) eqn:Pa; [|exact (IH' H)].
    destruct H as [<-|H]; [|exact (IH' H)].
    exists a. rewrite nth_error_app2, Nat.sub_diag by lia. repeat split; [exact Pa | lia].
  Qed.

  Lemma positionals_spec acts p : In p (positionals acts) -> exists a, nth_error acts p = Some a /\ is_positional a = true.
  Proof.
    intros H. destruct (positionals_from_spec acts [] p H) as [a [E1 [E2 _]]]. eauto.
  Qed.

  Lemma positionals_from_nodup : forall (r : list actT) i, NoDup (positionals_from i r) /\ forall p, In p (positionals_from i r) -> i <= p.
  Proof.
    induction r as [|a r IH]; intros i; cbn [positionals_from]; [split; [constructor | contradiction]|].
    destruct (IH (S i)) as [N L]. destruct (is_positional a).
    - split.
      + constructor; [|exact N]. intros Hin. specialize (L i Hin). lia.
      + intros p [<-|Hp]; [lia | specialize (L p Hp); lia].
    - split; [exact N|]. intros p Hp. specialize (L p Hp). lia.
  Qed.

  Lemma positionals_fixed acts : fixed_positionals acts = true -> pos_fixed acts (positionals acts).
  Proof.
    intros H p Hp. destruct (positionals_spec acts p Hp) as [a [Hn Pa]].
    unfold na_at. rewrite Hn. apply fixed_na_min.
    unfold fixed_positionals in H. rewrite forallb_forall in H.
    specialize (H a (nth_error_In _ _ Hn)). rewrite Pa in H. exact H.
  Qed.

  (* ====================================================================== *)
  (* (2) POSITIONALS IN ORDER                                                *)
  (* ====================================================================== *)
  Lemma parse_argsP_segs ab acts segs rest :
    opts_dashed acts = true -> fixed_positionals acts = true ->
    segs_rest ab acts (positionals acts) PStart segs = Some rest ->
    parse_argsP ab acts (flatten_segs segs) =
      match group_values acts (as_groups (positionals acts) segs) with
      | Err e => Err e
      | Ok occs => finish 0 acts (rev (map g_idx (as_groups (positionals acts) segs))) (apply_all occs (init_ns acts)) false
      end.
  Proof.
    intros D F H. unfold ArgparsePos.parse_argsP, ArgparsePos.parse_knownP.
    rewrite (lex_segs ab acts D segs _ _ _ H), lexed_segs_no_ambig.
    change (MOpt 0) with (mode_of PStart).
    rewrite (runP_segs ab acts segs _ PStart rest _ _ H (positionals_fixed acts F)).
    destruct (group_values acts (as_groups (positionals acts) segs)) as [occs|e]; [|reflexivity].
    rewrite app_nil_r.
    destruct (finish 0 acts (rev (map g_idx (as_groups (positionals acts) segs))) (apply_all occs (init_ns acts)) false); reflexivity.
  Qed.

  Lemma parse_argsP_spec ab acts segs rest :
    NoDup (map a_dest acts) -> opts_dashed acts = true -> fixed_positionals acts = true ->
    segs_rest ab acts (positionals acts) PStart segs = Some rest ->
    parse_argsP ab acts (flatten_segs segs) = spec_groups acts (as_groups (positionals acts) segs).
  Proof.
    intros N D F H. rewrite (parse_argsP_segs ab acts segs rest D F H). unfold ArgparseMSpec.spec_groups.
    set (gs := as_groups (positionals acts) segs).
    destruct (group_values acts gs) as [occs|e] eqn:Hg; [|reflexivity].
    rewrite (init_ns_nodup _ _ acts N), (apply_groups _ _ cvt veqb acts N gs _ occs Hg).
    rewrite (finish_fields _ _ cvt veqb acts gs N (group_values_valued _ _ cvt veqb acts gs occs Hg) acts [] _ false eq_refl).
    - cbn [List.length ns_of app]. destruct (spec_fields 0 acts gs false); reflexivity.
    - intros j a _. reflexivity.
  Qed.

  Theorem positionals_in_order ab acts segs :
    NoDup (map a_dest acts) -> opts_dashed acts = true -> fixed_positionals acts = true ->
    segs_ok ab acts segs = true ->
    parse_argsP ab acts (flatten_segs segs) = spec_groups acts (as_groups (positionals acts) segs).
  Proof.
    intros N D F H. unfold segs_ok in H.
    destruct (segs_rest ab acts (positionals acts) PStart segs) as [[|p r]|] eqn:E; try discriminate.
    exact (parse_argsP_spec ab acts segs [] N D F E).
  Qed.

  (* ====================================================================== *)
  (* (3) too few blocks                                                      *)
  (* ====================================================================== *)
  Lemma blocks_groups_idx : forall bs posl j,
    In j (map g_idx (blocks_groups posl bs)) -> In j (firstn (List.length bs) posl).
  Proof.
    induction bs as [|b rb IH]; intros posl j H; cbn [blocks_groups] in H; [contradiction|].
    destruct posl as [|p rp]; [contradiction|]. cbn [map g_idx] in H. cbn [List.length firstn].
    destruct H as [<-|H]; [now left | right; exact (IH rp j H)].
  Qed.

  Lemma as_groups_idx ab acts : forall segs posl pv rest,
    segs_rest ab acts posl pv segs = Some rest ->
    exists used, posl = (used ++ rest)%list
      /\ forall j, In j (map g_idx (as_groups posl segs)) ->
                   In j used \/ exists a, nth_error acts j = Some a /\ is_positional a = false.
  Proof.
    induction segs as [|[g|bs] r IH]; intros posl pv rest H; cbn [segs_rest] in H.
    - injection H as <-. exists []. split; [reflexivity | contradiction].
    - destruct (group_ok ab acts g) eqn:G; [|discriminate].
      destruct (nth_error acts (g_idx g)) as [a|] eqn:Hn; [|discriminate].
      destruct (IH _ _ _ H) as [used [E U]]. exists used. split; [exact E|].
      intros j Hj. cbn [as_groups map] in Hj. destruct Hj as [<-|Hj]; [|exact (U j Hj)].
      right. destruct (group_ok_inv _ _ ab acts g G) as [HL _].
      apply lookup_opt_In, (all_opts_In V K) in HL as [j' [a' [Ej [Hn' Ho]]]]. cbn [Nat.add] in Ej. subst j'.
      exists a'. split; [exact Hn'|]. unfold is_positional. destruct (a_opts a'); [contradiction | reflexivity].
    - assert (X : exists posl', blocks_rest ab acts posl bs = Some posl' /\ segs_rest ab acts posl' PRun r = Some rest).
      { destruct pv; destruct bs as [|b rb]; try discriminate;
          (destruct (blocks_rest ab acts posl (b :: rb)) as [posl'|]; [eauto | discriminate]). }
      destruct X as [posl' [HB HS]].
      destruct (blocks_nas ab acts bs posl posl' HB) as [_ [_ [_ [_ [_ [E5 [E6 _]]]]]]].
      destruct (IH _ _ _ HS) as [used [E U]].
      exists (firstn (List.length bs) posl ++ used)%list. split.
      + rewrite <- app_assoc, <- E. exact E5.
      + intros j Hj. cbn [as_groups] in Hj. rewrite E6, map_app in Hj. apply in_app_or in Hj as [Hj|Hj].
        * left. apply in_or_app. left. exact (blocks_groups_idx bs posl j Hj).
        * destruct (U j Hj) as [Hu|Hu]; [left; apply in_or_app; now right | now right].
  Qed.

  Theorem positionals_too_few ab acts segs p rest :
    NoDup (map a_dest acts) -> opts_dashed acts = true -> fixed_positionals acts = true ->
    positionals_required acts = true ->
    segs_rest ab acts (positionals acts) PStart segs = Some (p :: rest) ->
    exists e, parse_argsP ab acts (flatten_segs segs) = Err e.
  Proof.
    intros N D F R H. rewrite (parse_argsP_spec ab acts segs _ N D F H). unfold ArgparseMSpec.spec_groups.
    destruct (group_values acts (as_groups (positionals acts) segs)) as [occs|e0]; [|eauto].
    destruct (as_groups_idx ab acts segs _ _ _ H) as [used [E U]].
    assert (Hp : In p (positionals acts)) by (rewrite E; apply in_or_app; right; now left).
    destruct (positionals_spec acts p Hp) as [a [Hn Pa]].
    apply (spec_fields_required _ _ cvt veqb acts 0 _ false p a Hn).
    - unfold positionals_required in R. rewrite forallb_forall in R.
      specialize (R a (nth_error_In _ _ Hn)). now rewrite Pa in R.
    - cbn [Nat.add]. pose proof (last_group_spec p (as_groups (positionals acts) segs)) as LS.
      destruct (last_group p (as_groups (positionals acts) segs)) as [g|]; [|reflexivity].
      destruct LS as [Hin [Hidx _]]. exfalso.
      assert (Hj : In p (map g_idx (as_groups (positionals acts) segs))) by (rewrite <- Hidx; now apply in_map).
      destruct (U p Hj) as [Hu|[a' [Hn' Pa']]]; [|congruence].
      destruct (positionals_from_nodup acts 0) as [ND _]. fold (positionals acts) in ND.
      rewrite E in ND. apply NoDup_remove_2 in ND. apply ND. apply in_or_app. now left.
  Qed.

  (* errors are argparse's error path when the converters only fail that way *)
  Definition conv_exit2_only acts : Prop := forall a, In a acts -> forall s x, cvt (a_cv a) s = Err x -> x = Exit 2.

  Lemma spec_fields_err_exit2 acts0 gs : conv_exit2_only acts0 -> forall acts i m e,
    (forall a, In a acts -> In a acts0) -> spec_fields i acts gs m = Err e -> e = Exit 2.
  Proof.
    intros C. induction acts as [|a r IH]; intros i m e Hin H; cbn [ArgparseMSpec.spec_fields] in H.
    - destruct m; [now injection H as <- | discriminate].
    - assert (Hr : forall b, In b r -> In b acts0) by (intros b Hb; apply Hin; now right).
      assert (Ca : forall s x, cvt (a_cv a) s = Err x -> x = Exit 2) by (apply C, Hin; now left).
      destruct (last_group i gs) as [g|].
      + destruct (values_of a (g_toks g)) as [v|x] eqn:Hv.
        * destruct (spec_fields (S i) r gs m) as [l|x] eqn:Hs; [discriminate|]. injection H as <-. exact (IH _ _ _ Hr Hs).
        * injection H as <-. apply (I5_exit2 _ _ cvt veqb a (g_toks g) x); [|exact Hv]. intros s y _. apply Ca.
      + destruct (a_req a).
        * destruct (spec_fields (S i) r gs true) as [l|x] eqn:Hs; [discriminate|]. injection H as <-. exact (IH _ _ _ Hr Hs).
        * unfold ArgparseMSpec.default_value in H. destruct (a_dflt a) as [dv| |dvs|s].
          1-3: destruct (spec_fields (S i) r gs m) as [l|x] eqn:Hs; [discriminate|]; injection H as <-; exact (IH _ _ _ Hr Hs).
          destruct (cvt (a_cv a) s) as [v|x] eqn:Hc.
          -- destruct (spec_fields (S i) r gs m) as [l|y] eqn:Hs; [discriminate|]. injection H as <-. exact (IH _ _ _ Hr Hs).
          -- injection H as <-. exact (Ca s x Hc).
  Qed.

  Lemma spec_groups_err_exit2 acts gs e : conv_exit2_only acts -> spec_groups acts gs = Err e -> e = Exit 2.
  Proof.
    intros C. unfold ArgparseMSpec.spec_groups. destruct (group_values acts gs) as [occs|x] eqn:G.
    - exact (spec_fields_err_exit2 acts gs C acts 0 false e (fun a H => H)).
    - intros H. injection H as <-. revert x G. induction gs as [|g r IH]; intros x G; cbn [ArgparseMSpec.group_values] in G; [discriminate|].
      destruct (nth_error acts (g_idx g)) as [a|] eqn:Hn; [|now injection G as <-].
      destruct (values_of a (g_toks g)) as [v|y] eqn:Hv.
      + destruct (group_values acts r) as [l|y]; [discriminate|]. injection G as <-. now apply IH.
      + injection G as <-. apply (I5_exit2 _ _ cvt veqb a (g_toks g) y); [|exact Hv].
        intros s z _. apply (C a (nth_error_In _ _ Hn)).
  Qed.

  Theorem positionals_too_few_exit2 ab acts segs p rest :
    NoDup (map a_dest acts) -> opts_dashed acts = true -> fixed_positionals acts = true ->
    positionals_required acts = true -> conv_exit2_only acts ->
    segs_rest ab acts (positionals acts) PStart segs = Some (p :: rest) ->
    parse_argsP ab acts (flatten_segs segs) = Err (Exit 2).
  Proof.
    intros N D F R C H. destruct (positionals_too_few ab acts segs p rest N D F R H) as [e He]. rewrite He. f_equal.
    rewrite (parse_argsP_spec ab acts segs _ N D F H) in He. exact (spec_groups_err_exit2 acts _ e C He).
  Qed.

  (* ====================================================================== *)
  (* reading the result field by field                                       *)
  (* ====================================================================== *)
  Lemma spec_fields_lookup gs : forall acts i m l j a,
    NoDup (map a_dest acts) -> spec_fields i acts gs m = Ok l -> nth_error acts j = Some a ->
    exists v, lookup (a_dest a) l = Some v
              /\ match last_group (i + j) gs with
                 | Some g => values_of a (g_toks g) = Ok v
                 | None => a_req a = false /\ ArgparseMSpec.default_value cvt a = Ok v
                 end.
  Proof.
    induction acts as [|b r IH]; intros i m l j a N H Hj; [destruct j; discriminate|].
    inversion N as [|? ? Hnot Hr]; subst. cbn [ArgparseMSpec.spec_fields] in H.
    assert (Step : forall m' l' x, spec_fields (S i) r gs m' = Ok l' -> l = (a_dest b, x) :: l' ->
                   forall j', j = S j' -> nth_error r j' = Some a ->
                   exists v, lookup (a_dest a) l = Some v
                     /\ match last_group (i + j) gs with
                        | Some g => values_of a (g_toks g) = Ok v
                        | None => a_req a = false /\ ArgparseMSpec.default_value cvt a = Ok v end).
    { intros m' l' x Hs -> j' -> Hj'. destruct (IH (S i) m' l' j' a Hr Hs Hj') as [v [Hl Hv]].
      exists v. replace (i + S j') with (S i + j') by lia. split; [|exact Hv].
      cbn [lookup]. destruct (String.eqb (a_dest b) (a_dest a)) eqn:E; [|exact Hl].
      apply String.eqb_eq in E. exfalso. apply Hnot. rewrite E. apply in_map. eapply nth_error_In; eauto. }
    destruct j as [|j'].
    - injection Hj as ->. rewrite Nat.add_0_r.
      destruct (last_group i gs) as [g|].
      + destruct (values_of a (g_toks g)) as [v|]; [|discriminate].
        destruct (spec_fields (S i) r gs m) as [l'|]; [|discriminate]. injection H as <-.
        exists v. cbn [lookup]. now rewrite String.eqb_refl.
      + destruct (a_req a).
        * destruct (spec_fields_missing _ _ cvt veqb r (S i) gs) as [e He]. rewrite He in H. discriminate.
        * destruct (ArgparseMSpec.default_value cvt a) as [v|]; [|discriminate].
          destruct (spec_fields (S i) r gs m) as [l'|]; [|discriminate]. injection H as <-.
          exists v. cbn [lookup]. now rewrite String.eqb_refl.
    - cbn [nth_error] in Hj.
      destruct (last_group i gs) as [g|].
      + destruct (values_of b (g_toks g)) as [x|]; [|discriminate].
        destruct (spec_fields (S i) r gs m) as [l'|] eqn:Hs; [|discriminate]. injection H as <-.
        exact (Step m l' x Hs eq_refl j' eq_refl Hj).
      + destruct (a_req b).
        * destruct (spec_fields (S i) r gs true) as [l'|] eqn:Hs; [|discriminate]. injection H as <-.
          exact (Step true l' _ Hs eq_refl j' eq_refl Hj).
        * destruct (ArgparseMSpec.default_value cvt b) as [x|]; [|discriminate].
          destruct (spec_fields (S i) r gs m) as [l'|] eqn:Hs; [|discriminate]. injection H as <-.
          exact (Step m l' x Hs eq_refl j' eq_refl Hj).
  Qed.

  (* every field of an accepted well-formed command line: its own last (pseudo-)group, or its default *)
  Theorem spec_groups_lookup acts gs l j a :
    NoDup (map a_dest acts) -> spec_groups acts gs = Ok l -> nth_error acts j = Some a ->
    exists v, lookup (a_dest a) l = Some v
              /\ match last_group j gs with
                 | Some g => values_of a (g_toks g) = Ok v
                 | None => a_req a = false /\ ArgparseMSpec.default_value cvt a = Ok v
                 end.
  Proof.
    intros N H Hj. unfold ArgparseMSpec.spec_groups in H. destruct (group_values acts gs); [|discriminate].
    exact (spec_fields_lookup gs acts 0 false l j a N H Hj).
  Qed.
End PP.

Arguments no_positionals {V K}. Arguments pos_fixed {V K}. Arguments conv_exit2_only {V K}.
