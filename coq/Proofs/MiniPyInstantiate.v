(* Proofs/MiniPyInstantiate.v — the regenerated source of ArgumentParser._instantiate_dataclasses and of
   _create_dataclass_instance (MiniPy blocks dumped from the ast on every run, Gen/FactsPipelineSrc.v) computes exactly the
   functional model Model/Pipeline.v instantiate_fn / create_fn: for every list of wrappers (any nesting levels, destinations,
   defaults, Optional flags, parents, fields), every namespace, every dict of constructor arguments, every table for the
   dataclass constructors, every conflict-resolution mode and every dict of parser defaults. *)
From SPV Require Import Base.Str Model.MiniPy Model.Pipeline Gen.FactsPipelineSrc Proofs.MiniPyLemmas.

Ltac ops := cbn [op_attr op_getattr op_hasattr op_vars op_getitem op_dictget op_copy op_keys op_values op_items op_zip op_splitdest
                   op_isconst bind2 st_unpack st_setpath st_popattr st_pop].
Ltac rec := cbn [enc_ifield enc_iwrapper enc_iparser rget String.eqb Ascii.eqb Bool.eqb].
Ltac hy := repeat match goal with H : lookup ?x ?r = Some _ |- context [lookup ?x ?r] => rewrite H end.
Ltac fin := repeat (progress (lk; hy; cbv beta iota; ops; rec; cbv beta iota)).
Ltac nx :=
  rewrite exec_block_cons;
  first [rewrite exec_assign | rewrite exec_if | rewrite exec_return | rewrite exec_assert | rewrite exec_setpath
        | rewrite exec_unpack | rewrite exec_break | rewrite exec_pop | rewrite exec_raise];
  cbn [eval]; lk.
Ltac go := nx; fin.

Lemma eval_isnone r a : eval r (EIsNone a) = match eval r a with Ok v => Ok (VB (is_none v)) | Err z => Err z end.
Proof. cbn [eval]. destruct (eval r a) as [[]|]; reflexivity. Qed.
Lemma eval_calltable r t a :
  eval r (ECallTable t a) =
  match eval r t, eval r a with
  | Ok (VD l), Ok v => call_table l v
  | Ok _, Ok _ => rerr | Err z, _ => Err z | _, Err z => Err z end.
Proof.
  cbn [eval]. unfold op_calltable, bind2, call_table.
  destruct (eval r t) as [[]|]; destruct (eval r a) as [?|]; reflexivity.
Qed.

(* ---------- _create_dataclass_instance ---------- *)
Definition create_env (w : iwrapper) (args : list (val * val)) : env :=
  [("wrapper", enc_iwrapper w); ("constructor", VD (iw_ctor w)); ("constructor_args", VD args)].

Lemma ev_default r v :
  eval (assign "default" v r) (EIn (EVar "default") (ETuple [ENone; EConst "argparse.SUPPRESS"])) = Ok (VB (none_or_suppress v)).
Proof. cbn [eval]. lk. destruct v; reflexivity. Qed.

Lemma all_defaults r l :
  all_list (fun v => eval (assign "default" v r) (EIn (EVar "default") (ETuple [ENone; EConst "argparse.SUPPRESS"]))) l
  = Ok (VB (forallb none_or_suppress l)).
Proof.
  induction l as [|d t IH]; [reflexivity|]. cbn [all_list forallb]. rewrite ev_default. cbn [truthy].
  destruct (none_or_suppress d); [exact IH | reflexivity].
Qed.

Definition guard_body : list stmt :=
  [SAssign "arg_value" (EGetItem (EVar "constructor_args") (EAttr (EVar "field_wrapper") "name"));
   SAssign "default_value" (EAttr (EVar "field_wrapper") "default");
   SIf (ENot (EEq (EVar "arg_value") (EVar "default_value"))) [SBreak] []].

Definition cr_inv (w : iwrapper) (args : list (val * val)) (r : env) : Prop :=
  lookup "constructor" r = Some (VD (iw_ctor w)) /\ lookup "constructor_args" r = Some (VD args).

Lemma guard_step w args f r :
  cr_inv w args r ->
  exec_block (assign "field_wrapper" (enc_ifield f) r) guard_body =
  match dget (VS (if_name f)) args with
  | None => Err (Raise "KeyError")
  | Some a => let r2 := assign "default_value" (if_default f) (assign "arg_value" a (assign "field_wrapper" (enc_ifield f) r)) in
              if negb (val_eqb a (if_default f)) then Ok (r2, Some BRK) else Ok (r2, None)
  end.
Proof.
  intros [Hc Ha]. unfold guard_body. go.
  destruct (dget (VS (if_name f)) args) as [a|]; [|reflexivity].
  go. go. cbn [truthy]. cbv zeta.
  destruct (negb (val_eqb a (if_default f))).
  - go. reflexivity.
  - rewrite !exec_block_nil. reflexivity.
Qed.

Lemma guard_loop w args : forall fs r,
  cr_inv w args r ->
  match at_defaults fs args with
  | Err z => iter_list_c (fun v r => exec_block (assign "field_wrapper" v r) guard_body) (map enc_ifield fs) r = Err z
  | Ok true => exists r', iter_list_c (fun v r => exec_block (assign "field_wrapper" v r) guard_body) (map enc_ifield fs) r = Ok (r', None)
                          /\ cr_inv w args r'
  | Ok false => exists r', iter_list_c (fun v r => exec_block (assign "field_wrapper" v r) guard_body) (map enc_ifield fs) r = Ok (r', Some BRK)
                           /\ cr_inv w args r'
  end.
Proof.
  induction fs as [|f t IH]; intros r Hi; cbn [at_defaults map iter_list_c].
  - exists r. split; [reflexivity | exact Hi].
  - rewrite (guard_step w args f r Hi). destruct Hi as [Hc Ha].
    destruct (dget (VS (if_name f)) args) as [a|]; [|reflexivity]. cbv zeta.
    destruct (negb (val_eqb a (if_default f))).
    + cbn [is_cont BRK String.eqb Ascii.eqb Bool.eqb]. eexists. split; [reflexivity|]. split; lk; assumption.
    + apply IH. split; lk; assumption.
Qed.

Lemma eval_and r a b : eval r (EAnd a b) = match eval r a with Ok v => if truthy v then eval r b else Ok v | Err z => Err z end.
Proof. reflexivity. Qed.

Lemma guard_cond w r :
  lookup "wrapper" r = Some (enc_iwrapper w) ->
  exists v, eval r (EAnd (EAttr (EVar "wrapper") "optional")
                     (EAnd (EIsNone (EAttr (EVar "wrapper") "default"))
                           (EAll (EIn (EVar "default") (ETuple [ENone; EConst "argparse.SUPPRESS"])) "default" (EAttr (EVar "wrapper") "defaults")))) = Ok v
            /\ truthy v = iw_optional w && (is_none (iw_default w) && forallb none_or_suppress (iw_defaults w)).
Proof.
  intros Hw. rewrite eval_and, eval_attr, eval_var, Hw. unfold attr_of. rec. cbv beta iota. cbn [truthy].
  destruct (iw_optional w); [|eexists; split; reflexivity].
  rewrite eval_and, eval_isnone, eval_attr, eval_var, Hw. unfold attr_of. rec. cbv beta iota. cbn [truthy].
  destruct (is_none (iw_default w)); [|eexists; split; reflexivity].
  rewrite eval_all, eval_attr, eval_var, Hw. unfold attr_of. rec. cbv beta iota. cbn [seq_items]. rewrite all_defaults.
  eexists; split; reflexivity.
Qed.

Lemma create_spec w args :
  match create_fn w args with
  | Err z => exec_block (create_env w args) create_src = Err z
  | Ok v => exists r1, exec_block (create_env w args) create_src = Ok (r1, Some v)
  end.
Proof.
  unfold create_fn, create_src.
  assert (Hw : lookup "wrapper" (create_env w args) = Some (enc_iwrapper w)) by reflexivity.
  assert (Hi : cr_inv w args (create_env w args)) by (split; reflexivity).
  set (r0 := create_env w args) in *. clearbody r0. destruct Hi as [Hc Ha].
  assert (TAIL : forall r, cr_inv w args r ->
            match call_table (iw_ctor w) (VD args) with
            | Err z => exec_block r [SReturn (ECallTable (EVar "constructor") (EVar "constructor_args"))] = Err z
            | Ok v => exists r1, exec_block r [SReturn (ECallTable (EVar "constructor") (EVar "constructor_args"))] = Ok (r1, Some v)
            end).
  { intros r [C A]. rewrite exec_block_cons, exec_return, eval_calltable, !eval_var, C, A.
    destruct (call_table (iw_ctor w) (VD args)); [eexists; reflexivity | reflexivity]. }
  rewrite exec_block_cons, exec_if.
  destruct (guard_cond w r0 Hw) as [gv [Eg Tg]]. rewrite Eg, Tg.
  destruct (iw_optional w && (is_none (iw_default w) && forallb none_or_suppress (iw_defaults w))).
  2:{ rewrite exec_block_nil. apply TAIL. split; assumption. }
  rewrite exec_block_cons, exec_forbe. cbn [eval]. fin.
  change [SAssign "arg_value" (EGetItem (EVar "constructor_args") (EAttr (EVar "field_wrapper") "name"));
          SAssign "default_value" (EAttr (EVar "field_wrapper") "default");
          SIf (ENot (EEq (EVar "arg_value") (EVar "default_value"))) [SBreak] []] with guard_body.
  pose proof (guard_loop w args (iw_fields w) r0 (conj Hc Ha)) as G.
  destruct (at_defaults (iw_fields w) args) as [[|]|z].
  - destruct G as [r' [E I]]. rewrite E. cbn [for_else]. go. eexists. reflexivity.
  - destruct G as [r' [E I]]. rewrite E. cbn [for_else is_brk BRK String.eqb Ascii.eqb Bool.eqb]. rewrite exec_block_nil. apply TAIL. exact I.
  - rewrite G. reflexivity.
Qed.

(* ---------- _instantiate_dataclasses ---------- *)
Definition create_ins : list (string * expr) :=
  [("wrapper", EVar "dc_wrapper"); ("constructor", EVar "constructor"); ("constructor_args", EVar "constructor_args")].

Definition value_stmt : stmt :=
  SIf (EIn (EConst "argparse.SUPPRESS") (EAttr (EVar "dc_wrapper") "defaults"))
      [SIf (EEq (EVar "constructor_args") (EDict [])) [SAssign "value_for_dataclass_field" ENone]
                                                      [SAssign "value_for_dataclass_field" (EVar "constructor_args")]]
      [SCallRet "value_for_dataclass_field" create_src create_ins []].

Definition place_stmt : stmt :=
  SIf (EAnd (EIn (EConst "argparse.SUPPRESS") (EAttr (EVar "dc_wrapper") "defaults")) (EIsNone (EVar "value_for_dataclass_field"))) []
    [SIf (ENot (EIsNone (EAttr (EVar "dc_wrapper") "parent")))
       [SUnpack ["parent_key"; "attr"] (ESplitDest (EVar "destination"));
        SSetPath "constructor_arguments" [(false, EVar "parent_key"); (false, EVar "attr")] (EVar "value_for_dataclass_field")]
       [SIf (ENot (EHasAttr (EVar "parsed_args") (EVar "destination")))
          [SSetPath "parsed_args" [(true, EVar "destination")] (EVar "value_for_dataclass_field")]
          [SAssign "existing" (EGetAttr (EVar "parsed_args") (EVar "destination"));
           SIf (EIn (EAttr (EVar "dc_wrapper") "dest") (EAttr (EVar "self") "_defaults"))
             [SSetPath "parsed_args" [(true, EVar "destination")] (EVar "value_for_dataclass_field")] [SRaise "RuntimeError"]]]].

Definition dest_body : list stmt :=
  [SAssign "constructor" (EAttr (EVar "dc_wrapper") "dataclass_fn");
   SPop "constructor_args" "constructor_arguments" (EVar "destination") None;
   SPop "_" "constructor_args" (EStr "_type_") (Some ENone);
   value_stmt; place_stmt].

Lemma instantiate_shape :
  instantiate_src =
  [SAssign "constructor_arguments" (ECopy (EVar "constructor_arguments"));
   SIf (ENot (EEq (EAttr (EVar "self") "conflict_resolution") (EStr "ConflictResolution.ALWAYS_MERGE")))
     [SAssert (EEq (ELen (EVar "wrappers")) (ELen (EVar "constructor_arguments")))] [];
   SAssign "sorted_dc_wrappers" (ESortAttr (EVar "wrappers") "nesting_level" true);
   SFor "dc_wrapper" (EVar "sorted_dc_wrappers") [SFor "destination" (EAttr (EVar "dc_wrapper") "destinations") dest_body];
   SAssert (ENot (EVar "constructor_arguments"));
   SReturn (EVar "parsed_args")].
Proof. reflexivity. Qed.

Definition ii_inv (mode : string) (pd : list (val * val)) (cls : string) (w : iwrapper)
           (ca : list (val * val)) (ns : list (string * val)) (r : env) : Prop :=
  lookup "self" r = Some (enc_iparser mode pd) /\ lookup "dc_wrapper" r = Some (enc_iwrapper w)
  /\ lookup "constructor_arguments" r = Some (VD ca) /\ lookup "parsed_args" r = Some (VR cls ns).

Definition value_of (w : iwrapper) (args : list (val * val)) : res val :=
  if existsb (val_eqb SUPPRESS) (iw_defaults w) then Ok (if val_eqb (VD args) (VD []) then VNone else VD args) else create_fn w args.

Lemma value_step mode pd cls w ca ns args r :
  ii_inv mode pd cls w ca ns r -> lookup "constructor" r = Some (VD (iw_ctor w)) -> lookup "constructor_args" r = Some (VD args) ->
  match value_of w args with
  | Err z => exec r value_stmt = Err z
  | Ok v => exists r', exec r value_stmt = Ok (r', None) /\ ii_inv mode pd cls w ca ns r'
                       /\ lookup "value_for_dataclass_field" r' = Some v /\ lookup "destination" r' = lookup "destination" r
  end.
Proof.
  intros [Hs [Hw [Hc Hn]]] Hk Ha. unfold value_of, value_stmt, SUPPRESS.
  rewrite exec_if. cbn [eval]. fin.
  destruct (existsb (val_eqb (VC "argparse.SUPPRESS")) (iw_defaults w)); cbn [truthy].
  - rewrite exec_block_cons, exec_if. cbn [eval]. fin. cbn [truthy].
    destruct (val_eqb (VD args) (VD [])); go; rewrite exec_block_nil;
      (eexists; split; [reflexivity|]; repeat split; lk; try assumption; reflexivity).
  - rewrite exec_block_cons, exec_callret. unfold create_ins. cbn [bind_ins eval]. fin. cbn [assign String.eqb Ascii.eqb Bool.eqb].
    change [("wrapper", enc_iwrapper w); ("constructor", VD (iw_ctor w)); ("constructor_args", VD args)] with (create_env w args).
    pose proof (create_spec w args) as C.
    destruct (create_fn w args) as [v|z]; [|rewrite C; reflexivity].
    destruct C as [r1 E]. rewrite E. cbn [copy_back ret_to]. rewrite exec_block_nil.
    eexists; split; [reflexivity|]; repeat split; lk; try assumption; reflexivity.
Qed.

Definition place_of (pd : list (val * val)) (w : iwrapper) (d : string) (value : val) (ca1 : list (val * val)) (ns : list (string * val))
  : res (list (val * val) * list (string * val)) :=
  if existsb (val_eqb SUPPRESS) (iw_defaults w) && is_none value then Ok (ca1, ns)
  else if negb (is_none (iw_parent w)) then
    match ca_put ca1 d value with Ok ca2 => Ok (ca2, ns) | Err z => Err z end
  else if negb (is_some (rget d ns)) then Ok (ca1, rset d value ns)
  else if is_some (dget (VS (iw_dest w)) pd) then Ok (ca1, rset d value ns)
  else Err (Raise "RuntimeError").

Lemma eval_not r a : eval r (ENot a) = match eval r a with Ok v => Ok (VB (negb (truthy v))) | Err x => Err x end.
Proof. reflexivity. Qed.

Lemma ev_sup w r :
  lookup "dc_wrapper" r = Some (enc_iwrapper w) ->
  eval r (EIn (EConst "argparse.SUPPRESS") (EAttr (EVar "dc_wrapper") "defaults")) = Ok (VB (existsb (val_eqb SUPPRESS) (iw_defaults w))).
Proof. intros Hw. cbn [eval]. fin. reflexivity. Qed.

Lemma place_step mode pd cls w ca ns d v r :
  ii_inv mode pd cls w ca ns r -> lookup "value_for_dataclass_field" r = Some v -> lookup "destination" r = Some (VS d) ->
  match place_of pd w d v ca ns with
  | Err z => exec r place_stmt = Err z
  | Ok (ca', ns') => exists r', exec r place_stmt = Ok (r', None) /\ ii_inv mode pd cls w ca' ns' r'
  end.
Proof.
  intros [Hs [Hw [Hc Hn]]] Hv Hd. unfold place_of, place_stmt, SUPPRESS.
  rewrite exec_if, eval_and, (ev_sup w r Hw). unfold SUPPRESS.
  assert (KEEP : ii_inv mode pd cls w ca ns r) by (repeat split; assumption).
  destruct (existsb (val_eqb (VC "argparse.SUPPRESS")) (iw_defaults w)); cbn [truthy andb].
  - rewrite eval_isnone, eval_var, Hv. cbn [truthy].
    destruct (is_none v).
    + rewrite exec_block_nil. eexists; split; [reflexivity | exact KEEP].
    + apply (fun H => H). (* continue below *)
      rewrite exec_block_cons, exec_if, eval_not, eval_isnone. cbn [eval]. fin. cbn [truthy].
      destruct (is_none (iw_parent w)); cbn [negb].
      * rewrite exec_block_cons, exec_if. cbn [eval]. fin. cbn [truthy].
        destruct (rget d ns) as [ex|] eqn:Er; cbn [is_some negb].
        -- go. rewrite Er. cbv beta iota. rewrite exec_block_cons, exec_if. cbn [eval]. fin. cbn [truthy].
           destruct (dget (VS (iw_dest w)) pd); cbn [is_some].
           ++ go. cbn [eval_path eval]. fin. cbn [upd_path]. rewrite !exec_block_nil.
              eexists; split; [reflexivity|]; repeat split; lk; try assumption; reflexivity.
           ++ go. reflexivity.
        -- go. cbn [eval_path eval]. fin. cbn [upd_path]. rewrite !exec_block_nil.
           eexists; split; [reflexivity|]; repeat split; lk; try assumption; reflexivity.
      * go. cbn [seq_items pair_of List.length Nat.eqb combine fold_left fst snd].
        go. cbn [eval_path eval]. fin. unfold ca_put.
        destruct (upd_path (VD ca) [(false, VS (fst (split_dest d))); (false, VS (snd (split_dest d)))] v) as [u|z] eqn:U; [|reflexivity].
        assert (exists ca', u = VD ca') as [ca' ->].
        { cbn [upd_path] in U. destruct (dget (VS (fst (split_dest d))) ca) as [x|]; [|discriminate].
          destruct x; try discriminate. injection U as <-. eexists. reflexivity. }
        rewrite !exec_block_nil. eexists; split; [reflexivity|]; repeat split; lk; try assumption; reflexivity.
  - apply (fun H => H).
    rewrite exec_block_cons, exec_if, eval_not, eval_isnone. cbn [eval]. fin. cbn [truthy].
    destruct (is_none (iw_parent w)); cbn [negb].
    + rewrite exec_block_cons, exec_if. cbn [eval]. fin. cbn [truthy].
      destruct (rget d ns) as [ex|] eqn:Er; cbn [is_some negb].
      * go. rewrite Er. cbv beta iota. rewrite exec_block_cons, exec_if. cbn [eval]. fin. cbn [truthy].
        destruct (dget (VS (iw_dest w)) pd); cbn [is_some].
        -- go. cbn [eval_path eval]. fin. cbn [upd_path]. rewrite !exec_block_nil.
           eexists; split; [reflexivity|]; repeat split; lk; try assumption; reflexivity.
        -- go. reflexivity.
      * go. cbn [eval_path eval]. fin. cbn [upd_path]. rewrite !exec_block_nil.
        eexists; split; [reflexivity|]; repeat split; lk; try assumption; reflexivity.
    + go. cbn [seq_items pair_of List.length Nat.eqb combine fold_left fst snd].
      go. cbn [eval_path eval]. fin. unfold ca_put.
      destruct (upd_path (VD ca) [(false, VS (fst (split_dest d))); (false, VS (snd (split_dest d)))] v) as [u|z] eqn:U; [|reflexivity].
      assert (exists ca', u = VD ca') as [ca' ->].
      { cbn [upd_path] in U. destruct (dget (VS (fst (split_dest d))) ca) as [x|]; [|discriminate].
        destruct x; try discriminate. injection U as <-. eexists. reflexivity. }
      rewrite !exec_block_nil. eexists; split; [reflexivity|]; repeat split; lk; try assumption; reflexivity.
Qed.

Lemma inst_dest_eq pd w d ca ns :
  inst_dest pd w d ca ns =
  match dget (VS d) ca with
  | None => Err (Raise "KeyError")
  | Some (VD args0) => match value_of w (dpop_default (VS DC_TYPE_KEY) args0) with
                       | Err z => Err z
                       | Ok v => place_of pd w d v (ddel (VS d) ca) ns
                       end
  | Some _ => rerr
  end.
Proof. reflexivity. Qed.

Lemma dest_step mode pd cls w ca ns d r :
  ii_inv mode pd cls w ca ns r ->
  match inst_dest pd w d ca ns with
  | Err z => exec_block (assign "destination" (VS d) r) dest_body = Err z
  | Ok (ca', ns') => exists r', exec_block (assign "destination" (VS d) r) dest_body = Ok (r', None) /\ ii_inv mode pd cls w ca' ns' r'
  end.
Proof.
  intros [Hs [Hw [Hc Hn]]]. rewrite inst_dest_eq. unfold dest_body.
  go. go.
  destruct (dget (VS d) ca) as [a0|]; [|reflexivity].
  rewrite exec_block_cons, exec_pop. cbn [eval]. fin.
  destruct a0 as [| | | | | |args0| |]; try reflexivity.
  unfold dpop_default, DC_TYPE_KEY.
  match goal with |- context [exec_block ?r1 [value_stmt; place_stmt]] => idtac end ||
  idtac.
  assert (STEP : forall r1 args, ii_inv mode pd cls w (ddel (VS d) ca) ns r1 -> lookup "constructor" r1 = Some (VD (iw_ctor w)) ->
            lookup "constructor_args" r1 = Some (VD args) -> lookup "destination" r1 = Some (VS d) ->
            match match value_of w args with Err z => Err z | Ok v => place_of pd w d v (ddel (VS d) ca) ns end with
            | Err z => exec_block r1 [value_stmt; place_stmt] = Err z
            | Ok (ca', ns') => exists r', exec_block r1 [value_stmt; place_stmt] = Ok (r', None) /\ ii_inv mode pd cls w ca' ns' r'
            end).
  { clear. intros r1 args I K A D. rewrite exec_block_cons.
    pose proof (value_step mode pd cls w _ ns args r1 I K A) as V.
    destruct (value_of w args) as [v|z]; [|rewrite V; reflexivity].
    destruct V as [r2 [E [I2 [Hv Hd]]]]. rewrite E, exec_block_cons. rewrite D in Hd.
    pose proof (place_step mode pd cls w _ ns d v r2 I2 Hv Hd) as P.
    destruct (place_of pd w d v (ddel (VS d) ca) ns) as [[ca' ns']|z]; [|rewrite P; reflexivity].
    destruct P as [r3 [E3 I3]]. rewrite E3, exec_block_nil. eexists; split; [reflexivity | exact I3]. }
  destruct (dget (VS "_type_") args0) as [tv|]; cbn [is_some]; cbv beta iota;
    (apply STEP; [repeat split; lk; try assumption; reflexivity | lk; reflexivity | lk; reflexivity | lk; reflexivity]).
Qed.

Lemma dests_loop mode pd cls w : forall ds ca ns r,
  ii_inv mode pd cls w ca ns r ->
  match inst_dests pd w ds ca ns with
  | Err z => iter_list (fun v r => exec_block (assign "destination" v r) dest_body) (map VS ds) r = Err z
  | Ok (ca', ns') => exists r', iter_list (fun v r => exec_block (assign "destination" v r) dest_body) (map VS ds) r = Ok (r', None)
                                /\ ii_inv mode pd cls w ca' ns' r'
  end.
Proof.
  induction ds as [|d t IH]; intros ca ns r Hi; cbn [inst_dests map iter_list].
  - exists r. auto.
  - pose proof (dest_step mode pd cls w ca ns d r Hi) as S.
    destruct (inst_dest pd w d ca ns) as [[ca' ns']|z]; [|rewrite S; reflexivity].
    destruct S as [r' [E I]]. rewrite E. exact (IH ca' ns' r' I).
Qed.

Definition top_inv (mode : string) (pd : list (val * val)) (cls : string) (ca : list (val * val)) (ns : list (string * val)) (r : env) : Prop :=
  lookup "self" r = Some (enc_iparser mode pd) /\ lookup "constructor_arguments" r = Some (VD ca) /\ lookup "parsed_args" r = Some (VR cls ns).

Lemma wrappers_loop mode pd cls : forall ws ca ns r,
  top_inv mode pd cls ca ns r ->
  match inst_wrappers pd ws ca ns with
  | Err z => iter_list (fun v r => exec_block (assign "dc_wrapper" v r) [SFor "destination" (EAttr (EVar "dc_wrapper") "destinations") dest_body])
                       (map enc_iwrapper ws) r = Err z
  | Ok (ca', ns') => exists r', iter_list (fun v r => exec_block (assign "dc_wrapper" v r) [SFor "destination" (EAttr (EVar "dc_wrapper") "destinations") dest_body])
                                          (map enc_iwrapper ws) r = Ok (r', None)
                                /\ top_inv mode pd cls ca' ns' r'
  end.
Proof.
  induction ws as [|w t IH]; intros ca ns r [Hs [Hc Hn]]; cbn [inst_wrappers map iter_list].
  - exists r. repeat split; assumption.
  - rewrite exec_block_cons, exec_for. cbn [eval]. fin.
    assert (Hi : ii_inv mode pd cls w ca ns (assign "dc_wrapper" (enc_iwrapper w) r)) by (repeat split; lk; try assumption; reflexivity).
    pose proof (dests_loop mode pd cls w (iw_dests w) ca ns _ Hi) as D.
    destruct (inst_dests pd w (iw_dests w) ca ns) as [[ca' ns']|z]; [|rewrite D; reflexivity].
    destruct D as [r' [E [A [_ [B C]]]]]. rewrite E, exec_block_nil. apply IH. repeat split; assumption.
Qed.

(* sorted(wrappers, key=lambda w: w.nesting_level, reverse=True) on the encoded wrappers *)
Lemma keyed_enc ws : keyed "nesting_level" (map enc_iwrapper ws) = Some (map (fun w => (iw_level w, enc_iwrapper w)) ws).
Proof. induction ws as [|w t IH]; [reflexivity|]. cbn [map keyed enc_iwrapper rget String.eqb Ascii.eqb Bool.eqb]. fold (enc_iwrapper w). rewrite IH. reflexivity. Qed.
Lemma ins_enc x : forall l,
  ins_key true (iw_level x) (enc_iwrapper x) (map (fun w => (iw_level w, enc_iwrapper w)) l)
  = map (fun w => (iw_level w, enc_iwrapper w)) (ins_level x l).
Proof.
  induction l as [|y t IH]; [reflexivity|]. cbn [map ins_key ins_level].
  destruct (Nat.ltb (iw_level y) (iw_level x)); [reflexivity|]. cbn [map]. rewrite IH. reflexivity.
Qed.
Lemma sort_enc ws : forall acc,
  fold_left (fun a p => ins_key true (fst p) (snd p) a) (map (fun w => (iw_level w, enc_iwrapper w)) ws) (map (fun w => (iw_level w, enc_iwrapper w)) acc)
  = map (fun w => (iw_level w, enc_iwrapper w)) (fold_left (fun a w => ins_level w a) ws acc).
Proof.
  induction ws as [|w t IH]; intros acc; [reflexivity|]. cbn [map fold_left fst snd]. rewrite ins_enc. apply IH.
Qed.
Lemma sorted_enc ws :
  op_sortattr "nesting_level" true (Ok (VL (map enc_iwrapper ws))) = Ok (VL (map enc_iwrapper (deepest_first ws))).
Proof.
  unfold op_sortattr, deepest_first. rewrite keyed_enc. change (@nil (nat * val)) with (map (fun w => (iw_level w, enc_iwrapper w)) []).
  rewrite sort_enc, map_map. reflexivity.
Qed.

Definition instantiate_env (mode : string) (pd : list (val * val)) (cls : string) (ns : list (string * val)) (ws : list iwrapper)
           (ca0 : list (val * val)) : env :=
  ([("self", enc_iparser mode pd); ("parsed_args", VR cls ns); ("wrappers", VL (map enc_iwrapper ws)); ("constructor_arguments", VD ca0)]
   ++ map (fun x => (x, VNone)) (filter (fun x => negb (String.eqb x "constructor_arguments")) instantiate_locals))%list.

Theorem instantiate_is_model mode pd cls ns ws ca0 :
  run (instantiate_env mode pd cls ns ws ca0) instantiate_src
  = match instantiate_fn (String.eqb mode MERGE) pd ws ns ca0 with Ok ns' => Ok (VR cls ns') | Err z => Err z end.
Proof.
  unfold run, instantiate_fn. rewrite instantiate_shape.
  assert (H1 : lookup "self" (instantiate_env mode pd cls ns ws ca0) = Some (enc_iparser mode pd)) by reflexivity.
  assert (H2 : lookup "parsed_args" (instantiate_env mode pd cls ns ws ca0) = Some (VR cls ns)) by reflexivity.
  assert (H3 : lookup "wrappers" (instantiate_env mode pd cls ns ws ca0) = Some (VL (map enc_iwrapper ws))) by reflexivity.
  assert (H4 : lookup "constructor_arguments" (instantiate_env mode pd cls ns ws ca0) = Some (VD ca0)) by reflexivity.
  set (r0 := instantiate_env mode pd cls ns ws ca0) in *. clearbody r0.
  go. go. cbn [val_eqb truthy]. unfold MERGE.
  assert (TAIL : forall r, top_inv mode pd cls ca0 ns r -> lookup "wrappers" r = Some (VL (map enc_iwrapper ws)) ->
            match exec_block r [SAssign "sorted_dc_wrappers" (ESortAttr (EVar "wrappers") "nesting_level" true);
                                SFor "dc_wrapper" (EVar "sorted_dc_wrappers") [SFor "destination" (EAttr (EVar "dc_wrapper") "destinations") dest_body];
                                SAssert (ENot (EVar "constructor_arguments")); SReturn (EVar "parsed_args")] with
            | Ok (_, Some v) => Ok v | Ok (_, None) => Ok VNone | Err z => Err z end
            = match match inst_wrappers pd (deepest_first ws) ca0 ns with
                    | Err z => Err z
                    | Ok (ca', ns') => match ca' with [] => Ok ns' | _ :: _ => Err (Raise "AssertionError") end
                    end with Ok ns' => Ok (VR cls ns') | Err z => Err z end).
  { clear. intros r [A [B C]] W. rewrite exec_block_cons, exec_assign. cbn [eval]. rewrite W. rewrite sorted_enc.
    rewrite exec_block_cons, exec_for, eval_var. lk.
    match goal with |- context [iter_list _ _ ?r1] => pose proof (wrappers_loop mode pd cls (deepest_first ws) ca0 ns r1) as L end.
    destruct (inst_wrappers pd (deepest_first ws) ca0 ns) as [[ca' ns']|z].
    - destruct L as [r' [E [A' [B' C']]]]; [repeat split; lk; assumption|]. rewrite E.
      go. cbn [truthy]. destruct ca' as [|x t]; cbn [List.length Nat.eqb negb].
      + go. reflexivity.
      + reflexivity.
    - rewrite L; [reflexivity|]. repeat split; lk; assumption. }
  destruct (String.eqb mode "ConflictResolution.ALWAYS_MERGE"); cbn [negb truthy andb].
  - rewrite exec_block_nil. apply TAIL; [repeat split; lk; try assumption; reflexivity | lk; assumption].
  - go. rewrite map_length. cbn [val_eqb truthy].
    destruct (Nat.eqb (List.length ws) (List.length ca0)); cbn [negb].
    + rewrite exec_block_nil. apply TAIL; [repeat split; lk; try assumption; reflexivity | lk; assumption].
    + reflexivity.
Qed.

Theorem create_is_model w args : run (create_env w args) create_src = create_fn w args.
Proof.
  unfold run. pose proof (create_spec w args) as C.
  destruct (create_fn w args) as [v|z]; [destruct C as [r1 E]; rewrite E | rewrite C]; reflexivity.
Qed.

(* non-vacuity: a root wrapper with an Optional member at "a.o" whose fields are at their defaults and whose own default is
   None (the guard of _create_dataclass_instance makes it None), a plain member at "a.m" built first because it is deeper than
   the root, a type tag that is dropped, and the root instance set on the namespace *)
Example instantiate_nonvacuous :
  let opt := mkiwrapper 1 ["a.o"] [] [VNone] true VNone [mkifield "x" (VN 1)] (VS "parent") "a.o" in
  let mem := mkiwrapper 1 ["a.m"] [(VD [(VS "y", VN 5)], VS "M(y=5)")] [] false VNone [mkifield "y" (VN 0)] (VS "parent") "a.m" in
  let root := mkiwrapper 0 ["a"] [(VD [(VS "z", VB true); (VS "o", VNone); (VS "m", VS "M(y=5)")], VS "A(..)")] [] false VNone [] VNone "a" in
  run (instantiate_env "ConflictResolution.AUTO" [] "Namespace" [("other", VN 3)] [root; opt; mem]
         [(VS "a", VD [(VS "z", VB true)]); (VS "a.o", VD [(VS "x", VN 1)]); (VS "a.m", VD [(VS "_type_", VS "tag"); (VS "y", VN 5)])])
      instantiate_src
  = Ok (VR "Namespace" [("other", VN 3); ("a", VS "A(..)")]).
Proof. vm_compute. reflexivity. Qed.
