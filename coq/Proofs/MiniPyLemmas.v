(* Proofs/MiniPyLemmas.v — generic lemmas about the MiniPy interpreter (Model/MiniPy.v) shared by the bridge proofs
   (regenerated source = functional model): environment lookups, one unfolding lemma per statement / expression kind
   (so that symbolic execution proceeds by `rewrite`, never by unfolding the whole interpreter), list conversions.
   Independent of any regenerated source.  (Proofs/MiniPyOptStr.v predates this file and has its own copies.) *)
From SPV Require Import Base.Str Model.MiniPy.

(* ---------- environments ---------- *)
Lemma lookup_assign x y v r : lookup x (assign y v r) = if String.eqb y x then Some v else lookup x r.
Proof.
  induction r as [|[k w] t IH]; simpl.
  - destruct (String.eqb y x) eqn:E; reflexivity.
  - destruct (String.eqb k y) eqn:Eky; simpl.
    + apply String.eqb_eq in Eky. subst k. destruct (String.eqb y x); reflexivity.
    + rewrite IH. destruct (String.eqb k x) eqn:Ekx; [|reflexivity].
      apply String.eqb_eq in Ekx. subst k. rewrite String.eqb_sym in Eky. now rewrite Eky.
Qed.

Ltac lk := repeat (rewrite lookup_assign; cbn [String.eqb Ascii.eqb Bool.eqb]).

(* ---------- statements ---------- *)
Lemma exec_block_inner r ss :
  (fix eb (r : env) (ss : list stmt) : res (env * option val) :=
     match ss with
     | [] => Ok (r, None)
     | s :: t => match exec r s with Err z => Err z | Ok (r', Some v) => Ok (r', Some v) | Ok (r', None) => eb r' t end
     end) r ss = exec_block r ss.
Proof. revert r. induction ss as [|s t IH]; intros r; simpl; [reflexivity|]. destruct (exec r s) as [[r' [v|]]|]; auto. Qed.

Lemma exec_block_cons r s t :
  exec_block r (s :: t) = match exec r s with Err z => Err z | Ok (r', Some v) => Ok (r', Some v) | Ok (r', None) => exec_block r' t end.
Proof. reflexivity. Qed.
Lemma exec_block_nil r : exec_block r [] = Ok (r, None).
Proof. reflexivity. Qed.

Lemma exec_block_app r a b :
  exec_block r (a ++ b) = match exec_block r a with
                          | Ok (r', None) => exec_block r' b
                          | Ok (r', Some v) => Ok (r', Some v)
                          | Err z => Err z end.
Proof.
  revert r. induction a as [|s t IH]; intros r; simpl; [destruct (exec_block r b) as [[? [?|]]|]; reflexivity|].
  destruct (exec r s) as [[r' [v|]]|]; auto.
Qed.

Lemma exec_for r x it body :
  exec r (SFor x it body) =
  match eval r it with
  | Ok (VL l) => iter_list (fun v r => exec_block (assign x v r) body) l r
  | Ok _ => rerr
  | Err z => Err z
  end.
Proof. reflexivity. Qed.
Lemma exec_if r c th el :
  exec r (SIf c th el) = match eval r c with Ok v => if truthy v then exec_block r th else exec_block r el | Err z => Err z end.
Proof. reflexivity. Qed.
Lemma exec_assign r x e : exec r (SAssign x e) = match eval r e with Ok v => Ok (assign x v r, None) | Err z => Err z end.
Proof. reflexivity. Qed.
Lemma exec_append r x e : exec r (SAppend x e) = match lookup x r, eval r e with
  | Some (VL l), Ok v => Ok (assign x (VL (l ++ [v])) r, None) | _, Err z => Err z | _, _ => rerr end.
Proof. reflexivity. Qed.
Lemma exec_extend r x e : exec r (SExtend x e) = match lookup x r, eval r e with
  | Some (VL l), Ok (VL l2) => Ok (assign x (VL (l ++ l2)) r, None) | _, Err z => Err z | _, _ => rerr end.
Proof. reflexivity. Qed.
Lemma exec_return r e : exec r (SReturn e) = match eval r e with Ok v => Ok (r, Some v) | Err z => Err z end.
Proof. reflexivity. Qed.
Lemma exec_unpack3 r x ms y e :
  exec r (SUnpack3 x ms y e) =
  match eval r e with
  | Ok (VL (v :: rest)) =>
      match rev rest with
      | w :: mid_rev => Ok (assign y w (assign ms (VL (rev mid_rev)) (assign x v r)), None)
      | [] => Err (Raise "ValueError")
      end
  | Ok (VL []) => Err (Raise "ValueError")
  | Ok _ => rerr
  | Err z => Err z
  end.
Proof. reflexivity. Qed.
Lemma exec_assert r e :
  exec r (SAssert e) = match eval r e with Ok v => if truthy v then Ok (r, None) else Err (Raise "AssertionError") | Err z => Err z end.
Proof. reflexivity. Qed.
Lemma exec_raise r cls : exec r (SRaise cls) = Err (Raise cls).
Proof. reflexivity. Qed.

(* ---------- expressions ---------- *)
Lemma eval_var r x : eval r (EVar x) = match lookup x r with Some v => Ok v | None => Err (Raise "NameError") end.
Proof. reflexivity. Qed.
Lemma eval_comp r body x iter cond :
  eval r (EComp body x iter cond) =
  match eval r iter with
  | Ok (VL l) => wrapL (comp_list (fun v => match cond with None => Ok (VB true) | Some c => eval (assign x v r) c end)
                                  (fun v => eval (assign x v r) body) l)
  | Ok _ => rerr | Err z => Err z end.
Proof. reflexivity. Qed.
Lemma eval_comp2 r body x y it1 it2 :
  eval r (EComp2 body x y it1 it2) =
  match eval r it1, eval r it2 with
  | Ok (VL l1), Ok (VL l2) => wrapL (comp2_list (fun v w => eval (assign y w (assign x v r)) body) l1 l2)
  | Ok _, Ok _ => rerr | Err z, _ => Err z | _, Err z => Err z end.
Proof. reflexivity. Qed.
Lemma eval_lstrip_dash r a :
  eval r (ELstrip a "-") = match eval r a with Ok (VS s) => Ok (VS (lstrip_dashes s)) | Ok _ => rerr | Err z => Err z end.
Proof. reflexivity. Qed.
Lemma eval_repeat_dash r n :
  eval r (ERepeat "-" n) = match eval r n with Ok (VN k) => Ok (VS (repeat_char "-"%char k)) | Ok _ => rerr | Err z => Err z end.
Proof. reflexivity. Qed.

(* ---------- values ---------- *)
Lemma strs_of_map l : strs_of (map VS l) = Some l.
Proof. induction l as [|s t IH]; simpl; [reflexivity | now rewrite IH]. Qed.
Lemma strs_of_inv l : forall ss, strs_of l = Some ss -> l = map VS ss.
Proof.
  induction l as [|v t IH]; intros ss H; simpl in H; [injection H as <-; reflexivity|].
  destruct v; try discriminate. destruct (strs_of t) as [u|] eqn:E; [|discriminate]. injection H as <-.
  simpl. f_equal. now apply IH.
Qed.
Lemma map_VS_app a b : (map VS a ++ map VS b)%list = map VS (a ++ b).
Proof. now rewrite map_app. Qed.
Lemma existsb_VS s l : existsb (val_eqb (VS s)) (map VS l) = str_in s l.
Proof. unfold str_in. induction l as [|x t IH]; [reflexivity|]. cbn [map existsb]. rewrite IH. reflexivity. Qed.

(* ---------- strings ---------- *)
Lemma lstrip_by_length p s : String.length (lstrip_by p s) <= String.length s.
Proof. induction s as [|a t IH]; simpl; [lia|]. destruct (p a); simpl; lia. Qed.
Lemma split_on_nonempty c s acc : split_on c s acc <> [].
Proof. revert acc. induction s as [|a t IH]; intros acc; simpl; [discriminate|]. destruct (Ascii.eqb a c); [discriminate | apply IH]. Qed.
(* a string that contains the separator splits into at least two parts *)
Lemma split_on_two c s : forall acc, has_char c s = true -> exists a b t, split_on c s acc = a :: b :: t.
Proof.
  induction s as [|x u IH]; intros acc H; simpl in H; [discriminate|]. simpl.
  destruct (Ascii.eqb x c) eqn:E.
  - destruct (split_on c u "") as [|b t] eqn:S; [exfalso; exact (split_on_nonempty c u "" S)|]. now exists acc, b, t.
  - simpl in H. apply IH. exact H.
Qed.

(* ---------- laws restated in Properties/MINIPY.v ---------- *)
Lemma return_stops r e rest : exec_block r (SReturn e :: rest) = exec_block r [SReturn e].
Proof. rewrite !exec_block_cons, exec_return. destruct (eval r e); reflexivity. Qed.

Lemma for_unfold r x it body v l :
  eval r it = Ok (VL (v :: l)) ->
  exec r (SFor x it body) =
  match exec_block (assign x v r) body with
  | Err z => Err z
  | Ok (r', Some w) => Ok (r', Some w)
  | Ok (r', None) => iter_list (fun v r => exec_block (assign x v r) body) l r'
  end.
Proof. intros H. rewrite exec_for, H. reflexivity. Qed.

Lemma comprehension_local r y body x it cond rest v :
  eval r (EComp body x it cond) = Ok v ->
  exec_block r (SAssign y (EComp body x it cond) :: rest) = exec_block (assign y v r) rest.
Proof. intros H. rewrite exec_block_cons, exec_assign, H. reflexivity. Qed.

(* ---------- fourth group: unfolding lemmas ---------- *)
Definition attr_of (o : val) (n : string) : res val :=
  match o with
  | VR _ f => match rget n f with Some v => Ok v | None => Err (Raise "AttributeError") end
  | _ => rerr
  end.
Lemma eval_attr r e n : eval r (EAttr e n) = match eval r e with Ok o => attr_of o n | Err z => Err z end.
Proof. cbn [eval]. unfold op_attr. destruct (eval r e) as [[]|]; reflexivity. Qed.

Lemma exec_continue r : exec r SContinue = Ok (r, Some CONT).
Proof. reflexivity. Qed.
Lemma exec_forc r x it body :
  exec r (SForC x it body) =
  match eval r it with
  | Ok (VL l) => iter_list_c (fun v r => exec_block (assign x v r) body) l r
  | Ok _ => rerr
  | Err z => Err z
  end.
Proof. reflexivity. Qed.
Lemma exec_for2 r x y it body :
  exec r (SFor2 x y it body) =
  match eval r it with
  | Ok itv => match seq_items itv with
              | Some l => iter_list_c (pair_step (fun a b r => exec_block (assign y b (assign x a r)) body)) l r
              | None => rerr end
  | Err z => Err z
  end.
Proof. reflexivity. Qed.
Lemma exec_unpack r xs e : exec r (SUnpack xs e) = st_unpack r xs (eval r e).
Proof. reflexivity. Qed.
Fixpoint eval_path (r : env) (p : list (bool * expr)) : res (list (bool * val)) :=
  match p with
  | [] => Ok []
  | (b, k) :: t => match eval r k, eval_path r t with
                   | Ok kv, Ok rest => Ok ((b, kv) :: rest) | Err z, _ => Err z | _, Err z => Err z end
  end.
Lemma exec_setpath r x path e : exec r (SSetPath x path e) = st_setpath r x (eval r e) (eval_path r path).
Proof.
  cbn [exec]. f_equal.
  induction path as [|[b k] t IH]; [reflexivity|]. cbn [eval_path]. rewrite IH. reflexivity.
Qed.
Lemma exec_popattr r t x k dflt :
  exec r (SPopAttr t x k dflt) =
  st_popattr r t x (eval r k) (match dflt with Some d => match eval r d with Ok v => Ok (Some v) | Err z => Err z end | None => Ok None end).
Proof. reflexivity. Qed.
Fixpoint bind_ins (r : env) (l : list (string * expr)) (acc : env) : res env :=
  match l with
  | [] => Ok acc
  | (p, a) :: t => match eval r a with Ok v => bind_ins r t (assign p v acc) | Err z => Err z end
  end.
Lemma exec_call r body ins outs :
  exec r (SCall body ins outs) =
  match bind_ins r ins [] with
  | Err z => Err z
  | Ok r0 => match exec_block r0 body with
             | Err z => Err z
             | Ok (r1, _) => copy_back r1 outs r
             end
  end.
Proof.
  cbn [exec].
  assert (B : forall l acc, (fix bind (l : list (string * expr)) (acc : env) : res env :=
               match l with
               | [] => Ok acc
               | (p, a) :: t => match eval r a with Ok v => bind t (assign p v acc) | Err z => Err z end
               end) l acc = bind_ins r l acc).
  { induction l as [|[p a] t IH]; intros acc; [reflexivity|]. cbn [bind_ins]. destruct (eval r a); [apply IH | reflexivity]. }
  rewrite B. destruct (bind_ins r ins []) as [r0|]; [|reflexivity].
  rewrite exec_block_inner. reflexivity.
Qed.

(* ---------- fifth group ---------- *)
Lemma exec_break r : exec r SBreak = Ok (r, Some BRK).
Proof. reflexivity. Qed.
Lemma exec_forbe r x it body els :
  exec r (SForBE x it body els) =
  match eval r it with
  | Ok (VL l) => for_else (iter_list_c (fun v r => exec_block (assign x v r) body) l r) (fun r' => exec_block r' els)
  | Ok _ => rerr
  | Err z => Err z
  end.
Proof. reflexivity. Qed.
Lemma exec_pop r t x k dflt :
  exec r (SPop t x k dflt) =
  st_pop r t x (eval r k) (match dflt with Some d => match eval r d with Ok v => Ok (Some v) | Err z => Err z end | None => Ok None end).
Proof. reflexivity. Qed.
Lemma exec_callret r t body ins outs :
  exec r (SCallRet t body ins outs) =
  match bind_ins r ins [] with
  | Err z => Err z
  | Ok r0 => match exec_block r0 body with
             | Err z => Err z
             | Ok (r1, o) => ret_to t o (copy_back r1 outs r)
             end
  end.
Proof.
  cbn [exec].
  assert (B : forall l acc, (fix bind (l : list (string * expr)) (acc : env) : res env :=
               match l with
               | [] => Ok acc
               | (p, a) :: t => match eval r a with Ok v => bind t (assign p v acc) | Err z => Err z end
               end) l acc = bind_ins r l acc).
  { induction l as [|[p a] u IH]; intros acc; [reflexivity|]. cbn [bind_ins]. destruct (eval r a); [apply IH | reflexivity]. }
  rewrite B. destruct (bind_ins r ins []) as [r0|]; [|reflexivity].
  rewrite exec_block_inner. reflexivity.
Qed.
Lemma eval_all r body x it :
  eval r (EAll body x it) =
  match eval r it with
  | Ok itv => match seq_items itv with
              | Some l => all_list (fun v => eval (assign x v r) body) l
              | None => rerr end
  | Err z => Err z end.
Proof. reflexivity. Qed.

(* ---------- sixth group ---------- *)
Lemma exec_while r fuel c body :
  exec r (SWhile fuel c body) = while_loop fuel (fun r => eval r c) (fun r => exec_block r body) r.
Proof.
  cbn [exec]. revert r. induction fuel as [|k IH]; intros r; cbn [while_loop].
  - destruct (eval r c); reflexivity.
  - destruct (eval r c) as [v|]; [|reflexivity]. destruct (truthy v); [|reflexivity].
    rewrite exec_block_inner. destruct (exec_block r body) as [[r' [w|]]|]; [|apply IH|reflexivity].
    destruct (is_cont w); [apply IH | reflexivity].
Qed.
Lemma exec_dictappend r x k e : exec r (SDictAppend x k e) = st_dictappend r x (eval r k) (eval r e).
Proof. reflexivity. Qed.
Lemma exec_remove r x e : exec r (SRemove x e) = st_remove r x (eval r e).
Proof. reflexivity. Qed.
Lemma exec_append' r x e : exec r (SAppend x e) = match lookup x r, eval r e with
  | Some (VL l), Ok v => Ok (assign x (VL (l ++ [v])) r, None) | _, Err z => Err z | _, _ => rerr end.
Proof. reflexivity. Qed.
