(* Proofs/DefaultsPipeline.v — C01: the hand model of "fill the constructor arguments" in Model/Defaults.v (fill_wrapper; the leaf
   entries of run_fields) REFINES the functional model Model/Pipeline.v fill_fn, which Proofs/MiniPyPipeline.v proves equal to the
   regenerated source of ArgumentParser._fill_constructor_arguments_with_fields / FieldWrapper.__call__.
   Scope: the empty command line (the namespace holds no parsed value: every field takes FieldWrapper.default), successful runs.
   Abstraction: a wrapper of the store (Defaults.wrap) |-> Pipeline.wrapperw; each leaf |-> a Pipeline.fieldw whose evaluated
   attributes (dest, default, is_reused, destinations) and whose tables for duplicate_if_needed / postprocess are the graphs of the
   corresponding functions of Model/Defaults.v at the arguments that occur. *)
From SPV Require Import Base.Str Model.MiniPy Model.Pipeline Gen.FactsPipelineSrc Proofs.MiniPyPipeline.
From SPV Require Import Model.Leaf Model.LeafSpec Model.OptStr Model.Defaults Model.DefaultsSpec.
Open Scope string_scope.

(* ---------------------------------------------------------------------------------------------- *)
(* values of the default model as interpreter values (injective)                                    *)
(* ---------------------------------------------------------------------------------------------- *)
Definition enc_Z (z : Z) : list MiniPy.val := [VB (Z.ltb z 0); VN (Z.abs_nat z)].

Fixpoint enc_value (v : value) : MiniPy.val :=
  match v with
  | VInt z => VT (VC "int" :: enc_Z z)
  | VFlt n i f => VT (VC "float" :: VB n :: VS f :: enc_Z i)
  | VStr s => VS s
  | VBool b => VB b
  | Leaf.VNone => MiniPy.VNone
  | VEnum m => VT [VC "enum"; VS m]
  | VPath s => VT [VC "path"; VS s]
  | VList vs => MiniPy.VL (map enc_value vs)
  | VTup vs => VT (VC "tuple" :: map enc_value vs)
  end.

Fixpoint enc_vt (v : vt) : MiniPy.val :=
  match v with
  | Defaults.VL x => enc_value x
  | Defaults.VD cn fs => VR cn (map (fun p => (fst p, enc_vt (snd p))) fs)
  end.

Definition enc_attrs (l : list (string * vt)) : list (MiniPy.val * MiniPy.val) := map (fun p => (VS (fst p), enc_vt (snd p))) l.
Definition enc_ca (c : cargs) : list (MiniPy.val * MiniPy.val) := map (fun p => (VS (fst p), MiniPy.VD (enc_attrs (snd p)))) c.

Lemma enc_Z_inj a b : Z.ltb a 0 = Z.ltb b 0 -> Z.abs_nat a = Z.abs_nat b -> a = b.
Proof.
  intros S A. destruct (Z.ltb_spec a 0), (Z.ltb_spec b 0); try discriminate; lia.
Qed.

Section ValueInd.
  Variable P : value -> Prop.
  Hypothesis HInt : forall z, P (VInt z).
  Hypothesis HFlt : forall n i f, P (VFlt n i f).
  Hypothesis HStr : forall s, P (VStr s).
  Hypothesis HBool : forall b, P (VBool b).
  Hypothesis HNone : P Leaf.VNone.
  Hypothesis HEnum : forall m, P (VEnum m).
  Hypothesis HPath : forall s, P (VPath s).
  Hypothesis HList : forall vs, Forall P vs -> P (VList vs).
  Hypothesis HTup : forall vs, Forall P vs -> P (VTup vs).
  Fixpoint value_rect' (v : value) : P v :=
    match v with
    | VInt z => HInt z | VFlt n i f => HFlt n i f | VStr s => HStr s | VBool b => HBool b
    | Leaf.VNone => HNone | VEnum m => HEnum m | VPath s => HPath s
    | VList vs => HList vs ((fix go (l : list value) : Forall P l :=
                               match l with [] => Forall_nil P | x :: r => Forall_cons x (value_rect' x) (go r) end) vs)
    | VTup vs => HTup vs ((fix go (l : list value) : Forall P l :=
                             match l with [] => Forall_nil P | x :: r => Forall_cons x (value_rect' x) (go r) end) vs)
    end.
End ValueInd.

(* the interpreter's == on two encodings holds only for equal values (no VN-vs-VB confusion: numbers are tagged) *)
Ltac brk :=
  repeat match goal with
         | H : andb _ _ = true |- _ => apply andb_true_iff in H; destruct H
         | H : Bool.eqb _ _ = true |- _ => apply Bool.eqb_prop in H
         | H : Nat.eqb _ _ = true |- _ => apply Nat.eqb_eq in H
         | H : String.eqb _ _ = true |- _ => apply String.eqb_eq in H
         end.

(* the interpreter's == on two encodings holds only for equal values (no VN-vs-VB confusion: numbers are tagged) *)
Lemma enc_value_inj : forall a b, val_eqb (enc_value a) (enc_value b) = true -> a = b.
Proof.
  induction a using value_rect'; intros w E; destruct w; cbn in E; try discriminate.
  - brk. f_equal. now apply enc_Z_inj.
  - brk. subst. f_equal. now apply enc_Z_inj.
  - brk. now subst.
  - brk. now subst.
  - reflexivity.
  - brk. now subst.
  - brk. now subst.
  - f_equal. revert vs0 E. induction H as [|x r Hx _ IH]; intros [|y r2] E; cbn in E; try discriminate; [reflexivity|].
    apply andb_true_iff in E as [E1 E2]. f_equal; [now apply Hx | now apply IH].
  - f_equal. revert vs0 E. induction H as [|x r Hx _ IH]; intros [|y r2] E; cbn in E; try discriminate; [reflexivity|].
    apply andb_true_iff in E as [E1 E2]. f_equal; [now apply Hx | now apply IH].
Qed.

Lemma enc_value_refl : forall a, val_eqb (enc_value a) (enc_value a) = true.
Proof.
  induction a using value_rect'; cbn; rewrite ?Bool.eqb_reflx, ?Nat.eqb_refl, ?String.eqb_refl; try reflexivity.
  - induction H as [|x r Hx _ IH]; [reflexivity | cbn; now rewrite Hx, IH].
  - induction H as [|x r Hx _ IH]; [reflexivity | cbn; now rewrite Hx, IH].
Qed.

(* ---------------------------------------------------------------------------------------------- *)
(* destination strings: "parent.attribute" is split at the last dot                                 *)
(* ---------------------------------------------------------------------------------------------- *)
Lemma split_on_snoc c a : has_char c a = false -> forall s acc,
  split_on c (s ++ String c a) acc = (split_on c s acc ++ [a])%list.
Proof.
  intros Ha. induction s as [|x r IH]; intros acc; cbn.
  - rewrite Ascii.eqb_refl. rewrite (split_on_nodot c a "" Ha). reflexivity.
  - destruct (Ascii.eqb x c); cbn; now rewrite IH.
Qed.

Lemma concat_cons_ne sep x l : l <> [] -> String.concat sep (x :: l) = x ++ sep ++ String.concat sep l.
Proof. destruct l; [congruence | reflexivity]. Qed.

Lemma split_on_ne c s acc : split_on c s acc <> [].
Proof. revert acc. induction s as [|x r IH]; intros acc; cbn; [discriminate|]. destruct (Ascii.eqb x c); [discriminate | apply IH]. Qed.

Lemma concat_split_on s : forall acc, String.concat "." (split_on "."%char s acc) = acc ++ s.
Proof.
  induction s as [|x r IH]; intros acc; cbn.
  - now rewrite append_nil_r.
  - destruct (Ascii.eqb x "."%char) eqn:E.
    + apply Ascii.eqb_eq in E. subst x. rewrite concat_cons_ne by apply split_on_ne. rewrite IH. reflexivity.
    + rewrite IH, append_assoc. reflexivity.
Qed.

Lemma split_dest_join d a : nodot a = true -> MiniPy.split_dest (d ++ "." ++ a) = (d, a).
Proof.
  intros N. unfold nodot in N. apply negb_true_iff in N. unfold MiniPy.split_dest, split_dot.
  change (d ++ "." ++ a) with (d ++ String "."%char a). rewrite (split_on_snoc "."%char a N), rev_app_distr. cbn [rev app].
  rewrite rev_involutive. unfold join_dot. now rewrite concat_split_on.
Qed.

(* ---------------------------------------------------------------------------------------------- *)
(* constructor_arguments: the association lists of the two models                                  *)
(* ---------------------------------------------------------------------------------------------- *)
Definition keys_ok {A} (l : list (string * A)) : bool := str_nodupb (map fst l).
Definition ca_wf (c : cargs) : bool := keys_ok c && forallb (fun p => keys_ok (snd p)) c.

Lemma set_attr_enc l a v : keys_ok l = true -> dset (VS a) (enc_vt v) (enc_attrs l) = enc_attrs (set_attr l a v).
Proof.
  unfold set_attr, keys_ok. induction l as [|[k w] r IH]; intros ND; [reflexivity|].
  cbn [map fst str_nodupb] in ND. apply andb_true_iff in ND as [Nk Nr]. apply negb_true_iff in Nk.
  cbn [enc_attrs map dset fst snd val_eqb existsb]. destruct (String.eqb k a) eqn:E.
  - cbn [orb]. apply String.eqb_eq in E. subst k. cbn [map fst snd]. f_equal.
    (* no other entry has this key *)
    clear IH Nr. induction r as [|[k2 w2] r2 IH2]; [reflexivity|]. cbn [map fst snd] in Nk |- *.
    unfold str_in in Nk. cbn [existsb] in Nk. apply orb_false_iff in Nk as [N1 N2].
    rewrite String.eqb_sym in N1. rewrite N1. cbn [fst snd]. f_equal. now apply IH2.
  - cbn [orb]. specialize (IH Nr). destruct (existsb (fun p => String.eqb (fst p) a) r) eqn:X.
    + cbn [map fst snd]. f_equal. exact IH.
    + cbn [app map fst snd]. f_equal. exact IH.
Qed.

Lemma existsb_map_fst {A} (l : list (string * A)) a :
  existsb (String.eqb a) (map fst l) = existsb (fun p => String.eqb (fst p) a) l.
Proof. induction l as [|[k w] r IH]; [reflexivity|]. cbn. now rewrite IH, (String.eqb_sym a k). Qed.

Lemma replace_absent {A} (r : list (string * A)) k (g : string * A -> string * A) :
  str_in k (map fst r) = false -> map (fun p => if String.eqb (fst p) k then g p else p) r = r.
Proof.
  induction r as [|[k2 w2] r2 IH]; intros N; [reflexivity|]. unfold str_in in N. cbn [map fst existsb] in N |- *.
  apply orb_false_iff in N as [N1 N2]. rewrite String.eqb_sym in N1. rewrite N1. f_equal. now apply IH.
Qed.

Lemma str_nodupb_snoc l a : str_nodupb l = true -> str_in a l = false -> str_nodupb (l ++ [a]) = true.
Proof.
  induction l as [|x r IH]; intros ND N; [reflexivity|]. cbn [str_nodupb app] in *. unfold str_in in N. cbn [existsb] in N.
  apply orb_false_iff in N as [N1 N2]. apply andb_true_iff in ND as [Nx Nr]. apply negb_true_iff in Nx.
  rewrite (IH Nr N2), andb_true_r. apply negb_true_iff. unfold str_in in *. rewrite existsb_app, Nx. cbn [existsb orb].
  rewrite String.eqb_sym in N1. now rewrite N1.
Qed.

Lemma set_attr_keys l a v : keys_ok l = true -> keys_ok (set_attr l a v) = true.
Proof.
  unfold set_attr, keys_ok. intros ND. destruct (existsb (fun p => String.eqb (fst p) a) l) eqn:X.
  - assert (E : map fst (map (fun p : string * vt => if String.eqb (fst p) a then (a, v) else p) l) = map fst l).
    { rewrite map_map. apply map_ext. intros [k w]. cbn [fst]. destruct (String.eqb k a) eqn:E; [apply String.eqb_eq in E; now subst | reflexivity]. }
    now rewrite E.
  - rewrite map_app. cbn [map fst]. apply str_nodupb_snoc; [exact ND|].
    unfold str_in. rewrite existsb_map_fst. exact X.
Qed.

Lemma ca_has_keys c d : ca_has c d = str_in d (map fst c).
Proof. unfold ca_has, str_in. now rewrite existsb_map_fst. Qed.

(* constructor_arguments[parent][attribute] = value, when the parent's dict exists (it does: setdefault for every destination) *)
Lemma ca_put_enc c d a v :
  ca_wf c = true -> ca_has c d = true -> nodot a = true ->
  ca_put (enc_ca c) (d ++ "." ++ a) (enc_vt v) = Ok (enc_ca (ca_set c d a v))
  /\ ca_wf (ca_set c d a v) = true /\ map fst (ca_set c d a v) = map fst c.
Proof.
  intros W H N. unfold ca_put. rewrite (split_dest_join d a N). cbn [fst snd upd_path].
  unfold ca_set, ca_touch. rewrite H. clear N.
  unfold ca_wf in *. apply andb_true_iff in W as [Wk Wi].
  assert (K : map fst (map (fun p : string * list (string * vt) => if String.eqb (fst p) d then (d, set_attr (snd p) a v) else p) c)
              = map fst c).
  { rewrite map_map. apply map_ext. intros [k w]. cbn [fst]. destruct (String.eqb k d) eqn:E; [apply String.eqb_eq in E; now subst | reflexivity]. }
  repeat split; [| |exact K].
  - clear K. revert Wk Wi H. induction c as [|[k at0] r IH]; intros Wk Wi H; [discriminate|].
    unfold keys_ok in Wk. cbn [map fst str_nodupb] in Wk. apply andb_true_iff in Wk as [Nk Nr]. apply negb_true_iff in Nk.
    cbn [forallb snd] in Wi. apply andb_true_iff in Wi as [Wa Wr].
    cbn [enc_ca map dget fst snd val_eqb]. destruct (String.eqb k d) eqn:E.
    + apply String.eqb_eq in E. subst k. cbn [dset val_eqb]. rewrite String.eqb_refl.
      rewrite (set_attr_enc at0 a v Wa). f_equal. f_equal. symmetry.
      exact (f_equal (map (fun p => (VS (fst p), MiniPy.VD (enc_attrs (snd p))))) (replace_absent r d _ Nk)).
    + cbn [ca_has existsb fst] in H. rewrite E in H. cbn [orb] in H.
      specialize (IH Nr Wr H).
      change (map (fun p : string * list (string * vt) => (VS (fst p), MiniPy.VD (enc_attrs (snd p)))) r) with (enc_ca r).
      destruct (dget (VS d) (enc_ca r)) as [w|]; [|discriminate IH].
      destruct w; try discriminate IH. cbn [dset val_eqb]. rewrite E.
      injection IH as IH. rewrite IH. reflexivity.
  - apply andb_true_iff. split; [unfold keys_ok; now rewrite K|].
    apply forallb_forall. intros [k w] Hin. apply in_map_iff in Hin as [[k0 w0] [E Hin]]. cbn [fst snd] in E.
    rewrite forallb_forall in Wi. specialize (Wi _ Hin). cbn [snd] in Wi.
    destruct (String.eqb k0 d); injection E as <- <-; cbn [snd]; [now apply set_attr_keys | exact Wi].
Qed.

(* ---------------------------------------------------------------------------------------------- *)
(* tables: the graph of a function of Model/Defaults.v at the arguments that occur                  *)
(* ---------------------------------------------------------------------------------------------- *)
Lemma call_table_enc t a y : dget a t = Some (enc_value y) -> call_table t a = Ok (enc_value y).
Proof.
  unfold call_table. intros ->. destruct y; reflexivity.
Qed.
Lemma call_table_list t a l : dget a t = Some (MiniPy.VL l) -> call_table t a = Ok (MiniPy.VL l).
Proof. unfold call_table. now intros ->. Qed.

Lemma post_table_hit (t : ty) (vs : list value) x :
  In x vs -> dget (enc_value x) (map (fun y => (enc_value y, enc_value (post t y))) vs) = Some (enc_value (post t x)).
Proof.
  induction vs as [|y r IH]; intros Hin; [destruct Hin|]. cbn [map dget].
  destruct (val_eqb (enc_value y) (enc_value x)) eqn:E.
  - apply enc_value_inj in E. now subst.
  - destruct Hin as [->|Hin]; [now rewrite enc_value_refl in E | now apply IH].
Qed.

Lemma enc_vt_not_suppress v : val_eqb SUPPRESS (enc_vt v) = false.
Proof. destruct v as [x|cn fs]; [destruct x; reflexivity | reflexivity]. Qed.

(* ---------------------------------------------------------------------------------------------- *)
(* the abstraction and the refinement                                                               *)
(* ---------------------------------------------------------------------------------------------- *)
Section Refine.
  Variable order : list dsource.
  Variable pk_chain : list pk_test.
  Variable dup_chain : list (len_test * dup_act).
  Variable dup_else : dup_act.

  Definition the_default (w : wrap) (l : lf) : value :=
    match fw_default order pk_chain w l with Ok v => v | Err _ => Leaf.VNone end.
  (* one value per destination, before post-processing *)
  Definition dealt (w : wrap) (l : lf) : list value :=
    let n := List.length (w_dests w) in
    if Nat.ltb 1 n then match duplicate_if_needed dup_chain dup_else (lf_ty l) (the_default w l) n with Ok vs => vs | Err _ => [] end
    else [the_default w l].

  Definition abs_field (w : wrap) (l : lf) : fieldw :=
    mkfieldw (w_key w ++ "." ++ lf_name l)                                   (* FieldWrapper.dest *)
             (enc_value (the_default w l))                                    (* FieldWrapper.default, evaluated *)
             false true
             (Nat.ltb 1 (List.length (w_dests w)))                            (* is_reused *)
             (map (fun d => d ++ "." ++ lf_name l) (w_dests w))               (* destinations *)
             [(enc_value (the_default w l), MiniPy.VL (map enc_value (dealt w l)))]           (* duplicate_if_needed at the default *)
             (map (fun y => (enc_value y, enc_value (post (lf_ty l) y))) (dealt w l))          (* postprocess at each dealt value *)
             MiniPy.VNone.
  Definition abs_wrapper (w : wrap) : wrapperw :=
    mkwrapperw (map (abs_field w) (w_leaves w)) (map enc_vt (Defaults.w_defaults w)).

  Definition names_ok (w : wrap) : bool := forallb (fun l => nodot (lf_name l)) (w_leaves w).
  Definition dests_present (c : cargs) (w : wrap) : bool := forallb (ca_has c) (w_dests w).

  (* FieldWrapper.__call__ over the zipped destinations and values *)
  Lemma call_loop_refines w l name : forall ds vs c,
    name = lf_name l -> nodot name = true ->
    ca_wf c = true -> forallb (ca_has c) ds = true -> (forall x, In x vs -> In x (dealt w l)) ->
    call_loop (abs_field w l) (combine (map (fun d => d ++ "." ++ name) ds) (map enc_value vs)) (enc_ca c)
    = Ok (enc_ca (zip_set c ds name (map (fun x => Defaults.VL (post (lf_ty l) x)) vs)))
    /\ ca_wf (zip_set c ds name (map (fun x => Defaults.VL (post (lf_ty l) x)) vs)) = true
    /\ map fst (zip_set c ds name (map (fun x => Defaults.VL (post (lf_ty l) x)) vs)) = map fst c.
  Proof.
    induction ds as [|d rd IH]; intros vs c En N W H S; [now repeat split|].
    destruct vs as [|x rv]; [now repeat split|].
    cbn [map combine call_loop zip_set]. cbn [abs_field f_is_subgroup f_post].
    rewrite (call_table_enc _ _ (post (lf_ty l) x) (post_table_hit (lf_ty l) (dealt w l) x (S x (or_introl eq_refl)))).
    cbn [forallb] in H. apply andb_true_iff in H as [Hd Hr].
    destruct (ca_put_enc c d name (Defaults.VL (post (lf_ty l) x)) W Hd N) as [P [W' K]].
    cbn [enc_vt] in P. rewrite P.
    destruct (IH rv (ca_set c d name (Defaults.VL (post (lf_ty l) x))) En N W') as [A [B C]].
    - apply forallb_forall. intros d' Hin. rewrite ca_has_keys, K, <- ca_has_keys. rewrite forallb_forall in Hr. now apply Hr.
    - intros y Hy. apply S. now right.
    - repeat split; [exact A | exact B | now rewrite C, K].
  Qed.

  Definition step (w : wrap) (acc : res cargs) (l : lf) : res cargs :=
    match acc with
    | Err e => Err e
    | Ok c =>
        match fw_default order pk_chain w l with
        | Err e => Err e
        | Ok v =>
            let n := List.length (w_dests w) in
            match (if Nat.ltb 1 n then duplicate_if_needed dup_chain dup_else (lf_ty l) v n else Ok [v]) with
            | Err e => Err e
            | Ok vs => Ok (zip_set c (w_dests w) (lf_name l) (map (fun x => Defaults.VL (post (lf_ty l) x)) vs))
            end
        end
    end.
  Lemma fill_wrapper_is_fold w c : fill_wrapper order pk_chain dup_chain dup_else w c = fold_left (step w) (w_leaves w) (Ok c).
  Proof. reflexivity. Qed.
  Lemma fold_step_err w ls e : fold_left (step w) ls (Err e) = Err e.
  Proof. induction ls as [|l r IH]; [reflexivity | exact IH]. Qed.

  Lemma no_suppress w : existsb (val_eqb SUPPRESS) (map enc_vt (Defaults.w_defaults w)) = false.
  Proof. induction (Defaults.w_defaults w) as [|v r IH]; [reflexivity|]. cbn [map existsb]. now rewrite enc_vt_not_suppress, IH. Qed.

  (* the fields of one wrapper, empty namespace *)
  Lemma fields_refine w : forall ls c c',
    forallb (fun l => nodot (lf_name l)) ls = true -> ca_wf c = true -> dests_present c w = true ->
    fold_left (step w) ls (Ok c) = Ok c' ->
    fill_fields (abs_wrapper w) (map (abs_field w) ls) [] (enc_ca c) = Ok ([], enc_ca c')
    /\ ca_wf c' = true /\ map fst c' = map fst c.
  Proof.
    induction ls as [|l r IH]; intros c c' N W P F.
    - cbn in F. injection F as <-. now repeat split.
    - cbn [forallb] in N. apply andb_true_iff in N as [Nl Nr].
      cbn [fold_left] in F. unfold step at 2 in F.
      destruct (fw_default order pk_chain w l) as [v|e] eqn:D; [|rewrite fold_step_err in F; discriminate].
      cbv zeta in F.
      destruct (if Nat.ltb 1 (List.length (w_dests w)) then duplicate_if_needed dup_chain dup_else (lf_ty l) v (List.length (w_dests w))
                else Ok [v]) as [vs|e] eqn:Dv; [|rewrite fold_step_err in F; discriminate].
      assert (TD : the_default w l = v) by (unfold the_default; now rewrite D).
      assert (DL : dealt w l = vs).
      { unfold dealt. rewrite TD. destruct (Nat.ltb 1 (List.length (w_dests w))); [now rewrite Dv | now injection Dv]. }
      cbn [map fill_fields]. unfold skipped. cbn [abs_wrapper Pipeline.w_defaults abs_field f_is_subgroup f_init f_dest negb orb].
      rewrite no_suppress. cbn [andb orb rget].
      assert (CF : call_fn (abs_field w l) (f_default (abs_field w l)) (enc_ca c)
                   = call_loop (abs_field w l) (combine (map (fun d => d ++ "." ++ lf_name l) (w_dests w)) (map enc_value vs)) (enc_ca c)).
      { unfold call_fn. cbn [abs_field f_is_reused f_dup f_default f_dests]. rewrite TD, DL.
        destruct (Nat.ltb 1 (List.length (w_dests w))).
        - rewrite (call_table_list _ _ (map enc_value vs)); [reflexivity|]. cbn [dget]. now rewrite enc_value_refl.
        - injection Dv as <-. reflexivity. }
      rewrite CF.
      destruct (call_loop_refines w l (lf_name l) (w_dests w) vs c eq_refl Nl W P) as [A [B C]].
      { intros x Hx. now rewrite DL. }
      rewrite A. cbn [rdel].
      destruct (IH _ c' Nr B) as [A2 [B2 C2]]; [| exact F |].
      + unfold dests_present in *. apply forallb_forall. intros d Hd. rewrite ca_has_keys, C, <- ca_has_keys.
        rewrite forallb_forall in P. now apply P.
      + repeat split; [exact A2 | exact B2 | now rewrite C2, C].
  Qed.

  (* all wrappers: the expression parse_merge folds over the flattened wrapper list *)
  Definition fill_all (ws : list wrap) (c : cargs) : res cargs :=
    fold_left (fun (acc : res cargs) w => match acc with Err e => Err e | Ok c => fill_wrapper order pk_chain dup_chain dup_else w c end)
              ws (Ok c).
  Lemma fill_all_err ws e :
    fold_left (fun (acc : res cargs) w => match acc with Err e => Err e | Ok c => fill_wrapper order pk_chain dup_chain dup_else w c end)
              ws (Err e) = Err e.
  Proof. induction ws as [|w r IH]; [reflexivity | exact IH]. Qed.

  Lemma wrappers_refine : forall ws c c',
    forallb names_ok ws = true -> ca_wf c = true -> forallb (dests_present c) ws = true ->
    fill_all ws c = Ok c' ->
    fill_wrappers (map abs_wrapper ws) [] (enc_ca c) = Ok ([], enc_ca c') /\ ca_wf c' = true /\ map fst c' = map fst c.
  Proof.
    induction ws as [|w r IH]; intros c c' N W P F.
    - cbn in F. injection F as <-. now repeat split.
    - cbn [forallb] in N, P. apply andb_true_iff in N as [Nw Nr]. apply andb_true_iff in P as [Pw Pr].
      unfold fill_all in F. cbn [fold_left] in F.
      destruct (fill_wrapper order pk_chain dup_chain dup_else w c) as [c1|e] eqn:FW; [|rewrite fill_all_err in F; discriminate].
      rewrite fill_wrapper_is_fold in FW.
      destruct (fields_refine w (w_leaves w) c c1 Nw W Pw FW) as [A [B C]].
      cbn [map fill_wrappers].
      change (Pipeline.w_fields (abs_wrapper w)) with (map (abs_field w) (w_leaves w)).
      rewrite A.
      destruct (IH c1 c' Nr B) as [A2 [B2 C2]]; [| exact F |].
      + apply forallb_forall. intros w' Hw'. unfold dests_present. apply forallb_forall. intros d Hd.
        rewrite ca_has_keys, C, <- ca_has_keys. rewrite forallb_forall in Pr. specialize (Pr w' Hw'). unfold dests_present in Pr.
        rewrite forallb_forall in Pr. now apply Pr.
      + repeat split; [exact A2 | exact B2 | now rewrite C2, C].
  Qed.

  (* the dict parse_known_args starts from: setdefault(destination, {}) for every destination of every wrapper *)
  Definition init_ca (ws : list wrap) : cargs := fold_left (fun c w => fold_left ca_touch (w_dests w) c) ws [].

  Lemma ca_touch_props c d :
    ca_wf c = true -> ca_wf (ca_touch c d) = true /\ ca_has (ca_touch c d) d = true
                      /\ (forall x, ca_has c x = true -> ca_has (ca_touch c d) x = true).
  Proof.
    intros W. unfold ca_touch. destruct (ca_has c d) eqn:H; [now repeat split|].
    unfold ca_wf in *. apply andb_true_iff in W as [Wk Wi]. repeat split.
    - apply andb_true_iff. split.
      + unfold keys_ok in *. rewrite map_app. cbn [map fst]. apply str_nodupb_snoc; [exact Wk | now rewrite <- ca_has_keys].
      + rewrite forallb_app, Wi. reflexivity.
    - unfold ca_has. rewrite existsb_app. cbn. now rewrite String.eqb_refl, orb_true_r.
    - intros x Hx. unfold ca_has in *. now rewrite existsb_app, Hx.
  Qed.

  Lemma touch_all_props ds : forall c,
    ca_wf c = true ->
    ca_wf (fold_left ca_touch ds c) = true /\ forallb (ca_has (fold_left ca_touch ds c)) ds = true
    /\ (forall x, ca_has c x = true -> ca_has (fold_left ca_touch ds c) x = true).
  Proof.
    induction ds as [|d r IH]; intros c W; [now repeat split|].
    destruct (ca_touch_props c d W) as [W1 [H1 M1]]. destruct (IH (ca_touch c d) W1) as [W2 [H2 M2]].
    cbn [fold_left forallb]. repeat split; [exact W2 | now rewrite (M2 d H1), H2 | intros x Hx; apply M2; now apply M1].
  Qed.

  Lemma init_ca_props ws : ca_wf (init_ca ws) = true /\ forallb (dests_present (init_ca ws)) ws = true.
  Proof.
    unfold init_ca.
    assert (G : forall ws c, ca_wf c = true ->
                ca_wf (fold_left (fun c w => fold_left ca_touch (w_dests w) c) ws c) = true
                /\ forallb (dests_present (fold_left (fun c w => fold_left ca_touch (w_dests w) c) ws c)) ws = true
                /\ (forall x, ca_has c x = true -> ca_has (fold_left (fun c w => fold_left ca_touch (w_dests w) c) ws c) x = true)).
    { clear ws. induction ws as [|w r IH]; intros c W; [now repeat split|].
      destruct (touch_all_props (w_dests w) c W) as [W1 [H1 M1]].
      destruct (IH _ W1) as [W2 [H2 M2]]. cbn [fold_left forallb]. repeat split; [exact W2 | | intros x Hx; apply M2; now apply M1].
      rewrite H2, andb_true_r. unfold dests_present. apply forallb_forall. intros d Hd. apply M2.
      rewrite forallb_forall in H1. now apply H1. }
    destruct (G ws [] eq_refl) as [A [B _]]. now split.
  Qed.

  (* the regenerated body of _fill_constructor_arguments_with_fields, run on the abstraction of the wrapper store with an empty
     namespace, yields the constructor arguments of the default model *)
  Theorem source_fill_defaults mode cls ws c' :
    forallb names_ok ws = true ->
    String.eqb mode MERGE || Nat.eqb (List.length ws) (List.length (init_ca ws)) = true ->
    fill_all ws (init_ca ws) = Ok c' ->
    MiniPy.run (fill_env mode cls [] (map abs_wrapper ws) (enc_ca (init_ca ws))) fill_src
    = Ok (VT [VR cls []; MiniPy.VD (enc_ca c')]).
  Proof.
    intros N M F. rewrite fill_is_model. unfold fill_fn.
    assert (G : negb (String.eqb mode MERGE) && negb (Nat.eqb (List.length (map abs_wrapper ws)) (List.length (enc_ca (init_ca ws)))) = false).
    { unfold enc_ca. rewrite !map_length. destruct (String.eqb mode MERGE); [reflexivity|]. cbn [orb] in M. now rewrite M. }
    rewrite G. destruct (init_ca_props ws) as [W P].
    destruct (wrappers_refine ws (init_ca ws) c' N W P F) as [A _]. now rewrite A.
  Qed.
End Refine.

(* ---------------------------------------------------------------------------------------------- *)
(* NONE / EXPLICIT / AUTO (one destination per wrapper): the leaf entries of run_fields, the function  *)
(* C01_empty_defaults_partial is about, ARE what the regenerated source computes for that wrapper      *)
(* ---------------------------------------------------------------------------------------------- *)
Fixpoint leaf_part (fs : list fld) (vals : list (string * vt)) : list (string * vt) :=
  match fs, vals with
  | FLeaf _ _ _ _ :: r, p :: rv => p :: leaf_part r rv
  | FNest _ _ _ _ _ :: r, _ :: rv => leaf_part r rv
  | _, _ => []
  end.
Definition top_leaf_names (fs : list fld) : list string :=
  flat_map (fun f => match f with FLeaf n _ _ _ => [n] | FNest _ _ _ _ _ => [] end) fs.
Definition fill_side (fs : list fld) : bool := str_nodupb (top_leaf_names fs) && forallb nodot (top_leaf_names fs).

Section PlainWrapper.
  Variable g0 : guard_kind.
  Variable order : list dsource.
  Variable cached : bool.
  Variable dv : list dvsrc.
  Variable pk_chain : list pk_test.
  Variable dup_chain : list (len_test * dup_act).
  Variable dup_else : dup_act.

  (* a wrapper as DataclassWrapper.__init__ creates it (Model/Defaults.v build_root / build_member) *)
  Definition wrapper_of (key : string) (path : list string) (cn : string) (fs : list fld) (wd : option vt) (defs : list vt)
             (parent : option string) (opt : bool) (children : list string) : wrap :=
    mkw key path cn fs (leaves_of cached fs wd defs) parent opt wd defs [key] children.

  Lemma set_attr_absent (l : list (string * vt)) a v : str_in a (map fst l) = false -> set_attr l a v = (l ++ [(a, v)])%list.
  Proof. unfold set_attr, str_in. rewrite existsb_map_fst. now intros ->. Qed.

  Lemma plain_fold w key wd defs :
    w_dests w = [key] -> Defaults.w_defaults w = defs ->
    forall fs acc,
      str_nodupb (map fst acc ++ top_leaf_names fs) = true ->
      fold_left (step order pk_chain dup_chain dup_else w) (leaves_of cached fs wd defs) (Ok [(key, acc)])
      = Ok [(key, (acc ++ leaf_part fs (run_fields g0 order cached dv fs wd defs))%list)].
  Proof.
    intros Hd Hf. induction fs as [|f r IH]; intros acc ND.
    - cbn. now rewrite app_nil_r.
    - destruct f as [n t d fac|n opt cn cfs nd].
      + cbn [leaves_of fold_left]. unfold step at 2. unfold fw_default. rewrite Hd, Hf.
        cbn [lf_ty lf_name lf_d lf_fac lf_manual List.length].
        unfold package.
        destruct (raw_default order (manual_init cached wd defs n d fac) defs n d fac) as [v single] eqn:R.
        cbn [Nat.leb orb]. cbv zeta. cbn [Nat.ltb Nat.leb map zip_set].
        assert (LD : leaf_default order cached n d fac wd defs = v) by (unfold leaf_default; now rewrite R).
        cbn [top_leaf_names flat_map app] in ND.
        assert (NA : str_in n (map fst acc) = false).
        { clear -ND. induction acc as [|[k w0] r0 IHa]; [reflexivity|]. cbn [map fst app str_nodupb] in ND.
          apply andb_true_iff in ND as [N1 N2]. apply negb_true_iff in N1. unfold str_in in *. cbn [existsb].
          rewrite existsb_app in N1. apply orb_false_iff in N1 as [_ N1]. cbn [existsb] in N1. apply orb_false_iff in N1 as [N1 _].
          cbn [map fst existsb]. rewrite String.eqb_sym, N1. cbn [orb]. now apply IHa. }
        unfold ca_set, ca_touch. cbn [ca_has existsb fst]. rewrite String.eqb_refl. cbn [orb map fst snd]. rewrite String.eqb_refl.
        rewrite (set_attr_absent acc n _ NA).
        rewrite IH.
        * unfold run_fields. cbn [map run_fld leaf_part]. rewrite LD, <- app_assoc. reflexivity.
        * rewrite map_app. cbn [map fst]. rewrite <- app_assoc. exact ND.
      + cbn [leaves_of]. unfold run_fields. cbn [map leaf_part]. apply IH. exact ND.
  Qed.

  Theorem plain_source_fill mode cls key path cn fs wd defs parent opt children :
    fill_side fs = true ->
    MiniPy.run (fill_env mode cls []
                  [abs_wrapper order pk_chain dup_chain dup_else (wrapper_of key path cn fs wd defs parent opt children)]
                  [(VS key, MiniPy.VD [])]) fill_src
    = Ok (VT [VR cls []; MiniPy.VD [(VS key, MiniPy.VD (enc_attrs (leaf_part fs (run_fields g0 order cached dv fs wd defs))))]]).
  Proof.
    intros S. unfold fill_side in S. apply andb_true_iff in S as [ND NN].
    set (w := wrapper_of key path cn fs wd defs parent opt children).
    assert (IC : init_ca [w] = [(key, [])]) by reflexivity.
    pose proof (source_fill_defaults order pk_chain dup_chain dup_else mode cls [w]
                  [(key, leaf_part fs (run_fields g0 order cached dv fs wd defs))]) as T.
    rewrite IC in T. cbn [enc_ca map fst snd enc_attrs] in T. apply T.
    - cbn [forallb]. rewrite andb_true_r. unfold names_ok, w, wrapper_of. cbn [w_leaves].
      clear -NN. induction fs as [|f r IH]; [reflexivity|]. destruct f; cbn [leaves_of top_leaf_names flat_map app forallb lf_name] in *.
      + apply andb_true_iff in NN as [A B]. now rewrite A, IH.
      + now apply IH.
    - cbn. now rewrite orb_true_r.
    - unfold fill_all. cbn [fold_left]. rewrite fill_wrapper_is_fold.
      exact (plain_fold w key wd defs eq_refl eq_refl fs [] ND).
  Qed.
End PlainWrapper.

(* ---------------------------------------------------------------------------------------------- *)
(* with the regenerated facts; composition with the main theorem's lemmas                           *)
(* ---------------------------------------------------------------------------------------------- *)
From SPV Require Import Gen.FactsConflicts Gen.FactsDefaults Proofs.DefaultsProofs.

Definition abs_wrapper_gen := abs_wrapper default_sources_gen pk_chain_gen dup_chain_gen dup_else_gen.
Definition fill_all_gen := fill_all default_sources_gen pk_chain_gen dup_chain_gen dup_else_gen.
Definition wrapper_of_gen := wrapper_of factory_cached_gen.
Definition attrs_of (v : vt) : list (string * vt) := match v with Defaults.VD _ fs => fs | Defaults.VL _ => [] end.

(* (1) any wrapper the constructor creates, any default state: the source computes the leaf entries of run_fields *)
Theorem source_pipeline_defaults mode cls key path cn fs wd defs parent opt children :
  fill_side fs = true ->
  MiniPy.run (fill_env mode cls [] [abs_wrapper_gen (wrapper_of_gen key path cn fs wd defs parent opt children)] [(VS key, MiniPy.VD [])])
             fill_src
  = Ok (VT [VR cls []; MiniPy.VD [(VS key, MiniPy.VD (enc_attrs (leaf_part fs (run_fields_gen fs wd defs))))]]).
Proof.
  exact (plain_source_fill guard_gen default_sources_gen factory_cached_gen default_value_sources_gen pk_chain_gen dup_chain_gen dup_else_gen
                           mode cls key path cn fs wd defs parent opt children).
Qed.

(* (2) a registered destination: those entries are the leaf attributes of the instance C01 demands *)
Theorem source_pipeline_meets_spec mode cls d c i children :
  wf_entry (d, c, i) = true -> forallb (shape3_free_fld guard_gen (is_some i) i) (snd c) = true -> fill_side (snd c) = true ->
  MiniPy.run (fill_env mode cls [] [abs_wrapper_gen (wrapper_of_gen d [d] (fst c) (snd c) i (root_defaults i) None false children)]
                       [(VS d, MiniPy.VD [])]) fill_src
  = Ok (VT [VR cls []; MiniPy.VD [(VS d, MiniPy.VD (enc_attrs (leaf_part (snd c)
                 (attrs_of (match i with Some D => D | None => construct c end)))))]]).
Proof.
  intros W S3 FS. rewrite (source_pipeline_defaults mode cls d [d] (fst c) (snd c) i (root_defaults i) None false children FS).
  unfold wf_entry in W. apply andb_true_iff in W as [Wf Wi]. unfold wf_fields in Wf. apply andb_true_iff in Wf as [Wc Wn].
  apply str_nodupb_NoDup in Wn.
  assert (E : run_fields_gen (snd c) i (root_defaults i) = attrs_of (match i with Some D => D | None => construct c end)).
  { destruct i as [D|].
    - unfold wf_inst in Wi. destruct D as [v|cn vals]; [discriminate|]. apply andb_true_iff in Wi as [_ WA].
      cbn [root_defaults attrs_of is_some] in *.
      exact (run_fields_inst guard_gen factory_cached_gen (snd c) true cn vals Wc Wn WA S3).
    - cbn [root_defaults attrs_of construct is_some] in *.
      exact (run_fields_construct guard_gen factory_cached_gen (snd c) Wc S3). }
  now rewrite E.
Qed.

(* (3) ALWAYS_MERGE: the flattened wrapper store after merging, every wrapper with its list of destinations *)
Theorem source_pipeline_store mode cls ws c' :
  forallb names_ok ws = true ->
  String.eqb mode MERGE || Nat.eqb (List.length ws) (List.length (init_ca ws)) = true ->
  fill_all_gen ws (init_ca ws) = Ok c' ->
  MiniPy.run (fill_env mode cls [] (map abs_wrapper_gen ws) (enc_ca (init_ca ws))) fill_src
  = Ok (VT [VR cls []; MiniPy.VD (enc_ca c')]).
Proof. exact (source_fill_defaults default_sources_gen pk_chain_gen dup_chain_gen dup_else_gen mode cls ws c'). Qed.

(* non-vacuity: a class with a falsy int, a list factory, an Optional tuple and a member; a caller default; and a wrapper merged over
   two destinations with per-destination defaults *)
Definition nv_fs : list fld :=
  [FLeaf "y" TInt (VInt 0) false; FLeaf "xs" (TList TStr) (VList []) true; FNest "n" false "In" [FLeaf "z" TInt (VInt 1) false] DFac;
   FLeaf "t" (TOpt (TTupVar TInt)) Leaf.VNone false].
Definition nv_inst : vt :=
  Defaults.VD "T" [("y", Defaults.VL (VInt 3)); ("xs", Defaults.VL (VList [VStr "a"])); ("n", Defaults.VD "In" [("z", Defaults.VL (VInt 4))]);
                   ("t", Defaults.VL (VTup [VInt 1]))].
Definition nv_merged : wrap :=
  mkw "d0" ["d0"] "M" [FLeaf "y" TInt (VInt 5) false]
      [mklf "y" TInt (VInt 5) false None] None false None
      [Defaults.VD "M" [("y", Defaults.VL (VInt 9))]; Defaults.VD "M" [("y", Defaults.VL (VInt 7))]] ["d0"; "d1"] [].

Lemma pipeline_nonvacuous :
  wf_entry ("d", ("T", nv_fs), Some nv_inst) = true /\ fill_side nv_fs = true
  /\ MiniPy.run (fill_env "ConflictResolution.AUTO" "Namespace" []
                   [abs_wrapper_gen (wrapper_of_gen "d" ["d"] "T" nv_fs (Some nv_inst) [nv_inst] None false ["d.n"])]
                   [(VS "d", MiniPy.VD [])]) fill_src
     = Ok (VT [VR "Namespace" [];
               MiniPy.VD [(VS "d", MiniPy.VD [(VS "y", enc_value (VInt 3)); (VS "xs", MiniPy.VL [VS "a"]);
                                              (VS "t", enc_value (VTup [VInt 1]))])]])
  /\ fill_all_gen [nv_merged] (init_ca [nv_merged])
     = Ok [("d0", [("y", Defaults.VL (VInt 9))]); ("d1", [("y", Defaults.VL (VInt 7))])]
  /\ MiniPy.run (fill_env "ConflictResolution.ALWAYS_MERGE" "Namespace" [] (map abs_wrapper_gen [nv_merged]) (enc_ca (init_ca [nv_merged]))) fill_src
     = Ok (VT [VR "Namespace" [];
               MiniPy.VD [(VS "d0", MiniPy.VD [(VS "y", enc_value (VInt 9))]); (VS "d1", MiniPy.VD [(VS "y", enc_value (VInt 7))])]]).
Proof. vm_compute. repeat split; reflexivity. Qed.
