(* Proofs/BoolFlagProofs.v — the model of boolean flags (instantiated with the REGENERATED facts) meets the
   C12 spec, for every occurrence sequence, every casing, every path prefix. *)
From SPV Require Import Base.Str Model.BoolFlag Model.BoolFlagSpec Gen.FactsBool.

(* ---------- bridge: the regenerated vocabulary is the property's vocabulary (as sets) ---------- *)
Definition seteq (a b : list string) : bool :=
  forallb (fun x => str_in x b) a && forallb (fun x => str_in x a) b.

Lemma seteq_str_in a b : seteq a b = true -> forall v, str_in v a = str_in v b.
Proof.
  unfold seteq. intros H v. apply andb_true_iff in H as [Hab Hba].
  rewrite forallb_forall in Hab, Hba.
  destruct (str_in v a) eqn:Ea; destruct (str_in v b) eqn:Eb; try reflexivity.
  - apply str_in_In in Ea. apply Hab in Ea. congruence.
  - apply str_in_In in Eb. apply Hba in Eb. congruence.
Qed.

Lemma bridge_true_set : seteq TRUE_STRINGS SPEC_TRUE = true.
Proof. vm_compute. reflexivity. Qed.
Lemma bridge_false_set : seteq FALSE_STRINGS SPEC_FALSE = true.
Proof. vm_compute. reflexivity. Qed.
(* no word names both booleans *)
Lemma bridge_disjoint : forallb (fun x => negb (str_in x FALSE_STRINGS)) TRUE_STRINGS = true.
Proof. vm_compute. reflexivity. Qed.

Lemma str2bool_is_spec v : is_padded v = false -> str2bool_gen v = spec_word v.
Proof.
  unfold is_padded, str2bool_gen, spec_word. intros H.
  apply negb_false_iff, String.eqb_eq in H. rewrite H.
  rewrite (seteq_str_in _ _ bridge_true_set), (seteq_str_in _ _ bridge_false_set). reflexivity.
Qed.

(* every case variant of every vocabulary word, blanks around it tolerated *)
Lemma vocab_true s : str_in (lower (strip s)) SPEC_TRUE = true -> str2bool_gen s = Some true.
Proof.
  unfold str2bool_gen. intros H. rewrite (seteq_str_in _ _ bridge_true_set), H. reflexivity.
Qed.
Lemma vocab_false s :
  str_in (lower (strip s)) SPEC_FALSE = true -> str_in (lower (strip s)) SPEC_TRUE = false ->
  str2bool_gen s = Some false.
Proof.
  unfold str2bool_gen. intros H H'.
  rewrite (seteq_str_in _ _ bridge_true_set), H', (seteq_str_in _ _ bridge_false_set), H. reflexivity.
Qed.
Lemma vocab_nonword s :
  str_in (lower (strip s)) SPEC_TRUE = false -> str_in (lower (strip s)) SPEC_FALSE = false ->
  str2bool_gen s = None.
Proof.
  unfold str2bool_gen. intros H H'.
  rewrite (seteq_str_in _ _ bridge_true_set), H, (seteq_str_in _ _ bridge_false_set), H'. reflexivity.
Qed.

(* ---------- one occurrence ---------- *)
Definition to_occ (k : okind) (o : string) : occ :=
  match k with PosBare | NegBare => Bare o | PosVal v | NegVal v => Valued o v end.

(* the occurrence uses an option string of the right polarity *)
Definition kind_consistent (negs : list string) (k : okind) (o : string) : bool :=
  match k with PosBare | PosVal _ => negb (str_in o negs) | NegBare | NegVal _ => str_in o negs end.

Definition meets (e : expect) (r : res bool) : Prop :=
  match e with
  | MustBe b => r = Ok b
  | MustReject => exists x, r = Err x
  | Unspecified => True
  end.

Lemma meets_allows e r : meets e r -> expect_allows e r = true.
Proof.
  destruct e as [b| |]; simpl.
  - intros ->. simpl. apply eqb_reflx.
  - intros [x ->]. reflexivity.
  - reflexivity.
Qed.

Lemma occ_meets_spec negs k o :
  kind_consistent negs k o = true -> meets (spec_occ k) (eval_occ_gen negs (to_occ k o)).
Proof.
  unfold eval_occ_gen, eval_occ, action_call, call_table_gen, call_else_gen.
  destruct k as [| |v|v]; simpl; intros H.
  - apply negb_true_iff in H. rewrite H. reflexivity.
  - rewrite H. reflexivity.
  - apply negb_true_iff in H. destruct (is_padded v) eqn:P; simpl; [exact I|].
    rewrite (str2bool_is_spec v P). destruct (spec_word v) as [b|]; simpl.
    + rewrite H. reflexivity.
    + eexists. reflexivity.
  - destruct (str2bool_gen v) as [b|]; simpl.
    + rewrite H. eexists. reflexivity.
    + eexists. reflexivity.
Qed.

(* ---------- sequences: last occurrence wins, first rejection rejects ---------- *)
Fixpoint zip_occ (ks : list okind) (os : list string) : list occ :=
  match ks, os with k :: kr, o :: r => to_occ k o :: zip_occ kr r | _, _ => [] end.
Fixpoint all_consistent (negs : list string) (ks : list okind) (os : list string) : bool :=
  match ks, os with
  | k :: kr, o :: r => kind_consistent negs k o && all_consistent negs kr r
  | [], [] => true
  | _, _ => false
  end.

Definition meets_occs (e : expect) (r : res (option bool)) : Prop :=
  match e with
  | MustBe b => r = Ok (Some b)
  | MustReject => exists x, r = Err x
  | Unspecified => True
  end.

Lemma occs_meet_spec negs ks : forall os cur,
  all_consistent negs ks os = true ->
  (ks = [] -> cur <> None) ->
  meets_occs (spec_occs cur ks) (eval_occs_gen negs cur (zip_occ ks os)).
Proof.
  induction ks as [|k kr IH]; intros os cur Hc Hne.
  - destruct os; [|discriminate]. simpl. destruct cur as [b|]; simpl; [reflexivity|].
    exfalso. apply Hne; reflexivity.
  - destruct os as [|o r]; [discriminate|]. simpl in Hc. apply andb_true_iff in Hc as [Hk Hr].
    assert (M := occ_meets_spec negs k o Hk).
    unfold eval_occs_gen in *. simpl. fold (eval_occ_gen negs (to_occ k o)).
    destruct (spec_occ k) as [b| |]; simpl in M |- *.
    + rewrite M. apply IH; [exact Hr | intros _; discriminate].
    + destruct M as [x ->]. eexists. reflexivity.
    + exact I.
Qed.

Theorem flag_meets_spec negs default ks os :
  all_consistent negs ks os = true ->
  meets (spec_flag default ks) (eval_flag_gen negs default (zip_occ ks os)).
Proof.
  intros Hc. unfold eval_flag_gen, eval_flag, spec_flag.
  destruct ks as [|k kr].
  - destruct os; [|discriminate]. simpl. destruct default as [d|]; simpl; [reflexivity | eexists; reflexivity].
  - assert (M := occs_meet_spec negs (k :: kr) os None Hc ltac:(discriminate)).
    fold (eval_occs_gen negs None (zip_occ (k :: kr) os)).
    destruct (spec_occs None (k :: kr)) as [b| |]; simpl in M |- *.
    + rewrite M. reflexivity.
    + destruct M as [x ->]. eexists. reflexivity.
    + exact I.
Qed.

(* "with several occurrences the last one determines the value", in the model's own terms *)
Theorem last_wins negs default xs x c :
  eval_occs_gen negs None xs = Ok c ->
  eval_flag_gen negs default (xs ++ [x]) =
  match eval_occ_gen negs x with Ok b => Ok b | Err e => Err e end.
Proof.
  unfold eval_flag_gen, eval_flag, eval_occs_gen, eval_occ_gen.
  generalize (@None bool) at 1 2 as cur. revert c.
  induction xs as [|y r IH]; intros c cur H; simpl in *.
  - destruct (eval_occ str2bool_gen call_table_gen call_else_gen negs x); reflexivity.
  - destruct (eval_occ str2bool_gen call_table_gen call_else_gen negs y) as [b|e]; [|discriminate].
    apply (IH c (Some b) H).
Qed.

(* ---------- negative option strings ---------- *)
Lemma lstrip_dashes_dashes k w : lstrip_dashes w = w -> lstrip_dashes (dashes k ++ w) = w.
Proof. intros H. induction k as [|k IH]; simpl; [exact H | exact IH]. Qed.

Lemma length_dashes k : String.length (dashes k) = k.
Proof. unfold dashes. induction k as [|k IH]; simpl; [reflexivity | now f_equal]. Qed.

Lemma count_dashes k w : lstrip_dashes w = w -> count_leading_dashes (dashes k ++ w) = k.
Proof.
  intros H. unfold count_leading_dashes. rewrite lstrip_dashes_dashes by exact H.
  rewrite length_append, length_dashes. lia.
Qed.

Lemma has_char_append c a b : has_char c (a ++ b) = has_char c a || has_char c b.
Proof. induction a as [|x r IH]; simpl; [reflexivity | rewrite IH; apply orb_assoc]. Qed.

Lemma has_char_dashes k : has_char "."%char (dashes k) = false.
Proof. induction k; simpl; auto. Qed.

Lemma join_dot_cons w ws : ws <> [] -> join_dot (w :: ws) = w ++ "." ++ join_dot ws.
Proof. destruct ws; [congruence | reflexivity]. Qed.

Lemma join_dot_prepend p w ws : join_dot ((p ++ w) :: ws) = p ++ join_dot (w :: ws).
Proof. unfold join_dot. destruct ws; simpl; [reflexivity | now rewrite append_assoc]. Qed.

Lemma has_dot_join w1 w2 ws : has_char "."%char (join_dot (w1 :: w2 :: ws)) = true.
Proof.
  change (join_dot (w1 :: w2 :: ws)) with (w1 ++ String "."%char (join_dot (w2 :: ws))).
  rewrite has_char_append. simpl. apply orb_true_r.
Qed.

(* a word of a dotted path: no dot, does not start with a dash *)
Definition wordok (w : string) : bool := nodot w && String.eqb (lstrip_dashes w) w.

(* the negative of "--w1.w2...wk.n" under prefix "--"^kn ++ pw is "--"^kn w1.w2...wk.(pw n) *)
Lemma neg_of_dotted kd kn pw w1 ws n :
  forallb wordok (w1 :: ws ++ [n]) = true -> wordok pw = true -> (ws ++ [n])%list <> [] ->
  neg_of_option (dashes kn ++ pw) (dashes kd ++ join_dot (w1 :: ws ++ [n])) =
  Some (dashes kn ++ join_dot (w1 :: ws ++ [pw ++ n]), true).
Proof.
  intros Hall Hpw _.
  assert (Hall' := Hall). simpl in Hall'. apply andb_true_iff in Hall' as [Hw1 Hrest].
  unfold wordok in Hw1, Hpw. apply andb_true_iff in Hw1 as [Hw1d Hw1s], Hpw as [Hpwd Hpws].
  apply String.eqb_eq in Hw1s, Hpws.
  unfold neg_of_option.
  assert (Hdot : has_char "."%char (dashes kd ++ join_dot (w1 :: ws ++ [n])) = true).
  { rewrite has_char_append. destruct (ws ++ [n])%list eqn:E; [destruct ws; discriminate|].
    rewrite has_dot_join. apply orb_true_r. }
  rewrite Hdot.
  rewrite <- join_dot_prepend.
  assert (Hsplit : split_dot (join_dot ((dashes kd ++ w1) :: ws ++ [n])) = (dashes kd ++ w1) :: ws ++ [n]).
  { apply split_join_dot; [discriminate|]. simpl. apply andb_true_iff. split.
    - unfold nodot in *. rewrite has_char_append, has_char_dashes. exact Hw1d.
    - rewrite forallb_forall in Hrest |- *. intros x Hx. specialize (Hrest x Hx).
      unfold wordok in Hrest. apply andb_true_iff in Hrest as [Hx1 _]. exact Hx1. }
  rewrite Hsplit. rewrite rev_app_distr. simpl. rewrite rev_involutive.
  rewrite (count_dashes kn pw Hpws), (lstrip_dashes_dashes kn pw Hpws), (lstrip_dashes_dashes kd w1 Hw1s).
  rewrite join_dot_prepend. reflexivity.
Qed.

Lemma neg_of_plain np n :
  has_char "."%char n = false ->
  neg_of_option np (String "-"%char (String "-"%char n)) = Some (np ++ lstrip_dashes n, false).
Proof.
  intros Hn. unfold neg_of_option. cbn [has_char Ascii.eqb Bool.eqb orb prefixb andb]. rewrite Hn.
  cbn. reflexivity.
Qed.

(* the model's negative is the documented one *)
Theorem negative_is_documented kn pw path n :
  forallb wordok (path ++ [n]) = true -> wordok pw = true ->
  option_map fst (neg_of_option (dashes kn ++ pw) ("--" ++ join_dot (path ++ [n]))) =
  Some (spec_negative (dashes kn ++ pw) path n).
Proof.
  intros Hall Hpw.
  assert (Hpws : lstrip_dashes pw = pw).
  { unfold wordok in Hpw. apply andb_true_iff in Hpw as [_ H]. now apply String.eqb_eq in H. }
  destruct path as [|w1 ws].
  - simpl in Hall. rewrite andb_true_r in Hall. unfold wordok in Hall. apply andb_true_iff in Hall as [Hd Hs].
    apply String.eqb_eq in Hs. unfold nodot in Hd. apply negb_true_iff in Hd.
    cbn [app join_dot String.concat append]. rewrite (neg_of_plain _ n Hd). cbn. rewrite Hs. reflexivity.
  - change ("--" ++ join_dot ((w1 :: ws) ++ [n])) with (dashes 2 ++ join_dot (w1 :: ws ++ [n])).
    rewrite neg_of_dotted; [| exact Hall | exact Hpw | destruct ws; discriminate].
    unfold spec_negative. rewrite (count_dashes kn pw Hpws), (lstrip_dashes_dashes kn pw Hpws). reflexivity.
Qed.

(* same-named fields at different destinations never get the same negative option *)
Theorem negatives_injective np path1 path2 n :
  forallb nodot (path1 ++ [lstrip_dashes np ++ n]) = true ->
  forallb nodot (path2 ++ [lstrip_dashes np ++ n]) = true ->
  path1 <> [] -> path2 <> [] ->
  spec_negative np path1 n = spec_negative np path2 n -> path1 = path2.
Proof.
  intros H1 H2 N1 N2 E. unfold spec_negative in E.
  destruct path1 as [|a1 r1]; [congruence|]. destruct path2 as [|a2 r2]; [congruence|].
  apply append_inv_head in E. apply join_dot_inj in E; try assumption; try (destruct r1; discriminate); try (destruct r2; discriminate).
  apply app_inv_tail in E. exact E.
Qed.

(* a prefixed negative never equals an unprefixed one *)
Theorem negative_prefixed_differs kn pw path n :
  path <> [] -> nodot pw = true -> nodot n = true ->
  spec_negative (dashes kn ++ pw) path n <> spec_negative (dashes kn ++ pw) [] n.
Proof.
  intros N Hpw Hn E. unfold spec_negative in E. destruct path as [|a r]; [congruence|].
  fold (dashes (count_leading_dashes (dashes kn ++ pw))) in E.
  assert (D := f_equal (has_char "."%char) E).
  rewrite !has_char_append, !has_char_dashes in D.
  unfold nodot in *. apply negb_true_iff in Hpw, Hn. rewrite Hn, Hpw in D. cbn [orb] in D.
  cbn [app] in D.
  destruct (r ++ [(lstrip_dashes (dashes kn ++ pw) ++ n)%string])%list eqn:Er; [destruct r; discriminate|].
  rewrite has_dot_join in D. discriminate.
Qed.
