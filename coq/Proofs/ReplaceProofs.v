(* Proofs/ReplaceProofs.v — the model of replace() (instantiated with the REGENERATED facts) meets the C18 spec,
   for every instance tree and every change set (induction on trees / change sets, no size bound). *)
From SPV Require Import Base.Str Model.Replace Model.ReplaceSpec Gen.FactsReplace.

(* ---------- bridge: the regenerated facts are the ones the property text assumes ---------- *)
Definition F0 : facts := mkfacts "."%char "."%char "ValueError" false "ValueError" true true true.
Lemma facts_are_expected : facts_gen = F0.
Proof. reflexivity. Qed.

(* ====================================================================== *)
(* generic helpers                                                         *)
(* ====================================================================== *)

Section ValueInd.
  Variable P : value -> Prop.
  Hypothesis Hleaf : forall t r, P (VLeaf t r).
  Hypothesis Hdict : forall d, Forall (fun kv => P (snd kv)) d -> P (VDict d).
  Hypothesis Hdc : forall c fs, Forall (fun f => P (fval f)) fs -> P (VDc c fs).
  Fixpoint value_ind' (v : value) : P v :=
    match v with
    | VLeaf t r => Hleaf t r
    | VDict d =>
        Hdict d ((fix go (l : dict) : Forall (fun kv => P (snd kv)) l :=
                    match l with
                    | [] => Forall_nil _
                    | kx :: r => Forall_cons kx (value_ind' (snd kx)) (go r)
                    end) d)
    | VDc c fs =>
        Hdc c fs ((fix go (l : list field) : Forall (fun f => P (fval f)) l :=
                     match l with
                     | [] => Forall_nil _
                     | f :: r => Forall_cons f (value_ind' (fval f)) (go r)
                     end) fs)
    end.
End ValueInd.

Lemma bind_ok {A B} (r : res A) (f : A -> res B) b :
  bind r f = Ok b -> exists a, r = Ok a /\ f a = Ok b.
Proof. destruct r as [a|e]; simpl; intros H; [eauto | discriminate]. Qed.

Lemma fkind_eqb_refl k : fkind_eqb k k = true.
Proof. destruct k; simpl; [reflexivity | now rewrite !String.eqb_refl]. Qed.

Lemma all2_refl {A} (eqb : A -> A -> bool) l : Forall (fun x => eqb x x = true) l -> all2 eqb l l = true.
Proof. induction 1 as [|x r Hx _ IH]; simpl; [reflexivity | now rewrite Hx, IH]. Qed.

Lemma value_eqb_refl v : value_eqb v v = true.
Proof.
  induction v as [t r|d IH|c fs IH] using value_ind'; cbn [value_eqb].
  - now rewrite !String.eqb_refl.
  - apply all2_refl. eapply Forall_impl; [|exact IH]. intros kx H. cbn beta. now rewrite String.eqb_refl, H.
  - rewrite String.eqb_refl. cbn [andb]. apply all2_refl. eapply Forall_impl; [|exact IH].
    intros f H. cbn beta. now rewrite String.eqb_refl, fkind_eqb_refl, H.
Qed.

(* ---------- association lists ---------- *)
Lemma dget_app (a b : dict) k : dget (a ++ b)%list k = match dget a k with Some v => Some v | None => dget b k end.
Proof. induction a as [|[k' v] r IH]; simpl; [reflexivity|]. destruct (String.eqb k k'); [reflexivity | exact IH]. Qed.

Lemma dget_none d k : dget d k = None <-> ~ In k (dkeys d).
Proof.
  induction d as [|[k' v] r IH]; simpl.
  - split; [intros _ [] | reflexivity].
  - destruct (String.eqb k k') eqn:E.
    + apply String.eqb_eq in E. subst. split; [discriminate | intros H; exfalso; apply H; now left].
    + apply String.eqb_neq in E. rewrite IH. split.
      * intros H [H'|H']; [congruence | contradiction].
      * intros H H'. apply H. now right.
Qed.

Lemma dget_In d k v : dget d k = Some v -> In (k, v) d.
Proof.
  induction d as [|[k' v'] r IH]; simpl; [discriminate|].
  destruct (String.eqb k k') eqn:E.
  - apply String.eqb_eq in E. subst. intros H. injection H as ->. now left.
  - intros H. right. now apply IH.
Qed.

Lemma In_dget d k v : NoDup (dkeys d) -> In (k, v) d -> dget d k = Some v.
Proof.
  induction d as [|[k' v'] r IH]; simpl; intros N H; [contradiction|].
  inversion N as [|? ? Hn Nr]; subst.
  destruct H as [H|H].
  - injection H as -> ->. now rewrite String.eqb_refl.
  - destruct (String.eqb k k') eqn:E.
    + apply String.eqb_eq in E. subst. exfalso. apply Hn. change (In (fst (k', v)) (map fst r)). now apply in_map.
    + now apply IH.
Qed.

Lemma dkeys_app (a b : dict) : dkeys (a ++ b)%list = (dkeys a ++ dkeys b)%list.
Proof. unfold dkeys. apply map_app. Qed.

Lemma dset_notin d k v : ~ In k (dkeys d) -> dset d k v = (d ++ [(k, v)])%list.
Proof.
  induction d as [|[k' v'] r IH]; simpl; intros H; [reflexivity|].
  destruct (String.eqb k k') eqn:E.
  - apply String.eqb_eq in E. subst. exfalso. apply H. now left.
  - f_equal. apply IH. intros H'. apply H. now right.
Qed.

Lemma dset_last d k v v' : ~ In k (dkeys d) -> dset (d ++ [(k, v)])%list k v' = (d ++ [(k, v')])%list.
Proof.
  induction d as [|[k0 v0] r IH]; simpl; intros H.
  - now rewrite String.eqb_refl.
  - destruct (String.eqb k k0) eqn:E.
    + apply String.eqb_eq in E. subst. exfalso. apply H. now left.
    + f_equal. apply IH. intros H'. apply H. now right.
Qed.

Lemma dkeys_dset d k v : dkeys (dset d k v) = if dhas d k then dkeys d else (dkeys d ++ [k])%list.
Proof.
  unfold dhas. induction d as [|[k' v'] r IH]; simpl; [reflexivity|].
  destruct (String.eqb k k') eqn:E; simpl; [reflexivity|].
  rewrite IH. destruct (dget r k); reflexivity.
Qed.

Lemma dhas_In d k : dhas d k = true <-> In k (dkeys d).
Proof.
  unfold dhas. destruct (dget d k) eqn:E.
  - split; [intros _ | reflexivity]. apply dget_In in E. change k with (fst (k, v)). now apply in_map.
  - apply dget_none in E. split; [discriminate | contradiction].
Qed.

(* ---------- field lists ---------- *)
Lemma flookup_In fs n k v : flookup fs n = Some (k, v) -> In (n, k, v) fs.
Proof.
  induction fs as [|[[n' k'] v'] r IH]; simpl; [discriminate|].
  destruct (String.eqb n n') eqn:E.
  - apply String.eqb_eq in E. subst. intros H. injection H as -> ->. now left.
  - intros H. right. now apply IH.
Qed.

Lemma In_flookup fs n k v : NoDup (map fname fs) -> In (n, k, v) fs -> flookup fs n = Some (k, v).
Proof.
  induction fs as [|[[n' k'] v'] r IH]; simpl; intros N H; [contradiction|].
  inversion N as [|? ? Hn Nr]; subst.
  destruct H as [H|H].
  - injection H as -> -> ->. now rewrite String.eqb_refl.
  - destruct (String.eqb n n') eqn:E.
    + apply String.eqb_eq in E. subst. exfalso. apply Hn. apply (in_map fname) in H. exact H.
    + now apply IH.
Qed.

Lemma flookup_none fs n : flookup fs n = None <-> ~ In n (map fname fs).
Proof.
  induction fs as [|[[n' k'] v'] r IH]; simpl.
  - split; [intros _ [] | reflexivity].
  - destruct (String.eqb n n') eqn:E.
    + apply String.eqb_eq in E. subst. split; [discriminate | intros H; exfalso; apply H; now left].
    + apply String.eqb_neq in E. rewrite IH. change (fname (n', k', v')) with n'. split.
      * intros H [H'|H']; [congruence | contradiction].
      * intros H H'. apply H. now right.
Qed.

(* ====================================================================== *)
(* unflatten_split: identity on normal forms, always produces a normal form *)
(* ====================================================================== *)
Local Notation ustep := (fun (acc : res dict) (kv : list string * value) => bind acc (insert_path (fst kv) (snd kv))).
Local Notation splitkv c := (fun kv : string * value => (split_on c (fst kv) "", snd kv)).

Lemma fold_err (items : list (list string * value)) e : fold_left ustep items (Err e) = Err e.
Proof. induction items as [|x r IH]; simpl; [reflexivity | exact IH]. Qed.

Lemma keys_ok_iff d : keys_ok d = true <-> NoDup (dkeys d) /\ forallb nodot (dkeys d) = true.
Proof. unfold keys_ok. rewrite andb_true_iff, str_nodupb_NoDup. reflexivity. Qed.

Lemma unflatten_nf_gen (rest : dict) : forall acc : dict,
  NoDup (dkeys acc ++ dkeys rest) -> forallb nodot (dkeys rest) = true ->
  fold_left ustep (map (splitkv "."%char) rest) (Ok acc) = Ok (acc ++ rest)%list.
Proof.
  induction rest as [|[k v] r IH]; intros acc N D.
  - simpl. now rewrite app_nil_r.
  - simpl in D. apply andb_true_iff in D as [Hk Hr]. unfold nodot in Hk. apply negb_true_iff in Hk.
    cbn [map fold_left fst snd]. rewrite (split_on_nodot _ _ _ Hk). cbn [append bind insert_path].
    assert (Hn : ~ In k (dkeys acc)).
    { cbn [dkeys map fst] in N. apply NoDup_remove_2 in N. intros H. apply N. apply in_or_app. now left. }
    rewrite (dset_notin _ _ _ Hn).
    rewrite IH.
    + now rewrite <- app_assoc.
    + rewrite dkeys_app. cbn [dkeys map fst app]. rewrite <- app_assoc. exact N.
    + exact Hr.
Qed.

(* U1 *)
Lemma unflatten_split_nf n : keys_ok n = true -> unflatten_split "."%char n = Ok n.
Proof.
  intros H. apply keys_ok_iff in H as [N D]. unfold unflatten_split, unflatten.
  exact (unflatten_nf_gen n [] N D).
Qed.

Lemma has_char_app c a b : has_char c (a ++ b) = has_char c a || has_char c b.
Proof. induction a as [|x r IH]; simpl; [reflexivity | rewrite IH; apply orb_assoc]. Qed.

Lemma split_on_nosep c s : forall acc, has_char c acc = false ->
  Forall (fun w => has_char c w = false) (split_on c s acc).
Proof.
  induction s as [|a r IH]; intros acc H; simpl.
  - constructor; [exact H | constructor].
  - destruct (Ascii.eqb a c) eqn:E.
    + constructor; [exact H | apply IH; reflexivity].
    + apply IH. rewrite has_char_app, H. simpl. now rewrite E.
Qed.

Lemma insert_path_keys ks v d d' : insert_path ks v d = Ok d' ->
  exists k rest, ks = k :: rest /\ dkeys d' = if dhas d k then dkeys d else (dkeys d ++ [k])%list.
Proof.
  destruct ks as [|k [|k2 rest]]; cbn [insert_path]; intros H.
  - discriminate.
  - injection H as <-. exists k, []. split; [reflexivity | apply dkeys_dset].
  - exists k, (k2 :: rest). split; [reflexivity|]. unfold dhas. destruct (dget d k) as [[| sub |]|] eqn:G; try discriminate.
    + apply bind_ok in H as [sub' [_ H]]. injection H as <-. rewrite dkeys_dset. unfold dhas. now rewrite G.
    + apply bind_ok in H as [sub' [_ H]]. injection H as <-. rewrite dkeys_app. reflexivity.
Qed.

Lemma NoDup_snoc {A} (l : list A) k : NoDup l -> ~ In k l -> NoDup (l ++ [k])%list.
Proof.
  induction l as [|a r IH]; simpl; intros N H.
  - constructor; [intros [] | constructor].
  - inversion N; subst. constructor.
    + intros Hin. apply in_app_or in Hin as [Hin|[Hin|[]]]; [contradiction | subst; apply H; now left].
    + apply IH; [assumption | intros Hin; apply H; now right].
Qed.

Definition dinv (d : dict) : Prop := NoDup (dkeys d) /\ forallb nodot (dkeys d) = true.

Lemma insert_path_inv ks v d d' :
  dinv d -> Forall (fun w => has_char "."%char w = false) ks -> insert_path ks v d = Ok d' -> dinv d'.
Proof.
  intros [N D] Hks H. apply insert_path_keys in H as [k [rest [-> Hk]]].
  inversion Hks as [|? ? Hk0 _]; subst.
  unfold dinv. rewrite Hk. destruct (dhas d k) eqn:Hh; [split; assumption|].
  assert (Hn : ~ In k (dkeys d)). { intros Hin. apply dhas_In in Hin. congruence. }
  split.
  - now apply NoDup_snoc.
  - rewrite forallb_app, D. simpl. unfold nodot. now rewrite Hk0.
Qed.

Lemma unflatten_inv (items : list (list string * value)) : forall acc n,
  dinv acc -> Forall (fun kv => Forall (fun w => has_char "."%char w = false) (fst kv)) items ->
  fold_left ustep items (Ok acc) = Ok n -> dinv n.
Proof.
  induction items as [|[ks v] r IH]; intros acc n I Hall H.
  - simpl in H. injection H as <-. exact I.
  - inversion Hall as [|? ? Hks Hr]; subst. cbn [fold_left fst snd bind] in H.
    destruct (insert_path ks v acc) as [acc'|e] eqn:E.
    + eapply IH; [| exact Hr | exact H]. eapply insert_path_inv; eassumption.
    + rewrite fold_err in H. discriminate.
Qed.

(* U2 *)
Lemma unflatten_split_keys_ok d n : unflatten_split "."%char d = Ok n -> keys_ok n = true.
Proof.
  unfold unflatten_split, unflatten. intros H. apply keys_ok_iff.
  eapply unflatten_inv; [| | exact H].
  - split; [constructor | reflexivity].
  - apply Forall_forall. intros kv Hin. apply in_map_iff in Hin as [[k v] [<- _]]. cbn [fst].
    apply split_on_nosep. reflexivity.
Qed.

Lemma replace_eq F o ch :
  replace F o ch =
  bind (unflatten_split (f_sep F) ch) (fun n =>
    match o with
    | VDc cls fs =>
        bind (loop F (replace F) n fs)
             (fun kw => dc_replace o (if f_leftover F then (kw ++ leftover fs n)%list else kw))
    | _ => Err (Raise "TypeError")
    end).
Proof. destruct o; reflexivity. Qed.

(* dotted keys at any level mean exactly what their unflattened form means; a malformed set fails the same way *)
Theorem replace_unflatten o ch :
  replace F0 o ch = bind (unflatten_split "."%char ch) (fun n => replace F0 o n).
Proof.
  rewrite replace_eq. cbn [f_sep F0].
  destruct (unflatten_split "."%char ch) as [n|e] eqn:U; cbn [bind]; [|reflexivity].
  rewrite (replace_eq F0 o n). cbn [f_sep F0].
  rewrite (unflatten_split_nf n (unflatten_split_keys_ok _ _ U)). reflexivity.
Qed.

(* ====================================================================== *)
(* a cleaner equivalent of the model on normal forms: one new value per field *)
(* ====================================================================== *)
Section Each.
  Variable rec : value -> dict -> res value.
  Variable n : dict.
  Definition newval (f : field) : res value :=
    match fknd f, dget n (fname f) with
    | FNonInit t d, None => Ok (VLeaf t d)
    | FNonInit _ _, Some _ => Err (Raise "ValueError")
    | FInit, None => Ok (fval f)
    | FInit, Some (VDict sub) => if is_dc (fval f) then rec (fval f) sub else Ok (VDict sub)
    | FInit, Some c => Ok c
    end.
  Fixpoint each (l : list field) : res (list field) :=
    match l with
    | [] => Ok []
    | f :: r => bind (newval f) (fun nv => bind (each r) (fun r' => Ok ((fname f, fknd f, nv) :: r')))
    end.
End Each.

Fixpoint replace_ref (o : value) (n : dict) : res value :=
  match o with
  | VDc cls fs =>
      bind (each replace_ref n fs) (fun fs' =>
        if forallb (fun kv => has_field fs (fst kv)) n then Ok (VDc cls fs') else Err (Raise "TypeError"))
  | _ => Err (Raise "TypeError")
  end.

Lemma loop_keys rec n l : forall kw, loop F0 rec n l = Ok kw -> forall k, In k (dkeys kw) -> In k (map fname l).
Proof.
  induction l as [|f r IH]; intros kw H k Hk.
  - simpl in H. injection H as <-. destruct Hk.
  - cbn [loop] in H. cbn [map]. destruct (dget n (fname f)) as [c|] eqn:G.
    + destruct (is_noninit (fknd f)); [discriminate|].
      cbn [F0 f_need_dc f_need_dict implb] in H.
      destruct (is_dc (fval f) && is_dict c) eqn:C.
      * destruct c as [| sub |]; try discriminate.
        apply bind_ok in H as [nv [_ H]]. apply bind_ok in H as [kw' [L H]]. injection H as <-.
        destruct Hk as [<-|Hk]; [now left | right; eapply IH; eassumption].
      * apply bind_ok in H as [kw' [L H]]. injection H as <-.
        destruct Hk as [<-|Hk]; [now left | right; eapply IH; eassumption].
    + cbn [F0 f_noninit_first andb] in H. right. eapply IH; eassumption.
Qed.

Lemma dc_fields_skip l : forall k x kw, ~ In k (map fname l) -> dc_fields l ((k, x) :: kw) = dc_fields l kw.
Proof.
  induction l as [|[[name kd] v] r IH]; intros k x kw H; [reflexivity|].
  cbn [map] in H. change (fname (name, kd, v)) with name in H.
  assert (Hne : String.eqb name k = false). { apply String.eqb_neq. intros ->. apply H. now left. }
  assert (Hr : ~ In k (map fname r)). { intros Hin. apply H. now right. }
  cbn [dc_fields]. unfold dhas. cbn [dget]. rewrite Hne, (IH k x kw Hr). reflexivity.
Qed.

Lemma dget_absent (kw extra : dict) name :
  ~ In name (dkeys kw) -> ~ In name (dkeys extra) -> dget (kw ++ extra)%list name = None.
Proof. intros H1 H2. apply dget_none. rewrite dkeys_app. intros H. apply in_app_or in H as [H|H]; contradiction. Qed.

Lemma loop_each rec n l : forall extra : dict,
  NoDup (map fname l) -> (forall k, In k (dkeys extra) -> ~ In k (map fname l)) ->
  bind (loop F0 rec n l) (fun kw => dc_fields l (kw ++ extra)%list) = each rec n l.
Proof.
  induction l as [|[[name kd] v] r IH]; intros extra N D; [reflexivity|].
  cbn [map] in N, D. change (fname (name, kd, v)) with name in N, D.
  inversion N as [|? ? Hn Nr]; subst.
  assert (Dr : forall k, In k (dkeys extra) -> ~ In k (map fname r)).
  { intros k Hk Hin. apply (D k Hk). now right. }
  assert (Dn : ~ In name (dkeys extra)). { intros Hin. apply (D name Hin). now left. }
  specialize (IH extra Nr Dr).
  cbn [loop each]. unfold newval. change (fname (name, kd, v)) with name. change (fknd (name, kd, v)) with kd.
  change (fval (name, kd, v)) with v.
  destruct (dget n name) as [c|] eqn:G.
  - destruct kd as [|t d]; cbn [is_noninit]; [|reflexivity].
    cbn [F0 f_need_dc f_need_dict implb f_noninit_err].
    assert (Tail : forall nv : value,
      bind (bind (loop F0 rec n r) (fun kw => Ok ((name, nv) :: kw)))
           (fun kw => dc_fields ((name, FInit, v) :: r) (kw ++ extra)%list) =
      bind (each rec n r) (fun r' => Ok ((name, FInit, nv) :: r'))).
    { intros nv. rewrite <- IH. destruct (loop F0 rec n r) as [kw|e]; cbn [bind]; [|reflexivity].
      cbn [app dc_fields dget]. rewrite String.eqb_refl. rewrite (dc_fields_skip r name nv _ Hn). reflexivity. }
    destruct (is_dc v) eqn:Hdc; cbn [andb].
    + destruct c as [t0 r0| sub | c0 f0]; cbn [is_dict].
      * apply Tail.
      * destruct (rec v sub) as [nv|e]; cbn [bind]; [apply Tail | reflexivity].
      * apply Tail.
    + destruct c as [t0 r0| sub | c0 f0]; apply Tail.
  - cbn [F0 f_noninit_first andb]. rewrite <- IH.
    destruct (loop F0 rec n r) as [kw|e] eqn:L; cbn [bind].
    + assert (Hk : ~ In name (dkeys kw)). { intros Hin. apply Hn. eapply loop_keys; eassumption. }
      destruct kd as [|t d]; cbn [dc_fields bind].
      * rewrite (dget_absent kw extra name Hk Dn). reflexivity.
      * unfold dhas. rewrite (dget_absent kw extra name Hk Dn). reflexivity.
    + destruct kd; reflexivity.
Qed.
