(* Proofs/ReplaceProofs.v — the model of replace() (instantiated with the REGENERATED facts) meets the C18 spec,
   for every instance tree and every change set (induction on trees / change sets, no size bound). *)
From SPV Require Import Base.Str Model.Replace Model.ReplaceSpec Gen.FactsReplace.

(* ---------- bridge: the regenerated facts are the ones the property text assumes ---------- *)
Definition F0 : facts := mkfacts "."%char "."%char "ValueError" false "ValueError" true true true.
Lemma facts_are_expected : facts_gen = F0.
Proof. reflexivity. Qed.

(* ====================================================================== *)
(* generic helpers                                                         *)
(* ====================================================================== *)

Section ValueInd.
  Variable P : value -> Prop.
  Hypothesis Hleaf : forall t r, P (VLeaf t r).
  Hypothesis Hdict : forall d, Forall (fun kv => P (snd kv)) d -> P (VDict d).
  Hypothesis Hdc : forall c fs, Forall (fun f => P (fval f)) fs -> P (VDc c fs).
  Fixpoint value_ind' (v : value) : P v :=
    match v with
    | VLeaf t r => Hleaf t r
    | VDict d =>
        Hdict d ((fix go (l : dict) : Forall (fun kv => P (snd kv)) l :=
                    match l with
                    | [] => Forall_nil _
                    | kx :: r => Forall_cons kx (value_ind' (snd kx)) (go r)
                    end) d)
    | VDc c fs =>
        Hdc c fs ((fix go (l : list field) : Forall (fun f => P (fval f)) l :=
                     match l with
                     | [] => Forall_nil _
                     | f :: r => Forall_cons f (value_ind' (fval f)) (go r)
                     end) fs)
    end.
End ValueInd.

Lemma bind_ok {A B} (r : res A) (f : A -> res B) b :
  bind r f = Ok b -> exists a, r = Ok a /\ f a = Ok b.
Proof. destruct r as [a|e]; simpl; intros H; [eauto | discriminate]. Qed.

Lemma fkind_eqb_refl k : fkind_eqb k k = true.
Proof. destruct k; simpl; [reflexivity | now rewrite !String.eqb_refl]. Qed.

Lemma all2_refl {A} (eqb : A -> A -> bool) l : Forall (fun x => eqb x x = true) l -> all2 eqb l l = true.
Proof. induction 1 as [|x r Hx _ IH]; simpl; [reflexivity | now rewrite Hx, IH]. Qed.

Lemma value_eqb_refl v : value_eqb v v = true.
Proof.
  induction v as [t r|d IH|c fs IH] using value_ind'; cbn [value_eqb].
  - now rewrite !String.eqb_refl.
  - apply all2_refl. eapply Forall_impl; [|exact IH]. intros kx H. cbn beta. now rewrite String.eqb_refl, H.
  - rewrite String.eqb_refl. cbn [andb]. apply all2_refl. eapply Forall_impl; [|exact IH].
    intros f H. cbn beta. now rewrite String.eqb_refl, fkind_eqb_refl, H.
Qed.

(* ---------- association lists ---------- *)
Lemma dget_app (a b : dict) k : dget (a ++ b)%list k = match dget a k with Some v => Some v | None => dget b k end.
Proof. induction a as [|[k' v] r IH]; simpl; [reflexivity|]. destruct (String.eqb k k'); [reflexivity | exact IH]. Qed.

Lemma dget_none d k : dget d k = None <-> ~ In k (dkeys d).
Proof.
  induction d as [|[k' v] r IH]; simpl.
  - split; [intros _ [] | reflexivity].
  - destruct (String.eqb k k') eqn:E.
    + apply String.eqb_eq in E. subst. split; [discriminate | intros H; exfalso; apply H; now left].
    + apply String.eqb_neq in E. rewrite IH. split.
      * intros H [H'|H']; [congruence | contradiction].
      * intros H H'. apply H. now right.
Qed.

Lemma dget_In d k v : dget d k = Some v -> In (k, v) d.
Proof.
  induction d as [|[k' v'] r IH]; simpl; [discriminate|].
  destruct (String.eqb k k') eqn:E.
  - apply String.eqb_eq in E. subst. intros H. injection H as ->. now left.
  - intros H. right. now apply IH.
Qed.

Lemma In_dget d k v : NoDup (dkeys d) -> In (k, v) d -> dget d k = Some v.
Proof.
  induction d as [|[k' v'] r IH]; simpl; intros N H; [contradiction|].
  inversion N as [|? ? Hn Nr]; subst.
  destruct H as [H|H].
  - injection H as -> ->. now rewrite String.eqb_refl.
  - destruct (String.eqb k k') eqn:E.
    + apply String.eqb_eq in E. subst. exfalso. apply Hn. change (In (fst (k', v)) (map fst r)). now apply in_map.
    + now apply IH.
Qed.

Lemma dkeys_app (a b : dict) : dkeys (a ++ b)%list = (dkeys a ++ dkeys b)%list.
Proof. unfold dkeys. apply map_app. Qed.

Lemma dset_notin d k v : ~ In k (dkeys d) -> dset d k v = (d ++ [(k, v)])%list.
Proof.
  induction d as [|[k' v'] r IH]; simpl; intros H; [reflexivity|].
  destruct (String.eqb k k') eqn:E.
  - apply String.eqb_eq in E. subst. exfalso. apply H. now left.
  - f_equal. apply IH. intros H'. apply H. now right.
Qed.

Lemma dset_last d k v v' : ~ In k (dkeys d) -> dset (d ++ [(k, v)])%list k v' = (d ++ [(k, v')])%list.
Proof.
  induction d as [|[k0 v0] r IH]; simpl; intros H.
  - now rewrite String.eqb_refl.
  - destruct (String.eqb k k0) eqn:E.
    + apply String.eqb_eq in E. subst. exfalso. apply H. now left.
    + f_equal. apply IH. intros H'. apply H. now right.
Qed.

Lemma dkeys_dset d k v : dkeys (dset d k v) = if dhas d k then dkeys d else (dkeys d ++ [k])%list.
Proof.
  unfold dhas. induction d as [|[k' v'] r IH]; simpl; [reflexivity|].
  destruct (String.eqb k k') eqn:E; simpl; [reflexivity|].
  rewrite IH. destruct (dget r k); reflexivity.
Qed.

Lemma dhas_In d k : dhas d k = true <-> In k (dkeys d).
Proof.
  unfold dhas. destruct (dget d k) eqn:E.
  - split; [intros _ | reflexivity]. apply dget_In in E. change k with (fst (k, v)). now apply in_map.
  - apply dget_none in E. split; [discriminate | contradiction].
Qed.

(* ---------- field lists ---------- *)
Lemma flookup_In fs n k v : flookup fs n = Some (k, v) -> In (n, k, v) fs.
Proof.
  induction fs as [|[[n' k'] v'] r IH]; simpl; [discriminate|].
  destruct (String.eqb n n') eqn:E.
  - apply String.eqb_eq in E. subst. intros H. injection H as -> ->. now left.
  - intros H. right. now apply IH.
Qed.

Lemma In_flookup fs n k v : NoDup (map fname fs) -> In (n, k, v) fs -> flookup fs n = Some (k, v).
Proof.
  induction fs as [|[[n' k'] v'] r IH]; simpl; intros N H; [contradiction|].
  inversion N as [|? ? Hn Nr]; subst.
  destruct H as [H|H].
  - injection H as -> -> ->. now rewrite String.eqb_refl.
  - destruct (String.eqb n n') eqn:E.
    + apply String.eqb_eq in E. subst. exfalso. apply Hn. apply (in_map fname) in H. exact H.
    + now apply IH.
Qed.

Lemma flookup_none fs n : flookup fs n = None <-> ~ In n (map fname fs).
Proof.
  induction fs as [|[[n' k'] v'] r IH]; simpl.
  - split; [intros _ [] | reflexivity].
  - destruct (String.eqb n n') eqn:E.
    + apply String.eqb_eq in E. subst. split; [discriminate | intros H; exfalso; apply H; now left].
    + apply String.eqb_neq in E. rewrite IH. change (fname (n', k', v')) with n'. split.
      * intros H [H'|H']; [congruence | contradiction].
      * intros H H'. apply H. now right.
Qed.

(* ====================================================================== *)
(* unflatten_split: identity on normal forms, always produces a normal form *)
(* ====================================================================== *)
Local Notation ustep := (fun (acc : res dict) (kv : list string * value) => bind acc (insert_path (fst kv) (snd kv))).
Local Notation splitkv c := (fun kv : string * value => (split_on c (fst kv) "", snd kv)).

Lemma fold_err (items : list (list string * value)) e : fold_left ustep items (Err e) = Err e.
Proof. induction items as [|x r IH]; simpl; [reflexivity | exact IH]. Qed.

Lemma keys_ok_iff d : keys_ok d = true <-> NoDup (dkeys d) /\ forallb nodot (dkeys d) = true.
Proof. unfold keys_ok. rewrite andb_true_iff, str_nodupb_NoDup. reflexivity. Qed.

Lemma unflatten_nf_gen (rest : dict) : forall acc : dict,
  NoDup (dkeys acc ++ dkeys rest) -> forallb nodot (dkeys rest) = true ->
  fold_left ustep (map (splitkv "."%char) rest) (Ok acc) = Ok (acc ++ rest)%list.
Proof.
  induction rest as [|[k v] r IH]; intros acc N D.
  - simpl. now rewrite app_nil_r.
  - simpl in D. apply andb_true_iff in D as [Hk Hr]. unfold nodot in Hk. apply negb_true_iff in Hk.
    cbn [map fold_left fst snd]. rewrite (split_on_nodot _ _ _ Hk). cbn [append bind insert_path].
    assert (Hn : ~ In k (dkeys acc)).
    { cbn [dkeys map fst] in N. apply NoDup_remove_2 in N. intros H. apply N. apply in_or_app. now left. }
    rewrite (dset_notin _ _ _ Hn).
    rewrite IH.
    + now rewrite <- app_assoc.
    + rewrite dkeys_app. cbn [dkeys map fst app]. rewrite <- app_assoc. exact N.
    + exact Hr.
Qed.

(* U1 *)
Lemma unflatten_split_nf n : keys_ok n = true -> unflatten_split "."%char n = Ok n.
Proof.
  intros H. apply keys_ok_iff in H as [N D]. unfold unflatten_split, unflatten.
  exact (unflatten_nf_gen n [] N D).
Qed.

Lemma has_char_app c a b : has_char c (a ++ b) = has_char c a || has_char c b.
Proof. induction a as [|x r IH]; simpl; [reflexivity | rewrite IH; apply orb_assoc]. Qed.

Lemma split_on_nosep c s : forall acc, has_char c acc = false ->
  Forall (fun w => has_char c w = false) (split_on c s acc).
Proof.
  induction s as [|a r IH]; intros acc H; simpl.
  - constructor; [exact H | constructor].
  - destruct (Ascii.eqb a c) eqn:E.
    + constructor; [exact H | apply IH; reflexivity].
    + apply IH. rewrite has_char_app, H. simpl. now rewrite E.
Qed.

Lemma insert_path_keys ks v d d' : insert_path ks v d = Ok d' ->
  exists k rest, ks = k :: rest /\ dkeys d' = if dhas d k then dkeys d else (dkeys d ++ [k])%list.
Proof.
  destruct ks as [|k [|k2 rest]]; cbn [insert_path]; intros H.
  - discriminate.
  - injection H as <-. exists k, []. split; [reflexivity | apply dkeys_dset].
  - exists k, (k2 :: rest). split; [reflexivity|]. unfold dhas. destruct (dget d k) as [[| sub |]|] eqn:G; try discriminate.
    + apply bind_ok in H as [sub' [_ H]]. injection H as <-. rewrite dkeys_dset. unfold dhas. now rewrite G.
    + apply bind_ok in H as [sub' [_ H]]. injection H as <-. rewrite dkeys_app. reflexivity.
Qed.

Lemma NoDup_snoc {A} (l : list A) k : NoDup l -> ~ In k l -> NoDup (l ++ [k])%list.
Proof.
  induction l as [|a r IH]; simpl; intros N H.
  - constructor; [intros [] | constructor].
  - inversion N; subst. constructor.
    + intros Hin. apply in_app_or in Hin as [Hin|[Hin|[]]]; [contradiction | subst; apply H; now left].
    + apply IH; [assumption | intros Hin; apply H; now right].
Qed.

Definition dinv (d : dict) : Prop := NoDup (dkeys d) /\ forallb nodot (dkeys d) = true.

Lemma insert_path_inv ks v d d' :
  dinv d -> Forall (fun w => has_char "."%char w = false) ks -> insert_path ks v d = Ok d' -> dinv d'.
Proof.
  intros [N D] Hks H. apply insert_path_keys in H as [k [rest [-> Hk]]].
  inversion Hks as [|? ? Hk0 _]; subst.
  unfold dinv. rewrite Hk. destruct (dhas d k) eqn:Hh; [split; assumption|].
  assert (Hn : ~ In k (dkeys d)). { intros Hin. apply dhas_In in Hin. congruence. }
  split.
  - now apply NoDup_snoc.
  - rewrite forallb_app, D. simpl. unfold nodot. now rewrite Hk0.
Qed.

Lemma unflatten_inv (items : list (list string * value)) : forall acc n,
  dinv acc -> Forall (fun kv => Forall (fun w => has_char "."%char w = false) (fst kv)) items ->
  fold_left ustep items (Ok acc) = Ok n -> dinv n.
Proof.
  induction items as [|[ks v] r IH]; intros acc n I Hall H.
  - simpl in H. injection H as <-. exact I.
  - inversion Hall as [|? ? Hks Hr]; subst. cbn [fold_left fst snd bind] in H.
    destruct (insert_path ks v acc) as [acc'|e] eqn:E.
    + eapply IH; [| exact Hr | exact H]. eapply insert_path_inv; eassumption.
    + rewrite fold_err in H. discriminate.
Qed.

(* U2 *)
Lemma unflatten_split_keys_ok d n : unflatten_split "."%char d = Ok n -> keys_ok n = true.
Proof.
  unfold unflatten_split, unflatten. intros H. apply keys_ok_iff.
  eapply unflatten_inv; [| | exact H].
  - split; [constructor | reflexivity].
  - apply Forall_forall. intros kv Hin. apply in_map_iff in Hin as [[k v] [<- _]]. cbn [fst].
    apply split_on_nosep. reflexivity.
Qed.

Lemma replace_eq F o ch :
  replace F o ch =
  bind (unflatten_split (f_sep F) ch) (fun n =>
    match o with
    | VDc cls fs =>
        bind (loop F (replace F) n fs)
             (fun kw => dc_replace o (if f_leftover F then (kw ++ leftover fs n)%list else kw))
    | _ => Err (Raise "TypeError")
    end).
Proof. destruct o; reflexivity. Qed.

(* dotted keys at any level mean exactly what their unflattened form means; a malformed set fails the same way *)
Theorem replace_unflatten o ch :
  replace F0 o ch = bind (unflatten_split "."%char ch) (fun n => replace F0 o n).
Proof.
  rewrite replace_eq. cbn [f_sep F0].
  destruct (unflatten_split "."%char ch) as [n|e] eqn:U; cbn [bind]; [|reflexivity].
  rewrite (replace_eq F0 o n). cbn [f_sep F0].
  rewrite (unflatten_split_nf n (unflatten_split_keys_ok _ _ U)). reflexivity.
Qed.

(* ====================================================================== *)
(* a cleaner equivalent of the model on normal forms: one new value per field *)
(* ====================================================================== *)
Section Each.
  Variable rec : value -> dict -> res value.
  Variable n : dict.
  Definition newval (f : field) : res value :=
    match fknd f, dget n (fname f) with
    | FNonInit t d, None => Ok (VLeaf t d)
    | FNonInit _ _, Some _ => Err (Raise "ValueError")
    | FInit, None => Ok (fval f)
    | FInit, Some (VDict sub) => if is_dc (fval f) then rec (fval f) sub else Ok (VDict sub)
    | FInit, Some c => Ok c
    end.
  Fixpoint each (l : list field) : res (list field) :=
    match l with
    | [] => Ok []
    | f :: r => bind (newval f) (fun nv => bind (each r) (fun r' => Ok ((fname f, fknd f, nv) :: r')))
    end.
End Each.

Fixpoint replace_ref (o : value) (n : dict) : res value :=
  match o with
  | VDc cls fs =>
      bind (each replace_ref n fs) (fun fs' =>
        if forallb (fun kv => has_field fs (fst kv)) n then Ok (VDc cls fs') else Err (Raise "TypeError"))
  | _ => Err (Raise "TypeError")
  end.

Lemma loop_keys rec n l : forall kw, loop F0 rec n l = Ok kw -> forall k, In k (dkeys kw) -> In k (map fname l).
Proof.
  induction l as [|f r IH]; intros kw H k Hk.
  - simpl in H. injection H as <-. destruct Hk.
  - cbn [loop] in H. cbn [map]. destruct (dget n (fname f)) as [c|] eqn:G.
    + destruct (is_noninit (fknd f)); [discriminate|].
      cbn [F0 f_need_dc f_need_dict implb] in H.
      destruct (is_dc (fval f) && is_dict c) eqn:C.
      * destruct c as [| sub |]; try discriminate.
        apply bind_ok in H as [nv [_ H]]. apply bind_ok in H as [kw' [L H]]. injection H as <-.
        destruct Hk as [<-|Hk]; [now left | right; eapply IH; eassumption].
      * apply bind_ok in H as [kw' [L H]]. injection H as <-.
        destruct Hk as [<-|Hk]; [now left | right; eapply IH; eassumption].
    + cbn [F0 f_noninit_first andb] in H. right. eapply IH; eassumption.
Qed.

Lemma dc_fields_skip l : forall k x kw, ~ In k (map fname l) -> dc_fields l ((k, x) :: kw) = dc_fields l kw.
Proof.
  induction l as [|[[name kd] v] r IH]; intros k x kw H; [reflexivity|].
  cbn [map] in H. change (fname (name, kd, v)) with name in H.
  assert (Hne : String.eqb name k = false). { apply String.eqb_neq. intros ->. apply H. now left. }
  assert (Hr : ~ In k (map fname r)). { intros Hin. apply H. now right. }
  cbn [dc_fields]. unfold dhas. cbn [dget]. rewrite Hne, (IH k x kw Hr). reflexivity.
Qed.

Lemma dget_absent (kw extra : dict) name :
  ~ In name (dkeys kw) -> ~ In name (dkeys extra) -> dget (kw ++ extra)%list name = None.
Proof. intros H1 H2. apply dget_none. rewrite dkeys_app. intros H. apply in_app_or in H as [H|H]; contradiction. Qed.

Lemma loop_each rec n l : forall extra : dict,
  NoDup (map fname l) -> (forall k, In k (dkeys extra) -> ~ In k (map fname l)) ->
  bind (loop F0 rec n l) (fun kw => dc_fields l (kw ++ extra)%list) = each rec n l.
Proof.
  induction l as [|[[name kd] v] r IH]; intros extra N D; [reflexivity|].
  cbn [map] in N, D. change (fname (name, kd, v)) with name in N, D.
  inversion N as [|? ? Hn Nr]; subst.
  assert (Dr : forall k, In k (dkeys extra) -> ~ In k (map fname r)).
  { intros k Hk Hin. apply (D k Hk). now right. }
  assert (Dn : ~ In name (dkeys extra)). { intros Hin. apply (D name Hin). now left. }
  specialize (IH extra Nr Dr).
  cbn [loop each]. unfold newval. change (fname (name, kd, v)) with name. change (fknd (name, kd, v)) with kd.
  change (fval (name, kd, v)) with v.
  destruct (dget n name) as [c|] eqn:G.
  - destruct kd as [|t d]; cbn [is_noninit]; [|reflexivity].
    cbn [F0 f_need_dc f_need_dict implb f_noninit_err].
    assert (Tail : forall nv : value,
      bind (bind (loop F0 rec n r) (fun kw => Ok ((name, nv) :: kw)))
           (fun kw => dc_fields ((name, FInit, v) :: r) (kw ++ extra)%list) =
      bind (each rec n r) (fun r' => Ok ((name, FInit, nv) :: r'))).
    { intros nv. rewrite <- IH. destruct (loop F0 rec n r) as [kw|e]; cbn [bind]; [|reflexivity].
      cbn [app dc_fields dget]. rewrite String.eqb_refl. rewrite (dc_fields_skip r name nv _ Hn). reflexivity. }
    destruct (is_dc v) eqn:Hdc; cbn [andb].
    + destruct c as [t0 r0| sub | c0 f0]; cbn [is_dict].
      * apply Tail.
      * destruct (rec v sub) as [nv|e]; cbn [bind]; [apply Tail | reflexivity].
      * apply Tail.
    + destruct c as [t0 r0| sub | c0 f0]; apply Tail.
  - cbn [F0 f_noninit_first andb]. rewrite <- IH.
    destruct (loop F0 rec n r) as [kw|e] eqn:L; cbn [bind].
    + assert (Hk : ~ In name (dkeys kw)). { intros Hin. apply Hn. eapply loop_keys; eassumption. }
      destruct kd as [|t d]; cbn [dc_fields bind].
      * rewrite (dget_absent kw extra name Hk Dn). reflexivity.
      * unfold dhas. rewrite (dget_absent kw extra name Hk Dn). reflexivity.
    + destruct kd; reflexivity.
Qed.

Lemma leftover_check fs (n : dict) :
  forallb (fun kv => has_init_field fs (fst kv)) (leftover fs n) = forallb (fun kv => has_field fs (fst kv)) n.
Proof.
  unfold leftover. induction n as [|[k x] r IH]; [reflexivity|]. cbn [filter forallb fst].
  destruct (has_field fs k) eqn:E; cbn [negb andb]; [exact IH|].
  cbn [forallb fst]. unfold has_init_field. unfold has_field in E. destruct (flookup fs k); [discriminate | reflexivity].
Qed.

Lemma loop_keys_init rec n l : forall kw, loop F0 rec n l = Ok kw ->
  forall k, In k (dkeys kw) -> exists v, In (k, FInit, v) l.
Proof.
  induction l as [|[[name kd] v] r IH]; intros kw H k Hk.
  - simpl in H. injection H as <-. destruct Hk.
  - cbn [loop] in H. change (fname (name, kd, v)) with name in H. change (fknd (name, kd, v)) with kd in H.
    change (fval (name, kd, v)) with v in H.
    assert (Rest : forall kw', loop F0 rec n r = Ok kw' -> In k (dkeys kw') -> exists v0, In (k, FInit, v0) ((name, kd, v) :: r)).
    { intros kw' L Hin. destruct (IH kw' L k Hin) as [v0 Hv0]. exists v0. now right. }
    destruct (dget n name) as [c|] eqn:G.
    + destruct kd as [|t d]; cbn [is_noninit] in H; [|discriminate].
      cbn [F0 f_need_dc f_need_dict implb] in H.
      destruct (is_dc v && is_dict c) eqn:C.
      * destruct c as [| sub |]; try discriminate.
        apply bind_ok in H as [nv [_ H]]. apply bind_ok in H as [kw' [L H]]. injection H as <-.
        destruct Hk as [<-|Hk]; [exists v; now left | eapply Rest; eassumption].
      * apply bind_ok in H as [kw' [L H]]. injection H as <-.
        destruct Hk as [<-|Hk]; [exists v; now left | eapply Rest; eassumption].
    + cbn [F0 f_noninit_first andb] in H. eapply Rest; eassumption.
Qed.

Lemma nodup_names fs : str_nodupb (map fname fs) = true -> NoDup (map fname fs).
Proof. apply str_nodupb_NoDup. Qed.

(* one level of the model, on a normal form *)
Lemma replace_dc_char cls fs n :
  NoDup (map fname fs) -> keys_ok n = true ->
  replace F0 (VDc cls fs) n =
  bind (each (replace F0) n fs) (fun fs' =>
    if forallb (fun kv => has_field fs (fst kv)) n then Ok (VDc cls fs') else Err (Raise "TypeError")).
Proof.
  intros N K. rewrite replace_eq. cbn [f_sep F0]. rewrite (unflatten_split_nf n K). cbn [bind f_leftover].
  assert (D : forall k, In k (dkeys (leftover fs n)) -> ~ In k (map fname fs)).
  { intros k Hk. unfold leftover, dkeys in Hk. apply in_map_iff in Hk as [[k' x] [<- Hin]].
    apply filter_In in Hin as [_ Hf]. cbn [fst] in *. apply negb_true_iff in Hf.
    apply flookup_none. unfold has_field in Hf. destruct (flookup fs k'); [discriminate | reflexivity]. }
  rewrite <- (loop_each (replace F0) n fs (leftover fs n) N D).
  destruct (loop F0 (replace F0) n fs) as [kw|e] eqn:L; cbn [bind]; [|reflexivity].
  unfold dc_replace. cbn [f_leftover F0]. rewrite forallb_app, leftover_check.
  assert (Hkw : forallb (fun kv => has_init_field fs (fst kv)) kw = true).
  { apply forallb_forall. intros [k x] Hin. cbn [fst].
    destruct (loop_keys_init _ _ _ _ L k) as [v Hv].
    - change k with (fst (k, x)). now apply in_map.
    - unfold has_init_field. now rewrite (In_flookup _ _ _ _ N Hv). }
  rewrite Hkw. reflexivity.
Qed.

Lemma each_ext rec1 rec2 n l :
  (forall f sub, In f l -> dget n (fname f) = Some (VDict sub) -> rec1 (fval f) sub = rec2 (fval f) sub) ->
  each rec1 n l = each rec2 n l.
Proof.
  induction l as [|f r IH]; intros H; [reflexivity|].
  cbn [each]. rewrite IH by (intros f0 sub Hin; apply H; now right).
  assert (E : newval rec1 n f = newval rec2 n f).
  { unfold newval. destruct (fknd f); [|reflexivity]. destruct (dget n (fname f)) as [[| sub |]|] eqn:G; try reflexivity.
    destruct (is_dc (fval f)); [|reflexivity]. apply H; [now left | exact G]. }
  now rewrite E.
Qed.

Lemma deep_nf_sub cs k sub : deep_nf cs = true -> dget cs k = Some (VDict sub) -> deep_nf sub = true.
Proof.
  unfold deep_nf, nf_dict. intros H G. apply andb_true_iff in H as [_ H].
  rewrite forallb_forall in H. specialize (H _ (dget_In _ _ _ G)). cbn [snd nf_val orb andb] in H. exact H.
Qed.

Lemma deep_nf_keys cs : deep_nf cs = true -> keys_ok cs = true.
Proof. unfold deep_nf, nf_dict. intros H. now apply andb_true_iff in H as [H _]. Qed.

Lemma wf_obj_dc cls fs : wf_obj (VDc cls fs) = true ->
  NoDup (map fname fs) /\ forall f, In f fs -> wf_obj (fval f) = true.
Proof.
  cbn [wf_obj]. intros H. apply andb_true_iff in H as [H1 H2]. split; [now apply nodup_names|].
  now rewrite forallb_forall in H2.
Qed.

(* the model, instantiated with the regenerated facts, IS the per-field reference on normal forms *)
Theorem model_ref o : forall cs, wf_obj o = true -> deep_nf cs = true -> replace F0 o cs = replace_ref o cs.
Proof.
  induction o as [t r|d _|cls fs IH] using value_ind'; intros cs W D.
  - rewrite replace_eq. cbn [f_sep F0]. now rewrite (unflatten_split_nf cs (deep_nf_keys _ D)).
  - rewrite replace_eq. cbn [f_sep F0]. now rewrite (unflatten_split_nf cs (deep_nf_keys _ D)).
  - apply wf_obj_dc in W as [N Wf]. rewrite (replace_dc_char cls fs cs N (deep_nf_keys _ D)).
    cbn [replace_ref]. rewrite (each_ext (replace F0) replace_ref cs fs); [reflexivity|].
    intros f sub Hin G. rewrite Forall_forall in IH. apply (IH f Hin sub (Wf f Hin)).
    eapply deep_nf_sub; eassumption.
Qed.

(* ====================================================================== *)
(* errors: a change aimed at an init=False / unknown field raises; nothing else does *)
(* ====================================================================== *)
Definition is_ok {A} (r : res A) : bool := match r with Ok _ => true | Err _ => false end.

Definition bad_entry (fs : list field) (kx : string * value) : bool :=
  match child fs (fst kx) with
  | None => true
  | Some y => match snd kx, y with VDict sub, VDc _ _ => must_raise y sub | _, _ => false end
  end.

Lemma existsb_map {A B} (f : B -> bool) (g : A -> B) l : existsb f (map g l) = existsb (fun x => f (g x)) l.
Proof. induction l as [|x r IH]; simpl; [reflexivity | now rewrite IH]. Qed.

Lemma existsb_ext_in {A} (f g : A -> bool) l : (forall x, In x l -> f x = g x) -> existsb f l = existsb g l.
Proof.
  induction l as [|x r IH]; intros H; simpl; [reflexivity|].
  rewrite (H x (or_introl eq_refl)), IH; [reflexivity | intros y Hy; apply H; now right].
Qed.

Lemma assigns_items_In fs (cs : dict) q v :
  In (q, v) (assigns_items assigns_v fs cs) <->
  exists k x q', In (k, x) cs /\ q = k :: q' /\ In (q', v) (assigns_v x (child fs k)).
Proof.
  induction cs as [|[k x] r IH]; cbn [assigns_items fst snd].
  - split; [intros [] | intros [k [x [q' [[] _]]]]].
  - rewrite in_app_iff, IH, in_map_iff. split.
    + intros [[[q' v'] [E Hin]]|[k' [x' [q' [Hin [E1 E2]]]]]].
      * cbn [fst snd] in E. injection E as <- <-. exists k, x, q'. repeat split; [now left | exact Hin].
      * exists k', x', q'. repeat split; [now right | exact E1 | exact E2].
    + intros [k' [x' [q' [[E|Hin] [E1 E2]]]]].
      * injection E as <- <-. left. exists (q', v). split; [now subst | exact E2].
      * right. exists k', x', q'. repeat split; assumption.
Qed.

Lemma assigns_items_nonempty fs (cs : dict) qv : In qv (assigns_items assigns_v fs cs) -> fst qv <> [].
Proof.
  destruct qv as [q v]. intros H. apply assigns_items_In in H as [k [x [q' [_ [-> _]]]]]. discriminate.
Qed.

Lemma assigns_dc cls fs cs : assigns (VDc cls fs) cs = assigns_items assigns_v fs cs.
Proof. reflexivity. Qed.

Lemma must_raise_dc cls fs cs : must_raise (VDc cls fs) cs = existsb (bad_entry fs) cs.
Proof.
  unfold must_raise. rewrite assigns_dc.
  induction cs as [|[k x] r IH]; [reflexivity|].
  cbn [assigns_items existsb fst snd]. rewrite existsb_app. f_equal; [|exact IH].
  rewrite existsb_map. cbn [fst]. unfold bad_entry. cbn [fst snd settable].
  destruct (child fs k) as [y|] eqn:C.
  - destruct x as [t0 r0| sub | c0 f0]; destruct y as [t1 r1| d1 | c' f']; try reflexivity.
    cbn [assigns_v]. unfold must_raise. rewrite assigns_dc. apply existsb_ext_in.
    intros [q v] Hin. apply assigns_items_nonempty in Hin. cbn [fst] in *. destruct q; [congruence | reflexivity].
  - destruct x; reflexivity.
Qed.

Lemma child_flookup fs k y : child fs k = Some y <-> flookup fs k = Some (FInit, y).
Proof.
  unfold child. destruct (flookup fs k) as [[[|t d] v]|]; split; intros H; try discriminate; congruence.
Qed.

Lemma is_ok_each rec n l : is_ok (each rec n l) = forallb (fun f => is_ok (newval rec n f)) l.
Proof.
  induction l as [|f r IH]; [reflexivity|]. cbn [each forallb].
  destruct (newval rec n f) as [nv|e]; cbn [bind is_ok andb]; [|reflexivity].
  rewrite <- IH. destruct (each rec n r); reflexivity.
Qed.

Lemma is_ok_replace_ref_dc cls fs cs :
  is_ok (replace_ref (VDc cls fs) cs) =
  forallb (fun f => is_ok (newval replace_ref cs f)) fs && forallb (fun kv => has_field fs (fst kv)) cs.
Proof.
  cbn [replace_ref]. rewrite <- is_ok_each. destruct (each replace_ref cs fs); cbn [bind is_ok andb]; [|reflexivity].
  destruct (forallb _ cs); reflexivity.
Qed.

Theorem ok_iff_not_must_raise o : forall cs, wf_obj o = true -> deep_nf cs = true ->
  is_ok (replace_ref o cs) = negb (must_raise o cs).
Proof.
  induction o as [t r|d _|cls fs IH] using value_ind'; intros cs W D; try reflexivity.
  apply wf_obj_dc in W as [N Wf]. rewrite Forall_forall in IH.
  assert (Kc : NoDup (dkeys cs)). { apply deep_nf_keys, keys_ok_iff in D. tauto. }
  rewrite is_ok_replace_ref_dc, must_raise_dc.
  apply Bool.eq_true_iff_eq. rewrite negb_true_iff, andb_true_iff, !forallb_forall. split.
  - intros [Hnv Hf]. apply not_true_is_false. intros Hex. apply existsb_exists in Hex as [[k x] [Hin Hbad]].
    unfold bad_entry in Hbad. cbn [fst snd] in Hbad.
    specialize (Hf _ Hin). cbn [fst] in Hf. unfold has_field in Hf.
    destruct (flookup fs k) as [[kd v]|] eqn:Lk; [|discriminate].
    assert (Hfin := flookup_In _ _ _ _ Lk). specialize (Hnv _ Hfin).
    unfold newval in Hnv. change (fname (k, kd, v)) with k in Hnv. change (fknd (k, kd, v)) with kd in Hnv.
    change (fval (k, kd, v)) with v in Hnv. rewrite (In_dget _ _ _ Kc Hin) in Hnv.
    unfold child in Hbad. rewrite Lk in Hbad. destruct kd as [|t d]; [|discriminate].
    destruct x as [t0 r0| sub | c0 f0]; try discriminate.
    destruct v as [t1 r1| d1 | c' f']; try discriminate.
    cbn [is_dc] in Hnv.
    assert (E := IH _ Hfin sub (Wf _ Hfin) (deep_nf_sub _ _ _ D (In_dget _ _ _ Kc Hin))).
    change (fval (k, FInit, VDc c' f')) with (VDc c' f') in E. rewrite E, Hbad in Hnv. discriminate.
  - intros Hex. assert (Hgood : forall kx, In kx cs -> bad_entry fs kx = false).
    { intros kx Hin. apply not_true_is_false. intros Hb. rewrite <- not_true_iff_false in Hex. apply Hex.
      apply existsb_exists. eauto. }
    split.
    + intros [[name kd] v] Hfin. unfold newval. change (fname (name, kd, v)) with name.
      change (fknd (name, kd, v)) with kd. change (fval (name, kd, v)) with v.
      assert (Lk := In_flookup _ _ _ _ N Hfin).
      destruct (dget cs name) as [x|] eqn:G; [|destruct kd; reflexivity].
      specialize (Hgood _ (dget_In _ _ _ G)). unfold bad_entry, child in Hgood. cbn [fst snd] in Hgood.
      rewrite Lk in Hgood. destruct kd as [|t d]; [|discriminate].
      destruct x as [t0 r0| sub | c0 f0]; try reflexivity.
      destruct v as [t1 r1| d1 | c' f']; try reflexivity. cbn [is_dc].
      assert (E := IH _ Hfin sub (Wf _ Hfin) (deep_nf_sub _ _ _ D G)).
      change (fval (name, FInit, VDc c' f')) with (VDc c' f') in E. now rewrite E, Hgood.
    + intros [k x] Hin. specialize (Hgood _ Hin). unfold bad_entry, child in Hgood. cbn [fst snd] in *.
      unfold has_field. destruct (flookup fs k); [reflexivity | discriminate].
Qed.
