(* Proofs/ReplaceProofs.v — the model of replace() (instantiated with the REGENERATED facts) meets the C18 spec,
   for every instance tree and every change set (induction on trees / change sets, no size bound). *)
From SPV Require Import Base.Str Model.Replace Model.ReplaceSpec Gen.FactsReplace.

(* ---------- bridge: the regenerated facts are the ones the property text assumes ---------- *)
Definition F0 : facts := mkfacts "."%char "."%char "ValueError" false "ValueError" true true true.
Lemma facts_are_expected : facts_gen = F0.
Proof. reflexivity. Qed.

(* ====================================================================== *)
(* generic helpers                                                         *)
(* ====================================================================== *)

Section ValueInd.
  Variable P : value -> Prop.
  Hypothesis Hleaf : forall t r, P (VLeaf t r).
  Hypothesis Hdict : forall d, Forall (fun kv => P (snd kv)) d -> P (VDict d).
  Hypothesis Hdc : forall c fs, Forall (fun f => P (fval f)) fs -> P (VDc c fs).
  Fixpoint value_ind' (v : value) : P v :=
    match v with
    | VLeaf t r => Hleaf t r
    | VDict d =>
        Hdict d ((fix go (l : dict) : Forall (fun kv => P (snd kv)) l :=
                    match l with
                    | [] => Forall_nil _
                    | kx :: r => Forall_cons kx (value_ind' (snd kx)) (go r)
                    end) d)
    | VDc c fs =>
        Hdc c fs ((fix go (l : list field) : Forall (fun f => P (fval f)) l :=
                     match l with
                     | [] => Forall_nil _
                     | f :: r => Forall_cons f (value_ind' (fval f)) (go r)
                     end) fs)
    end.
End ValueInd.

Lemma bind_ok {A B} (r : res A) (f : A -> res B) b :
  bind r f = Ok b -> exists a, r = Ok a /\ f a = Ok b.
Proof. destruct r as [a|e]; simpl; intros H; [eauto | discriminate]. Qed.

Lemma fkind_eqb_refl k : fkind_eqb k k = true.
Proof. destruct k; simpl; [reflexivity | now rewrite !String.eqb_refl]. Qed.

Lemma all2_refl {A} (eqb : A -> A -> bool) l : Forall (fun x => eqb x x = true) l -> all2 eqb l l = true.
Proof. induction 1 as [|x r Hx _ IH]; simpl; [reflexivity | now rewrite Hx, IH]. Qed.

Lemma value_eqb_refl v : value_eqb v v = true.
Proof.
  induction v as [t r|d IH|c fs IH] using value_ind'; cbn [value_eqb].
  - now rewrite !String.eqb_refl.
  - apply all2_refl. eapply Forall_impl; [|exact IH]. intros kx H. cbn beta. now rewrite String.eqb_refl, H.
  - rewrite String.eqb_refl. cbn [andb]. apply all2_refl. eapply Forall_impl; [|exact IH].
    intros f H. cbn beta. now rewrite String.eqb_refl, fkind_eqb_refl, H.
Qed.

(* ---------- association lists ---------- *)
Lemma dget_app (a b : dict) k : dget (a ++ b)%list k = match dget a k with Some v => Some v | None => dget b k end.
Proof. induction a as [|[k' v] r IH]; simpl; [reflexivity|]. destruct (String.eqb k k'); [reflexivity | exact IH]. Qed.

Lemma dget_none d k : dget d k = None <-> ~ In k (dkeys d).
Proof.
  induction d as [|[k' v] r IH]; simpl.
  - split; [intros _ [] | reflexivity].
  - destruct (String.eqb k k') eqn:E.
    + apply String.eqb_eq in E. subst. split; [discriminate | intros H; exfalso; apply H; now left].
    + apply String.eqb_neq in E. rewrite IH. split.
      * intros H [H'|H']; [congruence | contradiction].
      * intros H H'. apply H. now right.
Qed.

Lemma dget_In d k v : dget d k = Some v -> In (k, v) d.
Proof.
  induction d as [|[k' v'] r IH]; simpl; [discriminate|].
  destruct (String.eqb k k') eqn:E.
  - apply String.eqb_eq in E. subst. intros H. injection H as ->. now left.
  - intros H. right. now apply IH.
Qed.

Lemma In_dget d k v : NoDup (dkeys d) -> In (k, v) d -> dget d k = Some v.
Proof.
  induction d as [|[k' v'] r IH]; simpl; intros N H; [contradiction|].
  inversion N as [|? ? Hn Nr]; subst.
  destruct H as [H|H].
  - injection H as -> ->. now rewrite String.eqb_refl.
  - destruct (String.eqb k k') eqn:E.
    + apply String.eqb_eq in E. subst. exfalso. apply Hn. change (In (fst (k', v)) (map fst r)). now apply in_map.
    + now apply IH.
Qed.

Lemma dkeys_app (a b : dict) : dkeys (a ++ b)%list = (dkeys a ++ dkeys b)%list.
Proof. unfold dkeys. apply map_app. Qed.

Lemma dset_notin d k v : ~ In k (dkeys d) -> dset d k v = (d ++ [(k, v)])%list.
Proof.
  induction d as [|[k' v'] r IH]; simpl; intros H; [reflexivity|].
  destruct (String.eqb k k') eqn:E.
  - apply String.eqb_eq in E. subst. exfalso. apply H. now left.
  - f_equal. apply IH. intros H'. apply H. now right.
Qed.

Lemma dset_last d k v v' : ~ In k (dkeys d) -> dset (d ++ [(k, v)])%list k v' = (d ++ [(k, v')])%list.
Proof.
  induction d as [|[k0 v0] r IH]; simpl; intros H.
  - now rewrite String.eqb_refl.
  - destruct (String.eqb k k0) eqn:E.
    + apply String.eqb_eq in E. subst. exfalso. apply H. now left.
    + f_equal. apply IH. intros H'. apply H. now right.
Qed.

Lemma dkeys_dset d k v : dkeys (dset d k v) = if dhas d k then dkeys d else (dkeys d ++ [k])%list.
Proof.
  unfold dhas. induction d as [|[k' v'] r IH]; simpl; [reflexivity|].
  destruct (String.eqb k k') eqn:E; simpl; [reflexivity|].
  rewrite IH. destruct (dget r k); reflexivity.
Qed.

Lemma dhas_In d k : dhas d k = true <-> In k (dkeys d).
Proof.
  unfold dhas. destruct (dget d k) eqn:E.
  - split; [intros _ | reflexivity]. apply dget_In in E. change k with (fst (k, v)). now apply in_map.
  - apply dget_none in E. split; [discriminate | contradiction].
Qed.

(* ---------- field lists ---------- *)
Lemma flookup_In fs n k v : flookup fs n = Some (k, v) -> In (n, k, v) fs.
Proof.
  induction fs as [|[[n' k'] v'] r IH]; simpl; [discriminate|].
  destruct (String.eqb n n') eqn:E.
  - apply String.eqb_eq in E. subst. intros H. injection H as -> ->. now left.
  - intros H. right. now apply IH.
Qed.

Lemma In_flookup fs n k v : NoDup (map fname fs) -> In (n, k, v) fs -> flookup fs n = Some (k, v).
Proof.
  induction fs as [|[[n' k'] v'] r IH]; simpl; intros N H; [contradiction|].
  inversion N as [|? ? Hn Nr]; subst.
  destruct H as [H|H].
  - injection H as -> -> ->. now rewrite String.eqb_refl.
  - destruct (String.eqb n n') eqn:E.
    + apply String.eqb_eq in E. subst. exfalso. apply Hn. apply (in_map fname) in H. exact H.
    + now apply IH.
Qed.

Lemma flookup_none fs n : flookup fs n = None <-> ~ In n (map fname fs).
Proof.
  induction fs as [|[[n' k'] v'] r IH]; simpl.
  - split; [intros _ [] | reflexivity].
  - destruct (String.eqb n n') eqn:E.
    + apply String.eqb_eq in E. subst. split; [discriminate | intros H; exfalso; apply H; now left].
    + apply String.eqb_neq in E. rewrite IH. change (fname (n', k', v')) with n'. split.
      * intros H [H'|H']; [congruence | contradiction].
      * intros H H'. apply H. now right.
Qed.

(* ====================================================================== *)
(* unflatten_split: identity on normal forms, always produces a normal form *)
(* ====================================================================== *)
Local Notation ustep := (fun (acc : res dict) (kv : list string * value) => bind acc (insert_path (fst kv) (snd kv))).
Local Notation splitkv c := (fun kv : string * value => (split_on c (fst kv) "", snd kv)).

Lemma fold_err (items : list (list string * value)) e : fold_left ustep items (Err e) = Err e.
Proof. induction items as [|x r IH]; simpl; [reflexivity | exact IH]. Qed.

Lemma keys_ok_iff d : keys_ok d = true <-> NoDup (dkeys d) /\ forallb nodot (dkeys d) = true.
Proof. unfold keys_ok. rewrite andb_true_iff, str_nodupb_NoDup. reflexivity. Qed.

Lemma unflatten_nf_gen (rest : dict) : forall acc : dict,
  NoDup (dkeys acc ++ dkeys rest) -> forallb nodot (dkeys rest) = true ->
  fold_left ustep (map (splitkv "."%char) rest) (Ok acc) = Ok (acc ++ rest)%list.
Proof.
  induction rest as [|[k v] r IH]; intros acc N D.
  - simpl. now rewrite app_nil_r.
  - simpl in D. apply andb_true_iff in D as [Hk Hr]. unfold nodot in Hk. apply negb_true_iff in Hk.
    cbn [map fold_left fst snd]. rewrite (split_on_nodot _ _ _ Hk). cbn [append bind insert_path].
    assert (Hn : ~ In k (dkeys acc)).
    { cbn [dkeys map fst] in N. apply NoDup_remove_2 in N. intros H. apply N. apply in_or_app. now left. }
    rewrite (dset_notin _ _ _ Hn).
    rewrite IH.
    + now rewrite <- app_assoc.
    + rewrite dkeys_app. cbn [dkeys map fst app]. rewrite <- app_assoc. exact N.
    + exact Hr.
Qed.

(* U1 *)
Lemma unflatten_split_nf n : keys_ok n = true -> unflatten_split "."%char n = Ok n.
Proof.
  intros H. apply keys_ok_iff in H as [N D]. unfold unflatten_split, unflatten.
  exact (unflatten_nf_gen n [] N D).
Qed.

Lemma has_char_app c a b : has_char c (a ++ b) = has_char c a || has_char c b.
Proof. induction a as [|x r IH]; simpl; [reflexivity | rewrite IH; apply orb_assoc]. Qed.

Lemma split_on_nosep c s : forall acc, has_char c acc = false ->
  Forall (fun w => has_char c w = false) (split_on c s acc).
Proof.
  induction s as [|a r IH]; intros acc H; simpl.
  - constructor; [exact H | constructor].
  - destruct (Ascii.eqb a c) eqn:E.
    + constructor; [exact H | apply IH; reflexivity].
    + apply IH. rewrite has_char_app, H. simpl. now rewrite E.
Qed.

Lemma insert_path_keys ks v d d' : insert_path ks v d = Ok d' ->
  exists k rest, ks = k :: rest /\ dkeys d' = if dhas d k then dkeys d else (dkeys d ++ [k])%list.
Proof.
  destruct ks as [|k [|k2 rest]]; cbn [insert_path]; intros H.
  - discriminate.
  - injection H as <-. exists k, []. split; [reflexivity | apply dkeys_dset].
  - exists k, (k2 :: rest). split; [reflexivity|]. unfold dhas. destruct (dget d k) as [[| sub |]|] eqn:G; try discriminate.
    + apply bind_ok in H as [sub' [_ H]]. injection H as <-. rewrite dkeys_dset. unfold dhas. now rewrite G.
    + apply bind_ok in H as [sub' [_ H]]. injection H as <-. rewrite dkeys_app. reflexivity.
Qed.

Lemma NoDup_snoc {A} (l : list A) k : NoDup l -> ~ In k l -> NoDup (l ++ [k])%list.
Proof.
  induction l as [|a r IH]; simpl; intros N H.
  - constructor; [intros [] | constructor].
  - inversion N; subst. constructor.
    + intros Hin. apply in_app_or in Hin as [Hin|[Hin|[]]]; [contradiction | subst; apply H; now left].
    + apply IH; [assumption | intros Hin; apply H; now right].
Qed.

Definition dinv (d : dict) : Prop := NoDup (dkeys d) /\ forallb nodot (dkeys d) = true.

Lemma insert_path_inv ks v d d' :
  dinv d -> Forall (fun w => has_char "."%char w = false) ks -> insert_path ks v d = Ok d' -> dinv d'.
Proof.
  intros [N D] Hks H. apply insert_path_keys in H as [k [rest [-> Hk]]].
  inversion Hks as [|? ? Hk0 _]; subst.
  unfold dinv. rewrite Hk. destruct (dhas d k) eqn:Hh; [split; assumption|].
  assert (Hn : ~ In k (dkeys d)). { intros Hin. apply dhas_In in Hin. congruence. }
  split.
  - now apply NoDup_snoc.
  - rewrite forallb_app, D. simpl. unfold nodot. now rewrite Hk0.
Qed.

Lemma unflatten_inv (items : list (list string * value)) : forall acc n,
  dinv acc -> Forall (fun kv => Forall (fun w => has_char "."%char w = false) (fst kv)) items ->
  fold_left ustep items (Ok acc) = Ok n -> dinv n.
Proof.
  induction items as [|[ks v] r IH]; intros acc n I Hall H.
  - simpl in H. injection H as <-. exact I.
  - inversion Hall as [|? ? Hks Hr]; subst. cbn [fold_left fst snd bind] in H.
    destruct (insert_path ks v acc) as [acc'|e] eqn:E.
    + eapply IH; [| exact Hr | exact H]. eapply insert_path_inv; eassumption.
    + rewrite fold_err in H. discriminate.
Qed.

(* U2 *)
Lemma unflatten_split_keys_ok d n : unflatten_split "."%char d = Ok n -> keys_ok n = true.
Proof.
  unfold unflatten_split, unflatten. intros H. apply keys_ok_iff.
  eapply unflatten_inv; [| | exact H].
  - split; [constructor | reflexivity].
  - apply Forall_forall. intros kv Hin. apply in_map_iff in Hin as [[k v] [<- _]]. cbn [fst].
    apply split_on_nosep. reflexivity.
Qed.

Lemma replace_eq F o ch :
  replace F o ch =
  bind (unflatten_split (f_sep F) ch) (fun n =>
    match o with
    | VDc cls fs =>
        bind (loop F (replace F) n fs)
             (fun kw => dc_replace o (if f_leftover F then (kw ++ leftover fs n)%list else kw))
    | _ => Err (Raise "TypeError")
    end).
Proof. destruct o; reflexivity. Qed.

(* dotted keys at any level mean exactly what their unflattened form means; a malformed set fails the same way *)
Theorem replace_unflatten o ch :
  replace F0 o ch = bind (unflatten_split "."%char ch) (fun n => replace F0 o n).
Proof.
  rewrite replace_eq. cbn [f_sep F0].
  destruct (unflatten_split "."%char ch) as [n|e] eqn:U; cbn [bind]; [|reflexivity].
  rewrite (replace_eq F0 o n). cbn [f_sep F0].
  rewrite (unflatten_split_nf n (unflatten_split_keys_ok _ _ U)). reflexivity.
Qed.

(* ====================================================================== *)
(* a cleaner equivalent of the model on normal forms: one new value per field *)
(* ====================================================================== *)
Section Each.
  Variable rec : value -> dict -> res value.
  Variable n : dict.
  Definition newval (f : field) : res value :=
    match fknd f, dget n (fname f) with
    | FNonInit t d, None => Ok (VLeaf t d)
    | FNonInit _ _, Some _ => Err (Raise "ValueError")
    | FInit, None => Ok (fval f)
    | FInit, Some (VDict sub) => if is_dc (fval f) then rec (fval f) sub else Ok (VDict sub)
    | FInit, Some c => Ok c
    end.
  Fixpoint each (l : list field) : res (list field) :=
    match l with
    | [] => Ok []
    | f :: r => bind (newval f) (fun nv => bind (each r) (fun r' => Ok ((fname f, fknd f, nv) :: r')))
    end.
End Each.

Fixpoint replace_ref (o : value) (n : dict) : res value :=
  match o with
  | VDc cls fs =>
      bind (each replace_ref n fs) (fun fs' =>
        if forallb (fun kv => has_field fs (fst kv)) n then Ok (VDc cls fs') else Err (Raise "TypeError"))
  | _ => Err (Raise "TypeError")
  end.

Lemma loop_keys rec n l : forall kw, loop F0 rec n l = Ok kw -> forall k, In k (dkeys kw) -> In k (map fname l).
Proof.
  induction l as [|f r IH]; intros kw H k Hk.
  - simpl in H. injection H as <-. destruct Hk.
  - cbn [loop] in H. cbn [map]. destruct (dget n (fname f)) as [c|] eqn:G.
    + destruct (is_noninit (fknd f)); [discriminate|].
      cbn [F0 f_need_dc f_need_dict implb] in H.
      destruct (is_dc (fval f) && is_dict c) eqn:C.
      * destruct c as [| sub |]; try discriminate.
        apply bind_ok in H as [nv [_ H]]. apply bind_ok in H as [kw' [L H]]. injection H as <-.
        destruct Hk as [<-|Hk]; [now left | right; eapply IH; eassumption].
      * apply bind_ok in H as [kw' [L H]]. injection H as <-.
        destruct Hk as [<-|Hk]; [now left | right; eapply IH; eassumption].
    + cbn [F0 f_noninit_first andb] in H. right. eapply IH; eassumption.
Qed.

Lemma dc_fields_skip l : forall k x kw, ~ In k (map fname l) -> dc_fields l ((k, x) :: kw) = dc_fields l kw.
Proof.
  induction l as [|[[name kd] v] r IH]; intros k x kw H; [reflexivity|].
  cbn [map] in H. change (fname (name, kd, v)) with name in H.
  assert (Hne : String.eqb name k = false). { apply String.eqb_neq. intros ->. apply H. now left. }
  assert (Hr : ~ In k (map fname r)). { intros Hin. apply H. now right. }
  cbn [dc_fields]. unfold dhas. cbn [dget]. rewrite Hne, (IH k x kw Hr). reflexivity.
Qed.

Lemma dget_absent (kw extra : dict) name :
  ~ In name (dkeys kw) -> ~ In name (dkeys extra) -> dget (kw ++ extra)%list name = None.
Proof. intros H1 H2. apply dget_none. rewrite dkeys_app. intros H. apply in_app_or in H as [H|H]; contradiction. Qed.

Lemma loop_each rec n l : forall extra : dict,
  NoDup (map fname l) -> (forall k, In k (dkeys extra) -> ~ In k (map fname l)) ->
  bind (loop F0 rec n l) (fun kw => dc_fields l (kw ++ extra)%list) = each rec n l.
Proof.
  induction l as [|[[name kd] v] r IH]; intros extra N D; [reflexivity|].
  cbn [map] in N, D. change (fname (name, kd, v)) with name in N, D.
  inversion N as [|? ? Hn Nr]; subst.
  assert (Dr : forall k, In k (dkeys extra) -> ~ In k (map fname r)).
  { intros k Hk Hin. apply (D k Hk). now right. }
  assert (Dn : ~ In name (dkeys extra)). { intros Hin. apply (D name Hin). now left. }
  specialize (IH extra Nr Dr).
  cbn [loop each]. unfold newval. change (fname (name, kd, v)) with name. change (fknd (name, kd, v)) with kd.
  change (fval (name, kd, v)) with v.
  destruct (dget n name) as [c|] eqn:G.
  - destruct kd as [|t d]; cbn [is_noninit]; [|reflexivity].
    cbn [F0 f_need_dc f_need_dict implb f_noninit_err].
    assert (Tail : forall nv : value,
      bind (bind (loop F0 rec n r) (fun kw => Ok ((name, nv) :: kw)))
           (fun kw => dc_fields ((name, FInit, v) :: r) (kw ++ extra)%list) =
      bind (each rec n r) (fun r' => Ok ((name, FInit, nv) :: r'))).
    { intros nv. rewrite <- IH. destruct (loop F0 rec n r) as [kw|e]; cbn [bind]; [|reflexivity].
      cbn [app dc_fields dget]. rewrite String.eqb_refl. rewrite (dc_fields_skip r name nv _ Hn). reflexivity. }
    destruct (is_dc v) eqn:Hdc; cbn [andb].
    + destruct c as [t0 r0| sub | c0 f0]; cbn [is_dict].
      * apply Tail.
      * destruct (rec v sub) as [nv|e]; cbn [bind]; [apply Tail | reflexivity].
      * apply Tail.
    + destruct c as [t0 r0| sub | c0 f0]; apply Tail.
  - cbn [F0 f_noninit_first andb]. rewrite <- IH.
    destruct (loop F0 rec n r) as [kw|e] eqn:L; cbn [bind].
    + assert (Hk : ~ In name (dkeys kw)). { intros Hin. apply Hn. eapply loop_keys; eassumption. }
      destruct kd as [|t d]; cbn [dc_fields bind].
      * rewrite (dget_absent kw extra name Hk Dn). reflexivity.
      * unfold dhas. rewrite (dget_absent kw extra name Hk Dn). reflexivity.
    + destruct kd; reflexivity.
Qed.

Lemma leftover_check fs (n : dict) :
  forallb (fun kv => has_init_field fs (fst kv)) (leftover fs n) = forallb (fun kv => has_field fs (fst kv)) n.
Proof.
  unfold leftover. induction n as [|[k x] r IH]; [reflexivity|]. cbn [filter forallb fst].
  destruct (has_field fs k) eqn:E; cbn [negb andb]; [exact IH|].
  cbn [forallb fst]. unfold has_init_field. unfold has_field in E. destruct (flookup fs k); [discriminate | reflexivity].
Qed.

Lemma loop_keys_init rec n l : forall kw, loop F0 rec n l = Ok kw ->
  forall k, In k (dkeys kw) -> exists v, In (k, FInit, v) l.
Proof.
  induction l as [|[[name kd] v] r IH]; intros kw H k Hk.
  - simpl in H. injection H as <-. destruct Hk.
  - cbn [loop] in H. change (fname (name, kd, v)) with name in H. change (fknd (name, kd, v)) with kd in H.
    change (fval (name, kd, v)) with v in H.
    assert (Rest : forall kw', loop F0 rec n r = Ok kw' -> In k (dkeys kw') -> exists v0, In (k, FInit, v0) ((name, kd, v) :: r)).
    { intros kw' L Hin. destruct (IH kw' L k Hin) as [v0 Hv0]. exists v0. now right. }
    destruct (dget n name) as [c|] eqn:G.
    + destruct kd as [|t d]; cbn [is_noninit] in H; [|discriminate].
      cbn [F0 f_need_dc f_need_dict implb] in H.
      destruct (is_dc v && is_dict c) eqn:C.
      * destruct c as [| sub |]; try discriminate.
        apply bind_ok in H as [nv [_ H]]. apply bind_ok in H as [kw' [L H]]. injection H as <-.
        destruct Hk as [<-|Hk]; [exists v; now left | eapply Rest; eassumption].
      * apply bind_ok in H as [kw' [L H]]. injection H as <-.
        destruct Hk as [<-|Hk]; [exists v; now left | eapply Rest; eassumption].
    + cbn [F0 f_noninit_first andb] in H. eapply Rest; eassumption.
Qed.

Lemma nodup_names fs : str_nodupb (map fname fs) = true -> NoDup (map fname fs).
Proof. apply str_nodupb_NoDup. Qed.

(* one level of the model, on a normal form *)
Lemma replace_dc_char cls fs n :
  NoDup (map fname fs) -> keys_ok n = true ->
  replace F0 (VDc cls fs) n =
  bind (each (replace F0) n fs) (fun fs' =>
    if forallb (fun kv => has_field fs (fst kv)) n then Ok (VDc cls fs') else Err (Raise "TypeError")).
Proof.
  intros N K. rewrite replace_eq. cbn [f_sep F0]. rewrite (unflatten_split_nf n K). cbn [bind f_leftover].
  assert (D : forall k, In k (dkeys (leftover fs n)) -> ~ In k (map fname fs)).
  { intros k Hk. unfold leftover, dkeys in Hk. apply in_map_iff in Hk as [[k' x] [<- Hin]].
    apply filter_In in Hin as [_ Hf]. cbn [fst] in *. apply negb_true_iff in Hf.
    apply flookup_none. unfold has_field in Hf. destruct (flookup fs k'); [discriminate | reflexivity]. }
  rewrite <- (loop_each (replace F0) n fs (leftover fs n) N D).
  destruct (loop F0 (replace F0) n fs) as [kw|e] eqn:L; cbn [bind]; [|reflexivity].
  unfold dc_replace. cbn [f_leftover F0]. rewrite forallb_app, leftover_check.
  assert (Hkw : forallb (fun kv => has_init_field fs (fst kv)) kw = true).
  { apply forallb_forall. intros [k x] Hin. cbn [fst].
    destruct (loop_keys_init _ _ _ _ L k) as [v Hv].
    - change k with (fst (k, x)). now apply in_map.
    - unfold has_init_field. now rewrite (In_flookup _ _ _ _ N Hv). }
  rewrite Hkw. reflexivity.
Qed.

Lemma each_ext rec1 rec2 n l :
  (forall f sub, In f l -> dget n (fname f) = Some (VDict sub) -> rec1 (fval f) sub = rec2 (fval f) sub) ->
  each rec1 n l = each rec2 n l.
Proof.
  induction l as [|f r IH]; intros H; [reflexivity|].
  cbn [each]. rewrite IH by (intros f0 sub Hin; apply H; now right).
  assert (E : newval rec1 n f = newval rec2 n f).
  { unfold newval. destruct (fknd f); [|reflexivity]. destruct (dget n (fname f)) as [[| sub |]|] eqn:G; try reflexivity.
    destruct (is_dc (fval f)); [|reflexivity]. apply H; [now left | exact G]. }
  now rewrite E.
Qed.

Lemma deep_nf_sub cs k sub : deep_nf cs = true -> dget cs k = Some (VDict sub) -> deep_nf sub = true.
Proof.
  unfold deep_nf, nf_dict. intros H G. apply andb_true_iff in H as [_ H].
  rewrite forallb_forall in H. specialize (H _ (dget_In _ _ _ G)). cbn [snd nf_val orb andb] in H. exact H.
Qed.

Lemma deep_nf_keys cs : deep_nf cs = true -> keys_ok cs = true.
Proof. unfold deep_nf, nf_dict. intros H. now apply andb_true_iff in H as [H _]. Qed.

Lemma wf_obj_dc cls fs : wf_obj (VDc cls fs) = true ->
  NoDup (map fname fs) /\ forall f, In f fs -> wf_obj (fval f) = true.
Proof.
  cbn [wf_obj]. intros H. apply andb_true_iff in H as [H1 H2]. split; [now apply nodup_names|].
  now rewrite forallb_forall in H2.
Qed.

(* the model, instantiated with the regenerated facts, IS the per-field reference on normal forms *)
Theorem model_ref o : forall cs, wf_obj o = true -> deep_nf cs = true -> replace F0 o cs = replace_ref o cs.
Proof.
  induction o as [t r|d _|cls fs IH] using value_ind'; intros cs W D.
  - rewrite replace_eq. cbn [f_sep F0]. now rewrite (unflatten_split_nf cs (deep_nf_keys _ D)).
  - rewrite replace_eq. cbn [f_sep F0]. now rewrite (unflatten_split_nf cs (deep_nf_keys _ D)).
  - apply wf_obj_dc in W as [N Wf]. rewrite (replace_dc_char cls fs cs N (deep_nf_keys _ D)).
    cbn [replace_ref]. rewrite (each_ext (replace F0) replace_ref cs fs); [reflexivity|].
    intros f sub Hin G. rewrite Forall_forall in IH. apply (IH f Hin sub (Wf f Hin)).
    eapply deep_nf_sub; eassumption.
Qed.

(* ====================================================================== *)
(* errors: a change aimed at an init=False / unknown field raises; nothing else does *)
(* ====================================================================== *)
Definition is_ok {A} (r : res A) : bool := match r with Ok _ => true | Err _ => false end.

Definition bad_entry (fs : list field) (kx : string * value) : bool :=
  match child fs (fst kx) with
  | None => true
  | Some y => match snd kx, y with VDict sub, VDc _ _ => must_raise y sub | _, _ => false end
  end.

Lemma existsb_map {A B} (f : B -> bool) (g : A -> B) l : existsb f (map g l) = existsb (fun x => f (g x)) l.
Proof. induction l as [|x r IH]; simpl; [reflexivity | now rewrite IH]. Qed.

Lemma existsb_ext_in {A} (f g : A -> bool) l : (forall x, In x l -> f x = g x) -> existsb f l = existsb g l.
Proof.
  induction l as [|x r IH]; intros H; simpl; [reflexivity|].
  rewrite (H x (or_introl eq_refl)), IH; [reflexivity | intros y Hy; apply H; now right].
Qed.

Lemma assigns_items_In fs (cs : dict) q v :
  In (q, v) (assigns_items assigns_v fs cs) <->
  exists k x q', In (k, x) cs /\ q = k :: q' /\ In (q', v) (assigns_v x (child fs k)).
Proof.
  induction cs as [|[k x] r IH]; cbn [assigns_items fst snd].
  - split; [intros [] | intros [k [x [q' [[] _]]]]].
  - rewrite in_app_iff, IH, in_map_iff. split.
    + intros [[[q' v'] [E Hin]]|[k' [x' [q' [Hin [E1 E2]]]]]].
      * cbn [fst snd] in E. injection E as <- <-. exists k, x, q'. repeat split; [now left | exact Hin].
      * exists k', x', q'. repeat split; [now right | exact E1 | exact E2].
    + intros [k' [x' [q' [[E|Hin] [E1 E2]]]]].
      * injection E as <- <-. left. exists (q', v). split; [now subst | exact E2].
      * right. exists k', x', q'. repeat split; assumption.
Qed.

Lemma assigns_items_nonempty fs (cs : dict) qv : In qv (assigns_items assigns_v fs cs) -> fst qv <> [].
Proof.
  destruct qv as [q v]. intros H. apply assigns_items_In in H as [k [x [q' [_ [-> _]]]]]. discriminate.
Qed.

Lemma assigns_dc cls fs cs : assigns (VDc cls fs) cs = assigns_items assigns_v fs cs.
Proof. reflexivity. Qed.

Lemma must_raise_dc cls fs cs : must_raise (VDc cls fs) cs = existsb (bad_entry fs) cs.
Proof.
  unfold must_raise. rewrite assigns_dc.
  induction cs as [|[k x] r IH]; [reflexivity|].
  cbn [assigns_items existsb fst snd]. rewrite existsb_app. f_equal; [|exact IH].
  rewrite existsb_map. cbn [fst]. unfold bad_entry. cbn [fst snd settable].
  destruct (child fs k) as [y|] eqn:C.
  - destruct x as [t0 r0| sub | c0 f0]; destruct y as [t1 r1| d1 | c' f']; try reflexivity.
    cbn [assigns_v]. unfold must_raise. rewrite assigns_dc. apply existsb_ext_in.
    intros [q v] Hin. apply assigns_items_nonempty in Hin. cbn [fst] in *. destruct q; [congruence | reflexivity].
  - destruct x; reflexivity.
Qed.

Lemma child_flookup fs k y : child fs k = Some y <-> flookup fs k = Some (FInit, y).
Proof.
  unfold child. destruct (flookup fs k) as [[[|t d] v]|]; split; intros H; try discriminate; congruence.
Qed.

Lemma is_ok_each rec n l : is_ok (each rec n l) = forallb (fun f => is_ok (newval rec n f)) l.
Proof.
  induction l as [|f r IH]; [reflexivity|]. cbn [each forallb].
  destruct (newval rec n f) as [nv|e]; cbn [bind is_ok andb]; [|reflexivity].
  rewrite <- IH. destruct (each rec n r); reflexivity.
Qed.

Lemma is_ok_replace_ref_dc cls fs cs :
  is_ok (replace_ref (VDc cls fs) cs) =
  forallb (fun f => is_ok (newval replace_ref cs f)) fs && forallb (fun kv => has_field fs (fst kv)) cs.
Proof.
  cbn [replace_ref]. rewrite <- is_ok_each. destruct (each replace_ref cs fs); cbn [bind is_ok andb]; [|reflexivity].
  destruct (forallb _ cs); reflexivity.
Qed.

Theorem ok_iff_not_must_raise o : forall cs, wf_obj o = true -> deep_nf cs = true ->
  is_ok (replace_ref o cs) = negb (must_raise o cs).
Proof.
  induction o as [t r|d _|cls fs IH] using value_ind'; intros cs W D; try reflexivity.
  apply wf_obj_dc in W as [N Wf]. rewrite Forall_forall in IH.
  assert (Kc : NoDup (dkeys cs)). { apply deep_nf_keys, keys_ok_iff in D. tauto. }
  rewrite is_ok_replace_ref_dc, must_raise_dc.
  apply Bool.eq_true_iff_eq. rewrite negb_true_iff, andb_true_iff, !forallb_forall. split.
  - intros [Hnv Hf]. apply not_true_is_false. intros Hex. apply existsb_exists in Hex as [[k x] [Hin Hbad]].
    unfold bad_entry in Hbad. cbn [fst snd] in Hbad.
    specialize (Hf _ Hin). cbn [fst] in Hf. unfold has_field in Hf.
    destruct (flookup fs k) as [[kd v]|] eqn:Lk; [|discriminate].
    assert (Hfin := flookup_In _ _ _ _ Lk). specialize (Hnv _ Hfin).
    unfold newval in Hnv. change (fname (k, kd, v)) with k in Hnv. change (fknd (k, kd, v)) with kd in Hnv.
    change (fval (k, kd, v)) with v in Hnv. rewrite (In_dget _ _ _ Kc Hin) in Hnv.
    unfold child in Hbad. rewrite Lk in Hbad. destruct kd as [|t d]; [|discriminate].
    destruct x as [t0 r0| sub | c0 f0]; try discriminate.
    destruct v as [t1 r1| d1 | c' f']; try discriminate.
    cbn [is_dc] in Hnv.
    assert (E := IH _ Hfin sub (Wf _ Hfin) (deep_nf_sub _ _ _ D (In_dget _ _ _ Kc Hin))).
    change (fval (k, FInit, VDc c' f')) with (VDc c' f') in E. rewrite E, Hbad in Hnv. discriminate.
  - intros Hex. assert (Hgood : forall kx, In kx cs -> bad_entry fs kx = false).
    { intros kx Hin. apply not_true_is_false. intros Hb. rewrite <- not_true_iff_false in Hex. apply Hex.
      apply existsb_exists. eauto. }
    split.
    + intros [[name kd] v] Hfin. unfold newval. change (fname (name, kd, v)) with name.
      change (fknd (name, kd, v)) with kd. change (fval (name, kd, v)) with v.
      assert (Lk := In_flookup _ _ _ _ N Hfin).
      destruct (dget cs name) as [x|] eqn:G; [|destruct kd; reflexivity].
      specialize (Hgood _ (dget_In _ _ _ G)). unfold bad_entry, child in Hgood. cbn [fst snd] in Hgood.
      rewrite Lk in Hgood. destruct kd as [|t d]; [|discriminate].
      destruct x as [t0 r0| sub | c0 f0]; try reflexivity.
      destruct v as [t1 r1| d1 | c' f']; try reflexivity. cbn [is_dc].
      assert (E := IH _ Hfin sub (Wf _ Hfin) (deep_nf_sub _ _ _ D G)).
      change (fval (name, FInit, VDc c' f')) with (VDc c' f') in E. now rewrite E, Hgood.
    + intros [k x] Hin. specialize (Hgood _ Hin). unfold bad_entry, child in Hgood. cbn [fst snd] in *.
      unfold has_field. destruct (flookup fs k); [reflexivity | discriminate].
Qed.

Lemma each_err rec n l e : each rec n l = Err e -> exists f, In f l /\ newval rec n f = Err e.
Proof.
  induction l as [|f r IH]; cbn [each]; intros H; [discriminate|].
  destruct (newval rec n f) as [nv|e'] eqn:E; cbn [bind] in H.
  - destruct (each rec n r) as [r'|e'] eqn:E2; cbn [bind] in H; [discriminate|]. injection H as ->.
    destruct (IH eq_refl) as [f0 [Hin Hf0]]. exists f0. split; [now right | exact Hf0].
  - injection H as ->. exists f. split; [now left | exact E].
Qed.

(* whatever goes wrong is an exception (never an exit), so "raises" is observable as such *)
Lemma replace_ref_err o : forall cs e, replace_ref o cs = Err e -> exists c, e = Raise c.
Proof.
  induction o as [t r|d _|cls fs IH] using value_ind'; intros cs e H; cbn [replace_ref] in H.
  - injection H as <-. eauto.
  - injection H as <-. eauto.
  - destruct (each replace_ref cs fs) as [fs'|e'] eqn:E; cbn [bind] in H.
    + destruct (forallb _ cs); [discriminate | injection H as <-; eauto].
    + injection H as ->. apply each_err in E as [f [Hin Hf]]. unfold newval in Hf.
      rewrite Forall_forall in IH.
      destruct (fknd f); destruct (dget cs (fname f)) as [[| sub |]|]; try discriminate;
        try (injection Hf as <-; eauto).
      destruct (is_dc (fval f)); [eapply IH; eassumption | discriminate].
Qed.

Lemma each_lookup rec n l : forall l', each rec n l = Ok l' -> forall name,
  match flookup l name with
  | None => flookup l' name = None
  | Some (kd, v) => exists nv, newval rec n (name, kd, v) = Ok nv /\ flookup l' name = Some (kd, nv)
  end.
Proof.
  induction l as [|[[n0 kd0] v0] r IH]; intros l' H name; cbn [each] in H.
  - injection H as <-. reflexivity.
  - apply bind_ok in H as [nv [Hnv H]]. apply bind_ok in H as [r' [Hr H]]. injection H as <-.
    change (fname (n0, kd0, v0)) with n0. change (fknd (n0, kd0, v0)) with kd0.
    cbn [flookup]. destruct (String.eqb name n0) eqn:E.
    + apply String.eqb_eq in E. subst. exists nv. split; [exact Hnv | reflexivity].
    + apply (IH r' Hr name).
Qed.

Lemma replace_ref_dc_ok cls fs cs o' : replace_ref (VDc cls fs) cs = Ok o' ->
  exists fs', each replace_ref cs fs = Ok fs' /\ forallb (fun kv => has_field fs (fst kv)) cs = true /\ o' = VDc cls fs'.
Proof.
  cbn [replace_ref]. intros H. apply bind_ok in H as [fs' [E H]]. exists fs'.
  destruct (forallb _ cs); [|discriminate]. injection H as <-. auto.
Qed.

(* ====================================================================== *)
(* frame: every addressed leaf has the new value ...                       *)
(* ====================================================================== *)
Theorem addressed o : forall cs o' q v, wf_obj o = true -> deep_nf cs = true ->
  replace_ref o cs = Ok o' -> In (q, v) (assigns o cs) -> get o' q = Some v.
Proof.
  induction o as [t r|d _|cls fs IH] using value_ind'; intros cs o' q v W D H Hin; try discriminate.
  apply wf_obj_dc in W as [N Wf]. rewrite Forall_forall in IH.
  assert (Kc : NoDup (dkeys cs)). { apply deep_nf_keys, keys_ok_iff in D. tauto. }
  apply replace_ref_dc_ok in H as [fs' [E [Hf ->]]].
  rewrite assigns_dc in Hin. apply assigns_items_In in Hin as [k [x [q' [Hkx [-> Hq']]]]].
  rewrite forallb_forall in Hf. specialize (Hf _ Hkx). cbn [fst] in Hf. unfold has_field in Hf.
  assert (L := each_lookup _ _ _ _ E k).
  destruct (flookup fs k) as [[kd y]|] eqn:Lk; [|discriminate].
  destruct L as [nv [Hnv Lk']]. assert (Hfin := flookup_In _ _ _ _ Lk).
  unfold newval in Hnv. change (fname (k, kd, y)) with k in Hnv. change (fknd (k, kd, y)) with kd in Hnv.
  change (fval (k, kd, y)) with y in Hnv. rewrite (In_dget _ _ _ Kc Hkx) in Hnv.
  destruct kd as [|t d]; [|discriminate].
  unfold child in Hq'. rewrite Lk in Hq'.
  cbn [get]. unfold child. rewrite Lk'.
  destruct x as [t0 r0| sub | c0 f0].
  - destruct Hq' as [Hq'|[]]. injection Hq' as <- <-. injection Hnv as <-. reflexivity.
  - destruct y as [t1 r1| d1 | c' f'].
    + destruct Hq' as [Hq'|[]]. injection Hq' as <- <-. injection Hnv as <-. reflexivity.
    + destruct Hq' as [Hq'|[]]. injection Hq' as <- <-. injection Hnv as <-. reflexivity.
    + cbn [is_dc] in Hnv.
      apply (IH _ Hfin sub nv q' v (Wf _ Hfin) (deep_nf_sub _ _ _ D (In_dget _ _ _ Kc Hkx)) Hnv Hq').
  - destruct Hq' as [Hq'|[]]. injection Hq' as <- <-. injection Hnv as <-. reflexivity.
Qed.

(* ====================================================================== *)
(* ... and every other node is what it was                                 *)
(* ====================================================================== *)
Lemma field_same_refl f : field_same f f = true.
Proof.
  unfold field_same. rewrite String.eqb_refl, fkind_eqb_refl. cbn [andb].
  destruct (fknd f); [reflexivity | now rewrite value_eqb_refl].
Qed.

Lemma node_same_refl a : node_same a a = true.
Proof.
  destruct a as [[t r| d | c f]|]; cbn [node_same]; try apply value_eqb_refl; [|reflexivity].
  rewrite String.eqb_refl. cbn [andb]. unfold fields_same. apply all2_refl.
  apply Forall_forall. intros x _. apply field_same_refl.
Qed.

Lemma each_fields_same rec n l : forall l', each rec n l = Ok l' -> fields_same l l' = true.
Proof.
  unfold fields_same. induction l as [|[[n0 kd0] v0] r IH]; intros l' H; cbn [each] in H.
  - injection H as <-. reflexivity.
  - apply bind_ok in H as [nv [Hnv H]]. apply bind_ok in H as [r' [Hr H]]. injection H as <-.
    cbn [all2]. rewrite (IH r' Hr), andb_true_r.
    change (fname (n0, kd0, v0)) with n0. change (fknd (n0, kd0, v0)) with kd0.
    unfold field_same. cbn [fname fknd fval fst snd]. rewrite String.eqb_refl, fkind_eqb_refl. cbn [andb].
    destruct kd0 as [|t d]; [reflexivity|].
    unfold newval in Hnv. cbn [fname fknd fval fst snd] in Hnv.
    destruct (dget n n0); [discriminate|]. injection Hnv as <-. rewrite (value_eqb_refl (VLeaf t d)). apply orb_true_r.
Qed.

Lemma untouched_In A p q v : untouched A p = true -> In (q, v) A -> is_prefix q p = false.
Proof.
  unfold untouched. rewrite forallb_forall. intros H Hin. specialize (H _ Hin). cbn [fst] in H.
  now apply negb_true_iff in H.
Qed.

Theorem untouched_same o : forall cs o' p, wf_obj o = true -> deep_nf cs = true ->
  replace_ref o cs = Ok o' -> untouched (assigns o cs) p = true -> node_same (get o p) (get o' p) = true.
Proof.
  induction o as [t r|d _|cls fs IH] using value_ind'; intros cs o' p W D H U; try discriminate.
  apply wf_obj_dc in W as [N Wf]. rewrite Forall_forall in IH.
  assert (Kc : NoDup (dkeys cs)). { apply deep_nf_keys, keys_ok_iff in D. tauto. }
  apply replace_ref_dc_ok in H as [fs' [E [Hf ->]]].
  destruct p as [|k r].
  - cbn [get node_same]. rewrite String.eqb_refl. cbn [andb]. eapply each_fields_same; eassumption.
  - cbn [get]. assert (L := each_lookup _ _ _ _ E k). unfold child.
    destruct (flookup fs k) as [[kd y]|] eqn:Lk.
    + destruct L as [nv [Hnv Lk']]. rewrite Lk'. destruct kd as [|t d]; [|reflexivity].
      assert (Hfin := flookup_In _ _ _ _ Lk).
      unfold newval in Hnv. cbn [fname fknd fval fst snd] in Hnv.
      destruct (dget cs k) as [x|] eqn:G.
      * assert (Hkx := dget_In _ _ _ G).
        assert (Plain : assigns_v x (Some y) = [([], x)] -> False).
        { intros Ha. assert (Hin : In ([k], x) (assigns (VDc cls fs) cs)).
          { rewrite assigns_dc. apply assigns_items_In. exists k, x, []. repeat split; [exact Hkx|].
            unfold child. rewrite Lk, Ha. now left. }
          apply (untouched_In _ _ _ _ U) in Hin. cbn [is_prefix] in Hin. rewrite String.eqb_refl in Hin. discriminate. }
        destruct x as [t0 r0| sub | c0 f0]; try (exfalso; apply Plain; reflexivity).
        destruct y as [t1 r1| d1 | c' f']; try (exfalso; apply Plain; reflexivity).
        cbn [is_dc] in Hnv.
        apply (IH _ Hfin sub nv r (Wf _ Hfin) (deep_nf_sub _ _ _ D G) Hnv).
        unfold untouched. apply forallb_forall. intros [q' v] Hq'. cbn [fst].
        assert (Hin : In (k :: q', v) (assigns (VDc cls fs) cs)).
        { rewrite assigns_dc. apply assigns_items_In. exists k, (VDict sub), q'. repeat split; [exact Hkx|].
          unfold child. rewrite Lk. exact Hq'. }
        apply (untouched_In _ _ _ _ U) in Hin. cbn [is_prefix] in Hin. rewrite String.eqb_refl in Hin.
        cbn [andb] in Hin. now rewrite Hin.
      * injection Hnv as <-. apply node_same_refl.
    + rewrite L. reflexivity.
Qed.

(* the executable spec holds of the reference, hence (model_ref) of the model *)
Theorem ref_meets_spec o cs : wf_obj o = true -> deep_nf cs = true -> frame_check o cs (replace_ref o cs) = true.
Proof.
  intros W D. unfold frame_check. assert (K := ok_iff_not_must_raise o cs W D).
  destruct (must_raise o cs) eqn:M; cbn [negb] in K.
  - destruct (replace_ref o cs) as [o'|e] eqn:R; [discriminate|].
    destruct (replace_ref_err _ _ _ R) as [c ->]. reflexivity.
  - destruct (replace_ref o cs) as [o'|e] eqn:R; [|discriminate].
    apply andb_true_iff. split; apply forallb_forall.
    + intros [q v] Hin. cbn [fst snd]. rewrite (addressed o cs o' q v W D R Hin). cbn [opt_value_eqb]. apply value_eqb_refl.
    + intros p _. destruct (untouched (assigns o cs) p) eqn:U; cbn [implb]; [|reflexivity].
      apply (untouched_same o cs o' p W D R U).
Qed.

(* ====================================================================== *)
(* the empty change set; the keyword form                                  *)
(* ====================================================================== *)
(* what re-running the constructor does to init=False fields *)
Definition reset_noninit (fs : list field) : list field :=
  map (fun f => match fknd f with FInit => f | FNonInit t d => (fname f, FNonInit t d, VLeaf t d) end) fs.
(* every init=False field of this instance holds its default *)
Definition noninit_at_default (fs : list field) : bool :=
  forallb (fun f => match fknd f, fval f with
                    | FInit, _ => true
                    | FNonInit t d, VLeaf t' d' => String.eqb t t' && String.eqb d d'
                    | FNonInit _ _, _ => false
                    end) fs.

Lemma loop_nil rec l : loop F0 rec [] l = Ok [].
Proof. induction l as [|f r IH]; [reflexivity | exact IH]. Qed.

Lemma dc_fields_nil fs : dc_fields fs [] = Ok (reset_noninit fs).
Proof.
  induction fs as [|[[n k] v] r IH]; [reflexivity|]. cbn [dc_fields reset_noninit map]. fold (reset_noninit r).
  destruct k as [|t d]; cbn [dhas dget]; rewrite IH; reflexivity.
Qed.

Theorem replace_nil cls fs : replace F0 (VDc cls fs) [] = Ok (VDc cls (reset_noninit fs)).
Proof.
  rewrite replace_eq. cbn [f_sep F0 unflatten_split unflatten map fold_left bind f_leftover].
  rewrite loop_nil. cbn [bind leftover filter app dc_replace]. rewrite dc_fields_nil. reflexivity.
Qed.

Lemma reset_at_default fs : noninit_at_default fs = true -> reset_noninit fs = fs.
Proof.
  induction fs as [|[[n k] v] r IH]; [reflexivity|]. cbn [noninit_at_default forallb reset_noninit map].
  fold (noninit_at_default r). fold (reset_noninit r). intros H. apply andb_true_iff in H as [H1 H2].
  rewrite (IH H2). cbn [fknd fval fname fst snd] in *. destruct k as [|t d]; [reflexivity|].
  destruct v as [t' d'| |]; try discriminate. apply andb_true_iff in H1 as [E1 E2].
  apply String.eqb_eq in E1, E2. now subst.
Qed.

Theorem keyword_form F o cs : replace_call F o None cs = replace_call F o (Some cs) [].
Proof. unfold replace_call. destruct cs; reflexivity. Qed.

Theorem both_forms_rejected F o x r y k : replace_call F o (Some (x :: r)) (y :: k) = Err (Raise (f_both_err F)).
Proof. reflexivity. Qed.

(* ====================================================================== *)
(* dotted form <-> nested form: unflatten_split (flatten_join cs) = cs      *)
(* ====================================================================== *)
Local Notation prefixkv k := (fun kv : list string * value => (k :: fst kv, snd kv)).

Lemma flatten_cons k x (r : dict) :
  flatten ((k, x) :: r) = (map (prefixkv k) (flatten_val x) ++ flatten r)%list.
Proof. reflexivity. Qed.

Lemma flatten_paths_nonempty (d : dict) : Forall (fun kv => fst kv <> []) (flatten d).
Proof.
  induction d as [|[k x] r IH]; [constructor|]. rewrite flatten_cons. apply Forall_app. split; [|exact IH].
  apply Forall_forall. intros kv Hin. apply in_map_iff in Hin as [kv' [<- _]]. discriminate.
Qed.

Lemma dget_last (acc : dict) k v : ~ In k (dkeys acc) -> dget (acc ++ [(k, v)])%list k = Some v.
Proof. intros H. rewrite dget_app. apply dget_none in H. rewrite H. cbn [dget]. now rewrite String.eqb_refl. Qed.

Lemma insert_path_cons2 k k2 rest v (d : dict) :
  insert_path (k :: k2 :: rest) v d =
  match dget d k with
  | None => bind (insert_path (k2 :: rest) v []) (fun sub => Ok (d ++ [(k, VDict sub)])%list)
  | Some (VDict sub) => bind (insert_path (k2 :: rest) v sub) (fun sub' => Ok (dset d k (VDict sub')))
  | Some _ => Err (Raise "AssertionError")
  end.
Proof. reflexivity. Qed.

Lemma nf_dict_nodup ae d : nf_dict ae d = true -> NoDup (dkeys d).
Proof. unfold nf_dict. intros H. apply andb_true_iff in H as [H _]. apply keys_ok_iff in H. tauto. Qed.

Lemma fold_prefix k items : forall acc s : dict,
  ~ In k (dkeys acc) -> Forall (fun kv => fst kv <> []) items ->
  fold_left ustep (map (prefixkv k) items) (Ok (acc ++ [(k, VDict s)])%list) =
  bind (fold_left ustep items (Ok s)) (fun s' => Ok (acc ++ [(k, VDict s')])%list).
Proof.
  induction items as [|[p v] r IH]; intros acc s Hk Hne; [reflexivity|].
  inversion Hne as [|? ? Hp Hr]; subst. cbn [fst] in Hp. destruct p as [|p1 pr]; [congruence|].
  cbn [map fold_left fst snd bind]. rewrite insert_path_cons2, (dget_last acc k (VDict s) Hk).
  destruct (insert_path (p1 :: pr) v s) as [s1|e] eqn:E.
  - cbn [bind]. rewrite (dset_last acc k (VDict s) (VDict s1) Hk). apply IH; assumption.
  - cbn [bind]. now rewrite !fold_err.
Qed.

Lemma fold_prefix_start k items (acc : dict) :
  ~ In k (dkeys acc) -> items <> [] -> Forall (fun kv => fst kv <> []) items ->
  fold_left ustep (map (prefixkv k) items) (Ok acc) =
  bind (fold_left ustep items (Ok [])) (fun s' => Ok (acc ++ [(k, VDict s')])%list).
Proof.
  intros Hk Hne Hall. destruct items as [|[p v] r]; [congruence|].
  inversion Hall as [|? ? Hp Hr]; subst. cbn [fst] in Hp. destruct p as [|p1 pr]; [congruence|].
  cbn [map fold_left fst snd bind]. rewrite insert_path_cons2. apply dget_none in Hk. rewrite Hk.
  destruct (insert_path (p1 :: pr) v []) as [s1|e] eqn:E.
  - cbn [bind]. apply fold_prefix; [now apply dget_none | exact Hr].
  - cbn [bind]. now rewrite !fold_err.
Qed.

Lemma nf_val_dict ae sub : nf_val ae (VDict sub) = true ->
  (ae = false -> sub <> []) /\ nf_dict ae sub = true.
Proof.
  cbn [nf_val]. intros H. apply andb_true_iff in H as [H H3]. apply andb_true_iff in H as [H1 H2].
  split.
  - intros ->. destruct sub; [discriminate | discriminate].
  - unfold nf_dict. now rewrite H2, H3.
Qed.

Lemma nf_dict_cons ae k x r : nf_dict ae ((k, x) :: r) = true ->
  nodot k = true /\ ~ In k (dkeys r) /\ nf_val ae x = true /\ nf_dict ae r = true.
Proof.
  unfold nf_dict, keys_ok. cbn [dkeys map fst str_nodupb forallb snd]. intros H.
  apply andb_true_iff in H as [H H3]. apply andb_true_iff in H as [H1 H2].
  apply andb_true_iff in H1 as [H1a H1b]. apply andb_true_iff in H2 as [H2a H2b]. apply andb_true_iff in H3 as [H3a H3b].
  apply negb_true_iff, str_in_false in H1a. repeat split; try assumption.
  unfold dkeys. now rewrite H1b, H2b, H3b.
Qed.

(* round trip on tuple keys, for every nesting depth; the two extra facts are what the string level needs *)
Lemma roundtrip_val v :
  match v with
  | VDict cs =>
      nf_dict false cs = true ->
      (cs <> [] -> flatten cs <> []) /\
      Forall (fun kv => forallb nodot (fst kv) = true) (flatten cs) /\
      forall acc : dict, NoDup (dkeys acc ++ dkeys cs) ->
        fold_left ustep (flatten cs) (Ok acc) = Ok (acc ++ cs)%list
  | _ => True
  end.
Proof.
  induction v as [t r|d IH|c fs _] using value_ind'; [exact I | | exact I].
  intros Hnf. split; [|split].
  - destruct d as [|[k x] r]; [congruence|]. intros _. rewrite flatten_cons.
    inversion IH as [|? ? Hx _]; subst. cbn [snd] in Hx.
    apply nf_dict_cons in Hnf as [_ [_ [Hnx _]]].
    destruct x as [t0 r0| sub | c0 f0]; try discriminate.
    apply nf_val_dict in Hnx as [Hne Hsub]. destruct (Hx Hsub) as [Hx1 _].
    specialize (Hx1 (Hne eq_refl)). change (flatten_val (VDict sub)) with (flatten sub).
    destruct (flatten sub); [congruence | discriminate].
  - induction d as [|[k x] r IHd]; [constructor|]. rewrite flatten_cons.
    inversion IH as [|? ? Hx Hr]; subst. cbn [snd] in Hx.
    apply nf_dict_cons in Hnf as [Hk [_ [Hnx Hnr]]].
    apply Forall_app. split; [|exact (IHd Hr Hnr)].
    apply Forall_forall. intros kv Hin. apply in_map_iff in Hin as [[p v] [<- Hin]]. cbn [fst forallb].
    rewrite Hk. cbn [andb].
    destruct x as [t0 r0| sub | c0 f0].
    + destruct Hin as [E|[]]. now injection E as <- <-.
    + apply nf_val_dict in Hnx as [_ Hsub]. destruct (Hx Hsub) as [_ [Hx2 _]].
      rewrite Forall_forall in Hx2. exact (Hx2 _ Hin).
    + destruct Hin as [E|[]]. now injection E as <- <-.
  - induction d as [|[k x] r IHd]; intros acc N.
    + cbn. now rewrite app_nil_r.
    + inversion IH as [|? ? Hx Hr]; subst. cbn [snd] in Hx.
      apply nf_dict_cons in Hnf as [Hk [Hkr [Hnx Hnr]]].
      assert (Hka : ~ In k (dkeys acc)).
      { cbn [dkeys map fst] in N. apply NoDup_remove_2 in N. intros H. apply N. apply in_or_app. now left. }
      assert (N' : NoDup (dkeys (acc ++ [(k, x)])%list ++ dkeys r)).
      { rewrite dkeys_app. cbn [dkeys map fst app]. rewrite <- app_assoc. exact N. }
      rewrite flatten_cons, fold_left_app.
      assert (First : fold_left ustep (map (prefixkv k) (flatten_val x)) (Ok acc) = Ok (acc ++ [(k, x)])%list).
      { destruct x as [t0 r0| sub | c0 f0].
        - cbn. now rewrite (dset_notin _ _ _ Hka).
        - apply nf_val_dict in Hnx as [Hne Hsub]. destruct (Hx Hsub) as [Hx1 [_ Hx3]].
          change (flatten_val (VDict sub)) with (flatten sub).
          rewrite (fold_prefix_start k (flatten sub) acc Hka (Hx1 (Hne eq_refl)) (flatten_paths_nonempty sub)).
          assert (E : fold_left ustep (flatten sub) (Ok []) = Ok sub).
          { apply (Hx3 []). cbn [dkeys map app]. eapply nf_dict_nodup; eassumption. }
          match goal with |- bind ?a _ = _ => replace a with (@Ok dict sub) by (symmetry; exact E) end.
          reflexivity.
        - cbn. now rewrite (dset_notin _ _ _ Hka). }
      rewrite First. etransitivity; [apply (IHd Hr Hnr _ N') | now rewrite <- app_assoc].
Qed.

Lemma NoDup_app_intro {A} (a b : list A) :
  NoDup a -> NoDup b -> (forall x, In x a -> ~ In x b) -> NoDup (a ++ b)%list.
Proof.
  induction a as [|x r IH]; intros Na Nb D; [exact Nb|]. inversion Na as [|? ? Hx Nr]; subst.
  cbn [app]. constructor.
  - intros H. apply in_app_or in H as [H|H]; [contradiction | apply (D x (or_introl eq_refl) H)].
  - apply IH; [exact Nr | exact Nb | intros y Hy; apply D; now right].
Qed.

Lemma NoDup_map_in {A B} (f : A -> B) l :
  (forall x y, In x l -> In y l -> f x = f y -> x = y) -> NoDup l -> NoDup (map f l).
Proof.
  induction l as [|x r IH]; intros Inj N; [constructor|]. inversion N as [|? ? Hx Nr]; subst.
  cbn [map]. constructor.
  - intros H. apply in_map_iff in H as [y [E Hy]]. apply Hx.
    rewrite (Inj x y (or_introl eq_refl) (or_intror Hy) (eq_sym E)). exact Hy.
  - apply IH; [|exact Nr]. intros a b Ha Hb. apply Inj; now right.
Qed.

Lemma flatten_heads (r : dict) p : In p (map fst (flatten r)) -> exists k rest, p = k :: rest /\ In k (dkeys r).
Proof.
  induction r as [|[k x] r IH]; [intros []|]. rewrite flatten_cons, map_app, in_app_iff. intros [H|H].
  - apply in_map_iff in H as [kv [<- H]]. apply in_map_iff in H as [kv' [<- _]]. cbn [fst].
    exists k, (fst kv'). split; [reflexivity | now left].
  - destruct (IH H) as [k' [rest [-> Hin]]]. exists k', rest. split; [reflexivity | now right].
Qed.

Lemma flatten_paths_nodup v :
  match v with
  | VDict cs => nf_dict false cs = true -> NoDup (map fst (flatten cs))
  | _ => True
  end.
Proof.
  induction v as [t r|d IH|c fs _] using value_ind'; [exact I | | exact I].
  induction d as [|[k x] r IHd]; intros Hnf; [constructor|].
  inversion IH as [|? ? Hx Hr]; subst. cbn [snd] in Hx.
  apply nf_dict_cons in Hnf as [Hk [Hkr [Hnx Hnr]]].
  rewrite flatten_cons, map_app. apply NoDup_app_intro.
  - rewrite map_map. cbn [fst]. rewrite <- (map_map fst (cons k)).
    apply NoDup_map_in; [intros a b _ _ E; now injection E|].
    destruct x as [t0 r0| sub | c0 f0].
    + repeat constructor. intros [].
    + apply nf_val_dict in Hnx as [_ Hsub]. exact (Hx Hsub).
    + repeat constructor. intros [].
  - exact (IHd Hr Hnr).
  - intros p H1 H2. apply flatten_heads in H2 as [k' [rest [-> Hin]]].
    apply in_map_iff in H1 as [kv [E H1]]. apply in_map_iff in H1 as [kv' [<- _]]. cbn [fst] in E.
    injection E as -> _. contradiction.
Qed.

Lemma dict_of_items_nodup_gen (l : dict) : forall acc : dict,
  NoDup (dkeys acc ++ dkeys l) -> fold_left (fun a kv => dset a (fst kv) (snd kv)) l acc = (acc ++ l)%list.
Proof.
  induction l as [|[k v] r IH]; intros acc N; [now rewrite app_nil_r|].
  cbn [fold_left fst snd].
  assert (Hk : ~ In k (dkeys acc)).
  { cbn [dkeys map fst] in N. apply NoDup_remove_2 in N. intros H. apply N. apply in_or_app. now left. }
  rewrite (dset_notin _ _ _ Hk), IH; [now rewrite <- app_assoc|].
  rewrite dkeys_app. cbn [dkeys map fst app]. rewrite <- app_assoc. exact N.
Qed.

Lemma dict_of_items_nodup (l : dict) : NoDup (dkeys l) -> dict_of_items l = l.
Proof. intros N. exact (dict_of_items_nodup_gen l [] N). Qed.

Lemma join_is_join_dot p : join_sep "."%char p = join_dot p.
Proof. reflexivity. Qed.

(* the dict comprehension of flatten_join never collapses two entries of a well-formed nested change set *)
Lemma flat_items_nodup cs : wf_nested cs = true -> NoDup (dkeys (flat_items "."%char cs)).
Proof.
  intros W. unfold flat_items, dkeys. rewrite map_map. cbn [fst].
  rewrite <- (map_map fst (join_sep "."%char)).
  destruct (roundtrip_val (VDict cs) W) as [_ [Hdots _]]. rewrite Forall_forall in Hdots.
  assert (Hne := flatten_paths_nonempty cs). rewrite Forall_forall in Hne.
  apply NoDup_map_in; [|exact (flatten_paths_nodup (VDict cs) W)].
  intros a b Ha Hb E. apply in_map_iff in Ha as [[pa va] [<- Ha]]. apply in_map_iff in Hb as [[pb vb] [<- Hb]].
  cbn [fst] in *. rewrite !join_is_join_dot in E.
  apply join_dot_inj; [exact (Hne _ Ha) | exact (Hne _ Hb) | exact (Hdots _ Ha) | exact (Hdots _ Hb) | exact E].
Qed.

(* FORMS: what flatten_join produces, unflatten_split turns back into the nested change set *)
Theorem forms_roundtrip cs : wf_nested cs = true -> unflatten_split "."%char (flatten_join "."%char cs) = Ok cs.
Proof.
  intros W. unfold flatten_join. rewrite (dict_of_items_nodup _ (flat_items_nodup cs W)).
  destruct (roundtrip_val (VDict cs) W) as [_ [Hdots RT]]. rewrite Forall_forall in Hdots.
  assert (Hne := flatten_paths_nonempty cs). rewrite Forall_forall in Hne.
  unfold unflatten_split, flat_items. rewrite map_map. cbn [fst snd].
  rewrite (map_ext_in _ (fun kv => kv)).
  - rewrite map_id. apply (RT []). cbn [dkeys map app]. eapply nf_dict_nodup; exact W.
  - intros [p v] Hin. cbn [fst snd]. rewrite join_is_join_dot.
    change (split_on "."%char (join_dot p) "") with (split_dot (join_dot p)).
    rewrite (split_join_dot p (Hne _ Hin) (Hdots _ Hin)). reflexivity.
Qed.

Theorem replace_forms o cs : wf_nested cs = true -> replace F0 o (flatten_join "."%char cs) = replace F0 o cs.
Proof. intros W. rewrite replace_unflatten, (forms_roundtrip cs W). reflexivity. Qed.

(* ====================================================================== *)
(* the result equals applying dataclasses.replace level by level           *)
(* ====================================================================== *)
Definition agree (a b : res value) : Prop :=
  match a, b with
  | Ok x, Ok y => x = y
  | Err (Raise _), Err (Raise _) => True
  | _, _ => False
  end.

Lemma agree_res_agree a b : agree a b -> res_agree a b = true.
Proof.
  destruct a as [x|[]], b as [y|[]]; cbn; try contradiction; try reflexivity.
  intros ->. apply value_eqb_refl.
Qed.

Lemma lw_items_dget rec fs (cs : dict) : forall kw, lw_items rec fs cs = Ok kw -> forall k,
  match dget cs k with
  | None => dget kw k = None
  | Some x => exists y, lw_conv rec fs x k = Ok y /\ dget kw k = Some y
  end.
Proof.
  induction cs as [|[k0 x0] r IH]; intros kw H k; cbn [lw_items fst snd] in H.
  - injection H as <-. reflexivity.
  - apply bind_ok in H as [y [Hy H]]. apply bind_ok in H as [kw' [Hr H]]. injection H as <-.
    cbn [dget]. destruct (String.eqb k k0) eqn:E.
    + apply String.eqb_eq in E. subst. exists y. auto.
    + apply (IH kw' Hr k).
Qed.

Lemma lw_items_keys rec fs (cs : dict) : forall kw, lw_items rec fs cs = Ok kw -> dkeys kw = dkeys cs.
Proof.
  induction cs as [|[k0 x0] r IH]; intros kw H; cbn [lw_items fst snd] in H.
  - now injection H as <-.
  - apply bind_ok in H as [y [Hy H]]. apply bind_ok in H as [kw' [Hr H]]. injection H as <-.
    cbn [dkeys map fst]. f_equal. apply (IH kw' Hr).
Qed.

Lemma lw_items_err rec fs (cs : dict) e : lw_items rec fs cs = Err e ->
  exists k x, In (k, x) cs /\ lw_conv rec fs x k = Err e.
Proof.
  induction cs as [|[k0 x0] r IH]; cbn [lw_items fst snd]; intros H; [discriminate|].
  destruct (lw_conv rec fs x0 k0) as [y|e'] eqn:E; cbn [bind] in H.
  - destruct (lw_items rec fs r) as [kw|e'] eqn:E2; cbn [bind] in H; [discriminate|]. injection H as ->.
    destruct (IH eq_refl) as [k [x [Hin Hc]]]. exists k, x. split; [now right | exact Hc].
  - injection H as ->. exists k0, x0. split; [now left | exact E].
Qed.

Lemma dc_fields_ok_noninit l (kw : dict) : forall l', dc_fields l kw = Ok l' ->
  forall n t d v, In (n, FNonInit t d, v) l -> dhas kw n = false.
Proof.
  induction l as [|[[n0 k0] v0] r IH]; intros l' H n t d v Hin; [destruct Hin|].
  cbn [dc_fields] in H. destruct k0 as [|t0 d0].
  - apply bind_ok in H as [r' [Hr _]]. destruct Hin as [E|Hin]; [discriminate|]. eapply IH; eassumption.
  - destruct (dhas kw n0) eqn:Hh; [discriminate|]. apply bind_ok in H as [r' [Hr _]].
    destruct Hin as [E|Hin]; [injection E as <- _ _ _; exact Hh | eapply IH; eassumption].
Qed.

Lemma forallb_keys (g : string -> bool) (d : dict) : forallb (fun kv => g (fst kv)) d = forallb g (dkeys d).
Proof. induction d as [|[k v] r IH]; [reflexivity|]. cbn [forallb dkeys map fst]. now rewrite IH. Qed.

Lemma forallb_ext_in {A} (f g : A -> bool) l : (forall x, In x l -> f x = g x) -> forallb f l = forallb g l.
Proof.
  induction l as [|x r IH]; intros H; [reflexivity|]. cbn [forallb].
  rewrite (H x (or_introl eq_refl)), IH; [reflexivity | intros y Hy; apply H; now right].
Qed.

Theorem levelwise_agree o : forall cs, wf_obj o = true -> deep_nf cs = true ->
  agree (replace_ref o cs) (levelwise o cs).
Proof.
  induction o as [t r|d _|cls fs IH] using value_ind'; intros cs W D; try exact I.
  apply wf_obj_dc in W as [N Wf]. rewrite Forall_forall in IH.
  assert (Kc : NoDup (dkeys cs)). { apply deep_nf_keys, keys_ok_iff in D. tauto. }
  unfold levelwise. cbn [levelwise_v].
  destruct (lw_items levelwise_v fs cs) as [kw|e] eqn:LW; cbn [bind].
  - (* the keyword arguments were all computed: the two constructions coincide field by field *)
    assert (Each : forall l, (forall f, In f l -> In f fs) -> each replace_ref cs l = dc_fields l kw).
    { induction l as [|[[name kd] v] r IHl]; intros Sub; [reflexivity|].
      assert (Hfin : In (name, kd, v) fs) by (apply Sub; now left).
      cbn [each dc_fields]. rewrite IHl by (intros f Hf; apply Sub; now right).
      unfold newval. cbn [fname fknd fval fst snd].
      assert (G := lw_items_dget _ _ _ _ LW name).
      destruct (dget cs name) as [x|] eqn:Gx.
      - destruct G as [y [Hy Gk]]. unfold dhas. rewrite Gk. destruct kd as [|t d]; [|reflexivity].
        unfold lw_conv in Hy. rewrite (proj2 (child_flookup fs name v) (In_flookup _ _ _ _ N Hfin)) in Hy.
        destruct x as [t0 r0| sub | c0 f0]; try (injection Hy as <-; reflexivity).
        destruct v as [t1 r1| d1 | c' f']; try (injection Hy as <-; reflexivity).
        cbn [is_dc]. assert (A := IH _ Hfin sub (Wf _ Hfin) (deep_nf_sub _ _ _ D Gx)).
        cbn [fval snd] in A. unfold levelwise in A. rewrite Hy in A.
        destruct (replace_ref (VDc c' f') sub) as [z|[]]; cbn [agree] in A; try contradiction. subst. reflexivity.
      - unfold dhas. rewrite G. destruct kd; reflexivity. }
    cbn [replace_ref dc_replace]. rewrite (Each fs (fun f H => H)).
    destruct (dc_fields fs kw) as [fs'|e] eqn:DF; cbn [bind].
    + assert (Same : forallb (fun kv => has_init_field fs (fst kv)) kw = forallb (fun kv => has_field fs (fst kv)) cs).
      { rewrite !forallb_keys, (lw_items_keys _ _ _ _ LW). apply forallb_ext_in. intros k Hk.
        unfold has_init_field, has_field. destruct (flookup fs k) as [[[|t d] v]|] eqn:Lk; try reflexivity.
        exfalso. assert (Hh := dc_fields_ok_noninit _ _ _ DF k t d v (flookup_In _ _ _ _ Lk)).
        rewrite <- (lw_items_keys _ _ _ _ LW) in Hk. apply dhas_In in Hk. congruence. }
      rewrite Same. destruct (forallb _ cs); cbn [agree]; [reflexivity | exact I].
    + assert (R : replace_ref (VDc cls fs) cs = Err e).
      { cbn [replace_ref]. rewrite (Each fs (fun f H => H)), DF. reflexivity. }
      destruct (replace_ref_err _ _ _ R) as [c ->]. exact I.
  - (* a nested level failed: the same nested call fails inside the model *)
    apply lw_items_err in LW as [k [x [Hin Hc]]]. unfold lw_conv in Hc.
    destruct x as [t0 r0| sub | c0 f0]; try discriminate.
    destruct (child fs k) as [[t1 r1| d1 | c' f']|] eqn:C; try discriminate.
    apply child_flookup in C. assert (Hfin := flookup_In _ _ _ _ C).
    assert (A := IH _ Hfin sub (Wf _ Hfin) (deep_nf_sub _ _ _ D (In_dget _ _ _ Kc Hin))).
    cbn [fval snd] in A. unfold levelwise in A. rewrite Hc in A.
    destruct (replace_ref (VDc c' f') sub) as [z|e'] eqn:R; [destruct e; contradiction|].
    assert (Hno : is_ok (replace_ref (VDc cls fs) cs) = false).
    { rewrite is_ok_replace_ref_dc. apply andb_false_iff. left. apply not_true_is_false. intros H.
      rewrite forallb_forall in H. specialize (H _ Hfin). unfold newval in H. cbn [fname fknd fval fst snd] in H.
      rewrite (In_dget _ _ _ Kc Hin) in H. cbn [is_dc] in H. rewrite R in H. discriminate. }
    destruct (replace_ref (VDc cls fs) cs) as [z|e''] eqn:R2; [discriminate|].
    destruct (replace_ref_err _ _ _ R2) as [c ->]. destruct e' as [| | |c2|]; try contradiction.
    destruct e; try contradiction. exact I.
Qed.

(* ====================================================================== *)
(* boolean equality reflects equality (to state the frame condition on leaves as an equation) *)
(* ====================================================================== *)
Lemma all2_eq {A} (eqb : A -> A -> bool) l1 :
  Forall (fun x => forall y, eqb x y = true -> x = y) l1 -> forall l2, all2 eqb l1 l2 = true -> l1 = l2.
Proof.
  induction 1 as [|x r Hx _ IH]; intros [|y r2] H; cbn [all2] in H; try discriminate; [reflexivity|].
  apply andb_true_iff in H as [H1 H2]. now rewrite (Hx y H1), (IH r2 H2).
Qed.

Lemma fkind_eqb_eq a b : fkind_eqb a b = true -> a = b.
Proof.
  destruct a as [|t d], b as [|t' d']; cbn; try discriminate; [reflexivity|].
  intros H. apply andb_true_iff in H as [H1 H2]. apply String.eqb_eq in H1, H2. now subst.
Qed.

Lemma value_eqb_eq a : forall b, value_eqb a b = true -> a = b.
Proof.
  induction a as [t r|d IH|c fs IH] using value_ind'; intros [t' r'|d'|c' fs'] H; cbn [value_eqb] in H; try discriminate.
  - apply andb_true_iff in H as [H1 H2]. apply String.eqb_eq in H1, H2. now subst.
  - f_equal. eapply all2_eq; [|exact H]. eapply Forall_impl; [|exact IH].
    intros [k x] Hx [k' x'] E. cbn [fst snd] in *. apply andb_true_iff in E as [E1 E2].
    apply String.eqb_eq in E1. subst. now rewrite (Hx x' E2).
  - apply andb_true_iff in H as [H1 H2]. apply String.eqb_eq in H1. subst. f_equal.
    eapply all2_eq; [|exact H2]. eapply Forall_impl; [|exact IH].
    intros [[n k] x] Hx [[n' k'] x'] E. cbn [fname fknd fval fst snd] in *.
    apply andb_true_iff in E as [E E3]. apply andb_true_iff in E as [E1 E2].
    apply String.eqb_eq in E1. apply fkind_eqb_eq in E2. subst. now rewrite (Hx x' E3).
Qed.

(* ====================================================================== *)
(* the statements, about the model instantiated with the regenerated facts  *)
(* ====================================================================== *)
Lemma gen_is_ref o cs : wf_obj o = true -> deep_nf cs = true -> replace_gen o cs = replace_ref o cs.
Proof. intros W D. change (replace_gen o cs) with (replace F0 o cs). now apply model_ref. Qed.

Theorem gen_meets_spec o cs : wf_obj o = true -> deep_nf cs = true -> frame_check o cs (replace_gen o cs) = true.
Proof. intros W D. rewrite (gen_is_ref o cs W D). now apply ref_meets_spec. Qed.

Theorem gen_frame_addressed o cs o' q v : wf_obj o = true -> deep_nf cs = true ->
  replace_gen o cs = Ok o' -> In (q, v) (assigns o cs) -> get o' q = Some v.
Proof. intros W D. rewrite (gen_is_ref o cs W D). now apply addressed. Qed.

(* every other LEAF (reached through init fields, not addressed, not inside a replaced member) equals the original *)
Theorem gen_frame_other_leaf o cs o' p x : wf_obj o = true -> deep_nf cs = true ->
  replace_gen o cs = Ok o' -> untouched (assigns o cs) p = true ->
  get o p = Some x -> is_dc x = false -> get o' p = Some x.
Proof.
  intros W D. rewrite (gen_is_ref o cs W D). intros R U G L.
  assert (S := untouched_same o cs o' p W D R U). rewrite G in S.
  destruct x as [t r| d | c f]; [| |discriminate]; cbn [node_same] in S;
    destruct (get o' p) as [[t' r'| d' | c' f']|]; try discriminate; apply value_eqb_eq in S; now rewrite S.
Qed.

(* every other NODE keeps its class and its fields *)
Theorem gen_frame_other_node o cs o' p : wf_obj o = true -> deep_nf cs = true ->
  replace_gen o cs = Ok o' -> untouched (assigns o cs) p = true -> node_same (get o p) (get o' p) = true.
Proof. intros W D. rewrite (gen_is_ref o cs W D). now apply untouched_same. Qed.

Theorem gen_nil cls fs : replace_gen (VDc cls fs) [] = Ok (VDc cls (reset_noninit fs)).
Proof. exact (replace_nil cls fs). Qed.

Theorem gen_nil_identity cls fs : noninit_at_default fs = true -> replace_gen (VDc cls fs) [] = Ok (VDc cls fs).
Proof. intros H. rewrite gen_nil. now rewrite (reset_at_default fs H). Qed.

Theorem gen_forms o cs : wf_nested cs = true -> replace_gen o (flatten_join_gen cs) = replace_gen o cs.
Proof. exact (replace_forms o cs). Qed.

Theorem gen_dotted_any_level o ch :
  replace_gen o ch = bind (unflatten_split_gen ch) (fun n => replace_gen o n).
Proof. exact (replace_unflatten o ch). Qed.

Theorem gen_unflatten_flatten cs : wf_nested cs = true -> unflatten_split_gen (flatten_join_gen cs) = Ok cs.
Proof. exact (forms_roundtrip cs). Qed.

Theorem gen_keyword o cs : replace_call_gen o None cs = replace_call_gen o (Some cs) [].
Proof. exact (keyword_form facts_gen o cs). Qed.

Theorem gen_keyword_is_replace o cs : replace_call_gen o None cs = replace_gen o cs.
Proof. reflexivity. Qed.

Theorem gen_both_rejected o x r y k : exists c, replace_call_gen o (Some (x :: r)) (y :: k) = Err (Raise c).
Proof. eexists. reflexivity. Qed.

Theorem gen_levelwise o cs : wf_obj o = true -> deep_nf cs = true -> agree (replace_gen o cs) (levelwise o cs).
Proof. intros W D. rewrite (gen_is_ref o cs W D). now apply levelwise_agree. Qed.

Theorem gen_errors o cs : wf_obj o = true -> deep_nf cs = true ->
  must_raise o cs = true -> exists c, replace_gen o cs = Err (Raise c).
Proof.
  intros W D M. rewrite (gen_is_ref o cs W D). assert (K := ok_iff_not_must_raise o cs W D). rewrite M in K.
  destruct (replace_ref o cs) as [o'|e] eqn:R; [discriminate|]. destruct (replace_ref_err _ _ _ R) as [c ->]. eauto.
Qed.

Theorem gen_total o cs : wf_obj o = true -> deep_nf cs = true ->
  must_raise o cs = false -> exists o', replace_gen o cs = Ok o'.
Proof.
  intros W D M. rewrite (gen_is_ref o cs W D). assert (K := ok_iff_not_must_raise o cs W D). rewrite M in K.
  destruct (replace_ref o cs) as [o'|e]; [eauto | discriminate].
Qed.

(* the top-level reading of "raise instead of being ignored": a key that is not an init field of obj *)
Theorem gen_errors_top cls fs cs k x : wf_obj (VDc cls fs) = true -> deep_nf cs = true ->
  In (k, x) cs -> has_init_field fs k = false -> exists c, replace_gen (VDc cls fs) cs = Err (Raise c).
Proof.
  intros W D Hin Hk. apply gen_errors; [exact W | exact D|]. rewrite must_raise_dc. apply existsb_exists.
  exists (k, x). split; [exact Hin|]. unfold bad_entry, child. cbn [fst snd]. unfold has_init_field in Hk.
  destruct (flookup fs k) as [[[|t d] v]|]; [discriminate | reflexivity | reflexivity].
Qed.

(* ====================================================================== *)
(* replace_subgroups: swaps exactly the selected members, at any depth      *)
(* ====================================================================== *)
Definition SF1 : sfacts :=
  mksfacts "__key__" "."%char false "ValueError" "ValueError" "ValueError" true true "ValueError".
(* the three repaired behaviours are regenerated facts: the init=False test comes after the `continue`, a dict
   selection without the keyword keeps the current member, left-over selections raise *)
Lemma sfacts_are_expected : sfacts_gen = SF1.
Proof. reflexivity. Qed.

Theorem sub_nil T fuel o : rsub_gen T (S fuel) o None = Ok o /\ rsub_gen T (S fuel) o (Some []) = Ok o.
Proof. split; reflexivity. Qed.

Section StreeInd.
  Variable P : stree -> Prop.
  Hypothesis Hnode : forall own kids, Forall (fun kt => P (snd kt)) kids -> P (SNode own kids).
  Fixpoint stree_ind' (t : stree) : P t :=
    match t with
    | SNode own kids =>
        Hnode own kids ((fix go (l : forest) : Forall (fun kt => P (snd kt)) l :=
                           match l with
                           | [] => Forall_nil _
                           | kt :: r => Forall_cons kt (stree_ind' (snd kt)) (go r)
                           end) kids)
    end.
End StreeInd.

Definition obind {A B} (a : option A) (f : A -> option B) : option B := match a with Some x => f x | None => None end.

(* ---------- field update (first init field of that name) ---------- *)
Fixpoint updf (l : list field) (k : string) (v : value) : list field :=
  match l with
  | [] => []
  | f :: r => if String.eqb k (fname f)
              then match fknd f with FInit => (fname f, FInit, v) :: r | FNonInit _ _ => f :: r end
              else f :: updf r k v
  end.

Lemma update_field_child k g fs cur : child fs k = Some cur -> update_field k g fs = option_map (updf fs k) (g cur).
Proof.
  unfold child. induction fs as [|[[n kd] x] r IH]; cbn [flookup]; [discriminate|].
  cbn [update_field updf fname fknd fval fst snd]. destruct (String.eqb k n) eqn:E.
  - destruct kd; [|discriminate]. intros H. injection H as ->. destruct (g cur); reflexivity.
  - intros H. rewrite (IH H). destruct (g cur); reflexivity.
Qed.

Lemma child_updf_same fs k v cur : child fs k = Some cur -> child (updf fs k v) k = Some v.
Proof.
  unfold child. induction fs as [|[[n kd] x] r IH]; cbn [flookup]; [discriminate|].
  cbn [updf fname fknd fst snd]. destruct (String.eqb k n) eqn:E.
  - destruct kd; [|discriminate]. intros _. cbn [flookup]. now rewrite E.
  - intros H. cbn [flookup]. rewrite E. exact (IH H).
Qed.

Lemma flookup_updf_other fs k v k' : k' <> k -> flookup (updf fs k v) k' = flookup fs k'.
Proof.
  intros Hne. induction fs as [|[[n kd] x] r IH]; [reflexivity|].
  cbn [updf fname fknd fst snd]. destruct (String.eqb k n) eqn:E.
  - apply String.eqb_eq in E. subst n. destruct kd; [|reflexivity]. cbn [flookup].
    destruct (String.eqb k' k) eqn:E2; [apply String.eqb_eq in E2; congruence | reflexivity].
  - cbn [flookup]. now rewrite IH.
Qed.

Lemma child_updf_other fs k v k' : k' <> k -> child (updf fs k v) k' = child fs k'.
Proof. intros H. unfold child. now rewrite flookup_updf_other. Qed.

Lemma updf_updf fs k v v' : updf (updf fs k v) k v' = updf fs k v'.
Proof.
  induction fs as [|[[n kd] x] r IH]; [reflexivity|]. cbn [updf fname fknd fst snd].
  destruct (String.eqb k n) eqn:E.
  - destruct kd; cbn [updf fname fknd fst snd]; rewrite E; reflexivity.
  - cbn [updf fname fknd fst snd]. now rewrite E, IH.
Qed.

Lemma updf_same fs k cur : child fs k = Some cur -> updf fs k cur = fs.
Proof.
  unfold child. induction fs as [|[[n kd] x] r IH]; cbn [flookup]; [discriminate|].
  cbn [updf fname fknd fst snd]. destruct (String.eqb k n) eqn:E.
  - destruct kd; [|discriminate]. intros H. now injection H as ->.
  - intros H. now rewrite (IH H).
Qed.

Lemma has_field_updf fs k v k' : has_field (updf fs k v) k' = has_field fs k'.
Proof.
  unfold has_field. induction fs as [|[[n kd] x] r IH]; [reflexivity|]. cbn [updf fname fknd fst snd].
  destruct (String.eqb k n) eqn:E.
  - destruct kd; cbn [flookup]; destruct (String.eqb k' n); reflexivity.
  - cbn [flookup]. destruct (String.eqb k' n); [reflexivity | exact IH].
Qed.

(* ---------- the recursive reading of a forest ---------- *)
Section Rexp.
  Variable T : tables.
  Section Items.
    Variable rec : stree -> string -> string -> value -> option value.
    Fixpoint rexp_items (l : forest) (o : value) : option value :=
      match l with
      | [] => Some o
      | kt :: r =>
          match o with
          | VDc cls fs =>
              match child fs (fst kt) with
              | Some cur => obind (rec (snd kt) cls (fst kt) cur) (fun v => rexp_items r (VDc cls (updf fs (fst kt) v)))
              | None => None
              end
          | _ => None
          end
      end.
  End Items.
  Fixpoint rexp_tree (t : stree) (cls k : string) (cur : value) : option value :=
    match t with
    | SNode own kids =>
        obind (match own with Some c => member_of T cls k c | None => Some cur end) (rexp_items rexp_tree kids)
    end.
  Definition rexp := rexp_items rexp_tree.

  Lemma expected_sub_app A : forall B o,
    expected_sub T (A ++ B)%list o = obind (expected_sub T A o) (expected_sub T B).
  Proof.
    induction A as [|[p c] A IH]; intros B o; [reflexivity|]. cbn [expected_sub app].
    destruct (split_last p) as [[q name]|]; [|reflexivity].
    destruct (get o q) as [[| |cls fs]|]; try reflexivity.
    destruct (child fs name); [|reflexivity]. destruct (member_of T cls name c); [|reflexivity].
    destruct (set_path p v0 o); [apply IH | reflexivity].
  Qed.

  Lemma split_last_cons k a p :
    split_last (k :: a :: p) = match split_last (a :: p) with Some (q, l) => Some (k :: q, l) | None => None end.
  Proof. reflexivity. Qed.

  Lemma set_path_cons k r m cls fs :
    set_path (k :: r) m (VDc cls fs) = option_map (VDc cls) (update_field k (set_path r m) fs).
  Proof. reflexivity. Qed.

  (* selections under a common first step act on the member reached by that step *)
  Lemma push_down cls k S : forall fs m,
    child fs k = Some m -> Forall (fun pc => fst pc <> []) S ->
    expected_sub T (map (fun pc => (k :: fst pc, snd pc)) S) (VDc cls fs) =
    option_map (fun m' => VDc cls (updf fs k m')) (expected_sub T S m).
  Proof.
    induction S as [|[p c] S IH]; intros fs m Hc Hne.
    - cbn. now rewrite (updf_same _ _ _ Hc).
    - inversion Hne as [|? ? Hp Hr]; subst. cbn [fst] in Hp. destruct p as [|a p]; [congruence|].
      cbn [map expected_sub fst snd]. rewrite split_last_cons.
      destruct (split_last (a :: p)) as [[q name]|]; [|reflexivity].
      cbn [get]. rewrite Hc.
      destruct (get m q) as [[| |cls' fs']|]; try reflexivity.
      destruct (child fs' name); [|reflexivity]. destruct (member_of T cls' name c) as [mm|]; [|reflexivity].
      rewrite set_path_cons, (update_field_child k _ fs m Hc).
      destruct (set_path (a :: p) mm m) as [m2|] eqn:SP; cbn [option_map]; [|reflexivity].
      rewrite (IH (updf fs k m2) m2 (child_updf_same _ _ _ _ Hc) Hr).
      destruct (expected_sub T S m2); cbn [option_map]; [now rewrite updf_updf | reflexivity].
  Qed.
End Rexp.

(* ---------- well-formed selection trees: the nested form with plain keys ---------- *)
Definition key_ok (kw k : string) : bool := nodot k && negb (String.eqb k kw).
Definition nonempty_node (own : option choice) (kids : forest) : bool :=
  match own, kids with None, [] => false | _, _ => true end.
Fixpoint tree_ok (kw : string) (t : stree) : bool :=
  match t with
  | SNode own kids =>
      nonempty_node own kids &&
      (str_nodupb (map fst kids) && forallb (key_ok kw) (map fst kids) && forallb (fun kt => tree_ok kw (snd kt)) kids)
  end.
Definition forest_ok (kw : string) (F : forest) : bool :=
  str_nodupb (map fst F) && forallb (key_ok kw) (map fst F) && forallb (fun kt => tree_ok kw (snd kt)) F.

Lemma tree_ok_node kw own kids : tree_ok kw (SNode own kids) = nonempty_node own kids && forest_ok kw kids.
Proof. reflexivity. Qed.

Lemma forest_ok_cons kw k t r : forest_ok kw ((k, t) :: r) = true ->
  ~ In k (map fst r) /\ key_ok kw k = true /\ tree_ok kw t = true /\ forest_ok kw r = true.
Proof.
  unfold forest_ok. cbn [map fst snd str_nodupb forallb]. intros H.
  apply andb_true_iff in H as [H H3]. apply andb_true_iff in H as [H1 H2].
  apply andb_true_iff in H1 as [H1a H1b]. apply andb_true_iff in H2 as [H2a H2b]. apply andb_true_iff in H3 as [H3a H3b].
  apply negb_true_iff, str_in_false in H1a. repeat split; try assumption. now rewrite H1b, H2b, H3b.
Qed.

Lemma paths_forest_cons k t (r : forest) :
  paths_forest ((k, t) :: r) = (map (fun pc => (k :: fst pc, snd pc)) (paths_tree t) ++ paths_forest r)%list.
Proof. reflexivity. Qed.

Lemma paths_tree_node own kids :
  paths_tree (SNode own kids) = ((match own with Some c => [([], c)] | None => [] end) ++ paths_forest kids)%list.
Proof. reflexivity. Qed.

Lemma paths_forest_nonempty_paths F : Forall (fun pc => fst pc <> []) (paths_forest F).
Proof.
  induction F as [|[k t] r IH]; [constructor|]. rewrite paths_forest_cons. apply Forall_app. split; [|exact IH].
  apply Forall_forall. intros pc H. apply in_map_iff in H as [pc' [<- _]]. discriminate.
Qed.

Lemma paths_tree_nonempty kw t : tree_ok kw t = true -> paths_tree t <> [].
Proof.
  induction t as [own kids IH] using stree_ind'. rewrite tree_ok_node, paths_tree_node. intros H.
  apply andb_true_iff in H as [Hn Hf]. destruct own as [c|]; [discriminate|].
  destruct kids as [|[k t] r]; [discriminate|]. apply forest_ok_cons in Hf as [_ [_ [Ht _]]].
  inversion IH as [|? ? Hk _]; subst. cbn [snd] in Hk. specialize (Hk Ht).
  cbn [app]. rewrite paths_forest_cons. destruct (paths_tree t); [congruence | discriminate].
Qed.

Lemma expected_sub_no_member T k p c rest o :
  match o with VDc _ fs => child fs k = None | _ => True end -> expected_sub T ((k :: p, c) :: rest) o = None.
Proof.
  intros H. cbn [expected_sub]. destruct p as [|a p].
  - cbn [split_last get]. destruct o as [| |cls fs]; try reflexivity. now rewrite H.
  - rewrite split_last_cons. destruct (split_last (a :: p)) as [[q name]|]; [|reflexivity].
    cbn [get]. destruct o as [| |cls fs]; try reflexivity. now rewrite H.
Qed.

Definition Pb (T : tables) (kw : string) (t : stree) : Prop :=
  tree_ok kw t = true -> forall cls fs k cur, child fs k = Some cur ->
  expected_sub T (map (fun pc => (k :: fst pc, snd pc)) (paths_tree t)) (VDc cls fs) =
  option_map (fun v => VDc cls (updf fs k v)) (rexp_tree T t cls k cur).

Lemma forest_b T kw F : Forall (fun kt => Pb T kw (snd kt)) F -> forest_ok kw F = true ->
  forall o, expected_sub T (paths_forest F) o = rexp T F o.
Proof.
  unfold rexp. induction F as [|[k t] r IH]; intros HP Hok o; [reflexivity|].
  inversion HP as [|? ? Ht Hr]; subst. cbn [snd] in Ht.
  apply forest_ok_cons in Hok as [_ [_ [Htok Hrok]]].
  rewrite paths_forest_cons, expected_sub_app. cbn [rexp_items fst snd].
  assert (Hne := paths_tree_nonempty kw t Htok).
  assert (Fail : match o with VDc _ fs => child fs k = None | _ => True end ->
                 expected_sub T (map (fun pc => (k :: fst pc, snd pc)) (paths_tree t)) o = None).
  { intros H. destruct (paths_tree t) as [|[p c] rest]; [congruence|]. cbn [map fst snd].
    now apply expected_sub_no_member. }
  destruct o as [ty rp| d | cls fs]; try (rewrite Fail by exact I; reflexivity).
  destruct (child fs k) as [cur|] eqn:C; [|rewrite Fail by reflexivity; reflexivity].
  rewrite (Ht Htok cls fs k cur C).
  destruct (rexp_tree T t cls k cur) as [v|]; cbn [option_map obind]; [|reflexivity].
  apply (IH Hr Hrok).
Qed.

Lemma tree_b T kw t : Pb T kw t.
Proof.
  induction t as [own kids IH] using stree_ind'. unfold Pb. rewrite tree_ok_node. intros Hok cls fs k cur C.
  apply andb_true_iff in Hok as [_ Hf].
  assert (Fb := forest_b T kw kids IH Hf).
  rewrite paths_tree_node, map_app, expected_sub_app. cbn [rexp_tree].
  assert (Down : forall fs0 m, child fs0 k = Some m ->
            expected_sub T (map (fun pc => (k :: fst pc, snd pc)) (paths_forest kids)) (VDc cls fs0) =
            option_map (fun m' => VDc cls (updf fs0 k m')) (rexp_items (rexp_tree T) kids m)).
  { intros fs0 m Hc. rewrite (push_down T cls k _ fs0 m Hc (paths_forest_nonempty_paths kids)). now rewrite Fb. }
  destruct own as [c|].
  - cbn [map fst snd expected_sub split_last get]. rewrite C.
    destruct (member_of T cls k c) as [m|]; cbn [obind]; [|reflexivity].
    rewrite set_path_cons, (update_field_child k _ fs cur C). cbn [set_path option_map obind].
    rewrite (Down (updf fs k m) m (child_updf_same _ _ _ _ C)).
    destruct (rexp_items (rexp_tree T) kids m); cbn [option_map]; [now rewrite updf_updf | reflexivity].
  - cbn [map expected_sub obind]. apply (Down fs cur C).
Qed.

(* (b) what the executable spec computes on the abstract reading of a forest is the recursive reading *)
Theorem spec_is_rexp T kw F o : forest_ok kw F = true -> expected_sub T (paths_forest F) o = rexp T F o.
Proof. intros H. apply (forest_b T kw F); [|exact H]. apply Forall_forall. intros kt _. apply tree_b. Qed.

(* ---------- (a) the model on the nested rendering = the recursive reading ---------- *)
Definition KW : string := "__key__".

Fixpoint tget (F : forest) (k : string) : option stree :=
  match F with [] => None | (k', t) :: r => if String.eqb k k' then Some t else tget r k end.

(* all fields at once, in field order *)
Definition simul_f (T : tables) (F : forest) (cls : string) (f : field) : option field :=
  match tget F (fname f) with
  | None => Some f
  | Some t => match fknd f with
              | FInit => option_map (fun v => (fname f, FInit, v)) (rexp_tree T t cls (fname f) (fval f))
              | FNonInit _ _ => None
              end
  end.
Fixpoint simul (T : tables) (F : forest) (cls : string) (l : list field) : option (list field) :=
  match l with
  | [] => Some []
  | f :: r => obind (simul_f T F cls f) (fun y => obind (simul T F cls r) (fun ys => Some (y :: ys)))
  end.

Lemma simul_nil T cls l : simul T [] cls l = Some l.
Proof. induction l as [|f r IH]; [reflexivity|]. cbn [simul]. unfold simul_f. cbn [tget obind]. now rewrite IH. Qed.

Lemma tget_none F k : ~ In k (map fst F) -> tget F k = None.
Proof.
  induction F as [|[k' t] r IH]; [reflexivity|]. cbn [map fst tget]. intros H.
  destruct (String.eqb k k') eqn:E; [apply String.eqb_eq in E; subst; exfalso; apply H; now left|].
  apply IH. intros Hin. apply H. now right.
Qed.

Lemma names_updf fs k v : map fname (updf fs k v) = map fname fs.
Proof.
  induction fs as [|[[n kd] x] r IH]; [reflexivity|]. cbn [updf fname fknd fst snd].
  destruct (String.eqb k n); [destruct kd; reflexivity | cbn [map]; now rewrite IH].
Qed.

Lemma simul_other T k t r cls l : ~ In k (map fname l) -> simul T ((k, t) :: r) cls l = simul T r cls l.
Proof.
  induction l as [|f l IH]; [reflexivity|]. cbn [map]. intros H. cbn [simul].
  rewrite IH by (intros Hin; apply H; now right).
  assert (E : simul_f T ((k, t) :: r) cls f = simul_f T r cls f).
  { unfold simul_f. cbn [tget]. destruct (String.eqb (fname f) k) eqn:E; [|reflexivity].
    apply String.eqb_eq in E. exfalso. apply H. now left. }
  now rewrite E.
Qed.

Lemma simul_cons T k t r cls fs cur :
  NoDup (map fname fs) -> ~ In k (map fst r) -> child fs k = Some cur ->
  simul T ((k, t) :: r) cls fs = obind (rexp_tree T t cls k cur) (fun v => simul T r cls (updf fs k v)).
Proof.
  intros N Hk. unfold child. induction fs as [|[[n kd] x] l IH]; cbn [flookup]; [discriminate|].
  inversion N as [|? ? Hn Nl]; subst. cbn [map fname fst] in Hn.
  cbn [simul updf fname fknd fval fst snd]. destruct (String.eqb k n) eqn:E.
  - apply String.eqb_eq in E. subst n. destruct kd; [|discriminate]. intros H. injection H as ->.
    unfold simul_f at 1. cbn [tget fname fknd fval fst snd]. rewrite String.eqb_refl.
    rewrite (simul_other T k t r cls l Hn).
    destruct (rexp_tree T t cls k cur) as [v|]; cbn [option_map obind]; [|reflexivity].
    cbn [simul]. unfold simul_f. cbn [fname fst]. rewrite (tget_none r k Hk). reflexivity.
  - intros H. rewrite (IH Nl H). cbn [simul].
    assert (Ef : simul_f T ((k, t) :: r) cls (n, kd, x) = simul_f T r cls (n, kd, x)).
    { unfold simul_f. cbn [tget fname fst]. rewrite String.eqb_sym, E. reflexivity. }
    rewrite Ef. destruct (simul_f T r cls (n, kd, x)); destruct (rexp_tree T t cls k cur); reflexivity.
Qed.

Lemma simul_noninit_selected T F cls l n t d v tr :
  In (n, FNonInit t d, v) l -> NoDup (map fname l) -> tget F n = Some tr -> simul T F cls l = None.
Proof.
  induction l as [|f l IH]; intros Hin N G; [destruct Hin|]. inversion N as [|? ? Hn Nl]; subst. cbn [simul].
  destruct Hin as [->|Hin].
  - unfold simul_f. cbn [fname fknd fst snd]. now rewrite G.
  - rewrite (IH Hin Nl G). destruct (simul_f T F cls f); reflexivity.
Qed.

(* sequential (forest order) = simultaneous (field order), plus: every selected name is a field *)
Lemma rexp_simul T F : forall cls fs, NoDup (map fst F) -> NoDup (map fname fs) ->
  rexp T F (VDc cls fs) =
  if forallb (has_field fs) (map fst F) then option_map (VDc cls) (simul T F cls fs) else None.
Proof.
  unfold rexp. induction F as [|[k t] r IH]; intros cls fs NF N.
  - cbn. now rewrite simul_nil.
  - inversion NF as [|? ? Hk NFr]; subst. cbn [map fst forallb rexp_items snd].
    destruct (child fs k) as [cur|] eqn:C.
    + assert (Hf : has_field fs k = true).
      { unfold has_field. apply child_flookup in C. now rewrite C. }
      rewrite Hf, (simul_cons T k t r cls fs cur N Hk C). cbn [andb].
      destruct (rexp_tree T t cls k cur) as [v|]; cbn [obind].
      * rewrite IH; [| exact NFr | now rewrite names_updf].
        rewrite (forallb_ext_in (has_field (updf fs k v)) (has_field fs)); [reflexivity|].
        intros k' _. apply has_field_updf.
      * destruct (forallb (has_field fs) (map fst r)); reflexivity.
    + destruct (has_field fs k) eqn:Hf; [|reflexivity]. cbn [andb].
      unfold has_field in Hf. unfold child in C.
      destruct (flookup fs k) as [[[|ty d] v]|] eqn:Lk; try discriminate.
      rewrite (simul_noninit_selected T ((k, t) :: r) cls fs k ty d v t (flookup_In _ _ _ _ Lk) N).
      * destruct (forallb (has_field fs) (map fst r)); reflexivity.
      * cbn [tget]. now rewrite String.eqb_refl.
Qed.

(* ---------- side conditions ---------- *)
(* every dataclass in the tree: distinct field names, init=False fields at their defaults *)
Fixpoint vgood (v : value) : bool :=
  match v with
  | VDc _ fs => str_nodupb (map fname fs) && noninit_at_default fs && forallb (fun f => vgood (fval f)) fs
  | _ => true
  end.
Definition meta_good (m : fmeta) : bool :=
  forallb (fun kv => vgood (snd kv)) (m_subgroups m) && match m_factory m with Some v => vgood v | None => true end.
Definition tgood (T : tables) : bool :=
  forallb (fun cv => vgood (snd cv)) (t_classes T) && forallb (fun cm => meta_good (snd cm)) (t_meta T).
Fixpoint tree_good (t : stree) : bool :=
  match t with
  | SNode own kids =>
      match own with Some (CInst v) => vgood v | _ => true end && forallb (fun kt => tree_good (snd kt)) kids
  end.
Definition forest_good (F : forest) : bool := forallb (fun kt => tree_good (snd kt)) F.

(* a member that is not itself selected but has selections below it must be there (a dataclass instance, in a field
   whose annotation holds a dataclass); for a selected member the condition is about the member that is put there *)
Section Present.
  Variable T : tables.
  Section Items.
    Variable rec : stree -> string -> string -> value -> bool.
    Fixpoint present_items (l : forest) (o : value) : bool :=
      match l with
      | [] => true
      | kt :: r =>
          match o with
          | VDc cls fs => match child fs (fst kt) with Some cur => rec (snd kt) cls (fst kt) cur | None => true end
          | _ => true
          end && present_items r o
      end.
  End Items.
  Fixpoint present_tree (t : stree) (cls k : string) (cur : value) : bool :=
    match t with
    | SNode own kids =>
        match own with
        | None => is_dc cur && match meta_of (t_meta T) cls k with Some m => m_has_dc m | None => false end
                  && present_items present_tree kids cur
        | Some c => match member_of T cls k c with Some m => present_items present_tree kids m | None => true end
        end
    end.
  Definition present := present_items present_tree.
End Present.

Fixpoint depth_tree (t : stree) : nat :=
  match t with SNode _ kids => S (list_max (map (fun kt => depth_tree (snd kt)) kids)) end.
Definition depth_forest (F : forest) : nat := list_max (map (fun kt => depth_tree (snd kt)) F).

(* ---------- plumbing on the model side ---------- *)
Lemma sset_notin (d : sdict) k v : ~ In k (map fst d) -> sset d k v = (d ++ [(k, v)])%list.
Proof.
  induction d as [|[k' v'] r IH]; cbn [sset map fst]; intros H; [reflexivity|].
  destruct (String.eqb k k') eqn:E; [apply String.eqb_eq in E; subst; exfalso; apply H; now left|].
  cbn [app]. f_equal. apply IH. intros Hin. apply H. now right.
Qed.

Lemma sel_tops_plain (d : sdict) : forallb nodot (map fst d) = true -> sel_tops SF1 d = [].
Proof.
  unfold sel_tops. induction d as [|[k v] r IH]; [reflexivity|]. cbn [map fst forallb flat_map s_sep SF1].
  intros H. apply andb_true_iff in H as [Hk Hr]. unfold nodot in Hk. apply negb_true_iff in Hk.
  rewrite (split_on_nodot _ _ _ Hk). cbn [app]. exact (IH Hr).
Qed.

Lemma unflatten_selection_plain (d : sdict) :
  NoDup (map fst d) -> forallb nodot (map fst d) = true -> unflatten_selection SF1 d = d.
Proof.
  intros N D. unfold unflatten_selection. rewrite (sel_tops_plain d D). cbn [s_sep SF1].
  assert (G : forall (rest acc : sdict), NoDup (map fst acc ++ map fst rest) -> forallb nodot (map fst rest) = true ->
            fold_left (fun dc kv => match split_on "."%char (fst kv) "" with
                                    | top :: rest0 =>
                                        if str_in top [] then
                                          sset dc top (SDict match rest0 with
                                                             | [] => sset match sget dc top with Some (SDict s) => s | _ => [] end (s_keyword SF1) (snd kv)
                                                             | _ :: _ => sset match sget dc top with Some (SDict s) => s | _ => [] end (join_dot rest0) (snd kv)
                                                             end)
                                        else sset dc (fst kv) (snd kv)
                                    | [] => dc
                                    end) rest acc = (acc ++ rest)%list).
  { induction rest as [|[k v] r IH]; intros acc Na Dr; [now rewrite app_nil_r|].
    cbn [map fst forallb] in Dr. apply andb_true_iff in Dr as [Hk Hr]. unfold nodot in Hk. apply negb_true_iff in Hk.
    cbn [fold_left fst snd]. rewrite (split_on_nodot _ _ _ Hk). cbn [str_in existsb].
    assert (Hn : ~ In k (map fst acc)).
    { cbn [map fst] in Na. apply NoDup_remove_2 in Na. intros H. apply Na. apply in_or_app. now left. }
    rewrite (sset_notin acc k v Hn), IH; [now rewrite <- app_assoc | | exact Hr].
    rewrite map_app. cbn [map fst app]. rewrite <- app_assoc. exact Na. }
  exact (G d [] N D).
Qed.

Lemma sget_render F k : sget (render_forest KW F) k = option_map (render_tree KW) (tget F k).
Proof.
  induction F as [|[k' t] r IH]; [reflexivity|]. cbn [render_forest map fst snd sget tget].
  destruct (String.eqb k k'); [reflexivity | exact IH].
Qed.

Lemma leftover_render fs F :
  match sel_leftover fs (render_forest KW F) with [] => false | _ => true end
  = negb (forallb (has_field fs) (map fst F)).
Proof.
  unfold sel_leftover. induction F as [|[k t] r IH]; [reflexivity|]. cbn [render_forest map fst snd filter forallb].
  destruct (has_field fs k); cbn [negb andb]; [exact IH | reflexivity].
Qed.

Lemma keys_render F : map fst (render_forest KW F) = map fst F.
Proof. unfold render_forest. rewrite map_map. reflexivity. Qed.

Lemma sget_kids_kw (kids : forest) : forallb (key_ok KW) (map fst kids) = true -> sget (render_forest KW kids) KW = None.
Proof.
  induction kids as [|[k t] r IH]; [reflexivity|]. cbn [render_forest map fst snd forallb sget]. intros H.
  apply andb_true_iff in H as [Hk Hr]. unfold key_ok in Hk. apply andb_true_iff in Hk as [_ Hk].
  apply negb_true_iff in Hk. rewrite String.eqb_sym, Hk. exact (IH Hr).
Qed.

Lemma sremove_kids_kw (kids : forest) : forallb (key_ok KW) (map fst kids) = true ->
  sremove (render_forest KW kids) KW = render_forest KW kids.
Proof.
  unfold sremove. induction kids as [|[k t] r IH]; [reflexivity|]. cbn [render_forest map fst snd forallb filter]. intros H.
  apply andb_true_iff in H as [Hk Hr]. unfold key_ok in Hk. apply andb_true_iff in Hk as [_ Hk].
  rewrite Hk. f_equal. exact (IH Hr).
Qed.

(* the chain of replace_subgroups picks the member the choice denotes, or raises *)
Lemma resolve_member T cls name c m :
  meta_of (t_meta T) cls name = Some m -> m_has_dc m = true ->
  match member_of T cls name c with
  | Some v => resolve SF1 T m (sel_of_choice c) = Ok v
  | None => exists x, resolve SF1 T m (sel_of_choice c) = Err (Raise x)
  end.
Proof.
  intros Hm Hdc. unfold member_of. rewrite Hm, Hdc. cbn [negb].
  destruct c as [k|c'|v|]; cbn [sel_of_choice resolve].
  - destruct (m_subgroups m) as [|e r] eqn:Tb.
    + cbn [dget is_snone andb]. rewrite !andb_false_r. eexists. reflexivity.
    + destruct (dget (e :: r) k); [reflexivity | eexists; reflexivity].
  - destruct (dget (t_classes T) c'); [reflexivity | eexists; reflexivity].
  - reflexivity.
  - destruct (m_subgroups m) as [|e r]; [|eexists; reflexivity].
    cbn [is_snone]. rewrite !andb_true_r, Hdc. destruct (m_optional m); [reflexivity|].
    destruct (m_factory m); [reflexivity | eexists; reflexivity].
Qed.

Lemma meta_of_In l cls k m : meta_of l cls k = Some m -> In (cls, k, m) l.
Proof.
  induction l as [|[[c n] m'] r IH]; cbn [meta_of]; [discriminate|].
  destruct (String.eqb c cls && String.eqb n k) eqn:E.
  - apply andb_true_iff in E as [E1 E2]. apply String.eqb_eq in E1, E2. subst. intros H. injection H as ->. now left.
  - intros H. right. exact (IH H).
Qed.

Lemma member_good T cls k c m :
  tgood T = true -> match c with CInst v => vgood v | _ => true end = true ->
  member_of T cls k c = Some m -> vgood m = true.
Proof.
  unfold tgood, member_of. intros HT Hc. apply andb_true_iff in HT as [Hcl Hme].
  rewrite forallb_forall in Hcl, Hme.
  destruct (meta_of (t_meta T) cls k) as [mt|] eqn:Hm; [|discriminate].
  apply meta_of_In in Hm. specialize (Hme _ Hm). cbn [snd] in Hme. unfold meta_good in Hme.
  apply andb_true_iff in Hme as [Hsg Hfa]. rewrite forallb_forall in Hsg.
  destruct (negb (m_has_dc mt)); [discriminate|].
  destruct c as [k'|c'|v|].
  - intros H. apply dget_In in H. exact (Hsg _ H).
  - intros H. apply dget_In in H. exact (Hcl _ H).
  - intros H. injection H as <-. exact Hc.
  - destruct (m_subgroups mt); [|discriminate]. destruct (m_optional mt); [intros H; now injection H as <-|].
    destruct (m_factory mt); [|discriminate]. intros H. now injection H as <-.
Qed.

(* what the loop computes for one selected init field *)
Definition fieldcomp (T : tables) (rec : value -> option sdict -> res value) (cls k : string) (cur : value)
           (selection : sel) : res value :=
  match meta_of (t_meta T) cls k with
  | None => Err (Raise "ModelMissingMeta")
  | Some m => if negb (m_has_dc m) then Err (Raise (s_nodc_err SF1)) else sfield SF1 T rec m cur selection
  end.

Definition field_claim (T : tables) (rec : value -> option sdict -> res value) (cls k : string) (cur : value)
           (t : stree) : Prop :=
  match rexp_tree T t cls k cur with
  | Some v => fieldcomp T rec cls k cur (render_tree KW t) = Ok v
  | None => exists x, fieldcomp T rec cls k cur (render_tree KW t) = Err (Raise x)
  end.

Lemma noninit_head n t d x r : noninit_at_default ((n, FNonInit t d, x) :: r) = true ->
  x = VLeaf t d /\ noninit_at_default r = true.
Proof.
  cbn [noninit_at_default forallb fknd fval fst snd]. intros H. apply andb_true_iff in H as [H1 H2].
  split; [|exact H2]. destruct x as [t' d'| |]; try discriminate. apply andb_true_iff in H1 as [E1 E2].
  apply String.eqb_eq in E1, E2. now subst.
Qed.

Lemma noninit_tail f r : noninit_at_default (f :: r) = true -> noninit_at_default r = true.
Proof. cbn [noninit_at_default forallb]. intros H. now apply andb_true_iff in H as [_ H]. Qed.

Lemma sloop_simul T rec cls F l :
  NoDup (map fname l) -> noninit_at_default l = true ->
  (forall name cur t, In (name, FInit, cur) l -> tget F name = Some t -> field_claim T rec cls name cur t) ->
  match simul T F cls l with
  | Some l' => exists kw_, sloop SF1 T rec cls (render_forest KW F) l = Ok kw_ /\
                 (forall k, In k (dkeys kw_) -> exists v, In (k, FInit, v) l) /\ dc_fields l kw_ = Ok l'
  | None => exists x, sloop SF1 T rec cls (render_forest KW F) l = Err (Raise x)
  end.
Proof.
  induction l as [|[[n kd] x] r IH]; intros N ND H.
  - cbn. exists []. split; [reflexivity|]. split; [intros k0 [] | reflexivity].
  - inversion N as [|? ? Hn Nr]; subst. cbn [map fname fst] in Hn.
    assert (IHr := IH Nr (noninit_tail _ _ ND) (fun name cur t Hin => H name cur t (or_intror Hin))). clear IH.
    cbn [simul sloop fname fknd fval fst snd]. cbn [SF1 s_noninit_first andb].
    rewrite sget_render. unfold simul_f. cbn [fname fknd fval fst snd].
    destruct (tget F n) as [t|] eqn:G; cbn [option_map obind].
    + destruct kd as [|ty d]; cbn [is_noninit].
      * assert (C := H n x t (or_introl eq_refl) G). unfold field_claim in C.
        assert (Br : forall (kont : value -> res dict),
                  match meta_of (t_meta T) cls n with
                  | None => Err (Raise "ModelMissingMeta")
                  | Some m => if negb (m_has_dc m) then Err (Raise (s_nodc_err SF1))
                              else bind (sfield SF1 T rec m x (render_tree KW t)) kont
                  end = bind (fieldcomp T rec cls n x (render_tree KW t)) kont).
        { intros kont. unfold fieldcomp. destruct (meta_of (t_meta T) cls n) as [m|]; [|reflexivity].
          destruct (negb (m_has_dc m)); reflexivity. }
        rewrite Br. clear Br.
        destruct (rexp_tree T t cls n x) as [v|]; cbn [option_map obind].
        -- rewrite C. cbn [bind]. destruct (simul T F cls r) as [r'|]; cbn [obind].
           ++ destruct IHr as [kw_ [SL [Kk DF]]]. exists ((n, v) :: kw_). rewrite SL. cbn [bind]. split; [reflexivity|]. split.
              ** intros k [<-|Hk]; [exists x; now left | destruct (Kk k Hk) as [v0 Hv0]; exists v0; now right].
              ** cbn [dc_fields dget]. rewrite String.eqb_refl, (dc_fields_skip r n v kw_ Hn), DF. reflexivity.
           ++ destruct IHr as [e SL]. exists e. rewrite SL. reflexivity.
        -- destruct C as [e C]. exists e. rewrite C. reflexivity.
      * eexists. reflexivity.
    + destruct (simul T F cls r) as [r'|]; cbn [obind].
      * destruct IHr as [kw_ [SL [Kk DF]]]. exists kw_. split; [exact SL|]. split.
        -- intros k Hk. destruct (Kk k Hk) as [v0 Hv0]. exists v0. now right.
        -- assert (Hkn : ~ In n (dkeys kw_)).
           { intros Hin. destruct (Kk n Hin) as [v0 Hv0]. apply Hn. apply (in_map fname) in Hv0. exact Hv0. }
           destruct kd as [|ty d]; cbn [dc_fields].
           ++ apply dget_none in Hkn. rewrite Hkn, DF. reflexivity.
           ++ unfold dhas. apply dget_none in Hkn. rewrite Hkn, DF. cbn [bind].
              destruct (noninit_head _ _ _ _ _ ND) as [-> _]. reflexivity.
      * destruct IHr as [e SL]. exists e. exact SL.
Qed.

Definition forest_claim (T : tables) (F : forest) : Prop :=
  forall fuel o, forest_ok KW F = true -> forest_good F = true -> tgood T = true -> vgood o = true ->
    present T F o = true -> depth_forest F < fuel ->
    match rexp T F o with
    | Some e => rsub SF1 T fuel o (Some (render_forest KW F)) = Ok e
    | None => exists x, rsub SF1 T fuel o (Some (render_forest KW F)) = Err (Raise x)
    end.

Definition tree_claim (T : tables) (t : stree) : Prop :=
  forall fuel cls k cur, tree_ok KW t = true -> tree_good t = true -> tgood T = true -> vgood cur = true ->
    present_tree T t cls k cur = true -> depth_tree t <= fuel ->
    field_claim T (rsub SF1 T fuel) cls k cur t.

Lemma list_max_le_in l x : In x l -> x <= list_max l.
Proof.
  induction l as [|y r IH]; [intros []|]. cbn [list_max]. intros [->|H]; [apply Nat.le_max_l|].
  etransitivity; [exact (IH H) | apply Nat.le_max_r].
Qed.

Lemma tget_In F k t : tget F k = Some t -> In (k, t) F.
Proof.
  induction F as [|[k' t'] r IH]; cbn [tget]; [discriminate|]. destruct (String.eqb k k') eqn:E.
  - apply String.eqb_eq in E. subst. intros H. injection H as ->. now left.
  - intros H. right. exact (IH H).
Qed.

Lemma present_items_In T F o k t : present T F o = true -> In (k, t) F ->
  match o with
  | VDc cls fs => match child fs k with Some cur => present_tree T t cls k cur = true | None => True end
  | _ => True
  end.
Proof.
  unfold present. induction F as [|[k' t'] r IH]; [intros _ []|]. cbn [present_items fst snd]. intros H Hin.
  apply andb_true_iff in H as [H1 H2]. destruct Hin as [E|Hin]; [injection E as -> ->|exact (IH H2 Hin)].
  destruct o as [| |cls fs]; try exact I. destruct (child fs k); [exact H1 | exact I].
Qed.

Lemma forest_a T F : Forall (fun kt => tree_claim T (snd kt)) F -> forest_claim T F.
Proof.
  intros HT fuel o Hok Hg HTg Ho Hp Hd. destruct fuel as [|fuel]; [inversion Hd|].
  destruct F as [|[k0 t0] F0] eqn:EF; [reflexivity|]. rewrite <- EF in *.
  assert (Hne : render_forest KW F = (k0, render_tree KW t0) :: render_forest KW F0) by (now rewrite EF).
  cbn [rsub]. rewrite Hne. rewrite <- Hne.
  destruct o as [ty rp| d | cls fs].
  - rewrite EF. cbn. eexists. reflexivity.
  - rewrite EF. cbn. eexists. reflexivity.
  - assert (Hok' := Hok). unfold forest_ok in Hok'. apply andb_true_iff in Hok' as [Hok1 Htrees].
    apply andb_true_iff in Hok1 as [Hnd Hkeys]. apply str_nodupb_NoDup in Hnd.
    cbn [vgood] in Ho. apply andb_true_iff in Ho as [Ho1 Hvals]. apply andb_true_iff in Ho1 as [Hnames Hdef].
    apply nodup_names in Hnames. rewrite forallb_forall in Hvals, Htrees.
    unfold forest_good in Hg. rewrite forallb_forall in Hg. rewrite Forall_forall in HT.
    rewrite (unflatten_selection_plain (render_forest KW F)).
    2:{ now rewrite keys_render. }
    2:{ rewrite keys_render. rewrite forallb_forall in Hkeys |- *. intros k Hk. specialize (Hkeys k Hk).
        unfold key_ok in Hkeys. now apply andb_true_iff in Hkeys as [Hkeys _]. }
    rewrite (rexp_simul T F cls fs Hnd Hnames).
    assert (SS := sloop_simul T (rsub SF1 T fuel) cls F fs Hnames Hdef).
    assert (Claims : forall name cur t, In (name, FInit, cur) fs -> tget F name = Some t ->
                      field_claim T (rsub SF1 T fuel) cls name cur t).
    { intros name cur t Hin G. apply tget_In in G.
      apply (HT _ G); cbn [snd].
      - exact (Htrees _ G).
      - exact (Hg _ G).
      - exact HTg.
      - exact (Hvals _ Hin).
      - assert (Pr := present_items_In T F (VDc cls fs) name t Hp G). cbn beta iota in Pr.
        rewrite (proj2 (child_flookup fs name cur) (In_flookup _ _ _ _ Hnames Hin)) in Pr. exact Pr.
      - assert (Hle : depth_tree t <= depth_forest F).
        { unfold depth_forest. apply list_max_le_in. apply in_map_iff. exists (name, t). split; [reflexivity | exact G]. }
        lia. }
    specialize (SS Claims). rewrite leftover_render. cbn [SF1 s_leftover_check s_leftover_err andb].
    destruct (simul T F cls fs) as [l'|].
    + destruct SS as [kw_ [SL [Kk DF]]]. rewrite SL. cbn [bind].
      destruct (forallb (has_field fs) (map fst F)); cbn [negb option_map]; [|eexists; reflexivity].
      unfold dc_replace. rewrite DF. cbn [bind].
      assert (Hkw : forallb (fun kv => has_init_field fs (fst kv)) kw_ = true).
      { apply forallb_forall. intros [k v] Hin. cbn [fst]. destruct (Kk k) as [v0 Hv0].
        - apply (in_map fst) in Hin. exact Hin.
        - unfold has_init_field. now rewrite (In_flookup _ _ _ _ Hnames Hv0). }
      rewrite Hkw. reflexivity.
    + destruct SS as [e SL]. rewrite SL. cbn [bind].
      destruct (forallb (has_field fs) (map fst F)); exists e; reflexivity.
Qed.

Lemma tree_a T t : tree_claim T t.
Proof.
  induction t as [own kids IH] using stree_ind'.
  assert (FC := forest_a T kids IH). clear IH.
  intros fuel cls k cur Hok Hg HTg Hcur Hp Hd.
  rewrite tree_ok_node in Hok. apply andb_true_iff in Hok as [Hne Hfok].
  cbn [tree_good] in Hg. apply andb_true_iff in Hg as [Hown Hkg]. fold (forest_good kids) in Hkg.
  cbn [depth_tree] in Hd. fold (depth_forest kids) in Hd.
  assert (Hkeys : forallb (key_ok KW) (map fst kids) = true).
  { unfold forest_ok in Hfok. apply andb_true_iff in Hfok as [Hfok _]. now apply andb_true_iff in Hfok as [_ Hfok]. }
  (* the recursive call on the members below *)
  assert (Below : forall mm, vgood mm = true -> present T kids mm = true ->
            match rexp T kids mm with
            | Some e => rsub SF1 T fuel mm (Some (render_forest KW kids)) = Ok e
            | None => exists x, rsub SF1 T fuel mm (Some (render_forest KW kids)) = Err (Raise x)
            end).
  { intros mm Hmm Hpm. apply FC; assumption. }
  unfold field_claim, fieldcomp. cbn [rexp_tree present_tree] in *.
  destruct (meta_of (t_meta T) cls k) as [m|] eqn:Hm.
  2:{ destruct own as [c|].
      - unfold member_of. rewrite Hm. cbn [obind]. eexists. reflexivity.
      - rewrite andb_false_r in Hp. discriminate. }
  destruct (m_has_dc m) eqn:Hdc; cbn [negb].
  2:{ destruct own as [c|].
      - unfold member_of. rewrite Hm, Hdc. cbn [negb obind]. eexists. reflexivity.
      - rewrite andb_false_r in Hp. discriminate. }
  destruct own as [c|].
  - assert (RM := resolve_member T cls k c m Hm Hdc).
    destruct kids as [|kt r].
    + (* a bare choice *)
      cbn [render_tree]. unfold rexp in *. cbn [rexp_items].
      assert (E : sfield SF1 T (rsub SF1 T fuel) m cur (sel_of_choice c) = bind (resolve SF1 T m (sel_of_choice c)) (fun fv => Ok fv)).
      { destruct c; reflexivity. }
      rewrite E. destruct (member_of T cls k c) as [mm|]; cbn [obind].
      * now rewrite RM.
      * destruct RM as [x RM]. exists x. now rewrite RM.
    + (* the member itself and members below it *)
      cbn [render_tree]. fold (render_forest KW (kt :: r)).
      assert (E : sfield SF1 T (rsub SF1 T fuel) m cur (SDict ((KW, sel_of_choice c) :: render_forest KW (kt :: r))) =
                  bind (resolve SF1 T m (sel_of_choice c))
                       (fun fv => rsub SF1 T fuel fv (Some (render_forest KW (kt :: r))))).
      { unfold sfield. cbn [sget s_keyword SF1]. change "__key__" with KW. rewrite String.eqb_refl. cbn [andb].
        rewrite andb_false_r. cbn [andb]. unfold sremove. cbn [filter fst]. rewrite String.eqb_refl. cbn [negb].
        fold (sremove (render_forest KW (kt :: r)) KW). rewrite (sremove_kids_kw (kt :: r) Hkeys). reflexivity. }
      cbn [app]. rewrite E. clear E.
      destruct (member_of T cls k c) as [mm|] eqn:Mo; cbn [obind].
      * rewrite RM. cbn [bind]. apply Below; [|exact Hp].
        apply (member_good T cls k c mm HTg); [|exact Mo]. destruct c; try reflexivity. exact Hown.
      * destruct RM as [x RM]. exists x. now rewrite RM.
  - (* only members below: the current member is kept *)
    destruct kids as [|kt r]; [discriminate|].
    apply andb_true_iff in Hp as [Hp Hpk]. apply andb_true_iff in Hp as [Hisdc _].
    cbn [render_tree app obind]. fold (render_forest KW (kt :: r)).
    assert (E : sfield SF1 T (rsub SF1 T fuel) m cur (SDict (render_forest KW (kt :: r))) =
                rsub SF1 T fuel cur (Some (render_forest KW (kt :: r)))).
    { unfold sfield. cbn [s_keyword SF1 s_keep_member]. change "__key__" with KW.
      rewrite (sget_kids_kw (kt :: r) Hkeys), Hisdc. cbn [andb bind].
      rewrite (sremove_kids_kw (kt :: r) Hkeys). reflexivity. }
    rewrite E. apply Below; assumption.
Qed.

(* (a) *)
Theorem model_is_rexp T F fuel o :
  forest_ok KW F = true -> forest_good F = true -> tgood T = true -> vgood o = true ->
  present T F o = true -> depth_forest F < fuel ->
  match rexp T F o with
  | Some e => rsub SF1 T fuel o (Some (render_forest KW F)) = Ok e
  | None => exists x, rsub SF1 T fuel o (Some (render_forest KW F)) = Err (Raise x)
  end.
Proof. apply (forest_a T F). apply Forall_forall. intros kt _. apply tree_a. Qed.

(* replace_subgroups on the nested form of ANY selection forest, at any depth: the result is the object with exactly the
   selected paths assigned the members their choices denote (shallowest first), or the call raises when some selection
   denotes no member (unknown / init=False field, unknown key, a field that holds no dataclass) *)
Theorem sub_full T F fuel o :
  forest_ok KW F = true -> forest_good F = true -> tgood T = true -> vgood o = true ->
  present T F o = true -> depth_forest F < fuel ->
  match expected_sub T (paths_forest F) o with
  | Some e => rsub_gen T fuel o (Some (render_forest KW F)) = Ok e
  | None => exists x, rsub_gen T fuel o (Some (render_forest KW F)) = Err (Raise x)
  end.
Proof.
  intros Hok Hg HT Ho Hp Hd. rewrite (spec_is_rexp T KW F o Hok).
  change (rsub_gen T fuel) with (rsub SF1 T fuel). now apply model_is_rexp.
Qed.

(* what "assigned" means: the path holds the member, every path that neither leads to it nor lies below it is as before *)
Lemma update_field_some k g fs fs' : update_field k g fs = Some fs' ->
  exists cur x, child fs k = Some cur /\ g cur = Some x /\ fs' = updf fs k x.
Proof.
  unfold child. revert fs'. induction fs as [|[[n kd] y] r IH]; intros fs'; cbn [update_field]; [discriminate|].
  cbn [flookup updf fname fknd fval fst snd]. destruct (String.eqb k n) eqn:E.
  - destruct kd; [|discriminate]. destruct (g y) as [x|] eqn:G; [|discriminate]. cbn [option_map].
    intros H. injection H as <-. exists y, x. auto.
  - destruct (update_field k g r) as [r'|] eqn:U; [|discriminate]. cbn [option_map]. intros H. injection H as <-.
    destruct (IH r' eq_refl) as [cur [x [H1 [H2 H3]]]]. exists cur, x. subst. auto.
Qed.

Theorem set_path_get p : forall m o o', set_path p m o = Some o' -> get o' p = Some m.
Proof.
  induction p as [|k r IH]; intros m o o' H.
  - cbn in H. now injection H as <-.
  - destruct o as [| |cls fs]; try discriminate. rewrite set_path_cons in H.
    destruct (update_field k (set_path r m) fs) as [fs'|] eqn:U; [|discriminate]. injection H as <-.
    apply update_field_some in U as [cur [x [C [S ->]]]]. cbn [get].
    rewrite (child_updf_same _ _ _ _ C). exact (IH _ _ _ S).
Qed.

Theorem set_path_frame p : forall m o o' q, set_path p m o = Some o' ->
  is_prefix p q = false -> is_prefix q p = false -> get o' q = get o q.
Proof.
  induction p as [|k r IH]; intros m o o' q H P1 P2; [discriminate|].
  destruct q as [|k' q]; [discriminate|].
  destruct o as [| |cls fs]; try discriminate. rewrite set_path_cons in H.
  destruct (update_field k (set_path r m) fs) as [fs'|] eqn:U; [|discriminate]. injection H as <-.
  apply update_field_some in U as [cur [x [C [S ->]]]]. cbn [get is_prefix] in *.
  destruct (String.eqb k k') eqn:E.
  - apply String.eqb_eq in E. subst k'. rewrite String.eqb_refl in P2. cbn [andb] in P1, P2.
    rewrite (child_updf_same _ _ _ _ C), C. exact (IH _ _ _ _ S P1 P2).
  - rewrite child_updf_other; [reflexivity|]. intros ->. now rewrite String.eqb_refl in E.
Qed.

(* still false of the (faithful) model without `present`: a selection BELOW a member that is not there (the field holds
   no dataclass instance, e.g. None in a field annotated with a dataclass) does not raise - the member is created from
   the field's default factory first *)
Definition w_A (x : string) : value := VDc "A" [("x", FInit, VLeaf "int" x)].
Definition w_B : value := VDc "B" [("y", FInit, VLeaf "int" "1")].
Definition w_AB (m : value) (k : string) : value := VDc "AB" [("ab", FInit, m); ("k", FInit, VLeaf "int" k)].
Definition w_C (n : value) : value := VDc "C" [("nest", FInit, n); ("n", FNonInit "int" "3", VLeaf "int" "3")].
Definition w_T : tables :=
  mktables [("AB", "ab", mkfmeta true false [("a", w_A "0"); ("b", w_B)] (Some (w_A "0")));
            ("AB", "k", mkfmeta false false [] None);
            ("C", "nest", mkfmeta true false [] (Some (w_AB (w_A "0") "3")));
            ("C", "n", mkfmeta false false [] None)]
           [("A", w_A "0"); ("B", w_B); ("AB", w_AB (w_A "0") "3"); ("C", w_C (w_AB (w_A "0") "3"))].
Definition w_F : forest := [("nest", SNode None [("ab", SNode (Some (CKey "b")) [])])].

Theorem sub_absent_member_refuted :
  exists T F o e', forest_ok KW F = true /\ forest_good F = true /\ tgood T = true /\ vgood o = true /\
    expected_sub T (paths_forest F) o = None /\ rsub_gen T 64 o (Some (render_forest KW F)) = Ok e'.
Proof.
  exists w_T, w_F, (w_C (VLeaf "NoneType" "None")). eexists. repeat split; vm_compute; reflexivity.
Qed.

(* ====================================================================== *)
(* bridges: the helper predicates of utils.py, regenerated whole, are what the model hard-codes *)
(* ====================================================================== *)
(* is_dataclass_instance(x) <-> x is a dataclass INSTANCE (VDc in the model; SInst among selections) *)
Theorem is_dataclass_instance_bridge : forall k, is_dataclass_instance_gen k = match k with KInst => true | _ => false end.
Proof. intros []; reflexivity. Qed.
Theorem is_dc_bridge : forall v, is_dataclass_instance_gen (kind_of v) = is_dc v.
Proof. intros []; reflexivity. Qed.
(* is_dataclass_type(x) <-> x is a dataclass CLASS (SType among selections; never a field value of the model) *)
Theorem is_dataclass_type_bridge : forall k, is_dataclass_type_gen k = match k with KDcClass => true | _ => false end.
Proof. intros []; reflexivity. Qed.
(* the first two arms of the resolution chain of replace_subgroups fire exactly on SType / SInst *)
Theorem resolve_arms_bridge : forall s,
  is_dataclass_type_gen (skind s) = match s with SType _ => true | _ => false end /\
  is_dataclass_instance_gen (skind s) = match s with SInst _ => true | _ => false end.
Proof. intros []; split; reflexivity. Qed.

Section AnnInd.
  Variable P : ann -> Prop.
  Hypothesis Hbase : forall t, match t with AUnion _ => True | _ => P t end.
  Hypothesis Hunion : forall l, Forall P l -> P (AUnion l).
  Fixpoint ann_ind' (t : ann) : P t :=
    match t return P t with
    | AUnion l => Hunion l ((fix go (l : list ann) : Forall P l :=
                               match l with [] => Forall_nil _ | x :: r => Forall_cons x (ann_ind' x) (go r) end) l)
    | ADc => Hbase ADc | ATypeVarDc => Hbase ATypeVarDc | AListDc => Hbase AListDc | ANoneType => Hbase ANoneType
    | ALiteral b => Hbase (ALiteral b) | AOther => Hbase AOther
    end.
End AnnInd.

Lemma existsb_ext_Forall {A} (f g : A -> bool) l : Forall (fun x => f x = g x) l -> existsb f l = existsb g l.
Proof. induction 1 as [|x r Hx _ IH]; [reflexivity|]. cbn [existsb]. now rewrite Hx, IH. Qed.

(* contains_dataclass_type_arg = "the field can hold a dataclass member" (the m_has_dc column of the observed tables) *)
Theorem contains_dc_bridge : forall t, contains_dc_gen t = spec_holds_dc t.
Proof.
  apply (ann_ind' (fun t => contains_dc_gen t = spec_holds_dc t)).
  - intros t. destruct t; try reflexivity; exact I.
  - intros l IH. cbn. apply existsb_ext_Forall. exact IH.
Qed.
(* is_optional = "None is an allowed value" (the m_optional column) *)
Theorem is_optional_bridge : forall t, is_optional_gen t = spec_optional t.
Proof.
  intros [| | |l| |b|]; try reflexivity.
  - unfold is_optional_gen. cbn [p_is_union p_args p_is_literal p_literal_has_none spec_optional andb].
    now destruct (existsb p_is_nonetype l).
  - unfold is_optional_gen. cbn [p_is_union p_args p_is_literal p_literal_has_none spec_optional andb].
    now destruct b.
Qed.
Theorem ann_lookup_bridge : ann_lookup_is_plain_function_gen = true.
Proof. reflexivity. Qed.
