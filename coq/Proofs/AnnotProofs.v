(* Proofs/AnnotProofs.v — C17: the annotation model (instantiated with the regenerated facts) against the spec.
   A. character-list lemmas (mem / strip / split / partition / join)
   B. the textual rewriter on printed annotations            (C17_rewriter..)
   C. evaluation, normalisation, canonical form, denotation  (C17_norm.., C17_resolve.., C17_denote_render)
   D. field collection along an inheritance chain            (C17_flatten..)                                   *)
From SPV Require Import Base.Str Model.Annot Model.AnnotSpec Gen.FactsAnnot.
Open Scope list_scope.

(* ====================================================================================================== *)
(* A. character lists                                                                                       *)
(* ====================================================================================================== *)
Lemma mem_app c a b : mem c (a ++ b) = mem c a || mem c b.
Proof. unfold mem. apply existsb_app. Qed.

Lemma mem_cons c a s : mem c (a :: s) = Ascii.eqb c a || mem c s.
Proof. reflexivity. Qed.

Lemma mem_rev c s : mem c (rev s) = mem c s.
Proof.
  unfold mem. destruct (existsb (Ascii.eqb c) s) eqn:E.
  - apply existsb_exists in E as [x [Hx He]]. apply existsb_exists. exists x. split; [now apply in_rev in Hx|exact He].
  - destruct (existsb (Ascii.eqb c) (rev s)) eqn:E2; [|reflexivity].
    apply existsb_exists in E2 as [x [Hx He]]. apply in_rev in Hx.
    assert (existsb (Ascii.eqb c) s = true) by (apply existsb_exists; exists x; split; assumption). congruence.
Qed.

Lemma eqb_sym_false a c : Ascii.eqb c a = false -> Ascii.eqb a c = false.
Proof. rewrite Ascii.eqb_sym. auto. Qed.

Lemma partc_app c x y : mem c x = false -> partc c (x ++ c :: y) = (x, [c], y).
Proof.
  induction x as [|a x IH]; intros H; simpl.
  - now rewrite Ascii.eqb_refl.
  - rewrite mem_cons in H. apply orb_false_iff in H as [Ha Hx].
    rewrite (eqb_sym_false _ _ Ha), (IH Hx). reflexivity.
Qed.

Lemma rpartc_app c x y : mem c y = false -> rpartc c (x ++ c :: y) = (x, [c], y).
Proof.
  intros H. unfold rpartc.
  assert (E : rev (x ++ c :: y) = rev y ++ c :: rev x).
  { rewrite rev_app_distr. simpl. now rewrite <- app_assoc. }
  rewrite E, partc_app by now rewrite mem_rev.
  now rewrite !rev_involutive.
Qed.

Lemma splitc_nomem c x : mem c x = false -> splitc c x = [x].
Proof.
  induction x as [|a x IH]; intros H; simpl; [reflexivity|].
  rewrite mem_cons in H. apply orb_false_iff in H as [Ha Hx].
  now rewrite (eqb_sym_false _ _ Ha), (IH Hx).
Qed.

Lemma splitc_app c x y : mem c x = false -> splitc c (x ++ c :: y) = x :: splitc c y.
Proof.
  induction x as [|a x IH]; intros H; simpl.
  - now rewrite Ascii.eqb_refl.
  - rewrite mem_cons in H. apply orb_false_iff in H as [Ha Hx].
    now rewrite (eqb_sym_false _ _ Ha), (IH Hx).
Qed.

(* ---------- strip ---------- *)
Definition blank (s : list ascii) : bool := forallb is_space s.
Definition first_ok (s : list ascii) : bool := negb (is_space (hd " "%char s)).
Definition last_ok (s : list ascii) : bool := first_ok (rev s).
Definition stripped (s : list ascii) : bool := first_ok s && last_ok s.

Lemma first_ok_nonnil s : first_ok s = true -> s <> [].
Proof. destruct s; [discriminate|congruence]. Qed.

Lemma first_ok_app a b : a <> [] -> first_ok (a ++ b) = first_ok a.
Proof. destruct a; [congruence|reflexivity]. Qed.

Lemma last_ok_app a b : b <> [] -> last_ok (a ++ b) = last_ok b.
Proof.
  intros H. unfold last_ok. rewrite rev_app_distr. apply first_ok_app.
  intros E. apply H. apply (f_equal (@rev ascii)) in E. now rewrite rev_involutive in E.
Qed.

Lemma lstripl_blank r s : blank r = true -> lstripl (r ++ s) = lstripl s.
Proof.
  induction r as [|a r IH]; intros H; simpl in *; [reflexivity|].
  apply andb_true_iff in H as [Ha Hr]. now rewrite Ha, IH.
Qed.

Lemma lstripl_first_ok s : first_ok s = true -> lstripl s = s.
Proof.
  destruct s as [|a s]; [reflexivity|]. unfold first_ok. simpl. intros H.
  apply negb_true_iff in H. now rewrite H.
Qed.

Lemma blank_rev l : blank l = true -> blank (rev l) = true.
Proof.
  unfold blank. rewrite !forallb_forall. intros H x Hx. apply H. now apply in_rev.
Qed.

Lemma strip_pad l r x : blank l = true -> blank r = true -> stripped x = true -> stripl (r ++ x ++ l) = x.
Proof.
  intros Hl Hr Hx. unfold stripped in Hx. apply andb_true_iff in Hx as [Hf Hla].
  assert (Hne : x <> []) by now apply first_ok_nonnil.
  unfold stripl. rewrite lstripl_blank by exact Hr.
  rewrite lstripl_first_ok by (rewrite first_ok_app; assumption).
  unfold rstripl. rewrite rev_app_distr, lstripl_blank by now apply blank_rev.
  rewrite lstripl_first_ok by exact Hla. apply rev_involutive.
Qed.

Lemma strip_stripped x : stripped x = true -> stripl x = x.
Proof.
  intros H. generalize (strip_pad [] [] x eq_refl eq_refl H). now rewrite app_nil_r.
Qed.

(* ---------- join / split round trip ---------- *)
Lemma joinl_cons2 sep x y l : joinl sep (x :: y :: l) = x ++ sep ++ joinl sep (y :: l).
Proof. reflexivity. Qed.

Lemma mem_joinl c sep l : mem c sep = false -> mem c (joinl sep l) = existsb (mem c) l.
Proof.
  intros Hs. induction l as [|x l IH]; [reflexivity|].
  destruct l as [|y l].
  - simpl. now rewrite orb_false_r.
  - rewrite joinl_cons2, !mem_app, Hs, IH. reflexivity.
Qed.

Lemma blank_nomem c s : is_space c = false -> blank s = true -> mem c s = false.
Proof.
  intros Hc. induction s as [|a s IH]; intros H; [reflexivity|].
  simpl in H. apply andb_true_iff in H as [Ha Hs]. rewrite mem_cons, (IH Hs), orb_false_r.
  destruct (Ascii.eqb c a) eqn:E; [|reflexivity]. apply Ascii.eqb_eq in E. subst. congruence.
Qed.

(* pieces free of c, stripped; separator = blanks c blanks: split then strip gives the pieces back *)
Lemma split_join_strip c l r cs pre :
  is_space c = false -> blank l = true -> blank r = true -> blank pre = true ->
  cs <> [] -> Forall (fun x => mem c x = false /\ stripped x = true) cs ->
  map stripl (splitc c (pre ++ joinl (l ++ c :: r) cs)) = cs.
Proof.
  intros Hc Hl Hr. revert pre. induction cs as [|x cs IH]; intros pre Hp Hne Hall; [congruence|].
  inversion Hall as [|? ? [Hcx Hsx] Hrest]; subst.
  destruct cs as [|y cs].
  - simpl joinl. rewrite splitc_nomem.
    + simpl. f_equal. generalize (strip_pad [] pre x eq_refl Hp Hsx). now rewrite app_nil_r.
    + now rewrite mem_app, Hcx, (blank_nomem c pre Hc Hp).
  - rewrite joinl_cons2.
    replace (pre ++ x ++ (l ++ c :: r) ++ joinl (l ++ c :: r) (y :: cs))
      with ((pre ++ x ++ l) ++ c :: (r ++ joinl (l ++ c :: r) (y :: cs)))
      by (rewrite <- !app_assoc; simpl; now rewrite <- !app_assoc).
    rewrite splitc_app.
    + simpl map. f_equal.
      * now apply strip_pad.
      * apply IH; [exact Hr|discriminate|exact Hrest].
    + now rewrite !mem_app, Hcx, (blank_nomem c pre Hc Hp), (blank_nomem c l Hc Hl).
Qed.

Lemma joinl_app sep a b : a <> [] -> b <> [] -> joinl sep (a ++ b) = joinl sep a ++ sep ++ joinl sep b.
Proof.
  intros Ha Hb. induction a as [|x a IH]; [congruence|].
  destruct a as [|y a].
  - simpl app. destruct b as [|z b]; [congruence|]. reflexivity.
  - change ((x :: y :: a) ++ b) with (x :: (y :: a) ++ b). simpl app.
    rewrite !joinl_cons2. change (y :: a ++ b) with ((y :: a) ++ b). rewrite IH by discriminate.
    now rewrite <- !app_assoc.
Qed.

Lemma flat_map_nonnil {A B} (f : A -> list B) l : l <> [] -> (forall x, In x l -> f x <> []) -> flat_map f l <> [].
Proof.
  destruct l as [|x l]; [congruence|]. intros _ H. simpl. intros E. apply app_eq_nil in E as [E _].
  exact (H x (or_introl eq_refl) E).
Qed.

Lemma joinl_flat_map {A} sep (f : A -> list (list ascii)) l :
  (forall x, In x l -> f x <> []) -> joinl sep (flat_map f l) = joinl sep (map (fun x => joinl sep (f x)) l).
Proof.
  induction l as [|x l IH]; intros H; [reflexivity|].
  destruct l as [|y l].
  - simpl. now rewrite app_nil_r.
  - change (flat_map f (x :: y :: l)) with (f x ++ flat_map f (y :: l)).
    rewrite joinl_app.
    + rewrite IH by (intros z Hz; apply H; now right). reflexivity.
    + apply H. now left.
    + apply flat_map_nonnil; [discriminate|]. intros z Hz. apply H. now right.
Qed.

Lemma mapM_app {A B} (f : A -> res B) a b :
  mapM f (a ++ b) = bind (mapM f a) (fun ra => bind (mapM f b) (fun rb => Ok (ra ++ rb))).
Proof.
  induction a as [|x a IH]; simpl.
  - destruct (mapM f b); reflexivity.
  - destruct (f x); simpl; [|reflexivity]. rewrite IH. destruct (mapM f a); simpl; [|reflexivity].
    destruct (mapM f b); reflexivity.
Qed.

Lemma mapM_id {A} (f : A -> res A) l : Forall (fun x => f x = Ok x) l -> mapM f l = Ok l.
Proof. induction 1 as [|x l Hx _ IH]; simpl; [reflexivity|]. now rewrite Hx, IH. Qed.

Lemma mapM_flat_map {A B C} (f : B -> res C) (g : A -> list B) (g' : A -> list C) l :
  Forall (fun a => mapM f (g a) = Ok (g' a)) l -> mapM f (flat_map g l) = Ok (flat_map g' l).
Proof.
  induction 1 as [|x l Hx _ IH]; [reflexivity|]. simpl. now rewrite mapM_app, Hx, IH.
Qed.

(* ====================================================================================================== *)
(* B. the textual rewriter on printed annotations                                                          *)
(* ====================================================================================================== *)
Definition cBar : ascii := "|"%char.
Definition cL : ascii := "["%char.
Definition cR : ascii := "]"%char.
Definition cComma : ascii := ","%char.
Definition sepComma : list ascii := chars ", ".
Definition sepBar : list ascii := chars " | ".

Definition osf := old_style_fuel cBar cL cR cComma (chars "Union[") sepComma (chars "]") "NotImplementedError".

(* the regenerated literals are the ones the proofs below are about *)
Lemma gen_is_std : old_style_fuel_gen = osf.
Proof. reflexivity. Qed.

Lemma osf_id n s : mem cBar s = false -> osf (S n) s = Ok s.
Proof. intros H. unfold osf. cbn [old_style_fuel]. now rewrite H. Qed.

Lemma osf_flat n s :
  mem cBar s = true -> mem cL (stripl s) = false -> mem cR (stripl s) = false ->
  osf (S n) s = Ok (chars "Union[" ++ joinl sepComma (map stripl (splitc cBar (stripl s))) ++ chars "]").
Proof.
  intros H1 H2 H3. unfold osf. cbn [old_style_fuel]. rewrite H1. cbn [negb]. rewrite H2. cbn [negb]. now rewrite H3.
Qed.

Lemma osf_sub n s before middle :
  mem cBar s = true -> stripl s = before ++ cL :: middle ++ [cR] ->
  mem cL before = false -> mem cBar before = false -> mem cBar middle = true ->
  osf (S n) s =
  bind (if mem cComma middle
        then bind (mapM (osf n) (map stripl (splitc cComma middle))) (fun parts => Ok (joinl sepComma parts))
        else Ok middle)
       (fun middle' => bind (osf n middle') (fun nm => Ok (before ++ cL :: nm ++ [cR]))).
Proof.
  intros H1 H2 H3 H4 H5. unfold osf. cbn [old_style_fuel]. rewrite H1. cbn [negb]. rewrite H2.
  assert (HL : mem cL (before ++ cL :: middle ++ [cR]) = true).
  { rewrite mem_app, mem_cons, Ascii.eqb_refl. now rewrite orb_true_r. }
  rewrite HL. cbn [negb]. rewrite (partc_app cL before (middle ++ [cR]) H3).
  rewrite (rpartc_app cR middle [] eq_refl).
  cbn [stripl lstripl rstripl rev app negb]. rewrite H4. cbn [mem existsb orb]. rewrite H5. cbn [negb].
  destruct (mem cComma middle).
  - destruct (mapM _ _); [|reflexivity]. cbn [bind]. destruct (old_style_fuel _ _ _ _ _ _ _ _ n _); [|reflexivity].
    cbn [bind]. repeat f_equal.
  - cbn [bind]. destruct (old_style_fuel _ _ _ _ _ _ _ _ n _); [|reflexivity]. cbn [bind]. repeat f_equal.
Qed.

(* ---------- nested induction over written annotations ---------- *)
Section texp_ind2.
  Variable P : texp -> Prop.
  Hypothesis HN : forall n, P (TName n).
  Hypothesis HS : forall n args, Forall P args -> P (TSub n args).
  Hypothesis HB : forall ts, Forall P ts -> P (TBar ts).
  Fixpoint texp_ind2 (t : texp) : P t :=
    match t with
    | TName n => HN n
    | TSub n args => HS n args ((fix go (l : list texp) : Forall P l :=
                                  match l with [] => Forall_nil P | x :: r => Forall_cons x (texp_ind2 x) (go r) end) args)
    | TBar ts => HB ts ((fix go (l : list texp) : Forall P l :=
                           match l with [] => Forall_nil P | x :: r => Forall_cons x (texp_ind2 x) (go r) end) ts)
    end.
End texp_ind2.

(* ---------- the sub-grammar ---------- *)
Fixpoint has_bar (t : texp) : bool :=
  match t with TName _ => false | TSub _ args => existsb has_bar args | TBar _ => true end.

(* no comma in the printed text *)
Fixpoint comma_free (t : texp) : bool :=
  match t with
  | TName _ => true
  | TSub _ args => match args with [a] => comma_free a | _ => false end
  | TBar ts => forallb comma_free ts
  end.

Definition nm_ok (n : string) : bool :=
  negb (is_nil (chars n)) && forallb (fun a => negb (is_delim a)) (chars n).

Fixpoint names_ok (t : texp) : bool :=
  match t with
  | TName n => nm_ok n
  | TSub n args => nm_ok n && forallb names_ok args
  | TBar ts => forallb names_ok ts
  end.

Definition is_tbar (t : texp) : bool := match t with TBar _ => true | _ => false end.
Definition is_atom (t : texp) : bool := match t with TName _ => true | _ => false end.

(* subscripts have arguments; a bar has two or more members, none of them a bar itself *)
Fixpoint shape_ok (t : texp) : bool :=
  match t with
  | TName _ => true
  | TSub _ args => negb (is_nil args) && forallb shape_ok args
  | TBar ts => Nat.leb 2 (List.length ts) && forallb (fun t => negb (is_tbar t) && shape_ok t) ts
  end.

(* what _get_old_style_annotation handles: bars between plain names, at top level or as a whole subscript argument;
   an argument that contains a bar must not contain a comma.  Excluded: `name[...] | None`, `None | name[...]`,
   `list[tuple[int | str, int]]`, `dict[str, int] | None` inside brackets, ... *)
Fixpoint rw_ok (t : texp) : bool :=
  match t with
  | TName _ => true
  | TSub _ args => forallb (fun a => negb (has_bar a) || (comma_free a && rw_ok a)) args
  | TBar ts => forallb is_atom ts
  end.

Fixpoint depth (t : texp) : nat :=
  match t with
  | TName _ => 1
  | TSub _ args => S (fold_right Nat.max 1 (map depth args))
  | TBar _ => 1
  end.

(* ---------- facts about names ---------- *)
Lemma nodelim_mem s c : forallb (fun a => negb (is_delim a)) s = true -> is_delim c = true -> mem c s = false.
Proof.
  intros H Hc. induction s as [|a s IH]; [reflexivity|].
  simpl in H. apply andb_true_iff in H as [Ha Hs]. rewrite mem_cons, (IH Hs), orb_false_r.
  destruct (Ascii.eqb c a) eqn:E; [|reflexivity]. apply Ascii.eqb_eq in E. subst.
  rewrite Hc in Ha. discriminate.
Qed.

Lemma nodelim_first_ok s : s <> [] -> forallb (fun a => negb (is_delim a)) s = true -> first_ok s = true.
Proof.
  destruct s as [|a s]; [congruence|]. intros _ H. simpl in H. apply andb_true_iff in H as [Ha _].
  unfold first_ok. simpl. unfold is_delim in Ha. rewrite !negb_orb in Ha.
  repeat (apply andb_true_iff in Ha as [Ha ?]). assumption.
Qed.

Lemma nodelim_rev s : forallb (fun a => negb (is_delim a)) s = true -> forallb (fun a => negb (is_delim a)) (rev s) = true.
Proof. rewrite !forallb_forall. intros H x Hx. apply H. now apply in_rev. Qed.

Lemma nm_ok_nonnil n : nm_ok n = true -> chars n <> [].
Proof. unfold nm_ok. intros H. apply andb_true_iff in H as [H _]. destruct (chars n); [discriminate|congruence]. Qed.

Lemma nm_ok_mem n c : nm_ok n = true -> is_delim c = true -> mem c (chars n) = false.
Proof. unfold nm_ok. intros H. apply andb_true_iff in H as [_ H]. now apply nodelim_mem. Qed.

Lemma nm_ok_stripped n : nm_ok n = true -> stripped (chars n) = true.
Proof.
  intros H. pose proof (nm_ok_nonnil n H) as Hne. unfold nm_ok in H. apply andb_true_iff in H as [_ H].
  unfold stripped, last_ok. rewrite nodelim_first_ok by assumption.
  rewrite nodelim_first_ok; [reflexivity| |now apply nodelim_rev].
  intros E. apply Hne. apply (f_equal (@rev ascii)) in E. now rewrite rev_involutive in E.
Qed.

(* ---------- facts about printed text ---------- *)
Lemma pr_sub n args : pr (TSub n args) = chars n ++ cL :: joinl sepComma (map pr args) ++ [cR].
Proof. reflexivity. Qed.

Lemma existsb_map_false {A B} (f : A -> B) (p : B -> bool) (q : A -> bool) l :
  Forall (fun x => q x = true -> p (f x) = false) l -> forallb q l = true -> existsb p (map f l) = false.
Proof.
  induction 1 as [|x l Hx _ IH]; intros H; [reflexivity|].
  simpl in *. apply andb_true_iff in H as [Hq Hl]. now rewrite (Hx Hq), (IH Hl).
Qed.

Lemma joinl_stripped sep l :
  l <> [] -> Forall (fun x => stripped x = true) l -> stripped (joinl sep l) = true.
Proof.
  induction l as [|x l IH]; intros Hne Hall; [congruence|].
  inversion Hall as [|? ? Hx Hl]; subst. destruct l as [|y l]; [exact Hx|].
  specialize (IH ltac:(discriminate) Hl). rewrite joinl_cons2.
  unfold stripped in *. apply andb_true_iff in Hx as [Hxf Hxl]. apply andb_true_iff in IH as [IHf IHl].
  pose proof (first_ok_nonnil _ Hxf) as Hxn. pose proof (first_ok_nonnil _ IHf) as Hjn.
  rewrite first_ok_app by exact Hxn. rewrite Hxf, andb_true_l.
  rewrite last_ok_app.
  - rewrite last_ok_app by exact Hjn. exact IHl.
  - intros E. apply app_eq_nil in E as [_ E]. congruence.
Qed.

Lemma pr_stripped t : names_ok t = true -> shape_ok t = true -> stripped (pr t) = true.
Proof.
  induction t as [n|n args IH|ts IH] using texp_ind2; intros Hn Hs.
  - now apply nm_ok_stripped.
  - simpl in Hn. apply andb_true_iff in Hn as [Hn _]. rewrite pr_sub. unfold stripped.
    rewrite first_ok_app by now apply nm_ok_nonnil.
    pose proof (nm_ok_stripped n Hn) as Hst. unfold stripped in Hst. apply andb_true_iff in Hst as [Hf _]. rewrite Hf. simpl.
    replace (chars n ++ cL :: joinl sepComma (map pr args) ++ [cR])
      with ((chars n ++ cL :: joinl sepComma (map pr args)) ++ [cR]) by (rewrite <- app_assoc; reflexivity).
    now rewrite last_ok_app by discriminate.
  - simpl in Hn, Hs. apply andb_true_iff in Hs as [Hlen Hs]. simpl. apply joinl_stripped.
    + destruct ts; [discriminate|discriminate].
    + rewrite Forall_forall in *. intros x Hx. apply in_map_iff in Hx as [t [<- Ht]].
      rewrite forallb_forall in Hn, Hs. specialize (Hs t Ht). apply andb_true_iff in Hs as [_ Hs].
      now apply IH; [|apply Hn|].
Qed.

Lemma mem_bar_nobar t : names_ok t = true -> has_bar t = false -> mem cBar (pr t) = false.
Proof.
  induction t as [n|n args IH|ts IH] using texp_ind2; intros Hn Hb.
  - now apply nm_ok_mem.
  - simpl in Hn, Hb. apply andb_true_iff in Hn as [Hn Ha]. rewrite pr_sub, mem_app, mem_cons, mem_app.
    rewrite (nm_ok_mem n cBar Hn eq_refl). simpl. rewrite orb_false_r.
    rewrite mem_joinl by reflexivity.
    apply (existsb_map_false pr (mem cBar) (fun a => names_ok a && negb (has_bar a))).
    + rewrite Forall_forall in *. intros a Hin H. apply andb_true_iff in H as [H1 H2].
      apply negb_true_iff in H2. now apply IH.
    + rewrite forallb_forall in *. intros a Hin. rewrite (Ha a Hin). simpl.
      apply negb_true_iff. destruct (has_bar a) eqn:E; [|reflexivity].
      assert (existsb has_bar args = true) by (apply existsb_exists; now exists a). congruence.
  - discriminate.
Qed.

Lemma mem_bar_bar t : shape_ok t = true -> has_bar t = true -> mem cBar (pr t) = true.
Proof.
  induction t as [n|n args IH|ts IH] using texp_ind2; intros Hs Hb.
  - discriminate.
  - simpl in Hs, Hb. apply andb_true_iff in Hs as [_ Hs]. rewrite pr_sub, mem_app, mem_cons, mem_app.
    rewrite mem_joinl by reflexivity.
    apply existsb_exists in Hb as [a [Hin Ha]].
    assert (existsb (mem cBar) (map pr args) = true).
    { apply existsb_exists. exists (pr a). split; [now apply in_map|].
      rewrite Forall_forall in IH. rewrite forallb_forall in Hs. now apply IH; [|apply Hs|]. }
    rewrite H. now rewrite !orb_true_r.
  - simpl in Hs. apply andb_true_iff in Hs as [Hlen _].
    destruct ts as [|x [|y ts]]; [discriminate|discriminate|].
    change (pr (TBar (x :: y :: ts))) with (joinl sepBar (pr x :: pr y :: map pr ts)).
    rewrite joinl_cons2, !mem_app.
    assert (mem cBar sepBar = true) by reflexivity. rewrite H. now rewrite orb_true_r.
Qed.

Lemma mem_comma_free t : names_ok t = true -> comma_free t = true -> mem cComma (pr t) = false.
Proof.
  induction t as [n|n args IH|ts IH] using texp_ind2; intros Hn Hc.
  - now apply nm_ok_mem.
  - simpl in Hn, Hc. apply andb_true_iff in Hn as [Hn Ha].
    destruct args as [|a [|b args]]; [discriminate| |discriminate].
    rewrite pr_sub, mem_app, mem_cons, mem_app. rewrite (nm_ok_mem n cComma Hn eq_refl). simpl.
    rewrite orb_false_r. inversion IH; subst. simpl in Ha. apply andb_true_iff in Ha as [Ha _]. auto.
  - simpl in Hn, Hc. simpl pr. rewrite mem_joinl by reflexivity.
    apply (existsb_map_false pr (mem cComma) (fun a => names_ok a && comma_free a)).
    + rewrite Forall_forall in *. intros a Hin H. apply andb_true_iff in H as [H1 H2]. now apply IH.
    + rewrite forallb_forall in *. intros a Hin. now rewrite (Hn a Hin), (Hc a Hin).
Qed.

Lemma map_id_Forall {A} (f : A -> A) l : Forall (fun x => f x = x) l -> map f l = l.
Proof. induction 1 as [|x l Hx _ IH]; simpl; [reflexivity|]. now rewrite Hx, IH. Qed.

Lemma to_old_nobar t : has_bar t = false -> to_old t = t.
Proof.
  induction t as [n|n args IH|ts IH] using texp_ind2; intros Hb; [reflexivity| |discriminate].
  simpl in *. f_equal. apply map_id_Forall. rewrite Forall_forall in *. intros a Hin. apply IH; [exact Hin|].
  destruct (has_bar a) eqn:E; [|reflexivity].
  assert (existsb has_bar args = true) by (apply existsb_exists; now exists a). congruence.
Qed.

Lemma has_bar_to_old t : has_bar (to_old t) = false.
Proof.
  induction t as [n|n args IH|ts IH] using texp_ind2; [reflexivity| |];
    simpl; rewrite Forall_forall in IH; clear -IH.
  - induction args as [|a args IHa]; [reflexivity|]. simpl. rewrite IH by now left. apply IHa. intros x Hx. apply IH. now right.
  - induction ts as [|a ts IHa]; [reflexivity|]. simpl. rewrite IH by now left. apply IHa. intros x Hx. apply IH. now right.
Qed.

Lemma names_ok_to_old t : names_ok t = true -> names_ok (to_old t) = true.
Proof.
  induction t as [n|n args IH|ts IH] using texp_ind2; intros H; [exact H| |]; cbn [to_old names_ok] in *.
  - apply andb_true_iff in H as [Hn Ha]. rewrite Hn, andb_true_l. rewrite forallb_forall in *. intros x Hx.
    apply in_map_iff in Hx as [a [<- Hin]]. rewrite Forall_forall in IH. now apply IH; [|apply Ha].
  - assert (E : nm_ok "Union" = true) by reflexivity. rewrite E, andb_true_l. rewrite forallb_forall in *. intros x Hx.
    apply in_map_iff in Hx as [a [<- Hin]]. rewrite Forall_forall in IH. now apply IH; [|apply H].
Qed.

(* ---------- the comma-separated chunks of a printed annotation without bars ---------- *)
Fixpoint app_last (l : list (list ascii)) (post : list ascii) : list (list ascii) :=
  match l with
  | [] => [post]
  | x :: r => match r with [] => [x ++ post] | _ => x :: app_last r post end
  end.

Definition wrap (pre post : list ascii) (l : list (list ascii)) : list (list ascii) :=
  match l with [] => [pre ++ post] | x :: r => app_last ((pre ++ x) :: r) post end.

Fixpoint pchunks (t : texp) : list (list ascii) :=
  match t with
  | TName n => [chars n]
  | TSub n args => wrap (chars n ++ [cL]) [cR] (flat_map pchunks args)
  | TBar ts => [pr (TBar ts)]
  end.

Definition chunk_ok (x : list ascii) : bool := negb (mem cComma x) && negb (mem cBar x) && stripped x.

Lemma app_last_nonnil l post : app_last l post <> [].
Proof. destruct l as [|x [|y l]]; discriminate. Qed.

Lemma joinl_cons_nonnil sep x l : l <> [] -> joinl sep (x :: l) = x ++ sep ++ joinl sep l.
Proof. destruct l; [congruence|reflexivity]. Qed.

Lemma joinl_app_last sep l post : l <> [] -> joinl sep (app_last l post) = joinl sep l ++ post.
Proof.
  induction l as [|x l IH]; intros H; [congruence|].
  destruct l as [|y l]; [reflexivity|].
  change (app_last (x :: y :: l) post) with (x :: app_last (y :: l) post).
  rewrite joinl_cons_nonnil by apply app_last_nonnil. rewrite IH by discriminate.
  rewrite joinl_cons2. now rewrite <- !app_assoc.
Qed.

Lemma joinl_pre sep pre x r : joinl sep ((pre ++ x) :: r) = pre ++ joinl sep (x :: r).
Proof. destruct r; simpl; [reflexivity|now rewrite <- app_assoc]. Qed.

Lemma joinl_wrap sep pre post l : l <> [] -> joinl sep (wrap pre post l) = pre ++ joinl sep l ++ post.
Proof.
  destruct l as [|x r]; intros H; [congruence|]. unfold wrap.
  rewrite joinl_app_last by discriminate. rewrite joinl_pre. now rewrite <- app_assoc.
Qed.

Lemma Forall_app_last (P : list ascii -> Prop) l post :
  l <> [] -> Forall P l -> (forall x, P x -> P (x ++ post)) -> Forall P (app_last l post).
Proof.
  intros Hne Hall Hp. induction l as [|x l IH]; [congruence|].
  inversion Hall; subst. destruct l as [|y l].
  - constructor; [auto|constructor].
  - change (app_last (x :: y :: l) post) with (x :: app_last (y :: l) post).
    constructor; [assumption|]. apply IH; [discriminate|assumption].
Qed.

Lemma chunk_ok_pre pre x :
  mem cComma pre = false -> mem cBar pre = false -> first_ok pre = true -> chunk_ok x = true -> chunk_ok (pre ++ x) = true.
Proof.
  intros H1 H2 H3 H. unfold chunk_ok in *. apply andb_true_iff in H as [H Hs]. apply andb_true_iff in H as [Hc Hb].
  apply negb_true_iff in Hc, Hb. unfold stripped in *. apply andb_true_iff in Hs as [Hf Hl].
  rewrite !mem_app, H1, H2, Hc, Hb. simpl.
  rewrite first_ok_app by now apply first_ok_nonnil. rewrite H3.
  rewrite last_ok_app by now apply first_ok_nonnil. exact Hl.
Qed.

Lemma chunk_ok_post post x :
  mem cComma post = false -> mem cBar post = false -> last_ok post = true -> chunk_ok x = true -> chunk_ok (x ++ post) = true.
Proof.
  intros H1 H2 H3 H. unfold chunk_ok in *. apply andb_true_iff in H as [H Hs]. apply andb_true_iff in H as [Hc Hb].
  apply negb_true_iff in Hc, Hb. unfold stripped in *. apply andb_true_iff in Hs as [Hf Hl].
  rewrite !mem_app, H1, H2, Hc, Hb. simpl.
  rewrite first_ok_app by now apply first_ok_nonnil. rewrite Hf.
  rewrite last_ok_app; [exact H3|]. unfold last_ok in H3. intros E. subst. discriminate.
Qed.

Lemma pchunks_spec t :
  names_ok t = true -> shape_ok t = true -> has_bar t = false ->
  pchunks t <> [] /\ joinl sepComma (pchunks t) = pr t /\ Forall (fun x => chunk_ok x = true) (pchunks t).
Proof.
  induction t as [n|n args IH|ts IH] using texp_ind2; intros Hn Hs Hb.
  - cbn [pchunks]. split; [discriminate|]. split; [reflexivity|]. constructor; [|constructor].
    cbn [names_ok] in Hn. unfold chunk_ok.
    now rewrite (nm_ok_mem n cComma Hn eq_refl), (nm_ok_mem n cBar Hn eq_refl), (nm_ok_stripped n Hn).
  - cbn [names_ok shape_ok has_bar] in Hn, Hs, Hb.
    apply andb_true_iff in Hn as [Hn Han]. apply andb_true_iff in Hs as [Hne Has].
    assert (Hargs : forall a, In a args ->
              pchunks a <> [] /\ joinl sepComma (pchunks a) = pr a /\ Forall (fun x => chunk_ok x = true) (pchunks a)).
    { intros a Hin. rewrite Forall_forall in IH. rewrite forallb_forall in Han, Has. apply IH; auto.
      destruct (has_bar a) eqn:E; [|reflexivity].
      assert (existsb has_bar args = true) by (apply existsb_exists; now exists a). congruence. }
    assert (HL : flat_map pchunks args <> []).
    { apply flat_map_nonnil; [destruct args; [discriminate|discriminate]|]. intros a Hin. now apply Hargs. }
    cbn [pchunks]. split.
    { unfold wrap. destruct (flat_map pchunks args); [congruence|apply app_last_nonnil]. }
    split.
    { rewrite joinl_wrap by exact HL. rewrite joinl_flat_map by (intros a Hin; now apply Hargs).
      assert (Em : map (fun x => joinl sepComma (pchunks x)) args = map pr args)
        by (apply map_ext_in; intros a Hin; now apply Hargs).
      rewrite Em, pr_sub, <- app_assoc. reflexivity. }
    assert (HF : Forall (fun x => chunk_ok x = true) (flat_map pchunks args)).
    { rewrite Forall_forall. intros x Hx. apply in_flat_map in Hx as [a [Hin Hx]].
      destruct (Hargs a Hin) as [_ [_ HFa]]. rewrite Forall_forall in HFa. now apply HFa. }
    unfold wrap. destruct (flat_map pchunks args) as [|x r]; [congruence|].
    inversion HF; subst.
    assert (Hpre1 : mem cComma (chars n ++ [cL]) = false) by now rewrite mem_app, (nm_ok_mem n cComma Hn eq_refl).
    assert (Hpre2 : mem cBar (chars n ++ [cL]) = false) by now rewrite mem_app, (nm_ok_mem n cBar Hn eq_refl).
    assert (Hpre3 : first_ok (chars n ++ [cL]) = true).
    { rewrite first_ok_app by now apply nm_ok_nonnil. pose proof (nm_ok_stripped n Hn) as S0.
      unfold stripped in S0. now apply andb_true_iff in S0 as [S0 _]. }
    apply Forall_app_last; [discriminate| |].
    + constructor; [now apply chunk_ok_pre|assumption].
    + intros y Hy. now apply chunk_ok_post.
  - discriminate.
Qed.

Lemma chunk_ok_split x : chunk_ok x = true -> mem cComma x = false /\ stripped x = true.
Proof.
  unfold chunk_ok. intros H. apply andb_true_iff in H as [H Hs]. apply andb_true_iff in H as [Hc _].
  now apply negb_true_iff in Hc.
Qed.

Lemma chunk_ok_nobar x : chunk_ok x = true -> mem cBar x = false.
Proof.
  unfold chunk_ok. intros H. apply andb_true_iff in H as [H _]. apply andb_true_iff in H as [_ Hb].
  now apply negb_true_iff in Hb.
Qed.

Lemma fold_max_ge (l : list nat) x : In x l -> x <= fold_right Nat.max 1 l.
Proof. induction l as [|y l IH]; simpl; intros H; [contradiction|]. destruct H as [->|H]; [lia|]. specialize (IH H). lia. Qed.

Lemma fold_max_1 (l : list nat) : 1 <= fold_right Nat.max 1 l.
Proof. induction l; simpl; lia. Qed.

(* ---------- the rewriter computes to_old on the sub-grammar, for every nesting depth ---------- *)
Lemma rw_correct t :
  names_ok t = true -> shape_ok t = true -> rw_ok t = true ->
  forall n, depth t <= n -> osf n (pr t) = Ok (pr (to_old t)).
Proof.
  induction t as [nm|nm args IH|ts IH] using texp_ind2; intros Hn Hs Hr n Hd.
  - (* a name *)
    cbn [depth] in Hd. destruct n as [|n]; [lia|]. cbn [names_ok] in Hn.
    apply osf_id. now apply nm_ok_mem.
  - (* name[args] *)
    destruct (has_bar (TSub nm args)) eqn:Hb.
    2:{ rewrite to_old_nobar by exact Hb. cbn [depth] in Hd. destruct n as [|n]; [lia|].
        apply osf_id. now apply mem_bar_nobar. }
    cbn [depth] in Hd. destruct n as [|n]; [lia|]. apply le_S_n in Hd.
    pose proof (fold_max_1 (map depth args)) as Hn1.
    assert (Hst : stripl (pr (TSub nm args)) = chars nm ++ cL :: joinl sepComma (map pr args) ++ [cR]).
    { rewrite strip_stripped by now apply pr_stripped. apply pr_sub. }
    cbn [names_ok shape_ok rw_ok has_bar] in Hn, Hs, Hr, Hb.
    apply andb_true_iff in Hn as [Hnm Han]. apply andb_true_iff in Hs as [Hne Has].
    rewrite forallb_forall in Han, Has, Hr. rewrite Forall_forall in IH.
    assert (Hmid : mem cBar (joinl sepComma (map pr args)) = true).
    { rewrite mem_joinl by reflexivity. apply existsb_exists in Hb as [a [Hin Ha]].
      apply existsb_exists. exists (pr a). split; [now apply in_map|]. apply mem_bar_bar; auto. }
    rewrite (osf_sub n _ (chars nm) (joinl sepComma (map pr args)));
      [|apply mem_bar_bar; cbn [shape_ok has_bar]; [rewrite Hne; simpl; now apply forallb_forall|exact Hb]
       |exact Hst|now apply nm_ok_mem|now apply nm_ok_mem|exact Hmid].
    assert (Hdep : forall a, In a args -> depth a <= n).
    { intros a Hin. pose proof (fold_max_ge (map depth args) (depth a) (in_map depth args a Hin)). lia. }
    assert (Hold : forall a, In a args -> mem cBar (pr (to_old a)) = false).
    { intros a Hin. apply mem_bar_nobar; [apply names_ok_to_old; auto|apply has_bar_to_old]. }
    assert (Hfin : forall mid', mid' = joinl sepComma (map pr (map to_old args)) ->
              bind (osf n mid') (fun nm0 => Ok (chars nm ++ cL :: nm0 ++ [cR])) = Ok (pr (to_old (TSub nm args)))).
    { intros mid' ->. destruct n as [|n]; [lia|]. rewrite osf_id.
      - reflexivity.
      - rewrite mem_joinl by reflexivity. rewrite map_map.
        apply (existsb_map_false (fun a => pr (to_old a)) (mem cBar) (fun a => names_ok a)).
        + rewrite Forall_forall. intros a Hin _. now apply Hold.
        + now apply forallb_forall. }
    destruct args as [|a [|b args]]; [discriminate| |].
    + (* one argument, which contains the bar: no comma in the middle *)
      assert (Hin : In a [a]) by now left.
      cbn [existsb] in Hb. rewrite orb_false_r in Hb.
      specialize (Hr a Hin). rewrite Hb in Hr. cbn [negb orb] in Hr. apply andb_true_iff in Hr as [Hcf Hra].
      cbn [map joinl]. rewrite (mem_comma_free a (Han a Hin) Hcf). cbn [bind].
      rewrite (IH a Hin (Han a Hin) (Has a Hin) Hra n (Hdep a Hin)). reflexivity.
    + (* two or more arguments: every comma splits *)
      set (ARGS := a :: b :: args) in *.
      assert (Hc : mem cComma (joinl sepComma (map pr ARGS)) = true).
      { unfold ARGS. cbn [map]. rewrite joinl_cons2, !mem_app.
        assert (E : mem cComma sepComma = true) by reflexivity. rewrite E. now rewrite orb_true_r. }
      rewrite Hc.
      set (CH := fun a => if has_bar a then [pr a] else pchunks a).
      set (CH' := fun a => if has_bar a then [pr (to_old a)] else pchunks a).
      assert (F1 : forall x, In x ARGS ->
                 CH x <> [] /\ joinl sepComma (CH x) = pr x /\ Forall (fun c => mem cComma c = false /\ stripped c = true) (CH x)).
      { intros x Hin. unfold CH. destruct (has_bar x) eqn:E.
        - specialize (Hr x Hin). rewrite E in Hr. cbn [negb orb] in Hr. apply andb_true_iff in Hr as [Hcf _].
          split; [discriminate|]. split; [reflexivity|]. constructor; [|constructor].
          split; [now apply mem_comma_free; auto|apply pr_stripped; auto].
        - destruct (pchunks_spec x (Han x Hin) (Has x Hin) E) as [P1 [P2 P3]].
          split; [exact P1|]. split; [exact P2|]. eapply Forall_impl; [|exact P3]. intros c. apply chunk_ok_split. }
      assert (F2 : Forall (fun x => mapM (osf n) (CH x) = Ok (CH' x)) ARGS).
      { rewrite Forall_forall. intros x Hin. unfold CH, CH'. destruct (has_bar x) eqn:E.
        - specialize (Hr x Hin). rewrite E in Hr. cbn [negb orb] in Hr. apply andb_true_iff in Hr as [_ Hrx].
          cbn [mapM]. now rewrite (IH x Hin (Han x Hin) (Has x Hin) Hrx n (Hdep x Hin)).
        - destruct (pchunks_spec x (Han x Hin) (Has x Hin) E) as [_ [_ P3]].
          apply mapM_id. eapply Forall_impl; [|exact P3]. intros c Hc0. destruct n as [|n]; [lia|].
          apply osf_id. now apply chunk_ok_nobar. }
      assert (F3 : forall x, In x ARGS -> CH' x <> [] /\ joinl sepComma (CH' x) = pr (to_old x)).
      { intros x Hin. unfold CH'. destruct (has_bar x) eqn:E.
        - split; [discriminate|reflexivity].
        - destruct (pchunks_spec x (Han x Hin) (Has x Hin) E) as [P1 [P2 _]].
          split; [exact P1|]. now rewrite (to_old_nobar x E). }
      assert (E1 : joinl sepComma (map pr ARGS) = joinl sepComma (flat_map CH ARGS)).
      { rewrite joinl_flat_map by (intros x Hin; now apply F1). f_equal.
        apply map_ext_in. intros x Hin. symmetry. now apply F1. }
      assert (E2 : map stripl (splitc cComma (joinl sepComma (map pr ARGS))) = flat_map CH ARGS).
      { rewrite E1.
        apply (split_join_strip cComma [] [" "%char] (flat_map CH ARGS) [] eq_refl eq_refl eq_refl eq_refl).
        - apply flat_map_nonnil; [discriminate|]. intros x Hin. now apply F1.
        - rewrite Forall_forall. intros c Hc0. apply in_flat_map in Hc0 as [x [Hin Hc0]].
          destruct (F1 x Hin) as [_ [_ P]]. rewrite Forall_forall in P. now apply P. }
      rewrite E2. rewrite (mapM_flat_map (osf n) CH CH' ARGS F2). cbn [bind].
      apply Hfin.
      rewrite joinl_flat_map by (intros x Hin; now apply F3). f_equal. rewrite map_map.
      apply map_ext_in. intros x Hin. now apply F3.
  - (* a | b | c between plain names *)
    cbn [depth] in Hd. destruct n as [|n]; [lia|].
    cbn [names_ok shape_ok rw_ok] in Hn, Hs, Hr. apply andb_true_iff in Hs as [Hlen Hs].
    rewrite forallb_forall in Hn, Hs, Hr.
    assert (Hat : forall x, In x ts -> exists m, x = TName m /\ nm_ok m = true).
    { intros x Hin. specialize (Hr x Hin). specialize (Hn x Hin). destruct x; try discriminate. now exists n0. }
    assert (Hstr : stripl (pr (TBar ts)) = pr (TBar ts)).
    { apply strip_stripped. apply pr_stripped; cbn [names_ok shape_ok]; [now apply forallb_forall|].
      rewrite Hlen. now apply forallb_forall. }
    assert (HnoL : forall c, is_delim c = true -> mem c sepBar = false -> mem c (pr (TBar ts)) = false).
    { intros c Hc Hsep. cbn [pr]. rewrite mem_joinl by exact Hsep.
      apply (existsb_map_false pr (mem c) (fun _ => true)); [|now apply forallb_forall].
      rewrite Forall_forall. intros x Hin _. destruct (Hat x Hin) as [m [-> Hm]]. now apply nm_ok_mem. }
    rewrite osf_flat;
      [|apply mem_bar_bar; [cbn [shape_ok]; rewrite Hlen; now apply forallb_forall|reflexivity]
       |rewrite Hstr; now apply HnoL|rewrite Hstr; now apply HnoL].
    rewrite Hstr. change (pr (TBar ts)) with (joinl sepBar (map pr ts)).
    assert (Esp : map stripl (splitc cBar (joinl sepBar (map pr ts))) = map pr ts).
    { apply (split_join_strip cBar [" "%char] [" "%char] (map pr ts) [] eq_refl eq_refl eq_refl eq_refl).
      - destruct ts; [discriminate|discriminate].
      - rewrite Forall_forall. intros c Hc. apply in_map_iff in Hc as [x [<- Hin]].
        destruct (Hat x Hin) as [m [-> Hm]]. split; [now apply nm_ok_mem|now apply nm_ok_stripped]. }
    rewrite Esp. cbn [to_old]. rewrite pr_sub.
    assert (Eid : map to_old ts = ts).
    { apply map_id_Forall. rewrite Forall_forall. intros x Hin. destruct (Hat x Hin) as [m [-> _]]. reflexivity. }
    rewrite Eid. change (chars "Union[") with (chars "Union" ++ [cL]). rewrite <- app_assoc. reflexivity.
Qed.

Lemma len_joinl_ge sep l x : In x l -> List.length x <= List.length (joinl sep l).
Proof.
  induction l as [|y l IH]; intros H; [contradiction|].
  destruct l as [|z l].
  - destruct H as [->|[]]. simpl. lia.
  - rewrite joinl_cons2, !app_length. destruct H as [->|H]; [lia|]. specialize (IH H). lia.
Qed.

Lemma depth_le_len t : depth t <= S (List.length (pr t)).
Proof.
  induction t as [n|n args IH|ts IH] using texp_ind2; cbn [depth]; try lia.
  rewrite pr_sub, app_length. cbn [List.length]. rewrite app_length. cbn [List.length].
  assert (fold_right Nat.max 1 (map depth args) <= S (List.length (joinl sepComma (map pr args)))).
  { rewrite Forall_forall in IH. clear -IH. induction args as [|a args IHa]; cbn [map fold_right]; [lia|].
    assert (Ha : depth a <= S (List.length (pr a))) by (apply IH; now left).
    assert (Hl : List.length (pr a) <= List.length (joinl sepComma (pr a :: map pr args)))
      by (apply len_joinl_ge; now left).
    assert (Hr : fold_right Nat.max 1 (map depth args) <= S (List.length (joinl sepComma (map pr args))))
      by (apply IHa; intros x Hx; apply IH; now right).
    assert (Hm : List.length (joinl sepComma (map pr args)) <= List.length (joinl sepComma (pr a :: map pr args))).
    { destruct args as [|b args]; [simpl; lia|]. cbn [map]. rewrite joinl_cons2, !app_length. lia. }
    lia. }
  lia.
Qed.

(* the textual rewriter, as instantiated from the source, on the sub-grammar it handles *)
Theorem rewriter_partial t :
  names_ok t = true -> shape_ok t = true -> rw_ok t = true -> old_style_gen (pr t) = Ok (pr (to_old t)).
Proof.
  intros Hn Hs Hr. unfold old_style_gen, old_style. fold old_style_fuel_gen. rewrite gen_is_std.
  apply rw_correct; try assumption. pose proof (depth_le_len t). lia.
Qed.

(* ====================================================================================================== *)
(* C. evaluation, normalisation, canonical form, denotation                                                *)
(* ====================================================================================================== *)
Section rty_ind2.
  Variable P : rty -> Prop.
  Hypothesis HC : forall n, P (RCls n).
  Hypothesis HN : P RNone.
  Hypothesis HE : P REllipsis.
  Hypothesis HG : forall al o args, Forall P args -> P (RGen al o args).
  Hypothesis HT : forall args, Forall P args -> P (RTUnion args).
  Hypothesis HU : forall args, Forall P args -> P (RUType args).
  Fixpoint rty_ind2 (r : rty) : P r :=
    let go := fix go (l : list rty) : Forall P l :=
                match l with [] => Forall_nil P | x :: t => Forall_cons x (rty_ind2 x) (go t) end in
    match r with
    | RCls n => HC n
    | RNone => HN
    | REllipsis => HE
    | RGen al o args => HG al o args (go args)
    | RTUnion args => HT args (go args)
    | RUType args => HU args (go args)
    end.
End rty_ind2.

Section cty_ind2.
  Variable P : cty -> Prop.
  Hypothesis HA : forall n, P (CAtom n).
  Hypothesis HN : P CNone.
  Hypothesis HD : P CDots.
  Hypothesis HL : forall a, P a -> P (CList a).
  Hypothesis HT : forall l, Forall P l -> P (CTuple l).
  Hypothesis HV : forall a, P a -> P (CTupleVar a).
  Hypothesis HM : forall k v, P k -> P v -> P (CDict k v).
  Hypothesis HU : forall l, Forall P l -> P (CUnion l).
  Hypothesis HB : P CBad.
  Fixpoint cty_ind2 (c : cty) : P c :=
    let go := fix go (l : list cty) : Forall P l :=
                match l with [] => Forall_nil P | x :: t => Forall_cons x (cty_ind2 x) (go t) end in
    match c with
    | CAtom n => HA n
    | CNone => HN
    | CDots => HD
    | CList a => HL a (cty_ind2 a)
    | CTuple l => HT l (go l)
    | CTupleVar a => HV a (cty_ind2 a)
    | CDict k v => HM k v (cty_ind2 k) (cty_ind2 v)
    | CUnion l => HU l (go l)
    | CBad => HB
    end.
End cty_ind2.

(* ---------- equality tests ---------- *)
Lemma list_go_eq {A} (eqb : A -> A -> bool) l1 :
  Forall (fun x => forall y, eqb x y = true -> x = y) l1 ->
  forall l2,
    (fix go (l1 l2 : list A) {struct l1} : bool :=
       match l1, l2 with
       | [], [] => true
       | x :: r1, y :: r2 => eqb x y && go r1 r2
       | _, _ => false
       end) l1 l2 = true -> l1 = l2.
Proof.
  induction 1 as [|x l1 Hx _ IH]; intros [|y l2] H; try discriminate; [reflexivity|].
  apply andb_true_iff in H as [H1 H2]. f_equal; [now apply Hx|now apply IH].
Qed.

Lemma list_go_refl {A} (eqb : A -> A -> bool) l :
  Forall (fun x => eqb x x = true) l ->
  (fix go (l1 l2 : list A) {struct l1} : bool :=
     match l1, l2 with
     | [], [] => true
     | x :: r1, y :: r2 => eqb x y && go r1 r2
     | _, _ => false
     end) l l = true.
Proof. induction 1 as [|x l Hx _ IH]; [reflexivity|]. now rewrite Hx, IH. Qed.

Lemma rty_eqb_eq a : forall b, rty_eqb a b = true -> a = b.
Proof.
  induction a as [n| | |al o args IH|args IH|args IH] using rty_ind2; intros b H; destruct b; try discriminate; simpl in H.
  - apply String.eqb_eq in H. now subst.
  - reflexivity.
  - reflexivity.
  - apply andb_true_iff in H as [H H3]. apply andb_true_iff in H as [H1 H2].
    apply Bool.eqb_prop in H1. subst. assert (o = o0) by (destruct o, o0; try discriminate; reflexivity). subst.
    f_equal. now apply (list_go_eq rty_eqb).
  - f_equal. now apply (list_go_eq rty_eqb).
  - f_equal. now apply (list_go_eq rty_eqb).
Qed.

Lemma rty_in_In x l : rty_in x l = true -> In x l.
Proof.
  unfold rty_in. intros H. apply existsb_exists in H as [y [Hy He]]. apply rty_eqb_eq in He. now subst.
Qed.

Lemma rdedupe_nodup l : forall seen, NoDup l -> (forall x, In x l -> ~ In x seen) -> rdedupe l seen = l.
Proof.
  induction l as [|x l IH]; intros seen Hnd Hs; [reflexivity|].
  inversion Hnd; subst. simpl.
  destruct (rty_in x seen) eqn:E.
  - apply rty_in_In in E. exfalso. apply (Hs x); [now left|exact E].
  - f_equal. apply IH; [assumption|]. intros y Hy Hin. apply in_app_or in Hin as [Hin|[->|[]]].
    + apply (Hs y); [now right|exact Hin].
    + contradiction.
Qed.

Lemma cty_eqb_refl c : cty_eqb c c = true.
Proof.
  induction c as [n| | |a IH|l IH|a IH|k v IHk IHv|l IH|] using cty_ind2; simpl; try reflexivity; try assumption.
  - apply String.eqb_refl.
  - now apply (list_go_refl cty_eqb).
  - now rewrite IHk, IHv.
  - now apply (list_go_refl cty_eqb).
Qed.

Lemma cnodup_NoDup l : cnodup l = true -> NoDup l.
Proof.
  induction l as [|x l IH]; intros H; [constructor|].
  simpl in H. apply andb_true_iff in H as [H1 H2]. constructor; [|now apply IH].
  intros Hin. apply negb_true_iff in H1. unfold cty_in in H1.
  assert (existsb (cty_eqb x) l = true) by (apply existsb_exists; exists x; split; [exact Hin|apply cty_eqb_refl]).
  congruence.
Qed.

Lemma NoDup_map_inj_on {A B} (f : A -> B) l :
  (forall x y, In x l -> In y l -> f x = f y -> x = y) -> NoDup l -> NoDup (map f l).
Proof.
  intros Hinj Hnd. induction Hnd as [|x l Hx Hnd IH]; [constructor|].
  simpl. constructor.
  - intros Hin. apply in_map_iff in Hin as [y [He Hy]]. apply Hx.
    rewrite (Hinj x y); [exact Hy|now left|now right|now symmetry].
  - apply IH. intros a b Ha Hb. apply Hinj; now right.
Qed.

(* ---------- well-formed names and members ---------- *)
Lemma wf_name_not_reserved n r : wf_name n = true -> str_in r RESERVED = true -> String.eqb n r = false.
Proof.
  unfold wf_name. intros H Hr. apply andb_true_iff in H as [H _]. apply andb_true_iff in H as [H _].
  apply negb_true_iff in H. destruct (String.eqb n r) eqn:E; [|reflexivity].
  apply String.eqb_eq in E. subst. congruence.
Qed.

Definition member_ok (c : cty) : bool := is_cnone c || (negb (is_cunion c) && wf_cty c).
Definition mrt (sp : spelling) (c : cty) : rty := none_to_cls (rt sp c).

Lemma wf_union_parts l :
  wf_cty (CUnion l) = true ->
  2 <= List.length l /\ none_only_last l = true /\ NoDup l /\ forallb member_ok l = true.
Proof.
  cbn [wf_cty]. intros H. apply andb_true_iff in H as [H H4]. apply andb_true_iff in H as [H H3].
  apply andb_true_iff in H as [H1 H2]. apply Nat.leb_le in H1.
  split; [exact H1|]. split; [exact H2|]. split; [now apply cnodup_NoDup|exact H4].
Qed.

Lemma rt_none_iff sp c : wf_cty c = true -> none_to_cls (rt sp c) = rt sp c.
Proof. destruct c; try discriminate; intros _; try reflexivity; destruct sp; reflexivity. Qed.

Lemma canon_tuple al rs :
  (forall x, nth_error rs 1 = Some x -> x <> REllipsis) -> canon (RGen al OTuple rs) = CTuple (map canon rs).
Proof.
  intros H. destruct rs as [|x [|y [|z r]]]; try reflexivity.
  - destruct y; try reflexivity. exfalso. now apply (H REllipsis).
  - destruct y; reflexivity.
Qed.

Lemma rt_not_dots sp c : wf_cty c = true -> rt sp c <> REllipsis.
Proof. destruct c; try discriminate; intros _; try discriminate; destruct sp; discriminate. Qed.

Lemma canon_rt sp c : wf_cty c = true -> canon (rt sp c) = c.
Proof.
  induction c as [n| | |a IH|l IH|a IH|k v IHk IHv|l IH|] using cty_ind2; intros H; try discriminate.
  - cbn [rt canon]. cbn [wf_cty] in H. now rewrite (wf_name_not_reserved n "NoneType" H eq_refl).
  - cbn [wf_cty] in H. cbn [rt canon]. now rewrite IH.
  - cbn [wf_cty] in H. apply andb_true_iff in H as [Hne Hl]. rewrite forallb_forall in Hl. rewrite Forall_forall in IH.
    assert (Hm : map canon (map (rt sp) l) = l).
    { rewrite map_map. apply map_id_Forall. rewrite Forall_forall. intros x Hx. apply IH; auto. }
    cbn [rt]. rewrite canon_tuple; [now rewrite Hm|].
    intros x Hx. destruct l as [|a [|b r]]; try discriminate Hx. cbn [map nth_error] in Hx. injection Hx as <-.
    apply rt_not_dots. apply Hl. right. now left.
  - cbn [wf_cty] in H. cbn [rt canon]. now rewrite IH.
  - cbn [wf_cty] in H. apply andb_true_iff in H as [Hk Hv]. cbn [rt canon]. now rewrite IHk, IHv.
  - destruct (wf_union_parts l H) as [_ [_ [_ Hm]]]. rewrite forallb_forall in Hm. rewrite Forall_forall in IH.
    assert (E : map canon (map (fun c => none_to_cls (rt sp c)) l) = l).
    { rewrite map_map. apply map_id_Forall. rewrite Forall_forall. intros x Hx. specialize (Hm x Hx).
      unfold member_ok in Hm. apply orb_true_iff in Hm as [Hn|Hw].
      - destruct x; try discriminate. reflexivity.
      - apply andb_true_iff in Hw as [_ Hw]. rewrite rt_none_iff by exact Hw. now apply IH. }
    destruct sp; cbn [rt canon]; now rewrite E.
Qed.

Lemma canon_mrt sp c : member_ok c = true -> canon (mrt sp c) = c.
Proof.
  unfold member_ok, mrt. intros H. apply orb_true_iff in H as [H|H].
  - destruct c; try discriminate. reflexivity.
  - apply andb_true_iff in H as [_ H]. rewrite rt_none_iff by exact H. now apply canon_rt.
Qed.

Lemma mrt_not_union sp c : member_ok c = true ->
  union_members (mrt sp c) = [mrt sp c] /\ none_to_cls (mrt sp c) = mrt sp c.
Proof.
  unfold member_ok, mrt. intros H. apply orb_true_iff in H as [H|H].
  - destruct c; try discriminate. split; reflexivity.
  - apply andb_true_iff in H as [Hu Hw]. destruct c; try discriminate; split; try reflexivity; destruct sp; reflexivity.
Qed.

Lemma NoDup_mrt sp l : NoDup l -> forallb member_ok l = true -> NoDup (map (mrt sp) l).
Proof.
  intros Hnd Hm. rewrite forallb_forall in Hm. apply NoDup_map_inj_on; [|exact Hnd].
  intros x y Hx Hy E. rewrite <- (canon_mrt sp x (Hm x Hx)), <- (canon_mrt sp y (Hm y Hy)). now rewrite E.
Qed.

(* typing.Union of the members of a grammar union is the union itself: nothing to flatten, nothing repeated *)
Lemma mk_tunion_members sp l :
  2 <= List.length l -> NoDup l -> forallb member_ok l = true ->
  mk_tunion (map (mrt sp) l) = Ok (RTUnion (map (mrt sp) l)).
Proof.
  intros Hlen Hnd Hm. unfold mk_tunion.
  assert (E1 : map none_to_cls (map (mrt sp) l) = map (mrt sp) l).
  { rewrite map_map. apply map_ext_in. intros c Hc. rewrite forallb_forall in Hm.
    destruct (mrt_not_union sp c (Hm c Hc)) as [_ E]. exact E. }
  assert (E2 : flat_map union_members (map (mrt sp) l) = map (mrt sp) l).
  { clear E1 Hlen Hnd. induction l as [|c l IHl]; [reflexivity|]. simpl in Hm. apply andb_true_iff in Hm as [Hc Hl].
    cbn [map flat_map]. destruct (mrt_not_union sp c Hc) as [-> _]. now rewrite IHl. }
  rewrite E1, E2, rdedupe_nodup; [|now apply NoDup_mrt|intros x _ []].
  destruct l as [|a [|b l]]; cbn [List.length] in Hlen; try lia. reflexivity.
Qed.

(* ---------- (a) the normaliser, as instantiated from the source ---------- *)
Lemma seq_res_map {A B} (f : A -> res B) l : seq_res (map f l) = mapM f l.
Proof. induction l as [|x l IH]; [reflexivity|]. simpl. now rewrite IH. Qed.

Lemma norm_go_map l :
  (fix go (l : list rty) : list (res rty) := match l with [] => [] | x :: t => norm_gen x :: go t end) l = map norm_gen l.
Proof. induction l as [|x l IH]; [reflexivity|]. now rewrite IH. Qed.

(* utils.is_list / is_tuple / is_dict over utils._mro, as regenerated *)
Lemma is_list_gen_gen al o l : is_list_gen (RGen al o l) = origin_eqb o OList.
Proof. destruct al, o; reflexivity. Qed.
Lemma is_tuple_gen_gen al o l : is_tuple_gen (RGen al o l) = origin_eqb o OTuple.
Proof. destruct al, o; reflexivity. Qed.
Lemma is_dict_gen_gen al o l : is_dict_gen (RGen al o l) = origin_eqb o ODict.
Proof. destruct al, o; reflexivity. Qed.

Lemma is_list_gen_cls n : String.eqb n "list" = false -> is_list_gen (RCls n) = false.
Proof.
  intros H. unfold is_list_gen, in_mro, MRO_CHAIN_GEN, IS_LIST_NAMES_GEN. cbn [mro_m mtest_holds mans_val mro_names existsb].
  destruct (str_in n BUILTIN_CLASS_NAMES); cbn [str_in existsb]; [|reflexivity]. rewrite (String.eqb_sym "list" n), H. reflexivity.
Qed.
Lemma is_tuple_gen_cls n : String.eqb n "tuple" = false -> is_tuple_gen (RCls n) = false.
Proof.
  intros H. unfold is_tuple_gen, in_mro, MRO_CHAIN_GEN, IS_TUPLE_NAMES_GEN. cbn [mro_m mtest_holds mans_val mro_names existsb].
  destruct (str_in n BUILTIN_CLASS_NAMES); cbn [str_in existsb]; [|reflexivity]. rewrite (String.eqb_sym "tuple" n), H. reflexivity.
Qed.
Lemma is_dict_gen_cls n : String.eqb n "dict" = false -> is_dict_gen (RCls n) = false.
Proof.
  intros H. unfold is_dict_gen, in_mro, MRO_CHAIN_GEN, IS_DICT_NAMES_GEN. cbn [mro_m mtest_holds mans_val mro_names existsb].
  destruct (str_in n BUILTIN_CLASS_NAMES) eqn:Eb; cbn [str_in existsb]; [|reflexivity].
  rewrite (String.eqb_sym "dict" n), H.
  destruct (String.eqb "Mapping" n) eqn:E; [|reflexivity].
  apply String.eqb_eq in E. subst n. discriminate Eb.
Qed.

Lemma norm_cls n :
  String.eqb n "list" = false -> String.eqb n "tuple" = false -> String.eqb n "dict" = false ->
  norm_gen (RCls n) = Ok (RCls n).
Proof.
  intros H1 H2 H3. unfold norm_gen. cbn [norm]. unfold NORM_TABLE_GEN, NORM_ELSE_GEN. cbn [pick ntest_holds].
  rewrite (is_list_gen_cls n H1), (is_tuple_gen_cls n H2), (is_dict_gen_cls n H3).
  destruct (str_in n BUILTIN_CLASS_NAMES); reflexivity.
Qed.

Lemma norm_list al a : norm_gen (RGen al OList [a]) = bind (norm_gen a) (fun a' => Ok (RGen false OList [a'])).
Proof. destruct al; reflexivity. Qed.

Lemma norm_tuple al l :
  norm_gen (RGen al OTuple l) = bind (mapM norm_gen l) (fun l' => Ok (RGen false OTuple l')).
Proof.
  unfold norm_gen at 1. cbn [norm]. fold norm_gen. rewrite norm_go_map.
  unfold NORM_TABLE_GEN, NORM_ELSE_GEN. cbn [pick ntest_holds]. rewrite is_list_gen_gen, is_tuple_gen_gen.
  cbn [origin_eqb run_act]. now rewrite seq_res_map.
Qed.

Lemma norm_dict al k v :
  norm_gen (RGen al ODict [k; v]) =
  bind (norm_gen k) (fun k' => bind (norm_gen v) (fun v' => Ok (RGen false ODict [k'; v']))).
Proof. destruct al; reflexivity. Qed.

Lemma norm_utype l : norm_gen (RUType l) = bind (mapM norm_gen l) mk_tunion.
Proof.
  unfold norm_gen at 1. cbn [norm]. fold norm_gen. rewrite norm_go_map.
  unfold NORM_TABLE_GEN, NORM_ELSE_GEN. cbn [pick ntest_holds run_act]. now rewrite seq_res_map.
Qed.

Lemma mapM_map_ok {A B C} (f : B -> res C) (g : A -> B) (h : A -> C) l :
  (forall x, In x l -> f (g x) = Ok (h x)) -> mapM f (map g l) = Ok (map h l).
Proof.
  induction l as [|x l IH]; intros H; [reflexivity|].
  cbn [map mapM]. rewrite (H x (or_introl eq_refl)). cbn [bind]. rewrite IH by (intros y Hy; apply H; now right).
  reflexivity.
Qed.

Lemma existsb_false_In {A} (p : A -> bool) l x : existsb p l = false -> In x l -> p x = false.
Proof.
  intros H Hin. destruct (p x) eqn:E; [|reflexivity].
  assert (existsb p l = true) by (apply existsb_exists; now exists x). congruence.
Qed.

(* the source has the arm that lets the `...` of tuple[X, ...] through (regenerated fact; the repaired shape) *)
Lemma ellipsis_handled : NORM_HANDLES_ELLIPSIS_GEN = true.
Proof. reflexivity. Qed.

Lemma norm_dots : norm_gen REllipsis = Ok REllipsis.
Proof. reflexivity. Qed.

(* normalising the PEP 604 / builtin-generic runtime form gives the typing.Union form, at every depth, for every
   type of the CLI grammar (Tuple[X, ...] included) *)
Theorem norm_rt604 c : wf_cty c = true -> norm_gen (rt Sp604 c) = Ok (rt SpBuiltin c).
Proof.
  induction c as [n| | |a IH|l IH|a IH|k v IHk IHv|l IH|] using cty_ind2; intros Hw; try discriminate.
  - cbn [rt]. cbn [wf_cty] in Hw.
    apply norm_cls; now apply (wf_name_not_reserved n).
  - cbn [wf_cty] in *. cbn [rt]. rewrite norm_list, IH by assumption. reflexivity.
  - cbn [wf_cty] in *. apply andb_true_iff in Hw as [_ Hw]. rewrite forallb_forall in Hw.
    rewrite Forall_forall in IH. cbn [rt]. rewrite norm_tuple.
    rewrite (mapM_map_ok norm_gen (rt Sp604) (rt SpBuiltin)); [reflexivity|].
    intros x Hx. apply IH; auto.
  - cbn [wf_cty] in *. cbn [rt]. rewrite norm_tuple. cbn [mapM]. rewrite IH by assumption. cbn [bind].
    rewrite norm_dots. reflexivity.
  - cbn [wf_cty] in *. apply andb_true_iff in Hw as [Hk Hvv].
    cbn [rt]. rewrite norm_dict, IHk, IHv by assumption. reflexivity.
  - destruct (wf_union_parts l Hw) as [Hlen [_ [Hnd Hm]]].
    cbn [rt]. rewrite norm_utype. fold (mrt Sp604). fold (mrt SpBuiltin).
    rewrite (mapM_map_ok norm_gen (mrt Sp604) (mrt SpBuiltin)).
    + cbn [bind]. now apply mk_tunion_members.
    + intros x Hx. rewrite forallb_forall in Hm. specialize (Hm x Hx). unfold member_ok in Hm. unfold mrt.
      apply orb_true_iff in Hm as [Hn|Hx2].
      * destruct x; try discriminate. reflexivity.
      * apply andb_true_iff in Hx2 as [_ Hxw]. rewrite !rt_none_iff by exact Hxw.
        rewrite Forall_forall in IH. apply IH; auto.
Qed.

(* ---------- how a grammar union is written in the typing / builtin spellings ---------- *)
Lemma is_tnone_render sp c : member_ok c = true -> is_tnone (render sp c) = is_cnone c.
Proof.
  unfold member_ok. intros H. apply orb_true_iff in H as [H|H].
  - destruct c; try discriminate. reflexivity.
  - apply andb_true_iff in H as [_ Hw]. destruct c; try discriminate Hw; try reflexivity.
    + cbn [wf_cty] in Hw. cbn [render is_tnone is_cnone]. now apply (wf_name_not_reserved n "None").
    + destruct sp; cbn [render]; try reflexivity; destruct (existsb is_tnone _); try reflexivity;
        destruct (filter _ _) as [|? [|? ?]]; reflexivity.
Qed.

Lemma existsb_tnone_render sp l :
  forallb member_ok l = true -> existsb is_tnone (map (render sp) l) = existsb is_cnone l.
Proof.
  induction l as [|c l IH]; intros H; [reflexivity|]. simpl in H. apply andb_true_iff in H as [Hc Hl].
  cbn [map existsb]. now rewrite is_tnone_render, IH.
Qed.

Lemma filter_tnone_render sp l :
  forallb member_ok l = true ->
  filter (fun t => negb (is_tnone t)) (map (render sp) l) = map (render sp) (filter (fun c => negb (is_cnone c)) l).
Proof.
  induction l as [|c l IH]; intros H; [reflexivity|]. simpl in H. apply andb_true_iff in H as [Hc Hl].
  cbn [map filter]. rewrite is_tnone_render by exact Hc. destruct (is_cnone c); cbn [negb map]; now rewrite IH.
Qed.

Lemma none_last_split l :
  none_only_last l = true -> existsb is_cnone l = true ->
  exists l', l = l' ++ [CNone] /\ existsb is_cnone l' = false.
Proof.
  unfold none_only_last. intros H1 H2.
  assert (E : existsb is_cnone (rev l) = true).
  { apply existsb_exists in H2 as [x [Hx Hn]]. apply existsb_exists. exists x. split; [now apply in_rev in Hx|exact Hn]. }
  destruct (rev l) as [|x r] eqn:Er; [discriminate|].
  apply negb_true_iff in H1. cbn [existsb] in E. rewrite H1, orb_false_r in E.
  destruct x; try discriminate. exists (rev r). split.
  - rewrite <- (rev_involutive l), Er. reflexivity.
  - destruct (existsb is_cnone (rev r)) eqn:E2; [|reflexivity].
    apply existsb_exists in E2 as [y [Hy Hn]]. apply in_rev in Hy.
    assert (existsb is_cnone r = true) by (apply existsb_exists; now exists y). congruence.
Qed.

Lemma filter_nonnone_id l : existsb is_cnone l = false -> filter (fun c => negb (is_cnone c)) l = l.
Proof.
  induction l as [|c l IH]; intros H; [reflexivity|]. cbn [existsb] in H. apply orb_false_iff in H as [Hc Hl].
  cbn [filter]. rewrite Hc. cbn [negb]. now rewrite IH.
Qed.

Inductive union_written (sp : spelling) (l : list cty) : Prop :=
| UWbar : sp = Sp604 -> render sp (CUnion l) = TBar (map (render sp) l) -> union_written sp l
| UWunion : sp <> Sp604 -> existsb is_cnone l = false ->
            render sp (CUnion l) = TSub "Union" (map (render sp) l) -> union_written sp l
| UWopt1 a : sp <> Sp604 -> l = [a; CNone] -> is_cnone a = false ->
             render sp (CUnion l) = TSub "Optional" [render sp a] -> union_written sp l
| UWoptn l' : sp <> Sp604 -> l = l' ++ [CNone] -> 2 <= List.length l' -> existsb is_cnone l' = false ->
              render sp (CUnion l) = TSub "Optional" [TSub "Union" (map (render sp) l')] -> union_written sp l.

Lemma render_union_eq sp l :
  render sp (CUnion l) =
  match sp with
  | Sp604 => TBar (map (render sp) l)
  | _ => if existsb is_tnone (map (render sp) l) then
           match filter (fun t => negb (is_tnone t)) (map (render sp) l) with
           | [a] => TSub "Optional" [a]
           | non => TSub "Optional" [TSub "Union" non]
           end
         else TSub "Union" (map (render sp) l)
  end.
Proof. destruct sp; reflexivity. Qed.

Lemma render_union_nb sp l :
  sp <> Sp604 -> forallb member_ok l = true ->
  render sp (CUnion l) =
  if existsb is_cnone l then
    match map (render sp) (filter (fun c => negb (is_cnone c)) l) with
    | [a] => TSub "Optional" [a]
    | non => TSub "Optional" [TSub "Union" non]
    end
  else TSub "Union" (map (render sp) l).
Proof.
  intros Hsp Hm. rewrite render_union_eq.
  destruct sp; [| |congruence]; rewrite existsb_tnone_render, filter_tnone_render by exact Hm; reflexivity.
Qed.

Lemma render_union sp l : wf_cty (CUnion l) = true -> union_written sp l.
Proof.
  intros Hw. destruct (wf_union_parts l Hw) as [Hlen [Hlast [Hnd Hm]]].
  assert (Hsp : sp = Sp604 \/ sp <> Sp604) by (destruct sp; [right|right|left]; congruence).
  destruct Hsp as [->|Hsp]; [apply UWbar; reflexivity|].
  pose proof (render_union_nb sp l Hsp Hm) as E.
  destruct (existsb is_cnone l) eqn:En; [|now apply UWunion].
  destruct (none_last_split l Hlast En) as [l' [-> Hl']].
  rewrite filter_app, (filter_nonnone_id l' Hl') in E. cbn [filter is_cnone negb] in E. rewrite app_nil_r in E.
  destruct l' as [|a [|b l']].
  - cbn [List.length app] in Hlen. lia.
  - eapply UWopt1; [exact Hsp|reflexivity| |exact E].
    cbn [existsb] in Hl'. now apply orb_false_iff in Hl' as [Hl' _].
  - eapply UWoptn; [exact Hsp|reflexivity|cbn [List.length]; lia|exact Hl'|exact E].
Qed.

(* ---------- the meaning of a written annotation does not depend on the spelling ---------- *)
Lemma cty_eqb_eq a : forall b, cty_eqb a b = true -> a = b.
Proof.
  induction a as [n| | |a IH|l IH|a IH|k v IHk IHv|l IH|] using cty_ind2; intros b H; destruct b; try discriminate; simpl in H.
  - apply String.eqb_eq in H. now subst.
  - reflexivity.
  - reflexivity.
  - f_equal. now apply IH.
  - f_equal. now apply (list_go_eq cty_eqb).
  - f_equal. now apply IH.
  - apply andb_true_iff in H as [H1 H2]. f_equal; [now apply IHk|now apply IHv].
  - f_equal. now apply (list_go_eq cty_eqb).
  - reflexivity.
Qed.

Lemma cdedupe_nodup l : forall seen, NoDup l -> (forall x, In x l -> ~ In x seen) -> cdedupe l seen = l.
Proof.
  induction l as [|x l IH]; intros seen Hnd Hs; [reflexivity|].
  inversion Hnd; subst. simpl.
  destruct (cty_in x seen) eqn:E.
  - unfold cty_in in E. apply existsb_exists in E as [y [Hy He]]. apply cty_eqb_eq in He. subst.
    exfalso. apply (Hs y); [now left|exact Hy].
  - f_equal. apply IH; [assumption|]. intros y Hy Hin. apply in_app_or in Hin as [Hin|[->|[]]].
    + apply (Hs y); [now right|exact Hin].
    + contradiction.
Qed.

Lemma cunion_flat L M : flat_map cmembers L = M -> NoDup M -> 2 <= List.length M -> cunion L = CUnion M.
Proof.
  intros E Hnd Hlen. unfold cunion. rewrite E, cdedupe_nodup; [|exact Hnd|intros x _ []].
  destruct M as [|a [|b M]]; cbn [List.length] in Hlen; try lia. reflexivity.
Qed.

Lemma flat_cmembers_id l : (forall c, In c l -> is_cunion c = false) -> flat_map cmembers l = l.
Proof.
  induction l as [|c l IH]; intros H; [reflexivity|]. cbn [flat_map].
  rewrite IH by (intros x Hx; apply H; now right).
  specialize (H c (or_introl eq_refl)). destruct c; try discriminate; reflexivity.
Qed.

Lemma member_not_union c : member_ok c = true -> is_cunion c = false.
Proof.
  unfold member_ok. intros H. apply orb_true_iff in H as [H|H]; [destruct c; try discriminate; reflexivity|].
  apply andb_true_iff in H as [H _]. now apply negb_true_iff in H.
Qed.

Lemma denote_bar ts : denote (TBar ts) = cunion (map denote ts).
Proof. reflexivity. Qed.

Lemma denote_union args : denote (TSub "Union" args) = cunion (map denote args).
Proof. reflexivity. Qed.

Lemma denote_optional a : denote (TSub "Optional" [a]) = cunion [denote a; CNone].
Proof. reflexivity. Qed.

Lemma denote_list sp a : denote (TSub (gen_name sp OList) [a]) = CList (denote a).
Proof. destruct sp; reflexivity. Qed.

Lemma denote_dict sp k v : denote (TSub (gen_name sp ODict) [k; v]) = CDict (denote k) (denote v).
Proof. destruct sp; reflexivity. Qed.

Lemma denote_tuplevar sp a : denote (TSub (gen_name sp OTuple) [a; TName "..."]) = CTupleVar (denote a).
Proof. destruct sp; reflexivity. Qed.

Lemma denote_tuple sp args :
  args <> [] -> (forall a d, args = [a; TName d] -> String.eqb d "..." = false) ->
  denote (TSub (gen_name sp OTuple) args) = CTuple (map denote args).
Proof.
  intros Hne Hd.
  assert (Hdens : forall l, (fix dens (l : list texp) : list cty :=
                               match l with [] => [] | x :: r => denote x :: dens r end) l = map denote l).
  { induction l as [|x l IH]; [reflexivity|]. cbn [map]. now rewrite <- IH. }
  destruct args as [|a [|b [|c r]]]; [congruence| | |].
  - destruct sp; reflexivity.
  - destruct b as [d| |].
    + specialize (Hd a d eq_refl). destruct sp; cbn; rewrite Hd; reflexivity.
    + destruct sp; cbn; now rewrite Hdens.
    + destruct sp; cbn; now rewrite Hdens.
  - destruct b; destruct sp; cbn; now rewrite Hdens.
Qed.

Lemma render_name_not_dots sp b d : wf_cty b = true -> render sp b = TName d -> String.eqb d "..." = false.
Proof.
  intros Hw E. destruct b; cbn [wf_cty] in Hw; try discriminate Hw.
  - cbn [render] in E. injection E as <-. now apply (wf_name_not_reserved n "...").
  - cbn [render] in E. discriminate E.
  - cbn [render] in E. discriminate E.
  - cbn [render] in E. discriminate E.
  - cbn [render] in E. discriminate E.
  - rewrite render_union_eq in E. destruct sp; try discriminate E; destruct (existsb is_tnone _); try discriminate E;
      destruct (filter _ _) as [|? [|? ?]]; discriminate E.
Qed.

Lemma NoDup_app_l {A} (a b : list A) : NoDup (a ++ b) -> NoDup a.
Proof.
  induction a as [|x a IH]; intros H; [constructor|]. inversion H; subst. constructor.
  - intros Hin. apply H2. apply in_or_app. now left.
  - now apply IH.
Qed.

Theorem denote_render sp c : wf_cty c = true -> denote (render sp c) = c.
Proof.
  induction c as [n| | |a IH|l IH|a IH|k v IHk IHv|l IH|] using cty_ind2; intros Hw; try discriminate.
  - cbn [wf_cty] in Hw. cbn [render denote].
    now rewrite (wf_name_not_reserved n "None" Hw eq_refl), (wf_name_not_reserved n "..." Hw eq_refl).
  - cbn [wf_cty] in Hw. cbn [render]. now rewrite denote_list, IH.
  - cbn [wf_cty] in Hw. apply andb_true_iff in Hw as [Hne Hl]. rewrite forallb_forall in Hl. rewrite Forall_forall in IH.
    cbn [render]. rewrite denote_tuple.
    + f_equal. rewrite map_map. apply map_id_Forall. rewrite Forall_forall. intros x Hx. apply IH; auto.
    + destruct l; [discriminate|discriminate].
    + intros a d E. destruct l as [|x [|y [|z r]]]; try discriminate. cbn [map] in E. injection E as _ E.
      apply (render_name_not_dots sp y d); [apply Hl; right; now left|exact E].
  - cbn [wf_cty] in Hw. cbn [render]. now rewrite denote_tuplevar, IH.
  - cbn [wf_cty] in Hw. apply andb_true_iff in Hw as [Hk Hv]. cbn [render]. now rewrite denote_dict, IHk, IHv.
  - destruct (wf_union_parts l Hw) as [Hlen [Hlast [Hnd Hm]]].
    assert (Hmem : forall l0, (forall x, In x l0 -> In x l) -> map denote (map (render sp) l0) = l0).
    { intros l0 Hsub. rewrite map_map. apply map_id_Forall. rewrite Forall_forall. intros x Hx0. pose proof (Hsub x Hx0) as Hx.
      rewrite forallb_forall in Hm. specialize (Hm x Hx). unfold member_ok in Hm. apply orb_true_iff in Hm as [Hn|Hx2].
      - destruct x; try discriminate. reflexivity.
      - apply andb_true_iff in Hx2 as [_ Hxw]. rewrite Forall_forall in IH. now apply IH. }
    assert (Hnu : forall c, In c l -> is_cunion c = false).
    { intros c Hc. rewrite forallb_forall in Hm. now apply member_not_union, Hm. }
    destruct (render_union sp l Hw) as [Hsp E|Hsp Hn E|a Hsp El Ha E|l' Hsp El Hl' Hn E]; rewrite E.
    + rewrite denote_bar, Hmem by auto. apply cunion_flat; [now apply flat_cmembers_id|exact Hnd|exact Hlen].
    + rewrite denote_union, Hmem by auto. apply cunion_flat; [now apply flat_cmembers_id|exact Hnd|exact Hlen].
    + subst l. rewrite denote_optional.
      assert (Ea : denote (render sp a) = a).
      { specialize (Hmem [a]). cbn [map] in Hmem. assert (H0 : [denote (render sp a)] = [a]).
        { apply Hmem. intros x [<-|[]]. now left. } now injection H0. }
      rewrite Ea. apply cunion_flat; [now apply flat_cmembers_id|exact Hnd|exact Hlen].
    + subst l. rewrite denote_optional, denote_union, Hmem by (intros x Hx; apply in_or_app; now left).
      assert (Hnd' : NoDup l') by (now apply NoDup_app_l in Hnd).
      assert (Hnu' : forall c, In c l' -> is_cunion c = false) by (intros c Hc; apply Hnu; apply in_or_app; now left).
      rewrite (cunion_flat l' l' (flat_cmembers_id l' Hnu') Hnd' Hl').
      apply cunion_flat; [|exact Hnd|exact Hlen].
      cbn [flat_map cmembers]. now rewrite app_nil_r.
Qed.

(* ---------- what Python builds from each spelling ---------- *)
Definition env_ok (env : list (string * string)) : bool := forallb (fun kv => String.eqb (fst kv) (snd kv)) env.

Lemma rename_id env n : env_ok env = true -> rename env n = n.
Proof.
  unfold rename, env_ok. induction env as [|[k v] env IH]; intros H; [reflexivity|].
  cbn [forallb fst snd] in H. apply andb_true_iff in H as [Hkv He]. cbn [assoc].
  destruct (String.eqb k n) eqn:E; [|now apply IH].
  apply String.eqb_eq in E, Hkv. congruence.
Qed.

Lemma eval_sub env n args :
  eval env (TSub n args) =
  bind (mapM (eval env) args) (fun rs =>
    match head_of (rename env n) with
    | Some (HGen true o) => if arity_ok o (List.length rs) then Ok (RGen true o (map none_to_cls rs)) else Err type_error
    | Some (HGen false o) => Ok (RGen false o rs)
    | Some HOptional => match rs with [a] => mk_tunion [a; RCls "NoneType"] | _ => Err type_error end
    | Some HUnion => mk_tunion rs
    | None => Err type_error
    end).
Proof. reflexivity. Qed.

Lemma eval_bar env ts :
  eval env (TBar ts) =
  bind (mapM (eval env) ts) (fun rs => match rs with [] => Err (Raise "SyntaxError") | a :: r => fold_or a r end).
Proof. reflexivity. Qed.

Lemma head_of_wf n : wf_name n = true -> head_of n = None.
Proof.
  intros H. unfold head_of.
  rewrite (wf_name_not_reserved n "List" H eq_refl), (wf_name_not_reserved n "list" H eq_refl),
    (wf_name_not_reserved n "Tuple" H eq_refl), (wf_name_not_reserved n "tuple" H eq_refl),
    (wf_name_not_reserved n "Dict" H eq_refl), (wf_name_not_reserved n "dict" H eq_refl),
    (wf_name_not_reserved n "Set" H eq_refl), (wf_name_not_reserved n "set" H eq_refl),
    (wf_name_not_reserved n "Type" H eq_refl), (wf_name_not_reserved n "type" H eq_refl),
    (wf_name_not_reserved n "Optional" H eq_refl), (wf_name_not_reserved n "Union" H eq_refl).
  reflexivity.
Qed.

Lemma head_of_gen sp o : head_of (gen_name sp o) = Some (HGen (match sp with SpTyping => true | _ => false end) o).
Proof. destruct sp, o; reflexivity. Qed.

Lemma map_none_to_cls_rt sp l : forallb wf_cty l = true -> map none_to_cls (map (rt sp) l) = map (rt sp) l.
Proof.
  intros H. rewrite map_map. apply map_ext_in. intros c Hc. rewrite forallb_forall in H. now apply rt_none_iff, H.
Qed.

Lemma mk_tunion_norm l l' : map none_to_cls l = map none_to_cls l' -> mk_tunion l = mk_tunion l'.
Proof. unfold mk_tunion. now intros ->. Qed.

Lemma none_to_cls_idem r : none_to_cls (none_to_cls r) = none_to_cls r.
Proof. destruct r; reflexivity. Qed.

Lemma rt604_plain c : member_ok c = true ->
  typingish (rt Sp604 c) = false /\ unionable (rt Sp604 c) = true.
Proof.
  unfold member_ok. intros H. apply orb_true_iff in H as [H|H].
  - destruct c; try discriminate. split; reflexivity.
  - apply andb_true_iff in H as [_ Hw]. destruct c; try discriminate Hw; split; reflexivity.
Qed.

Lemma bin_or_plain a b :
  typingish a = false -> typingish b = false -> unionable a = true -> unionable b = true ->
  (a = RNone -> b = RNone -> False) ->
  bin_or a b = match rdedupe (flat_map union_members [none_to_cls a; none_to_cls b]) [] with
               | [] => Err type_error
               | [x] => Ok x
               | l => Ok (RUType l)
               end.
Proof.
  intros Ha Hb Hua Hub Hn. unfold bin_or. rewrite Ha, Hb, Hua, Hub. cbn [orb andb].
  destruct a; try discriminate Hua; destruct b; try discriminate Hub; try reflexivity.
  exfalso. now apply Hn.
Qed.

Lemma fold_or_acc accs rest :
  2 <= List.length accs -> NoDup (accs ++ map (mrt Sp604) rest) -> forallb member_ok rest = true ->
  fold_or (RUType accs) (map (rt Sp604) rest) = Ok (RUType (accs ++ map (mrt Sp604) rest)).
Proof.
  revert accs. induction rest as [|c rest IH]; intros accs Hlen Hnd Hm.
  - cbn [map fold_or]. now rewrite app_nil_r.
  - cbn [forallb] in Hm. apply andb_true_iff in Hm as [Hc Hm]. cbn [map fold_or].
    destruct (rt604_plain c Hc) as [Ht Hu]. destruct (mrt_not_union Sp604 c Hc) as [Hum _].
    rewrite bin_or_plain; [|reflexivity|exact Ht|reflexivity|exact Hu|discriminate].
    cbn [none_to_cls flat_map union_members]. fold (mrt Sp604 c). rewrite Hum, app_nil_r.
    assert (Hnd1 : NoDup (accs ++ [mrt Sp604 c])).
    { cbn [map] in Hnd. replace (accs ++ mrt Sp604 c :: map (mrt Sp604) rest)
        with ((accs ++ [mrt Sp604 c]) ++ map (mrt Sp604) rest) in Hnd by (now rewrite <- app_assoc).
      now apply NoDup_app_l in Hnd. }
    rewrite rdedupe_nodup; [|exact Hnd1|intros x _ []].
    destruct (accs ++ [mrt Sp604 c]) as [|x [|y l0]] eqn:E.
    + destruct accs; discriminate.
    + destruct accs as [|? [|? ?]]; cbn [List.length] in Hlen; try lia; discriminate.
    + cbn [bind]. rewrite <- E. rewrite IH.
      * now rewrite <- app_assoc.
      * rewrite app_length. cbn [List.length]. lia.
      * cbn [map] in Hnd. now rewrite <- app_assoc.
      * exact Hm.
Qed.

Lemma fold_or_members a b rest :
  NoDup (a :: b :: rest) -> forallb member_ok (a :: b :: rest) = true ->
  fold_or (rt Sp604 a) (map (rt Sp604) (b :: rest)) = Ok (RUType (map (mrt Sp604) (a :: b :: rest))).
Proof.
  intros Hnd Hm. pose proof (NoDup_mrt Sp604 _ Hnd Hm) as Hnd'.
  cbn [forallb] in Hm. apply andb_true_iff in Hm as [Ha Hm]. apply andb_true_iff in Hm as [Hb Hm].
  cbn [map fold_or].
  destruct (rt604_plain a Ha) as [Hta Hua]. destruct (rt604_plain b Hb) as [Htb Hub].
  destruct (mrt_not_union Sp604 a Ha) as [Hma _]. destruct (mrt_not_union Sp604 b Hb) as [Hmb _].
  rewrite bin_or_plain; [|exact Hta|exact Htb|exact Hua|exact Hub|].
  - cbn [flat_map]. fold (mrt Sp604 a). fold (mrt Sp604 b). rewrite Hma, Hmb. cbn [app].
    cbn [map] in Hnd'.
    rewrite rdedupe_nodup; [|inversion Hnd' as [|? ? H1 H2]; inversion H2; subst; constructor;
                              [intros [E|[]]; apply H1; now left|constructor; [intros []|constructor]]
                            |intros x _ []].
    cbn [bind]. rewrite (fold_or_acc [mrt Sp604 a; mrt Sp604 b] rest); [reflexivity|cbn [List.length]; lia|exact Hnd'|exact Hm].
  - intros Ea Eb. inversion Hnd as [|? ? H1 _]. apply H1. left.
    destruct a; try discriminate Ea; destruct b; try discriminate Eb; try reflexivity;
      cbn [rt] in Ea, Eb; discriminate.
Qed.

(* the runtime object of each spelling of a grammar type (names bound as usual) *)
Theorem eval_render env sp c : env_ok env = true -> wf_cty c = true -> eval env (render sp c) = Ok (rt sp c).
Proof.
  intros He. induction c as [n| | |a IH|l IH|a IH|k v IHk IHv|l IH|] using cty_ind2; intros Hw; try discriminate.
  - cbn [wf_cty] in Hw. cbn [render eval rt]. rewrite rename_id by exact He. cbv zeta.
    rewrite (wf_name_not_reserved n "None" Hw eq_refl), (wf_name_not_reserved n "..." Hw eq_refl).
    now rewrite head_of_wf.
  - cbn [wf_cty] in Hw. cbn [render]. rewrite eval_sub. cbn [mapM]. rewrite IH by exact Hw. cbn [bind].
    rewrite rename_id, head_of_gen by exact He. cbn [rt].
    destruct sp; cbn [List.length arity_ok Nat.eqb map]; rewrite ?rt_none_iff by exact Hw; reflexivity.
  - cbn [wf_cty] in Hw. apply andb_true_iff in Hw as [Hne Hl]. cbn [render]. rewrite eval_sub.
    rewrite (mapM_map_ok (eval env) (render sp) (rt sp)).
    + cbn [bind]. rewrite rename_id, head_of_gen by exact He. cbn [rt].
      destruct sp; try reflexivity. rewrite map_length.
      destruct l as [|x l]; [discriminate|]. cbn [List.length arity_ok Nat.ltb Nat.leb].
      now rewrite map_none_to_cls_rt.
    + intros x Hx. rewrite Forall_forall in IH. rewrite forallb_forall in Hl. auto.
  - cbn [wf_cty] in Hw. cbn [render]. rewrite eval_sub. cbn [mapM]. rewrite IH by exact Hw. cbn [bind eval].
    rewrite (rename_id env "...") by exact He. cbv zeta. cbn [String.eqb Ascii.eqb Bool.eqb andb bind].
    rewrite rename_id, head_of_gen by exact He. cbn [rt].
    destruct sp; cbn [List.length arity_ok Nat.ltb Nat.leb map none_to_cls]; rewrite ?rt_none_iff by exact Hw; reflexivity.
  - cbn [wf_cty] in Hw. apply andb_true_iff in Hw as [Hk Hv]. cbn [render]. rewrite eval_sub. cbn [mapM].
    rewrite IHk, IHv by assumption. cbn [bind]. rewrite rename_id, head_of_gen by exact He. cbn [rt].
    destruct sp; cbn [List.length arity_ok Nat.eqb map]; rewrite ?rt_none_iff by assumption; reflexivity.
  - destruct (wf_union_parts l Hw) as [Hlen [Hlast [Hnd Hm]]].
    assert (Hmem : forall l0, (forall x, In x l0 -> In x l) -> mapM (eval env) (map (render sp) l0) = Ok (map (rt sp) l0)).
    { intros l0 Hsub. apply mapM_map_ok. intros x Hx0. pose proof (Hsub x Hx0) as Hx.
      rewrite forallb_forall in Hm. specialize (Hm x Hx). unfold member_ok in Hm. apply orb_true_iff in Hm as [Hn|Hx2].
      - destruct x; try discriminate. cbn [render eval rt]. rewrite rename_id by exact He. reflexivity.
      - apply andb_true_iff in Hx2 as [_ Hxw]. rewrite Forall_forall in IH. now apply IH. }
    assert (Hrt : forall s, s <> Sp604 -> rt s (CUnion l) = RTUnion (map (mrt s) l)) by (intros s Hs; destruct s; try congruence; reflexivity).
    destruct (render_union sp l Hw) as [Hsp E|Hsp Hn E|a Hsp El Ha E|l' Hsp El Hl' Hn E]; rewrite E.
    + subst sp. rewrite eval_bar, Hmem by auto. cbn [bind].
      destruct l as [|a [|b rest]]; cbn [List.length] in Hlen; try lia.
      exact (fold_or_members a b rest Hnd Hm).
    + rewrite eval_sub, Hmem by auto. cbn [bind]. rewrite (rename_id env "Union") by exact He.
      cbn [head_of String.eqb Ascii.eqb Bool.eqb andb].
      rewrite (mk_tunion_norm _ (map (mrt sp) l)).
      * rewrite mk_tunion_members by assumption. now rewrite Hrt.
      * rewrite !map_map. apply map_ext. intros c. unfold mrt. now rewrite none_to_cls_idem.
    + subst l. rewrite eval_sub. change [render sp a] with (map (render sp) [a]).
      rewrite (Hmem [a]) by (intros x [<-|[]]; now left). cbn [map bind].
      rewrite (rename_id env "Optional") by exact He. cbn [head_of String.eqb Ascii.eqb Bool.eqb andb].
      rewrite (mk_tunion_norm _ (map (mrt sp) [a; CNone])).
      * rewrite mk_tunion_members by assumption. now rewrite Hrt.
      * cbn [map]. unfold mrt. now rewrite none_to_cls_idem.
    + subst l. rewrite eval_sub. cbn [mapM]. rewrite eval_sub.
      rewrite Hmem by (intros x Hx; apply in_or_app; now left). cbn [bind].
      rewrite (rename_id env "Union"), (rename_id env "Optional") by exact He.
      cbn [head_of String.eqb Ascii.eqb Bool.eqb andb].
      assert (Hnd' : NoDup l') by (now apply NoDup_app_l in Hnd).
      assert (Hm' : forallb member_ok l' = true).
      { rewrite forallb_forall in *. intros x Hx. apply Hm. apply in_or_app. now left. }
      rewrite (mk_tunion_norm _ (map (mrt sp) l')).
      2:{ rewrite !map_map. apply map_ext. intros c. unfold mrt. now rewrite none_to_cls_idem. }
      rewrite mk_tunion_members by assumption. cbn [bind].
      rewrite Hrt by exact Hsp. unfold mk_tunion. cbn [map none_to_cls flat_map union_members].
      rewrite app_nil_r.
      assert (E2 : map (mrt sp) l' ++ [RCls "NoneType"] = map (mrt sp) (l' ++ [CNone])) by (rewrite map_app; reflexivity).
      cbn [app]. rewrite E2. rewrite rdedupe_nodup; [|now apply NoDup_mrt|intros x _ []].
      destruct (map (mrt sp) (l' ++ [CNone])) as [|x [|y r]] eqn:E3; [| |reflexivity].
      * apply (f_equal (@List.length rty)) in E3. rewrite map_length in E3. cbn [List.length] in E3. lia.
      * apply (f_equal (@List.length rty)) in E3. rewrite map_length in E3. cbn [List.length] in E3. lia.
Qed.

(* ---------- the resolution pipeline: every rendering of a grammar type resolves to the same canonical type ---------- *)
Lemma forward_refs_ok : env_ok FORWARD_REFS_GEN = true.
Proof. reflexivity. Qed.

Lemma rt_utype sp c l : rt sp c = RUType l -> sp = Sp604 /\ is_cunion c = true.
Proof. destruct c; try discriminate; destruct sp; try discriminate. intros _. split; reflexivity. Qed.

Lemma bind_ok_id {A} (x : res A) : bind x (fun r => Ok r) = x.
Proof. destruct x; reflexivity. Qed.

(* the steps of get_field_type_from_annotations (regenerated), run on an evaluated hint *)
Lemma run_steps_gen initvar r :
  run_steps is_list_gen is_tuple_gen is_dict_gen NORM_TABLE_GEN NORM_ELSE_GEN initvar RESOLVE_STEPS_GEN r =
  match r with RUType _ => if initvar then Ok r else norm_gen r | _ => Ok r end.
Proof.
  unfold RESOLVE_STEPS_GEN. cbn [run_steps apply_step bind]. fold norm_gen. rewrite bind_ok_id. reflexivity.
Qed.

Theorem resolve_render sp postponed initvar c :
  wf_cty c = true -> exists r, resolve_gen postponed initvar (render sp c) = Ok r /\ canon r = c.
Proof.
  intros Hw. unfold resolve_gen, resolve. destruct postponed.
  - rewrite (eval_render FORWARD_REFS_GEN sp c forward_refs_ok Hw). cbn [bind].
    rewrite run_steps_gen, (rt_none_iff sp c Hw).
    destruct (rt sp c) as [n| | |al o args|args|args] eqn:E;
      try (eexists; split; [reflexivity|rewrite <- E; now apply canon_rt]).
    destruct (rt_utype sp c args E) as [-> Hu].
    destruct initvar; [eexists; split; [reflexivity|rewrite <- E; now apply canon_rt]|].
    rewrite <- E. rewrite (norm_rt604 c Hw). eexists. split; [reflexivity|now apply canon_rt].
  - rewrite (eval_render [] sp c eq_refl Hw). eexists. split; [reflexivity|now apply canon_rt].
Qed.

(* ====================================================================================================== *)
(* D. the field list of a class in an inheritance chain                                                    *)
(* ====================================================================================================== *)
Section FieldProofs.
  Context {A : Type}.
  Implicit Types l acc x y c kvs : list (string * A).
  Implicit Types p chain : list (list (string * A)).

  Fixpoint lookup (k : string) l : option A :=
    match l with [] => None | (k', v) :: r => if String.eqb k' k then Some v else lookup k r end.

  Definition keys l : list string := map fst l.

  Lemma keys_set_field kv l :
    keys (set_field kv l) = if str_in (fst kv) (keys l) then keys l else keys l ++ [fst kv].
  Proof.
    induction l as [|[k v] l IH]; [reflexivity|]. cbn [set_field keys map fst].
    unfold str_in. cbn [existsb]. rewrite (String.eqb_sym (fst kv) k).
    destruct (String.eqb k (fst kv)) eqn:E; cbn [orb keys map fst]; [reflexivity|].
    fold (keys (set_field kv l)). fold (keys l). rewrite IH. fold (str_in (fst kv) (keys l)).
    destruct (str_in (fst kv) (keys l)); reflexivity.
  Qed.

  Lemma lookup_set_field kv l k :
    lookup k (set_field kv l) = if String.eqb (fst kv) k then Some (snd kv) else lookup k l.
  Proof.
    induction l as [|[k' v'] l IH].
    - destruct kv as [a b]. reflexivity.
    - cbn [set_field]. destruct (String.eqb k' (fst kv)) eqn:E.
      + apply String.eqb_eq in E. subst k'. cbn [lookup]. destruct (String.eqb (fst kv) k); reflexivity.
      + cbn [lookup]. rewrite IH. destruct (String.eqb k' k) eqn:E2; [|reflexivity].
        apply String.eqb_eq in E2. subst k'. rewrite String.eqb_sym in E. now rewrite E.
  Qed.

  Lemma nodup_keys_set_field kv l : NoDup (keys l) -> NoDup (keys (set_field kv l)).
  Proof.
    intros H. rewrite keys_set_field. destruct (str_in (fst kv) (keys l)) eqn:E; [exact H|].
    apply str_in_false in E. apply NoDup_rev in H. rewrite <- (rev_involutive (keys l ++ [fst kv])).
    apply NoDup_rev. rewrite rev_app_distr. cbn [rev app]. constructor; [|exact H].
    intros Hin. apply E. now apply in_rev.
  Qed.

  (* an association list with distinct keys is determined by its key order and its lookups *)
  Lemma assoc_ext l1 : forall l2,
    NoDup (keys l1) -> keys l1 = keys l2 -> (forall k, lookup k l1 = lookup k l2) -> l1 = l2.
  Proof.
    induction l1 as [|[k v] l1 IH]; intros [|[k2 v2] l2] Hnd Hk Hl; try discriminate; [reflexivity|].
    cbn [keys map fst] in Hk. injection Hk as -> Hk. inversion Hnd as [|? ? Hnin Hnd1]; subst.
    pose proof (Hl k2) as H0. cbn [lookup] in H0. rewrite String.eqb_refl in H0. injection H0 as ->.
    f_equal. apply IH; [exact Hnd1|exact Hk|]. intros k. specialize (Hl k). cbn [lookup] in Hl.
    destruct (String.eqb k2 k) eqn:E; [|exact Hl].
    apply String.eqb_eq in E. subst k.
    assert (N1 : lookup k2 l1 = None).
    { clear -Hnin. induction l1 as [|[a b] l1 IH1]; [reflexivity|]. cbn [lookup].
      destruct (String.eqb a k2) eqn:E; [apply String.eqb_eq in E; subst; exfalso; apply Hnin; now left|].
      apply IH1. intros H. apply Hnin. now right. }
    assert (N2 : lookup k2 l2 = None).
    { assert (Hnin2 : ~ In k2 (keys l2)) by (unfold keys in *; now rewrite <- Hk).
      clear -Hnin2. induction l2 as [|[a b] l2 IH1]; [reflexivity|]. cbn [lookup].
      destruct (String.eqb a k2) eqn:E; [apply String.eqb_eq in E; subst; exfalso; apply Hnin2; now left|].
      apply IH1. intros H. apply Hnin2. now right. }
    now rewrite N1, N2.
  Qed.

  Lemma nodup_keys_set_all kvs acc : NoDup (keys acc) -> NoDup (keys (set_all kvs acc)).
  Proof.
    revert acc. induction kvs as [|kv kvs IH]; intros acc H; [exact H|].
    cbn [set_all fold_left]. apply IH. now apply nodup_keys_set_field.
  Qed.

  Lemma lookup_set_all kvs : forall acc k,
    lookup k (set_all kvs acc) = match lookup k (rev kvs) with Some v => Some v | None => lookup k acc end.
  Proof.
    induction kvs as [|kv kvs IH]; intros acc k; [reflexivity|].
    cbn [set_all fold_left]. fold (set_all kvs (set_field kv acc)). rewrite IH, lookup_set_field.
    cbn [rev].
    assert (Happ : forall l1 l2, lookup k (l1 ++ l2) = match lookup k l1 with Some v => Some v | None => lookup k l2 end).
    { induction l1 as [|[a b] l1 IHl]; intros l2; [reflexivity|]. cbn [app lookup]. destruct (String.eqb a k); [reflexivity|apply IHl]. }
    rewrite Happ. destruct (lookup k (rev kvs)); [reflexivity|].
    destruct kv as [a b]. cbn [lookup fst snd]. destruct (String.eqb a k); reflexivity.
  Qed.

  (* re-applying the declarations of a prefix of what has been applied changes nothing *)
  Lemma set_all_keys kvs : forall acc,
    keys (set_all kvs acc) = fold_left (fun ks k => if str_in k ks then ks else ks ++ [k]) (keys kvs) (keys acc).
  Proof.
    induction kvs as [|kv kvs IH]; intros acc; [reflexivity|].
    cbn [set_all fold_left keys map]. fold (set_all kvs (set_field kv acc)). rewrite IH, keys_set_field. reflexivity.
  Qed.

  Definition addk (ks : list string) (k : string) : list string := if str_in k ks then ks else ks ++ [k].

  Lemma keys_set_all kvs acc : keys (set_all kvs acc) = fold_left addk (keys kvs) (keys acc).
  Proof. apply set_all_keys. Qed.

  Lemma fold_addk_in zs : forall ks, (forall z, In z zs -> In z ks) -> fold_left addk zs ks = ks.
  Proof.
    induction zs as [|z zs IH]; intros ks H; [reflexivity|]. cbn [fold_left]. unfold addk at 2.
    assert (E : str_in z ks = true) by (apply str_in_In; apply H; now left). rewrite E.
    apply IH. intros y Hy. apply H. now right.
  Qed.

  Lemma fold_addk_fresh rest : forall ks, NoDup (ks ++ rest) -> fold_left addk rest ks = ks ++ rest.
  Proof.
    induction rest as [|r rest IH]; intros ks H; [now rewrite app_nil_r|]. cbn [fold_left]. unfold addk at 2.
    assert (E : str_in r ks = false).
    { apply str_in_false. intros Hin. apply NoDup_remove_2 in H. apply H. apply in_or_app. now left. }
    rewrite E. rewrite IH; [now rewrite <- app_assoc|]. now rewrite <- app_assoc.
  Qed.

  Lemma fold_addk_prefix zs : forall ks, exists rest, fold_left addk zs ks = ks ++ rest.
  Proof.
    induction zs as [|z zs IH]; intros ks; [exists []; now rewrite app_nil_r|]. cbn [fold_left]. unfold addk at 2.
    destruct (str_in z ks); [apply IH|]. destruct (IH (ks ++ [z])) as [rest E]. exists (z :: rest).
    rewrite E. now rewrite <- app_assoc.
  Qed.

  Lemma lookup_app k l1 l2 :
    lookup k (l1 ++ l2) = match lookup k l1 with Some v => Some v | None => lookup k l2 end.
  Proof.
    induction l1 as [|[a b] l1 IH]; [reflexivity|]. cbn [app lookup]. destruct (String.eqb a k); [reflexivity|apply IH].
  Qed.

  Lemma lookup_notin k l : ~ In k (keys l) -> lookup k l = None.
  Proof.
    induction l as [|[a b] l IH]; intros H; [reflexivity|]. cbn [lookup].
    destruct (String.eqb a k) eqn:E; [apply String.eqb_eq in E; subst; exfalso; apply H; now left|].
    apply IH. intros Hin. apply H. now right.
  Qed.

  Lemma lookup_none_notin k l : lookup k l = None -> ~ In k (keys l).
  Proof.
    induction l as [|[a b] l IH]; intros H; [intros []|]. cbn [lookup] in H.
    destruct (String.eqb a k) eqn:E; [discriminate|]. intros [Hin|Hin].
    - cbn [fst] in Hin. subst. now rewrite String.eqb_refl in E.
    - now apply IH.
  Qed.

  Lemma lookup_rev_nodup k l : NoDup (keys l) -> lookup k (rev l) = lookup k l.
  Proof.
    induction l as [|[a b] l IH]; intros H; [reflexivity|]. inversion H; subst.
    cbn [rev]. rewrite lookup_app, IH by assumption. cbn [lookup].
    destruct (String.eqb a k) eqn:E.
    - apply String.eqb_eq in E. subst. now rewrite (lookup_notin k l).
    - destruct (lookup k l); reflexivity.
  Qed.

  Definition S_ (l : list (string * A)) : list (string * A) := set_all l [].

  Lemma set_all_app l1 l2 acc : set_all (l1 ++ l2) acc = set_all l2 (set_all l1 acc).
  Proof. unfold set_all. apply fold_left_app. Qed.

  Lemma S_nodup l : NoDup (keys (S_ l)).
  Proof. apply nodup_keys_set_all. constructor. Qed.

  Lemma lookup_S k l : lookup k (S_ l) = lookup k (rev l).
  Proof. unfold S_. rewrite lookup_set_all. destruct (lookup k (rev l)); reflexivity. Qed.

  (* a base's fields, applied on top of the fields of the bases before it, give that base's fields *)
  Lemma absorb x y : set_all (S_ (x ++ y)) (S_ x) = S_ (x ++ y).
  Proof.
    apply assoc_ext.
    - apply nodup_keys_set_all, S_nodup.
    - rewrite keys_set_all.
      assert (Hp : exists rest, keys (S_ (x ++ y)) = keys (S_ x) ++ rest).
      { unfold S_ at 1. rewrite set_all_app. fold (S_ x). rewrite keys_set_all. apply fold_addk_prefix. }
      destruct Hp as [rest Hp]. rewrite Hp. rewrite fold_left_app.
      rewrite (fold_addk_in (keys (S_ x)) (keys (S_ x))) by (intros z Hz; exact Hz). apply fold_addk_fresh. rewrite <- Hp. apply S_nodup.
    - intros k. rewrite lookup_set_all, (lookup_rev_nodup k (S_ (x ++ y))) by apply S_nodup.
      rewrite !lookup_S. rewrite rev_app_distr, lookup_app.
      destruct (lookup k (rev y)); [reflexivity|]. destruct (lookup k (rev x)); reflexivity.
  Qed.

  Lemma all_class_fields_snoc p c :
    all_class_fields (p ++ [c]) = all_class_fields p ++ [class_fields (all_class_fields p) c].
  Proof. unfold all_class_fields. now rewrite fold_left_app. Qed.

  Lemma chain_invariant p :
    fold_left (fun acc bf => set_all bf acc) (all_class_fields p) [] = S_ (List.concat p)
    /\ last (all_class_fields p) [] = S_ (List.concat p).
  Proof.
    induction p as [|c p IH] using rev_ind; [split; reflexivity|]. destruct IH as [IHa IHb].
    rewrite all_class_fields_snoc, concat_app. cbn [List.concat]. rewrite app_nil_r.
    assert (F : class_fields (all_class_fields p) c = S_ (List.concat p ++ c)).
    { unfold class_fields. rewrite IHa. unfold S_. now rewrite set_all_app. }
    rewrite F. split.
    - rewrite fold_left_app. cbn [fold_left]. rewrite IHa. apply absorb.
    - apply last_last.
  Qed.

  (* the class at the end of the chain has the fields of the flat class made of all declarations in order:
     a re-declared name keeps its first position and takes its last declaration *)
  Theorem chain_is_flat chain : chain_fields chain = chain_fields [List.concat chain].
  Proof.
    unfold chain_fields. rewrite (proj2 (chain_invariant chain)), (proj2 (chain_invariant [List.concat chain])).
    cbn [List.concat]. now rewrite app_nil_r.
  Qed.

  Lemma set_field_fresh kv acc : ~ In (fst kv) (keys acc) -> set_field kv acc = acc ++ [kv].
  Proof.
    induction acc as [|[k v] acc IH]; intros H; [reflexivity|]. cbn [set_field].
    destruct (String.eqb k (fst kv)) eqn:E; [apply String.eqb_eq in E; exfalso; apply H; left; exact E|].
    cbn [app]. f_equal. apply IH. intros Hin. apply H. now right.
  Qed.

  Lemma set_all_fresh l : forall acc, NoDup (keys acc ++ keys l) -> set_all l acc = acc ++ l.
  Proof.
    induction l as [|kv l IH]; intros acc H; [now rewrite app_nil_r|].
    cbn [set_all fold_left]. fold (set_all l (set_field kv acc)).
    cbn [keys map] in H. rewrite set_field_fresh.
    - rewrite IH; [now rewrite <- app_assoc|]. unfold keys. rewrite map_app. cbn [map]. now rewrite <- app_assoc.
    - apply NoDup_remove_2 in H. intros Hin. apply H. apply in_or_app. now left.
  Qed.

  (* no name declared twice: the chain is exactly the concatenation of its segments *)
  Theorem chain_split chain : NoDup (keys (List.concat chain)) -> chain_fields chain = List.concat chain.
  Proof.
    intros H. unfold chain_fields. rewrite (proj2 (chain_invariant chain)). unfold S_. now apply set_all_fresh.
  Qed.

  (* ---------- against the independently written spec ---------- *)
  Lemma fold_addk_dedupe (zs : list string) : forall ks seen,
    (forall z, str_in z ks = str_in z seen) -> fold_left addk zs ks = ks ++ dedupe zs seen.
  Proof.
    induction zs as [|x zs IH]; intros ks seen H; [now rewrite app_nil_r|].
    cbn [fold_left dedupe]. unfold addk at 2. rewrite <- H. destruct (str_in x ks) eqn:E.
    - now apply IH.
    - rewrite (IH (ks ++ [x]) (x :: seen)); [now rewrite <- app_assoc|].
      intros z. unfold str_in. rewrite existsb_app. cbn [existsb]. rewrite orb_false_r.
      fold (str_in z ks). fold (str_in z seen). rewrite H. apply orb_comm.
  Qed.

  Lemma lookup_rev_last k l :
    lookup k (rev l) = option_map snd (last_opt (filter (fun kv => String.eqb (fst kv) k) l)).
  Proof.
    induction l as [|kv l IH] using rev_ind; [reflexivity|].
    rewrite rev_app_distr, filter_app. cbn [rev app filter]. destruct kv as [a b]. cbn [lookup fst].
    destruct (String.eqb a k).
    - now rewrite last_opt_app.
    - now rewrite app_nil_r.
  Qed.

  Lemma assoc_as_map l :
    NoDup (keys l) ->
    l = flat_map (fun n => match lookup n l with Some v => [(n, v)] | None => [] end) (keys l).
  Proof.
    induction l as [|[k v] l IH]; intros H; [reflexivity|]. inversion H; subst.
    cbn [keys map fst flat_map lookup]. rewrite String.eqb_refl. cbn [app]. f_equal.
    rewrite IH at 1 by assumption. fold (keys l).
    assert (Hext : forall ks, (forall n, In n ks -> n <> k) ->
              flat_map (fun n => match lookup n l with Some v0 => [(n, v0)] | None => [] end) ks =
              flat_map (fun n => match (if String.eqb k n then Some v else lookup n l) with Some v0 => [(n, v0)] | None => [] end) ks).
    { induction ks as [|n ks IHk]; intros Hk; [reflexivity|]. cbn [flat_map].
      assert (E : String.eqb k n = false).
      { destruct (String.eqb k n) eqn:E; [|reflexivity]. apply String.eqb_eq in E. exfalso. apply (Hk n); [now left|now symmetry]. }
      rewrite E. f_equal. apply IHk. intros m Hm. apply Hk. now right. }
    apply Hext. intros n Hn ->. contradiction.
  Qed.

  Theorem flat_meets_spec chain : chain_fields chain = spec_flat chain.
  Proof.
    unfold chain_fields. rewrite (proj2 (chain_invariant chain)). unfold spec_flat. cbv zeta.
    rewrite (assoc_as_map (S_ (List.concat chain)) (S_nodup _)) at 1.
    assert (Ek : keys (S_ (List.concat chain)) = dedupe (map fst (List.concat chain)) []).
    { unfold S_. rewrite keys_set_all. now rewrite (fold_addk_dedupe _ [] []). }
    rewrite Ek. apply flat_map_ext. intros n. rewrite lookup_S, lookup_rev_last. reflexivity.
  Qed.
End FieldProofs.

(* ---------- the rewritten text means what the original text means ---------- *)
Definition second_is_dots (args : list texp) : bool :=
  match args with [_; TName d] => String.eqb d "..." | _ => false end.

Lemma denote_sub n args :
  denote (TSub n args) =
  if is_list_name n then match map denote args with [a] => CList a | _ => CBad end
  else if is_tuple_name n then
    match args with
    | [] => CBad
    | _ => if second_is_dots args then match map denote args with a :: _ => CTupleVar a | [] => CBad end
           else CTuple (map denote args)
    end
  else if is_dict_name n then match map denote args with [k; v] => CDict k v | _ => CBad end
  else if String.eqb n "Optional" then match map denote args with [a] => cunion [a; CNone] | _ => CBad end
  else if String.eqb n "Union" then cunion (map denote args)
  else CBad.
Proof.
  cbn [denote]. destruct (is_list_name n); [destruct args as [|a [|b r]]; reflexivity|].
  destruct (is_tuple_name n).
  { destruct args as [|a [|b [|c r]]]; try reflexivity; destruct b; reflexivity. }
  destruct (is_dict_name n); [destruct args as [|a [|b [|c r]]]; reflexivity|].
  destruct (String.eqb n "Optional"); [destruct args as [|a [|b r]]; reflexivity|].
  reflexivity.
Qed.

Theorem denote_to_old t : denote (to_old t) = denote t.
Proof.
  induction t as [n|n args IH|ts IH] using texp_ind2; [reflexivity| |].
  - cbn [to_old]. rewrite !denote_sub.
    assert (Em : map denote (map to_old args) = map denote args).
    { rewrite map_map. apply map_ext_in. intros a Hin. rewrite Forall_forall in IH. now apply IH. }
    assert (Es : second_is_dots (map to_old args) = second_is_dots args).
    { destruct args as [|a [|b [|c r]]]; try reflexivity; destruct b; reflexivity. }
    rewrite Em, Es. destruct args; reflexivity.
  - cbn [to_old]. rewrite denote_union, denote_bar. f_equal.
    rewrite map_map. apply map_ext_in. intros a Hin. rewrite Forall_forall in IH. now apply IH.
Qed.

(* ---------- every rendering of a class gives the wrapper field list the class denotes ---------- *)
Lemma wrapper_fields_spec l :
  map (fun kv => (fst kv, f_ty (snd kv))) (wrapper_fields_gen l) = spec_cli_fields l.
Proof.
  unfold spec_cli_fields, wrapper_fields_gen, wrapper_fields. f_equal. apply filter_ext.
  intros [n [ty k i c d]]. destruct k; reflexivity.
Qed.

Definition decl_wf (kv : string * fdecl) : bool := wf_cty (f_ty (snd kv)).

Lemma mapM_ok {A B} (f : A -> res B) (g : A -> B) l :
  (forall x, In x l -> f x = Ok (g x)) -> mapM f l = Ok (map g l).
Proof.
  intros H. rewrite <- (map_id l) at 1. now apply (mapM_map_ok f (fun x => x) g).
Qed.

(* FieldWrapper.type unwraps InitVar[...] (regenerated fact) *)
Lemma initvar_unwrapped : INITVAR_UNWRAPPED_GEN = true.
Proof. reflexivity. Qed.

Lemma field_types_ok sp postponed l :
  forallb decl_wf l = true -> field_types_gen sp postponed l = Ok (spec_cli_fields l).
Proof.
  intros H. unfold field_types_gen, field_types. fold resolve_gen. fold wrapper_fields_gen.
  rewrite <- wrapper_fields_spec. apply mapM_ok. intros kv Hin.
  assert (Hw : decl_wf kv = true).
  { unfold wrapper_fields_gen, wrapper_fields in Hin. apply filter_In in Hin as [Hin _].
    rewrite forallb_forall in H. now apply H. }
  unfold decl_wf in Hw. cbv zeta.
  destruct (resolve_render sp postponed (fkind_eqb (f_kind (snd kv)) KInitVar) _ Hw) as [r [Hr Hc]].
  rewrite Hr. cbn [bind]. rewrite initvar_unwrapped, Hc. cbn [negb]. now rewrite andb_false_r.
Qed.

Theorem chain_types_ok sp postponed chain :
  forallb decl_wf (chain_fields chain) = true ->
  field_types_gen sp postponed (chain_fields chain) = Ok (spec_cli_fields (spec_flat chain)).
Proof. intros H. rewrite (field_types_ok sp postponed _ H). now rewrite flat_meets_spec. Qed.

(* ====================================================================================================== *)
(* E. the type predicates and the nested-group decision see the same thing in every spelling               *)
(* ====================================================================================================== *)
Theorem resolve_render_rt sp postponed initvar c :
  wf_cty c = true -> exists sp', resolve_gen postponed initvar (render sp c) = Ok (rt sp' c).
Proof.
  intros Hw. unfold resolve_gen, resolve. destruct postponed.
  - rewrite (eval_render FORWARD_REFS_GEN sp c forward_refs_ok Hw). cbn [bind].
    rewrite run_steps_gen, (rt_none_iff sp c Hw).
    destruct (rt sp c) as [n| | |al o args|args|args] eqn:E; try (exists sp; now rewrite E).
    destruct (rt_utype sp c args E) as [-> Hu].
    destruct initvar; [exists Sp604; now rewrite E|].
    rewrite <- E. rewrite (norm_rt604 c Hw). now exists SpBuiltin.
  - rewrite (eval_render [] sp c eq_refl Hw). now exists sp.
Qed.

Lemma is_list_rt sp c : wf_cty c = true -> is_list_gen (rt sp c) = is_clist c.
Proof.
  destruct c as [n| | |a|l|a|k v|l|]; try discriminate; intros Hw; cbn [rt]; rewrite ?is_list_gen_gen; try reflexivity.
  - cbn [wf_cty] in Hw. now apply is_list_gen_cls, (wf_name_not_reserved n).
  - destruct sp; reflexivity.
Qed.

Lemma is_tuple_rt sp c : wf_cty c = true -> is_tuple_gen (rt sp c) = is_ctuple c.
Proof.
  destruct c as [n| | |a|l|a|k v|l|]; try discriminate; intros Hw; cbn [rt]; rewrite ?is_tuple_gen_gen; try reflexivity.
  - cbn [wf_cty] in Hw. now apply is_tuple_gen_cls, (wf_name_not_reserved n).
  - destruct sp; reflexivity.
Qed.

Lemma is_dict_rt sp c : wf_cty c = true -> is_dict_gen (rt sp c) = is_cdict c.
Proof.
  destruct c as [n| | |a|l|a|k v|l|]; try discriminate; intros Hw; cbn [rt]; rewrite ?is_dict_gen_gen; try reflexivity.
  - cbn [wf_cty] in Hw. now apply is_dict_gen_cls, (wf_name_not_reserved n).
  - destruct sp; reflexivity.
Qed.

Lemma is_union_rt sp c : is_union_gen (rt sp c) = is_cunion c.
Proof. destruct c, sp; reflexivity. Qed.

Lemma args_rt_union sp l : get_args_m (rt sp (CUnion l)) = map (mrt sp) l.
Proof. destruct sp; reflexivity. Qed.

Lemma nonetype_mrt sp c : member_ok c = true -> rty_eqb (RCls "NoneType") (mrt sp c) = is_cnone c.
Proof.
  unfold member_ok, mrt. intros H. apply orb_true_iff in H as [H|H].
  - destruct c; try discriminate. reflexivity.
  - apply andb_true_iff in H as [_ Hw]. destruct c as [n| | |a|l|a|k v|l|]; try discriminate Hw; try reflexivity.
    + cbn [wf_cty] in Hw. cbn [rt none_to_cls rty_eqb is_cnone]. rewrite String.eqb_sym.
      now apply (wf_name_not_reserved n "NoneType").
    + destruct sp; reflexivity.
Qed.

Lemma is_optional_rt sp c : wf_cty c = true -> is_optional_gen (rt sp c) = is_coptional c.
Proof.
  intros Hw. unfold is_optional_gen. rewrite is_union_rt. destruct c as [n| | |a|l|a|k v|l|]; try discriminate Hw; try reflexivity.
  destruct (wf_union_parts l Hw) as [_ [_ [_ Hm]]]. rewrite args_rt_union. cbn [IS_OPTIONAL_UNION_ARM_GEN is_cunion andb is_coptional].
  unfold rty_in. clear Hw. induction l as [|x l IH]; [reflexivity|].
  cbn [forallb] in Hm. apply andb_true_iff in Hm as [Hx Hl]. cbn [map existsb].
  now rewrite (nonetype_mrt sp x Hx), (IH Hl).
Qed.

Section WrapProofs.
  Variable dcs : list string.
  Hypothesis Hnone : str_in "NoneType" dcs = false.   (* no dataclass is called NoneType *)

  Lemma is_dc_rt sp c : wf_cty c = true -> is_dc dcs (rt sp c) = is_dc_c dcs c.
  Proof. destruct c; try discriminate; intros _; try reflexivity; destruct sp; reflexivity. Qed.

  Lemma is_dc_mrt sp c : member_ok c = true -> is_dc dcs (mrt sp c) = is_dc_c dcs c.
  Proof.
    unfold member_ok, mrt. intros H. apply orb_true_iff in H as [H|H].
    - destruct c; try discriminate. exact Hnone.
    - apply andb_true_iff in H as [_ Hw]. rewrite rt_none_iff by exact Hw. now apply is_dc_rt.
  Qed.

  Lemma seq_of_dc_rt sp c :
    wf_cty c = true -> seq_of_dc is_list_gen is_tuple_gen dcs (rt sp c) = seq_of_dc_c dcs c.
  Proof.
    intros Hw. unfold seq_of_dc. rewrite is_list_rt, is_tuple_rt by exact Hw.
    destruct c as [n| | |a|l|a|k v|l|]; try discriminate Hw; try reflexivity.
    - cbn [wf_cty] in Hw. cbn [is_clist is_ctuple orb andb rt item_is_dc seq_of_dc_c]. now apply is_dc_rt.
    - cbn [wf_cty] in Hw. apply andb_true_iff in Hw as [Hne Hl]. destruct l as [|a0 l]; [discriminate|].
      cbn [forallb] in Hl. apply andb_true_iff in Hl as [Ha _].
      cbn [is_clist is_ctuple orb andb rt map item_is_dc seq_of_dc_c]. now apply is_dc_rt.
    - cbn [wf_cty] in Hw. cbn [is_clist is_ctuple orb andb rt item_is_dc seq_of_dc_c]. now apply is_dc_rt.
  Qed.

  Lemma contains_eq r :
    contains_dc_gen dcs r =
    is_dc dcs r || seq_of_dc is_list_gen is_tuple_gen dcs r
    || (is_union_gen r && existsb (contains_dc_gen dcs) (get_args_m r)).
  Proof.
    unfold contains_dc_gen, CONTAINS_CHAIN_GEN, CONTAINS_ELSE_GEN.
    destruct r; cbn [contains_dc cpick ctest_holds];
      destruct (is_dc dcs _); cbn [orb]; try reflexivity;
      destruct (seq_of_dc is_list_gen is_tuple_gen dcs _); cbn [orb]; try reflexivity.
  Qed.

  Lemma contains_rt sp c : wf_cty c = true -> contains_dc_gen dcs (rt sp c) = contains_dc_c dcs c.
  Proof.
    induction c as [n| | |a IH|l IH|a IH|k v IHk IHv|l IH|] using cty_ind2; intros Hw; try discriminate;
      rewrite contains_eq, is_dc_rt, seq_of_dc_rt, is_union_rt by exact Hw; cbn [is_cunion andb contains_dc_c];
      try (now rewrite orb_false_r).
    destruct (wf_union_parts l Hw) as [_ [_ [_ Hm]]]. rewrite args_rt_union. f_equal.
    clear Hw. induction l as [|x l IHl]; [reflexivity|].
    inversion IH as [|? ? Hx Hl]; subst. cbn [forallb] in Hm. apply andb_true_iff in Hm as [Hmx Hml].
    cbn [map existsb]. rewrite (IHl Hl Hml). f_equal.
    unfold member_ok in Hmx. apply orb_true_iff in Hmx as [Hn|Hwx].
    - destruct x; try discriminate. unfold mrt. cbn [rt none_to_cls]. rewrite contains_eq. cbn [is_dc]. rewrite Hnone. reflexivity.
    - apply andb_true_iff in Hwx as [_ Hwx]. unfold mrt. rewrite rt_none_iff by exact Hwx. now apply Hx.
  Qed.

  Lemma is_subparser_rt sp c : wf_cty c = true -> is_subparser IS_UNION_KINDS_GEN dcs (rt sp c) = is_subparser_c dcs c.
  Proof.
    intros Hw. unfold is_subparser. fold is_union_gen. rewrite is_union_rt.
    destruct c as [n| | |a|l|a|k v|l|]; try discriminate Hw; try reflexivity.
    destruct (wf_union_parts l Hw) as [_ [_ [_ Hm]]]. rewrite args_rt_union. cbn [is_cunion andb is_subparser_c].
    clear Hw. induction l as [|x l IH]; [reflexivity|].
    cbn [forallb] in Hm. apply andb_true_iff in Hm as [Hx Hl]. cbn [map forallb].
    now rewrite (is_dc_mrt sp x Hx), (IH Hl).
  Qed.

  (* DataclassWrapper's choice between an option, a nested group and an optional nested group *)
  Theorem wrapper_kind_rt sp c dn :
    wf_cty c = true ->
    wrapper_kind_gen dcs (rt sp c) dn =
    match spec_wkind dcs c dn with Some k => Ok k | None => Err (Raise "NotImplementedError") end.
  Proof.
    intros Hw. unfold wrapper_kind_gen, wrapper_kind, spec_wkind, WRAP_GUARD_SEQ_RAISES_GEN, WRAP_CHAIN_GEN, WRAP_ELSE_GEN.
    rewrite seq_of_dc_rt by exact Hw. cbn [andb]. destruct (seq_of_dc_c dcs c); [reflexivity|].
    cbn [dpick dtest_holds]. fold (contains_dc_gen dcs).
    rewrite is_subparser_rt, is_dc_rt, contains_rt by exact Hw.
    destruct (is_subparser_c dcs c); [reflexivity|]. destruct (is_dc_c dcs c && negb dn); [reflexivity|].
    destruct (contains_dc_c dcs c); reflexivity.
  Qed.
End WrapProofs.

(* ====================================================================================================== *)
(* B'. the parser reads printed annotations back (so "parse (old_style (print t))" can be stated)           *)
(* ====================================================================================================== *)
Fixpoint tjoin (sep : tok) (l : list (list tok)) : list tok :=
  match l with [] => [] | x :: r => match r with [] => x | _ => x ++ sep :: tjoin sep r end end.

Fixpoint tk (t : texp) : list tok :=
  match t with
  | TName n => [KName (chars n)]
  | TSub n args => KName (chars n) :: KL :: tjoin KComma (map tk args) ++ [KR]
  | TBar ts => tjoin KBar (map tk ts)
  end.

Definition delim_start (s : list ascii) : bool := match s with [] => true | d :: _ => is_delim d end.

Lemma lex_acc_name n : forall rest cur,
  forallb (fun a => negb (is_delim a)) n = true -> lex_acc (n ++ rest) cur = lex_acc rest (rev n ++ cur).
Proof.
  induction n as [|a n IH]; intros rest cur H; [reflexivity|].
  cbn [forallb] in H. apply andb_true_iff in H as [Ha Hn]. apply negb_true_iff in Ha.
  unfold is_delim in Ha. repeat (apply orb_false_iff in Ha as [Ha ?]).
  cbn [app lex_acc]. rewrite Ha, H, H0, H1, H2. rewrite IH by exact Hn. cbn [rev]. now rewrite <- app_assoc.
Qed.

Lemma lex_acc_flush rest cur :
  delim_start rest = true -> cur <> [] -> lex_acc rest cur = KName (rev cur) :: lex_acc rest [].
Proof.
  intros Hd Hc. destruct rest as [|d r].
  - cbn [lex_acc flush]. destruct cur; [congruence|reflexivity].
  - cbn [delim_start] in Hd. cbn [lex_acc].
    destruct (Ascii.eqb d "[") eqn:E1; [destruct cur; [congruence|reflexivity]|].
    destruct (Ascii.eqb d "]") eqn:E2; [destruct cur; [congruence|reflexivity]|].
    destruct (Ascii.eqb d "|") eqn:E3; [destruct cur; [congruence|reflexivity]|].
    destruct (Ascii.eqb d ",") eqn:E4; [destruct cur; [congruence|reflexivity]|].
    destruct (is_space d) eqn:E5; [destruct cur; [congruence|reflexivity]|].
    unfold is_delim in Hd. rewrite E1, E2, E3, E4, E5 in Hd. discriminate.
Qed.

Lemma lex_name n rest :
  nm_ok n = true -> delim_start rest = true -> lex_acc (chars n ++ rest) [] = KName (chars n) :: lex_acc rest [].
Proof.
  intros Hn Hd. pose proof (nm_ok_nonnil n Hn) as Hne. unfold nm_ok in Hn. apply andb_true_iff in Hn as [_ Hn].
  rewrite lex_acc_name by exact Hn. rewrite app_nil_r, lex_acc_flush.
  - now rewrite rev_involutive.
  - exact Hd.
  - intros E. apply Hne. apply (f_equal (@rev ascii)) in E. now rewrite rev_involutive in E.
Qed.

Lemma tjoin_cons2 sep x y l : tjoin sep (x :: y :: l) = x ++ sep :: tjoin sep (y :: l).
Proof. reflexivity. Qed.

Lemma lex_join (sepc : list ascii) (sept : tok) (l : list texp) :
  (forall r, lex_acc (sepc ++ r) [] = sept :: lex_acc r []) ->
  (forall r, delim_start (sepc ++ r) = true) ->
  Forall (fun x => forall rest, delim_start rest = true -> lex_acc (pr x ++ rest) [] = tk x ++ lex_acc rest []) l ->
  l <> [] -> forall R, delim_start R = true ->
  lex_acc (joinl sepc (map pr l) ++ R) [] = tjoin sept (map tk l) ++ lex_acc R [].
Proof.
  intros Hsep Hds Hall. induction Hall as [|x l Hx Hall IH]; intros Hne R HR; [congruence|].
  destruct l as [|y l].
  - cbn [map joinl tjoin]. now apply Hx.
  - cbn [map]. rewrite joinl_cons2, tjoin_cons2. rewrite <- !app_assoc. rewrite Hx by apply Hds.
    rewrite Hsep. cbn [app]. f_equal. f_equal. apply IH; [discriminate|exact HR].
Qed.

Lemma lex_pr t :
  names_ok t = true -> shape_ok t = true ->
  forall rest, delim_start rest = true -> lex_acc (pr t ++ rest) [] = tk t ++ lex_acc rest [].
Proof.
  induction t as [n|n args IH|ts IH] using texp_ind2; intros Hn Hs rest Hd.
  - cbn [pr tk names_ok] in *. now apply lex_name.
  - cbn [names_ok shape_ok] in Hn, Hs. apply andb_true_iff in Hn as [Hnm Han]. apply andb_true_iff in Hs as [Hne Has].
    rewrite pr_sub. cbn [tk]. rewrite <- app_assoc. rewrite lex_name by (try assumption; reflexivity).
    cbn [app]. f_equal.
    change (lex_acc (cL :: (joinl sepComma (map pr args) ++ [cR]) ++ rest) [])
      with (KL :: lex_acc ((joinl sepComma (map pr args) ++ [cR]) ++ rest) []).
    f_equal. rewrite <- !app_assoc.
    rewrite (lex_join sepComma KComma args).
    + reflexivity.
    + intros r. reflexivity.
    + intros r. reflexivity.
    + rewrite Forall_forall in *. rewrite forallb_forall in Han, Has. intros x Hx. apply IH; auto.
    + destruct args; [discriminate|discriminate].
    + reflexivity.
  - cbn [names_ok shape_ok] in Hn, Hs. apply andb_true_iff in Hs as [Hlen Has].
    cbn [pr tk]. apply (lex_join sepBar KBar ts).
    + intros r. reflexivity.
    + intros r. reflexivity.
    + rewrite Forall_forall in *. rewrite forallb_forall in Hn, Has. intros x Hx.
      specialize (Has x Hx). apply andb_true_iff in Has as [_ Has]. apply IH; auto.
    + destruct ts; [discriminate|discriminate].
    + exact Hd.
Qed.

(* ---------- recursive descent on the tokens of a printed annotation ---------- *)
Definition sumw (w : texp -> nat) (l : list texp) : nat := fold_right (fun x acc => w x + acc) 0 l.

Fixpoint pw (t : texp) : nat :=
  match t with
  | TName _ => 1
  | TSub _ args => 2 + fold_right (fun x acc => S (pw x) + acc) 0 args
  | TBar ts => 1 + fold_right (fun x acc => pw x + acc) 0 ts
  end.

Lemma pw_pos t : 1 <= pw t.
Proof. destruct t; cbn [pw]; lia. Qed.

Definition nol (ts : list tok) : bool := match ts with KL :: _ => false | _ => true end.
Definition nobar (ts : list tok) : bool := match ts with KBar :: _ => false | KL :: _ => false | _ => true end.

Lemma p_expr_S n ts :
  p_expr (S n) ts = match p_term n ts with None => None | Some (t, rest) => p_bars n [t] rest end.
Proof. reflexivity. Qed.

Lemma p_term_S_name n s rest : nol rest = true -> p_term (S n) (KName s :: rest) = Some (TName (unchars s), rest).
Proof. intros H. destruct rest as [|k r]; [reflexivity|]. destruct k; try reflexivity. discriminate. Qed.

Lemma p_term_S_sub n s rest :
  p_term (S n) (KName s :: KL :: rest) =
  match p_expr n rest with None => None | Some (a, rest') => p_args n (unchars s) [a] rest' end.
Proof. reflexivity. Qed.

Lemma p_bars_S_bar n acc rest :
  p_bars (S n) acc (KBar :: rest) =
  match p_term n rest with None => None | Some (t, rest') => p_bars n (acc ++ [t]) rest' end.
Proof. reflexivity. Qed.

Lemma p_bars_S_end n acc ts : nobar ts = true -> p_bars (S n) acc ts = Some (mk_bar acc, ts).
Proof. intros H. destruct ts as [|k r]; [reflexivity|]. destruct k; try reflexivity; discriminate. Qed.

Lemma p_args_S_comma n nm acc rest :
  p_args (S n) nm acc (KComma :: rest) =
  match p_expr n rest with None => None | Some (a, rest') => p_args n nm (acc ++ [a]) rest' end.
Proof. reflexivity. Qed.

Lemma p_args_S_end n nm acc rest : p_args (S n) nm acc (KR :: rest) = Some (TSub nm acc, rest).
Proof. reflexivity. Qed.

Definition PT (t : texp) : Prop :=
  forall n rest, pw t <= n -> nol rest = true -> p_term n (tk t ++ rest) = Some (t, rest).
Definition PE (t : texp) : Prop :=
  forall n rest, pw t < n -> nobar rest = true -> p_expr n (tk t ++ rest) = Some (t, rest).

Lemma tjoin_flat sep x l : tjoin sep (x :: l) = x ++ flat_map (fun y => sep :: y) l.
Proof.
  revert x. induction l as [|y l IH]; intros x; [cbn; now rewrite app_nil_r|].
  rewrite tjoin_cons2, IH. reflexivity.
Qed.

Lemma p_args_list nm more : forall acc n rest,
  Forall PE more -> 1 + fold_right (fun x a => S (pw x) + a) 0 more <= n ->
  p_args n nm acc (flat_map (fun y => KComma :: y) (map tk more) ++ KR :: rest) = Some (TSub nm (acc ++ more), rest).
Proof.
  induction more as [|x more IH]; intros acc n rest Hall Hn.
  - destruct n as [|n]; [cbn in Hn; lia|]. cbn [map flat_map app]. rewrite p_args_S_end. now rewrite app_nil_r.
  - inversion Hall as [|? ? Hx Hm]; subst. cbn [fold_right] in Hn. destruct n as [|n]; [lia|].
    cbn [map flat_map]. rewrite <- app_assoc. cbn [app]. rewrite p_args_S_comma.
    rewrite Hx.
    + rewrite IH; [now rewrite <- app_assoc|exact Hm|lia].
    + lia.
    + destruct more; reflexivity.
Qed.

Lemma p_bars_list more : forall acc n rest,
  Forall PT more -> 1 + fold_right (fun x a => pw x + a) 0 more <= n -> nobar rest = true ->
  p_bars n acc (flat_map (fun y => KBar :: y) (map tk more) ++ rest) = Some (mk_bar (acc ++ more), rest).
Proof.
  induction more as [|x more IH]; intros acc n rest Hall Hn Hr.
  - destruct n as [|n]; [cbn in Hn; lia|]. cbn [map flat_map app]. rewrite p_bars_S_end by exact Hr. now rewrite app_nil_r.
  - inversion Hall as [|? ? Hx Hm]; subst. cbn [fold_right] in Hn. destruct n as [|n]; [lia|].
    cbn [map flat_map]. rewrite <- app_assoc. cbn [app]. rewrite p_bars_S_bar.
    rewrite Hx.
    + rewrite IH; [now rewrite <- app_assoc|exact Hm| |exact Hr]. pose proof (pw_pos x). lia.
    + lia.
    + destruct more; [|reflexivity]. cbn [map flat_map app]. destruct rest as [|k r]; [reflexivity|].
      destruct k; try reflexivity; discriminate.
Qed.

Lemma unchars_chars n : unchars (chars n) = n.
Proof. apply string_of_list_ascii_of_string. Qed.

Lemma parse_tokens t : names_ok t = true -> shape_ok t = true -> (is_tbar t = false -> PT t) /\ PE t.
Proof.
  induction t as [nm|nm args IH|ts IH] using texp_ind2; intros Hn Hs.
  - assert (T : PT (TName nm)).
    { intros n rest Hw Hr. cbn [pw] in Hw. destruct n as [|n]; [lia|]. cbn [tk app].
      rewrite p_term_S_name by exact Hr. now rewrite unchars_chars. }
    split; [intros _; exact T|].
    intros n rest Hw Hr. destruct n as [|n]; [lia|]. rewrite p_expr_S, T.
    + cbn [pw] in Hw. destruct n as [|n]; [lia|]. now rewrite p_bars_S_end.
    + lia.
    + destruct rest as [|k r]; [reflexivity|]. destruct k; try reflexivity; discriminate.
  - cbn [names_ok shape_ok] in Hn, Hs. apply andb_true_iff in Hn as [Hnm Han]. apply andb_true_iff in Hs as [Hne Has].
    rewrite forallb_forall in Han, Has. rewrite Forall_forall in IH.
    assert (HPE : Forall PE args).
    { rewrite Forall_forall. intros x Hx. now apply IH; auto. }
    assert (T : PT (TSub nm args)).
    { intros n rest Hw Hr. cbn [pw] in Hw. destruct args as [|a more]; [discriminate|].
      inversion HPE as [|? ? Ha Hmore]; subst. cbn [fold_right] in Hw.
      destruct n as [|n]; [lia|]. cbn [tk map]. rewrite tjoin_flat. cbn [app]. rewrite p_term_S_sub.
      rewrite <- !app_assoc. rewrite Ha.
      - rewrite unchars_chars. cbn [app]. rewrite (p_args_list nm more [a] n rest Hmore); [reflexivity|lia].
      - lia.
      - destruct more; reflexivity. }
    split; [intros _; exact T|].
    intros n rest Hw Hr. destruct n as [|n]; [lia|]. rewrite p_expr_S, T.
    + destruct n as [|n]; [cbn [pw] in Hw; lia|]. now rewrite p_bars_S_end.
    + lia.
    + destruct rest as [|k r]; [reflexivity|]. destruct k; try reflexivity; discriminate.
  - split; [discriminate|].
    cbn [names_ok shape_ok] in Hn, Hs. apply andb_true_iff in Hs as [Hlen Has].
    rewrite forallb_forall in Hn, Has. rewrite Forall_forall in IH.
    assert (HPT : Forall PT ts).
    { rewrite Forall_forall. intros x Hx. specialize (Has x Hx). apply andb_true_iff in Has as [Hb Hsx].
      apply negb_true_iff in Hb. now apply IH; auto. }
    intros n rest Hw Hr. cbn [pw] in Hw. destruct ts as [|a [|b more]]; [discriminate|discriminate|].
    inversion HPT as [|? ? Ha Hmore]; subst. cbn [fold_right] in Hw.
    destruct n as [|n]; [lia|]. cbn [tk map]. rewrite tjoin_flat. rewrite p_expr_S. rewrite <- app_assoc. rewrite Ha.
    + change (flat_map (fun y => KBar :: y) (tk b :: map tk more)) with (flat_map (fun y => KBar :: y) (map tk (b :: more))).
      rewrite (p_bars_list (b :: more) [a] n rest Hmore); [reflexivity| |exact Hr].
      cbn [fold_right]. lia.
    + lia.
    + reflexivity.
Qed.

Lemma pw_le_tokens t : shape_ok t = true -> pw t <= 2 * List.length (tk t).
Proof.
  induction t as [nm|nm args IH|ts IH] using texp_ind2; intros Hs; [cbn; lia| |].
  - cbn [shape_ok] in Hs. apply andb_true_iff in Hs as [_ Has]. rewrite forallb_forall in Has. rewrite Forall_forall in IH.
    cbn [pw tk List.length]. rewrite app_length. cbn [List.length].
    assert (H : forall l, (forall x, In x l -> In x args) ->
              fold_right (fun x acc => S (pw x) + acc) 0 l <= 2 * List.length (tjoin KComma (map tk l)) + 1).
    { induction l as [|x l IHl]; intros Hsub; [cbn; lia|].
      assert (Hx : pw x <= 2 * List.length (tk x)) by (apply IH; [apply Hsub; now left|apply Has, Hsub; now left]).
      specialize (IHl (fun y Hy => Hsub y (or_intror Hy))).
      destruct l as [|y l]; [cbn [tjoin fold_right map] in *; lia|].
      cbn [fold_right map] in *. rewrite tjoin_cons2, app_length. cbn [List.length]. lia. }
    specialize (H args (fun x Hx => Hx)). lia.
  - cbn [shape_ok] in Hs. apply andb_true_iff in Hs as [Hlen Has]. rewrite forallb_forall in Has. rewrite Forall_forall in IH.
    cbn [pw tk].
    assert (H : forall l, (forall x, In x l -> In x ts) -> l <> [] ->
              fold_right (fun x acc => pw x + acc) 0 l + 2 <= 2 * List.length (tjoin KBar (map tk l)) + 2 * 1
              /\ (2 <= List.length l -> 1 + fold_right (fun x acc => pw x + acc) 0 l <= 2 * List.length (tjoin KBar (map tk l)))).
    { induction l as [|x l IHl]; intros Hsub Hne; [congruence|].
      assert (Hx : pw x <= 2 * List.length (tk x)).
      { apply IH; [apply Hsub; now left|]. specialize (Has x (Hsub x (or_introl eq_refl))). now apply andb_true_iff in Has as [_ Has]. }
      destruct l as [|y l].
      - cbn [fold_right map tjoin List.length]. split; [lia|intros; lia].
      - destruct (IHl (fun z Hz => Hsub z (or_intror Hz)) ltac:(discriminate)) as [I1 _].
        cbn [map] in *. rewrite tjoin_cons2, app_length. cbn [List.length fold_right] in *. split; [lia|intros _; lia]. }
    destruct ts as [|a [|b more]]; [discriminate|discriminate|].
    destruct (H (a :: b :: more) (fun x Hx => Hx) ltac:(discriminate)) as [_ H2]. apply H2. cbn [List.length]. lia.
Qed.

(* the parser reads the text of an annotation back *)
Theorem parse_pr t : names_ok t = true -> shape_ok t = true -> parse (pr t) = Some t.
Proof.
  intros Hn Hs. unfold parse, lex.
  assert (E : lex_acc (pr t) [] = tk t).
  { pose proof (lex_pr t Hn Hs [] eq_refl) as H0. rewrite app_nil_r in H0.
    change (lex_acc [] []) with (@nil tok) in H0. now rewrite app_nil_r in H0. }
  rewrite E. destruct (parse_tokens t Hn Hs) as [_ HE].
  specialize (HE (S (2 * List.length (tk t))) []). rewrite app_nil_r in HE. rewrite HE; [reflexivity| |reflexivity].
  pose proof (pw_le_tokens t Hs). lia.
Qed.

Lemma shape_ok_to_old t : shape_ok t = true -> shape_ok (to_old t) = true.
Proof.
  induction t as [n|n args IH|ts IH] using texp_ind2; intros H; [exact H| |]; cbn [to_old shape_ok] in *.
  - apply andb_true_iff in H as [Hne Ha]. rewrite forallb_forall in Ha. rewrite Forall_forall in IH.
    apply andb_true_iff. split; [destruct args; [discriminate|reflexivity]|].
    apply forallb_forall. intros x Hx. apply in_map_iff in Hx as [a [<- Hin]]. auto.
  - apply andb_true_iff in H as [Hlen Ha]. rewrite forallb_forall in Ha. rewrite Forall_forall in IH.
    apply andb_true_iff. split; [destruct ts; [discriminate|reflexivity]|].
    apply forallb_forall. intros x Hx. apply in_map_iff in Hx as [a [<- Hin]].
    specialize (Ha a Hin). apply andb_true_iff in Ha as [_ Ha]. auto.
Qed.

(* C17_rewriter on the sub-grammar: the rewritten text parses, and means what the original text means *)
Theorem rewriter_partial_parse t :
  names_ok t = true -> shape_ok t = true -> rw_ok t = true ->
  exists s', old_style_gen (pr t) = Ok s' /\ exists t', parse s' = Some t' /\ denote t' = denote t.
Proof.
  intros Hn Hs Hr. exists (pr (to_old t)). split; [now apply rewriter_partial|].
  exists (to_old t). split; [|apply denote_to_old].
  apply parse_pr; [now apply names_ok_to_old|now apply shape_ok_to_old].
Qed.
