(* Proofs/AnnotProofs.v — C17: the annotation model (instantiated with the regenerated facts) against the spec.
   A. character-list lemmas (mem / strip / split / partition / join)
   B. the textual rewriter on printed annotations            (C17_rewriter..)
   C. evaluation, normalisation, canonical form, denotation  (C17_norm.., C17_resolve.., C17_denote_render)
   D. field collection along an inheritance chain            (C17_flatten..)                                   *)
From SPV Require Import Base.Str Model.Annot Model.AnnotSpec Gen.FactsAnnot.
Open Scope list_scope.

(* ====================================================================================================== *)
(* A. character lists                                                                                       *)
(* ====================================================================================================== *)
Lemma mem_app c a b : mem c (a ++ b) = mem c a || mem c b.
Proof. unfold mem. apply existsb_app. Qed.

Lemma mem_cons c a s : mem c (a :: s) = Ascii.eqb c a || mem c s.
Proof. reflexivity. Qed.

Lemma mem_rev c s : mem c (rev s) = mem c s.
Proof.
  unfold mem. destruct (existsb (Ascii.eqb c) s) eqn:E.
  - apply existsb_exists in E as [x [Hx He]]. apply existsb_exists. exists x. split; [now apply in_rev in Hx|exact He].
  - destruct (existsb (Ascii.eqb c) (rev s)) eqn:E2; [|reflexivity].
    apply existsb_exists in E2 as [x [Hx He]]. apply in_rev in Hx.
    assert (existsb (Ascii.eqb c) s = true) by (apply existsb_exists; exists x; split; assumption). congruence.
Qed.

Lemma eqb_sym_false a c : Ascii.eqb c a = false -> Ascii.eqb a c = false.
Proof. rewrite Ascii.eqb_sym. auto. Qed.

Lemma partc_app c x y : mem c x = false -> partc c (x ++ c :: y) = (x, [c], y).
Proof.
  induction x as [|a x IH]; intros H; simpl.
  - now rewrite Ascii.eqb_refl.
  - rewrite mem_cons in H. apply orb_false_iff in H as [Ha Hx].
    rewrite (eqb_sym_false _ _ Ha), (IH Hx). reflexivity.
Qed.

Lemma rpartc_app c x y : mem c y = false -> rpartc c (x ++ c :: y) = (x, [c], y).
Proof.
  intros H. unfold rpartc.
  assert (E : rev (x ++ c :: y) = rev y ++ c :: rev x).
  { rewrite rev_app_distr. simpl. now rewrite <- app_assoc. }
  rewrite E, partc_app by now rewrite mem_rev.
  now rewrite !rev_involutive.
Qed.

Lemma splitc_nomem c x : mem c x = false -> splitc c x = [x].
Proof.
  induction x as [|a x IH]; intros H; simpl; [reflexivity|].
  rewrite mem_cons in H. apply orb_false_iff in H as [Ha Hx].
  now rewrite (eqb_sym_false _ _ Ha), (IH Hx).
Qed.

Lemma splitc_app c x y : mem c x = false -> splitc c (x ++ c :: y) = x :: splitc c y.
Proof.
  induction x as [|a x IH]; intros H; simpl.
  - now rewrite Ascii.eqb_refl.
  - rewrite mem_cons in H. apply orb_false_iff in H as [Ha Hx].
    now rewrite (eqb_sym_false _ _ Ha), (IH Hx).
Qed.

(* ---------- strip ---------- *)
Definition blank (s : list ascii) : bool := forallb is_space s.
Definition first_ok (s : list ascii) : bool := negb (is_space (hd " "%char s)).
Definition last_ok (s : list ascii) : bool := first_ok (rev s).
Definition stripped (s : list ascii) : bool := first_ok s && last_ok s.

Lemma first_ok_nonnil s : first_ok s = true -> s <> [].
Proof. destruct s; [discriminate|congruence]. Qed.

Lemma first_ok_app a b : a <> [] -> first_ok (a ++ b) = first_ok a.
Proof. destruct a; [congruence|reflexivity]. Qed.

Lemma last_ok_app a b : b <> [] -> last_ok (a ++ b) = last_ok b.
Proof.
  intros H. unfold last_ok. rewrite rev_app_distr. apply first_ok_app.
  intros E. apply H. apply (f_equal (@rev ascii)) in E. now rewrite rev_involutive in E.
Qed.

Lemma lstripl_blank r s : blank r = true -> lstripl (r ++ s) = lstripl s.
Proof.
  induction r as [|a r IH]; intros H; simpl in *; [reflexivity|].
  apply andb_true_iff in H as [Ha Hr]. now rewrite Ha, IH.
Qed.

Lemma lstripl_first_ok s : first_ok s = true -> lstripl s = s.
Proof.
  destruct s as [|a s]; [reflexivity|]. unfold first_ok. simpl. intros H.
  apply negb_true_iff in H. now rewrite H.
Qed.

Lemma blank_rev l : blank l = true -> blank (rev l) = true.
Proof.
  unfold blank. rewrite !forallb_forall. intros H x Hx. apply H. now apply in_rev.
Qed.

Lemma strip_pad l r x : blank l = true -> blank r = true -> stripped x = true -> stripl (r ++ x ++ l) = x.
Proof.
  intros Hl Hr Hx. unfold stripped in Hx. apply andb_true_iff in Hx as [Hf Hla].
  assert (Hne : x <> []) by now apply first_ok_nonnil.
  unfold stripl. rewrite lstripl_blank by exact Hr.
  rewrite lstripl_first_ok by (rewrite first_ok_app; assumption).
  unfold rstripl. rewrite rev_app_distr, lstripl_blank by now apply blank_rev.
  rewrite lstripl_first_ok by exact Hla. apply rev_involutive.
Qed.

Lemma strip_stripped x : stripped x = true -> stripl x = x.
Proof.
  intros H. generalize (strip_pad [] [] x eq_refl eq_refl H). now rewrite app_nil_r.
Qed.

(* ---------- join / split round trip ---------- *)
Lemma joinl_cons2 sep x y l : joinl sep (x :: y :: l) = x ++ sep ++ joinl sep (y :: l).
Proof. reflexivity. Qed.

Lemma mem_joinl c sep l : mem c sep = false -> mem c (joinl sep l) = existsb (mem c) l.
Proof.
  intros Hs. induction l as [|x l IH]; [reflexivity|].
  destruct l as [|y l].
  - simpl. now rewrite orb_false_r.
  - rewrite joinl_cons2, !mem_app, Hs, IH. reflexivity.
Qed.

Lemma blank_nomem c s : is_space c = false -> blank s = true -> mem c s = false.
Proof.
  intros Hc. induction s as [|a s IH]; intros H; [reflexivity|].
  simpl in H. apply andb_true_iff in H as [Ha Hs]. rewrite mem_cons, (IH Hs), orb_false_r.
  destruct (Ascii.eqb c a) eqn:E; [|reflexivity]. apply Ascii.eqb_eq in E. subst. congruence.
Qed.

(* pieces free of c, stripped; separator = blanks c blanks: split then strip gives the pieces back *)
Lemma split_join_strip c l r cs pre :
  is_space c = false -> blank l = true -> blank r = true -> blank pre = true ->
  cs <> [] -> Forall (fun x => mem c x = false /\ stripped x = true) cs ->
  map stripl (splitc c (pre ++ joinl (l ++ c :: r) cs)) = cs.
Proof.
  intros Hc Hl Hr. revert pre. induction cs as [|x cs IH]; intros pre Hp Hne Hall; [congruence|].
  inversion Hall as [|? ? [Hcx Hsx] Hrest]; subst.
  destruct cs as [|y cs].
  - simpl joinl. rewrite splitc_nomem.
    + simpl. f_equal. generalize (strip_pad [] pre x eq_refl Hp Hsx). now rewrite app_nil_r.
    + now rewrite mem_app, Hcx, (blank_nomem c pre Hc Hp).
  - rewrite joinl_cons2.
    replace (pre ++ x ++ (l ++ c :: r) ++ joinl (l ++ c :: r) (y :: cs))
      with ((pre ++ x ++ l) ++ c :: (r ++ joinl (l ++ c :: r) (y :: cs)))
      by (rewrite <- !app_assoc; simpl; now rewrite <- !app_assoc).
    rewrite splitc_app.
    + simpl map. f_equal.
      * now apply strip_pad.
      * apply IH; [exact Hr|discriminate|exact Hrest].
    + now rewrite !mem_app, Hcx, (blank_nomem c pre Hc Hp), (blank_nomem c l Hc Hl).
Qed.

Lemma joinl_app sep a b : a <> [] -> b <> [] -> joinl sep (a ++ b) = joinl sep a ++ sep ++ joinl sep b.
Proof.
  intros Ha Hb. induction a as [|x a IH]; [congruence|].
  destruct a as [|y a].
  - simpl app. destruct b as [|z b]; [congruence|]. reflexivity.
  - change ((x :: y :: a) ++ b) with (x :: (y :: a) ++ b). simpl app.
    rewrite !joinl_cons2. change (y :: a ++ b) with ((y :: a) ++ b). rewrite IH by discriminate.
    now rewrite <- !app_assoc.
Qed.

Lemma flat_map_nonnil {A B} (f : A -> list B) l : l <> [] -> (forall x, In x l -> f x <> []) -> flat_map f l <> [].
Proof.
  destruct l as [|x l]; [congruence|]. intros _ H. simpl. intros E. apply app_eq_nil in E as [E _].
  exact (H x (or_introl eq_refl) E).
Qed.

Lemma joinl_flat_map {A} sep (f : A -> list (list ascii)) l :
  (forall x, In x l -> f x <> []) -> joinl sep (flat_map f l) = joinl sep (map (fun x => joinl sep (f x)) l).
Proof.
  induction l as [|x l IH]; intros H; [reflexivity|].
  destruct l as [|y l].
  - simpl. now rewrite app_nil_r.
  - change (flat_map f (x :: y :: l)) with (f x ++ flat_map f (y :: l)).
    rewrite joinl_app.
    + rewrite IH by (intros z Hz; apply H; now right). reflexivity.
    + apply H. now left.
    + apply flat_map_nonnil; [discriminate|]. intros z Hz. apply H. now right.
Qed.

Lemma mapM_app {A B} (f : A -> res B) a b :
  mapM f (a ++ b) = bind (mapM f a) (fun ra => bind (mapM f b) (fun rb => Ok (ra ++ rb))).
Proof.
  induction a as [|x a IH]; simpl.
  - destruct (mapM f b); reflexivity.
  - destruct (f x); simpl; [|reflexivity]. rewrite IH. destruct (mapM f a); simpl; [|reflexivity].
    destruct (mapM f b); reflexivity.
Qed.

Lemma mapM_id {A} (f : A -> res A) l : Forall (fun x => f x = Ok x) l -> mapM f l = Ok l.
Proof. induction 1 as [|x l Hx _ IH]; simpl; [reflexivity|]. now rewrite Hx, IH. Qed.

Lemma mapM_flat_map {A B C} (f : B -> res C) (g : A -> list B) (g' : A -> list C) l :
  Forall (fun a => mapM f (g a) = Ok (g' a)) l -> mapM f (flat_map g l) = Ok (flat_map g' l).
Proof.
  induction 1 as [|x l Hx _ IH]; [reflexivity|]. simpl. now rewrite mapM_app, Hx, IH.
Qed.

(* ====================================================================================================== *)
(* B. the textual rewriter on printed annotations                                                          *)
(* ====================================================================================================== *)
Definition cBar : ascii := "|"%char.
Definition cL : ascii := "["%char.
Definition cR : ascii := "]"%char.
Definition cComma : ascii := ","%char.
Definition sepComma : list ascii := chars ", ".
Definition sepBar : list ascii := chars " | ".

Definition osf := old_style_fuel cBar cL cR cComma (chars "Union[") sepComma (chars "]") "NotImplementedError".

(* the regenerated literals are the ones the proofs below are about *)
Lemma gen_is_std : old_style_fuel_gen = osf.
Proof. reflexivity. Qed.

Lemma osf_id n s : mem cBar s = false -> osf (S n) s = Ok s.
Proof. intros H. unfold osf. cbn [old_style_fuel]. now rewrite H. Qed.

Lemma osf_flat n s :
  mem cBar s = true -> mem cL (stripl s) = false -> mem cR (stripl s) = false ->
  osf (S n) s = Ok (chars "Union[" ++ joinl sepComma (map stripl (splitc cBar (stripl s))) ++ chars "]").
Proof.
  intros H1 H2 H3. unfold osf. cbn [old_style_fuel]. rewrite H1. cbn [negb]. rewrite H2. cbn [negb]. now rewrite H3.
Qed.

Lemma osf_sub n s before middle :
  mem cBar s = true -> stripl s = before ++ cL :: middle ++ [cR] ->
  mem cL before = false -> mem cBar before = false -> mem cBar middle = true ->
  osf (S n) s =
  bind (if mem cComma middle
        then bind (mapM (osf n) (map stripl (splitc cComma middle))) (fun parts => Ok (joinl sepComma parts))
        else Ok middle)
       (fun middle' => bind (osf n middle') (fun nm => Ok (before ++ cL :: nm ++ [cR]))).
Proof.
  intros H1 H2 H3 H4 H5. unfold osf. cbn [old_style_fuel]. rewrite H1. cbn [negb]. rewrite H2.
  assert (HL : mem cL (before ++ cL :: middle ++ [cR]) = true).
  { rewrite mem_app, mem_cons, Ascii.eqb_refl. now rewrite orb_true_r. }
  rewrite HL. cbn [negb]. rewrite (partc_app cL before (middle ++ [cR]) H3).
  rewrite (rpartc_app cR middle [] eq_refl).
  cbn [stripl lstripl rstripl rev app negb]. rewrite H4. cbn [mem existsb orb]. rewrite H5. cbn [negb].
  destruct (mem cComma middle).
  - destruct (mapM _ _); [|reflexivity]. cbn [bind]. destruct (old_style_fuel _ _ _ _ _ _ _ _ n _); [|reflexivity].
    cbn [bind]. repeat f_equal.
  - cbn [bind]. destruct (old_style_fuel _ _ _ _ _ _ _ _ n _); [|reflexivity]. cbn [bind]. repeat f_equal.
Qed.

(* ---------- nested induction over written annotations ---------- *)
Section texp_ind2.
  Variable P : texp -> Prop.
  Hypothesis HN : forall n, P (TName n).
  Hypothesis HS : forall n args, Forall P args -> P (TSub n args).
  Hypothesis HB : forall ts, Forall P ts -> P (TBar ts).
  Fixpoint texp_ind2 (t : texp) : P t :=
    match t with
    | TName n => HN n
    | TSub n args => HS n args ((fix go (l : list texp) : Forall P l :=
                                  match l with [] => Forall_nil P | x :: r => Forall_cons x (texp_ind2 x) (go r) end) args)
    | TBar ts => HB ts ((fix go (l : list texp) : Forall P l :=
                           match l with [] => Forall_nil P | x :: r => Forall_cons x (texp_ind2 x) (go r) end) ts)
    end.
End texp_ind2.

(* ---------- the sub-grammar ---------- *)
Fixpoint has_bar (t : texp) : bool :=
  match t with TName _ => false | TSub _ args => existsb has_bar args | TBar _ => true end.

(* no comma in the printed text *)
Fixpoint comma_free (t : texp) : bool :=
  match t with
  | TName _ => true
  | TSub _ args => match args with [a] => comma_free a | _ => false end
  | TBar ts => forallb comma_free ts
  end.

Definition nm_ok (n : string) : bool :=
  negb (is_nil (chars n)) && forallb (fun a => negb (is_delim a)) (chars n).

Fixpoint names_ok (t : texp) : bool :=
  match t with
  | TName n => nm_ok n
  | TSub n args => nm_ok n && forallb names_ok args
  | TBar ts => forallb names_ok ts
  end.

Definition is_tbar (t : texp) : bool := match t with TBar _ => true | _ => false end.
Definition is_atom (t : texp) : bool := match t with TName _ => true | _ => false end.

(* subscripts have arguments; a bar has two or more members, none of them a bar itself *)
Fixpoint shape_ok (t : texp) : bool :=
  match t with
  | TName _ => true
  | TSub _ args => negb (is_nil args) && forallb shape_ok args
  | TBar ts => Nat.leb 2 (List.length ts) && forallb (fun t => negb (is_tbar t) && shape_ok t) ts
  end.

(* what _get_old_style_annotation handles: bars between plain names, at top level or as a whole subscript argument;
   an argument that contains a bar must not contain a comma.  Excluded: `name[...] | None`, `None | name[...]`,
   `list[tuple[int | str, int]]`, `dict[str, int] | None` inside brackets, ... *)
Fixpoint rw_ok (t : texp) : bool :=
  match t with
  | TName _ => true
  | TSub _ args => forallb (fun a => negb (has_bar a) || (comma_free a && rw_ok a)) args
  | TBar ts => forallb is_atom ts
  end.

Fixpoint depth (t : texp) : nat :=
  match t with
  | TName _ => 1
  | TSub _ args => S (fold_right Nat.max 1 (map depth args))
  | TBar _ => 1
  end.

(* ---------- facts about names ---------- *)
Lemma nodelim_mem s c : forallb (fun a => negb (is_delim a)) s = true -> is_delim c = true -> mem c s = false.
Proof.
  intros H Hc. induction s as [|a s IH]; [reflexivity|].
  simpl in H. apply andb_true_iff in H as [Ha Hs]. rewrite mem_cons, (IH Hs), orb_false_r.
  destruct (Ascii.eqb c a) eqn:E; [|reflexivity]. apply Ascii.eqb_eq in E. subst.
  rewrite Hc in Ha. discriminate.
Qed.

Lemma nodelim_first_ok s : s <> [] -> forallb (fun a => negb (is_delim a)) s = true -> first_ok s = true.
Proof.
  destruct s as [|a s]; [congruence|]. intros _ H. simpl in H. apply andb_true_iff in H as [Ha _].
  unfold first_ok. simpl. unfold is_delim in Ha. rewrite !negb_orb in Ha.
  repeat (apply andb_true_iff in Ha as [Ha ?]). assumption.
Qed.

Lemma nodelim_rev s : forallb (fun a => negb (is_delim a)) s = true -> forallb (fun a => negb (is_delim a)) (rev s) = true.
Proof. rewrite !forallb_forall. intros H x Hx. apply H. now apply in_rev. Qed.

Lemma nm_ok_nonnil n : nm_ok n = true -> chars n <> [].
Proof. unfold nm_ok. intros H. apply andb_true_iff in H as [H _]. destruct (chars n); [discriminate|congruence]. Qed.

Lemma nm_ok_mem n c : nm_ok n = true -> is_delim c = true -> mem c (chars n) = false.
Proof. unfold nm_ok. intros H. apply andb_true_iff in H as [_ H]. now apply nodelim_mem. Qed.

Lemma nm_ok_stripped n : nm_ok n = true -> stripped (chars n) = true.
Proof.
  intros H. pose proof (nm_ok_nonnil n H) as Hne. unfold nm_ok in H. apply andb_true_iff in H as [_ H].
  unfold stripped, last_ok. rewrite nodelim_first_ok by assumption.
  rewrite nodelim_first_ok; [reflexivity| |now apply nodelim_rev].
  intros E. apply Hne. apply (f_equal (@rev ascii)) in E. now rewrite rev_involutive in E.
Qed.

(* ---------- facts about printed text ---------- *)
Lemma pr_sub n args : pr (TSub n args) = chars n ++ cL :: joinl sepComma (map pr args) ++ [cR].
Proof. reflexivity. Qed.

Lemma existsb_map_false {A B} (f : A -> B) (p : B -> bool) (q : A -> bool) l :
  Forall (fun x => q x = true -> p (f x) = false) l -> forallb q l = true -> existsb p (map f l) = false.
Proof.
  induction 1 as [|x l Hx _ IH]; intros H; [reflexivity|].
  simpl in *. apply andb_true_iff in H as [Hq Hl]. now rewrite (Hx Hq), (IH Hl).
Qed.

Lemma joinl_stripped sep l :
  l <> [] -> Forall (fun x => stripped x = true) l -> stripped (joinl sep l) = true.
Proof.
  induction l as [|x l IH]; intros Hne Hall; [congruence|].
  inversion Hall as [|? ? Hx Hl]; subst. destruct l as [|y l]; [exact Hx|].
  specialize (IH ltac:(discriminate) Hl). rewrite joinl_cons2.
  unfold stripped in *. apply andb_true_iff in Hx as [Hxf Hxl]. apply andb_true_iff in IH as [IHf IHl].
  pose proof (first_ok_nonnil _ Hxf) as Hxn. pose proof (first_ok_nonnil _ IHf) as Hjn.
  rewrite first_ok_app by exact Hxn. rewrite Hxf, andb_true_l.
  rewrite last_ok_app.
  - rewrite last_ok_app by exact Hjn. exact IHl.
  - intros E. apply app_eq_nil in E as [_ E]. congruence.
Qed.

Lemma pr_stripped t : names_ok t = true -> shape_ok t = true -> stripped (pr t) = true.
Proof.
  induction t as [n|n args IH|ts IH] using texp_ind2; intros Hn Hs.
  - now apply nm_ok_stripped.
  - simpl in Hn. apply andb_true_iff in Hn as [Hn _]. rewrite pr_sub. unfold stripped.
    rewrite first_ok_app by now apply nm_ok_nonnil.
    pose proof (nm_ok_stripped n Hn) as Hst. unfold stripped in Hst. apply andb_true_iff in Hst as [Hf _]. rewrite Hf. simpl.
    replace (chars n ++ cL :: joinl sepComma (map pr args) ++ [cR])
      with ((chars n ++ cL :: joinl sepComma (map pr args)) ++ [cR]) by (rewrite <- app_assoc; reflexivity).
    now rewrite last_ok_app by discriminate.
  - simpl in Hn, Hs. apply andb_true_iff in Hs as [Hlen Hs]. simpl. apply joinl_stripped.
    + destruct ts; [discriminate|discriminate].
    + rewrite Forall_forall in *. intros x Hx. apply in_map_iff in Hx as [t [<- Ht]].
      rewrite forallb_forall in Hn, Hs. specialize (Hs t Ht). apply andb_true_iff in Hs as [_ Hs].
      now apply IH; [|apply Hn|].
Qed.

Lemma mem_bar_nobar t : names_ok t = true -> has_bar t = false -> mem cBar (pr t) = false.
Proof.
  induction t as [n|n args IH|ts IH] using texp_ind2; intros Hn Hb.
  - now apply nm_ok_mem.
  - simpl in Hn, Hb. apply andb_true_iff in Hn as [Hn Ha]. rewrite pr_sub, mem_app, mem_cons, mem_app.
    rewrite (nm_ok_mem n cBar Hn eq_refl). simpl. rewrite orb_false_r.
    rewrite mem_joinl by reflexivity.
    apply (existsb_map_false pr (mem cBar) (fun a => names_ok a && negb (has_bar a))).
    + rewrite Forall_forall in *. intros a Hin H. apply andb_true_iff in H as [H1 H2].
      apply negb_true_iff in H2. now apply IH.
    + rewrite forallb_forall in *. intros a Hin. rewrite (Ha a Hin). simpl.
      apply negb_true_iff. destruct (has_bar a) eqn:E; [|reflexivity].
      assert (existsb has_bar args = true) by (apply existsb_exists; now exists a). congruence.
  - discriminate.
Qed.

Lemma mem_bar_bar t : shape_ok t = true -> has_bar t = true -> mem cBar (pr t) = true.
Proof.
  induction t as [n|n args IH|ts IH] using texp_ind2; intros Hs Hb.
  - discriminate.
  - simpl in Hs, Hb. apply andb_true_iff in Hs as [_ Hs]. rewrite pr_sub, mem_app, mem_cons, mem_app.
    rewrite mem_joinl by reflexivity.
    apply existsb_exists in Hb as [a [Hin Ha]].
    assert (existsb (mem cBar) (map pr args) = true).
    { apply existsb_exists. exists (pr a). split; [now apply in_map|].
      rewrite Forall_forall in IH. rewrite forallb_forall in Hs. now apply IH; [|apply Hs|]. }
    rewrite H. now rewrite !orb_true_r.
  - simpl in Hs. apply andb_true_iff in Hs as [Hlen _].
    destruct ts as [|x [|y ts]]; [discriminate|discriminate|].
    change (pr (TBar (x :: y :: ts))) with (joinl sepBar (pr x :: pr y :: map pr ts)).
    rewrite joinl_cons2, !mem_app.
    assert (mem cBar sepBar = true) by reflexivity. rewrite H. now rewrite orb_true_r.
Qed.

Lemma mem_comma_free t : names_ok t = true -> comma_free t = true -> mem cComma (pr t) = false.
Proof.
  induction t as [n|n args IH|ts IH] using texp_ind2; intros Hn Hc.
  - now apply nm_ok_mem.
  - simpl in Hn, Hc. apply andb_true_iff in Hn as [Hn Ha].
    destruct args as [|a [|b args]]; [discriminate| |discriminate].
    rewrite pr_sub, mem_app, mem_cons, mem_app. rewrite (nm_ok_mem n cComma Hn eq_refl). simpl.
    rewrite orb_false_r. inversion IH; subst. simpl in Ha. apply andb_true_iff in Ha as [Ha _]. auto.
  - simpl in Hn, Hc. simpl pr. rewrite mem_joinl by reflexivity.
    apply (existsb_map_false pr (mem cComma) (fun a => names_ok a && comma_free a)).
    + rewrite Forall_forall in *. intros a Hin H. apply andb_true_iff in H as [H1 H2]. now apply IH.
    + rewrite forallb_forall in *. intros a Hin. now rewrite (Hn a Hin), (Hc a Hin).
Qed.

Lemma map_id_Forall {A} (f : A -> A) l : Forall (fun x => f x = x) l -> map f l = l.
Proof. induction 1 as [|x l Hx _ IH]; simpl; [reflexivity|]. now rewrite Hx, IH. Qed.

Lemma to_old_nobar t : has_bar t = false -> to_old t = t.
Proof.
  induction t as [n|n args IH|ts IH] using texp_ind2; intros Hb; [reflexivity| |discriminate].
  simpl in *. f_equal. apply map_id_Forall. rewrite Forall_forall in *. intros a Hin. apply IH; [exact Hin|].
  destruct (has_bar a) eqn:E; [|reflexivity].
  assert (existsb has_bar args = true) by (apply existsb_exists; now exists a). congruence.
Qed.

Lemma has_bar_to_old t : has_bar (to_old t) = false.
Proof.
  induction t as [n|n args IH|ts IH] using texp_ind2; [reflexivity| |];
    simpl; rewrite Forall_forall in IH; clear -IH.
  - induction args as [|a args IHa]; [reflexivity|]. simpl. rewrite IH by now left. apply IHa. intros x Hx. apply IH. now right.
  - induction ts as [|a ts IHa]; [reflexivity|]. simpl. rewrite IH by now left. apply IHa. intros x Hx. apply IH. now right.
Qed.

Lemma names_ok_to_old t : names_ok t = true -> names_ok (to_old t) = true.
Proof.
  induction t as [n|n args IH|ts IH] using texp_ind2; intros H; [exact H| |]; cbn [to_old names_ok] in *.
  - apply andb_true_iff in H as [Hn Ha]. rewrite Hn, andb_true_l. rewrite forallb_forall in *. intros x Hx.
    apply in_map_iff in Hx as [a [<- Hin]]. rewrite Forall_forall in IH. now apply IH; [|apply Ha].
  - assert (E : nm_ok "Union" = true) by reflexivity. rewrite E, andb_true_l. rewrite forallb_forall in *. intros x Hx.
    apply in_map_iff in Hx as [a [<- Hin]]. rewrite Forall_forall in IH. now apply IH; [|apply H].
Qed.

(* ---------- the comma-separated chunks of a printed annotation without bars ---------- *)
Fixpoint app_last (l : list (list ascii)) (post : list ascii) : list (list ascii) :=
  match l with
  | [] => [post]
  | x :: r => match r with [] => [x ++ post] | _ => x :: app_last r post end
  end.

Definition wrap (pre post : list ascii) (l : list (list ascii)) : list (list ascii) :=
  match l with [] => [pre ++ post] | x :: r => app_last ((pre ++ x) :: r) post end.

Fixpoint pchunks (t : texp) : list (list ascii) :=
  match t with
  | TName n => [chars n]
  | TSub n args => wrap (chars n ++ [cL]) [cR] (flat_map pchunks args)
  | TBar ts => [pr (TBar ts)]
  end.

Definition chunk_ok (x : list ascii) : bool := negb (mem cComma x) && negb (mem cBar x) && stripped x.

Lemma app_last_nonnil l post : app_last l post <> [].
Proof. destruct l as [|x [|y l]]; discriminate. Qed.

Lemma joinl_cons_nonnil sep x l : l <> [] -> joinl sep (x :: l) = x ++ sep ++ joinl sep l.
Proof. destruct l; [congruence|reflexivity]. Qed.

Lemma joinl_app_last sep l post : l <> [] -> joinl sep (app_last l post) = joinl sep l ++ post.
Proof.
  induction l as [|x l IH]; intros H; [congruence|].
  destruct l as [|y l]; [reflexivity|].
  change (app_last (x :: y :: l) post) with (x :: app_last (y :: l) post).
  rewrite joinl_cons_nonnil by apply app_last_nonnil. rewrite IH by discriminate.
  rewrite joinl_cons2. now rewrite <- !app_assoc.
Qed.

Lemma joinl_pre sep pre x r : joinl sep ((pre ++ x) :: r) = pre ++ joinl sep (x :: r).
Proof. destruct r; simpl; [reflexivity|now rewrite <- app_assoc]. Qed.

Lemma joinl_wrap sep pre post l : l <> [] -> joinl sep (wrap pre post l) = pre ++ joinl sep l ++ post.
Proof.
  destruct l as [|x r]; intros H; [congruence|]. unfold wrap.
  rewrite joinl_app_last by discriminate. rewrite joinl_pre. now rewrite <- app_assoc.
Qed.

Lemma Forall_app_last (P : list ascii -> Prop) l post :
  l <> [] -> Forall P l -> (forall x, P x -> P (x ++ post)) -> Forall P (app_last l post).
Proof.
  intros Hne Hall Hp. induction l as [|x l IH]; [congruence|].
  inversion Hall; subst. destruct l as [|y l].
  - constructor; [auto|constructor].
  - change (app_last (x :: y :: l) post) with (x :: app_last (y :: l) post).
    constructor; [assumption|]. apply IH; [discriminate|assumption].
Qed.

Lemma chunk_ok_pre pre x :
  mem cComma pre = false -> mem cBar pre = false -> first_ok pre = true -> chunk_ok x = true -> chunk_ok (pre ++ x) = true.
Proof.
  intros H1 H2 H3 H. unfold chunk_ok in *. apply andb_true_iff in H as [H Hs]. apply andb_true_iff in H as [Hc Hb].
  apply negb_true_iff in Hc, Hb. unfold stripped in *. apply andb_true_iff in Hs as [Hf Hl].
  rewrite !mem_app, H1, H2, Hc, Hb. simpl.
  rewrite first_ok_app by now apply first_ok_nonnil. rewrite H3.
  rewrite last_ok_app by now apply first_ok_nonnil. exact Hl.
Qed.

Lemma chunk_ok_post post x :
  mem cComma post = false -> mem cBar post = false -> last_ok post = true -> chunk_ok x = true -> chunk_ok (x ++ post) = true.
Proof.
  intros H1 H2 H3 H. unfold chunk_ok in *. apply andb_true_iff in H as [H Hs]. apply andb_true_iff in H as [Hc Hb].
  apply negb_true_iff in Hc, Hb. unfold stripped in *. apply andb_true_iff in Hs as [Hf Hl].
  rewrite !mem_app, H1, H2, Hc, Hb. simpl.
  rewrite first_ok_app by now apply first_ok_nonnil. rewrite Hf.
  rewrite last_ok_app; [exact H3|]. unfold last_ok in H3. intros E. subst. discriminate.
Qed.

Lemma pchunks_spec t :
  names_ok t = true -> shape_ok t = true -> has_bar t = false ->
  pchunks t <> [] /\ joinl sepComma (pchunks t) = pr t /\ Forall (fun x => chunk_ok x = true) (pchunks t).
Proof.
  induction t as [n|n args IH|ts IH] using texp_ind2; intros Hn Hs Hb.
  - cbn [pchunks]. split; [discriminate|]. split; [reflexivity|]. constructor; [|constructor].
    cbn [names_ok] in Hn. unfold chunk_ok.
    now rewrite (nm_ok_mem n cComma Hn eq_refl), (nm_ok_mem n cBar Hn eq_refl), (nm_ok_stripped n Hn).
  - cbn [names_ok shape_ok has_bar] in Hn, Hs, Hb.
    apply andb_true_iff in Hn as [Hn Han]. apply andb_true_iff in Hs as [Hne Has].
    assert (Hargs : forall a, In a args ->
              pchunks a <> [] /\ joinl sepComma (pchunks a) = pr a /\ Forall (fun x => chunk_ok x = true) (pchunks a)).
    { intros a Hin. rewrite Forall_forall in IH. rewrite forallb_forall in Han, Has. apply IH; auto.
      destruct (has_bar a) eqn:E; [|reflexivity].
      assert (existsb has_bar args = true) by (apply existsb_exists; now exists a). congruence. }
    assert (HL : flat_map pchunks args <> []).
    { apply flat_map_nonnil; [destruct args; [discriminate|discriminate]|]. intros a Hin. now apply Hargs. }
    cbn [pchunks]. split.
    { unfold wrap. destruct (flat_map pchunks args); [congruence|apply app_last_nonnil]. }
    split.
    { rewrite joinl_wrap by exact HL. rewrite joinl_flat_map by (intros a Hin; now apply Hargs).
      assert (Em : map (fun x => joinl sepComma (pchunks x)) args = map pr args)
        by (apply map_ext_in; intros a Hin; now apply Hargs).
      rewrite Em, pr_sub, <- app_assoc. reflexivity. }
    assert (HF : Forall (fun x => chunk_ok x = true) (flat_map pchunks args)).
    { rewrite Forall_forall. intros x Hx. apply in_flat_map in Hx as [a [Hin Hx]].
      destruct (Hargs a Hin) as [_ [_ HFa]]. rewrite Forall_forall in HFa. now apply HFa. }
    unfold wrap. destruct (flat_map pchunks args) as [|x r]; [congruence|].
    inversion HF; subst.
    assert (Hpre1 : mem cComma (chars n ++ [cL]) = false) by now rewrite mem_app, (nm_ok_mem n cComma Hn eq_refl).
    assert (Hpre2 : mem cBar (chars n ++ [cL]) = false) by now rewrite mem_app, (nm_ok_mem n cBar Hn eq_refl).
    assert (Hpre3 : first_ok (chars n ++ [cL]) = true).
    { rewrite first_ok_app by now apply nm_ok_nonnil. pose proof (nm_ok_stripped n Hn) as S0.
      unfold stripped in S0. now apply andb_true_iff in S0 as [S0 _]. }
    apply Forall_app_last; [discriminate| |].
    + constructor; [now apply chunk_ok_pre|assumption].
    + intros y Hy. now apply chunk_ok_post.
  - discriminate.
Qed.

Lemma chunk_ok_split x : chunk_ok x = true -> mem cComma x = false /\ stripped x = true.
Proof.
  unfold chunk_ok. intros H. apply andb_true_iff in H as [H Hs]. apply andb_true_iff in H as [Hc _].
  now apply negb_true_iff in Hc.
Qed.

Lemma chunk_ok_nobar x : chunk_ok x = true -> mem cBar x = false.
Proof.
  unfold chunk_ok. intros H. apply andb_true_iff in H as [H _]. apply andb_true_iff in H as [_ Hb].
  now apply negb_true_iff in Hb.
Qed.

Lemma fold_max_ge (l : list nat) x : In x l -> x <= fold_right Nat.max 1 l.
Proof. induction l as [|y l IH]; simpl; intros H; [contradiction|]. destruct H as [->|H]; [lia|]. specialize (IH H). lia. Qed.

Lemma fold_max_1 (l : list nat) : 1 <= fold_right Nat.max 1 l.
Proof. induction l; simpl; lia. Qed.

(* ---------- the rewriter computes to_old on the sub-grammar, for every nesting depth ---------- *)
Lemma rw_correct t :
  names_ok t = true -> shape_ok t = true -> rw_ok t = true ->
  forall n, depth t <= n -> osf n (pr t) = Ok (pr (to_old t)).
Proof.
  induction t as [nm|nm args IH|ts IH] using texp_ind2; intros Hn Hs Hr n Hd.
  - (* a name *)
    cbn [depth] in Hd. destruct n as [|n]; [lia|]. cbn [names_ok] in Hn.
    apply osf_id. now apply nm_ok_mem.
  - (* name[args] *)
    destruct (has_bar (TSub nm args)) eqn:Hb.
    2:{ rewrite to_old_nobar by exact Hb. cbn [depth] in Hd. destruct n as [|n]; [lia|].
        apply osf_id. now apply mem_bar_nobar. }
    cbn [depth] in Hd. destruct n as [|n]; [lia|]. apply le_S_n in Hd.
    pose proof (fold_max_1 (map depth args)) as Hn1.
    assert (Hst : stripl (pr (TSub nm args)) = chars nm ++ cL :: joinl sepComma (map pr args) ++ [cR]).
    { rewrite strip_stripped by now apply pr_stripped. apply pr_sub. }
    cbn [names_ok shape_ok rw_ok has_bar] in Hn, Hs, Hr, Hb.
    apply andb_true_iff in Hn as [Hnm Han]. apply andb_true_iff in Hs as [Hne Has].
    rewrite forallb_forall in Han, Has, Hr. rewrite Forall_forall in IH.
    assert (Hmid : mem cBar (joinl sepComma (map pr args)) = true).
    { rewrite mem_joinl by reflexivity. apply existsb_exists in Hb as [a [Hin Ha]].
      apply existsb_exists. exists (pr a). split; [now apply in_map|]. apply mem_bar_bar; auto. }
    rewrite (osf_sub n _ (chars nm) (joinl sepComma (map pr args)));
      [|apply mem_bar_bar; cbn [shape_ok has_bar]; [rewrite Hne; simpl; now apply forallb_forall|exact Hb]
       |exact Hst|now apply nm_ok_mem|now apply nm_ok_mem|exact Hmid].
    assert (Hdep : forall a, In a args -> depth a <= n).
    { intros a Hin. pose proof (fold_max_ge (map depth args) (depth a) (in_map depth args a Hin)). lia. }
    assert (Hold : forall a, In a args -> mem cBar (pr (to_old a)) = false).
    { intros a Hin. apply mem_bar_nobar; [apply names_ok_to_old; auto|apply has_bar_to_old]. }
    assert (Hfin : forall mid', mid' = joinl sepComma (map pr (map to_old args)) ->
              bind (osf n mid') (fun nm0 => Ok (chars nm ++ cL :: nm0 ++ [cR])) = Ok (pr (to_old (TSub nm args)))).
    { intros mid' ->. destruct n as [|n]; [lia|]. rewrite osf_id.
      - reflexivity.
      - rewrite mem_joinl by reflexivity. rewrite map_map.
        apply (existsb_map_false (fun a => pr (to_old a)) (mem cBar) (fun a => names_ok a)).
        + rewrite Forall_forall. intros a Hin _. now apply Hold.
        + now apply forallb_forall. }
    destruct args as [|a [|b args]]; [discriminate| |].
    + (* one argument, which contains the bar: no comma in the middle *)
      assert (Hin : In a [a]) by now left.
      cbn [existsb] in Hb. rewrite orb_false_r in Hb.
      specialize (Hr a Hin). rewrite Hb in Hr. cbn [negb orb] in Hr. apply andb_true_iff in Hr as [Hcf Hra].
      cbn [map joinl]. rewrite (mem_comma_free a (Han a Hin) Hcf). cbn [bind].
      rewrite (IH a Hin (Han a Hin) (Has a Hin) Hra n (Hdep a Hin)). reflexivity.
    + (* two or more arguments: every comma splits *)
      set (ARGS := a :: b :: args) in *.
      assert (Hc : mem cComma (joinl sepComma (map pr ARGS)) = true).
      { unfold ARGS. cbn [map]. rewrite joinl_cons2, !mem_app.
        assert (E : mem cComma sepComma = true) by reflexivity. rewrite E. now rewrite orb_true_r. }
      rewrite Hc.
      set (CH := fun a => if has_bar a then [pr a] else pchunks a).
      set (CH' := fun a => if has_bar a then [pr (to_old a)] else pchunks a).
      assert (F1 : forall x, In x ARGS ->
                 CH x <> [] /\ joinl sepComma (CH x) = pr x /\ Forall (fun c => mem cComma c = false /\ stripped c = true) (CH x)).
      { intros x Hin. unfold CH. destruct (has_bar x) eqn:E.
        - specialize (Hr x Hin). rewrite E in Hr. cbn [negb orb] in Hr. apply andb_true_iff in Hr as [Hcf _].
          split; [discriminate|]. split; [reflexivity|]. constructor; [|constructor].
          split; [now apply mem_comma_free; auto|apply pr_stripped; auto].
        - destruct (pchunks_spec x (Han x Hin) (Has x Hin) E) as [P1 [P2 P3]].
          split; [exact P1|]. split; [exact P2|]. eapply Forall_impl; [|exact P3]. intros c. apply chunk_ok_split. }
      assert (F2 : Forall (fun x => mapM (osf n) (CH x) = Ok (CH' x)) ARGS).
      { rewrite Forall_forall. intros x Hin. unfold CH, CH'. destruct (has_bar x) eqn:E.
        - specialize (Hr x Hin). rewrite E in Hr. cbn [negb orb] in Hr. apply andb_true_iff in Hr as [_ Hrx].
          cbn [mapM]. now rewrite (IH x Hin (Han x Hin) (Has x Hin) Hrx n (Hdep x Hin)).
        - destruct (pchunks_spec x (Han x Hin) (Has x Hin) E) as [_ [_ P3]].
          apply mapM_id. eapply Forall_impl; [|exact P3]. intros c Hc0. destruct n as [|n]; [lia|].
          apply osf_id. now apply chunk_ok_nobar. }
      assert (F3 : forall x, In x ARGS -> CH' x <> [] /\ joinl sepComma (CH' x) = pr (to_old x)).
      { intros x Hin. unfold CH'. destruct (has_bar x) eqn:E.
        - split; [discriminate|reflexivity].
        - destruct (pchunks_spec x (Han x Hin) (Has x Hin) E) as [P1 [P2 _]].
          split; [exact P1|]. now rewrite (to_old_nobar x E). }
      assert (E1 : joinl sepComma (map pr ARGS) = joinl sepComma (flat_map CH ARGS)).
      { rewrite joinl_flat_map by (intros x Hin; now apply F1). f_equal.
        apply map_ext_in. intros x Hin. symmetry. now apply F1. }
      assert (E2 : map stripl (splitc cComma (joinl sepComma (map pr ARGS))) = flat_map CH ARGS).
      { rewrite E1.
        apply (split_join_strip cComma [] [" "%char] (flat_map CH ARGS) [] eq_refl eq_refl eq_refl eq_refl).
        - apply flat_map_nonnil; [discriminate|]. intros x Hin. now apply F1.
        - rewrite Forall_forall. intros c Hc0. apply in_flat_map in Hc0 as [x [Hin Hc0]].
          destruct (F1 x Hin) as [_ [_ P]]. rewrite Forall_forall in P. now apply P. }
      rewrite E2. rewrite (mapM_flat_map (osf n) CH CH' ARGS F2). cbn [bind].
      apply Hfin.
      rewrite joinl_flat_map by (intros x Hin; now apply F3). f_equal. rewrite map_map.
      apply map_ext_in. intros x Hin. now apply F3.
  - (* a | b | c between plain names *)
    cbn [depth] in Hd. destruct n as [|n]; [lia|].
    cbn [names_ok shape_ok rw_ok] in Hn, Hs, Hr. apply andb_true_iff in Hs as [Hlen Hs].
    rewrite forallb_forall in Hn, Hs, Hr.
    assert (Hat : forall x, In x ts -> exists m, x = TName m /\ nm_ok m = true).
    { intros x Hin. specialize (Hr x Hin). specialize (Hn x Hin). destruct x; try discriminate. now exists n0. }
    assert (Hstr : stripl (pr (TBar ts)) = pr (TBar ts)).
    { apply strip_stripped. apply pr_stripped; cbn [names_ok shape_ok]; [now apply forallb_forall|].
      rewrite Hlen. now apply forallb_forall. }
    assert (HnoL : forall c, is_delim c = true -> mem c sepBar = false -> mem c (pr (TBar ts)) = false).
    { intros c Hc Hsep. cbn [pr]. rewrite mem_joinl by exact Hsep.
      apply (existsb_map_false pr (mem c) (fun _ => true)); [|now apply forallb_forall].
      rewrite Forall_forall. intros x Hin _. destruct (Hat x Hin) as [m [-> Hm]]. now apply nm_ok_mem. }
    rewrite osf_flat;
      [|apply mem_bar_bar; [cbn [shape_ok]; rewrite Hlen; now apply forallb_forall|reflexivity]
       |rewrite Hstr; now apply HnoL|rewrite Hstr; now apply HnoL].
    rewrite Hstr. change (pr (TBar ts)) with (joinl sepBar (map pr ts)).
    assert (Esp : map stripl (splitc cBar (joinl sepBar (map pr ts))) = map pr ts).
    { apply (split_join_strip cBar [" "%char] [" "%char] (map pr ts) [] eq_refl eq_refl eq_refl eq_refl).
      - destruct ts; [discriminate|discriminate].
      - rewrite Forall_forall. intros c Hc. apply in_map_iff in Hc as [x [<- Hin]].
        destruct (Hat x Hin) as [m [-> Hm]]. split; [now apply nm_ok_mem|now apply nm_ok_stripped]. }
    rewrite Esp. cbn [to_old]. rewrite pr_sub.
    assert (Eid : map to_old ts = ts).
    { apply map_id_Forall. rewrite Forall_forall. intros x Hin. destruct (Hat x Hin) as [m [-> _]]. reflexivity. }
    rewrite Eid. change (chars "Union[") with (chars "Union" ++ [cL]). rewrite <- app_assoc. reflexivity.
Qed.

Lemma len_joinl_ge sep l x : In x l -> List.length x <= List.length (joinl sep l).
Proof.
  induction l as [|y l IH]; intros H; [contradiction|].
  destruct l as [|z l].
  - destruct H as [->|[]]. simpl. lia.
  - rewrite joinl_cons2, !app_length. destruct H as [->|H]; [lia|]. specialize (IH H). lia.
Qed.

Lemma depth_le_len t : depth t <= S (List.length (pr t)).
Proof.
  induction t as [n|n args IH|ts IH] using texp_ind2; cbn [depth]; try lia.
  rewrite pr_sub, app_length. cbn [List.length]. rewrite app_length. cbn [List.length].
  assert (fold_right Nat.max 1 (map depth args) <= S (List.length (joinl sepComma (map pr args)))).
  { rewrite Forall_forall in IH. clear -IH. induction args as [|a args IHa]; cbn [map fold_right]; [lia|].
    assert (Ha : depth a <= S (List.length (pr a))) by (apply IH; now left).
    assert (Hl : List.length (pr a) <= List.length (joinl sepComma (pr a :: map pr args)))
      by (apply len_joinl_ge; now left).
    assert (Hr : fold_right Nat.max 1 (map depth args) <= S (List.length (joinl sepComma (map pr args))))
      by (apply IHa; intros x Hx; apply IH; now right).
    assert (Hm : List.length (joinl sepComma (map pr args)) <= List.length (joinl sepComma (pr a :: map pr args))).
    { destruct args as [|b args]; [simpl; lia|]. cbn [map]. rewrite joinl_cons2, !app_length. lia. }
    lia. }
  lia.
Qed.

(* the textual rewriter, as instantiated from the source, on the sub-grammar it handles *)
Theorem rewriter_partial t :
  names_ok t = true -> shape_ok t = true -> rw_ok t = true -> old_style_gen (pr t) = Ok (pr (to_old t)).
Proof.
  intros Hn Hs Hr. unfold old_style_gen, old_style. fold old_style_fuel_gen. rewrite gen_is_std.
  apply rw_correct; try assumption. pose proof (depth_le_len t). lia.
Qed.

(* ====================================================================================================== *)
(* C. evaluation, normalisation, canonical form, denotation                                                *)
(* ====================================================================================================== *)
Section rty_ind2.
  Variable P : rty -> Prop.
  Hypothesis HC : forall n, P (RCls n).
  Hypothesis HN : P RNone.
  Hypothesis HE : P REllipsis.
  Hypothesis HG : forall al o args, Forall P args -> P (RGen al o args).
  Hypothesis HT : forall args, Forall P args -> P (RTUnion args).
  Hypothesis HU : forall args, Forall P args -> P (RUType args).
  Fixpoint rty_ind2 (r : rty) : P r :=
    let go := fix go (l : list rty) : Forall P l :=
                match l with [] => Forall_nil P | x :: t => Forall_cons x (rty_ind2 x) (go t) end in
    match r with
    | RCls n => HC n
    | RNone => HN
    | REllipsis => HE
    | RGen al o args => HG al o args (go args)
    | RTUnion args => HT args (go args)
    | RUType args => HU args (go args)
    end.
End rty_ind2.

Section cty_ind2.
  Variable P : cty -> Prop.
  Hypothesis HA : forall n, P (CAtom n).
  Hypothesis HN : P CNone.
  Hypothesis HD : P CDots.
  Hypothesis HL : forall a, P a -> P (CList a).
  Hypothesis HT : forall l, Forall P l -> P (CTuple l).
  Hypothesis HV : forall a, P a -> P (CTupleVar a).
  Hypothesis HM : forall k v, P k -> P v -> P (CDict k v).
  Hypothesis HU : forall l, Forall P l -> P (CUnion l).
  Hypothesis HB : P CBad.
  Fixpoint cty_ind2 (c : cty) : P c :=
    let go := fix go (l : list cty) : Forall P l :=
                match l with [] => Forall_nil P | x :: t => Forall_cons x (cty_ind2 x) (go t) end in
    match c with
    | CAtom n => HA n
    | CNone => HN
    | CDots => HD
    | CList a => HL a (cty_ind2 a)
    | CTuple l => HT l (go l)
    | CTupleVar a => HV a (cty_ind2 a)
    | CDict k v => HM k v (cty_ind2 k) (cty_ind2 v)
    | CUnion l => HU l (go l)
    | CBad => HB
    end.
End cty_ind2.

(* ---------- equality tests ---------- *)
Lemma list_go_eq {A} (eqb : A -> A -> bool) l1 :
  Forall (fun x => forall y, eqb x y = true -> x = y) l1 ->
  forall l2,
    (fix go (l1 l2 : list A) {struct l1} : bool :=
       match l1, l2 with
       | [], [] => true
       | x :: r1, y :: r2 => eqb x y && go r1 r2
       | _, _ => false
       end) l1 l2 = true -> l1 = l2.
Proof.
  induction 1 as [|x l1 Hx _ IH]; intros [|y l2] H; try discriminate; [reflexivity|].
  apply andb_true_iff in H as [H1 H2]. f_equal; [now apply Hx|now apply IH].
Qed.

Lemma list_go_refl {A} (eqb : A -> A -> bool) l :
  Forall (fun x => eqb x x = true) l ->
  (fix go (l1 l2 : list A) {struct l1} : bool :=
     match l1, l2 with
     | [], [] => true
     | x :: r1, y :: r2 => eqb x y && go r1 r2
     | _, _ => false
     end) l l = true.
Proof. induction 1 as [|x l Hx _ IH]; [reflexivity|]. now rewrite Hx, IH. Qed.

Lemma rty_eqb_eq a : forall b, rty_eqb a b = true -> a = b.
Proof.
  induction a as [n| | |al o args IH|args IH|args IH] using rty_ind2; intros b H; destruct b; try discriminate; simpl in H.
  - apply String.eqb_eq in H. now subst.
  - reflexivity.
  - reflexivity.
  - apply andb_true_iff in H as [H H3]. apply andb_true_iff in H as [H1 H2].
    apply Bool.eqb_prop in H1. subst. assert (o = o0) by (destruct o, o0; try discriminate; reflexivity). subst.
    f_equal. now apply (list_go_eq rty_eqb).
  - f_equal. now apply (list_go_eq rty_eqb).
  - f_equal. now apply (list_go_eq rty_eqb).
Qed.

Lemma rty_in_In x l : rty_in x l = true -> In x l.
Proof.
  unfold rty_in. intros H. apply existsb_exists in H as [y [Hy He]]. apply rty_eqb_eq in He. now subst.
Qed.

Lemma rdedupe_nodup l : forall seen, NoDup l -> (forall x, In x l -> ~ In x seen) -> rdedupe l seen = l.
Proof.
  induction l as [|x l IH]; intros seen Hnd Hs; [reflexivity|].
  inversion Hnd; subst. simpl.
  destruct (rty_in x seen) eqn:E.
  - apply rty_in_In in E. exfalso. apply (Hs x); [now left|exact E].
  - f_equal. apply IH; [assumption|]. intros y Hy Hin. apply in_app_or in Hin as [Hin|[->|[]]].
    + apply (Hs y); [now right|exact Hin].
    + contradiction.
Qed.

Lemma cty_eqb_refl c : cty_eqb c c = true.
Proof.
  induction c as [n| | |a IH|l IH|a IH|k v IHk IHv|l IH|] using cty_ind2; simpl; try reflexivity; try assumption.
  - apply String.eqb_refl.
  - now apply (list_go_refl cty_eqb).
  - now rewrite IHk, IHv.
  - now apply (list_go_refl cty_eqb).
Qed.

Lemma cnodup_NoDup l : cnodup l = true -> NoDup l.
Proof.
  induction l as [|x l IH]; intros H; [constructor|].
  simpl in H. apply andb_true_iff in H as [H1 H2]. constructor; [|now apply IH].
  intros Hin. apply negb_true_iff in H1. unfold cty_in in H1.
  assert (existsb (cty_eqb x) l = true) by (apply existsb_exists; exists x; split; [exact Hin|apply cty_eqb_refl]).
  congruence.
Qed.

Lemma NoDup_map_inj_on {A B} (f : A -> B) l :
  (forall x y, In x l -> In y l -> f x = f y -> x = y) -> NoDup l -> NoDup (map f l).
Proof.
  intros Hinj Hnd. induction Hnd as [|x l Hx Hnd IH]; [constructor|].
  simpl. constructor.
  - intros Hin. apply in_map_iff in Hin as [y [He Hy]]. apply Hx.
    rewrite (Hinj x y); [exact Hy|now left|now right|now symmetry].
  - apply IH. intros a b Ha Hb. apply Hinj; now right.
Qed.

(* ---------- well-formed names and members ---------- *)
Lemma wf_name_not_reserved n r : wf_name n = true -> str_in r RESERVED = true -> String.eqb n r = false.
Proof.
  unfold wf_name. intros H Hr. apply andb_true_iff in H as [H _]. apply andb_true_iff in H as [H _].
  apply negb_true_iff in H. destruct (String.eqb n r) eqn:E; [|reflexivity].
  apply String.eqb_eq in E. subst. congruence.
Qed.

Definition member_ok (c : cty) : bool := is_cnone c || (negb (is_cunion c) && wf_cty c).
Definition mrt (sp : spelling) (c : cty) : rty := none_to_cls (rt sp c).

Lemma wf_union_parts l :
  wf_cty (CUnion l) = true ->
  2 <= List.length l /\ none_only_last l = true /\ NoDup l /\ forallb member_ok l = true.
Proof.
  cbn [wf_cty]. intros H. apply andb_true_iff in H as [H H4]. apply andb_true_iff in H as [H H3].
  apply andb_true_iff in H as [H1 H2]. apply Nat.leb_le in H1.
  split; [exact H1|]. split; [exact H2|]. split; [now apply cnodup_NoDup|exact H4].
Qed.

Lemma rt_none_iff sp c : wf_cty c = true -> none_to_cls (rt sp c) = rt sp c.
Proof. destruct c; try discriminate; intros _; try reflexivity; destruct sp; reflexivity. Qed.

Lemma canon_tuple al rs :
  (forall x, nth_error rs 1 = Some x -> x <> REllipsis) -> canon (RGen al OTuple rs) = CTuple (map canon rs).
Proof.
  intros H. destruct rs as [|x [|y [|z r]]]; try reflexivity.
  - destruct y; try reflexivity. exfalso. now apply (H REllipsis).
  - destruct y; reflexivity.
Qed.

Lemma rt_not_dots sp c : wf_cty c = true -> rt sp c <> REllipsis.
Proof. destruct c; try discriminate; intros _; try discriminate; destruct sp; discriminate. Qed.

Lemma canon_rt sp c : wf_cty c = true -> canon (rt sp c) = c.
Proof.
  induction c as [n| | |a IH|l IH|a IH|k v IHk IHv|l IH|] using cty_ind2; intros H; try discriminate.
  - cbn [rt canon]. cbn [wf_cty] in H. now rewrite (wf_name_not_reserved n "NoneType" H eq_refl).
  - cbn [wf_cty] in H. cbn [rt canon]. now rewrite IH.
  - cbn [wf_cty] in H. apply andb_true_iff in H as [Hne Hl]. rewrite forallb_forall in Hl. rewrite Forall_forall in IH.
    assert (Hm : map canon (map (rt sp) l) = l).
    { rewrite map_map. apply map_id_Forall. rewrite Forall_forall. intros x Hx. apply IH; auto. }
    cbn [rt]. rewrite canon_tuple; [now rewrite Hm|].
    intros x Hx. destruct l as [|a [|b r]]; try discriminate Hx. cbn [map nth_error] in Hx. injection Hx as <-.
    apply rt_not_dots. apply Hl. right. now left.
  - cbn [wf_cty] in H. cbn [rt canon]. now rewrite IH.
  - cbn [wf_cty] in H. apply andb_true_iff in H as [Hk Hv]. cbn [rt canon]. now rewrite IHk, IHv.
  - destruct (wf_union_parts l H) as [_ [_ [_ Hm]]]. rewrite forallb_forall in Hm. rewrite Forall_forall in IH.
    assert (E : map canon (map (fun c => none_to_cls (rt sp c)) l) = l).
    { rewrite map_map. apply map_id_Forall. rewrite Forall_forall. intros x Hx. specialize (Hm x Hx).
      unfold member_ok in Hm. apply orb_true_iff in Hm as [Hn|Hw].
      - destruct x; try discriminate. reflexivity.
      - apply andb_true_iff in Hw as [_ Hw]. rewrite rt_none_iff by exact Hw. now apply IH. }
    destruct sp; cbn [rt canon]; now rewrite E.
Qed.

Lemma canon_mrt sp c : member_ok c = true -> canon (mrt sp c) = c.
Proof.
  unfold member_ok, mrt. intros H. apply orb_true_iff in H as [H|H].
  - destruct c; try discriminate. reflexivity.
  - apply andb_true_iff in H as [_ H]. rewrite rt_none_iff by exact H. now apply canon_rt.
Qed.

Lemma mrt_not_union sp c : member_ok c = true ->
  union_members (mrt sp c) = [mrt sp c] /\ none_to_cls (mrt sp c) = mrt sp c.
Proof.
  unfold member_ok, mrt. intros H. apply orb_true_iff in H as [H|H].
  - destruct c; try discriminate. split; reflexivity.
  - apply andb_true_iff in H as [Hu Hw]. destruct c; try discriminate; split; try reflexivity; destruct sp; reflexivity.
Qed.

Lemma NoDup_mrt sp l : NoDup l -> forallb member_ok l = true -> NoDup (map (mrt sp) l).
Proof.
  intros Hnd Hm. rewrite forallb_forall in Hm. apply NoDup_map_inj_on; [|exact Hnd].
  intros x y Hx Hy E. rewrite <- (canon_mrt sp x (Hm x Hx)), <- (canon_mrt sp y (Hm y Hy)). now rewrite E.
Qed.

(* typing.Union of the members of a grammar union is the union itself: nothing to flatten, nothing repeated *)
Lemma mk_tunion_members sp l :
  2 <= List.length l -> NoDup l -> forallb member_ok l = true ->
  mk_tunion (map (mrt sp) l) = Ok (RTUnion (map (mrt sp) l)).
Proof.
  intros Hlen Hnd Hm. unfold mk_tunion.
  assert (E1 : map none_to_cls (map (mrt sp) l) = map (mrt sp) l).
  { rewrite map_map. apply map_ext_in. intros c Hc. rewrite forallb_forall in Hm.
    destruct (mrt_not_union sp c (Hm c Hc)) as [_ E]. exact E. }
  assert (E2 : flat_map union_members (map (mrt sp) l) = map (mrt sp) l).
  { clear E1 Hlen Hnd. induction l as [|c l IHl]; [reflexivity|]. simpl in Hm. apply andb_true_iff in Hm as [Hc Hl].
    cbn [map flat_map]. destruct (mrt_not_union sp c Hc) as [-> _]. now rewrite IHl. }
  rewrite E1, E2, rdedupe_nodup; [|now apply NoDup_mrt|intros x _ []].
  destruct l as [|a [|b l]]; cbn [List.length] in Hlen; try lia. reflexivity.
Qed.

(* ---------- (a) the normaliser, as instantiated from the source ---------- *)
Lemma seq_res_map {A B} (f : A -> res B) l : seq_res (map f l) = mapM f l.
Proof. induction l as [|x l IH]; [reflexivity|]. simpl. now rewrite IH. Qed.

Lemma norm_go_map l :
  (fix go (l : list rty) : list (res rty) := match l with [] => [] | x :: t => norm_gen x :: go t end) l = map norm_gen l.
Proof. induction l as [|x l IH]; [reflexivity|]. now rewrite IH. Qed.

Lemma norm_cls n :
  String.eqb n "list" = false -> String.eqb n "tuple" = false -> String.eqb n "dict" = false ->
  norm_gen (RCls n) = Ok (RCls n).
Proof.
  intros H1 H2 H3. unfold norm_gen. cbn [norm]. unfold NORM_TABLE_GEN, NORM_ELSE_GEN. cbn [pick ntest_holds].
  rewrite H1, H2, H3. destruct (str_in n BUILTIN_CLASS_NAMES); reflexivity.
Qed.

Lemma norm_list al a : norm_gen (RGen al OList [a]) = bind (norm_gen a) (fun a' => Ok (RGen false OList [a'])).
Proof. reflexivity. Qed.

Lemma norm_tuple al l :
  norm_gen (RGen al OTuple l) = bind (mapM norm_gen l) (fun l' => Ok (RGen false OTuple l')).
Proof.
  unfold norm_gen at 1. cbn [norm]. fold norm_gen. rewrite norm_go_map.
  unfold NORM_TABLE_GEN, NORM_ELSE_GEN. cbn [pick ntest_holds run_act]. now rewrite seq_res_map.
Qed.

Lemma norm_dict al k v :
  norm_gen (RGen al ODict [k; v]) =
  bind (norm_gen k) (fun k' => bind (norm_gen v) (fun v' => Ok (RGen false ODict [k'; v']))).
Proof. reflexivity. Qed.

Lemma norm_utype l : norm_gen (RUType l) = bind (mapM norm_gen l) mk_tunion.
Proof.
  unfold norm_gen at 1. cbn [norm]. fold norm_gen. rewrite norm_go_map.
  unfold NORM_TABLE_GEN, NORM_ELSE_GEN. cbn [pick ntest_holds run_act]. now rewrite seq_res_map.
Qed.

Lemma mapM_map_ok {A B C} (f : B -> res C) (g : A -> B) (h : A -> C) l :
  (forall x, In x l -> f (g x) = Ok (h x)) -> mapM f (map g l) = Ok (map h l).
Proof.
  induction l as [|x l IH]; intros H; [reflexivity|].
  cbn [map mapM]. rewrite (H x (or_introl eq_refl)). cbn [bind]. rewrite IH by (intros y Hy; apply H; now right).
  reflexivity.
Qed.

Lemma existsb_false_In {A} (p : A -> bool) l x : existsb p l = false -> In x l -> p x = false.
Proof.
  intros H Hin. destruct (p x) eqn:E; [|reflexivity].
  assert (existsb p l = true) by (apply existsb_exists; now exists x). congruence.
Qed.

(* normalising the PEP 604 / builtin-generic runtime form gives the typing.Union form, at every depth, as long as no
   Tuple[X, ...] occurs (the Ellipsis argument is refused) *)
Theorem norm_rt604 c :
  wf_cty c = true -> has_variadic c = false -> norm_gen (rt Sp604 c) = Ok (rt SpBuiltin c).
Proof.
  induction c as [n| | |a IH|l IH|a IH|k v IHk IHv|l IH|] using cty_ind2; intros Hw Hv; try discriminate.
  - cbn [rt]. cbn [wf_cty] in Hw.
    apply norm_cls; now apply (wf_name_not_reserved n).
  - cbn [wf_cty has_variadic] in *. cbn [rt]. rewrite norm_list, IH by assumption. reflexivity.
  - cbn [wf_cty has_variadic] in *. apply andb_true_iff in Hw as [_ Hw]. rewrite forallb_forall in Hw.
    rewrite Forall_forall in IH. cbn [rt]. rewrite norm_tuple.
    rewrite (mapM_map_ok norm_gen (rt Sp604) (rt SpBuiltin)); [reflexivity|].
    intros x Hx. apply IH; auto. now apply (existsb_false_In has_variadic l).
  - cbn [wf_cty has_variadic] in *. apply andb_true_iff in Hw as [Hk Hvv]. apply orb_false_iff in Hv as [Hv1 Hv2].
    cbn [rt]. rewrite norm_dict, IHk, IHv by assumption. reflexivity.
  - destruct (wf_union_parts l Hw) as [Hlen [_ [Hnd Hm]]]. cbn [has_variadic] in Hv.
    cbn [rt]. rewrite norm_utype. fold (mrt Sp604). fold (mrt SpBuiltin).
    rewrite (mapM_map_ok norm_gen (mrt Sp604) (mrt SpBuiltin)).
    + cbn [bind]. now apply mk_tunion_members.
    + intros x Hx. rewrite forallb_forall in Hm. specialize (Hm x Hx). unfold member_ok in Hm. unfold mrt.
      apply orb_true_iff in Hm as [Hn|Hx2].
      * destruct x; try discriminate. reflexivity.
      * apply andb_true_iff in Hx2 as [_ Hxw]. rewrite !rt_none_iff by exact Hxw.
        rewrite Forall_forall in IH. apply IH; auto. now apply (existsb_false_In has_variadic l).
Qed.

(* ---------- how a grammar union is written in the typing / builtin spellings ---------- *)
Lemma is_tnone_render sp c : member_ok c = true -> is_tnone (render sp c) = is_cnone c.
Proof.
  unfold member_ok. intros H. apply orb_true_iff in H as [H|H].
  - destruct c; try discriminate. reflexivity.
  - apply andb_true_iff in H as [_ Hw]. destruct c; try discriminate Hw; try reflexivity.
    + cbn [wf_cty] in Hw. cbn [render is_tnone is_cnone]. now apply (wf_name_not_reserved n "None").
    + destruct sp; cbn [render]; try reflexivity; destruct (existsb is_tnone _); try reflexivity;
        destruct (filter _ _) as [|? [|? ?]]; reflexivity.
Qed.

Lemma existsb_tnone_render sp l :
  forallb member_ok l = true -> existsb is_tnone (map (render sp) l) = existsb is_cnone l.
Proof.
  induction l as [|c l IH]; intros H; [reflexivity|]. simpl in H. apply andb_true_iff in H as [Hc Hl].
  cbn [map existsb]. now rewrite is_tnone_render, IH.
Qed.

Lemma filter_tnone_render sp l :
  forallb member_ok l = true ->
  filter (fun t => negb (is_tnone t)) (map (render sp) l) = map (render sp) (filter (fun c => negb (is_cnone c)) l).
Proof.
  induction l as [|c l IH]; intros H; [reflexivity|]. simpl in H. apply andb_true_iff in H as [Hc Hl].
  cbn [map filter]. rewrite is_tnone_render by exact Hc. destruct (is_cnone c); cbn [negb map]; now rewrite IH.
Qed.

Lemma none_last_split l :
  none_only_last l = true -> existsb is_cnone l = true ->
  exists l', l = l' ++ [CNone] /\ existsb is_cnone l' = false.
Proof.
  unfold none_only_last. intros H1 H2.
  assert (E : existsb is_cnone (rev l) = true).
  { apply existsb_exists in H2 as [x [Hx Hn]]. apply existsb_exists. exists x. split; [now apply in_rev in Hx|exact Hn]. }
  destruct (rev l) as [|x r] eqn:Er; [discriminate|].
  apply negb_true_iff in H1. cbn [existsb] in E. rewrite H1, orb_false_r in E.
  destruct x; try discriminate. exists (rev r). split.
  - rewrite <- (rev_involutive l), Er. reflexivity.
  - destruct (existsb is_cnone (rev r)) eqn:E2; [|reflexivity].
    apply existsb_exists in E2 as [y [Hy Hn]]. apply in_rev in Hy.
    assert (existsb is_cnone r = true) by (apply existsb_exists; now exists y). congruence.
Qed.

Lemma filter_nonnone_id l : existsb is_cnone l = false -> filter (fun c => negb (is_cnone c)) l = l.
Proof.
  induction l as [|c l IH]; intros H; [reflexivity|]. cbn [existsb] in H. apply orb_false_iff in H as [Hc Hl].
  cbn [filter]. rewrite Hc. cbn [negb]. now rewrite IH.
Qed.

Inductive union_written (sp : spelling) (l : list cty) : Prop :=
| UWbar : sp = Sp604 -> render sp (CUnion l) = TBar (map (render sp) l) -> union_written sp l
| UWunion : sp <> Sp604 -> existsb is_cnone l = false ->
            render sp (CUnion l) = TSub "Union" (map (render sp) l) -> union_written sp l
| UWopt1 a : sp <> Sp604 -> l = [a; CNone] -> is_cnone a = false ->
             render sp (CUnion l) = TSub "Optional" [render sp a] -> union_written sp l
| UWoptn l' : sp <> Sp604 -> l = l' ++ [CNone] -> 2 <= List.length l' -> existsb is_cnone l' = false ->
              render sp (CUnion l) = TSub "Optional" [TSub "Union" (map (render sp) l')] -> union_written sp l.

Lemma render_union_eq sp l :
  render sp (CUnion l) =
  match sp with
  | Sp604 => TBar (map (render sp) l)
  | _ => if existsb is_tnone (map (render sp) l) then
           match filter (fun t => negb (is_tnone t)) (map (render sp) l) with
           | [a] => TSub "Optional" [a]
           | non => TSub "Optional" [TSub "Union" non]
           end
         else TSub "Union" (map (render sp) l)
  end.
Proof. destruct sp; reflexivity. Qed.

Lemma render_union_nb sp l :
  sp <> Sp604 -> forallb member_ok l = true ->
  render sp (CUnion l) =
  if existsb is_cnone l then
    match map (render sp) (filter (fun c => negb (is_cnone c)) l) with
    | [a] => TSub "Optional" [a]
    | non => TSub "Optional" [TSub "Union" non]
    end
  else TSub "Union" (map (render sp) l).
Proof.
  intros Hsp Hm. rewrite render_union_eq.
  destruct sp; [| |congruence]; rewrite existsb_tnone_render, filter_tnone_render by exact Hm; reflexivity.
Qed.

Lemma render_union sp l : wf_cty (CUnion l) = true -> union_written sp l.
Proof.
  intros Hw. destruct (wf_union_parts l Hw) as [Hlen [Hlast [Hnd Hm]]].
  assert (Hsp : sp = Sp604 \/ sp <> Sp604) by (destruct sp; [right|right|left]; congruence).
  destruct Hsp as [->|Hsp]; [apply UWbar; reflexivity|].
  pose proof (render_union_nb sp l Hsp Hm) as E.
  destruct (existsb is_cnone l) eqn:En; [|now apply UWunion].
  destruct (none_last_split l Hlast En) as [l' [-> Hl']].
  rewrite filter_app, (filter_nonnone_id l' Hl') in E. cbn [filter is_cnone negb] in E. rewrite app_nil_r in E.
  destruct l' as [|a [|b l']].
  - cbn [List.length app] in Hlen. lia.
  - eapply UWopt1; [exact Hsp|reflexivity| |exact E].
    cbn [existsb] in Hl'. now apply orb_false_iff in Hl' as [Hl' _].
  - eapply UWoptn; [exact Hsp|reflexivity|cbn [List.length]; lia|exact Hl'|exact E].
Qed.

(* ---------- the meaning of a written annotation does not depend on the spelling ---------- *)
Lemma cty_eqb_eq a : forall b, cty_eqb a b = true -> a = b.
Proof.
  induction a as [n| | |a IH|l IH|a IH|k v IHk IHv|l IH|] using cty_ind2; intros b H; destruct b; try discriminate; simpl in H.
  - apply String.eqb_eq in H. now subst.
  - reflexivity.
  - reflexivity.
  - f_equal. now apply IH.
  - f_equal. now apply (list_go_eq cty_eqb).
  - f_equal. now apply IH.
  - apply andb_true_iff in H as [H1 H2]. f_equal; [now apply IHk|now apply IHv].
  - f_equal. now apply (list_go_eq cty_eqb).
  - reflexivity.
Qed.

Lemma cdedupe_nodup l : forall seen, NoDup l -> (forall x, In x l -> ~ In x seen) -> cdedupe l seen = l.
Proof.
  induction l as [|x l IH]; intros seen Hnd Hs; [reflexivity|].
  inversion Hnd; subst. simpl.
  destruct (cty_in x seen) eqn:E.
  - unfold cty_in in E. apply existsb_exists in E as [y [Hy He]]. apply cty_eqb_eq in He. subst.
    exfalso. apply (Hs y); [now left|exact Hy].
  - f_equal. apply IH; [assumption|]. intros y Hy Hin. apply in_app_or in Hin as [Hin|[->|[]]].
    + apply (Hs y); [now right|exact Hin].
    + contradiction.
Qed.

Lemma cunion_flat L M : flat_map cmembers L = M -> NoDup M -> 2 <= List.length M -> cunion L = CUnion M.
Proof.
  intros E Hnd Hlen. unfold cunion. rewrite E, cdedupe_nodup; [|exact Hnd|intros x _ []].
  destruct M as [|a [|b M]]; cbn [List.length] in Hlen; try lia. reflexivity.
Qed.

Lemma flat_cmembers_id l : (forall c, In c l -> is_cunion c = false) -> flat_map cmembers l = l.
Proof.
  induction l as [|c l IH]; intros H; [reflexivity|]. cbn [flat_map].
  rewrite IH by (intros x Hx; apply H; now right).
  specialize (H c (or_introl eq_refl)). destruct c; try discriminate; reflexivity.
Qed.

Lemma member_not_union c : member_ok c = true -> is_cunion c = false.
Proof.
  unfold member_ok. intros H. apply orb_true_iff in H as [H|H]; [destruct c; try discriminate; reflexivity|].
  apply andb_true_iff in H as [H _]. now apply negb_true_iff in H.
Qed.

Lemma denote_bar ts : denote (TBar ts) = cunion (map denote ts).
Proof. cbn [denote]. f_equal. induction ts as [|t ts IH]; [reflexivity|]. cbn [map]. now rewrite <- IH. Qed.

Lemma denote_union args : denote (TSub "Union" args) = cunion (map denote args).
Proof. cbn. f_equal. induction args as [|t ts IH]; [reflexivity|]. cbn [map]. now rewrite <- IH. Qed.

Lemma denote_optional a : denote (TSub "Optional" [a]) = cunion [denote a; CNone].
Proof. reflexivity. Qed.

Lemma denote_list sp a : denote (TSub (gen_name sp OList) [a]) = CList (denote a).
Proof. destruct sp; reflexivity. Qed.

Lemma denote_dict sp k v : denote (TSub (gen_name sp ODict) [k; v]) = CDict (denote k) (denote v).
Proof. destruct sp; reflexivity. Qed.

Lemma denote_tuplevar sp a : denote (TSub (gen_name sp OTuple) [a; TName "..."]) = CTupleVar (denote a).
Proof. destruct sp; reflexivity. Qed.

Lemma denote_tuple sp args :
  args <> [] -> (forall a d, args = [a; TName d] -> String.eqb d "..." = false) ->
  denote (TSub (gen_name sp OTuple) args) = CTuple (map denote args).
Proof.
  intros Hne Hd.
  assert (Hdens : forall l, (fix dens (l : list texp) : list cty :=
                               match l with [] => [] | x :: r => denote x :: dens r end) l = map denote l).
  { induction l as [|x l IH]; [reflexivity|]. cbn [map]. now rewrite <- IH. }
  destruct args as [|a [|b [|c r]]]; [congruence| | |].
  - destruct sp; reflexivity.
  - destruct b as [d| |].
    + specialize (Hd a d eq_refl). destruct sp; cbn; rewrite Hd; reflexivity.
    + destruct sp; cbn; now rewrite Hdens.
    + destruct sp; cbn; now rewrite Hdens.
  - destruct b; destruct sp; cbn; now rewrite Hdens.
Qed.

Lemma render_name_not_dots sp b d : wf_cty b = true -> render sp b = TName d -> String.eqb d "..." = false.
Proof.
  destruct b; try discriminate; intros Hw E.
  - cbn [render] in E. injection E as <-. cbn [wf_cty] in Hw. now apply (wf_name_not_reserved n "...").
  - destruct sp; discriminate.
  - destruct sp; discriminate.
  - destruct sp; discriminate.
  - destruct sp; discriminate.
  - rewrite render_union_eq in E. destruct sp; try discriminate; destruct (existsb is_tnone _); try discriminate;
      destruct (filter _ _) as [|? [|? ?]]; discriminate.
Qed.

Theorem denote_render sp c : wf_cty c = true -> denote (render sp c) = c.
Proof.
  induction c as [n| | |a IH|l IH|a IH|k v IHk IHv|l IH|] using cty_ind2; intros Hw; try discriminate.
  - cbn [wf_cty] in Hw. cbn [render denote].
    now rewrite (wf_name_not_reserved n "None" Hw eq_refl), (wf_name_not_reserved n "..." Hw eq_refl).
  - cbn [wf_cty] in Hw. cbn [render]. now rewrite denote_list, IH.
  - cbn [wf_cty] in Hw. apply andb_true_iff in Hw as [Hne Hl]. rewrite forallb_forall in Hl. rewrite Forall_forall in IH.
    cbn [render]. rewrite denote_tuple.
    + f_equal. rewrite map_map. apply map_id_Forall. rewrite Forall_forall. intros x Hx. apply IH; auto.
    + destruct l; [discriminate|discriminate].
    + intros a d E. destruct l as [|x [|y [|z r]]]; try discriminate. cbn [map] in E. injection E as _ E.
      apply (render_name_not_dots sp y d); [apply Hl; right; now left|exact E].
  - cbn [wf_cty] in Hw. cbn [render]. now rewrite denote_tuplevar, IH.
  - cbn [wf_cty] in Hw. apply andb_true_iff in Hw as [Hk Hv]. cbn [render]. now rewrite denote_dict, IHk, IHv.
  - destruct (wf_union_parts l Hw) as [Hlen [Hlast [Hnd Hm]]].
    assert (Hmem : forall l0, (forall x, In x l0 -> In x l) -> map denote (map (render sp) l0) = l0).
    { intros l0 Hsub. rewrite map_map. apply map_id_Forall. rewrite Forall_forall. intros x Hx0. pose proof (Hsub x Hx0) as Hx.
      rewrite forallb_forall in Hm. specialize (Hm x Hx). unfold member_ok in Hm. apply orb_true_iff in Hm as [Hn|Hx2].
      - destruct x; try discriminate. reflexivity.
      - apply andb_true_iff in Hx2 as [_ Hxw]. rewrite Forall_forall in IH. now apply IH. }
    assert (Hnu : forall c, In c l -> is_cunion c = false).
    { intros c Hc. rewrite forallb_forall in Hm. now apply member_not_union, Hm. }
    destruct (render_union sp l Hw) as [Hsp E|Hsp Hn E|a Hsp El Ha E|l' Hsp El Hl' Hn E]; rewrite E.
    + rewrite denote_bar, Hmem by auto. apply cunion_flat; [now apply flat_cmembers_id|exact Hnd|exact Hlen].
    + rewrite denote_union, Hmem by auto. apply cunion_flat; [now apply flat_cmembers_id|exact Hnd|exact Hlen].
    + subst l. rewrite denote_optional.
      assert (Ea : denote (render sp a) = a).
      { specialize (Hmem [a]). cbn [map] in Hmem. assert (H0 : [denote (render sp a)] = [a]).
        { apply Hmem. intros x [<-|[]]. now left. } now injection H0. }
      rewrite Ea. apply cunion_flat; [now apply flat_cmembers_id|exact Hnd|exact Hlen].
    + subst l. rewrite denote_optional, denote_union, Hmem by (intros x Hx; apply in_or_app; now left).
      assert (Hnd' : NoDup l') by (apply NoDup_app_remove_r in Hnd; exact Hnd).
      assert (Hnu' : forall c, In c l' -> is_cunion c = false) by (intros c Hc; apply Hnu; apply in_or_app; now left).
      rewrite (cunion_flat l' l' (flat_cmembers_id l' Hnu') Hnd' Hl').
      apply cunion_flat; [|exact Hnd|exact Hlen].
      cbn [flat_map cmembers]. now rewrite app_nil_r.
Qed.
