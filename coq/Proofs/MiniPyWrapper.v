(* Proofs/MiniPyWrapper.v — regenerated source (Gen/FactsWrapperSrc.v) of DataclassWrapper.defaults and of the per-field part of
   DataclassWrapper.__init__'s loop (which default is handed down; the four-way split into field wrappers and child wrappers),
   against functional readings, and those against Model/Defaults.v (child_defaults, child_default). *)
From SPV Require Import Base.Str Model.MiniPy Model.Pipeline Gen.FactsWrapperSrc Proofs.MiniPyLemmas.

Ltac ops := cbn [op_attr op_getattr op_hasattr op_vars op_getitem op_dictget op_copy op_keys op_values op_items op_zip op_splitdest
                   op_isconst bind2 st_unpack st_setpath st_popattr st_pop st_delattr].
Ltac hy := repeat match goal with H : lookup ?x ?r = Some _ |- context [lookup ?x ?r] => rewrite H end.
Ltac fin := repeat (progress (lk; hy; cbv beta iota; ops; cbv beta iota)).
Ltac nx :=
  rewrite exec_block_cons;
  first [rewrite exec_assign | rewrite exec_if | rewrite exec_return | rewrite exec_assert | rewrite exec_setpath | rewrite exec_raise
        | rewrite exec_append' | rewrite exec_unpack];
  cbn [eval]; lk.
Ltac go := nx; fin.

Definition MISSING : val := VC "dataclasses.MISSING".
Definition none_or_suppress (v : val) : bool := existsb (val_eqb v) [VNone; SUPPRESS].      (* v in (None, argparse.SUPPRESS) *)
Definition getattr_fn (v name : val) : res val := op_getattr (Ok v) (Ok name).
Definition tbl_call (t : list (val * val)) (a : val) : res val :=
  match dget a t with
  | Some (VT [VC "raise"; VS cls]) => Err (Raise cls)
  | Some w => Ok w
  | None => Err (Raise "MiniPyUnknownCall")
  end.
Lemma eval_calltable r t a :
  eval r (ECallTable t a) =
  match eval r t, eval r a with
  | Ok (VD l), Ok v => tbl_call l v
  | Ok _, Ok _ => rerr | Err z, _ => Err z | _, Err z => Err z end.
Proof.
  cbn [eval]. unfold op_calltable, bind2, tbl_call.
  destruct (eval r t) as [[]|]; destruct (eval r a) as [?|]; reflexivity.
Qed.

Definition is_none_v (v : val) : bool := match v with VNone => true | _ => false end.
Definition is_const_v (n : string) (v : val) : bool := match v with VC m => String.eqb m n | _ => false end.
Lemma eval_isnone r a : eval r (EIsNone a) = match eval r a with Ok v => Ok (VB (is_none_v v)) | Err z => Err z end.
Proof. cbn [eval]. destruct (eval r a) as [[]|]; reflexivity. Qed.
Lemma eval_isconst r a n : eval r (EIsConst a n) = match eval r a with Ok v => Ok (VB (is_const_v n v)) | Err z => Err z end.
Proof. cbn [eval]. unfold op_isconst. destruct (eval r a) as [[]|]; reflexivity. Qed.
Lemma eval_not r a : eval r (ENot a) = match eval r a with Ok v => Ok (VB (negb (truthy v))) | Err x => Err x end.
Proof. reflexivity. Qed.

(* ---------- DataclassWrapper.defaults ---------- *)
(* one default of the parent handed down: None / SUPPRESS stay, an instance gives its attribute *)
Definition hand_down (name d : val) : res val := if none_or_suppress d then Ok d else getattr_fn d name.
Fixpoint pull (name : val) (acc defs : list val) : res (list val) :=
  match defs with
  | [] => Ok acc
  | d :: t => match hand_down name d with Ok x => pull name (acc ++ [x]) t | Err z => Err z end
  end.
Definition defaults_fn (own : list val) (field parent : val) (pdefs : list val) (name : val) (dv : list (val * val)) : res val :=
  match own with
  | _ :: _ => Ok (VL own)                                     (* if self._defaults: return self._defaults *)
  | [] =>
      if is_none_v field then Ok (VL [])                      (* a top-level wrapper *)
      else if is_none_v parent then Err (Raise "AssertionError")
      else match pdefs with
           | _ :: _ => match pull name [] pdefs with Ok l => Ok (VL l) | Err z => Err z end
           | [] => match tbl_call dv field with
                   | Err z => Err z
                   | Ok v => if is_const_v "dataclasses.MISSING" v then Ok (VL []) else Ok (VL [v])
                   end
           end
  end.

Definition df_env (own : list val) (field parent : val) (pdefs : list val) (name : val) (dv : list (val * val)) : env :=
  [("self._defaults", VL own); ("self._field", field); ("self.parent", parent); ("self.parent.defaults", VL pdefs);
   ("self.name", name); ("utils", VR "module" [("default_value", VD dv)])].

Definition df_body : list stmt :=
  [SIf (ENot (EIn (EVar "default") (ETuple [ENone; (EConst "argparse.SUPPRESS")]))) [SAssign "default" (EGetAttr (EVar "default") (EVar "self.name"))] [];
   SAppend "self._defaults" (EVar "default")].

Lemma df_step name d acc r :
  lookup "self.name" r = Some name -> lookup "self._defaults" r = Some (VL acc) ->
  match hand_down name d with
  | Err z => exec_block (assign "default" d r) df_body = Err z
  | Ok x => exists r', exec_block (assign "default" d r) df_body = Ok (r', None)
                       /\ lookup "self.name" r' = Some name /\ lookup "self._defaults" r' = Some (VL (acc ++ [x])%list)
  end.
Proof.
  intros HN HD. unfold hand_down, df_body, getattr_fn.
  rewrite exec_block_cons, exec_if.
  assert (EC : eval (assign "default" d r) (ENot (EIn (EVar "default") (ETuple [ENone; EConst "argparse.SUPPRESS"]))) = Ok (VB (negb (none_or_suppress d)))).
  { cbn [eval]. lk. destruct d; reflexivity. }
  rewrite EC. cbn [truthy]. destruct (none_or_suppress d); cbn [negb].
  - rewrite exec_block_nil. go. rewrite exec_block_nil. eexists; split; [reflexivity|]. split; lk; [exact HN|reflexivity].
  - rewrite exec_block_cons, exec_assign. cbn [eval]. lk. hy.
    destruct (op_getattr (Ok d) (Ok name)) as [x|z]; [|reflexivity].
    rewrite exec_block_nil. go. rewrite exec_block_nil. eexists; split; [reflexivity|]. split; lk; [exact HN|reflexivity].
Qed.

Lemma df_loop name : forall defs acc r,
  lookup "self.name" r = Some name -> lookup "self._defaults" r = Some (VL acc) ->
  match pull name acc defs with
  | Err z => iter_list (fun v r => exec_block (assign "default" v r) df_body) defs r = Err z
  | Ok l => exists r', iter_list (fun v r => exec_block (assign "default" v r) df_body) defs r = Ok (r', None)
                       /\ lookup "self._defaults" r' = Some (VL l)
  end.
Proof.
  induction defs as [|d t IH]; intros acc r HN HD; cbn [pull iter_list].
  - exists r. auto.
  - pose proof (df_step name d acc r HN HD) as S. destruct (hand_down name d) as [x|z]; [|rewrite S; reflexivity].
    destruct S as [r' [E [N D]]]. rewrite E. exact (IH _ r' N D).
Qed.

Theorem defaults_is_model own field parent pdefs name dv :
  match defaults_fn own field parent pdefs name dv with
  | Err z => exec_block (df_env own field parent pdefs name dv) defaults_src = Err z
  | Ok v => exists r', exec_block (df_env own field parent pdefs name dv) defaults_src = Ok (r', Some v)
                       /\ lookup "self._defaults" r' = Some v                (* the value returned is the value cached *)
  end.
Proof.
  unfold defaults_fn, defaults_src.
  assert (H1 : lookup "self._defaults" (df_env own field parent pdefs name dv) = Some (VL own)) by reflexivity.
  assert (H2 : lookup "self._field" (df_env own field parent pdefs name dv) = Some field) by reflexivity.
  assert (H3 : lookup "self.parent" (df_env own field parent pdefs name dv) = Some parent) by reflexivity.
  assert (H4 : lookup "self.parent.defaults" (df_env own field parent pdefs name dv) = Some (VL pdefs)) by reflexivity.
  assert (H5 : lookup "self.name" (df_env own field parent pdefs name dv) = Some name) by reflexivity.
  assert (H6 : lookup "utils" (df_env own field parent pdefs name dv) = Some (VR "module" [("default_value", VD dv)])) by reflexivity.
  set (r0 := df_env _ _ _ _ _ _) in *. clearbody r0.
  go. destruct own as [|o ot]; cbn [truthy List.length Nat.eqb negb].
  2:{ go. eexists; split; [reflexivity|exact H1]. }
  rewrite exec_block_nil.
  rewrite exec_block_cons, exec_if, eval_isnone, eval_var, H2. cbn [truthy]. destruct (is_none_v field).
  { go. eexists; split; [reflexivity|exact H1]. }
  rewrite exec_block_nil.
  rewrite exec_block_cons, exec_assert, eval_not, eval_isnone, eval_var, H3. cbn [truthy]. destruct (is_none_v parent); [reflexivity|]. cbn [negb].
  go. destruct pdefs as [|p0 pt]; cbn [truthy List.length Nat.eqb negb].
  - rewrite exec_block_cons, exec_assign, eval_calltable. cbn [eval]. hy. ops. cbn [rget String.eqb Ascii.eqb Bool.eqb].
    destruct (tbl_call dv field) as [v|z]; [|reflexivity].
    rewrite exec_block_cons, exec_if, eval_isconst, eval_var. lk. cbn [truthy].
    destruct (is_const_v "dataclasses.MISSING" v).
    + go. rewrite exec_block_nil. rewrite exec_block_nil. go. eexists; split; [reflexivity|]. lk. reflexivity.
    + go. rewrite exec_block_nil. rewrite exec_block_nil. go. eexists; split; [reflexivity|]. lk. reflexivity.
  - go. rewrite exec_block_cons, exec_for, eval_var. lk. hy.
    match goal with |- context [iter_list ?f _ ?r1] => change f with (fun v r => exec_block (assign "default" v r) df_body);
      pose proof (df_loop name (p0 :: pt) [] r1) as L end.
    destruct (pull name [] (p0 :: pt)) as [l|z].
    + destruct L as [r' [E D]]; [lk; exact H5 | lk; reflexivity |]. rewrite E, exec_block_nil. go. eexists; split; [reflexivity|exact D].
    + rewrite L; [reflexivity | lk; exact H5 | lk; reflexivity].
Qed.

(* ---------- DataclassWrapper.__init__, field loop: the default handed down for one field ---------- *)
Definition partial_kw (dfn : val) : option val :=           (* dataclass_fn.keywords when dataclass_fn is a functools.partial *)
  match dfn with
  | VR c fs => if String.eqb c "functools.partial" then rget "keywords" fs else None
  | _ => None
  end.
Definition partial_ok (dfn : val) : bool :=                 (* a functools.partial has a `keywords` dict *)
  match dfn with
  | VR c fs => if String.eqb c "functools.partial" then match rget "keywords" fs with Some (VD _) => true | _ => false end else true
  | _ => true
  end.
Definition record_not_dict (v : val) : bool :=               (* no object of the encoding claims the class name "dict" *)
  match v with VR c _ => negb (String.eqb c "dict") | _ => true end.
Definition from_default (dflt n : val) : res val :=
  match dflt with
  | VD d => Ok (match dget n d with Some v => v | None => MISSING end)            (* a dict: its entry, if any *)
  | _ => if none_or_suppress dflt then Ok MISSING else getattr_fn dflt n             (* an instance: its attribute *)
  end.
Definition pick_fn (dfn dflt n : val) : res val :=
  match partial_kw dfn with
  | Some (VD kw) => match dget n kw with Some v => Ok v | None => from_default dflt n end   (* presence of the key, not its truth value *)
  | _ => from_default dflt n
  end.
Definition pk_env (dfn dflt : val) (fcls : string) (ffs : list (string * val)) : env :=
  [("dataclass_fn", dfn); ("default", dflt); ("field", VR fcls ffs)].

Lemma str_in_one s t : str_in s [t] = String.eqb s t.
Proof. unfold str_in. cbn [existsb]. apply Bool.orb_false_r. Qed.

Lemma from_default_step dflt n fcls ffs r :
  lookup "default" r = Some dflt -> lookup "field" r = Some (VR fcls ffs) -> rget "name" ffs = Some n ->
  lookup "field_default" r = Some MISSING -> record_not_dict dflt = true ->
  match from_default dflt n with
  | Err z => exec_block r [SIf (EIsInst (EVar "default") ["dict"]) [SIf (EIn (EAttr (EVar "field") "name") (EVar "default")) [SAssign "field_default" (EGetItem (EVar "default") (EAttr (EVar "field") "name"))] []] [SIf (ENot (EIn (EVar "default") (ETuple [ENone; (EConst "argparse.SUPPRESS")]))) [SAssign "field_default" (EGetAttr (EVar "default") (EAttr (EVar "field") "name"))] []]] = Err z
  | Ok v => exists r1, exec_block r [SIf (EIsInst (EVar "default") ["dict"]) [SIf (EIn (EAttr (EVar "field") "name") (EVar "default")) [SAssign "field_default" (EGetItem (EVar "default") (EAttr (EVar "field") "name"))] []] [SIf (ENot (EIn (EVar "default") (ETuple [ENone; (EConst "argparse.SUPPRESS")]))) [SAssign "field_default" (EGetAttr (EVar "default") (EAttr (EVar "field") "name"))] []]] = Ok (r1, None)
                       /\ lookup "field_default" r1 = Some v
  end.
Proof.
  intros HD HF HN HM ND. unfold from_default.
  assert (EC : eval r (ENot (EIn (EVar "default") (ETuple [ENone; EConst "argparse.SUPPRESS"]))) = Ok (VB (negb (none_or_suppress dflt)))).
  { cbn [eval]. rewrite HD. destruct dflt; reflexivity. }
  assert (EA : eval r (EAttr (EVar "field") "name") = Ok n).
  { cbn [eval]. rewrite HF. cbn [op_attr]. rewrite HN. reflexivity. }
  rewrite exec_block_cons, exec_if. cbn [eval]. rewrite HD.
  destruct dflt as [s|l|b|k| |l|d|c fs|c]; cbn [type_name str_in existsb String.eqb Ascii.eqb Bool.eqb orb truthy].
  7:{ (* dict *)
    rewrite exec_block_cons, exec_if.
    assert (EI : eval r (EIn (EAttr (EVar "field") "name") (EVar "default")) = Ok (VB (is_some (dget n d)))).
    { cbn [eval]. rewrite HF, HD. cbn [op_attr]. rewrite HN. destruct n; reflexivity. }
    rewrite EI. cbn [truthy]. destruct (dget n d) as [v|] eqn:Ed; cbn [is_some].
    - rewrite exec_block_cons, exec_assign. cbn [eval]. rewrite HF, HD. cbn [op_attr op_getitem bind2]. rewrite HN, Ed.
      rewrite !exec_block_nil. eexists; split; [reflexivity|]. lk. reflexivity.
    - rewrite !exec_block_nil. eexists; split; [reflexivity|exact HM]. }
  7: cbn [record_not_dict] in ND; destruct (String.eqb c "dict"); [discriminate|]; cbn [orb truthy].
  all: rewrite exec_block_cons, exec_if. all: rewrite EC; cbn [truthy];
    match goal with |- context [none_or_suppress ?x] => destruct (none_or_suppress x) end; cbn [negb];
    [ rewrite !exec_block_nil; eexists; split; [reflexivity|exact HM]
    | rewrite exec_block_cons, exec_assign; cbn [eval]; rewrite HF, HD; cbn [op_attr]; rewrite HN; unfold getattr_fn;
      match goal with |- context [op_getattr ?a ?b] => destruct (op_getattr a b) as [x|z] end;
      [ rewrite !exec_block_nil; eexists; split; [reflexivity|]; lk; reflexivity | reflexivity ] ].
Qed.

Theorem field_default_is_model dfn dflt fcls ffs n :
  rget "name" ffs = Some n -> partial_ok dfn = true -> record_not_dict dflt = true ->
  match pick_fn dfn dflt n with
  | Err z => exec_block (pk_env dfn dflt fcls ffs) field_default_src = Err z
  | Ok v => exists r1, exec_block (pk_env dfn dflt fcls ffs) field_default_src = Ok (r1, None) /\ lookup "field_default" r1 = Some v
  end.
Proof.
  intros HN PO ND. unfold pick_fn, field_default_src.
  assert (H1 : lookup "dataclass_fn" (pk_env dfn dflt fcls ffs) = Some dfn) by reflexivity.
  assert (H2 : lookup "default" (pk_env dfn dflt fcls ffs) = Some dflt) by reflexivity.
  assert (H3 : lookup "field" (pk_env dfn dflt fcls ffs) = Some (VR fcls ffs)) by reflexivity.
  set (r0 := pk_env _ _ _ _) in *. clearbody r0.
  rewrite exec_block_cons, exec_assign. cbn [eval].
  set (r1 := assign "field_default" (VC "dataclasses.MISSING") r0).
  assert (K1 : lookup "dataclass_fn" r1 = Some dfn) by (unfold r1; lk; exact H1).
  assert (K2 : lookup "default" r1 = Some dflt) by (unfold r1; lk; exact H2).
  assert (K3 : lookup "field" r1 = Some (VR fcls ffs)) by (unfold r1; lk; exact H3).
  assert (K4 : lookup "field_default" r1 = Some MISSING) by (unfold r1; lk; reflexivity).
  clearbody r1.
  pose proof (from_default_step dflt n fcls ffs r1 K2 K3 HN K4 ND) as FD.
  rewrite exec_block_cons, exec_if.
  assert (EC : eval r1 (EAnd (EIsInst (EVar "dataclass_fn") ["functools.partial"]) (EIn (EAttr (EVar "field") "name") (EAttr (EVar "dataclass_fn") "keywords")))
               = Ok (VB (match partial_kw dfn with Some (VD kw) => is_some (dget n kw) | _ => false end))).
  { cbn [eval]. rewrite K1, K3. rewrite str_in_one. cbn [op_attr]. rewrite HN.
    destruct dfn as [s|l|b|k| |l|d|c fs|c]; cbn [type_name String.eqb Ascii.eqb Bool.eqb truthy partial_kw]; try reflexivity.
    cbn [partial_ok] in PO. destruct (String.eqb c "functools.partial"); cbn [truthy]; [|reflexivity].
    destruct (rget "keywords" fs) as [[]|]; try discriminate. destruct n; reflexivity. }
  rewrite EC.
  assert (USE : match from_default dflt n with
                | Err z => match exec_block r1 [SIf (EIsInst (EVar "default") ["dict"]) [SIf (EIn (EAttr (EVar "field") "name") (EVar "default")) [SAssign "field_default" (EGetItem (EVar "default") (EAttr (EVar "field") "name"))] []] [SIf (ENot (EIn (EVar "default") (ETuple [ENone; (EConst "argparse.SUPPRESS")]))) [SAssign "field_default" (EGetAttr (EVar "default") (EAttr (EVar "field") "name"))] []]]
                           with Ok (r', Some v) => Ok (r', Some v) | Ok (r', None) => exec_block r' [] | Err z => Err z end = Err z
                | Ok v => exists r2, match exec_block r1 [SIf (EIsInst (EVar "default") ["dict"]) [SIf (EIn (EAttr (EVar "field") "name") (EVar "default")) [SAssign "field_default" (EGetItem (EVar "default") (EAttr (EVar "field") "name"))] []] [SIf (ENot (EIn (EVar "default") (ETuple [ENone; (EConst "argparse.SUPPRESS")]))) [SAssign "field_default" (EGetAttr (EVar "default") (EAttr (EVar "field") "name"))] []]]
                           with Ok (r', Some v) => Ok (r', Some v) | Ok (r', None) => exec_block r' [] | Err z => Err z end = Ok (r2, None)
                           /\ lookup "field_default" r2 = Some v
                end).
  { destruct (from_default dflt n) as [v|z]; [|rewrite FD; reflexivity].
    destruct FD as [r2 [E L]]. rewrite E, exec_block_nil. eexists; split; [reflexivity|exact L]. }
  destruct (partial_kw dfn) as [[s|l|b|k| |l|kw|c fs|c]|] eqn:PK; cbn [truthy]; try exact USE.
  destruct (dget n kw) as [v|] eqn:Ek; cbn [is_some]; [|exact USE].
  rewrite exec_block_cons, exec_assign. cbn [eval]. rewrite K1, K3.
  assert (KW : op_attr "keywords" (Ok dfn) = Ok (VD kw)).
  { destruct dfn as [s|l|b|k| |l|d|c fs|c]; try discriminate. cbn [partial_kw] in PK. destruct (String.eqb c "functools.partial"); [|discriminate]. cbn [op_attr]. rewrite PK. reflexivity. }
  rewrite KW. cbn [op_attr]. rewrite HN. cbn [op_getitem bind2]. rewrite Ek, !exec_block_nil. eexists; split; [reflexivity|]. lk. reflexivity.
Qed.

(* the partial's keyword wins by PRESENCE of the key, whatever its value (0, "", False, None included) *)
Corollary pick_partial_present dfn dflt n kw v :
  partial_kw dfn = Some (MiniPy.VD kw) -> dget n kw = Some v -> pick_fn dfn dflt n = Ok v.
Proof. intros P K. unfold pick_fn. rewrite P, K. reflexivity. Qed.

(* ---------- DataclassWrapper.__init__, field loop: the four-way split ---------- *)
Record sp_tables := mksp { s_cont : list (val * val); s_subp : list (val * val); s_choice : list (val * val); s_hasdc : list (val * val);
                           s_getdc : list (val * val); s_isdc : list (val * val); s_inst : list (val * val) }.
Definition field_w (field selfv prefix : val) : list (string * val) := [("field", field); ("parent", selfv); ("prefix", prefix)].
Definition child_w (dc name dflt selfv field : val) : list (string * val) :=
  [("dataclass", dc); ("name", name); ("default", dflt); ("parent", selfv); ("_field", field)].
Definition none_if_missing (fd : val) : val := if is_const_v "dataclasses.MISSING" fd then VNone else fd.
Definition set_default_if (b : bool) (fd : val) (fs : list (string * val)) : list (string * val) := if b then rset "_default" fd fs else fs.

(* what one field adds: (self.fields, self._children) afterwards *)
Definition split_fn (T : sp_tables) (ftype field n : val) (m : list (val * val)) (fdflt fd selfv prefix sprefix : val) (fields children : list val) : res (list val * list val) :=
  match tbl_call (s_cont T) ftype with Err z => Err z | Ok c =>
  if truthy c then Err (Raise "NotImplementedError") else
  match tbl_call (s_subp T) field with Err z => Err z | Ok a =>
  match (if truthy a then Ok a else tbl_call (s_choice T) field) with Err z => Err z | Ok c1 =>
  if truthy c1 then
    (* a subparser / choice field: a field wrapper; the default is set unless it is MISSING or (subgroup field and a dataclass instance) *)
    match (if is_const_v "dataclasses.MISSING" fd then Ok false
           else if is_some (dget (VS "subgroups") m)
                then match tbl_call (s_inst T) fd with Ok i => Ok (negb (truthy i)) | Err z => Err z end
                else Ok true) with
    | Err z => Err z
    | Ok b => Ok ((fields ++ [VR "FieldWrapper" (set_default_if b fd (field_w field selfv prefix))])%list, children)
    end
  else
    match tbl_call (s_isdc T) ftype with Err z => Err z | Ok d =>
    if truthy d && negb (is_none_v fdflt) then
      (* a dataclass member: a child wrapper with default = the value handed down, None when there is none *)
      Ok (fields, (children ++ [VR "DataclassWrapper" (child_w ftype n (none_if_missing fd) selfv field)])%list)
    else
      match tbl_call (s_hasdc T) ftype with Err z => Err z | Ok h =>
      if truthy h then
        (* Optional[...] / Union[...] of a dataclass: an optional, not required child wrapper *)
        match tbl_call (s_getdc T) ftype with Err z => Err z | Ok dc =>
        Ok (fields, (children ++ [VR "DataclassWrapper" (rset "optional" (VB true) (rset "required" (VB false)
                                      (child_w dc n (none_if_missing fd) selfv field)))])%list)
        end
      else
        (* a plain field: a field wrapper; the default is set unless it is MISSING *)
        Ok ((fields ++ [VR "FieldWrapper" (set_default_if (negb (is_const_v "dataclasses.MISSING" fd)) fd (field_w field selfv sprefix))])%list, children)
      end
    end
  end end end.

Definition sp_env (T : sp_tables) (ftype field fd selfv prefix sprefix : val) (fields children : list val) : env :=
  [("field_type", ftype); ("field", field); ("field_default", fd); ("self", selfv); ("prefix", prefix); ("self.prefix", sprefix);
   ("self.fields", VL fields); ("self._children", VL children);
   ("utils", VR "module" [("is_tuple_or_list_of_dataclasses", VD (s_cont T)); ("is_subparser_field", VD (s_subp T)); ("is_choice", VD (s_choice T));
                          ("contains_dataclass_type_arg", VD (s_hasdc T)); ("get_dataclass_type_arg", VD (s_getdc T))]);
   ("dataclasses", VR "module" [("is_dataclass", VD (s_isdc T))]); ("is_dataclass_instance", VD (s_inst T))].

Lemma ev_mod r m mc fs name t a av :
  lookup m r = Some (VR mc fs) -> rget name fs = Some (VD t) -> eval r a = Ok av ->
  eval r (ECallTable (EAttr (EVar m) name) a) = tbl_call t av.
Proof. intros L R A. rewrite eval_calltable. cbn [eval]. rewrite L. cbn [op_attr]. rewrite R. change (eval r a) with (eval r a). rewrite A. reflexivity. Qed.

Lemma eval_and r a b : eval r (EAnd a b) = match eval r a with Ok v => if truthy v then eval r b else Ok v | Err z => Err z end.
Proof. reflexivity. Qed.
Ltac tb := erewrite ev_mod; [ | lk; hy; reflexivity | reflexivity | cbn [eval]; lk; hy; reflexivity ].
Ltac done2 := rewrite ?exec_block_nil; eexists; split; [reflexivity|]; split; lk; hy; reflexivity.

Theorem split_is_model T ftype fcls ffs n m fdflt fd selfv prefix sprefix fields children :
  rget "name" ffs = Some n -> rget "metadata" ffs = Some (VD m) -> rget "default" ffs = Some fdflt ->
  match split_fn T ftype (VR fcls ffs) n m fdflt fd selfv prefix sprefix fields children with
  | Err z => exec_block (sp_env T ftype (VR fcls ffs) fd selfv prefix sprefix fields children) split_src = Err z
  | Ok (fl, ch) => exists r1, exec_block (sp_env T ftype (VR fcls ffs) fd selfv prefix sprefix fields children) split_src = Ok (r1, None)
                              /\ lookup "self.fields" r1 = Some (VL fl) /\ lookup "self._children" r1 = Some (VL ch)
  end.
Proof.
  intros HN HM HDf. unfold split_fn, split_src.
  set (field := VR fcls ffs).
  assert (H1 : lookup "field_type" (sp_env T ftype field fd selfv prefix sprefix fields children) = Some ftype) by reflexivity.
  assert (H2 : lookup "field" (sp_env T ftype field fd selfv prefix sprefix fields children) = Some field) by reflexivity.
  assert (H3 : lookup "field_default" (sp_env T ftype field fd selfv prefix sprefix fields children) = Some fd) by reflexivity.
  assert (H4 : lookup "self" (sp_env T ftype field fd selfv prefix sprefix fields children) = Some selfv) by reflexivity.
  assert (H5 : lookup "prefix" (sp_env T ftype field fd selfv prefix sprefix fields children) = Some prefix) by reflexivity.
  assert (H6 : lookup "self.prefix" (sp_env T ftype field fd selfv prefix sprefix fields children) = Some sprefix) by reflexivity.
  assert (H7 : lookup "self.fields" (sp_env T ftype field fd selfv prefix sprefix fields children) = Some (VL fields)) by reflexivity.
  assert (H8 : lookup "self._children" (sp_env T ftype field fd selfv prefix sprefix fields children) = Some (VL children)) by reflexivity.
  assert (H9 : lookup "utils" (sp_env T ftype field fd selfv prefix sprefix fields children) = Some (VR "module" [("is_tuple_or_list_of_dataclasses", VD (s_cont T)); ("is_subparser_field", VD (s_subp T)); ("is_choice", VD (s_choice T));
                          ("contains_dataclass_type_arg", VD (s_hasdc T)); ("get_dataclass_type_arg", VD (s_getdc T))])) by reflexivity.
  assert (H10 : lookup "dataclasses" (sp_env T ftype field fd selfv prefix sprefix fields children) = Some (VR "module" [("is_dataclass", VD (s_isdc T))])) by reflexivity.
  assert (H11 : lookup "is_dataclass_instance" (sp_env T ftype field fd selfv prefix sprefix fields children) = Some (VD (s_inst T))) by reflexivity.
  set (r0 := sp_env _ _ _ _ _ _ _ _ _) in *. clearbody r0.
  rewrite exec_block_cons, exec_if. tb.
  destruct (tbl_call (s_cont T) ftype) as [c|z]; [|reflexivity].
  destruct (truthy c); [reflexivity|]. rewrite exec_block_nil.
  rewrite exec_block_cons, exec_if.
  assert (EO : eval r0 (EOr (ECallTable (EAttr (EVar "utils") "is_subparser_field") (EVar "field")) (ECallTable (EAttr (EVar "utils") "is_choice") (EVar "field")))
               = match tbl_call (s_subp T) field with Err z => Err z | Ok a => if truthy a then Ok a else tbl_call (s_choice T) field end).
  { change (eval r0 (EOr ?a ?b)) with (match eval r0 a with Ok v => if truthy v then Ok v else eval r0 b | Err z => Err z end).
    tb. tb. reflexivity. }
  rewrite EO. clear EO.
  destruct (tbl_call (s_subp T) field) as [a|z]; [|reflexivity].
  destruct (if truthy a then Ok a else tbl_call (s_choice T) field) as [c1|z]; [|reflexivity].
  destruct (truthy c1).
  - (* subparser / choice *)
    go.
    match goal with |- context [exec_block ?r _] => set (r1 := r) end.
    assert (K2 : lookup "field" r1 = Some field) by (unfold r1; lk; exact H2).
    assert (K3 : lookup "field_default" r1 = Some fd) by (unfold r1; lk; exact H3).
    assert (K7 : lookup "self.fields" r1 = Some (VL fields)) by (unfold r1; lk; exact H7).
    assert (K8 : lookup "self._children" r1 = Some (VL children)) by (unfold r1; lk; exact H8).
    assert (K11 : lookup "is_dataclass_instance" r1 = Some (VD (s_inst T))) by (unfold r1; lk; exact H11).
    assert (KW : lookup "field_wrapper" r1 = Some (VR "FieldWrapper" (field_w field selfv prefix))) by (unfold r1; lk; reflexivity).
    clearbody r1.
    rewrite exec_block_cons, exec_if.
    assert (EC : eval r1 (EAnd (ENot (EIsConst (EVar "field_default") "dataclasses.MISSING")) (ENot (EAnd (EIn (EStr "subgroups") (EAttr (EVar "field") "metadata")) (ECallTable (EVar "is_dataclass_instance") (EVar "field_default")))))
                 = match (if is_const_v "dataclasses.MISSING" fd then Ok false
                          else if is_some (dget (VS "subgroups") m)
                               then match tbl_call (s_inst T) fd with Ok i => Ok (negb (truthy i)) | Err z => Err z end
                               else Ok true) with Ok b => Ok (VB b) | Err z => Err z end).
    { rewrite eval_and, eval_not, eval_isconst, eval_var, K3. cbn [truthy].
      destruct (is_const_v "dataclasses.MISSING" fd); cbn [negb]; [reflexivity|].
      rewrite eval_not, eval_and.
      assert (EI : eval r1 (EIn (EStr "subgroups") (EAttr (EVar "field") "metadata")) = Ok (VB (is_some (dget (VS "subgroups") m)))).
      { cbn [eval]. rewrite K2. unfold field. cbn [op_attr]. rewrite HM. reflexivity. }
      rewrite EI. cbn [truthy]. destruct (is_some (dget (VS "subgroups") m)); [|reflexivity].
      rewrite eval_calltable, !eval_var, K11, K3. destruct (tbl_call (s_inst T) fd); reflexivity. }
    rewrite EC. clear EC.
    destruct (if is_const_v "dataclasses.MISSING" fd then Ok false else _) as [b|z]; [|reflexivity].
    cbn [truthy]. destruct b; cbn [set_default_if].
    + go. cbn [eval_path eval]. fin. cbn [upd_path]. rewrite exec_block_nil. go. done2.
    + rewrite exec_block_nil. go. done2.
  - rewrite exec_block_cons, exec_if.
    assert (EC : eval r0 (EAnd (ECallTable (EAttr (EVar "dataclasses") "is_dataclass") (EVar "field_type")) (ENot (EIsNone (EAttr (EVar "field") "default"))))
                 = match tbl_call (s_isdc T) ftype with Err z => Err z | Ok d => if truthy d then Ok (VB (negb (is_none_v fdflt))) else Ok d end).
    { rewrite eval_and. tb. destruct (tbl_call (s_isdc T) ftype) as [d|z]; [|reflexivity]. destruct (truthy d); [|reflexivity].
      rewrite eval_not, eval_isnone. cbn [eval]. rewrite H2. unfold field. cbn [op_attr]. rewrite HDf. reflexivity. }
    rewrite EC. clear EC.
    destruct (tbl_call (s_isdc T) ftype) as [d|z]; [|reflexivity].
    assert (EN : eval r0 (EAttr (EVar "field") "name") = Ok n) by (cbn [eval]; rewrite H2; unfold field; cbn [op_attr]; rewrite HN; reflexivity).
    assert (SPLIT : (truthy d && negb (is_none_v fdflt) = true /\ truthy (if truthy d then VB (negb (is_none_v fdflt)) else d) = true)
                    \/ (truthy d && negb (is_none_v fdflt) = false /\ truthy (if truthy d then VB (negb (is_none_v fdflt)) else d) = false)).
    { destruct (truthy d) eqn:Td; cbn [andb]; [destruct (negb (is_none_v fdflt)); cbn [truthy]; auto | right; split; [reflexivity|exact Td]]. }
    assert (EQ : (if truthy d then Ok (VB (negb (is_none_v fdflt))) else Ok d : res val) = Ok (if truthy d then VB (negb (is_none_v fdflt)) else d)) by (destruct (truthy d); reflexivity).
    rewrite EQ. clear EQ. destruct SPLIT as [[S1 S2] | [S1 S2]]; rewrite S1, S2; clear S1 S2.
    + (* dataclass member *)
      rewrite exec_block_cons, exec_unpack. cbn [eval]. rewrite H1, H2. unfold field at 1. cbn [op_attr]. rewrite HN. cbn [st_unpack].
      cbn [seq_items List.length Nat.eqb combine fold_left fst snd].
      rewrite exec_block_cons, exec_if, eval_isconst, eval_var. lk. hy. cbn [truthy]. unfold none_if_missing, child_w.
      destruct (is_const_v "dataclasses.MISSING" fd).
      * go. rewrite exec_block_nil. go. go. done2.
      * rewrite exec_block_nil. go. go. done2.
    + rewrite exec_block_cons, exec_if. tb.
      destruct (tbl_call (s_hasdc T) ftype) as [h|z]; [|reflexivity].
      destruct (truthy h).
      * rewrite exec_block_cons, exec_assign. tb.
        destruct (tbl_call (s_getdc T) ftype) as [dc|z]; [|reflexivity].
        rewrite exec_block_cons, exec_if, eval_isconst, eval_var. lk. hy. cbn [truthy]. unfold none_if_missing, child_w.
        destruct (is_const_v "dataclasses.MISSING" fd).
        -- go. rewrite exec_block_nil. go. unfold field. cbn [rget String.eqb Ascii.eqb Bool.eqb]. rewrite HN.
           go. cbn [eval_path eval]. fin. cbn [upd_path]. go. cbn [eval_path eval]. fin. cbn [upd_path]. go. done2.
        -- rewrite exec_block_nil. go. unfold field. cbn [rget String.eqb Ascii.eqb Bool.eqb]. rewrite HN.
           go. cbn [eval_path eval]. fin. cbn [upd_path]. go. cbn [eval_path eval]. fin. cbn [upd_path]. go. done2.
      * go. rewrite exec_block_cons, exec_if, eval_not, eval_isconst, eval_var. lk. hy. cbn [truthy].
        destruct (is_const_v "dataclasses.MISSING" fd); cbn [negb set_default_if].
        -- rewrite exec_block_nil. go. done2.
        -- go. cbn [eval_path eval]. fin. cbn [upd_path]. rewrite exec_block_nil. go. done2.
Qed.

(* ---------- in the vocabulary of Model/Defaults.v ---------- *)
From SPV Require Import Model.Leaf Model.OptStr Model.Defaults Proofs.DefaultsPipeline.

Lemma enc_value_none v : enc_value v = MiniPy.VNone -> v = Leaf.VNone.
Proof. destruct v; cbn [enc_value]; intros H; try discriminate; reflexivity. Qed.
Lemma nos_enc D : none_or_suppress (enc_vt D) = is_vnone D.
Proof.
  destruct D as [v|cn fs]; [|reflexivity]. cbn [enc_vt is_vnone]. destruct v; try reflexivity.
Qed.
Lemma enc_not_missing D : is_const_v "dataclasses.MISSING" (enc_vt D) = false.
Proof. destruct D as [v|cn fs]; [destruct v|]; reflexivity. Qed.
Lemma rget_enc n : forall fs, rget n (map (fun p : string * vt => (fst p, enc_vt (snd p))) fs)
                              = option_map (fun p => enc_vt (snd p)) (find (fun p => String.eqb (fst p) n) fs).
Proof. induction fs as [|[k v] t IH]; [reflexivity|]. cbn [map rget find fst snd]. destruct (String.eqb k n); [reflexivity|exact IH]. Qed.

(* a default instance the member `n` can be read off: None, or an instance that has the attribute *)
Definition attr_ok (n : string) (D : vt) : Prop :=
  is_vnone D = true \/ exists cn fs p, D = Defaults.VD cn fs /\ find (fun p => String.eqb (fst p) n) fs = Some p.

Lemma hand_down_enc n D : attr_ok n D -> hand_down (VS n) (enc_vt D) = Ok (enc_vt (if is_vnone D then vnone else attr D n)).
Proof.
  intros [N | [cn [fs [p [-> F]]]]]; unfold hand_down; rewrite nos_enc.
  - rewrite N. destruct D as [[]|]; try discriminate. reflexivity.
  - cbn [is_vnone enc_vt]. unfold getattr_fn. cbn [op_getattr bind2]. rewrite rget_enc, F. cbn [option_map attr]. rewrite F. reflexivity.
Qed.
Lemma pull_enc n : forall defs acc, Forall (attr_ok n) defs ->
  pull (VS n) acc (map enc_vt defs) = Ok (acc ++ map enc_vt (map (fun D => if is_vnone D then vnone else attr D n) defs))%list.
Proof.
  induction defs as [|D t IH]; intros acc F; cbn [map pull]; [rewrite app_nil_r; reflexivity|].
  inversion F as [|? ? A Ft]; subst. rewrite (hand_down_enc n D A), IH by exact Ft. rewrite <- app_assoc. reflexivity.
Qed.

Definition enc_own (cd : option vt) : list MiniPy.val := match cd with Some c => [enc_vt c] | None => [] end.
Definition enc_dvalue (o : option vt) : MiniPy.val := match o with Some v => enc_vt v | None => MISSING end.

(* DataclassWrapper.defaults of a child wrapper = Defaults.child_defaults *)
Theorem defaults_is_child_defaults srcs cd defs n cn cfs nd field parent dv :
  is_none_v field = false -> is_none_v parent = false ->
  tbl_call dv field = Ok (enc_dvalue (dvalue srcs cn cfs nd)) ->          (* utils.default_value(self._field) *)
  Forall (attr_ok n) defs ->
  defaults_fn (enc_own cd) field parent (map enc_vt defs) (VS n) dv = Ok (MiniPy.VL (map enc_vt (child_defaults srcs cd defs n cn cfs nd))).
Proof.
  intros NF NP TB AO. unfold defaults_fn, child_defaults.
  destruct cd as [c|]; [reflexivity|]. cbn [enc_own]. rewrite NF, NP.
  destruct defs as [|D t].
  - cbn [map]. rewrite TB. unfold dvalues. destruct (dvalue srcs cn cfs nd) as [v|]; cbn [enc_dvalue]; [rewrite enc_not_missing|]; reflexivity.
  - change (map enc_vt (D :: t)) with (enc_vt D :: map enc_vt t) at 1. cbv iota.
    change (enc_vt D :: map enc_vt t) with (map enc_vt (D :: t)). rewrite (pull_enc n (D :: t) [] AO). reflexivity.
Qed.
(* ... and of a top-level wrapper = Defaults.root_defaults *)
Theorem defaults_is_root_defaults i parent pdefs name dv :
  defaults_fn (enc_own i) MiniPy.VNone parent pdefs name dv = Ok (MiniPy.VL (map enc_vt (root_defaults i))).
Proof. destruct i; reflexivity. Qed.

(* the default handed to a child wrapper by __init__ (no partial): Defaults.child_default, once `MISSING -> None` and the
   truthiness test `[default] if default else []` are applied *)
Theorem field_default_is_child_default wd n :
  match wd with Some D => attr_ok n D /\ is_vnone D = false | None => True end ->
  exists v, pick_fn MiniPy.VNone (match wd with Some D => enc_vt D | None => MiniPy.VNone end) (VS n) = Ok v
            /\ option_map enc_vt (child_default wd n) = (if is_const_v "dataclasses.MISSING" v || is_none_v v then None else Some v).
Proof.
  destruct wd as [D|]; [|intros _; eexists; split; reflexivity].
  intros [[N | [cn [fs [p [-> F]]]]] NN]; [congruence|].
  eexists. split.
  - unfold pick_fn. cbn [partial_kw from_default enc_vt none_or_suppress existsb val_eqb orb]. unfold getattr_fn. cbn [op_getattr bind2].
    rewrite rget_enc, F. reflexivity.
  - cbn [option_map child_default attr]. rewrite F. unfold some_inst. rewrite enc_not_missing. cbn [orb].
    destruct (snd p) as [v|c2 f2]; [|reflexivity]. destruct v; try reflexivity.
Qed.
