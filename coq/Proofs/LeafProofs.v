(* Proofs/LeafProofs.v — one command-line field (C02, C04): soundness, rejection, round trip.
   All statements are about the model instantiated with the regenerated facts (str2bool_gen, enum_miss_cls_gen). *)
From Coq Require Import DecimalString DecimalZ DecimalPos DecimalN DecimalNat DecimalFacts.
From SPV Require Import Base.Str Model.BoolFlag Model.Leaf Model.LeafSpec Gen.FactsBool Gen.FactsLeaf.

Notation cv := (convert str2bool_gen enum_miss_cls_gen).
Notation cva := (convert_all str2bool_gen enum_miss_cls_gen).
Notation tkv := (take_values str2bool_gen enum_miss_cls_gen).

(* ---------- bridge facts ---------- *)
Lemma enum_miss_is_caught : conv_err enum_miss_cls_gen = Exit 2.
Proof. reflexivity. Qed.
Lemma typeerror_is_caught : conv_err "TypeError" = Exit 2.
Proof. reflexivity. Qed.

(* the decision chains the model follows are the ones in the source, in the same order *)
Lemma arg_options_chain_is_modelled :
  arg_options_chain_gen = ["self.is_choice"; "utils.is_optional(self.type) or self.field.default is None"; "self.is_union";
                           "self.is_enum"; "self.is_list"; "utils.is_tuple(self.type)"; "utils.is_bool(self.type)"].
Proof. reflexivity. Qed.
Lemma postprocess_chain_is_modelled :
  postprocess_chain_gen = ["self.is_enum"; "self.is_choice"; "self.is_tuple"; "self.is_bool"; "self.is_list";
                           "self.is_subparser"; "utils.is_optional(self.type)"; "self.type not in utils.builtin_types"].
Proof. reflexivity. Qed.
Lemma parsing_fn_chain_is_modelled :
  parsing_fn_chain_gen = ["t in _parsing_fns"; "t is Any"; "is_tuple(t)"; "is_list(t)"; "is_union(t)"; "is_enum(t)"].
Proof. reflexivity. Qed.

(* ---------- KSeq unfolds to nth_error ---------- *)
Lemma convert_seq ks : forall i s,
  cv (KSeq ks) i s = match nth_error ks i with Some k' => cv k' 0 s | None => Err (Raise "IndexError") end.
Proof.
  induction ks as [|k r IH]; intros i s; destruct i; try reflexivity.
  simpl nth_error. rewrite <- IH. reflexivity.
Qed.

(* ---------- item converters ---------- *)
Definition flat (k : conv) : bool :=
  match k with KInt | KFloat | KStr | KBool | KPath | KEnum _ | KFail _ => true | _ => false end.

Lemma item_conv_flat u : is_item u = true -> flat (parsing_fn u) = true /\ container_conv u = parsing_fn u.
Proof. destruct u; simpl; intros H; try discriminate; auto. Qed.

Lemma flat_index k i j s : flat k = true -> cv k i s = cv k j s.
Proof. destruct k; simpl; intros H; try discriminate; reflexivity. Qed.

Lemma py_float_is_float s v : py_float s = Some v -> exists n i f, v = VFlt n i f.
Proof.
  unfold py_float.
  destruct (lower (strip s)) as [|a r]; simpl;
  repeat match goal with
         | |- context [match ?x with _ => _ end] => destruct x eqn:?; simpl
         | |- context [if ?x then _ else _] => destruct x eqn:?; simpl
         end; intros H; try discriminate; injection H as <-; eauto.
Qed.

Lemma item_convert_sound u i s v :
  is_item u = true -> cv (parsing_fn u) i s = Ok v -> has_type v u = true.
Proof.
  destruct u; simpl; intros Hi H; try discriminate.
  - destruct (py_int s); [injection H as <-; reflexivity | discriminate].
  - destruct (py_float s) as [w|] eqn:E; [|discriminate]. injection H as <-.
    destruct (py_float_is_float _ _ E) as [n [ip [f ->]]]. reflexivity.
  - injection H as <-. reflexivity.
  - destruct (str2bool_gen s); [injection H as <-; reflexivity | discriminate].
  - injection H as <-. reflexivity.
  - destruct (str_in s members) eqn:E; [injection H as <-; exact E | discriminate].
Qed.

Lemma item_convert_err u i s e :
  is_item u = true -> cv (parsing_fn u) i s = Err e -> e = Exit 2.
Proof.
  destruct u; simpl; intros Hi H; try discriminate.
  - destruct (py_int s); [discriminate | now injection H as <-].
  - destruct (py_float s); [discriminate | now injection H as <-].
  - destruct (str2bool_gen s); [discriminate | now injection H as <-].
  - destruct (str_in s members); [discriminate | now injection H as <-].
Qed.

(* ---------- convert_all ---------- *)
Lemma cva_length k : forall toks i vs, cva k i toks = Ok vs -> List.length vs = List.length toks.
Proof.
  induction toks as [|s r IH]; intros i vs H; simpl in H.
  - now injection H as <-.
  - destruct (cv k i s); [|discriminate]. destruct (cva k (S i) r) eqn:E; [|discriminate].
    injection H as <-. simpl. f_equal. exact (IH _ _ E).
Qed.

Lemma cva_item_sound u toks : forall i vs,
  is_item u = true -> cva (parsing_fn u) i toks = Ok vs -> forallb (fun x => has_type x u) vs = true.
Proof.
  induction toks as [|s r IH]; intros i vs Hi H; simpl in H.
  - now injection H as <-.
  - destruct (cv (parsing_fn u) i s) as [a|] eqn:E; [|discriminate].
    destruct (cva (parsing_fn u) (S i) r) as [l|] eqn:E2; [|discriminate]. injection H as <-. simpl.
    rewrite (item_convert_sound u i s a Hi E). exact (IH _ _ Hi E2).
Qed.

Lemma cva_item_err u toks : forall i e,
  is_item u = true -> cva (parsing_fn u) i toks = Err e -> e = Exit 2.
Proof.
  induction toks as [|s r IH]; intros i e Hi H; simpl in H; [discriminate|].
  destruct (cv (parsing_fn u) i s) as [a|e1] eqn:E.
  - destruct (cva (parsing_fn u) (S i) r) as [l|e2] eqn:E2; [discriminate|]. injection H as <-. exact (IH _ _ Hi E2).
  - injection H as <-. exact (item_convert_err u i s _ Hi E).
Qed.

(* heterogeneous fixed tuples: the i-th token goes through the i-th item converter *)
Fixpoint zip_typed (vs : list value) (ts : list ty) : bool :=
  match ts, vs with
  | [], [] => true
  | u :: r2, x :: r1 => has_type x u && zip_typed r1 r2
  | _, _ => false
  end.

Lemma has_type_tupfix vs ts : has_type (VTup vs) (TTupFix ts) = zip_typed vs ts.
Proof.
  simpl. revert vs. induction ts as [|u r IH]; intros vs; destruct vs; try reflexivity.
  simpl. rewrite IH. reflexivity.
Qed.

Lemma cva_seq_sound pre ts toks : forall vs,
  forallb is_item (pre ++ ts) = true ->
  List.length toks = List.length ts ->
  cva (KSeq (map parsing_fn (pre ++ ts))) (List.length pre) toks = Ok vs -> zip_typed vs ts = true.
Proof.
  revert pre toks. induction ts as [|u r IH]; intros pre toks vs Hall Hlen H.
  - destruct toks; [|discriminate]. simpl in H. now injection H as <-.
  - destruct toks as [|s rs]; [discriminate|]. cbn [convert_all] in H.
    rewrite convert_seq in H. rewrite nth_error_map, nth_error_app2, Nat.sub_diag in H by lia. simpl in H.
    destruct (cv (parsing_fn u) 0 s) as [a|] eqn:E; [|discriminate].
    destruct (cva _ (S (List.length pre)) rs) as [l|] eqn:E2; [|discriminate]. injection H as <-. simpl.
    assert (Hu : is_item u = true).
    { rewrite forallb_app in Hall. apply andb_true_iff in Hall as [_ Hall]. simpl in Hall. now apply andb_true_iff in Hall as [Hu _]. }
    rewrite (item_convert_sound u 0 s a Hu E). simpl.
    apply (IH (pre ++ [u])%list rs l).
    + now rewrite <- app_assoc.
    + simpl in Hlen. lia.
    + rewrite <- app_assoc, app_length. simpl. rewrite Nat.add_1_r. exact E2.
Qed.

Lemma cva_seq_err pre ts toks : forall e,
  forallb is_item (pre ++ ts) = true ->
  List.length toks = List.length ts ->
  cva (KSeq (map parsing_fn (pre ++ ts))) (List.length pre) toks = Err e -> e = Exit 2.
Proof.
  revert pre toks. induction ts as [|u r IH]; intros pre toks e Hall Hlen H.
  - destruct toks; [|discriminate]. simpl in H. discriminate.
  - destruct toks as [|s rs]; [discriminate|]. cbn [convert_all] in H.
    rewrite convert_seq in H. rewrite nth_error_map, nth_error_app2, Nat.sub_diag in H by lia. simpl in H.
    assert (Hu : is_item u = true).
    { rewrite forallb_app in Hall. apply andb_true_iff in Hall as [_ Hall]. simpl in Hall. now apply andb_true_iff in Hall as [Hu _]. }
    destruct (cv (parsing_fn u) 0 s) as [a|e1] eqn:E.
    + destruct (cva _ (S (List.length pre)) rs) as [l|e0] eqn:E2; [discriminate|]. injection H as <-.
      apply (IH (pre ++ [u])%list rs e0).
      * now rewrite <- app_assoc.
      * simpl in Hlen. lia.
      * rewrite <- app_assoc, app_length. simpl. rewrite Nat.add_1_r. exact E2.
    + injection H as <-. exact (item_convert_err u 0 s _ Hu E).
Qed.

(* ty_eqb is sound on item types *)
Lemma ty_eqb_item a b : is_item a = true -> ty_eqb a b = true -> a = b.
Proof.
  destruct a, b; simpl; intros Hi H; try discriminate; try reflexivity.
  f_equal. revert members0 H. induction members as [|x r IH]; intros [|y r2] H; try discriminate; [reflexivity|].
  apply andb_true_iff in H as [H1 H2]. apply String.eqb_eq in H1. subst. f_equal. now apply IH.
Qed.

Lemma homog_all_eq t0 r : is_item t0 = true -> forallb (ty_eqb t0) r = true -> forall u, In u r -> u = t0.
Proof.
  intros Hi H u Hu. rewrite forallb_forall in H. symmetry. apply ty_eqb_item; auto.
Qed.

Lemma zip_typed_homog t0 r vs :
  (forall u, In u r -> u = t0) -> List.length vs = List.length r ->
  forallb (fun x => has_type x t0) vs = true -> zip_typed vs r = true.
Proof.
  revert vs. induction r as [|u r IH]; intros vs Hall Hlen H; destruct vs as [|x vs]; try discriminate; [reflexivity|].
  simpl in *. apply andb_true_iff in H as [H1 H2]. rewrite (Hall u (or_introl eq_refl)), H1. simpl.
  apply IH; auto.
Qed.

(* ---------- take_values ---------- *)
Lemma tkv_ok n k ch toks r :
  tkv n k ch toks = Ok r ->
  exists vs, cva k 0 toks = Ok vs /\ forallb (check_choice ch) vs = true /\
    match n with
    | NOne => List.length toks = 1 /\ exists v, vs = [v] /\ r = ROne v
    | NOpt => (vs = [] /\ r = RNone) \/ (exists v, vs = [v] /\ r = ROne v)
    | NStar => r = RMany vs
    | NNum m => List.length toks = m /\ r = RMany vs
    end.
Proof.
  unfold take_values. intros H.
  destruct (negb _) eqn:A; [discriminate|]. apply negb_false_iff in A.
  destruct (cva k 0 toks) as [vs|] eqn:C; [|discriminate].
  destruct (negb (forallb _ vs)) eqn:Ch; [discriminate|]. apply negb_false_iff in Ch.
  exists vs. split; [reflexivity|]. split; [exact Ch|].
  assert (L := cva_length _ _ _ _ C).
  destruct n.
  - apply Nat.eqb_eq in A. split; [exact A|]. destruct vs as [|v [|w r']]; simpl in L; try lia.
    exists v. split; [reflexivity|]. now injection H as <-.
  - apply Nat.leb_le in A. destruct vs as [|v [|w r']]; simpl in L; try lia.
    + left. split; [reflexivity|]. now injection H as <-.
    + right. exists v. split; [reflexivity|]. now injection H as <-.
  - now injection H as <-.
  - apply Nat.eqb_eq in A. split; [exact A|]. now injection H as <-.
Qed.

Lemma tkv_err n k ch toks e :
  tkv n k ch toks = Err e -> e = Exit 2 \/ cva k 0 toks = Err e.
Proof.
  unfold take_values. intros H.
  destruct (negb _); [left; now injection H as <-|].
  destruct (cva k 0 toks) as [vs|e1] eqn:C; [|right; now injection H as <-].
  destruct (negb (forallb _ vs)); [left; now injection H as <-|].
  destruct n, vs as [|v [|w r']]; try discriminate; left; now injection H as <-.
Qed.

(* ---------- C04: whatever is accepted conforms to the annotation ---------- *)
Definition lp := leaf_parse str2bool_gen enum_miss_cls_gen.

Lemma value_eqb_refl_lit l : value_eqb (lit_value l) (lit_value l) = true.
Proof. destruct l; simpl; [apply String.eqb_refl | apply Z.eqb_refl]. Qed.

Lemma lookup_lit_typed cs s v : lookup_lit cs s = Some v -> has_type v (TLit cs) = true.
Proof.
  unfold lookup_lit. destruct (find _ (rev cs)) as [l|] eqn:F; [|discriminate]. intros H. injection H as <-.
  apply find_some in F as [Hin _]. apply in_rev in Hin.
  destruct l as [s0|z]; simpl; apply existsb_exists.
  - exists (LStr s0). split; [exact Hin | simpl; apply String.eqb_refl].
  - exists (LInt z). split; [exact Hin | simpl; apply Z.eqb_refl].
Qed.

Lemma lookup_lit_some cs s : str_in s (map lit_name cs) = true -> exists v, lookup_lit cs s = Some v.
Proof.
  intros H. apply str_in_In, in_map_iff in H as [l [<- Hl]]. unfold lookup_lit.
  destruct (find (fun l0 => String.eqb (lit_name l0) (lit_name l)) (rev cs)) eqn:F; [eexists; reflexivity|].
  exfalso. assert (X := find_none _ _ F l). rewrite <- in_rev in X. specialize (X Hl).
  rewrite String.eqb_refl in X. discriminate.
Qed.

Lemma container_sound (t : ty) toks vs :
  is_container t = true ->
  cva (match t with TList u => container_conv u | _ => parsing_fn t end) 0 toks = Ok vs ->
  match container_nargs t with NNum m => List.length toks = m | _ => True end ->
  has_type (match t with TList _ => VList vs | _ => VTup vs end) t = true.
Proof.
  destruct t as [| | | | | | |u|ts|u|]; simpl; intros Hc H Ha; try discriminate.
  - destruct (item_conv_flat u Hc) as [_ E]. rewrite E in H. exact (cva_item_sound u toks 0 vs Hc H).
  - apply andb_true_iff in Hc as [Hne Hall].
    replace (existsb _ ts) with false in Ha.
    2:{ symmetry. apply not_true_is_false. intros X. apply existsb_exists in X as [x [Hx Hx2]].
        rewrite forallb_forall in Hall. specialize (Hall x Hx). destruct x; discriminate. }
    change ((fix zip (l2 : list ty) (l1 : list value) {struct l2} : bool :=
              match l2, l1 with [], [] => true | u :: r2, x :: r1 => has_type x u && zip r2 r1 | _, _ => false end) ts vs)
      with (has_type (VTup vs) (TTupFix ts)).
    rewrite has_type_tupfix.
    destruct ts as [|t0 r]; [discriminate|].
    assert (Ht0 : is_item t0 = true) by (simpl in Hall; now apply andb_true_iff in Hall as [X _]).
    destruct (forallb (ty_eqb t0) r) eqn:Hom.
    + apply (zip_typed_homog t0 (t0 :: r)).
      * intros u [<-|Hu]; [reflexivity|]. exact (homog_all_eq t0 r Ht0 Hom u Hu).
      * rewrite (cva_length _ _ _ _ H). exact Ha.
      * exact (cva_item_sound t0 toks 0 vs Ht0 H).
    + apply (cva_seq_sound [] (t0 :: r) toks vs); [exact Hall | exact Ha | exact H].
  - exact (cva_item_sound u toks 0 vs Hc H).
Qed.

Theorem leaf_sound t toks v : cli_type t = true -> lp t toks = Ok v -> has_type v t = true.
Proof.
  unfold lp, leaf_parse. intros Hc H.
  destruct t as [| | | | |ms|cs|u|ts|u|u].
  - (* int *) simpl in H. destruct (tkv NOne KInt None toks) as [r|] eqn:T; [|discriminate]. injection H as <-.
    destruct (tkv_ok _ _ _ _ _ T) as [vs [C [_ [_ [x [-> ->]]]]]]. simpl.
    destruct toks as [|s [|]]; simpl in C; try discriminate.
    destruct (py_int s); [|discriminate]. simpl in C. now injection C as <-.
  - (* float *) simpl in H. destruct (tkv NOne KFloat None toks) as [r|] eqn:T; [|discriminate]. injection H as <-.
    destruct (tkv_ok _ _ _ _ _ T) as [vs [C [_ [_ [x [-> ->]]]]]]. simpl.
    destruct toks as [|s [|]]; simpl in C; try discriminate.
    destruct (py_float s) as [w|] eqn:E; [|discriminate]. simpl in C. injection C as <-.
    destruct (py_float_is_float _ _ E) as [n [ip [f ->]]]. reflexivity.
  - (* str *) simpl in H. destruct (tkv NOne KStr None toks) as [r|] eqn:T; [|discriminate]. injection H as <-.
    destruct (tkv_ok _ _ _ _ _ T) as [vs [C [_ [_ [x [-> ->]]]]]]. simpl.
    destruct toks as [|s [|]]; simpl in C; try discriminate. now injection C as <-.
  - (* bool flag *) simpl in H. destruct toks as [|s [|]]; try discriminate; [now injection H as <-|].
    destruct (str2bool_gen s); [now injection H as <-|discriminate].
  - (* path *) simpl in H. destruct (tkv NOne KPath None toks) as [r|] eqn:T; [|discriminate]. injection H as <-.
    destruct (tkv_ok _ _ _ _ _ T) as [vs [C [_ [_ [x [-> ->]]]]]]. simpl.
    destruct toks as [|s [|]]; simpl in C; try discriminate. now injection C as <-.
  - (* enum *) simpl in H. destruct (tkv NOne KStr (Some ms) toks) as [r|] eqn:T; [|discriminate]. injection H as <-.
    destruct (tkv_ok _ _ _ _ _ T) as [vs [C [Ch [_ [x [-> ->]]]]]].
    destruct toks as [|s [|]]; simpl in C; try discriminate. injection C as <-. simpl in Ch |- *.
    now rewrite andb_true_r in Ch.
  - (* literal *) simpl in H. destruct (tkv NOne KStr (Some (map lit_name cs)) toks) as [r|] eqn:T; [|discriminate]. injection H as <-.
    destruct (tkv_ok _ _ _ _ _ T) as [vs [C [Ch [_ [x [-> ->]]]]]].
    destruct toks as [|s [|]]; simpl in C; try discriminate. injection C as <-. simpl in Ch. rewrite andb_true_r in Ch.
    destruct (lookup_lit_some cs s Ch) as [w E]. cbn [postprocess]. rewrite E. exact (lookup_lit_typed cs s w E).
  - (* list *) simpl in Hc. cbn [arg_options] in H.
    destruct (tkv NStar (container_conv u) None toks) as [r|] eqn:T; [|discriminate]. injection H as <-.
    destruct (tkv_ok _ _ _ _ _ T) as [vs [C [_ ->]]]. cbn [postprocess].
    exact (container_sound (TList u) toks vs Hc C I).
  - (* fixed tuple *) simpl in Hc. cbn [arg_options] in H.
    destruct (tkv (container_nargs (TTupFix ts)) (parsing_fn (TTupFix ts)) None toks) as [r|] eqn:T; [|discriminate]. injection H as <-.
    destruct (tkv_ok _ _ _ _ _ T) as [vs [C [_ R]]].
    assert (Hn : container_nargs (TTupFix ts) = NNum (List.length ts)).
    { simpl. replace (existsb _ ts) with false; [reflexivity|]. symmetry. apply not_true_is_false. intros X.
      apply existsb_exists in X as [x [Hx Hx2]]. apply andb_true_iff in Hc as [_ Hall].
      rewrite forallb_forall in Hall. specialize (Hall x Hx). destruct x; discriminate. }
    rewrite Hn in R. destruct R as [L ->]. cbn [postprocess].
    apply (container_sound (TTupFix ts) toks vs Hc C). rewrite Hn. exact L.
  - (* variadic tuple *) simpl in Hc. cbn [arg_options] in H. simpl container_nargs in H.
    destruct (tkv NStar (parsing_fn (TTupVar u)) None toks) as [r|] eqn:T; [|discriminate]. injection H as <-.
    destruct (tkv_ok _ _ _ _ _ T) as [vs [C [_ ->]]]. cbn [postprocess].
    exact (container_sound (TTupVar u) toks vs Hc C I).
  - (* Optional *) simpl in Hc. apply orb_true_iff in Hc as [Hi|Hco].
    + assert (A : arg_options (TOpt u) = AStore NOpt (parsing_fn u) None) by (destruct u; try discriminate; reflexivity).
      rewrite A in H. destruct (tkv NOpt (parsing_fn u) None toks) as [r|] eqn:T; [|discriminate]. injection H as <-.
      destruct (tkv_ok _ _ _ _ _ T) as [vs [C [_ [[-> ->]|[x [-> ->]]]]]].
      * destruct u; reflexivity.
      * destruct toks as [|s [|]]; simpl in C; try discriminate.
        destruct (cv (parsing_fn u) 0 s) as [w|] eqn:E; [|discriminate]. injection C as <-.
        assert (Hw := item_convert_sound u 0 s w Hi E).
        destruct u; try discriminate; destruct w; try discriminate; exact Hw.
    + destruct u as [| | | | | | |u'|ts|u'|]; try discriminate.
      * cbn [arg_options] in H. destruct (tkv NStar (container_conv u') None toks) as [r|] eqn:T; [|discriminate]. injection H as <-.
        destruct (tkv_ok _ _ _ _ _ T) as [vs [C [_ ->]]]. cbn [postprocess].
        exact (container_sound (TList u') toks vs Hco C I).
      * cbn [arg_options] in H.
        destruct (tkv (container_nargs (TTupFix ts)) (parsing_fn (TTupFix ts)) None toks) as [r|] eqn:T; [|discriminate]. injection H as <-.
        destruct (tkv_ok _ _ _ _ _ T) as [vs [C [_ R]]].
        assert (Hn : container_nargs (TTupFix ts) = NNum (List.length ts)).
        { simpl. replace (existsb _ ts) with false; [reflexivity|]. symmetry. apply not_true_is_false. intros X.
          apply existsb_exists in X as [x [Hx Hx2]]. simpl in Hco. apply andb_true_iff in Hco as [_ Hall].
          rewrite forallb_forall in Hall. specialize (Hall x Hx). destruct x; discriminate. }
        rewrite Hn in R. destruct R as [L ->]. cbn [postprocess].
        apply (container_sound (TTupFix ts) toks vs Hco C). rewrite Hn. exact L.
      * cbn [arg_options] in H. simpl container_nargs in H.
        destruct (tkv NStar (parsing_fn (TTupVar u')) None toks) as [r|] eqn:T; [|discriminate]. injection H as <-.
        destruct (tkv_ok _ _ _ _ _ T) as [vs [C [_ ->]]]. cbn [postprocess].
        exact (container_sound (TTupVar u') toks vs Hco C I).
Qed.

(* ---------- C04: the only way a field's tokens are refused is argparse's error path ---------- *)
Lemma tkv_err_arity n k ch toks e :
  tkv n k ch toks = Err e ->
  e = Exit 2 \/ (cva k 0 toks = Err e /\ match n with NNum m => List.length toks = m | _ => True end).
Proof.
  unfold take_values. intros H.
  destruct (negb _) eqn:A; [left; now injection H as <-|]. apply negb_false_iff in A.
  destruct (cva k 0 toks) as [vs|e1] eqn:C.
  - destruct (negb (forallb _ vs)); [left; now injection H as <-|].
    destruct n, vs as [|v [|w r']]; try discriminate; left; now injection H as <-.
  - right. injection H as <-. split; [reflexivity|]. destruct n; auto. now apply Nat.eqb_eq in A.
Qed.

Lemma cva_str_ok toks : forall i, exists vs, cva KStr i toks = Ok vs.
Proof.
  induction toks as [|s r IH]; intros i; simpl; [eauto|]. destruct (IH (S i)) as [vs ->]. eauto.
Qed.

Lemma container_err (t : ty) toks e :
  is_container t = true ->
  cva (match t with TList u => container_conv u | _ => parsing_fn t end) 0 toks = Err e ->
  match container_nargs t with NNum m => List.length toks = m | _ => True end ->
  e = Exit 2.
Proof.
  destruct t as [| | | | | | |u|ts|u|]; simpl; intros Hc H Ha; try discriminate.
  - destruct (item_conv_flat u Hc) as [_ E]. rewrite E in H. exact (cva_item_err u toks 0 e Hc H).
  - apply andb_true_iff in Hc as [Hne Hall].
    replace (existsb _ ts) with false in Ha.
    2:{ symmetry. apply not_true_is_false. intros X. apply existsb_exists in X as [x [Hx Hx2]].
        rewrite forallb_forall in Hall. specialize (Hall x Hx). destruct x; discriminate. }
    destruct ts as [|t0 r]; [discriminate|].
    assert (Ht0 : is_item t0 = true) by (simpl in Hall; now apply andb_true_iff in Hall as [X _]).
    destruct (forallb (ty_eqb t0) r) eqn:Hom.
    + exact (cva_item_err t0 toks 0 e Ht0 H).
    + exact (cva_seq_err [] (t0 :: r) toks e Hall Ha H).
  - exact (cva_item_err u toks 0 e Hc H).
Qed.

Theorem leaf_errors_exit2 t toks e : cli_type t = true -> lp t toks = Err e -> e = Exit 2.
Proof.
  unfold lp, leaf_parse. intros Hc H.
  assert (Hstr : forall n ch, tkv n KStr ch toks = Err e -> e = Exit 2).
  { intros n ch T. destruct (tkv_err_arity _ _ _ _ _ T) as [->|[C _]]; [reflexivity|].
    destruct (cva_str_ok toks 0) as [vs E]. rewrite E in C. discriminate. }
  assert (Hitem : forall n u, is_item u = true -> tkv n (parsing_fn u) None toks = Err e -> e = Exit 2).
  { intros n u Hu T. destruct (tkv_err_arity _ _ _ _ _ T) as [->|[C _]]; [reflexivity|]. exact (cva_item_err u toks 0 e Hu C). }
  assert (Hcont : forall u, is_container u = true ->
            tkv (container_nargs u) (match u with TList i => container_conv i | _ => parsing_fn u end) None toks = Err e -> e = Exit 2).
  { intros u Hu T. destruct (tkv_err_arity _ _ _ _ _ T) as [->|[C A]]; [reflexivity|]. exact (container_err u toks e Hu C A). }
  destruct t as [| | | | |ms|cs|u|ts|u|u].
  - simpl in H. destruct (tkv NOne KInt None toks) eqn:T; [discriminate|]. injection H as <-. exact (Hitem NOne TInt eq_refl T).
  - simpl in H. destruct (tkv NOne KFloat None toks) eqn:T; [discriminate|]. injection H as <-. exact (Hitem NOne TFloat eq_refl T).
  - simpl in H. destruct (tkv NOne KStr None toks) eqn:T; [discriminate|]. injection H as <-. exact (Hstr _ _ T).
  - simpl in H. destruct toks as [|s [|]]; try discriminate; try (now injection H as <-).
    destruct (str2bool_gen s); [discriminate | now injection H as <-].
  - simpl in H. destruct (tkv NOne KPath None toks) eqn:T; [discriminate|]. injection H as <-. exact (Hitem NOne TPath eq_refl T).
  - simpl in H. destruct (tkv NOne KStr (Some ms) toks) eqn:T; [discriminate|]. injection H as <-. exact (Hstr _ _ T).
  - simpl in H. destruct (tkv NOne KStr (Some (map lit_name cs)) toks) eqn:T; [discriminate|]. injection H as <-. exact (Hstr _ _ T).
  - simpl in Hc. cbn [arg_options] in H. destruct (tkv NStar (container_conv u) None toks) eqn:T; [discriminate|]. injection H as <-.
    exact (Hcont (TList u) Hc T).
  - simpl in Hc. cbn [arg_options] in H.
    destruct (tkv (container_nargs (TTupFix ts)) (parsing_fn (TTupFix ts)) None toks) eqn:T; [discriminate|]. injection H as <-.
    exact (Hcont (TTupFix ts) Hc T).
  - simpl in Hc. cbn [arg_options] in H.
    destruct (tkv (container_nargs (TTupVar u)) (parsing_fn (TTupVar u)) None toks) eqn:T; [discriminate|]. injection H as <-.
    exact (Hcont (TTupVar u) Hc T).
  - simpl in Hc. apply orb_true_iff in Hc as [Hi|Hco].
    + assert (A : arg_options (TOpt u) = AStore NOpt (parsing_fn u) None) by (destruct u; try discriminate; reflexivity).
      rewrite A in H. destruct (tkv NOpt (parsing_fn u) None toks) eqn:T; [discriminate|]. injection H as <-. exact (Hitem NOpt u Hi T).
    + destruct u as [| | | | | | |u'|ts|u'|]; try discriminate; cbn [arg_options] in H.
      * destruct (tkv NStar (container_conv u') None toks) eqn:T; [discriminate|]. injection H as <-. exact (Hcont (TList u') Hco T).
      * destruct (tkv (container_nargs (TTupFix ts)) (parsing_fn (TTupFix ts)) None toks) eqn:T; [discriminate|]. injection H as <-.
        exact (Hcont (TTupFix ts) Hco T).
      * destruct (tkv (container_nargs (TTupVar u')) (parsing_fn (TTupVar u')) None toks) eqn:T; [discriminate|]. injection H as <-.
        exact (Hcont (TTupVar u') Hco T).
Qed.

(* ---------- C04: the mutation classes are refused ---------- *)
Theorem reject_wrong_arity_fixed ts toks :
  is_container (TTupFix ts) = true -> List.length toks <> List.length ts -> lp (TTupFix ts) toks = Err (Exit 2).
Proof.
  intros Hc Hl. unfold lp, leaf_parse. cbn [arg_options].
  assert (Hn : container_nargs (TTupFix ts) = NNum (List.length ts)).
  { simpl. replace (existsb _ ts) with false; [reflexivity|]. symmetry. apply not_true_is_false. intros X.
    apply existsb_exists in X as [x [Hx Hx2]]. simpl in Hc. apply andb_true_iff in Hc as [_ Hall].
    rewrite forallb_forall in Hall. specialize (Hall x Hx). destruct x; discriminate. }
  rewrite Hn. unfold take_values. apply Nat.eqb_neq in Hl. rewrite Hl. reflexivity.
Qed.

Theorem reject_surplus_scalar t toks :
  is_item t = true -> t <> TBool -> 1 < List.length toks -> lp t toks = Err (Exit 2).
Proof.
  intros Hi Hb Hl. unfold lp, leaf_parse.
  assert (A : exists k ch, arg_options t = AStore NOne k ch) by (destruct t; try discriminate; try congruence; do 2 eexists; reflexivity).
  destruct A as [k [ch ->]]. unfold take_values.
  destruct (Nat.eqb (List.length toks) 1) eqn:E; [apply Nat.eqb_eq in E; lia | reflexivity].
Qed.

Theorem reject_unknown_enum_member ms s : str_in s ms = false -> lp (TEnum ms) [s] = Err (Exit 2).
Proof. intros H. unfold lp, leaf_parse, take_values. simpl. rewrite H. reflexivity. Qed.

Theorem reject_unknown_literal cs s : str_in s (map lit_name cs) = false -> lp (TLit cs) [s] = Err (Exit 2).
Proof. intros H. unfold lp, leaf_parse, take_values. simpl. rewrite H. reflexivity. Qed.

Theorem reject_ill_typed_item u s pre post :
  is_item u = true -> cv (parsing_fn u) 0 s <> Ok (match cv (parsing_fn u) 0 s with Ok v => v | Err _ => VNone end) ->
  lp (TList u) (pre ++ s :: post) = Err (Exit 2) \/ exists e, cva (container_conv u) 0 pre = Err e.
Proof.
  intros Hi Hbad. destruct (cv (parsing_fn u) 0 s) as [v|e] eqn:E; [congruence|].
  destruct (item_conv_flat u Hi) as [Hf Hcc].
  destruct (cva (container_conv u) 0 pre) as [vs|e0] eqn:P; [left | right; eauto].
  unfold lp, leaf_parse. cbn [arg_options]. unfold take_values. simpl negb. cbn [andb].
  assert (X : forall i, cva (container_conv u) i (pre ++ s :: post) = Err e \/ exists e', cva (container_conv u) i pre = Err e').
  { clear P vs. induction pre as [|p r IH]; intros i; simpl.
    - left. rewrite Hcc, (flat_index _ i 0 s Hf), E. reflexivity.
    - destruct (cv (container_conv u) i p); [|right; eauto].
      destruct (IH (S i)) as [->|[e' ->]]; [left; reflexivity | right; eauto]. }
  destruct (X 0) as [->|[e' Q]]; [|rewrite P in Q; discriminate].
  rewrite (item_convert_err u 0 s e Hi E). reflexivity.
Qed.

(* a value written after a negative boolean flag is refused through the error path, whatever the value *)
Theorem reject_value_on_negative_flag negs o v :
  str_in o negs = true -> eval_occ_gen negs (Valued o v) = Err (Exit 2).
Proof.
  intros H. unfold eval_occ_gen, eval_occ. destruct (str2bool_gen v); [|reflexivity].
  unfold action_call, call_table_gen. simpl. rewrite H. reflexivity.
Qed.

(* ====================================================================== *)
(* C02: canonical tokens parse back to the value                           *)
(* ====================================================================== *)
Fixpoint allc (p : ascii -> bool) (s : string) : bool :=
  match s with EmptyString => true | String a r => p a && allc p r end.

Lemma srev_acc_app s : forall acc, srev_acc s acc = srev_acc s "" ++ acc.
Proof.
  induction s as [|a r IH]; intros acc; simpl; [reflexivity|].
  rewrite IH, (IH (String a "")), append_assoc. reflexivity.
Qed.

Lemma srev_app a b : srev (a ++ b) = srev b ++ srev a.
Proof.
  unfold srev. induction a as [|x r IH]; simpl; [now rewrite append_nil_r|].
  rewrite srev_acc_app, IH, (srev_acc_app r (String x "")), append_assoc. reflexivity.
Qed.

Lemma srev_involutive s : srev (srev s) = s.
Proof.
  induction s as [|a r IH]; [reflexivity|].
  change (String a r) with (String a "" ++ r). rewrite srev_app, srev_app, IH. reflexivity.
Qed.

Lemma allc_app p a b : allc p (a ++ b) = allc p a && allc p b.
Proof. induction a as [|x r IH]; simpl; [reflexivity | now rewrite IH, andb_assoc]. Qed.

Lemma allc_srev p s : allc p (srev s) = allc p s.
Proof.
  induction s as [|a r IH]; [reflexivity|].
  change (String a r) with (String a "" ++ r). rewrite srev_app, !allc_app, IH. simpl. now rewrite andb_comm.
Qed.

Lemma lstrip_noop s : allc (fun a => negb (is_space a)) s = true -> lstrip_by is_space s = s.
Proof. destruct s as [|a r]; simpl; [reflexivity|]. intros H. apply andb_true_iff in H as [H _]. apply negb_true_iff in H. now rewrite H. Qed.

Lemma strip_noop s : allc (fun a => negb (is_space a)) s = true -> strip s = s.
Proof.
  intros H. unfold strip, rstrip, lstrip. rewrite (lstrip_noop s H), lstrip_noop, srev_involutive; [reflexivity|].
  now rewrite allc_srev.
Qed.

Lemma allc_weaken (p q : ascii -> bool) s : (forall a, p a = true -> q a = true) -> allc p s = true -> allc q s = true.
Proof.
  intros W. induction s as [|a r IH]; simpl; [reflexivity|]. intros H. apply andb_true_iff in H as [H1 H2].
  rewrite (W a H1), (IH H2). reflexivity.
Qed.

Lemma digit_not_space a : is_digit a = true -> negb (is_space a) = true.
Proof. destruct a as [[] [] [] [] [] [] [] []]; simpl; intros H; try discriminate; reflexivity. Qed.

Lemma digits_of_uint u : allc is_digit (NilEmpty.string_of_uint u) = true.
Proof. induction u; simpl; try reflexivity; exact IHu. Qed.

Lemma string_of_uint_nonempty u : u <> Decimal.Nil -> NilEmpty.string_of_uint u <> "".
Proof. destruct u; simpl; congruence. Qed.

Lemma strip_underscores_digits s : forall b, allc is_digit s = true -> (s <> "" \/ b = true) -> strip_underscores s b = Some s.
Proof.
  induction s as [|a r IH]; intros b H Hne; simpl.
  - destruct Hne as [Hne| ->]; [congruence | reflexivity].
  - simpl in H. apply andb_true_iff in H as [Ha Hr]. rewrite Ha. rewrite (IH true Hr (or_intror eq_refl)). reflexivity.
Qed.

Lemma uint_z_of_pos p : uint_z (NilEmpty.string_of_uint (Pos.to_uint p)) = Some (Zpos p).
Proof.
  unfold uint_z. assert (N := DecimalPos.Unsigned.to_uint_nonnil p).
  rewrite (strip_underscores_digits _ false (digits_of_uint _) (or_introl (string_of_uint_nonempty _ N))).
  assert (E : NilZero.uint_of_string (NilEmpty.string_of_uint (Pos.to_uint p)) = Some (Pos.to_uint p)).
  { replace (NilEmpty.string_of_uint (Pos.to_uint p)) with (NilZero.string_of_uint (Pos.to_uint p)).
    - apply NilZero.usu. exact N.
    - unfold NilZero.string_of_uint. destruct (Pos.to_uint p); congruence. }
  rewrite E. simpl. unfold Z.of_uint. rewrite DecimalPos.Unsigned.of_to. reflexivity.
Qed.

Lemma py_int_digits s : allc is_digit s = true -> s <> "" -> py_int s = uint_z s.
Proof.
  intros D N. unfold py_int.
  rewrite strip_noop by (apply (allc_weaken is_digit); [exact digit_not_space | exact D]).
  destruct s as [|a r]; [congruence|]. simpl in D. apply andb_true_iff in D as [Da _].
  destruct a as [[] [] [] [] [] [] [] []]; simpl in Da; try discriminate Da; reflexivity.
Qed.

Theorem py_int_show z : py_int (show_int z) = Some z.
Proof.
  unfold show_int. destruct z as [|p|p]; simpl Z.to_int.
  - reflexivity.
  - unfold NilZero.string_of_int, NilZero.string_of_uint.
    assert (N := DecimalPos.Unsigned.to_uint_nonnil p).
    replace (match Pos.to_uint p with Decimal.Nil => "0" | _ => NilEmpty.string_of_uint (Pos.to_uint p) end)
      with (NilEmpty.string_of_uint (Pos.to_uint p)) by (destruct (Pos.to_uint p); congruence).
    rewrite (py_int_digits _ (digits_of_uint _) (string_of_uint_nonempty _ N)). apply uint_z_of_pos.
  - unfold NilZero.string_of_int, NilZero.string_of_uint.
    assert (N := DecimalPos.Unsigned.to_uint_nonnil p).
    replace (match Pos.to_uint p with Decimal.Nil => "0" | _ => NilEmpty.string_of_uint (Pos.to_uint p) end)
      with (NilEmpty.string_of_uint (Pos.to_uint p)) by (destruct (Pos.to_uint p); congruence).
    assert (D := digits_of_uint (Pos.to_uint p)).
    unfold py_int. rewrite strip_noop.
    + rewrite uint_z_of_pos. reflexivity.
    + simpl. apply (allc_weaken is_digit); [exact digit_not_space | exact D].
Qed.

