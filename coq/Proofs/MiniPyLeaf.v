(* Proofs/MiniPyLeaf.v — regenerated source (Gen/FactsLeafSrc.v) of utils.is_homogeneous_tuple_type, utils.get_container_nargs and
   FieldWrapper.postprocess against the hand model Model/Leaf.v (container_nargs, the homogeneity test inside parsing_fn, postprocess). *)
From SPV Require Import Base.Str Model.Leaf.
From SPV Require Import Model.MiniPy Gen.FactsLeafSrc Proofs.MiniPyLemmas.

Ltac ops := cbn [op_attr op_getattr op_hasattr op_vars op_getitem op_dictget op_copy op_keys op_values op_items op_zip op_splitdest
                   op_isconst bind2 st_unpack st_setpath st_popattr st_pop st_delattr].
Ltac hy := repeat match goal with H : lookup ?x ?r = Some _ |- context [lookup ?x ?r] => rewrite H end.
Ltac fin := repeat (progress (lk; hy; cbv beta iota; ops; cbv beta iota)).
Ltac nx :=
  rewrite exec_block_cons;
  first [rewrite exec_assign | rewrite exec_if | rewrite exec_return | rewrite exec_assert | rewrite exec_raise
        | rewrite exec_append' | rewrite exec_unpack];
  cbn [eval]; lk.
Ltac go := nx; fin.
Ltac sk := repeat (rewrite exec_block_nil; cbv beta iota).

Definition tbl_call (t : list (val * val)) (a : val) : res val :=
  match dget a t with
  | Some (VT [VC "raise"; VS cls]) => Err (Raise cls)
  | Some w => Ok w
  | None => Err (Raise "MiniPyUnknownCall")
  end.
Lemma eval_calltable r t a :
  eval r (ECallTable t a) =
  match eval r t, eval r a with
  | Ok (MiniPy.VD l), Ok v => tbl_call l v
  | Ok _, Ok _ => rerr | Err z, _ => Err z | _, Err z => Err z end.
Proof.
  cbn [eval]. unfold op_calltable, bind2, tbl_call.
  destruct (eval r t) as [[]|]; destruct (eval r a) as [?|]; reflexivity.
Qed.
Lemma eval_tbl r x t a v : lookup x r = Some (MiniPy.VD t) -> eval r a = Ok v -> eval r (ECallTable (EVar x) a) = tbl_call t v.
Proof. intros L A. rewrite eval_calltable. cbn [eval]. rewrite L, A. reflexivity. Qed.

(* ---------- typing annotations as values ---------- *)
Definition enc_lit (l : lit) : val := match l with LStr s => VS s | LInt z => VT [VC "int"; VB (Z.ltb z 0); VN (Z.abs_nat z)] end.
Fixpoint enc_ty (t : ty) : val :=
  match t with
  | TInt => VC "int" | TFloat => VC "float" | TStr => VC "str" | TBool => VC "bool" | TPath => VC "Path"
  | TEnum ms => VR "Enum" [("members", VT (map VS ms))]
  | TLit cs => VR "Literal" [("choices", VT (map enc_lit cs))]
  | TList u => VR "List" [("item", enc_ty u)]
  | TTupFix ts => VR "Tuple" [("args", VT (map enc_ty ts))]
  | TTupVar u => VR "TupleVar" [("item", enc_ty u)]
  | TOpt u => VR "Optional" [("item", enc_ty u)]
  end.
Definition is_list_ty (t : ty) : bool := match t with TList _ => true | _ => false end.
Definition is_tup_ty (t : ty) : bool := match t with TTupFix _ | TTupVar _ => true | _ => false end.
Definition ELLIPSIS : val := VC "Ellipsis".
(* typing.get_args of a tuple annotation: Tuple[a, b, ..] -> (a, b, ..); Tuple[a, ...] -> (a, Ellipsis) *)
Definition args_of (t : ty) : list val :=
  match t with TTupFix ts => map enc_ty ts | TTupVar u => [enc_ty u; ELLIPSIS] | _ => [] end.

Record ty_tables := mktt { t_tuple : list (val * val); t_list : list (val * val); t_args : list (val * val) }.
(* the uninterpreted is_tuple / is_list / get_type_arguments answer as the model reads the annotation u *)
Definition tables_ok (T : ty_tables) (u : ty) : Prop :=
  tbl_call (t_tuple T) (enc_ty u) = Ok (VB (is_tup_ty u)) /\ tbl_call (t_list T) (enc_ty u) = Ok (VB (is_list_ty u))
  /\ (is_tup_ty u = true -> tbl_call (t_args T) (enc_ty u) = Ok (VT (args_of u))).

Lemma enc_not_ellipsis u : op_isconst "Ellipsis" (Ok (enc_ty u)) = Ok (VB false).
Proof. destruct u; reflexivity. Qed.

Definition ty_env (T : ty_tables) (x : string) (t : ty) : env :=
  [(x, enc_ty t); ("is_tuple", MiniPy.VD (t_tuple T)); ("is_list", MiniPy.VD (t_list T)); ("get_type_arguments", MiniPy.VD (t_args T))].

(* ---------- get_container_nargs ---------- *)
Definition enc_nargs (n : nargs) : val := match n with NStar => VS "*" | NNum k => VN k | NOne => VS "1" | NOpt => VS "?" end.
Definition is_container (u : ty) : bool := match u with TList _ | TTupFix _ | TTupVar _ => true | _ => false end.

Definition gcn_body : list stmt :=
  [SIf (EOr (ECallTable (EVar "is_list") (EVar "item_type")) (ECallTable (EVar "is_tuple") (EVar "item_type"))) [SReturn (EStr "*")] [];
   SAssign "total_nargs" (EAdd (EVar "total_nargs") (ENat 1))].

Lemma gcn_loop T : forall us n r,
  Forall (tables_ok T) us ->
  lookup "is_tuple" r = Some (MiniPy.VD (t_tuple T)) -> lookup "is_list" r = Some (MiniPy.VD (t_list T)) -> lookup "total_nargs" r = Some (VN n) ->
  exists r', iter_list (fun v r => exec_block (assign "item_type" v r) gcn_body) (map enc_ty us) r
             = (if existsb is_container us then Ok (r', Some (VS "*")) else Ok (r', None))
             /\ (existsb is_container us = false -> lookup "total_nargs" r' = Some (VN (n + List.length us))).
Proof.
  induction us as [|u t IH]; intros n r FA HT HL HN.
  - cbn [map iter_list existsb List.length]. exists r. split; [reflexivity|]. intros _. rewrite Nat.add_0_r. exact HN.
  - inversion FA as [|? ? [OT [OL _]] FT]; subst. cbn [map iter_list existsb List.length]. unfold gcn_body at 1.
    rewrite exec_block_cons, exec_if.
    assert (EO : eval (assign "item_type" (enc_ty u) r) (EOr (ECallTable (EVar "is_list") (EVar "item_type")) (ECallTable (EVar "is_tuple") (EVar "item_type")))
                 = Ok (VB (is_container u))).
    { change (eval ?r0 (EOr ?a ?b)) with (match eval r0 a with Ok v => if truthy v then Ok v else eval r0 b | Err z => Err z end).
      rewrite (eval_tbl _ _ (t_list T) _ (enc_ty u)) by (first [lk; exact HL | cbn [eval]; lk; reflexivity]). rewrite OL. cbn [truthy].
      rewrite (eval_tbl _ _ (t_tuple T) _ (enc_ty u)) by (first [lk; exact HT | cbn [eval]; lk; reflexivity]). rewrite OT.
      destruct u; reflexivity. }
    rewrite EO. cbn [truthy]. destruct (is_container u); cbn [orb].
    + go. eexists. split; [reflexivity|discriminate].
    + sk. go. sk.
      match goal with |- context [iter_list _ _ ?r1] => destruct (IH (n + 1) r1 FT) as [r' [E N]]; [lk; exact HT | lk; exact HL | lk; reflexivity |] end.
      exists r'. split; [exact E|]. intros X. rewrite (N X). f_equal. f_equal. lia.
Qed.

Theorem get_container_nargs_is_model T t :
  tables_ok T t -> (forall ts, t = TTupFix ts -> ts <> [] /\ Forall (tables_ok T) ts) -> is_container t = true ->
  run (ty_env T "container_type" t) get_container_nargs_src = Ok (enc_nargs (container_nargs t)).
Proof.
  intros [OT [OL OA]] HTS IC. unfold run, get_container_nargs_src.
  assert (H0 : lookup "container_type" (ty_env T "container_type" t) = Some (enc_ty t)) by reflexivity.
  assert (H1 : lookup "is_tuple" (ty_env T "container_type" t) = Some (MiniPy.VD (t_tuple T))) by reflexivity.
  assert (H2 : lookup "is_list" (ty_env T "container_type" t) = Some (MiniPy.VD (t_list T))) by reflexivity.
  assert (H3 : lookup "get_type_arguments" (ty_env T "container_type" t) = Some (MiniPy.VD (t_args T))) by reflexivity.
  set (r0 := ty_env T "container_type" t) in *. clearbody r0.
  rewrite exec_block_cons, exec_if, (eval_tbl _ _ (t_tuple T) _ (enc_ty t)) by (first [exact H1 | cbn [eval]; rewrite H0; reflexivity]). rewrite OT.
  destruct t as [ | | | | | ms | cs | u | ts | u | u]; try discriminate; cbn [is_tup_ty truthy].
  - (* List *) sk. rewrite exec_block_cons, exec_if, (eval_tbl _ _ (t_list T) _ (enc_ty (TList u))) by (first [exact H2 | cbn [eval]; rewrite H0; reflexivity]).
    rewrite OL. cbn [is_list_ty truthy]. go. reflexivity.
  - (* Tuple[a, b, ..] *)
    destruct (HTS ts eq_refl) as [NE FA].
    rewrite exec_block_cons, exec_assign, (eval_tbl _ _ (t_args T) _ (enc_ty (TTupFix ts))) by (first [exact H3 | cbn [eval]; rewrite H0; reflexivity]).
    rewrite (OA eq_refl). cbn [args_of]. cbv beta iota.
    destruct ts as [|a ts']; [congruence|]. go. cbn [map truthy List.length Nat.eqb negb]. sk.
    rewrite exec_block_cons, exec_if.
    assert (EC : forall r1, lookup "type_arguments" r1 = Some (VT (map enc_ty (a :: ts'))) ->
                 eval r1 (EAnd (EEq (ELen (EVar "type_arguments")) (ENat 2)) (EIsConst (EIndex (EVar "type_arguments") 1) "Ellipsis")) = Ok (VB false)).
    { intros r1 L. cbn [eval]. rewrite L. cbn [map List.length val_eqb]. destruct ts' as [|b [|c ts2]]; cbn [List.length Nat.eqb truthy map nth_error]; try reflexivity.
      rewrite enc_not_ellipsis. reflexivity. }
    rewrite EC by (lk; reflexivity). cbn [truthy]. sk. go.
    rewrite exec_block_cons, exec_for. cbn [eval]. lk. cbv beta iota.
    match goal with |- context [iter_list ?f _ ?r1] => change f with (fun v r => exec_block (assign "item_type" v r) gcn_body);
      destruct (gcn_loop T (a :: ts') 0 r1 FA) as [r' [E N]]; [lk; exact H1 | lk; exact H2 | lk; reflexivity |] end.
    cbn [map] in E. rewrite E. unfold container_nargs. change (existsb _ (a :: ts')) with (existsb is_container (a :: ts')).
    destruct (existsb is_container (a :: ts')); [reflexivity|]. go. rewrite (N eq_refl). reflexivity.
  - (* Tuple[a, ...] *)
    rewrite exec_block_cons, exec_assign, (eval_tbl _ _ (t_args T) _ (enc_ty (TTupVar u))) by (first [exact H3 | cbn [eval]; rewrite H0; reflexivity]).
    rewrite (OA eq_refl). cbn [args_of]. cbv beta iota. go. cbn [truthy List.length Nat.eqb negb]. sk.
    go. cbn [List.length val_eqb Nat.eqb truthy nth_error]. fin. cbn [ELLIPSIS String.eqb Ascii.eqb Bool.eqb truthy]. go. reflexivity.
Qed.

(* ---------- is_homogeneous_tuple_type ---------- *)
Lemma distinct_zero : forall l seen, Nat.eqb (distinct l seen) 0 = forallb (fun v => existsb (val_eqb v) seen) l.
Proof.
  induction l as [|v t IH]; intros seen; [reflexivity|]. cbn [distinct forallb].
  destruct (existsb (val_eqb v) seen); cbn [andb]; [apply IH | reflexivity].
Qed.
Lemma strs_eq : forall m1 m2,
  (fix eq (l1 l2 : list val) := match l1, l2 with [], [] => true | x :: r1, y :: r2 => val_eqb x y && eq r1 r2 | _, _ => false end) (map VS m2) (map VS m1)
  = (fix eq l1 l2 := match l1, l2 with [], [] => true | x :: r1, y :: r2 => String.eqb x y && eq r1 r2 | _, _ => false end) m1 m2.
Proof.
  induction m1 as [|x r IH]; intros [|y s]; try reflexivity. cbn [map val_eqb]. rewrite IH, String.eqb_sym. reflexivity.
Qed.
(* on annotations that ty_eqb equates with themselves (no Literal / fixed tuple at a compared position), equality of the encodings -
   what `set(type_arguments)` compares - is ty_eqb *)
Lemma enc_eq : forall a, ty_eqb a a = true -> forall b, val_eqb (enc_ty b) (enc_ty a) = ty_eqb a b.
Proof.
  induction a; intros H b; cbn [ty_eqb] in H; try discriminate; destruct b; try reflexivity;
    cbn [enc_ty val_eqb ty_eqb String.eqb Ascii.eqb Bool.eqb List.length Nat.eqb andb].
  - rewrite strs_eq. rewrite !Bool.andb_true_r. reflexivity.
  - rewrite (IHa H). rewrite !Bool.andb_true_r. reflexivity.
  - rewrite (IHa H). rewrite !Bool.andb_true_r. reflexivity.
  - rewrite (IHa H). rewrite !Bool.andb_true_r. reflexivity.
Qed.

Definition hom_model (t : ty) : bool :=
  match t with
  | TTupFix [] => true
  | TTupFix (t0 :: r) => forallb (ty_eqb t0) r        (* the test inside Leaf.parsing_fn *)
  | TTupVar _ => true
  | _ => false
  end.

Theorem is_homogeneous_tuple_type_is_model T t :
  tables_ok T t -> (forall t0 r, t = TTupFix (t0 :: r) -> r = [] \/ ty_eqb t0 t0 = true) ->
  run (ty_env T "t" t) is_homogeneous_tuple_type_src = Ok (VB (hom_model t)).
Proof.
  intros [OT [OL OA]] CMP. unfold run, is_homogeneous_tuple_type_src.
  assert (H0 : lookup "t" (ty_env T "t" t) = Some (enc_ty t)) by reflexivity.
  assert (H1 : lookup "is_tuple" (ty_env T "t" t) = Some (MiniPy.VD (t_tuple T))) by reflexivity.
  assert (H3 : lookup "get_type_arguments" (ty_env T "t" t) = Some (MiniPy.VD (t_args T))) by reflexivity.
  set (r0 := ty_env T "t" t) in *. clearbody r0.
  rewrite exec_block_cons, exec_if.
  change (eval r0 (ENot ?a)) with (match eval r0 a with Ok v => Ok (VB (negb (truthy v))) | Err x => Err x end).
  rewrite (eval_tbl _ _ (t_tuple T) _ (enc_ty t)) by (first [exact H1 | cbn [eval]; rewrite H0; reflexivity]). rewrite OT. cbn [truthy].
  destruct (is_tup_ty t) eqn:IT; cbn [negb].
  2:{ go. destruct t; try discriminate; reflexivity. }
  sk. rewrite exec_block_cons, exec_assign, (eval_tbl _ _ (t_args T) _ (enc_ty t)) by (first [exact H3 | cbn [eval]; rewrite H0; reflexivity]).
  rewrite (OA eq_refl). cbv beta iota.
  destruct t as [ | | | | | ms | cs | u | ts | u | u]; try discriminate; cbn [args_of hom_model].
  - destruct ts as [|t0 r].
    + go. reflexivity.
    + go. cbn [map truthy List.length Nat.eqb negb]. sk. go. cbn [type_name str_in existsb String.eqb Ascii.eqb Bool.eqb orb truthy]. cbv beta iota.
      rewrite exec_block_cons, exec_if.
      assert (EC : forall r1, lookup "type_arguments" r1 = Some (VT (enc_ty t0 :: map enc_ty r)) ->
                   eval r1 (EAnd (EEq (ELen (EVar "type_arguments")) (ENat 2)) (EIsConst (EIndex (EVar "type_arguments") 1) "Ellipsis")) = Ok (VB false)).
      { intros r1 L. cbn [eval]. rewrite L. cbn [List.length val_eqb]. destruct r as [|b [|c ts2]]; cbn [map List.length Nat.eqb truthy nth_error]; try reflexivity.
        rewrite enc_not_ellipsis. reflexivity. }
      rewrite EC by (lk; reflexivity). cbn [truthy]. sk.
      go. cbn [op_countdistinct seq_items distinct existsb val_eqb]. cbn [Nat.eqb].
      rewrite distinct_zero. destruct (CMP t0 r eq_refl) as [-> | SELF]; [reflexivity|].
      f_equal. f_equal. clear -SELF. induction r as [|b r IH]; [reflexivity|]. cbn [map forallb]. rewrite IH. cbn [existsb]. rewrite (enc_eq t0 SELF b), Bool.orb_false_r. reflexivity.
  - go. cbn [truthy List.length Nat.eqb negb]. sk. go. cbn [type_name str_in existsb String.eqb Ascii.eqb Bool.eqb orb truthy]. cbv beta iota.
    go. cbn [List.length val_eqb Nat.eqb truthy nth_error]. fin. cbn [ELLIPSIS String.eqb Ascii.eqb Bool.eqb truthy]. go. reflexivity.
Qed.

(* ====================================================================================================== *)
(* FieldWrapper.postprocess                                                                                 *)
(* ====================================================================================================== *)
From SPV Require Import Proofs.DefaultsPipeline.      (* enc_value : Leaf.value -> val, injective and reflexive for == *)

Definition enc_raw (r : raw) : val :=
  match r with ROne v => enc_value v | RNone => MiniPy.VNone | RMany vs => MiniPy.VL (map enc_value vs) end.

(* --- the abstraction: what the attributes / helpers read by postprocess are for a field of grammar type t --- *)
Definition is_opt_ty (t : ty) : bool := match t with TOpt _ => true | _ => false end.
(* self.type is opaque except for: Enum lookup by name, membership in utils.builtin_types, being the argument of the helpers *)
Definition type_token (t : ty) : val :=
  match t with
  | TInt => VC "int" | TFloat => VC "float" | TStr => VC "str" | TBool => VC "bool" | TPath => VC "Path"
  | TEnum ms => MiniPy.VD (map (fun m => (VS m, enc_value (VEnum m))) ms)            (* Color["RED"] *)
  | _ => VC "annotation"
  end.
(* custom_args["choices"] of a Literal field: name -> value, the last entry of a name wins (dict comprehension); all keys are str.
   Listed latest first: the dumped code reads it by key, by truth value and by the TYPE of its first key only *)
Definition choice_pairs (cs : list lit) : list (val * val) := map (fun l => (VS (lit_name l), enc_value (lit_value l))) (rev cs).
Definition raw_is_str (r : raw) : bool := match r with ROne (VStr _) => true | _ => false end.
Definition post_env (t : ty) (r : raw) : env :=
  [("self", VR "FieldWrapper"
      [("is_enum", VB (match t with TEnum _ => true | _ => false end));
       ("is_choice", VB (match t with TLit _ => true | _ => false end));
       ("is_tuple", VB (is_tup_ty t)); ("is_bool", VB (match t with TBool => true | _ => false end));
       ("is_list", VB (is_list_ty t)); ("is_subparser", VB false);
       ("choice_dict", MiniPy.VD (match t with TLit cs => choice_pairs cs | _ => [] end));
       ("type", type_token t);
       ("_type_or_raw", MiniPy.VD [(enc_raw r, enc_raw r)])]);                       (* Path(p) is p again *)
   ("raw_parsed_value", enc_raw r);
   ("utils", VR "module"
      [("is_optional", MiniPy.VD [(type_token t, VB (is_opt_ty t))]);
       ("get_args", MiniPy.VD [(type_token t, VT [VC "item annotation"; VC "NoneType"])]);
       ("is_tuple", MiniPy.VD [(VC "item annotation", VB (match t with TOpt u => is_tup_ty u | _ => false end))]);
       ("builtin_types", MiniPy.VL [VC "str"; VC "float"; VC "int"; VC "bool"])]);
   ("tuple", MiniPy.VD (match r with RMany vs => [(MiniPy.VL (map enc_value vs), enc_value (VTup vs))] | _ => [] end));
   ("type", MiniPy.VD (match t with TLit cs => map (fun p => (fst p, VC "str")) (choice_pairs cs) | _ => [] end));
   ("isinstance", MiniPy.VD [(VT [enc_raw r; VC "str"], VB (raw_is_str r))])].

(* the raw values argparse can hand over for a field of type t (what take_values produces, or a default) *)
Definition raw_ok (t : ty) (r : raw) : bool :=
  match t, r with
  | TEnum ms, ROne (VStr s) => str_in s ms                                  (* choices=ms: the name is a member *)
  | TLit cs, ROne (VStr s) => match lookup_lit cs s with Some _ => true | None => match cs with [] => true | _ => false end end
  | TTupFix _, ROne _ | TTupVar _, ROne _ | TList _, ROne _ => false        (* nargs * / n: a list *)
  | TOpt u, ROne (VList _) => negb (is_tup_ty u)                            (* a list for Optional[Tuple[..]] comes as RMany *)
  | TPath, ROne (VPath _) | TPath, RNone => true
  | TPath, _ => false
  | _, _ => true
  end.

Lemma list_enc_refl vs : val_eqb (MiniPy.VL (map enc_value vs)) (MiniPy.VL (map enc_value vs)) = true.
Proof. cbn [val_eqb]. induction vs as [|v r IH]; [reflexivity|]. cbn [map]. rewrite enc_value_refl, IH. reflexivity. Qed.
Lemma enc_raw_refl r : val_eqb (enc_raw r) (enc_raw r) = true.
Proof. destruct r as [v| |vs]; [apply enc_value_refl | reflexivity | apply list_enc_refl]. Qed.

Lemma enum_lookup s : forall ms, dget (VS s) (map (fun m => (VS m, VT [VC "enum"; VS m])) ms)
                                  = if str_in s ms then Some (VT [VC "enum"; VS s]) else None.
Proof.
  unfold str_in. induction ms as [|m r IH]; [reflexivity|]. cbn [map dget val_eqb existsb]. rewrite String.eqb_sym.
  destruct (String.eqb s m) eqn:E; cbn [orb]; [apply String.eqb_eq in E; subst; reflexivity | exact IH].
Qed.
Lemma lit_lookup s : forall L, dget (VS s) (map (fun l => (VS (lit_name l), enc_value (lit_value l))) L)
                               = option_map (fun l => enc_value (lit_value l)) (find (fun l => String.eqb (lit_name l) s) L).
Proof. induction L as [|l r IH]; [reflexivity|]. cbn [map dget val_eqb find]. destruct (String.eqb (lit_name l) s); [reflexivity|exact IH]. Qed.

Ltac crunch := cbn; rewrite ?enc_value_refl, ?list_enc_refl, ?String.eqb_refl; cbn; rewrite ?enc_value_refl, ?list_enc_refl, ?String.eqb_refl; try reflexivity.

Theorem postprocess_is_model t r :
  raw_ok t r = true -> run (post_env t r) postprocess_src = Ok (enc_value (postprocess t r)).
Proof.
  intros OK.
  destruct t as [ | | | | | ms | cs | u | ts | u | u]; destruct r as [v| |vs]; try discriminate OK; try reflexivity.
  - (* Path *) destruct v; try discriminate OK. unfold run, postprocess_src. crunch.
  - (* Enum *) destruct v; try reflexivity. cbn [raw_ok] in OK. unfold run, postprocess_src. crunch. rewrite enum_lookup, OK. reflexivity.
  - (* Literal, one value *)
    destruct cs as [|c0 cs']; [destruct v; reflexivity|].
    cbn [raw_ok] in OK. unfold postprocess, lookup_lit in *.
    unfold run, postprocess_src, post_env, choice_pairs.
    destruct (rev (c0 :: cs')) as [|l0 rl] eqn:R; [apply (f_equal (@List.length _)) in R; rewrite rev_length in R; discriminate|].
    cbn -[enc_value lit_value lit_name]. rewrite String.eqb_refl. cbn -[enc_value lit_value lit_name].
    rewrite enc_value_refl. cbn -[enc_value lit_value lit_name].
    destruct v; try reflexivity.
    change (enc_value (VStr s)) with (VS s) in *. cbn -[enc_value lit_value lit_name find] in *. cbn [find] in *.
    destruct (String.eqb (lit_name l0) s); cbn -[enc_value lit_value lit_name find] in *; [reflexivity|].
    rewrite (lit_lookup s rl). destruct (find (fun l => String.eqb (lit_name l) s) rl); cbn -[enc_value lit_value lit_name] in *; [reflexivity|discriminate].
  - (* Literal, no value *)
    destruct cs as [|c0 cs']; [reflexivity|].
    unfold run, postprocess_src, post_env, choice_pairs.
    destruct (rev (c0 :: cs')) as [|l0 rl] eqn:R; [apply (f_equal (@List.length _)) in R; rewrite rev_length in R; discriminate|].
    cbn -[enc_value lit_value lit_name]. rewrite String.eqb_refl. reflexivity.
  - (* Literal, several values *)
    destruct cs as [|c0 cs']; [reflexivity|].
    unfold run, postprocess_src, post_env, choice_pairs.
    destruct (rev (c0 :: cs')) as [|l0 rl] eqn:R; [apply (f_equal (@List.length _)) in R; rewrite rev_length in R; discriminate|].
    pose proof (list_enc_refl vs) as L. cbn [val_eqb] in L.
    cbn -[enc_value lit_value lit_name]. rewrite String.eqb_refl. cbn -[enc_value lit_value lit_name]. rewrite L. reflexivity.
  - unfold run, postprocess_src. pose proof (list_enc_refl vs) as L. cbn [val_eqb] in L. cbn. rewrite L. reflexivity.
  - unfold run, postprocess_src. pose proof (list_enc_refl vs) as L. cbn [val_eqb] in L. cbn. rewrite L. reflexivity.
  - (* Optional, one value *) destruct u; destruct v; try discriminate OK; reflexivity.
  - (* Optional, None *) destruct u; reflexivity.
  - (* Optional, several values *)
    pose proof (list_enc_refl vs) as L. cbn [val_eqb] in L.
    destruct u; try reflexivity; unfold run, postprocess_src; cbn; rewrite L; reflexivity.
Qed.
