(* Proofs/LeafRoundtrip.v — C02: the canonical tokens of a value parse back to exactly that value, floats included. *)
From Coq Require Import DecimalString DecimalZ.
From SPV Require Import Base.Str Model.BoolFlag Model.Leaf Model.LeafSpec Gen.FactsBool Gen.FactsLeaf Proofs.LeafProofs Proofs.FloatProofs.

Notation cv := (convert str2bool_gen enum_miss_cls_gen).
Notation cva := (convert_all str2bool_gen enum_miss_cls_gen).
Notation tkv := (take_values str2bool_gen enum_miss_cls_gen).

(* values in normal form: floats are exact decimals without trailing zeros, no negative zero *)
Definition flt_wfb (neg : bool) (ip : Z) (frac : string) : bool :=
  (0 <=? ip)%Z && allc is_digit frac && String.eqb (rstrip_zeros frac) frac
  && negb (neg && (ip =? 0)%Z && String.eqb frac "").
Fixpoint value_wf (v : value) : bool :=
  match v with
  | VFlt n i f => flt_wfb n i f
  | VList vs | VTup vs => forallb value_wf vs
  | _ => true
  end.

Lemma flt_wfb_wf n i f : flt_wfb n i f = true -> flt_wf n i f.
Proof.
  unfold flt_wfb, flt_wf. intros H. repeat (apply andb_true_iff in H as [H ?]).
  repeat split.
  - now apply Z.leb_le.
  - assumption.
  - now apply String.eqb_eq.
  - intros -> [-> ->]. discriminate.
Qed.

(* ---------- scalars ---------- *)
Lemma str2bool_True : str2bool_gen "True" = Some true /\ str2bool_gen "False" = Some false.
Proof. split; vm_compute; reflexivity. Qed.

Lemma scalar_roundtrip u v s i :
  is_item u = true -> value_wf v = true -> has_type v u = true -> scalar_token v = Some s ->
  cv (parsing_fn u) i s = Ok v.
Proof.
  intros Hi Hf Ht Hs. destruct u; try discriminate; destruct v; try discriminate; simpl in Hs; injection Hs as <-; simpl.
  - now rewrite py_int_show.
  - simpl in Hf. now rewrite (py_float_show _ _ _ (flt_wfb_wf _ _ _ Hf)).
  - reflexivity.
  - destruct b; [now rewrite (proj1 str2bool_True) | now rewrite (proj2 str2bool_True)].
  - reflexivity.
  - simpl in Ht. now rewrite Ht.
Qed.

Lemma check_none vs : forallb (check_choice None) vs = true.
Proof. induction vs; simpl; auto. Qed.

Lemma cva_roundtrip u vs : forall toks i,
  is_item u = true -> forallb value_wf vs = true -> forallb (fun x => has_type x u) vs = true -> scalar_tokens vs = Some toks ->
  cva (parsing_fn u) i toks = Ok vs.
Proof.
  induction vs as [|v r IH]; intros toks i Hi Hf Ht Hs; simpl in Hs.
  - now injection Hs as <-.
  - destruct (scalar_token v) as [s|] eqn:E; [|discriminate]. destruct (scalar_tokens r) as [ss|] eqn:E2; [|discriminate].
    injection Hs as <-. simpl in Ht, Hf. apply andb_true_iff in Ht as [H1 H2]. apply andb_true_iff in Hf as [F1 F2]. simpl.
    rewrite (scalar_roundtrip u v s i Hi F1 H1 E), (IH ss (S i) Hi F2 H2 eq_refl). reflexivity.
Qed.

Lemma cva_seq_roundtrip pre ts : forall vs toks,
  forallb is_item (pre ++ ts) = true -> forallb value_wf vs = true ->
  zip_typed vs ts = true -> scalar_tokens vs = Some toks ->
  cva (KSeq (map parsing_fn (pre ++ ts))) (List.length pre) toks = Ok vs.
Proof.
  revert pre. induction ts as [|u r IH]; intros pre vs toks Hall Hnf Hz Hs; destruct vs as [|v vr]; try discriminate.
  - simpl in Hs. now injection Hs as <-.
  - simpl in Hs, Hz, Hnf. destruct (scalar_token v) as [s|] eqn:E; [|discriminate].
    destruct (scalar_tokens vr) as [ss|] eqn:E2; [|discriminate]. injection Hs as <-.
    apply andb_true_iff in Hz as [H1 H2]. apply andb_true_iff in Hnf as [F1 F2].
    assert (Hu : is_item u = true).
    { rewrite forallb_app in Hall. apply andb_true_iff in Hall as [_ Hall]. simpl in Hall. now apply andb_true_iff in Hall as [Hu _]. }
    cbn [convert_all]. rewrite convert_seq, nth_error_map, nth_error_app2, Nat.sub_diag by lia. simpl nth_error. cbn [option_map].
    rewrite (scalar_roundtrip u v s 0 Hu F1 H1 E).
    assert (X := IH (pre ++ [u])%list vr ss). rewrite <- app_assoc, app_length in X. simpl in X. rewrite Nat.add_1_r in X.
    rewrite (X Hall F2 H2 E2). reflexivity.
Qed.

Lemma zip_typed_all t0 r vs : (forall u, In u r -> u = t0) -> zip_typed vs r = true -> forallb (fun x => has_type x t0) vs = true.
Proof.
  revert vs. induction r as [|u r IH]; intros vs Hall H; destruct vs as [|x vs]; try discriminate; [reflexivity|].
  simpl in *. apply andb_true_iff in H as [H1 H2]. assert (Eu := Hall u (or_introl eq_refl)). subst u. rewrite H1. simpl. apply IH; auto.
Qed.

Lemma zip_typed_length vs ts : zip_typed vs ts = true -> List.length vs = List.length ts.
Proof.
  revert vs. induction ts as [|u r IH]; intros vs H; destruct vs; try discriminate; [reflexivity|].
  simpl in *. apply andb_true_iff in H as [_ H]. f_equal. now apply IH.
Qed.

Lemma scalar_tokens_length vs toks : scalar_tokens vs = Some toks -> List.length toks = List.length vs.
Proof.
  revert toks. induction vs as [|v r IH]; intros toks H; simpl in H; [now injection H as <-|].
  destruct (scalar_token v); [|discriminate]. destruct (scalar_tokens r) eqn:E; [|discriminate]. injection H as <-.
  simpl. f_equal. now apply IH.
Qed.

(* a container value written item by item comes back as the same container *)
Lemma container_roundtrip (t : ty) vs toks :
  is_container t = true -> forallb value_wf vs = true ->
  has_type (match t with TList _ => VList vs | _ => VTup vs end) t = true ->
  scalar_tokens vs = Some toks ->
  tkv (container_nargs t) (match t with TList u => container_conv u | _ => parsing_fn t end) None toks = Ok (RMany vs).
Proof.
  intros Hc Hn Ht Hs.
  assert (K : forall n k, (match n with NNum m => List.length toks = m | NStar => True | _ => False end) ->
              cva k 0 toks = Ok vs -> tkv n k None toks = Ok (RMany vs)).
  { intros n k Ha C. unfold take_values. rewrite C, check_none.
    destruct n; try contradiction; [reflexivity|]. subst n. rewrite Nat.eqb_refl. reflexivity. }
  destruct t as [| | | | | | |u|ts|u|]; try discriminate.
  - simpl in Hc, Ht. apply K; [exact I|]. destruct (item_conv_flat u Hc) as [_ ->].
    exact (cva_roundtrip u vs toks 0 Hc Hn Ht Hs).
  - simpl in Hc. apply andb_true_iff in Hc as [Hne Hall].
    rewrite has_type_tupfix in Ht.
    assert (Hna : container_nargs (TTupFix ts) = NNum (List.length ts)).
    { simpl. replace (existsb _ ts) with false; [reflexivity|]. symmetry. apply not_true_is_false. intros X.
      apply existsb_exists in X as [x [Hx Hx2]]. rewrite forallb_forall in Hall. specialize (Hall x Hx). destruct x; discriminate. }
    rewrite Hna. apply K; [rewrite (scalar_tokens_length _ _ Hs); exact (zip_typed_length _ _ Ht)|].
    destruct ts as [|t0 r]; [discriminate|]. cbn [parsing_fn].
    assert (Ht0 : is_item t0 = true) by (simpl in Hall; now apply andb_true_iff in Hall as [X _]).
    destruct (forallb (ty_eqb t0) r) eqn:Hom.
    + apply cva_roundtrip; auto.
      apply (zip_typed_all t0 (t0 :: r)); [|exact Ht]. intros u [<-|Hu]; [reflexivity|]. exact (homog_all_eq t0 r Ht0 Hom u Hu).
    + exact (cva_seq_roundtrip [] (t0 :: r) vs toks Hall Hn Ht Hs).
  - simpl in Hc, Ht. apply K; [exact I|].
    exact (cva_roundtrip u vs toks 0 Hc Hn Ht Hs).
Qed.

Lemma value_eqb_lit v l : value_eqb v (lit_value l) = true -> v = lit_value l.
Proof.
  destruct l, v; simpl; intros H; try discriminate.
  - apply String.eqb_eq in H. now subst.
  - apply Z.eqb_eq in H. now subst.
Qed.

Lemma nodup_map_inj {A} (f : A -> string) l a b :
  NoDup (map f l) -> In a l -> In b l -> f a = f b -> a = b.
Proof.
  induction l as [|x r IH]; simpl; intros N Ha Hb E; [contradiction|].
  inversion N as [|? ? Hx Hr]; subst.
  destruct Ha as [->|Ha], Hb as [->|Hb]; auto.
  - exfalso. apply Hx. rewrite E. now apply in_map.
  - exfalso. apply Hx. rewrite <- E. now apply in_map.
Qed.

Lemma lookup_lit_distinct cs l : lit_names_distinct cs = true -> In l cs -> lookup_lit cs (lit_name l) = Some (lit_value l).
Proof.
  intros N Hl. unfold lit_names_distinct in N. apply str_nodupb_NoDup in N. unfold lookup_lit.
  destruct (find (fun l0 => String.eqb (lit_name l0) (lit_name l)) (rev cs)) as [l'|] eqn:F.
  - apply find_some in F as [Hin He]. apply in_rev in Hin. apply String.eqb_eq in He.
    now rewrite (nodup_map_inj lit_name cs l' l N Hin Hl He).
  - exfalso. assert (X := find_none _ _ F l). rewrite <- in_rev in X. specialize (X Hl). rewrite String.eqb_refl in X. discriminate.
Qed.

(* C02, one field: writing v in its canonical token form after the option gives back exactly v *)
Theorem leaf_roundtrip t v toks :
  cli_type t = true -> value_wf v = true -> has_type v t = true -> canon t v = Some toks -> lp t toks = Ok v.
Proof.
  unfold lp, leaf_parse. intros Hc Hn Ht Hs.
  assert (S1 : forall u ch w s, is_item u = true -> value_wf w = true -> has_type w u = true -> scalar_token w = Some s ->
             forallb (check_choice ch) [w] = true -> forall n, (n = NOne \/ n = NOpt) -> tkv n (parsing_fn u) ch [s] = Ok (ROne w)).
  { intros u ch w s Hu Hf Hw Hsw Hch n Hnn. unfold take_values.
    assert (A : negb (match n with NOne => Nat.eqb (List.length [s]) 1 | NOpt => Nat.leb (List.length [s]) 1 | NStar => true | NNum m => Nat.eqb (List.length [s]) m end) = false)
      by (destruct Hnn as [-> | ->]; reflexivity).
    rewrite A. simpl convert_all. rewrite (scalar_roundtrip u w s 0 Hu Hf Hw Hsw). rewrite Hch.
    destruct Hnn as [-> | ->]; reflexivity. }
  destruct t as [| | | | |ms|cs|u|ts|u|u].
  - (* int *) destruct v; try discriminate. simpl in Hs. injection Hs as <-. cbn [arg_options].
    rewrite (S1 TInt None (VInt z) _ eq_refl eq_refl eq_refl eq_refl eq_refl NOne (or_introl eq_refl)). reflexivity.
  - (* float *) destruct v; try discriminate. simpl in Hs. injection Hs as <-. cbn [arg_options].
    rewrite (S1 TFloat None (VFlt neg ip frac) _ eq_refl Hn eq_refl eq_refl eq_refl NOne (or_introl eq_refl)). reflexivity.
  - destruct v; try discriminate. simpl in Hs. injection Hs as <-. cbn [arg_options].
    rewrite (S1 TStr None (VStr s) _ eq_refl eq_refl eq_refl eq_refl eq_refl NOne (or_introl eq_refl)). reflexivity.
  - destruct v; try discriminate. simpl in Hs. injection Hs as <-. cbn [arg_options].
    destruct b; [rewrite (proj1 str2bool_True) | rewrite (proj2 str2bool_True)]; reflexivity.
  - destruct v; try discriminate. simpl in Hs. injection Hs as <-. cbn [arg_options].
    rewrite (S1 TPath None (VPath s) _ eq_refl eq_refl eq_refl eq_refl eq_refl NOne (or_introl eq_refl)). reflexivity.
  - (* enum field *) destruct v; try discriminate. simpl in Hs. injection Hs as <-. simpl in Ht. cbn [arg_options].
    unfold take_values. simpl. rewrite Ht. reflexivity.
  - (* literal *) simpl in Hc. apply andb_true_iff in Hc as [_ Hd].
    assert (Hex : exists l, In l cs /\ v = lit_value l).
    { destruct v; simpl in Ht; try (apply existsb_exists in Ht as [l [Hl He]]; exists l; split; [exact Hl | now apply value_eqb_lit]);
      try (exfalso; apply existsb_exists in Ht as [l [Hl He]]; destruct l; discriminate). }
    destruct Hex as [l [Hl ->]].
    assert (Tk : toks = [lit_name l]) by (destruct l; simpl in Hs; now injection Hs as <-).
    subst toks. cbn [arg_options]. unfold take_values. simpl.
    assert (M : str_in (lit_name l) (map lit_name cs) = true) by (apply str_in_In, in_map; exact Hl).
    rewrite M. simpl. rewrite (lookup_lit_distinct cs l Hd Hl). reflexivity.
  - (* list *) destruct v; try discriminate. simpl in Hs. simpl in Hc. cbn [arg_options].
    assert (X := container_roundtrip (TList u) vs toks Hc Hn Ht Hs). simpl container_nargs in X. rewrite X. reflexivity.
  - destruct v; try discriminate. simpl in Hs. simpl in Hc. cbn [arg_options].
    rewrite (container_roundtrip (TTupFix ts) vs toks Hc Hn Ht Hs). reflexivity.
  - destruct v; try discriminate. simpl in Hs. simpl in Hc. cbn [arg_options].
    rewrite (container_roundtrip (TTupVar u) vs toks Hc Hn Ht Hs). reflexivity.
  - (* Optional *) simpl in Hc. apply orb_true_iff in Hc as [Hi|Hco].
    + assert (A : arg_options (TOpt u) = AStore NOpt (parsing_fn u) None) by (destruct u; try discriminate; reflexivity).
      rewrite A. destruct v as [z|ng ip fr|s0|b| |m|s0|vs|vs].
      * destruct u; try discriminate. simpl in Hs. injection Hs as <-.
        rewrite (S1 TInt None (VInt z) (show_int z) eq_refl eq_refl eq_refl eq_refl eq_refl NOpt (or_intror eq_refl)). reflexivity.
      * destruct u; try discriminate. simpl in Hs. injection Hs as <-.
        rewrite (S1 TFloat None (VFlt ng ip fr) (show_float ng ip fr) eq_refl Hn eq_refl eq_refl eq_refl NOpt (or_intror eq_refl)). reflexivity.
      * destruct u; try discriminate. simpl in Hs. injection Hs as <-.
        rewrite (S1 TStr None (VStr s0) s0 eq_refl eq_refl eq_refl eq_refl eq_refl NOpt (or_intror eq_refl)). reflexivity.
      * destruct u; try discriminate. simpl in Hs. injection Hs as <-.
        rewrite (S1 TBool None (VBool b) (if b then "True" else "False") eq_refl eq_refl eq_refl eq_refl eq_refl NOpt (or_intror eq_refl)). reflexivity.
      * (* None *) assert (toks = []) by (destruct u; try discriminate; simpl in Hs; now injection Hs as <-). subst toks.
        unfold take_values. simpl. destruct u; reflexivity.
      * (* enum member *) destruct u; try discriminate. simpl in Hs. injection Hs as <-. simpl in Ht.
        unfold take_values. simpl. rewrite Ht. reflexivity.
      * destruct u; try discriminate. simpl in Hs. injection Hs as <-.
        rewrite (S1 TPath None (VPath s0) s0 eq_refl eq_refl eq_refl eq_refl eq_refl NOpt (or_intror eq_refl)). reflexivity.
      * destruct u; discriminate.
      * destruct u; discriminate.
    + destruct u as [| | | | | | |u'|ts|u'|]; try discriminate; destruct v; try discriminate; simpl in Hs; cbn [arg_options].
      * assert (X := container_roundtrip (TList u') vs toks Hco Hn Ht Hs). simpl container_nargs in X. rewrite X. reflexivity.
      * rewrite (container_roundtrip (TTupFix ts) vs toks Hco Hn Ht Hs). reflexivity.
      * rewrite (container_roundtrip (TTupVar u') vs toks Hco Hn Ht Hs). reflexivity.
Qed.
