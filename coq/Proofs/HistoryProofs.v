(* Proofs/HistoryProofs.v — C08: the history theorem (by induction over the operation list, no bound on its
   length), the refutations of the unrestricted statement (one per defect, for EVERY setting of the other
   switches), and "all switches repaired => the unrestricted statement holds". *)
From SPV Require Import Base.Str Model.OptStr Model.History Model.HistorySpec.
Open Scope string_scope.

(* ---------- decidable equalities ---------- *)
Lemma cfg_eqb_eq a b : cfg_eqb a b = true -> a = b.
Proof.
  destruct a as [d1 g1 n1], b as [d2 g2 n2]; unfold cfg_eqb; cbn [dv gm nm].
  destruct d1, d2, g1, g2, n1, n2; cbn; intro H; try discriminate; reflexivity.
Qed.

Lemma kv_eqb_eq a : forall b, kv_eqb a b = true -> a = b.
Proof.
  induction a as [|[k v] r IH]; intros [|[k' v'] s] H; cbn in H; try discriminate; [reflexivity|].
  apply andb_true_iff in H as [H1 H2]. unfold pair_eqb in H1; cbn in H1.
  apply andb_true_iff in H1 as [Hk Hv].
  apply String.eqb_eq in Hk. apply String.eqb_eq in Hv. subst. f_equal. apply IH; exact H2.
Qed.

(* ---------- slots ---------- *)
Lemma slot_get_set_same l i p : slot_get (slot_set l i p) i = Some p.
Proof.
  induction l as [|[j q] r IH]; cbn.
  - rewrite Nat.eqb_refl. reflexivity.
  - destruct (Nat.eqb j i) eqn:E; cbn; rewrite E; [reflexivity | exact IH].
Qed.

Lemma slot_get_set_other l i j p : i <> j -> slot_get (slot_set l i p) j = slot_get l j.
Proof.
  intro Hij. induction l as [|[k q] r IH]; cbn.
  - destruct (Nat.eqb i j) eqn:E; [apply Nat.eqb_eq in E; contradiction | reflexivity].
  - destruct (Nat.eqb k i) eqn:E; cbn.
    + apply Nat.eqb_eq in E. subst k.
      destruct (Nat.eqb i j) eqn:E2; [apply Nat.eqb_eq in E2; contradiction | reflexivity].
    + destruct (Nat.eqb k j); [reflexivity | exact IH].
Qed.

(* ---------- the registry ---------- *)
Lemma enum_eqb_eq a b : enum_eqb a b = true -> a = b.
Proof.
  destruct a as [i q m], b as [i' q' m']. unfold enum_eqb. cbn. intro H.
  apply andb_true_iff in H as [H H3]. apply andb_true_iff in H as [H1 H2].
  apply Nat.eqb_eq in H1. apply String.eqb_eq in H2. apply kv_eqb_eq in H3. subst. reflexivity.
Qed.

Lemma kv_eqb_refl0 a : kv_eqb a a = true.
Proof.
  induction a as [|[k v] r IH]; [reflexivity|]. cbn. unfold pair_eqb. cbn.
  rewrite !String.eqb_refl, IH. reflexivity.
Qed.
Lemma enum_eqb_refl a : enum_eqb a a = true.
Proof. unfold enum_eqb. rewrite Nat.eqb_refl, String.eqb_refl, kv_eqb_refl0. reflexivity. Qed.

Lemma resolve_kind_fixed bc reg k : kind_fixed bc reg k = true -> resolve_kind bc reg k = k.
Proof.
  destruct k as [| | | alts dk | sh e fo]; try reflexivity. cbn. intro H.
  rewrite H. apply enum_eqb_eq in H. rewrite H. cbn. rewrite orb_false_r. reflexivity.
Qed.

(* a registry that hands every Enum of these dataclasses its own function is invisible to set-up *)
Lemma resolve_fixed bc reg adds : adds_fixed bc reg adds = true -> resolve_adds bc reg adds = adds.
Proof.
  unfold adds_fixed, resolve_adds. induction adds as [|[c dest] r IH]; intro H; [reflexivity|].
  cbn in H. apply andb_true_iff in H as [H1 H2]. cbn [map]. rewrite (IH H2). f_equal.
  unfold resolve_add. cbn [fst snd]. destruct c as [cn fs]. cbn [d_cls d_fields] in *. f_equal. f_equal.
  induction fs as [|fd fr IHf]; [reflexivity|].
  cbn in H1. apply andb_true_iff in H1 as [Hk Hr]. cbn [map]. rewrite (IHf Hr). f_equal.
  unfold resolve_fd. rewrite (resolve_kind_fixed bc reg _ Hk). destruct fd; reflexivity.
Qed.

(* keyed by the class object, the registry is unobservable: whatever it holds, every class gets its own function *)
Lemma adds_fixed_by_class reg adds : adds_fixed true reg adds = true.
Proof.
  unfold adds_fixed. apply forallb_forall. intros ad _. apply forallb_forall. intros fd _.
  destruct (f_kind fd); try reflexivity. cbn. apply enum_eqb_refl.
Qed.
Lemma resolve_by_class reg adds : resolve_adds true reg adds = adds.
Proof. apply resolve_fixed. apply adds_fixed_by_class. Qed.
(* ... and so is the empty registry of a fresh interpreter, whatever the key *)
Lemma adds_fixed_nil bc adds : adds_fixed bc [] adds = true.
Proof.
  unfold adds_fixed. apply forallb_forall. intros ad _. apply forallb_forall. intros fd _.
  destruct (f_kind fd); try reflexivity. cbn. destruct bc; cbn; apply enum_eqb_refl.
Qed.
Lemma resolve_nil bc adds : resolve_adds bc [] adds = adds.
Proof. apply resolve_fixed. apply adds_fixed_nil. Qed.

Section Hist.
  Variable f : facts.
  Variable ftbl : list (string * kv).

  Notation parse_step := (parse_step f ftbl).
  Notation help_step := (help_step f).
  Notation step := (step f ftbl).
  Notation fresh := (fresh f ftbl).
  Notation prep := (prep f ftbl).
  Notation cached := (cached f).
  Notation setup_g := (setup_g f).

  (* the invariant: a cached set-up is THE set-up of the parser's own settings for the dataclasses it covered, its recorded
     subgroup choices and its recorded defaults (conflict resolution, add-argument loop and all) *)
  Definition pinv (p : pstate) : Prop :=
    (p_added p = true -> p_cfgarg p = true) /\
    match p_setup p with
    | None => True
    | Some su => setup_core (p_cfg p) (p_cfg p) (p_cr p) (firstn (su_n su) (p_adds p)) (su_chosen su) (su_fr su) = Ok su
                 /\ su_n su <= List.length (p_adds p)
    end.
  Definition Inv (s : state) : Prop := forall i p, slot_get (st_slots s) i = Some p -> pinv p.

  Lemma Inv_init : Inv init.
  Proof. intros i p H; cbn in H; discriminate. Qed.

  Lemma cached_some p su : cached p = Some su -> p_setup p = Some su.
  Proof. unfold History.cached. destruct (p_setup p); [destruct (setup_cached f)|]; congruence. Qed.

  Lemma res_cfg_own g p : b_spelling f g p = true -> cached p = None -> res_cfg f g p = p_cfg p.
  Proof.
    unfold b_spelling, res_cfg, is_cached. intros H Hc. rewrite Hc in H.
    destruct (reasserts f && reassert_first f); [reflexivity|]. cbn in H. apply cfg_eqb_eq. exact H.
  Qed.
  Lemma build_cfg_own g p : b_spelling f g p = true -> cached p = None -> build_cfg f g p = p_cfg p.
  Proof.
    unfold b_spelling, build_cfg, is_cached. intros H Hc. rewrite Hc in H.
    destruct (reasserts f); [reflexivity|]. cbn in H. apply cfg_eqb_eq. exact H.
  Qed.

  (* under the two set-up clauses, set-up sees exactly the parser's own definition *)
  Lemma setup_in_own g p live args :
    b_spelling f g p = true -> b_registry f g p = true -> cached p = None ->
    setup_in f g p live args = do_setup (p_cfg p) (p_cfg p) (p_cr p) (p_adds p) live args.
  Proof.
    intros Hs Hr Hc. unfold setup_in. rewrite (res_cfg_own g p Hs Hc), (build_cfg_own g p Hs Hc). f_equal.
    unfold b_registry, is_cached in Hr. rewrite Hc in Hr.
    destruct (reg_by_class f) eqn:Hk; [apply resolve_by_class|].
    cbn in Hr. apply resolve_fixed. exact Hr.
  Qed.

  Lemma setup_core_fields gr gb cr adds ch live su :
    setup_core gr gb cr adds ch live = Ok su -> su_chosen su = ch /\ su_fr su = live /\ su_n su = List.length adds.
  Proof.
    unfold setup_core. destruct (pre gr cr adds); [|discriminate].
    destruct (resolve_fws gr cr _); [|discriminate].
    destruct (str_nodupb _); [|discriminate]. intro H. injection H as <-. repeat split.
  Qed.

  Lemma do_setup_inv g cr adds live args su :
    do_setup g g cr adds live args = Ok su ->
    setup_core g g cr (firstn (su_n su) adds) (su_chosen su) (su_fr su) = Ok su /\ su_n su <= List.length adds.
  Proof.
    unfold do_setup. destruct (pre g cr adds) as [fs1|e]; [|discriminate].
    destruct (choose g (pf_of fs1) adds args) as [ch|e]; [|discriminate].
    intro H. destruct (setup_core_fields _ _ _ _ _ _ _ H) as (-> & -> & ->).
    rewrite firstn_all. split; [exact H | apply Nat.le_refl].
  Qed.

  (* what a failed set-up leaves satisfies the invariant: the parser as it was, or (flag set first) an empty set-up *)
  Lemma after_failure_inv p live :
    pinv p ->
    match after_failure f p live with
    | None => True
    | Some su => setup_core (p_cfg p) (p_cfg p) (p_cr p) (firstn (su_n su) (p_adds p)) (su_chosen su) (su_fr su) = Ok su
                 /\ su_n su <= List.length (p_adds p)
    end.
  Proof.
    intros [_ Hs]. unfold after_failure. destruct (done_after_work f); [exact Hs|].
    cbn [stuck_setup su_n su_chosen su_fr firstn]. split; [|apply Nat.le_0_l].
    unfold setup_core, pre, resolve_fws, resolve_gen, loop_gen. cbn [top_fws flat_map].
    destruct (p_cr p); reflexivity.
  Qed.

  Lemma added_ok p : pinv p -> (p_added p || p_cfgarg p) = true -> p_cfgarg p = true.
  Proof.
    intros [Ha _] H. destruct (p_added p) eqn:E; [apply Ha; reflexivity | exact H].
  Qed.

  Ltac psimpl := unfold pinv; cbn [fst snd p_cfg p_cr p_cfgarg p_adds p_setup p_cnt p_added p_live p_cfgdef].

  (* a parse keeps the invariant of its own parser *)
  Lemma parse_step_pinv g p argv :
    pinv p -> b_spelling f g p = true -> b_registry f g p = true -> pinv (snd (fst (parse_step g p argv))).
  Proof.
    intros Hp Hb Hr. pose proof Hp as [Ha Hs]. unfold History.parse_step.
    destruct (prep g p argv) as [args [rl live1]].
    destruct rl as [u|e]; [|psimpl; split; [exact Ha | exact Hs]].
    destruct (p_cfgarg p && p_added p && cfgarg_every_parse f); [psimpl; split; [exact Ha | exact Hs]|].
    destruct (cached p) as [su|] eqn:Hc.
    - apply cached_some in Hc.
      destruct (History.parse_acts true (main_acts (p_added p || p_cfgarg p) su) _ args) as [r cnt1].
      psimpl. split; [intro H; exact (added_ok p Hp H)|]. rewrite Hc in Hs. exact Hs.
    - rewrite (setup_in_own g p live1 args Hb Hr Hc).
      destruct (do_setup (p_cfg p) (p_cfg p) (p_cr p) (p_adds p) live1 args) as [su|e] eqn:Hd.
      + destruct (History.parse_acts true (main_acts (p_added p || p_cfgarg p) su) _ args) as [r cnt1].
        psimpl. split; [intro H; exact (added_ok p Hp H)|]. eapply do_setup_inv; exact Hd.
      + psimpl. split; [intro H; exact (added_ok p Hp H) | exact (after_failure_inv p live1 Hp)].
  Qed.

  Lemma help_step_pinv g p :
    pinv p -> b_spelling f g p = true -> b_registry f g p = true -> pinv (snd (fst (help_step g p))).
  Proof.
    intros Hp Hb Hr. pose proof Hp as [Ha Hs]. unfold History.help_step.
    destruct (cached p) as [su|] eqn:Hc.
    - apply cached_some in Hc. psimpl. split; [exact Ha|]. rewrite Hc in Hs. exact Hs.
    - rewrite (setup_in_own g p (p_live p) [] Hb Hr Hc).
      destruct (do_setup (p_cfg p) (p_cfg p) (p_cr p) (p_adds p) (p_live p) []) as [su|e] eqn:Hd; psimpl.
      + split; [exact Ha|]. eapply do_setup_inv; exact Hd.
      + split; [exact Ha | exact (after_failure_inv p (p_live p) Hp)].
  Qed.

  Lemma set_inv s g i p' : Inv s -> pinv p' -> Inv (mkst g (slot_set (st_slots s) i p')).
  Proof.
    intros HI Hp j q. cbn. destruct (Nat.eq_dec i j) as [<-|Hne].
    - rewrite slot_get_set_same. intro H; injection H as <-. exact Hp.
    - rewrite slot_get_set_other by exact Hne. apply HI.
  Qed.

  (* every operation keeps the invariant: it touches only its own parser's state (and the global settings,
     about which the invariant says nothing) *)
  Lemma step_inv s o : Inv s -> op_benign f ftbl s o = true -> Inv (fst (step s o)).
  Proof.
    intros HI Hb. destruct o as [i c cr ca | i d dest | i argv | i | i]; cbn [History.step].
    - cbn. apply set_inv; [exact HI|]. split; [cbn; discriminate | cbn; exact I].
    - destruct (slot_get (st_slots s) i) as [p|] eqn:Hg; [|exact HI]. cbn.
      pose proof (HI i p Hg) as [Ha Hs].
      apply set_inv; [exact HI|]. split; [exact Ha|]. cbn.
      destruct (p_setup p) as [su|]; [|exact I]. destruct Hs as (Hs & Hn).
      assert (Hfn : firstn (su_n su) (p_adds p ++ [(d, dest)])%list = firstn (su_n su) (p_adds p)).
      { rewrite firstn_app. replace (su_n su - List.length (p_adds p)) with 0 by lia.
        cbn. rewrite app_nil_r. reflexivity. }
      rewrite Hfn. split; [exact Hs|]. rewrite app_length. cbn. lia.
    - destruct (slot_get (st_slots s) i) as [p|] eqn:Hg; [|exact HI].
      cbn in Hb. rewrite Hg in Hb.
      assert (Hsp : b_spelling f (st_g s) p = true /\ b_registry f (st_g s) p = true).
      { destruct (b_spelling f (st_g s) p); [|discriminate].
        destruct (b_registry f (st_g s) p); [split; reflexivity | discriminate]. }
      destruct Hsp as [Hsp Hrg].
      pose proof (parse_step_pinv (st_g s) p argv (HI i p Hg) Hsp Hrg) as Hp'.
      destruct (parse_step (st_g s) p argv) as [[g' p'] r]. cbn in *.
      apply set_inv; assumption.
    - destruct (slot_get (st_slots s) i) as [p|] eqn:Hg; [|exact HI].
      cbn in Hb. rewrite Hg in Hb.
      apply andb_true_iff in Hb as [Hb Hrg].
      pose proof (help_step_pinv (st_g s) p (HI i p Hg) Hb Hrg) as Hp'.
      destruct (help_step (st_g s) p) as [[g' p'] ho]. cbn in *.
      apply set_inv; assumption.
    - destruct (slot_get (st_slots s) i); exact HI.
  Qed.

  (* ---------- a benign parse answers what a fresh interpreter answers ---------- *)
  Lemma cached_new d : cached (new_p d) = None.
  Proof. reflexivity. Qed.

  Lemma prep_new g p argv :
    b_defaults f p = true -> b_rootmode f g p = true -> b_wrappers f p = true ->
    prep g p argv = prep (mkglob (p_cfg p) []) (new_p (def_of p)) argv.
  Proof.
    unfold b_defaults, b_rootmode, b_wrappers, History.prep.
    cbn [new_p def_of p_live p_cfgarg p_adds p_cfg df_cfgarg df_adds df_cfg].
    intros H Hm Hw.
    assert (Hl : (if defaults_persist f then p_live p else []) = (if defaults_persist f then @nil (string * string) else [])).
    { destruct (defaults_persist f); [|reflexivity]. cbn in H. destruct (p_live p); [reflexivity | discriminate]. }
    rewrite Hl.
    destruct (p_cfgarg p) eqn:Hca; [|reflexivity].
    cbn [negb orb] in Hm, Hw.
    assert (Hr : reroots f g p = reroots f (mkglob (p_cfg p) []) (new_p (def_of p))).
    { unfold reroots, nwr. rewrite cached_new. cbn [new_p def_of p_adds p_cfg df_adds df_cfg gl_cfg].
      apply Nat.eqb_eq in Hw. fold (nwr f p). rewrite Hw. f_equal.
      destruct (defaults_own_mode f); [reflexivity|]. cbn in Hm.
      destruct (nm (gl_cfg g)), (nm (p_cfg p)); try reflexivity; discriminate. }
    rewrite Hr. reflexivity.
  Qed.

  Lemma if_same (b : bool) (x : counters) : (if b then x else x) = x.
  Proof. destruct b; reflexivity. Qed.

  Lemma parse_obs_fresh g p argv :
    pinv p ->
    b_spelling f g p = true -> b_registry f g p = true -> b_cfgarg f p = true -> b_tuple f p = true ->
    b_frozen f ftbl g p argv = true -> b_defaults f p = true -> b_cfgattr f p = true ->
    b_rootmode f g p = true -> b_wrappers f p = true ->
    snd (parse_step g p argv) = fresh (def_of p) argv.
  Proof.
    intros Hp Hsp Hrg Hcf Htu Hfr Hde Hca Hrm Hwr. pose proof Hp as [Ha Hs].
    unfold History.fresh. change (df_cfg (def_of p)) with (p_cfg p).
    set (q := new_p (def_of p)). set (g0 := mkglob (p_cfg p) []).
    assert (Hprep : prep g0 q argv = prep g p argv) by (symmetry; apply prep_new; assumption).
    assert (Hq1 : p_cfg q = p_cfg p) by reflexivity.
    assert (Hq2 : p_cfgarg q = p_cfgarg p) by reflexivity.
    assert (Hq8 : p_cr q = p_cr p) by reflexivity.
    assert (Hq3 : p_adds q = p_adds p) by reflexivity.
    assert (Hq4 : p_setup q = None) by reflexivity.
    assert (Hq5 : p_cnt q = []) by reflexivity.
    assert (Hq6 : p_added q = false) by reflexivity.
    assert (Hq7 : cached q = None) by reflexivity.
    assert (Hq9 : cfg_default f q argv = cfg_default f p argv).
    { unfold cfg_default. rewrite Hq6. cbn [andb]. unfold b_cfgattr in Hca.
      destruct (cfgarg_refreshed f); [rewrite andb_false_r; reflexivity|].
      cbn in Hca. apply negb_true_iff in Hca. rewrite Hca. reflexivity. }
    (* the fresh interpreter's set-up sees the definition itself: its registry is empty, the settings are its own *)
    assert (Hown : forall live args, setup_in f g0 q live args
                                     = do_setup (p_cfg p) (p_cfg p) (p_cr p) (p_adds p) live args).
    { intros live args. unfold setup_in, res_cfg, build_cfg. rewrite Hq1, Hq8, Hq3. cbn [g0 gl_cfg gl_reg].
      rewrite resolve_nil. destruct (reasserts f && reassert_first f), (reasserts f); reflexivity. }
    unfold History.parse_step.
    rewrite Hprep, Hq1, Hq2, Hq8, Hq3, Hq4, Hq5, Hq9, Hq6, Hq7.
    unfold b_frozen in Hfr.
    destruct (prep g p argv) as [args [rl live1]].
    rewrite (Hown live1 args).
    clearbody q g0. clear Hprep Hq1 Hq2 Hq8 Hq3 Hq4 Hq5 Hq6 Hq7 Hq9 Hown.
    assert (Hc0 : (if tuple_counter_persists f then p_cnt p else []) = []).
    { unfold b_tuple in Htu. destruct (tuple_counter_persists f); [|reflexivity].
      cbn in Htu. destruct (p_cnt p); [reflexivity | discriminate]. }
    rewrite Hc0.
    rewrite (if_same (tuple_counter_persists f) (@nil (string * nat))).
    destruct rl as [u|e]; [|reflexivity].
    unfold b_cfgarg in Hcf. apply negb_true_iff in Hcf. rewrite Hcf.
    rewrite andb_false_r. cbn [andb].
    assert (Hadd : (p_added p || p_cfgarg p) = (false || p_cfgarg p)).
    { cbn. destruct (p_added p) eqn:E; [rewrite (Ha eq_refl); reflexivity | reflexivity]. }
    rewrite Hadd.
    destruct (cached p) as [su|] eqn:Hc.
    - (* cached set-up: it is the one this call would have made *)
      apply cached_some in Hc. rewrite Hc in Hs. destruct Hs as (Hcore & Hle).
      apply andb_true_iff in Hfr as [Hfr Hlive]. apply andb_true_iff in Hfr as [Hn Hch].
      apply Nat.eqb_eq in Hn. apply kv_eqb_eq in Hlive.
      assert (Hdo : do_setup (p_cfg p) (p_cfg p) (p_cr p) (p_adds p) live1 args = Ok su).
      { unfold do_setup. destruct (pre (p_cfg p) (p_cr p) (p_adds p)) as [fs1|e]; [|discriminate].
        destruct (choose (p_cfg p) (pf_of fs1) (p_adds p) args) as [ch|e]; [|discriminate].
        apply kv_eqb_eq in Hch. subst ch live1. rewrite Hn, firstn_all in Hcore. exact Hcore. }
      rewrite Hdo.
      destruct (History.parse_acts true (main_acts (false || p_cfgarg p) su) [] args) as [r cnt1].
      reflexivity.
    - rewrite (setup_in_own g p live1 args Hsp Hrg Hc).
      destruct (do_setup (p_cfg p) (p_cfg p) (p_cr p) (p_adds p) live1 args) as [su|e]; [|reflexivity].
      destruct (History.parse_acts true (main_acts (false || p_cfgarg p) su) [] args) as [r cnt1].
      reflexivity.
  Qed.

  (* ---------- the history theorem ---------- *)
  Lemma history_from : forall ops s k i argv p,
    Inv s -> benign_from f ftbl s ops = true ->
    nth_error ops k = Some (Parse i argv) ->
    slot_get (st_slots (run_ops f ftbl s (firstn k ops))) i = Some p ->
    nth_error (obs_from f ftbl s ops) k = Some (OParse (fresh (def_of p) argv)).
  Proof.
    induction ops as [|o r IH]; intros s k i argv p HI Hb Hk Hg.
    - destruct k; discriminate.
    - cbn [benign_from] in Hb. apply andb_true_iff in Hb as [Hb1 Hb2].
      destruct k as [|k].
      + cbn in Hk. injection Hk as ->. cbn [firstn History.run_ops] in Hg.
        cbn [obs_from nth_error]. f_equal.
        cbn [History.step]. rewrite Hg.
        cbn [op_benign] in Hb1. rewrite Hg in Hb1.
        repeat match goal with H : (_ && _)%bool = true |- _ => apply andb_true_iff in H as [? ?] end.
        match goal with
        | A : b_spelling f _ p = true, B : b_registry f _ p = true, C : b_cfgarg f p = true, D : b_tuple f p = true,
          E : b_frozen f ftbl _ p argv = true, F : b_defaults f p = true, G : b_cfgattr f p = true,
          H : b_rootmode f _ p = true, I : b_wrappers f p = true |- _ =>
            pose proof (parse_obs_fresh (st_g s) p argv (HI i p Hg) A B C D E F G H I) as He
        end.
        destruct (parse_step (st_g s) p argv) as [[g' p'] rr]. cbn in He. cbn. rewrite He. reflexivity.
      + cbn [nth_error] in Hk. cbn [firstn History.run_ops] in Hg. cbn [obs_from nth_error].
        eapply IH; [apply step_inv; eassumption | exact Hb2 | exact Hk | exact Hg].
  Qed.

  Theorem history_partial : forall ops k i argv d,
    benign f ftbl ops = true ->
    nth_error ops k = Some (Parse i argv) ->
    def_at f ftbl ops k i = Some d ->
    nth_error (obs_from f ftbl init ops) k = Some (OParse (fresh d argv)).
  Proof.
    intros ops k i argv d Hb Hk Hd. unfold def_at in Hd.
    destruct (slot_get (st_slots (run_ops f ftbl init (firstn k ops))) i) as [p|] eqn:Hg; [|discriminate].
    cbn in Hd. injection Hd as <-.
    eapply history_from; [apply Inv_init | exact Hb | exact Hk | exact Hg].
  Qed.

  (* a parse on an empty slot is not a parse of any parser: no claim, and the machine says so *)
  Lemma no_parser_no_def : forall ops k i argv,
    nth_error ops k = Some (Parse i argv) -> def_at f ftbl ops k i = None ->
    forall s, s = run_ops f ftbl init (firstn k ops) -> snd (step s (Parse i argv)) = ONoParser.
  Proof.
    intros ops k i argv _ Hd s ->. unfold def_at in Hd. cbn [History.step].
    destruct (slot_get _ i); [discriminate | reflexivity].
  Qed.

  (* with the done-flag assigned LAST, a parser becomes "set up" only through a set-up that succeeded:
     a set-up that raises leaves the parser as it was, and the next call redoes it *)
  Lemma failed_setup_leaves_parser g p argv :
    done_after_work f = true -> p_setup p = None ->
    match p_setup (snd (fst (parse_step g p argv))) with
    | None => True
    | Some su => exists live args, setup_in f g p live args = Ok su
    end.
  Proof.
    intros Hd Hn. assert (Hc : cached p = None) by (unfold History.cached; rewrite Hn; reflexivity).
    unfold History.parse_step. destruct (prep g p argv) as [args [rl live1]].
    destruct rl as [u|e]; [|psimpl; rewrite Hn; exact I].
    destruct (p_cfgarg p && p_added p && cfgarg_every_parse f); [psimpl; rewrite Hn; exact I|].
    rewrite Hc.
    destruct (setup_in f g p live1 args) as [su|e] eqn:Hdo.
    - destruct (History.parse_acts true (main_acts (p_added p || p_cfgarg p) su) _ args) as [r cnt1].
      psimpl. exists live1, args. exact Hdo.
    - psimpl. unfold after_failure. rewrite Hd, Hn. exact I.
  Qed.

  Lemma failed_help_leaves_parser g p :
    done_after_work f = true -> p_setup p = None ->
    match p_setup (snd (fst (help_step g p))) with
    | None => True
    | Some su => setup_in f g p (p_live p) [] = Ok su
    end.
  Proof.
    intros Hd Hn. assert (Hc : cached p = None) by (unfold History.cached; rewrite Hn; reflexivity).
    unfold History.help_step. rewrite Hc.
    destruct (setup_in f g p (p_live p) []) as [su|e] eqn:Hdo; psimpl.
    - reflexivity.
    - unfold after_failure. rewrite Hd, Hn. exact I.
  Qed.

  (* keyed by the class object, the registry is unobservable: whatever it holds, a parse answers the same and leaves
     its parser in the same state *)
  Lemma setup_in_reg_irrelevant c r1 r2 p live args :
    reg_by_class f = true ->
    setup_in f (mkglob c r1) p live args = setup_in f (mkglob c r2) p live args.
  Proof. intro H. unfold setup_in. rewrite H, !resolve_by_class. reflexivity. Qed.

  Lemma registry_unobservable c r1 r2 p argv :
    reg_by_class f = true ->
    snd (parse_step (mkglob c r1) p argv) = snd (parse_step (mkglob c r2) p argv)
    /\ snd (fst (parse_step (mkglob c r1) p argv)) = snd (fst (parse_step (mkglob c r2) p argv)).
  Proof.
    intro H. unfold History.parse_step.
    change (prep (mkglob c r1) p argv) with (prep (mkglob c r2) p argv).
    destruct (prep (mkglob c r2) p argv) as [args [rl live1]].
    destruct rl as [u|e]; [|split; reflexivity].
    destruct (p_cfgarg p && p_added p && cfgarg_every_parse f); [split; reflexivity|].
    rewrite (setup_in_reg_irrelevant c r1 r2 p live1 args H).
    destruct (cached p) as [su|].
    - destruct (History.parse_acts true (main_acts (p_added p || p_cfgarg p) su) _ args) as [r cnt1].
      split; reflexivity.
    - destruct (setup_in f (mkglob c r2) p live1 args) as [su|e]; [|split; reflexivity].
      destruct (History.parse_acts true (main_acts (p_added p || p_cfgarg p) su) _ args) as [r cnt1].
      split; reflexivity.
  Qed.

  (* refreshed, the default of the help-only --config_path action - the `config_path` attribute of the result - is a
     function of THIS call's argv alone *)
  Lemma cfg_attr_of_this_call p argv : cfgarg_refreshed f = true -> cfg_default f p argv = cfg_attr argv.
  Proof. intro H. unfold cfg_default. rewrite H, andb_false_r. reflexivity. Qed.

  (* every clause of `benign` is guarded by its switch: with all five repaired, every history is benign *)
  Lemma benign_when_repaired : all_repaired f = true -> forall ops s, benign_from f ftbl s ops = true.
  Proof.
    unfold all_repaired. intro H.
    repeat match goal with H : (_ && _)%bool = true |- _ => apply andb_true_iff in H as [? ?] end.
    repeat match goal with H : negb _ = true |- _ => apply negb_true_iff in H end.
    induction ops as [|o r IH]; intro s; [reflexivity|]. cbn [benign_from]. rewrite IH, andb_true_r.
    assert (Hnc : forall p, cached p = None).
    { intro p. unfold History.cached.
      match goal with H : setup_cached f = false |- _ => rewrite H end. destruct (p_setup p); reflexivity. }
    assert (Hw : forall p, nwr f p = List.length (p_adds p)) by (intro p; unfold nwr; rewrite Hnc; reflexivity).
    destruct o as [i c cr ca | i d dest | i argv | i | i]; cbn [op_benign]; try reflexivity.
    - destruct (slot_get (st_slots s) i) as [p|]; [|reflexivity].
      unfold b_spelling, b_registry, b_cfgarg, b_tuple, b_frozen, b_defaults, b_cfgattr, b_rootmode, b_wrappers.
      rewrite (Hnc p), (Hw p), Nat.eqb_refl.
      repeat match goal with H : _ f = _ |- _ => rewrite H end.
      cbn. rewrite ?andb_false_r, ?orb_true_r. reflexivity.
    - destruct (slot_get (st_slots s) i) as [p|]; [|reflexivity].
      unfold b_spelling, b_registry. repeat match goal with H : _ f = _ |- _ => rewrite H end. reflexivity.
  Qed.
End Hist.

(* ---------- the unrestricted statement, and its refutation per defect ---------- *)
Definition history_full (f : facts) (ftbl : list (string * kv)) : Prop :=
  forall ops k i argv d,
    nth_error ops k = Some (Parse i argv) ->
    def_at f ftbl ops k i = Some d ->
    nth_error (obs_from f ftbl init ops) k = Some (OParse (fresh f ftbl d argv)).

Theorem history_full_when_repaired f ftbl : all_repaired f = true -> history_full f ftbl.
Proof.
  intros H ops k i argv d Hk Hd. apply history_partial with (i := i); try assumption.
  unfold benign. apply benign_when_repaired. exact H.
Qed.

(* concrete definitions used by the witnesses *)
Definition K1 := mkdc "K1" [mkf "my_x" FInt "int:1"].
Definition K2 := mkdc "K2" [mkf "my_x" FInt "int:1"; mkf "name" FStr "str:d"].
Definition K3 := mkdc "K3" [mkf "my_x" FInt "int:1"; mkf "pair" FTup "tuple(int:0,str:z)"].
Definition K4 := mkdc "K4" [mkf "my_x" FInt "int:1";
  mkf "model" (FSub [mkalt "ma" "MA" "lr_a" "int:3"; mkalt "mb" "MB" "size_b" "int:5"] "ma") ""].
Definition L1 := mkdc "L1" [mkf "other_y" FInt "int:2"].
Definition L3 := mkdc "L3" [mkf "my_x" FInt "int:5"].
Definition FILES : list (string * kv) :=
  [("c1.json", [("a.my_x", "int:7")]); ("c2.json", [("a.my_x", "int:8")]); ("r1.json", [("my_x", "int:17")])].
Definition cfg_noroot : cfg := mkcfg DUnderscore GFlat NWithoutRoot.
Definition cfg_dash : cfg := mkcfg DDash GFlat NDefault.
Definition cfg_nested : cfg := mkcfg DUnderscore GNested NDefault.

(* a witness refutes history_full: operation k is a parse whose answer differs from the fresh answer *)
Fixpoint list_eq_strb (a b : list string) : bool :=
  match a, b with [] , [] => true | x :: r, y :: s => String.eqb x y && list_eq_strb r s | _, _ => false end.
Definition witness (f : facts) (ftbl : list (string * kv)) (ops : list op) (k i : nat) (argv : list string) : bool :=
  match nth_error ops k, def_at f ftbl ops k i, nth_error (obs_from f ftbl init ops) k with
  | Some (Parse j a), Some d, Some (OParse r) =>
      Nat.eqb i j && list_eq_strb a argv && negb (vals_eqb r (fresh f ftbl d argv))
  | _, _, _ => false
  end.

Lemma list_eq_strb_eq a : forall b, list_eq_strb a b = true -> a = b.
Proof.
  induction a as [|x r IH]; intros [|y s] H; cbn in H; try discriminate; [reflexivity|].
  apply andb_true_iff in H as [H1 H2]. apply String.eqb_eq in H1. subst. f_equal. apply IH; exact H2.
Qed.

Lemma kv_eqb_refl a : kv_eqb a a = true.
Proof.
  induction a as [|[k v] r IH]; [reflexivity|]. cbn. unfold pair_eqb. cbn.
  rewrite !String.eqb_refl, IH. reflexivity.
Qed.

Lemma vals_eqb_refl v : vals_eqb v v = true.
Proof.
  destruct v as [x|e]; cbn; [apply kv_eqb_refl|].
  destruct e; cbn; try reflexivity; [apply Nat.eqb_refl | apply String.eqb_refl].
Qed.

Lemma witness_refutes f ftbl ops k i argv : witness f ftbl ops k i argv = true -> ~ history_full f ftbl.
Proof.
  unfold witness. intros H HF.
  destruct (nth_error ops k) as [[| |j a| |]|] eqn:Hk; try discriminate.
  destruct (def_at f ftbl ops k i) as [d|] eqn:Hd; try discriminate.
  destruct (nth_error (obs_from f ftbl init ops) k) as [[| | |r|e]|] eqn:Ho; try discriminate.
  apply andb_true_iff in H as [H Hne]. apply andb_true_iff in H as [Hi Ha].
  apply Nat.eqb_eq in Hi. subst j. apply list_eq_strb_eq in Ha. subst a.
  specialize (HF ops k i argv d Hk Hd). rewrite Ho in HF. injection HF as ->.
  rewrite vals_eqb_refl in Hne. discriminate.
Qed.

Ltac refute_with ops k i argv :=
  apply witness_refutes with ops k i argv; vm_compute; reflexivity.

(* (#10) constructing another parser overwrites the spelling the first one will be set up with *)
Definition ops_spelling : list op :=
  [Construct 0 cfg_dash CRAuto false; AddArgs 0 K1 "a"; Construct 1 init_cfg CRAuto false; Parse 0 ["--my-x"; "4"]].
Theorem refuted_spelling : forall f, reasserts f = false -> ~ history_full f FILES.
Proof.
  intros [r rf dm c s t d w x k] H; cbn in H; subst r.
  destruct c, s, t, d, w, k, x, rf, dm; refute_with ops_spelling 3 0 ["--my-x"; "4"].
Qed.

(* (#11) the second parse of a parser with a config-path argument re-adds --config_path *)
Definition ops_cfgarg : list op :=
  [Construct 0 init_cfg CRAuto true; AddArgs 0 K1 "a"; Parse 0 []; Parse 0 []].
Theorem refuted_cfgarg : forall f, cfgarg_every_parse f = true -> ~ history_full f FILES.
Proof.
  intros [r rf dm c s t d w x k] H; cbn in H; subst c.
  destruct r, s, t, d, w, k, x, rf, dm; refute_with ops_cfgarg 3 0 (@nil string).
Qed.

(* (#12) the tuple converter's counter is past the item types on the second parse *)
Definition ops_tuple : list op :=
  [Construct 0 init_cfg CRAuto false; AddArgs 0 K3 "a"; Parse 0 ["--pair"; "3"; "x"]; Parse 0 ["--pair"; "3"; "x"]].
Theorem refuted_tuple : forall f, setup_cached f = true -> tuple_counter_persists f = true -> ~ history_full f FILES.
Proof.
  intros [r rf dm c s t d w x k] H1 H2; cbn in H1, H2; subst s t.
  destruct r, c, d, w, k, x, rf, dm; refute_with ops_tuple 3 0 ["--pair"; "3"; "x"].
Qed.

(* (#13) the subgroup choice is frozen by the first argv ... *)
Definition ops_frozen_argv : list op :=
  [Construct 0 init_cfg CRAuto false; AddArgs 0 K4 "a"; Parse 0 ["--model"; "mb"]; Parse 0 ["--model"; "ma"]].
Theorem refuted_frozen_by_argv : forall f, setup_cached f = true -> ~ history_full f FILES.
Proof.
  intros [r rf dm c s t d w x k] H; cbn in H; subst s.
  destruct r, c, t, d, w, k, x, rf, dm; refute_with ops_frozen_argv 3 0 ["--model"; "ma"].
Qed.
(* ... or by print_help() *)
Definition ops_frozen_help : list op :=
  [Construct 0 init_cfg CRAuto false; AddArgs 0 K4 "a"; PrintHelp 0; Parse 0 ["--model"; "mb"]].
Theorem refuted_frozen_by_help : forall f, setup_cached f = true -> ~ history_full f FILES.
Proof.
  intros [r rf dm c s t d w x k] H; cbn in H; subst s.
  destruct r, c, t, d, w, k, x, rf, dm; refute_with ops_frozen_help 3 0 ["--model"; "mb"].
Qed.

(* (#5') defaults read from a config file by a call that failed are still there in the next call *)
Definition ops_defaults : list op :=
  [Construct 0 init_cfg CRAuto true; AddArgs 0 K1 "a"; Parse 0 ["--config_path"; "c1.json"; "nofile.json"]; Parse 0 []].
Theorem refuted_defaults : forall f, defaults_persist f = true -> ~ history_full f FILES.
Proof.
  intros [r rf dm c s t d w x k] H; cbn in H; subst d.
  destruct r, c, s, t, w, k, x, rf, dm; refute_with ops_defaults 3 0 (@nil string).
Qed.

(* (seeded C08-03) the done-flag set before the work: a set-up that raised (invalid subgroup key) is never redone *)
Definition ops_failed_setup : list op :=
  [Construct 0 init_cfg CRAuto false; AddArgs 0 K4 "a"; Parse 0 ["--model"; "zz"]; Parse 0 []].
Theorem refuted_failed_setup : forall f, setup_cached f = true -> done_after_work f = false -> ~ history_full f FILES.
Proof.
  intros [r rf dm c s t d w x k] H1 H2; cbn in H1, H2; subst s w.
  destruct r, c, t, d, k, x, rf, dm; refute_with ops_failed_setup 3 0 (@nil string).
Qed.
(* ... likewise a ConflictResolutionError (NONE mode, two dataclasses sharing a field name): raised once, then gone *)
Definition ops_failed_setup_cre : list op :=
  [Construct 0 init_cfg CRNone false; AddArgs 0 K1 "a"; AddArgs 0 L3 "b"; Parse 0 []; Parse 0 []].
Theorem refuted_failed_setup_cre : forall f, setup_cached f = true -> done_after_work f = false -> ~ history_full f FILES.
Proof.
  intros [r rf dm c s t d w x k] H1 H2; cbn in H1, H2; subst s w.
  destruct r, c, t, d, k, x, rf, dm; refute_with ops_failed_setup_cre 4 0 (@nil string).
Qed.

(* (seeded C08-04) the registry keyed by the qualified NAME: a second class with its own `Mode` enum is parsed with
   the first class's function - SLOW comes back with the first enum's value, tagged as not the declared class *)
Definition MODE1 : enumdef := mkenum 1 "c08cls.Mode" [("FAST", "1"); ("SLOW", "2")].
Definition MODE2 : enumdef := mkenum 2 "c08cls.Mode" [("SLOW", "1"); ("SAFE", "2")].
Definition E1 := mkdc "E1" [mkf "my_x" FInt "int:1"; mkf "modes" (FEnum EList MODE1 false) "list()"].
Definition E2 := mkdc "E2" [mkf "my_x" FInt "int:1"; mkf "modes" (FEnum EList MODE2 false) "list()"].
Definition ops_registry : list op :=
  [Construct 0 init_cfg CRAuto false; AddArgs 0 E1 "a"; Parse 0 ["--modes"; "FAST"; "SLOW"];
   Construct 1 init_cfg CRAuto false; AddArgs 1 E2 "a"; Parse 1 ["--modes"; "SLOW"]].
Theorem refuted_registry : forall f, reg_by_class f = false -> ~ history_full f FILES.
Proof.
  intros [r rf dm c s t d w x k] H; cbn in H; subst k.
  destruct r, c, s, t, d, w, x, rf, dm; refute_with ops_registry 5 1 ["--modes"; "SLOW"].
Qed.

(* (0277e53) the help-only --config_path action keeps the default of the call that added it: the `config_path` attribute of
   a later result is the FIRST call's *)
Definition ops_cfgattr : list op :=
  [Construct 0 init_cfg CRAuto true; AddArgs 0 K1 "a"; Parse 0 ["--config_path"; "c1.json"; "--my_x"; "3"];
   Parse 0 ["--my_x"; "3"]].
Theorem refuted_cfgattr : forall f, cfgarg_refreshed f = false -> ~ history_full f FILES.
Proof.
  intros [r rf dm c s t d w x k] H; cbn in H; subst x.
  destruct r, c, s, t, d, w, k, rf, dm; refute_with ops_cfgattr 3 0 ["--my_x"; "3"].
Qed.

(* (seeded C03-06) the re-install of the parser's own settings placed AFTER conflict resolution: the resolver reads the
   settings of the parser constructed last (NESTED: no clash to resolve), the add-argument loop then registers --my_x twice *)
Definition ops_reinstall_late : list op :=
  [Construct 0 init_cfg CRAuto false; AddArgs 0 K2 "a"; AddArgs 0 K2 "b"; Construct 1 cfg_nested CRAuto false; Parse 0 []].
Theorem refuted_reinstall_late : forall f, reasserts f = true -> reassert_first f = false -> ~ history_full f FILES.
Proof.
  intros [r rf dm c s t d w x k] H1 H2; cbn in H1, H2; subst r rf.
  destruct dm, c, s, t, d, w, x, k; refute_with ops_reinstall_late 4 0 (@nil string).
Qed.

(* (seeded C08-06) set_defaults looking at the CLASS-level nested mode: after another parser was constructed, the root-less
   config file of a WITHOUT_ROOT parser is no longer re-rooted under its destination *)
Definition ops_rootmode : list op :=
  [Construct 0 cfg_noroot CRAuto true; AddArgs 0 K2 "a"; Construct 1 init_cfg CRAuto false;
   Parse 0 ["--config_path"; "r1.json"]].
Theorem refuted_rootmode : forall f, defaults_own_mode f = false -> ~ history_full f FILES.
Proof.
  intros [r rf dm c s t d w x k] H; cbn in H; subst dm.
  destruct r, rf, c, s, t, d, w, x, k; refute_with ops_rootmode 3 0 ["--config_path"; "r1.json"].
Qed.
