(* Proofs/ConflictsProofs.v — the conflict resolver (model instantiated with the regenerated facts). *)
From SPV Require Import Base.Str Model.OptStr Gen.FactsConflicts Proofs.OptStrProofs.

Section Generic.
  Variable opts : fw -> list string.

  (* ---------- get_conflict = None  <->  no option string is held twice ---------- *)
  Lemma holders_count o all :
    List.length (holders o all) = count_occ string_dec (map fst all) o.
  Proof.
    unfold holders. induction all as [|[o' i] r IH]; simpl; [reflexivity|].
    destruct (String.eqb o' o) eqn:E.
    - apply String.eqb_eq in E. subst. simpl. destruct (string_dec o o); [now rewrite IH | congruence].
    - apply String.eqb_neq in E. destruct (string_dec o' o); [congruence | exact IH].
  Qed.

  Lemma first_conflict_none tbl all :
    first_conflict tbl all = None ->
    forall o, In o (map fst tbl) -> count_occ string_dec (map fst all) o <= 1.
  Proof.
    induction tbl as [|[o' i] r IH]; simpl; intros H o Hin; [contradiction|].
    destruct (Nat.ltb 1 (List.length (holders o' all))) eqn:L; [discriminate|].
    apply Nat.ltb_ge in L. destruct Hin as [->|Hin].
    - now rewrite <- holders_count.
    - now apply IH.
  Qed.

  Lemma first_conflict_some tbl all o ids :
    first_conflict tbl all = Some (o, ids) ->
    In o (map fst tbl) /\ ids = holders o all /\ 1 < List.length ids.
  Proof.
    induction tbl as [|[o' i] r IH]; simpl; intros H; [discriminate|].
    destruct (Nat.ltb 1 (List.length (holders o' all))) eqn:L.
    - injection H as <- <-. apply Nat.ltb_lt in L. auto.
    - destruct (IH H) as [A [B C]]. auto.
  Qed.

  Lemma map_fst_index_opts fs i : map fst (index_opts opts i fs) = List.concat (map opts fs).
  Proof.
    revert i. induction fs as [|f r IH]; intros i; simpl; [reflexivity|].
    rewrite map_app, map_map, IH. simpl. now rewrite map_id.
  Qed.

  (* no conflict = the registered option strings are pairwise distinct, across and within fields *)
  Theorem no_conflict_nodup fs :
    get_conflict opts fs = None -> NoDup (List.concat (map opts fs)).
  Proof.
    unfold get_conflict. intros H.
    rewrite <- (map_fst_index_opts fs 0).
    apply (NoDup_count_occ string_dec). intros o.
    destruct (in_dec string_dec o (map fst (index_opts opts 0 fs))) as [Hin|Hnin].
    - exact (first_conflict_none _ _ H o Hin).
    - apply (count_occ_not_In string_dec) in Hnin. lia.
  Qed.

  Theorem conflict_is_real fs o ids :
    get_conflict opts fs = Some (o, ids) ->
    In o (List.concat (map opts fs)) /\ 1 < List.length ids.
  Proof.
    unfold get_conflict. intros H. destruct (first_conflict_some _ _ _ _ H) as [A [_ C]].
    rewrite map_fst_index_opts in A. auto.
  Qed.

  (* ---------- update / frame ---------- *)
  Definition shape (f : fw) : fw := set_pfx f "".

  Lemma update_shape fs i f' :
    shape f' = shape (nth_fw fs i) -> map shape (update fs i f') = map shape fs.
  Proof.
    revert i. induction fs as [|x r IH]; intros i H; destruct i; simpl in *; try reflexivity.
    - now rewrite H.
    - f_equal. apply IH. exact H.
  Qed.

  Lemma update_Forall (P : fw -> Prop) fs i f' : Forall P fs -> P f' -> Forall P (update fs i f').
  Proof.
    revert i. induction fs as [|x r IH]; intros i HF Hf; destruct i; simpl; auto.
    - inversion HF; subst. constructor; assumption.
    - inversion HF; subst. constructor; auto.
  Qed.

  Lemma nth_fw_Forall (P : fw -> Prop) fs i : Forall P fs -> P (mkfw [] "" "" [] false) -> P (nth_fw fs i).
  Proof.
    intros HF Hd. unfold nth_fw. destruct (nth_in_or_default i fs (mkfw [] "" "" [] false)) as [Hin| ->]; [|exact Hd].
    rewrite Forall_forall in HF. now apply HF.
  Qed.
End Generic.

(* ====================================================================== *)
(* The instantiated resolver                                              *)
(* ====================================================================== *)
Section Resolver.
  Variable opts : fw -> list string.
  Notation auto_one_g := (auto_one auto_index_gen exhausted_err_gen).
  Notation auto_all_g := (auto_all auto_index_gen exhausted_err_gen).
  Notation fix_auto_g := (fix_auto auto_index_gen exhausted_err_gen skip_first_strict_gen).

  (* a step-invariant that the repair function of the mode preserves lifts to the whole loop *)
  Lemma loop_invariant (P : list fw -> Prop) m :
    (m = CRAuto -> forall fs ids fs', fix_auto_g fs ids = Ok fs' -> P fs -> P fs') ->
    (m = CRExplicit -> forall fs o ids fs', fix_explicit opts fs o ids = Ok fs' -> P fs -> P fs') ->
    forall fuel fs fs', loop_gen opts m fuel fs = Ok fs' -> P fs -> P fs'.
  Proof.
    intros HA HE. unfold loop_gen. induction fuel as [|k IH]; intros fs fs' H HP; simpl in H.
    - destruct (get_conflict opts fs) as [[o ids]|]; [discriminate | now injection H as <-].
    - destruct (get_conflict opts fs) as [[o ids]|] eqn:G; [|now injection H as <-].
      destruct m; [discriminate| |].
      + destruct (fix_explicit opts fs o ids) as [fs1|] eqn:F; [|discriminate].
        destruct k; [discriminate|]. apply (IH fs1 fs' H). exact (HE eq_refl _ _ _ _ F HP).
      + destruct (fix_auto_g fs ids) as [fs1|] eqn:F; [|discriminate].
        destruct k; [discriminate|]. apply (IH fs1 fs' H). exact (HA eq_refl _ _ _ F HP).
  Qed.

  (* (1) success means no conflict is left *)
  Theorem loop_ok_no_conflict m fuel fs fs' :
    loop_gen opts m fuel fs = Ok fs' -> get_conflict opts fs' = None.
  Proof.
    unfold loop_gen. revert fs. induction fuel as [|k IH]; intros fs H; simpl in H.
    - destruct (get_conflict opts fs) as [[o ids]|] eqn:G; [discriminate | injection H as <-; exact G].
    - destruct (get_conflict opts fs) as [[o ids]|] eqn:G; [|injection H as <-; exact G].
      destruct m; [discriminate| |].
      + destruct (fix_explicit opts fs o ids) as [fs1|]; [|discriminate].
        destruct k; [discriminate|]. exact (IH fs1 H).
      + destruct (fix_auto_g fs ids) as [fs1|]; [|discriminate].
        destruct k; [discriminate|]. exact (IH fs1 H).
  Qed.

  Theorem resolve_ok_nodup m fs fs' :
    resolve_gen opts m fs = Ok fs' -> NoDup (List.concat (map opts fs')).
  Proof. unfold resolve_gen. intros H. apply no_conflict_nodup. exact (loop_ok_no_conflict m max_attempts_gen fs fs' H). Qed.

  (* (2) frame: only prefixes change *)
  Lemma auto_one_shape f f' : auto_one_g f = Ok f' -> shape f' = shape f.
  Proof.
    unfold auto_one. destruct (String.eqb (pfx f) (explicit_pfx f)); [discriminate|].
    destruct (Nat.leb _ _); [discriminate|]. intros H. injection H as <-. reflexivity.
  Qed.

  Lemma auto_all_shape ids : forall fs fs', auto_all_g fs ids = Ok fs' -> map shape fs' = map shape fs.
  Proof.
    induction ids as [|i r IH]; intros fs fs' H; simpl in H; [now injection H as <-|].
    destruct (auto_one_g (nth_fw fs i)) as [f1|] eqn:A; [|discriminate].
    rewrite (IH _ _ H). apply update_shape. exact (auto_one_shape _ _ A).
  Qed.

  Lemma fix_auto_shape fs ids fs' : fix_auto_g fs ids = Ok fs' -> map shape fs' = map shape fs.
  Proof.
    unfold fix_auto. destruct (sort_by _ ids) as [|a [|b r]]; try (intros H; now injection H as <-).
    destruct (if skip_first_strict_gen then _ else _); apply auto_all_shape.
  Qed.

  Lemma fold_explicit_shape ids : forall fs,
    map shape (fold_left (fun acc i => update acc i (set_pfx (nth_fw acc i) (explicit_pfx (nth_fw acc i)))) ids fs) = map shape fs.
  Proof.
    induction ids as [|i r IH]; intros fs; simpl; [reflexivity|].
    rewrite IH. apply update_shape. reflexivity.
  Qed.

  Lemma fix_explicit_shape fs o ids fs' : fix_explicit opts fs o ids = Ok fs' -> map shape fs' = map shape fs.
  Proof.
    unfold fix_explicit. destruct (existsb _ ids); [discriminate|].
    destruct (get_conflict opts _) as [[o' x]|]; [destruct (String.eqb o' o); [discriminate|]|];
      intros H; injection H as <-; apply fold_explicit_shape.
  Qed.

  Theorem resolve_frame m fs fs' :
    resolve_gen opts m fs = Ok fs' -> map shape fs' = map shape fs.
  Proof.
    unfold resolve_gen. intros H.
    apply (loop_invariant (fun x => map shape x = map shape fs) m) with (fuel := max_attempts_gen) (fs := fs); auto.
    - intros _ a ids b F E. rewrite <- E. exact (fix_auto_shape _ _ _ F).
    - intros _ a o ids b F E. rewrite <- E. exact (fix_explicit_shape _ _ _ _ F).
  Qed.

  (* (3) NONE raises exactly when a clash exists, and otherwise changes nothing *)
  Theorem none_iff_clash fs :
    resolve_gen opts CRNone fs = match get_conflict opts fs with None => Ok fs | Some _ => Err CRE end.
  Proof.
    unfold resolve_gen, loop_gen.
    assert (E : max_attempts_gen = S (pred max_attempts_gen)) by reflexivity.
    rewrite E. generalize (pred max_attempts_gen) as k. intros k.
    cbn [loop]. destruct (get_conflict opts fs) as [[o ids]|]; reflexivity.
  Qed.

  (* (4) every way set-up can fail is a ConflictResolutionError *)
  Lemma auto_all_err ids : forall fs e, auto_all_g fs ids = Err e -> e = CRE.
  Proof.
    induction ids as [|i r IH]; intros fs e H; simpl in H; [discriminate|].
    destruct (auto_one_g (nth_fw fs i)) as [f1|e1] eqn:A; [exact (IH _ _ H)|].
    injection H as <-. unfold auto_one in A.
    destruct (String.eqb _ _); [now injection A as <-|].
    destruct (Nat.leb _ _); [|discriminate]. injection A as <-. reflexivity.
  Qed.

  Theorem errors_are_CRE m fuel fs e : loop_gen opts m fuel fs = Err e -> e = CRE.
  Proof.
    unfold loop_gen. revert fs. induction fuel as [|k IH]; intros fs H; simpl in H.
    - destruct (get_conflict opts fs) as [[o ids]|]; [now injection H as <- | discriminate].
    - destruct (get_conflict opts fs) as [[o ids]|]; [|discriminate].
      destruct m; [now injection H as <-| |].
      + destruct (fix_explicit opts fs o ids) as [fs1|e1] eqn:F.
        * destruct k; [now injection H as <-|]. exact (IH _ H).
        * injection H as <-. unfold fix_explicit in F. destruct (existsb _ ids); [now injection F as <-|].
          destruct (get_conflict opts _) as [[o' x]|]; [destruct (String.eqb o' o); [now injection F as <-|]|]; discriminate.
      + destruct (fix_auto_g fs ids) as [fs1|e1] eqn:F.
        * destruct k; [now injection H as <-|]. exact (IH _ H).
        * injection H as <-. unfold fix_auto in F.
          destruct (sort_by _ ids) as [|a [|b r]]; try discriminate.
          destruct (if skip_first_strict_gen then _ else _); exact (auto_all_err _ _ _ F).
  Qed.
End Resolver.

(* ====================================================================== *)
(* Prefix shape: AUTO adds lineage words right-to-left, EXPLICIT the whole path *)
(* ====================================================================== *)
Fixpoint dotted (ws : list string) : string :=
  match ws with [] => "" | w :: r => w ++ "." ++ dotted r end.
Definition wordok (w : string) : bool := nodot w && negb (String.eqb w "").

Lemma dotted_cons w r : dotted (w :: r) = w ++ "." ++ dotted r.
Proof. reflexivity. Qed.

Lemma split_dot_dotted ws : forallb wordok ws = true -> split_dot (dotted ws) = (ws ++ [""])%list.
Proof.
  induction ws as [|w r IH]; intros H; [reflexivity|].
  simpl in H. apply andb_true_iff in H as [Hw Hr]. unfold wordok in Hw. apply andb_true_iff in Hw as [Hd _].
  rewrite dotted_cons. unfold split_dot, nodot in *. apply negb_true_iff in Hd.
  change ("." ++ dotted r) with (String "."%char (dotted r)).
  rewrite split_on_app_nodot by exact Hd. simpl. f_equal. apply IH. exact Hr.
Qed.

Lemma words_dotted ws : forallb wordok ws = true -> words (dotted ws) = ws.
Proof.
  intros H. unfold words. rewrite split_dot_dotted by exact H.
  rewrite filter_app. simpl. rewrite app_nil_r.
  induction ws as [|w r IH]; [reflexivity|].
  simpl in H |- *. apply andb_true_iff in H as [Hw Hr]. unfold wordok in Hw. apply andb_true_iff in Hw as [_ Hn].
  rewrite Hn. f_equal. apply IH. exact Hr.
Qed.

Lemma join_dot_dotted ws : ws <> [] -> join_dot ws ++ "." = dotted ws.
Proof.
  induction ws as [|w r IH]; intros H; [congruence|].
  destruct r as [|w2 r2].
  - simpl. reflexivity.
  - rewrite dotted_cons. change (join_dot (w :: w2 :: r2)) with (w ++ String "."%char (join_dot (w2 :: r2))).
    rewrite append_assoc. f_equal. simpl. f_equal. apply IH. discriminate.
Qed.

(* the prefix is "" or the last k words of the parent destination, each followed by a dot *)
Definition suffix_pfx (f : fw) : Prop :=
  exists k, k <= List.length (path f) /\ pfx f = dotted (skipn (List.length (path f) - k) (path f)).
Definition wf_fw (f : fw) : Prop := forallb wordok (path f) = true /\ path f <> [].

Lemma skipn_pred {A} (l : list A) (d : A) n : n < List.length l -> skipn n l = nth n l d :: skipn (S n) l.
Proof.
  revert n. induction l as [|x r IH]; intros n H; simpl in H; [lia|].
  destruct n; [reflexivity|]. simpl. apply IH. lia.
Qed.

Lemma dotted_length_inj ws k1 k2 :
  forallb wordok ws = true -> k1 <= List.length ws -> k2 <= List.length ws ->
  dotted (skipn (List.length ws - k1) ws) = dotted (skipn (List.length ws - k2) ws) -> k1 = k2.
Proof.
  intros H L1 L2 E.
  assert (W : forall n, forallb wordok (skipn n ws) = true).
  { intros n. rewrite forallb_forall in H |- *. intros x Hx. apply H.
    rewrite <- (firstn_skipn n ws). apply in_or_app. now right. }
  apply (f_equal words) in E. rewrite !words_dotted in E by apply W.
  apply (f_equal (@List.length string)) in E. rewrite !skipn_length in E. lia.
Qed.

Lemma dotted_app_name ws n : dotted ws ++ n = join_dot (ws ++ [n]).
Proof.
  induction ws as [|w r IH]; [reflexivity|].
  rewrite dotted_cons, !append_assoc, IH. destruct r; reflexivity.
Qed.

Section Suffix.
  Variable opts : fw -> list string.
  Notation auto_one_g := (auto_one auto_index_gen exhausted_err_gen).
  Notation auto_all_g := (auto_all auto_index_gen exhausted_err_gen).
  Notation fix_auto_g := (fix_auto auto_index_gen exhausted_err_gen skip_first_strict_gen).

  Definition Inv (f : fw) : Prop := wf_fw f -> suffix_pfx f.

  Lemma auto_one_suffix f f' : Inv f -> auto_one_g f = Ok f' -> Inv f'.
  Proof.
    intros HI H [Hw Hne]. unfold auto_one in H.
    destruct (String.eqb (pfx f) (explicit_pfx f)) eqn:E; [discriminate|].
    destruct (Nat.leb _ _) eqn:L; [discriminate|]. injection H as <-. simpl in Hw, Hne.
    destruct (HI (conj Hw Hne)) as [k [Hk Hp]].
    unfold explicit_pfx, parent_dest in *. rewrite (join_dot_dotted _ Hne) in *.
    assert (W : forall n, forallb wordok (skipn n (path f)) = true).
    { intros n. rewrite forallb_forall in Hw |- *. intros x Hx. apply Hw.
      rewrite <- (firstn_skipn n (path f)). apply in_or_app. now right. }
    rewrite Hp in L, E |- *. rewrite (words_dotted _ Hw), (words_dotted _ (W _)), skipn_length in L.
    apply Nat.leb_gt in L.
    set (n := List.length (path f)) in *.
    assert (Hkn : k < n) by lia.
    exists (S k). split; [simpl; lia|]. simpl path. simpl pfx.
    rewrite (words_dotted _ Hw), (words_dotted _ (W _)), skipn_length. fold n.
    replace (n - (n - k)) with k by lia.
    rewrite (skipn_pred (path f) "" (n - S k)) by (fold n; lia).
    rewrite dotted_cons. replace (S (n - S k)) with (n - k) by lia.
    unfold auto_index_gen. replace (n - 1 - k) with (n - S k) by lia. reflexivity.
  Qed.

  Lemma auto_all_suffix ids : forall fs fs', Forall Inv fs -> auto_all_g fs ids = Ok fs' -> Forall Inv fs'.
  Proof.
    induction ids as [|i r IH]; intros fs fs' HF H; simpl in H; [now injection H as <-|].
    destruct (auto_one_g (nth_fw fs i)) as [f1|] eqn:A; [|discriminate].
    assert (Hd : Inv (mkfw [] "" "" [] false)) by (intros [_ Hne]; simpl in Hne; congruence).
    apply (IH _ _ (update_Forall Inv fs i f1 HF (auto_one_suffix _ _ (nth_fw_Forall Inv fs i HF Hd) A)) H).
  Qed.

  Lemma fix_auto_suffix fs ids fs' : Forall Inv fs -> fix_auto_g fs ids = Ok fs' -> Forall Inv fs'.
  Proof.
    intros HF. unfold fix_auto. destruct (sort_by _ ids) as [|a [|b r]]; try (intros H; now injection H as <-).
    destruct (if skip_first_strict_gen then _ else _); apply auto_all_suffix; exact HF.
  Qed.

  Lemma explicit_is_suffix f : wf_fw f -> suffix_pfx (set_pfx f (explicit_pfx f)).
  Proof.
    intros [Hw Hne]. exists (List.length (path f)). split; [simpl; lia|]. simpl.
    rewrite Nat.sub_diag. simpl. unfold explicit_pfx, parent_dest. now apply join_dot_dotted.
  Qed.

  Lemma fold_explicit_suffix ids : forall fs, Forall Inv fs ->
    Forall Inv (fold_left (fun acc i => update acc i (set_pfx (nth_fw acc i) (explicit_pfx (nth_fw acc i)))) ids fs).
  Proof.
    induction ids as [|i r IH]; intros fs HF; simpl; [exact HF|].
    apply IH. apply update_Forall; [exact HF|]. intros Hwf. apply explicit_is_suffix. exact Hwf.
  Qed.

  Lemma fix_explicit_suffix fs o ids fs' : Forall Inv fs -> fix_explicit opts fs o ids = Ok fs' -> Forall Inv fs'.
  Proof.
    intros HF. unfold fix_explicit. destruct (existsb _ ids); [discriminate|].
    destruct (get_conflict opts _) as [[o' x]|]; [destruct (String.eqb o' o); [discriminate|]|];
      intros H; injection H as <-; apply fold_explicit_suffix; exact HF.
  Qed.

  (* no user-supplied prefix: every final prefix is made of the last k words of the destination path *)
  Theorem auto_suffix m fs fs' :
    Forall (fun f => pfx f = "") fs -> resolve_gen opts m fs = Ok fs' -> Forall Inv fs'.
  Proof.
    unfold resolve_gen. intros H0 H.
    apply (loop_invariant opts (Forall Inv) m) with (fuel := max_attempts_gen) (fs := fs); auto.
    - intros _ a ids b F HF. exact (fix_auto_suffix _ _ _ HF F).
    - intros _ a o ids b F HF. exact (fix_explicit_suffix _ _ _ _ HF F).
    - rewrite Forall_forall in H0 |- *. intros f Hf _. exists 0. split; [lia|].
      rewrite Nat.sub_0_r, skipn_all. simpl. now apply H0.
  Qed.

  (* ... hence every generated name is a dotted suffix of the destination path *)
  Theorem suffix_name f : suffix_pfx f ->
    exists ws, (exists pre, path f = (pre ++ ws)%list) /\ pfx f ++ name f = join_dot (ws ++ [name f]).
  Proof.
    intros [k [Hk Hp]]. exists (skipn (List.length (path f) - k) (path f)). split.
    - exists (firstn (List.length (path f) - k) (path f)). now rewrite firstn_skipn.
    - rewrite Hp. apply dotted_app_name.
  Qed.

  (* EXPLICIT: a prefix is either absent or the full destination path *)
  Definition Full (f : fw) : Prop := pfx f = "" \/ pfx f = explicit_pfx f.

  Lemma fold_explicit_full ids : forall fs, Forall Full fs ->
    Forall Full (fold_left (fun acc i => update acc i (set_pfx (nth_fw acc i) (explicit_pfx (nth_fw acc i)))) ids fs).
  Proof.
    induction ids as [|i r IH]; intros fs HF; simpl; [exact HF|].
    apply IH. apply update_Forall; [exact HF|]. right. reflexivity.
  Qed.

  Theorem explicit_full fs fs' :
    Forall (fun f => pfx f = "") fs -> resolve_gen opts CRExplicit fs = Ok fs' -> Forall Full fs'.
  Proof.
    unfold resolve_gen. intros H0 H.
    apply (loop_invariant opts (Forall Full) CRExplicit) with (fuel := max_attempts_gen) (fs := fs); auto.
    - discriminate.
    - intros _ a o ids b F HF. unfold fix_explicit in F. destruct (existsb _ ids); [discriminate|].
      destruct (get_conflict opts _) as [[o' x]|]; [destruct (String.eqb o' o); [discriminate|]|];
        injection F as <-; apply fold_explicit_full; exact HF.
    - rewrite Forall_forall in H0 |- *. intros f Hf. left. now apply H0.
  Qed.
End Suffix.

(* ====================================================================== *)
(* An option string identifies one field wrapper; unclashed names stay bare *)
(* ====================================================================== *)
Lemma nodup_app_parts {A} (a b : list A) : NoDup (a ++ b) -> NoDup b /\ (forall x, In x a -> In x b -> False).
Proof.
  induction a as [|y a IH]; simpl; intros N; [split; [exact N | intros x []]|].
  inversion N as [|? ? Hy Hr]; subst. destruct (IH Hr) as [Nb D]. split; [exact Nb|].
  intros x [->|Hx] Hb; [apply Hy; apply in_or_app; now right | exact (D x Hx Hb)].
Qed.

Lemma in_nth_concat {A} (r : list (list A)) j x : In x (nth j r []) -> In x (List.concat r).
Proof.
  intros H. apply in_concat. exists (nth j r []). split; [|exact H].
  destruct (nth_in_or_default j r []) as [Hin|Hd]; [exact Hin | rewrite Hd in H; contradiction].
Qed.

Lemma nodup_concat_unique {A} (ls : list (list A)) : forall i j x,
  NoDup (List.concat ls) -> In x (nth i ls []) -> In x (nth j ls []) -> i = j.
Proof.
  induction ls as [|l r IH]; intros i j x N Hi Hj.
  - destruct i; contradiction.
  - simpl in N. destruct (nodup_app_parts l (List.concat r) N) as [Nr D].
    destruct i, j; simpl in Hi, Hj; try reflexivity.
    + exfalso. exact (D x Hi (in_nth_concat r j x Hj)).
    + exfalso. exact (D x Hj (in_nth_concat r i x Hi)).
    + f_equal. exact (IH i j x Nr Hi Hj).
Qed.

Section Identify.
  Variable opts : fw -> list string.

  (* after a successful set-up, an option string belongs to exactly one field wrapper *)
  Theorem option_identifies_field m fs fs' i j o :
    resolve_gen opts m fs = Ok fs' ->
    In o (nth i (map opts fs') []) -> In o (nth j (map opts fs') []) -> i = j.
  Proof.
    intros H Hi Hj. exact (nodup_concat_unique (map opts fs') i j o (resolve_ok_nodup opts m fs fs' H) Hi Hj).
  Qed.
End Identify.

(* ---------- a field whose name clashes with nothing is never part of a conflict ---------- *)
Lemma NoDup_app_local {A} (a b : list A) : NoDup a -> NoDup b -> (forall x, In x a -> In x b -> False) -> NoDup (a ++ b).
Proof.
  induction a as [|y a IH]; simpl; intros Na Nb D; [exact Nb|].
  inversion Na as [|? ? Hy Hr]; subst. constructor.
  - intros H. apply in_app_or in H as [H|H]; [contradiction | exact (D y (or_introl eq_refl) H)].
  - apply IH; auto. intros x Hx Hb. exact (D x (or_intror Hx) Hb).
Qed.

Lemma has_char_append_c c a b : has_char c (a ++ b) = has_char c a || has_char c b.
Proof. induction a as [|x r IH]; simpl; [reflexivity | rewrite IH; apply orb_assoc]. Qed.

(* fields as the conflict clauses of C03 see them: no aliases, not positional, no word starting with a dash *)
Definition plainfw (f : fw) : Prop :=
  aliases f = [] /\ positional f = false /\ prefixb "-" (name f) = false /\ Forall (fun w => prefixb "-" w = false) (path f).

Lemma plainfw_shape f g : shape f = shape g -> plainfw f -> plainfw g.
Proof.
  intros E [A [B [C D]]]. unfold shape, set_pfx in E. injection E as E1 E2 E3 E4.
  unfold plainfw. rewrite <- E1, <- E2, <- E3, <- E4. auto.
Qed.

Section Unclashed.
  Variable opts : fw -> list string.
  Notation auto_one_g := (auto_one auto_index_gen exhausted_err_gen).
  Notation auto_all_g := (auto_all auto_index_gen exhausted_err_gen).
  Notation fix_auto_g := (fix_auto auto_index_gen exhausted_err_gen skip_first_strict_gen).
  (* what is needed of the option strings: after the dashes comes prefix ++ name; no string twice for one field *)
  Hypothesis opts_body : forall f o, plainfw f -> suffix_pfx f -> In o (opts f) -> lstrip_dashes o = pfx f ++ name f.
  Hypothesis opts_nodup : forall f, NoDup (opts f).

  Lemma holders_app o a b : holders o (a ++ b) = (holders o a ++ holders o b)%list.
  Proof. unfold holders. now rewrite filter_app, map_app. Qed.

  Lemma holders_one o k l : forall i, In i (holders o (map (fun o' => (o', k)) l)) -> i = k /\ In o l.
  Proof.
    unfold holders. induction l as [|x r IH]; simpl; intros i H; [contradiction|].
    destruct (String.eqb x o) eqn:E; simpl in H.
    - apply String.eqb_eq in E. subst x. destruct H as [<-|H]; [auto|]. destruct (IH i H); auto.
    - destruct (IH i H); auto.
  Qed.

  Lemma holders_one_nodup o k l : NoDup l -> NoDup (holders o (map (fun o' => (o', k)) l)).
  Proof.
    unfold holders. induction l as [|x r IH]; simpl; intros N; [constructor|].
    inversion N as [|? ? Hx Hr]; subst. destruct (String.eqb x o) eqn:E; simpl; [|now apply IH].
    apply String.eqb_eq in E. subst x. constructor; [|now apply IH].
    intros H. destruct (holders_one o k r k H) as [_ Hin]. contradiction.
  Qed.

  Lemma holders_spec o fs : forall k i,
    In i (holders o (index_opts opts k fs)) -> k <= i /\ i - k < List.length fs /\ In o (opts (nth (i - k) fs (mkfw [] "" "" [] false))).
  Proof.
    induction fs as [|f r IH]; intros k i H; simpl in H; [contradiction|].
    rewrite holders_app in H. apply in_app_or in H as [H|H].
    - destruct (holders_one o k (opts f) i H) as [-> Hin]. rewrite Nat.sub_diag. simpl. repeat split; auto; lia.
    - destruct (IH (S k) i H) as [A [B C]]. replace (i - k) with (S (i - S k)) by lia. simpl. repeat split; auto; lia.
  Qed.

  Lemma holders_nodup o fs : forall k, NoDup (holders o (index_opts opts k fs)).
  Proof.
    induction fs as [|f r IH]; intros k; simpl; [constructor|].
    rewrite holders_app. apply NoDup_app_local; [apply holders_one_nodup, opts_nodup | apply IH |].
    intros i Ha Hb. destruct (holders_one o k (opts f) i Ha) as [-> _]. destruct (holders_spec o r (S k) k Hb). lia.
  Qed.

  Lemma conflict_members fs o ids :
    get_conflict opts fs = Some (o, ids) ->
    NoDup ids /\ 1 < List.length ids /\ forall i, In i ids -> i < List.length fs /\ In o (opts (nth_fw fs i)).
  Proof.
    unfold get_conflict. intros H. destruct (first_conflict_some _ _ _ _ H) as [_ [-> L]].
    split; [apply holders_nodup|]. split; [exact L|]. intros i Hi.
    destruct (holders_spec o fs 0 i Hi) as [_ [B C]]. rewrite Nat.sub_0_r in B, C. split; [exact B | exact C].
  Qed.

  Lemma other_member (ids : list nat) i : NoDup ids -> 1 < List.length ids -> In i ids -> exists j, In j ids /\ j <> i.
  Proof.
    intros N L Hi. destruct ids as [|a [|b r]]; simpl in L; try lia.
    inversion N as [|? ? Ha _]; subst.
    destruct (Nat.eq_dec a i) as [->|Ne].
    - exists b. split; [simpl; auto|]. intros ->. apply Ha. now left.
    - exists a. split; [simpl; auto | exact Ne].
  Qed.

  (* non-interference: indices outside the conflict are not touched *)
  Lemma nth_update_other fs j f' i : i <> j -> nth_fw (update fs j f') i = nth_fw fs i.
  Proof.
    unfold nth_fw. revert i j. induction fs as [|x r IH]; intros i j Ne; destruct j; simpl; try reflexivity.
    - destruct i; [congruence | reflexivity].
    - destruct i; [reflexivity|]. apply IH. congruence.
  Qed.

  Lemma auto_all_other ids : forall fs fs' i, auto_all_g fs ids = Ok fs' -> ~ In i ids -> nth_fw fs' i = nth_fw fs i.
  Proof.
    induction ids as [|j r IH]; intros fs fs' i H Hn; simpl in H; [now injection H as <-|].
    destruct (auto_one_g (nth_fw fs j)) as [f1|]; [|discriminate].
    rewrite (IH _ _ i H) by (intros X; apply Hn; now right). apply nth_update_other. intros ->. apply Hn. now left.
  Qed.

  Lemma fix_auto_other fs ids fs' i : fix_auto_g fs ids = Ok fs' -> ~ In i ids -> nth_fw fs' i = nth_fw fs i.
  Proof.
    unfold fix_auto. intros H Hn.
    assert (S : forall x, In x (sort_by (fun k => level (nth_fw fs k)) ids) -> In x ids).
    { intros x Hx. now apply SPV.Proofs.OptStrProofs.sort_by_In in Hx. }
    destruct (sort_by _ ids) as [|a [|b r]] eqn:E; try (now injection H as <-).
    destruct (if skip_first_strict_gen then _ else _).
    - apply (auto_all_other _ _ _ i H). intros X. apply Hn, S. now right.
    - apply (auto_all_other _ _ _ i H). intros X. apply Hn, S. exact X.
  Qed.

  Lemma fold_explicit_other ids : forall fs i, ~ In i ids ->
    nth_fw (fold_left (fun acc k => update acc k (set_pfx (nth_fw acc k) (explicit_pfx (nth_fw acc k)))) ids fs) i = nth_fw fs i.
  Proof.
    induction ids as [|j r IH]; intros fs i Hn; simpl; [reflexivity|].
    rewrite IH by (intros X; apply Hn; now right). apply nth_update_other. intros ->. apply Hn. now left.
  Qed.

  Lemma fix_explicit_other fs o ids fs' i : fix_explicit opts fs o ids = Ok fs' -> ~ In i ids -> nth_fw fs' i = nth_fw fs i.
  Proof.
    unfold fix_explicit. destruct (existsb _ ids); [discriminate|].
    destruct (get_conflict opts _) as [[o' x]|]; [destruct (String.eqb o' o); [discriminate|]|];
      intros H Hn; injection H as <-; now apply fold_explicit_other.
  Qed.

  Lemma shape_nth fs fs' j : map shape fs' = map shape fs -> shape (nth_fw fs' j) = shape (nth_fw fs j).
  Proof.
    intros E. unfold nth_fw.
    rewrite <- (map_nth shape fs' (mkfw [] "" "" [] false) j), <- (map_nth shape fs (mkfw [] "" "" [] false) j), E. reflexivity.
  Qed.

  Lemma dotted_has_dot w ws : has_char "."%char (dotted (w :: ws)) = true.
  Proof. rewrite dotted_cons. rewrite has_char_append_c. simpl. apply orb_true_r. Qed.

  (* the step: with the invariants in place, field i (unique dot-free name, empty prefix) is not in the conflict *)
  Lemma unclashed_not_in_conflict fs0 fs i o ids :
    map shape fs = map shape fs0 -> Forall Inv fs -> Forall wf_fw fs0 -> Forall plainfw fs0 ->
    Forall (fun f => nodot (name f) = true) fs0 ->
    (forall j, j <> i -> j < List.length fs0 -> name (nth_fw fs0 j) <> name (nth_fw fs0 i)) ->
    pfx (nth_fw fs i) = "" ->
    get_conflict opts fs = Some (o, ids) -> ~ In i ids.
  Proof.
    intros Sh HI Hwf Hpl Hnd Huniq Hp G Hin.
    destruct (conflict_members fs o ids G) as [N [L M]].
    destruct (other_member ids i N L Hin) as [j [Hj Ne]].
    destruct (M i Hin) as [Li Oi]. destruct (M j Hj) as [Lj Oj].
    assert (Len : List.length fs = List.length fs0) by (rewrite <- (map_length shape fs), Sh, map_length; reflexivity).
    assert (Sj := shape_nth fs0 fs j Sh). assert (Si := shape_nth fs0 fs i Sh).
    assert (PLj : plainfw (nth_fw fs j)).
    { apply (plainfw_shape (nth_fw fs0 j)); [now symmetry|]. rewrite Forall_forall in Hpl. apply Hpl. unfold nth_fw. apply nth_In. lia. }
    assert (PLi : plainfw (nth_fw fs i)).
    { apply (plainfw_shape (nth_fw fs0 i)); [now symmetry|]. rewrite Forall_forall in Hpl. apply Hpl. unfold nth_fw. apply nth_In. lia. }
    assert (SPi : suffix_pfx (nth_fw fs i)).
    { exists 0. split; [lia|]. rewrite Nat.sub_0_r, skipn_all. exact Hp. }
    assert (Nj : name (nth_fw fs j) = name (nth_fw fs0 j)) by (change (name (nth_fw fs j)) with (name (shape (nth_fw fs j))); now rewrite Sj).
    assert (Ni : name (nth_fw fs i) = name (nth_fw fs0 i)) by (change (name (nth_fw fs i)) with (name (shape (nth_fw fs i))); now rewrite Si).
    assert (Pj : path (nth_fw fs j) = path (nth_fw fs0 j)) by (change (path (nth_fw fs j)) with (path (shape (nth_fw fs j))); now rewrite Sj).
    assert (Wj : wf_fw (nth_fw fs j)).
    { unfold wf_fw. rewrite Pj. rewrite Forall_forall in Hwf. apply Hwf. unfold nth_fw. apply nth_In. lia. }
    assert (Ij : Inv (nth_fw fs j)) by (rewrite Forall_forall in HI; apply HI; unfold nth_fw; apply nth_In; lia).
    assert (Ei := opts_body _ _ PLi SPi Oi). assert (Ej := opts_body _ _ PLj (Ij Wj) Oj). rewrite Hp in Ei. simpl in Ei.
    destruct (Ij Wj) as [k [_ Pk]].
    assert (Di : has_char "."%char (name (nth_fw fs i)) = false).
    { rewrite Ni. rewrite Forall_forall in Hnd. assert (X := Hnd (nth_fw fs0 i)). unfold nodot in X. apply negb_true_iff, X.
      unfold nth_fw. apply nth_In. lia. }
    rewrite Ei in Ej. rewrite Pk in Ej.
    destruct (skipn (List.length (path (nth_fw fs j)) - k) (path (nth_fw fs j))) as [|w ws].
    - simpl in Ej. apply (Huniq j Ne); [lia|]. now rewrite <- Nj, <- Ni.
    - rewrite Ej, has_char_append_c, dotted_has_dot in Di. discriminate.
  Qed.
End Unclashed.

Section UnclashedLoop.
  Variable opts : fw -> list string.
  Notation fix_auto_g := (fix_auto auto_index_gen exhausted_err_gen skip_first_strict_gen).
  Hypothesis opts_body : forall f o, plainfw f -> suffix_pfx f -> In o (opts f) -> lstrip_dashes o = pfx f ++ name f.
  Hypothesis opts_nodup : forall f, NoDup (opts f).

  (* like loop_invariant, but the step may use the conflict that was detected *)
  Lemma loop_invariant_conflict (P : list fw -> Prop) m :
    (m = CRAuto -> forall fs o ids fs', get_conflict opts fs = Some (o, ids) -> fix_auto_g fs ids = Ok fs' -> P fs -> P fs') ->
    (m = CRExplicit -> forall fs o ids fs', get_conflict opts fs = Some (o, ids) -> fix_explicit opts fs o ids = Ok fs' -> P fs -> P fs') ->
    forall fuel fs fs', loop_gen opts m fuel fs = Ok fs' -> P fs -> P fs'.
  Proof.
    intros HA HE. unfold loop_gen. induction fuel as [|k IH]; intros fs fs' H HP; simpl in H.
    - destruct (get_conflict opts fs) as [[o ids]|]; [discriminate | now injection H as <-].
    - destruct (get_conflict opts fs) as [[o ids]|] eqn:G; [|now injection H as <-].
      destruct m; [discriminate| |].
      + destruct (fix_explicit opts fs o ids) as [fs1|] eqn:F; [|discriminate].
        destruct k; [discriminate|]. apply (IH fs1 fs' H). exact (HE eq_refl _ _ _ _ G F HP).
      + destruct (fix_auto_g fs ids) as [fs1|] eqn:F; [|discriminate].
        destruct k; [discriminate|]. apply (IH fs1 fs' H). exact (HA eq_refl _ _ _ _ G F HP).
  Qed.

  (* Absent user-supplied prefixes, a field whose name clashes with nothing keeps its bare name. *)
  Definition Qinv (fs0 : list fw) (i : nat) (x : list fw) : Prop :=
    map shape x = map shape fs0 /\ Forall Inv x /\ pfx (nth_fw x i) = "".

  Lemma unclashed_loop m fuel fs fs' i :
    Forall (fun f => pfx f = "") fs -> Forall wf_fw fs -> Forall plainfw fs -> Forall (fun f => nodot (name f) = true) fs ->
    (forall j, j <> i -> j < List.length fs -> name (nth_fw fs j) <> name (nth_fw fs i)) ->
    loop_gen opts m fuel fs = Ok fs' -> Qinv fs i fs'.
  Proof.
    intros H0 Hwf Hpl Hnd Huniq H.
    apply (loop_invariant_conflict (Qinv fs i) m) with (fuel := fuel) (fs := fs); [| |exact H|].
    - intros _ a o ids b G F [Sh [HI Hp]]. repeat split.
      + rewrite <- Sh. exact (fix_auto_shape a ids b F).
      + exact (fix_auto_suffix a ids b HI F).
      + rewrite (fix_auto_other a ids b i F); [exact Hp|].
        exact (unclashed_not_in_conflict opts opts_body opts_nodup fs a i o ids Sh HI Hwf Hpl Hnd Huniq Hp G).
    - intros _ a o ids b G F [Sh [HI Hp]]. repeat split.
      + rewrite <- Sh. exact (fix_explicit_shape opts a o ids b F).
      + exact (fix_explicit_suffix opts a o ids b HI F).
      + rewrite (fix_explicit_other opts a o ids b i F); [exact Hp|].
        exact (unclashed_not_in_conflict opts opts_body opts_nodup fs a i o ids Sh HI Hwf Hpl Hnd Huniq Hp G).
    - repeat split.
      + rewrite Forall_forall in H0 |- *. intros f Hf _. exists 0. split; [lia|].
        rewrite Nat.sub_0_r, skipn_all. simpl. now apply H0.
      + unfold nth_fw. destruct (nth_in_or_default i fs (mkfw [] "" "" [] false)) as [Hin| ->]; [|reflexivity].
        rewrite Forall_forall in H0. now apply H0.
  Qed.

  Lemma resolve_gen_unfold m fs : resolve_gen opts m fs = loop_gen opts m max_attempts_gen fs.
  Proof. unfold resolve_gen. reflexivity. Qed.

  Theorem unclashed_bare m fs fs' i :
    Forall (fun f => pfx f = "") fs -> Forall wf_fw fs -> Forall plainfw fs -> Forall (fun f => nodot (name f) = true) fs ->
    (forall j, j <> i -> j < List.length fs -> name (nth_fw fs j) <> name (nth_fw fs i)) ->
    resolve_gen opts m fs = Ok fs' ->
    pfx (nth_fw fs' i) = "".
  Proof.
    intros H0 Hwf Hpl Hnd Huniq H. rewrite resolve_gen_unfold in H.
    exact (proj2 (proj2 (unclashed_loop m max_attempts_gen fs fs' i H0 Hwf Hpl Hnd Huniq H))).
  Qed.
End UnclashedLoop.

(* the option strings of the default configuration (FLAT, underscores, no aliases) have the required shape *)
Lemma lstrip_dashes_nodash s : prefixb "-" s = false -> lstrip_dashes s = s.
Proof.
  destruct s as [|a r]; [reflexivity|]. intros H. unfold lstrip_dashes. simpl. unfold is_dash.
  destruct (Ascii.eqb_spec a "-"%char) as [->|Ne]; [simpl in H; discriminate H | reflexivity].
Qed.

Lemma default_opts_body f o :
  aliases f = [] -> positional f = false -> prefixb "-" (pfx f ++ name f) = false ->
  In o (option_strings default_cfg_parser f) -> lstrip_dashes o = pfx f ++ name f.
Proof.
  intros Ha Hp Hd Hin. apply (option_strings_In default_cfg_parser f o Hp) in Hin.
  unfold raw_options in Hin. rewrite Hp in Hin. unfold raw_pairs, default_cfg_parser in Hin. simpl in Hin. rewrite Ha in Hin. simpl in Hin.
  assert (X : forall d, (d = "-" \/ d = "--") -> lstrip_dashes (d ++ pfx f ++ name f) = pfx f ++ name f).
  { intros d [-> | ->]; simpl; unfold lstrip_dashes; simpl; fold (lstrip_dashes (pfx f ++ name f)); now apply lstrip_dashes_nodash. }
  unfold dash_for in Hin. destruct (Nat.eqb (String.length (name f)) 1); simpl in Hin.
  - destruct Hin as [<-|[<-|[]]]; [exact (X "-" (or_introl eq_refl)) | exact (X "--" (or_intror eq_refl))].
  - destruct Hin as [<-|[]]. exact (X "--" (or_intror eq_refl)).
Qed.

Lemma plain_suffix_nodash f : plainfw f -> suffix_pfx f -> prefixb "-" (pfx f ++ name f) = false.
Proof.
  intros [_ [_ [Hn Hp]]] [k [_ Pk]]. rewrite Pk.
  assert (Hs : Forall (fun w => prefixb "-" w = false) (skipn (List.length (path f) - k) (path f))).
  { rewrite Forall_forall in Hp |- *. intros x Hx. apply Hp. rewrite <- (firstn_skipn (List.length (path f) - k) (path f)).
    apply in_or_app. now right. }
  destruct (skipn (List.length (path f) - k) (path f)) as [|w ws]; [exact Hn|].
  inversion Hs as [|? ? Hw _]; subst. rewrite dotted_cons. destruct w as [|a r]; [reflexivity|]. simpl in Hw |- *. exact Hw.
Qed.

(* C03's clause for the parser's default configuration *)
Theorem unclashed_bare_default m fs fs' i :
  Forall (fun f => pfx f = "") fs -> Forall wf_fw fs -> Forall plainfw fs -> Forall (fun f => nodot (name f) = true) fs ->
  (forall j, j <> i -> j < List.length fs -> name (nth_fw fs j) <> name (nth_fw fs i)) ->
  resolve_gen (option_strings default_cfg_parser) m fs = Ok fs' ->
  pfx (nth_fw fs' i) = "".
Proof.
  apply unclashed_bare.
  - intros f o Hpl Hs Hin.
    apply default_opts_body; [exact (proj1 Hpl) | exact (proj1 (proj2 Hpl)) | exact (plain_suffix_nodash f Hpl Hs) | exact Hin].
  - intros f. apply option_strings_NoDup.
Qed.
