(* Proofs/ArgparsePipeline.v — the per-field abstraction of CorrDefs/CorrC02.v (field_result / model_outcome:
   each written field is Leaf.take_values of its own tokens, the first error in argv order ends the parse,
   unmentioned fields keep their default) is a THEOREM about the token-level argparse model of
   Model/ArgparseM.v, for every list of store fields and every command line made of well-formed groups. *)
From SPV Require Import Base.Str Model.Namespace Model.LeafSpec Model.ArgparseM Model.ArgparseMSpec
     Proofs.ArgparseMProofs.

(* one command-line field of a dataclass: destination, annotation, what the namespace holds by default *)
Record lfield := mklfield { lf_dest : string; lf_ty : ty; lf_dflt : raw }.

(* store fields (no bool flag) whose converter does not depend on the position of the token in the group:
   everything but heterogeneous fixed tuples (KSeq).  Leaf.nargs has no `+`, so NaPlus never occurs here. *)
Definition field_ok (f : lfield) : bool :=
  match arg_options (lf_ty f) with AStore _ k _ => no_seq k | ABoolFlag => false end.

(* the add_argument call SimpleParsing makes for the field: one option `--dest`, nargs / type / choices from
   Leaf.arg_options, not required, the given default (never an unconverted string) *)
Definition act_of_field (f : lfield) : act value conv :=
  match arg_options (lf_ty f) with
  | AStore n k ch => mkact ["--" ++ lf_dest f] (lf_dest f) (na_of n) k (choices_of ch) (st_of (lf_dflt f)) false
  | ABoolFlag => mkact ["--" ++ lf_dest f] (lf_dest f) NaOpt KStr None (st_of (lf_dflt f)) false
  end.
Definition acts_of_fields (fs : list lfield) : list (act value conv) := map act_of_field fs.

Section Pipeline.
  Variable str2bool : string -> option bool.
  Variable enum_miss_cls : string.
  Notation ltake := (take_values str2bool enum_miss_cls).
  Notation cvtL := (lcvt str2bool enum_miss_cls).

  (* ---------- the per-field model, in Leaf vocabulary only ---------- *)
  Definition field_take (f : lfield) (toks : list string) : res raw :=
    match arg_options (lf_ty f) with
    | AStore n k ch => ltake n k ch toks
    | ABoolFlag => Err (Exit 2)
    end.

  (* errors of the written groups, first in argv order *)
  Fixpoint leaf_first_err (fs : list lfield) (gs : list group) : res unit :=
    match gs with
    | [] => Ok tt
    | g :: r =>
        match nth_error fs (g_idx g) with
        | None => Err (Exit 2)
        | Some f => match field_take f (g_toks g) with
                    | Err e => Err e
                    | Ok _ => leaf_first_err fs r end
        end
    end.

  (* each field: take_values of its LAST group, or its default when it is not mentioned *)
  Definition leaf_field_result (i : nat) (f : lfield) (gs : list group) : res raw :=
    match last_group i gs with
    | Some g => field_take f (g_toks g)
    | None => Ok (lf_dflt f)
    end.

  Fixpoint leaf_fields (i : nat) (fs : list lfield) (gs : list group) : res (ns (stored value)) :=
    match fs with
    | [] => Ok []
    | f :: r =>
        match leaf_field_result i f gs with
        | Err e => Err e
        | Ok x => match leaf_fields (S i) r gs with
                  | Ok l => Ok ((lf_dest f, st_of x) :: l)
                  | Err e => Err e end
        end
    end.

  Definition leaf_outcome (fs : list lfield) (gs : list group) : res (ns (stored value)) :=
    match leaf_first_err fs gs with
    | Err e => Err e
    | Ok _ => leaf_fields 0 fs gs
    end.

  (* ---------- proofs ---------- *)
  Lemma nth_acts fs i : nth_error (acts_of_fields fs) i = option_map act_of_field (nth_error fs i).
  Proof. apply nth_error_map. Qed.

  Lemma dests_acts fs : map a_dest (acts_of_fields fs) = map lf_dest fs.
  Proof.
    unfold acts_of_fields. rewrite map_map. apply map_ext. intros f. unfold act_of_field.
    destruct (arg_options (lf_ty f)); reflexivity.
  Qed.

  Lemma dashed_acts fs : opts_dashed (acts_of_fields fs) = true.
  Proof.
    unfold opts_dashed, acts_of_fields. rewrite forallb_forall. intros a Ha.
    apply in_map_iff in Ha as [f [<- _]]. unfold act_of_field.
    destruct (arg_options (lf_ty f)); reflexivity.
  Qed.

  Lemma field_values f toks :
    field_ok f = true -> admissible (a_na (act_of_field f)) (List.length toks) = true ->
    values_of cvtL value_eqb (act_of_field f) toks = lift (field_take f toks).
  Proof.
    unfold field_ok, act_of_field, field_take. destruct (arg_options (lf_ty f)) as [n k ch|]; [|discriminate].
    intros Hk A. cbn [a_na] in A.
    apply (bridge_take_values str2bool enum_miss_cls _ n k ch toks); try reflexivity; [|exact A].
    apply no_seq_idx_free, Hk.
  Qed.

  Lemma field_default f : field_ok f = true ->
    default_value cvtL (act_of_field f) = Ok (st_of (lf_dflt f)) /\ a_req (act_of_field f) = false
    /\ a_dest (act_of_field f) = lf_dest f.
  Proof.
    unfold field_ok, act_of_field, default_value. destruct (arg_options (lf_ty f)); [|discriminate].
    intros _. cbn [a_dflt a_req a_dest]. destruct (lf_dflt f); repeat split.
  Qed.

  Definition fields_indexed (fs : list lfield) (gs : list group) : Prop :=
    forall g, In g gs -> exists f, nth_error fs (g_idx g) = Some f
                                   /\ admissible (a_na (act_of_field f)) (List.length (g_toks g)) = true.

  Lemma indexed_of_ok ab fs gs :
    forallb (group_ok ab (acts_of_fields fs)) gs = true -> fields_indexed fs gs.
  Proof.
    intros H g Hg. destruct (groups_ok_indexed _ _ ab _ gs H g Hg) as [a [Hn Ha]].
    rewrite nth_acts in Hn. destruct (nth_error fs (g_idx g)) as [f|]; [|discriminate].
    injection Hn as <-. eauto.
  Qed.

  Lemma first_err_agrees fs : forallb field_ok fs = true -> forall gs, fields_indexed fs gs ->
    match group_values cvtL value_eqb (acts_of_fields fs) gs with Ok _ => Ok tt | Err e => Err e end
    = leaf_first_err fs gs.
  Proof.
    intros F. rewrite forallb_forall in F.
    induction gs as [|g gs IH]; intros H; [reflexivity|].
    cbn [group_values leaf_first_err]. rewrite nth_acts.
    destruct (H g (or_introl eq_refl)) as [f [Hn Ha]]. rewrite Hn. cbn [option_map].
    rewrite (field_values f _ (F f (nth_error_In _ _ Hn)) Ha).
    destruct (field_take f (g_toks g)) as [x|e]; cbn [lift]; [|reflexivity].
    rewrite <- IH by (intros g' Hg'; apply H; now right).
    destruct (group_values cvtL value_eqb (acts_of_fields fs) gs); reflexivity.
  Qed.

  Lemma fields_agree gs : forall r i,
    forallb field_ok r = true ->
    (forall j f g, nth_error r j = Some f -> In g gs -> g_idx g = i + j ->
                   admissible (a_na (act_of_field f)) (List.length (g_toks g)) = true) ->
    spec_fields cvtL value_eqb i (acts_of_fields r) gs false = leaf_fields i r gs.
  Proof.
    induction r as [|f r IH]; intros i F H; [reflexivity|].
    cbn [forallb] in F. apply andb_true_iff in F as [Ff Fr].
    cbn [acts_of_fields map spec_fields leaf_fields]. unfold leaf_field_result.
    destruct (field_default f Ff) as [Hd [Hq Hdest]].
    assert (IH' : spec_fields cvtL value_eqb (S i) (acts_of_fields r) gs false = leaf_fields (S i) r gs).
    { apply IH; [exact Fr|]. intros j f' g Hj Hg Hi. apply (H (S j) f' g Hj Hg). lia. }
    pose proof (last_group_spec i gs) as LS.
    destruct (last_group i gs) as [g|].
    - destruct LS as [Hin [Hidx _]].
      assert (Ha : admissible (a_na (act_of_field f)) (List.length (g_toks g)) = true)
        by (apply (H 0 f g eq_refl Hin); lia).
      rewrite (field_values f _ Ff Ha).
      destruct (field_take f (g_toks g)) as [x|e]; cbn [lift]; [|reflexivity].
      fold (acts_of_fields r). rewrite IH', Hdest. reflexivity.
    - rewrite Hq, Hd. fold (acts_of_fields r). rewrite IH', Hdest. reflexivity.
  Qed.

  (* THE PIPELINE THEOREM *)
  Theorem leaf_pipeline ab fs gs :
    NoDup (map lf_dest fs) ->
    forallb field_ok fs = true ->
    forallb (group_ok ab (acts_of_fields fs)) gs = true ->
    parse_args cvtL value_eqb ab (acts_of_fields fs) (flatten gs) = leaf_outcome fs gs.
  Proof.
    intros N F H.
    rewrite (per_field _ _ cvtL value_eqb ab _ gs); [|rewrite dests_acts; exact N | apply dashed_acts | exact H].
    unfold spec_groups, leaf_outcome.
    pose proof (indexed_of_ok ab fs gs H) as HI.
    rewrite <- (first_err_agrees fs F gs HI).
    destruct (group_values cvtL value_eqb (acts_of_fields fs) gs) as [occs|e]; [|reflexivity].
    apply fields_agree; [exact F|].
    intros j f g Hj Hg Hi. destruct (HI g Hg) as [f' [Hn Ha]].
    cbn [Nat.add] in Hi. rewrite Hi in Hn. assert (f' = f) by congruence. subst. exact Ha.
  Qed.

  (* read field by field: what the returned namespace holds for field number i *)
  Lemma leaf_fields_lookup gs : forall fs i0 n i f,
    NoDup (map lf_dest fs) -> leaf_fields i0 fs gs = Ok n -> nth_error fs i = Some f ->
    exists x, leaf_field_result (i0 + i) f gs = Ok x /\ lookup (lf_dest f) n = Some (st_of x).
  Proof.
    induction fs as [|f0 r IH]; intros i0 n i f N Hp Hi; [destruct i; discriminate|].
    cbn [leaf_fields] in Hp. inversion N as [|? ? Hnot Hr]; subst.
    destruct (leaf_field_result i0 f0 gs) as [x0|] eqn:E0; [|discriminate].
    destruct (leaf_fields (S i0) r gs) as [l|] eqn:El; [|discriminate]. injection Hp as <-.
    destruct i as [|i].
    - injection Hi as <-. exists x0. rewrite Nat.add_0_r. cbn [lookup]. rewrite String.eqb_refl. auto.
    - cbn [nth_error] in Hi. destruct (IH (S i0) l i f Hr El Hi) as [x [Hx Hl]].
      exists x. replace (i0 + S i) with (S i0 + i) by lia. split; [exact Hx|].
      cbn [lookup]. destruct (String.eqb (lf_dest f0) (lf_dest f)) eqn:E; [|exact Hl].
      apply String.eqb_eq in E. exfalso. apply Hnot. rewrite E. apply in_map. eapply nth_error_In; eauto.
  Qed.

  Corollary leaf_pipeline_field ab fs gs n i f :
    NoDup (map lf_dest fs) -> forallb field_ok fs = true ->
    forallb (group_ok ab (acts_of_fields fs)) gs = true ->
    parse_args cvtL value_eqb ab (acts_of_fields fs) (flatten gs) = Ok n ->
    nth_error fs i = Some f ->
    exists x, leaf_field_result i f gs = Ok x /\ lookup (lf_dest f) n = Some (st_of x).
  Proof.
    intros N F H Hp Hi. rewrite (leaf_pipeline ab fs gs N F H) in Hp. unfold leaf_outcome in Hp.
    destruct (leaf_first_err fs gs); [|discriminate].
    exact (leaf_fields_lookup gs fs 0 n i f N Hp Hi).
  Qed.
End Pipeline.
