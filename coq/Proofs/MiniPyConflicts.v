(* Proofs/MiniPyConflicts.v — the regenerated source of the ConflictResolver (Gen/FactsConflictsSrc.v: get_conflict,
   _fix_conflict_auto, ... dumped from simple_parsing/conflicts.py on every run) against the hand model Model/OptStr.v.
   The FieldWrapper objects live in ONE store (key = position in the flat list = the model's identity); a reference is a key. *)
From SPV Require Import Base.Str Model.OptStr Gen.FactsConflicts Proofs.OptStrProofs Proofs.ConflictsProofs Proofs.ConflictsGroup.
From SPV Require Import Model.MiniPy Gen.FactsOptStrSrc Gen.FactsConflictsSrc Proofs.MiniPyLemmas Proofs.MiniPyOptStr.

Ltac ops := cbn [op_attr op_getattr op_hasattr op_vars op_getitem op_dictget op_copy op_keys op_values op_items op_zip op_splitdest
                   op_isconst bind2 st_unpack st_setpath st_popattr st_pop].
Ltac hy := repeat match goal with H : lookup ?x ?r = Some _ |- context [lookup ?x ?r] => rewrite H end.

(* ---------- the store ---------- *)
Definition enc_fw (c : cfg) (f : fw) : val :=
  VR "FieldWrapper"
     [("name", VS (name f)); ("prefix", VS (pfx f)); ("dest", VS (dest f)); ("aliases", VL (map VS (aliases f)));
      ("add_dash_variants", VS (dv_name (dv c))); ("argument_generation_mode", VS (gm_name (gm c)));
      ("nested_mode", VS (nm_name (nm c))); ("positional", VB (positional f)); ("nesting_level", VN (level f));
      ("parent", VR "DataclassWrapper" [("dest", VS (parent_dest f))])].
Fixpoint store_from (c : cfg) (i : nat) (fs : list fw) : list (val * val) :=
  match fs with [] => [] | f :: t => (VN i, enc_fw c f) :: store_from c (S i) t end.
Definition store (c : cfg) (fs : list fw) : val := VD (store_from c 0 fs).

Lemma store_get_from c : forall fs k i, i < List.length fs ->
  dget (VN (k + i)) (store_from c k fs) = Some (enc_fw c (nth i fs (mkfw [] "" "" [] false))).
Proof.
  induction fs as [|f t IH]; intros k i H; [inversion H|]. cbn [store_from dget val_eqb].
  destruct i as [|j].
  - rewrite Nat.add_0_r, Nat.eqb_refl. reflexivity.
  - assert (E : Nat.eqb k (k + S j) = false) by (apply Nat.eqb_neq; lia). rewrite E.
    replace (k + S j) with (S k + j) by lia. apply IH. simpl in H. lia.
Qed.
Lemma store_get c fs i : i < List.length fs -> dget (VN i) (store_from c 0 fs) = Some (enc_fw c (nth_fw fs i)).
Proof. intros H. exact (store_get_from c fs 0 i H). Qed.

(* ---------- field_wrapper.option_strings through a reference: the dumped FieldWrapper.option_strings as a procedure ---------- *)
Definition opts_ins (x : string) : list (string * expr) :=
  let o := EGetItem (EVar "FIELDS") (EVar x) in
  ([("self.name", EAttr o "name"); ("self.prefix", EAttr o "prefix"); ("self.dest", EAttr o "dest"); ("self.aliases", EAttr o "aliases");
    ("FieldWrapper.add_dash_variants", EAttr o "add_dash_variants"); ("type(self).argument_generation_mode", EAttr o "argument_generation_mode");
    ("type(self).nested_mode", EAttr o "nested_mode"); ("self.field.metadata.get('positional')", EAttr o "positional")]
   ++ map (fun l => (l, ENone)) option_strings_locals)%list.

Lemma run_to_exec r b l : run r b = Ok (VL l) -> exists r1, exec_block r b = Ok (r1, Some (VL l)).
Proof.
  unfold run. destruct (exec_block r b) as [[r1 [v|]]|]; intros H; try discriminate.
  injection H as ->. eexists; reflexivity.
Qed.

Lemma opts_call c fs x i t r :
  lookup "FIELDS" r = Some (store c fs) -> lookup x r = Some (VN i) -> i < List.length fs ->
  exec r (SCallRet t option_strings_src (opts_ins x) []) = Ok (assign t (VL (map VS (option_strings c (nth_fw fs i)))) r, None).
Proof.
  intros HF Hx Hi. rewrite exec_callret. unfold opts_ins, option_strings_locals.
  cbn [bind_ins app map eval]. rewrite HF, Hx. unfold store. ops. rewrite (store_get c fs i Hi). cbv beta iota.
  unfold enc_fw at 1 2 3 4 5 6 7 8. ops. cbn [rget String.eqb Ascii.eqb Bool.eqb]. cbv beta iota. cbn [assign String.eqb Ascii.eqb Bool.eqb].
  set (f := nth_fw fs i).
  assert (R : run_src c f = Ok (VL (map VS (option_strings c f)))).
  { destruct (positional f) eqn:P; [apply src_is_model_positional | apply src_is_model]; exact P. }
  unfold run_src in R. apply run_to_exec in R. destruct R as [r1 E].
  unfold env_of, option_strings_locals in E. cbn [app map] in E. rewrite E. reflexivity.
Qed.

(* ---------- get_conflict ---------- *)
(* the dict `conflicts`: option string -> references that hold it, in insertion order (defaultdict(list)) *)
Definition enc_gdict (g : gdict) : list (val * val) := map (fun p => (VS (fst p), VL (map VN (snd p)))) g.
Definition add_field (c : cfg) (fs : list fw) (g : gdict) (i : nat) : gdict :=
  fold_left (fun g o => dict_append o i g) (option_strings c (nth_fw fs i)) g.
Definition group_all (c : cfg) (fs : list fw) (ids : list nat) : gdict := fold_left (add_field c fs) ids [].
(* what ConflictResolver.get_conflict returns on the references ids *)
Definition get_conflict_fn (c : cfg) (fs : list fw) (ids : list nat) : option (string * list nat) := first_multi (group_all c fs ids).
Definition enc_conflict (o : option (string * list nat)) : val :=
  match o with
  | Some (s, l) => VR "Conflict" [("option_string", VS s); ("wrappers", VL (map VN l))]
  | None => VNone
  end.

Lemma dictappend_enc o i g :
  (match dget (VS o) (enc_gdict g) with
   | Some (VL l) => dset (VS o) (VL (l ++ [VN i])) (enc_gdict g)
   | Some _ => enc_gdict g
   | None => dset (VS o) (VL [VN i]) (enc_gdict g)
   end) = enc_gdict (dict_append o i g)
  /\ (match dget (VS o) (enc_gdict g) with Some (VL _) => True | Some _ => False | None => True end).
Proof.
  induction g as [|[o' l] t IH]; [split; [reflexivity | exact I]|].
  cbn [enc_gdict map dget dict_append val_eqb fst snd]. fold (enc_gdict t).
  destruct (String.eqb o' o) eqn:E.
  - cbn [dset val_eqb]. rewrite E. cbn [enc_gdict map fst snd]. rewrite map_app. split; [reflexivity | exact I].
  - destruct IH as [IH1 IH2]. destruct (dget (VS o) (enc_gdict t)) as [[]|] eqn:D; try contradiction;
      cbn [dset val_eqb]; rewrite E; cbn [enc_gdict map fst snd]; fold (enc_gdict t); fold (enc_gdict (dict_append o i t));
      (split; [rewrite <- IH1; reflexivity | exact I]).
Qed.

Definition opt_body : list stmt := [SDictAppend "conflicts" (EVar "option_string") (EVar "field_wrapper")].

Lemma opts_loop i : forall os g r,
  lookup "conflicts" r = Some (VD (enc_gdict g)) -> lookup "field_wrapper" r = Some (VN i) ->
  exists r', iter_list (fun v r => exec_block (assign "option_string" v r) opt_body) (map VS os) r = Ok (r', None)
             /\ lookup "conflicts" r' = Some (VD (enc_gdict (fold_left (fun g o => dict_append o i g) os g)))
             /\ (forall y, String.eqb "conflicts" y = false -> String.eqb "option_string" y = false -> lookup y r' = lookup y r).
Proof.
  induction os as [|o t IH]; intros g r Hc Hf; cbn [map iter_list fold_left].
  - exists r. auto.
  - unfold opt_body at 1. rewrite exec_block_cons, exec_dictappend. cbn [eval]. lk. rewrite Hf. cbn [st_dictappend]. lk. rewrite Hc.
    destruct (dictappend_enc o i g) as [D1 D2].
    assert (STEP : exists r1, (match dget (VS o) (enc_gdict g) with
              | Some (VL l) => Ok (assign "conflicts" (VD (dset (VS o) (VL (l ++ [VN i])) (enc_gdict g))) (assign "option_string" (VS o) r), None)
              | Some _ => rerr
              | None => Ok (assign "conflicts" (VD (dset (VS o) (VL [VN i]) (enc_gdict g))) (assign "option_string" (VS o) r), None)
              end) = Ok (r1, @None val) /\ r1 = assign "conflicts" (VD (enc_gdict (dict_append o i g))) (assign "option_string" (VS o) r)).
    { destruct (dget (VS o) (enc_gdict g)) as [[]|]; try contradiction; rewrite <- D1; eexists; split; reflexivity. }
    destruct STEP as [r1 [E ->]]. rewrite E, exec_block_nil.
    destruct (IH (dict_append o i g) (assign "conflicts" (VD (enc_gdict (dict_append o i g))) (assign "option_string" (VS o) r))) as [r' [E' [C' F']]].
    + lk. reflexivity.
    + lk. exact Hf.
    + exists r'. split; [exact E'|]. split; [exact C'|]. intros y Y1 Y2. rewrite (F' y Y1 Y2). lk. rewrite Y1, Y2. reflexivity.
Qed.

Definition field_body : list stmt :=
  [SCallRet "option_strings of field_wrapper" option_strings_src (opts_ins "field_wrapper") [];
   SFor "option_string" (EVar "option_strings of field_wrapper") opt_body].

Lemma fields_loop c fs : forall ids g r,
  lookup "FIELDS" r = Some (store c fs) -> lookup "conflicts" r = Some (VD (enc_gdict g)) -> Forall (fun i => i < List.length fs) ids ->
  exists r', iter_list (fun v r => exec_block (assign "field_wrapper" v r) field_body) (map VN ids) r = Ok (r', None)
             /\ lookup "conflicts" r' = Some (VD (enc_gdict (fold_left (add_field c fs) ids g))).
Proof.
  induction ids as [|i t IH]; intros g r HF Hc Hall; cbn [map iter_list fold_left].
  - exists r. auto.
  - inversion Hall as [|? ? Hi Ht]; subst. unfold field_body at 1.
    rewrite exec_block_cons. rewrite (opts_call c fs "field_wrapper" i _ (assign "field_wrapper" (VN i) r)); [|lk; exact HF|lk; reflexivity|exact Hi].
    rewrite exec_block_cons, exec_for, eval_var. lk.
    match goal with |- context [iter_list _ _ ?r1] =>
      destruct (opts_loop i (option_strings c (nth_fw fs i)) g r1) as [r' [E [C F]]]; [lk; exact Hc | lk; reflexivity|] end.
    rewrite E, exec_block_nil. fold (add_field c fs g i).
    apply IH; [|exact C|exact Ht]. rewrite F by reflexivity. lk. exact HF.
Qed.

(* the first loop: the references, from a list of references or from the `fields` of dataclass wrappers *)
Definition flat_body : list stmt :=
  [SIf (EIsInst (EVar "w") ["DataclassWrapper"]) [SExtend "field_wrappers" (EAttr (EVar "w") "fields")] [SAppend "field_wrappers" (EVar "w")]].
Definition enc_group (g : list nat) : val := VR "DataclassWrapper" [("fields", VL (map VN g))].

Lemma flatten_refs : forall ids acc r,
  lookup "field_wrappers" r = Some (VL (map VN acc)) ->
  exists r', iter_list (fun v r => exec_block (assign "w" v r) flat_body) (map VN ids) r = Ok (r', None)
             /\ lookup "field_wrappers" r' = Some (VL (map VN (acc ++ ids)%list))
             /\ (forall y, String.eqb "w" y = false -> String.eqb "field_wrappers" y = false -> lookup y r' = lookup y r).
Proof.
  induction ids as [|i t IH]; intros acc r H; cbn [map iter_list].
  - exists r. rewrite app_nil_r. auto.
  - unfold flat_body at 1. rewrite exec_block_cons, exec_if. cbn [eval]. lk. cbn [type_name str_in existsb String.eqb Ascii.eqb Bool.eqb orb truthy].
    rewrite exec_block_cons, exec_append'. cbn [eval]. lk. rewrite H. rewrite !exec_block_nil.
    destruct (IH (acc ++ [i])%list (assign "field_wrappers" (VL (map VN acc ++ [VN i])) (assign "w" (VN i) r))) as [r' [E [L F]]].
    + lk. rewrite map_app. reflexivity.
    + exists r'. split; [exact E|]. split; [rewrite L, <- app_assoc; reflexivity|].
      intros y Y1 Y2. rewrite (F y Y1 Y2). lk. rewrite Y1, Y2. reflexivity.
Qed.

Lemma group_fields g : op_attr "fields" (Ok (enc_group g)) = Ok (VL (map VN g)).
Proof. reflexivity. Qed.
Lemma group_class g : type_name (enc_group g) = "DataclassWrapper".
Proof. reflexivity. Qed.

Lemma flatten_groups : forall gs acc r,
  lookup "field_wrappers" r = Some (VL (map VN acc)) ->
  exists r', iter_list (fun v r => exec_block (assign "w" v r) flat_body) (map enc_group gs) r = Ok (r', None)
             /\ lookup "field_wrappers" r' = Some (VL (map VN (acc ++ List.concat gs)%list))
             /\ (forall y, String.eqb "w" y = false -> String.eqb "field_wrappers" y = false -> lookup y r' = lookup y r).
Proof.
  induction gs as [|g t IH]; intros acc r H; cbn [map iter_list List.concat].
  - exists r. rewrite app_nil_r. auto.
  - unfold flat_body at 1. rewrite exec_block_cons, exec_if. cbn [eval]. lk. rewrite group_class.
    cbn [str_in existsb String.eqb Ascii.eqb Bool.eqb orb truthy].
    rewrite exec_block_cons, exec_extend. cbn [eval]. lk. rewrite group_fields, H. rewrite !exec_block_nil.
    destruct (IH (acc ++ g)%list (assign "field_wrappers" (VL (map VN acc ++ map VN g)) (assign "w" (enc_group g) r))) as [r' [E [L F]]].
    + lk. rewrite map_app. reflexivity.
    + exists r'. split; [exact E|]. split; [rewrite L, <- app_assoc; reflexivity|].
      intros y Y1 Y2. rewrite (F y Y1 Y2). lk. rewrite Y1, Y2. reflexivity.
Qed.

(* the last loop: the first option string held by more than one reference *)
Definition items_body : list stmt :=
  [SIf (EGt (ELen (EVar "field_wrappers")) (ENat 1))
     [SReturn (ERec "Conflict" [("option_string", EVar "option_string"); ("wrappers", EVar "field_wrappers")])] []].

Lemma items_step o l r :
  pair_step (fun a b r => exec_block (assign "field_wrappers" b (assign "option_string" a r)) items_body) (pair_of (VS o) (VL (map VN l))) r
  = let r1 := assign "field_wrappers" (VL (map VN l)) (assign "option_string" (VS o) r) in
    if Nat.ltb 1 (List.length l) then Ok (r1, Some (enc_conflict (Some (o, l)))) else Ok (r1, None).
Proof.
  unfold pair_step. cbn [seq_items pair_of]. unfold items_body.
  rewrite exec_block_cons, exec_if. cbn [eval]. lk. rewrite map_length. cbn [truthy]. cbv zeta.
  destruct (Nat.ltb 1 (List.length l)).
  - rewrite exec_block_cons, exec_return. cbn [eval]. lk. reflexivity.
  - rewrite !exec_block_nil. reflexivity.
Qed.

Lemma items_loop : forall g r,
  match first_multi g with
  | Some p => exists r', iter_list_c (pair_step (fun a b r => exec_block (assign "field_wrappers" b (assign "option_string" a r)) items_body))
                                     (map (fun p => pair_of (fst p) (snd p)) (enc_gdict g)) r = Ok (r', Some (enc_conflict (Some p)))
  | None => exists r', iter_list_c (pair_step (fun a b r => exec_block (assign "field_wrappers" b (assign "option_string" a r)) items_body))
                                   (map (fun p => pair_of (fst p) (snd p)) (enc_gdict g)) r = Ok (r', None)
  end.
Proof.
  induction g as [|[o l] t IH]; intros r; cbn [first_multi find enc_gdict map iter_list_c fst snd].
  - exists r. reflexivity.
  - fold (enc_gdict t). rewrite !items_step. cbv zeta. fold (first_multi t).
    destruct (Nat.ltb 1 (List.length l)).
    + cbn [is_cont enc_conflict]. eexists. reflexivity.
    + apply IH.
Qed.

(* well-formed references: in range and pairwise distinct (`assert len(field_wrappers) == len(set(field_wrappers))`) *)
Fixpoint nat_nodupb (l : list nat) : bool :=
  match l with [] => true | x :: t => negb (existsb (Nat.eqb x) t) && nat_nodupb t end.
Definition refs_ok (n : nat) (ids : list nat) : bool := forallb (fun i => Nat.ltb i n) ids && nat_nodupb ids.

Lemma existsb_VN i s : existsb (val_eqb (VN i)) (map VN s) = existsb (Nat.eqb i) s.
Proof. induction s as [|x t IH]; [reflexivity|]. cbn [map existsb]. rewrite IH. reflexivity. Qed.
Lemma existsb_swap i t : existsb (Nat.eqb i) t = existsb (fun x => Nat.eqb x i) t.
Proof. induction t as [|x u IH]; [reflexivity|]. cbn [existsb]. now rewrite IH, Nat.eqb_sym. Qed.

Lemma distinct_nodup : forall ids seen,
  nat_nodupb ids = true -> forallb (fun i => negb (existsb (Nat.eqb i) seen)) ids = true ->
  distinct (map VN ids) (map VN seen) = List.length ids.
Proof.
  induction ids as [|i t IH]; intros seen N F; [reflexivity|].
  cbn [nat_nodupb] in N. apply andb_true_iff in N as [N1 N2]. cbn [forallb] in F. apply andb_true_iff in F as [F1 F2].
  cbn [map distinct List.length]. rewrite existsb_VN. apply negb_true_iff in F1. rewrite F1.
  change (VN i :: map VN seen) with (map VN (i :: seen)). rewrite IH; [reflexivity | exact N2 |].
  apply forallb_forall. intros x Hx. cbn [existsb]. rewrite forallb_forall in F2. specialize (F2 x Hx).
  apply negb_true_iff. apply orb_false_iff. split; [|apply negb_true_iff; exact F2].
  apply negb_true_iff in N1. apply Nat.eqb_neq. intros ->. rewrite existsb_swap in N1.
  assert (existsb (fun y => Nat.eqb y i) t = true) by (apply existsb_exists; exists i; split; [exact Hx | apply Nat.eqb_refl]). congruence.
Qed.

(* the function from the point where `field_wrappers` holds the references *)
Definition gc_tail : block := skipn 2 get_conflict_src.

Lemma gc_tail_spec c fs ids r :
  lookup "FIELDS" r = Some (store c fs) -> lookup "field_wrappers" r = Some (VL (map VN ids)) -> refs_ok (List.length fs) ids = true ->
  exists r1, exec_block r gc_tail = Ok (r1, Some (enc_conflict (get_conflict_fn c fs ids))).
Proof.
  intros HF Hw Hok. unfold refs_ok in Hok. apply andb_true_iff in Hok as [Hr Hn].
  assert (Hall : Forall (fun i => i < List.length fs) ids).
  { apply Forall_forall. intros i Hi. rewrite forallb_forall in Hr. apply Nat.ltb_lt. exact (Hr i Hi). }
  unfold gc_tail, get_conflict_src. cbn [skipn].
  rewrite exec_block_cons, exec_assert. cbn [eval]. rewrite Hw. cbn [op_countdistinct seq_items]. rewrite map_length.
  change (@nil val) with (map VN []). rewrite distinct_nodup; [|exact Hn|apply forallb_forall; intros; reflexivity].
  cbn [val_eqb truthy]. rewrite Nat.eqb_refl.
  rewrite exec_block_cons, exec_assign. cbn [eval].
  rewrite exec_block_cons, exec_for, eval_var. lk. rewrite Hw.
  match goal with |- context [iter_list _ _ ?r0] =>
    destruct (fields_loop c fs ids [] r0) as [r' [E C]]; [lk; exact HF | lk; reflexivity | exact Hall|] end.
  change (exec_block (assign "field_wrapper" ?v ?r)) with (exec_block (assign "field_wrapper" v r)).
  match goal with |- context [iter_list ?f _ _] => change f with (fun v r => exec_block (assign "field_wrapper" v r) field_body) end.
  rewrite E. rewrite exec_block_cons, exec_for2. cbn [eval]. rewrite C. cbn [op_items seq_items].
  fold (group_all c fs ids).
  match goal with |- context [iter_list_c ?f _ _] =>
    change f with (pair_step (fun a b r => exec_block (assign "field_wrappers" b (assign "option_string" a r)) items_body)) end.
  pose proof (items_loop (group_all c fs ids) r') as I. unfold get_conflict_fn.
  destruct (first_multi (group_all c fs ids)) as [p|]; destruct I as [r2 E2]; rewrite E2.
  - eexists. reflexivity.
  - rewrite exec_block_cons, exec_return. cbn [eval]. eexists. reflexivity.
Qed.

Definition gc_env (c : cfg) (fs : list fw) (selfv wrappers : val) : env :=
  [("FIELDS", store c fs); ("self", selfv); ("wrappers", wrappers)].

Lemma gc_split : get_conflict_src = (SAssign "field_wrappers" (EList []) :: SFor "w" (EVar "wrappers") flat_body :: gc_tail).
Proof. reflexivity. Qed.

(* ConflictResolver.get_conflict on a list of references (the call in _fix_conflict_explicit) ... *)
Theorem get_conflict_refs c fs selfv ids :
  refs_ok (List.length fs) ids = true ->
  exists r1, exec_block (gc_env c fs selfv (VL (map VN ids))) get_conflict_src = Ok (r1, Some (enc_conflict (get_conflict_fn c fs ids))).
Proof.
  intros Hok. rewrite gc_split, exec_block_cons, exec_assign. cbn [eval].
  rewrite exec_block_cons, exec_for, eval_var. lk. cbn [gc_env lookup String.eqb Ascii.eqb Bool.eqb].
  match goal with |- context [iter_list _ _ ?r0] => destruct (flatten_refs ids [] r0) as [r' [E [L F]]]; [lk; reflexivity|] end.
  rewrite E. apply (gc_tail_spec c fs ids r'); [|exact L|exact Hok].
  rewrite F by reflexivity. lk. reflexivity.
Qed.

(* ... and on the flat list of dataclass wrappers (the calls in resolve_and_flatten): the references are their fields, in order *)
Theorem get_conflict_groups c fs selfv gs :
  refs_ok (List.length fs) (List.concat gs) = true ->
  exists r1, exec_block (gc_env c fs selfv (VL (map enc_group gs))) get_conflict_src
             = Ok (r1, Some (enc_conflict (get_conflict_fn c fs (List.concat gs)))).
Proof.
  intros Hok. rewrite gc_split, exec_block_cons, exec_assign. cbn [eval].
  rewrite exec_block_cons, exec_for, eval_var. lk. cbn [gc_env lookup String.eqb Ascii.eqb Bool.eqb].
  match goal with |- context [iter_list _ _ ?r0] => destruct (flatten_groups gs [] r0) as [r' [E [L F]]]; [lk; reflexivity|] end.
  rewrite E. apply (gc_tail_spec c fs (List.concat gs) r'); [|exact L|exact Hok].
  rewrite F by reflexivity. lk. reflexivity.
Qed.

(* ---------- _fix_conflict_auto ---------- *)
Lemma rset_prefix c f p : rset "prefix" (VS p) (match enc_fw c f with VR _ fl => fl | _ => [] end) = match enc_fw c (set_pfx f p) with VR _ fl => fl | _ => [] end.
Proof. reflexivity. Qed.

Lemma store_update_from c : forall fs k i f', i < List.length fs ->
  dset (VN (k + i)) (enc_fw c f') (store_from c k fs) = store_from c k (update fs i f').
Proof.
  induction fs as [|f t IH]; intros k i f' H; [inversion H|]. cbn [store_from dset val_eqb].
  destruct i as [|j].
  - rewrite Nat.add_0_r, Nat.eqb_refl. reflexivity.
  - assert (E : Nat.eqb k (k + S j) = false) by (apply Nat.eqb_neq; lia). rewrite E. cbn [update store_from]. f_equal.
    replace (k + S j) with (S k + j) by lia. apply IH. simpl in H. lia.
Qed.

Lemma update_length (fs : list fw) i f' : List.length (update fs i f') = List.length fs.
Proof. revert i. induction fs as [|f t IH]; intros [|j]; cbn [update List.length]; auto. Qed.

(* field_wrapper.prefix = p through the reference i *)
Lemma set_prefix_store c fs i p : i < List.length fs ->
  upd_path (store c fs) [(false, VN i); (true, VS "prefix")] (VS p) = Ok (store c (update fs i (set_pfx (nth_fw fs i) p))).
Proof.
  intros H. unfold store. cbn [upd_path]. rewrite (store_get c fs i H). unfold enc_fw at 1. cbn [upd_path rset String.eqb Ascii.eqb Bool.eqb].
  change (VR "FieldWrapper" _) with (enc_fw c (set_pfx (nth_fw fs i) p)) at 1.
  rewrite (store_update_from c fs 0 i _ H). reflexivity.
Qed.

(* list(filter(bool, s.split("."))) = the non-empty words *)
Lemma words_comp r s :
  comp_list (fun v => eval (assign "<item>" v r) (EVar "<item>")) (fun v => eval (assign "<item>" v r) (EVar "<item>"))
            (map VS (split_on "."%char s "")) = Ok (map VS (words s)).
Proof.
  assert (EV : forall v, eval (assign "<item>" v r) (EVar "<item>") = Ok v) by (intros v; cbn [eval]; lk; reflexivity).
  unfold words, split_dot. induction (split_on "."%char s "") as [|w t IH]; [reflexivity|].
  cbn [map comp_list]. rewrite !EV. cbn [truthy filter]. rewrite IH. destruct (String.eqb w ""); reflexivity.
Qed.

Lemma eval_split_dot r a :
  eval r (ESplit a ".") = match eval r a with Ok (VS s) => Ok (VL (map VS (split_on "."%char s ""))) | Ok _ => rerr | Err x => Err x end.
Proof. reflexivity. Qed.

Definition auto_body : list stmt :=
  match nth 5 fix_conflict_auto_src (SRaise "") with SFor _ _ b => b | _ => [] end.

Definition cre : err := Raise "ConflictResolutionError".
Definition enc_err (e : err) : err := match e with CRE => cre | x => x end.

Lemma auto_step c fs i r :
  lookup "FIELDS" r = Some (store c fs) -> i < List.length fs ->
  match auto_one auto_index_gen exhausted_err_gen (nth_fw fs i) with
  | Err e => exec_block (assign "field_wrapper" (VN i) r) auto_body = Err (enc_err e)
  | Ok f' => exists r', exec_block (assign "field_wrapper" (VN i) r) auto_body = Ok (r', None)
                        /\ lookup "FIELDS" r' = Some (store c (update fs i f'))
  end.
Proof.
  intros HF Hi. unfold auto_one, auto_body, fix_conflict_auto_src, exhausted_err_gen, auto_index_gen. cbn [nth].
  set (f := nth_fw fs i).
  assert (G : forall r0, lookup "FIELDS" r0 = Some (store c fs) -> lookup "field_wrapper" r0 = Some (VN i) ->
              eval r0 (EGetItem (EVar "FIELDS") (EVar "field_wrapper")) = Ok (enc_fw c f)).
  { intros r0 A B. cbn [eval]. rewrite A, B. unfold store. ops. rewrite (store_get c fs i Hi). reflexivity. }
  assert (EP : forall r0, lookup "FIELDS" r0 = Some (store c fs) -> lookup "field_wrapper" r0 = Some (VN i) ->
              eval r0 (EAttr (EGetItem (EVar "FIELDS") (EVar "field_wrapper")) "prefix") = Ok (VS (pfx f))).
  { intros r0 A B. rewrite eval_attr, (G r0 A B). reflexivity. }
  assert (EX : forall r0, lookup "FIELDS" r0 = Some (store c fs) -> lookup "field_wrapper" r0 = Some (VN i) ->
              eval r0 (EAdd (EAttr (EAttr (EGetItem (EVar "FIELDS") (EVar "field_wrapper")) "parent") "dest") (EStr ".")) = Ok (VS (explicit_pfx f))).
  { intros r0 A B. change (eval r0 (EAdd ?a ?b)) with (match eval r0 a, eval r0 b with
        | Ok (VN x), Ok (VN y) => Ok (VN (x + y)) | Ok (VS x), Ok (VS y) => Ok (VS (x ++ y)) | Ok (VL x), Ok (VL y) => Ok (VL (x ++ y))
        | Ok (VT x), Ok (VT y) => Ok (VT (x ++ y)) | Ok _, Ok _ => rerr | Err z, _ => Err z | _, Err z => Err z end).
    rewrite !eval_attr, (G r0 A B). reflexivity. }
  rewrite exec_block_cons, exec_assign, EP by (lk; auto).
  rewrite exec_block_cons, exec_assign, EX by (lk; auto).
  rewrite exec_block_cons, exec_if. cbn [eval]. lk. cbn [val_eqb truthy].
  destruct (String.eqb (pfx f) (explicit_pfx f)).
  { rewrite exec_block_cons, exec_raise. reflexivity. }
  rewrite exec_block_nil.
  rewrite exec_block_cons, exec_assign, eval_comp, eval_split_dot, eval_var. lk. cbv beta iota. rewrite words_comp. cbn [wrapL].
  rewrite exec_block_cons, exec_assign, eval_comp, eval_split_dot, eval_var. lk. cbv beta iota. rewrite words_comp. cbn [wrapL].
  rewrite exec_block_cons, exec_if. cbn [eval]. lk. rewrite !map_length. cbn [truthy].
  set (av := words (explicit_pfx f)). set (us := words (pfx f)).
  assert (LE : negb (Nat.ltb (List.length us) (List.length av)) = Nat.leb (List.length av) (List.length us)).
  { destruct (Nat.leb (List.length av) (List.length us)) eqn:E; [apply Nat.leb_le in E | apply Nat.leb_gt in E];
      [apply negb_true_iff, Nat.ltb_ge; exact E | apply negb_false_iff, Nat.ltb_lt; exact E]. }
  rewrite LE. destruct (Nat.leb (List.length av) (List.length us)) eqn:E.
  { rewrite exec_block_cons, exec_raise. reflexivity. }
  apply Nat.leb_gt in E. rewrite exec_block_nil.
  rewrite exec_block_cons, exec_assign. cbn [eval]. lk. rewrite map_length.
  rewrite exec_block_cons, exec_assign. cbn [eval]. lk. rewrite map_length.
  rewrite exec_block_cons, exec_assign. cbn [eval]. lk.
  assert (L1 : Nat.leb 1 (List.length av) = true) by (apply Nat.leb_le; lia). rewrite L1.
  assert (L2 : Nat.leb (List.length us) (List.length av - 1) = true) by (apply Nat.leb_le; lia). rewrite L2.
  ops. rewrite nth_error_map.
  assert (L3 : List.length av - 1 - List.length us < List.length av) by lia.
  rewrite (nth_error_nth' av "" L3). cbn [option_map].
  rewrite exec_block_cons, exec_setpath. cbn [eval eval_path]. lk. ops. lk. rewrite HF.
  rewrite (set_prefix_store c fs i _ Hi). rewrite exec_block_nil.
  eexists. split; [reflexivity|]. lk. fold f. rewrite append_assoc. reflexivity.
Qed.

Lemma auto_loop c : forall ids fs r,
  lookup "FIELDS" r = Some (store c fs) -> Forall (fun i => i < List.length fs) ids ->
  match auto_all auto_index_gen exhausted_err_gen fs ids with
  | Err e => iter_list (fun v r => exec_block (assign "field_wrapper" v r) auto_body) (map VN ids) r = Err (enc_err e)
  | Ok fs' => exists r', iter_list (fun v r => exec_block (assign "field_wrapper" v r) auto_body) (map VN ids) r = Ok (r', None)
                         /\ lookup "FIELDS" r' = Some (store c fs')
  end.
Proof.
  induction ids as [|i t IH]; intros fs r HF Hall; cbn [auto_all map iter_list].
  - exists r. auto.
  - inversion Hall as [|? ? Hi Ht]; subst. pose proof (auto_step c fs i r HF Hi) as S.
    destruct (auto_one auto_index_gen exhausted_err_gen (nth_fw fs i)) as [f'|e]; [|rewrite S; reflexivity].
    destruct S as [r' [E F]]. rewrite E. apply IH; [exact F|].
    rewrite update_length. exact Ht.
Qed.

(* sorted(conflict.wrappers, key=lambda w: w.nesting_level) on references *)
From Coq Require Import Permutation.
Lemma ins_by_perm {A} (k : A -> nat) x l : Permutation (ins_by k x l) (x :: l).
Proof.
  induction l as [|y t IH]; [apply Permutation_refl|]. cbn [ins_by]. destruct (Nat.ltb (k x) (k y)); [apply Permutation_refl|].
  eapply Permutation_trans; [apply perm_skip, IH | apply perm_swap].
Qed.
Lemma sort_by_perm_acc {A} (k : A -> nat) l : forall acc, Permutation (fold_left (fun a x => ins_by k x a) l acc) (l ++ acc).
Proof.
  induction l as [|x t IH]; intros acc; [apply Permutation_refl|]. cbn [fold_left app].
  eapply Permutation_trans; [apply IH|]. eapply Permutation_trans; [apply Permutation_app_head, ins_by_perm|].
  apply Permutation_sym, Permutation_middle.
Qed.
Lemma sort_by_perm {A} (k : A -> nat) l : Permutation (sort_by k l) l.
Proof. unfold sort_by. eapply Permutation_trans; [apply sort_by_perm_acc|]. rewrite app_nil_r. apply Permutation_refl. Qed.

Lemma nat_nodupb_NoDup l : nat_nodupb l = true <-> NoDup l.
Proof.
  induction l as [|x t IH]; cbn [nat_nodupb]; [split; [constructor | reflexivity]|].
  rewrite andb_true_iff, negb_true_iff, IH. split.
  - intros [H1 H2]. constructor; [|exact H2]. intros Hin.
    assert (existsb (Nat.eqb x) t = true) by (apply existsb_exists; exists x; split; [exact Hin | apply Nat.eqb_refl]). congruence.
  - intros H. inversion H as [|? ? Hn Hd]; subst. split; [|exact Hd].
    destruct (existsb (Nat.eqb x) t) eqn:E; [|reflexivity]. apply existsb_exists in E as [y [Hy Ey]]. apply Nat.eqb_eq in Ey. subst. contradiction.
Qed.

Lemma sorted_refs_ok n k ids : refs_ok n ids = true -> refs_ok n (sort_by k ids) = true.
Proof.
  unfold refs_ok. rewrite !andb_true_iff. intros [A B]. split.
  - apply forallb_forall. intros x Hx. rewrite forallb_forall in A. apply A.
    eapply Permutation_in; [apply sort_by_perm | exact Hx].
  - apply nat_nodupb_NoDup. eapply Permutation_NoDup; [apply Permutation_sym, sort_by_perm|]. apply nat_nodupb_NoDup. exact B.
Qed.

Lemma ins_key_refs (k : nat -> nat) x : forall l,
  ins_key false (k x) (VN x) (map (fun i => (k i, VN i)) l) = map (fun i => (k i, VN i)) (ins_by k x l).
Proof.
  induction l as [|y t IH]; [reflexivity|]. cbn [map ins_key ins_by]. destruct (Nat.ltb (k x) (k y)); [reflexivity|]. cbn [map]. now rewrite IH.
Qed.
Lemma sort_keyed_refs (k : nat -> nat) ids : sort_keyed false (map (fun i => (k i, VN i)) ids) = map VN (sort_by k ids).
Proof.
  unfold sort_keyed, sort_by.
  assert (G : forall l acc, fold_left (fun a p => ins_key false (fst p) (snd p) a) (map (fun i => (k i, VN i)) l) (map (fun i => (k i, VN i)) acc)
              = map (fun i => (k i, VN i)) (fold_left (fun a x => ins_by k x a) l acc)).
  { induction l as [|x t IH]; intros acc; [reflexivity|]. cbn [map fold_left fst snd]. rewrite ins_key_refs. apply IH. }
  change (@nil (nat * val)) with (map (fun i => (k i, VN i)) []). rewrite G, map_map. reflexivity.
Qed.

Lemma keyed_refs c fs r : lookup "FIELDS" r = Some (store c fs) -> forall ids, Forall (fun i => i < List.length fs) ids ->
  keyed_by (fun v => eval (assign "w" v r) (EAttr (EGetItem (EVar "FIELDS") (EVar "w")) "nesting_level")) (map VN ids)
  = Ok (map (fun i => (level (nth_fw fs i), VN i)) ids).
Proof.
  intros HF.
  assert (EV : forall i, i < List.length fs ->
            eval (assign "w" (VN i) r) (EAttr (EGetItem (EVar "FIELDS") (EVar "w")) "nesting_level") = Ok (VN (level (nth_fw fs i)))).
  { intros i Hi. rewrite eval_attr. cbn [eval]. lk. rewrite HF. unfold store. ops. rewrite (store_get c fs i Hi). reflexivity. }
  induction ids as [|i t IH]; intros Hall; [reflexivity|]. inversion Hall as [|? ? Hi Ht]; subst.
  cbn [map keyed_by]. rewrite (EV i Hi), (IH Ht). reflexivity.
Qed.

Lemma eval_sortkey r a x key rev :
  eval r (ESortKey a x key rev) =
  match eval r a with
  | Ok (VL l) => match keyed_by (fun v => eval (assign x v r) key) l with Ok kl => Ok (VL (sort_keyed rev kl)) | Err z => Err z end
  | Ok _ => rerr | Err z => Err z end.
Proof. reflexivity. Qed.

Definition fa_env (c : cfg) (fs : list fw) (selfv : val) (o : string) (ids : list nat) : env :=
  [("FIELDS", store c fs); ("self", selfv); ("conflict", enc_conflict (Some (o, ids)))].

Definition final_store (x : res (env * option val)) : res val :=
  match x with Ok (r, _) => match lookup "FIELDS" r with Some v => Ok v | None => Err (Raise "NameError") end | Err z => Err z end.

(* _fix_conflict_auto: what it leaves in the store *)
Theorem fix_auto_is_model c fs selfv o ids :
  refs_ok (List.length fs) ids = true -> 2 <= List.length ids ->
  final_store (exec_block (fa_env c fs selfv o ids) fix_conflict_auto_src)
  = match fix_auto auto_index_gen exhausted_err_gen skip_first_strict_gen fs ids with
    | Ok fs' => Ok (store c fs')
    | Err e => Err (enc_err e)
    end.
Proof.
  intros Hok Hlen. unfold final_store, fix_auto, skip_first_strict_gen.
  set (k := fun i => level (nth_fw fs i)).
  pose proof (sorted_refs_ok _ k ids Hok) as Hs.
  assert (Hl : List.length (sort_by k ids) = List.length ids) by (apply Permutation_length, sort_by_perm).
  destruct (sort_by k ids) as [|a [|b rest]] eqn:Es; cbn [List.length] in Hl; try lia.
  assert (HF : lookup "FIELDS" (fa_env c fs selfv o ids) = Some (store c fs)) by reflexivity.
  assert (HC : lookup "conflict" (fa_env c fs selfv o ids) = Some (enc_conflict (Some (o, ids)))) by reflexivity.
  set (r0 := fa_env c fs selfv o ids) in *. clearbody r0.
  assert (Hall : Forall (fun i => i < List.length fs) ids).
  { unfold refs_ok in Hok. apply andb_true_iff in Hok as [A _]. apply Forall_forall. intros i Hi. rewrite forallb_forall in A. apply Nat.ltb_lt, A, Hi. }
  assert (Hall' : Forall (fun i => i < List.length fs) (a :: b :: rest)).
  { unfold refs_ok in Hs. apply andb_true_iff in Hs as [A _]. apply Forall_forall. intros i Hi. rewrite forallb_forall in A. apply Nat.ltb_lt, A, Hi. }
  unfold fix_conflict_auto_src.
  (* field_wrappers = sorted(..) *)
  rewrite exec_block_cons, exec_assign, eval_sortkey, eval_attr, eval_var, HC. unfold attr_of. cbn [enc_conflict rget String.eqb Ascii.eqb Bool.eqb].
  rewrite (keyed_refs c fs r0 HF ids Hall).
  change (map (fun i => (level (nth_fw fs i), VN i)) ids) with (map (fun i => (k i, VN i)) ids). rewrite (sort_keyed_refs k ids), Es.
  (* the assert on the number of distinct references *)
  rewrite exec_block_cons, exec_assert. cbn [eval]. lk. cbn [op_countdistinct seq_items].
  change (@nil val) with (map VN []).
  rewrite distinct_nodup; [| unfold refs_ok in Hs; apply andb_true_iff in Hs as [_ B]; exact B | apply forallb_forall; intros; reflexivity].
  cbn [List.length]. assert (L2 : Nat.ltb (S (S (List.length rest))) 2 = false) by (apply Nat.ltb_ge; lia). rewrite L2. cbn [negb truthy].
  (* first, second *)
  rewrite exec_block_cons, exec_assign. cbn [eval]. lk. cbn [map nth_error].
  rewrite exec_block_cons, exec_assign. cbn [eval]. lk. cbn [map nth_error].
  assert (LV : forall r1 x i, lookup "FIELDS" r1 = Some (store c fs) -> lookup x r1 = Some (VN i) -> i < List.length fs ->
               eval r1 (EAttr (EGetItem (EVar "FIELDS") (EVar x)) "nesting_level") = Ok (VN (k i))).
  { intros r1 x i A B Hi. rewrite eval_attr. cbn [eval]. rewrite A, B. unfold store. ops. rewrite (store_get c fs i Hi). reflexivity. }
  inversion Hall' as [|? ? Ha Hb']; subst. inversion Hb' as [|? ? Hb Hr]; subst.
  rewrite exec_block_cons, exec_if.
  change (eval ?r (EGt ?x ?y)) with (match eval r x, eval r y with
     | Ok (VN x0), Ok (VN y0) => Ok (VB (Nat.ltb y0 x0)) | Ok _, Ok _ => rerr | Err z, _ => Err z | _, Err z => Err z end).
  rewrite (LV _ "second_wrapper" b), (LV _ "first_wrapper" a) by (lk; auto). cbn [truthy]. fold (k a) (k b).
  destruct (Nat.ltb (k a) (k b)).
  - rewrite exec_block_cons, exec_remove. cbn [eval]. lk. cbn [st_remove]. lk. cbn [map remove_first val_eqb]. rewrite Nat.eqb_refl.
    rewrite !exec_block_nil. rewrite exec_block_cons, exec_for, eval_var. lk.
    match goal with |- context [iter_list ?f ?l ?r1] =>
      change f with (fun v r => exec_block (assign "field_wrapper" v r) auto_body);
      pose proof (auto_loop c (b :: rest) fs r1) as L end.
    destruct (auto_all auto_index_gen exhausted_err_gen fs (b :: rest)) as [fs'|e].
    + destruct L as [r' [E F]]; [lk; exact HF | exact Hb'|]. cbn [map] in E. rewrite E, exec_block_nil, F. reflexivity.
    + cbn [map] in L. rewrite L; [reflexivity | lk; exact HF | exact Hb'].
  - rewrite !exec_block_nil. rewrite exec_block_cons, exec_for, eval_var. lk.
    match goal with |- context [iter_list ?f ?l ?r1] =>
      change f with (fun v r => exec_block (assign "field_wrapper" v r) auto_body);
      pose proof (auto_loop c (a :: b :: rest) fs r1) as L end.
    destruct (auto_all auto_index_gen exhausted_err_gen fs (a :: b :: rest)) as [fs'|e].
    + destruct L as [r' [E F]]; [lk; exact HF | exact Hall'|]. cbn [map] in E. rewrite E, exec_block_nil, F. reflexivity.
    + cbn [map] in L. rewrite L; [reflexivity | lk; exact HF | exact Hall'].
Qed.

(* ---------- the loop of resolve_and_flatten: its skeleton over the dumped functions ---------- *)
Definition gc_call (t : string) (arg : expr) : stmt :=
  SCallRet t get_conflict_src [("FIELDS", EVar "FIELDS"); ("self", EVar "self"); ("wrappers", arg)] [].
Definition fix_call (body : block) : stmt :=
  SCall body [("FIELDS", EVar "FIELDS"); ("self", EVar "self"); ("conflict", EVar "conflict")] [("FIELDS", "FIELDS")].
Definition mode_is (m : string) : expr := EEq (EAttr (EVar "self") "conflict_resolution") (EStr m).

(* resolve_and_flatten from the first get_conflict on is exactly: conflict = get_conflict(flat); cur = 0; while conflict (at most
   max_attempts rounds): NONE -> raise ConflictResolutionError | EXPLICIT -> _fix_conflict_explicit | ALWAYS_MERGE -> not modelled |
   AUTO -> _fix_conflict_auto; conflict = get_conflict(flat); cur += 1; if cur == max_attempts: raise; then
   assert not _conflict_exists(flat); return flat - over the dumped bodies of those methods *)
Lemma resolve_skeleton :
  resolve_src =
  [gc_call "conflict" (EVar "wrappers_flat");
   SAssign "cur_attempts" (ENat 0);
   SWhile resolver_max_attempts (EVar "conflict")
     [SIf (mode_is "ConflictResolution.NONE") [SRaise "ConflictResolutionError"]
        [SIf (mode_is "ConflictResolution.EXPLICIT") [fix_call fix_conflict_explicit_src]
           [SIf (mode_is "ConflictResolution.ALWAYS_MERGE") [SRaise "MergeNotModelled"]
              [SIf (mode_is "ConflictResolution.AUTO") [fix_call fix_conflict_auto_src] []]]];
      gc_call "conflict" (EVar "wrappers_flat");
      SAssign "cur_attempts" (EAdd (EVar "cur_attempts") (ENat 1));
      SIf (EEq (EVar "cur_attempts") (EAttr (EVar "self") "max_attempts")) [SRaise "ConflictResolutionError"] []];
   SCallRet "result of self._conflict_exists" conflict_exists_src
     [("FIELDS", EVar "FIELDS"); ("self", EVar "self"); ("all_wrappers", EVar "wrappers_flat")] [];
   SAssert (ENot (EVar "result of self._conflict_exists"));
   SReturn (EVar "wrappers_flat")]
  /\ resolver_max_attempts = max_attempts_gen.
Proof. split; reflexivity. Qed.

(* _fix_conflict_explicit calls get_conflict on the references of the conflict *)
Lemma explicit_skeleton :
  nth 2 fix_conflict_explicit_src (SRaise "") = gc_call "another_conflict" (EAttr (EVar "conflict") "wrappers").
Proof. reflexivity. Qed.
