(* Proofs/OptionEffect.v — C03, second half, across the two engines: the conflict resolver (Model/OptStr.v) and the
   token-level argparse model (Model/ArgparseM.v).  The field wrappers of a successfully resolved forest are registered
   as argparse `store` actions (one per wrapper: its option strings, its dotted destination, nargs=None, a converter, a
   string default, not required); then writing ANY of the generated option strings followed by one value token stores
   the converted token at that wrapper's destination and leaves every other destination at its converted default:
   the namespace is `set_ns` of the empty-command-line namespace at that single destination.
   Also for the one-token spelling `opt=value`. *)
From SPV Require Import Base.Str Model.Namespace Model.LeafSpec Model.ArgparseM Model.ArgparseMSpec
     Proofs.ArgparseMProofs.
From SPV Require Import Model.OptStr Gen.FactsConflicts Proofs.OptStrProofs Proofs.ConflictsProofs.

(* ====================================================================== *)
(* small facts about the resolver's vocabulary                            *)
(* ====================================================================== *)
Lemma dest_shape f : dest (shape f) = dest f.
Proof. reflexivity. Qed.

Lemma positional_shape f : positional (shape f) = positional f.
Proof. reflexivity. Qed.

Lemma map_shape_transfer {B} (g : fw -> B) (fs fs' : list fw) :
  (forall f, g (shape f) = g f) -> map shape fs' = map shape fs -> map g fs' = map g fs.
Proof.
  intros Hg E.
  assert (X : forall l, map g l = map g (map shape l)).
  { intros l. rewrite map_map. apply map_ext. intros f. now rewrite Hg. }
  rewrite (X fs'), (X fs), E. reflexivity.
Qed.

(* destinations are pairwise distinct as soon as the (path, name) pairs are, for dot-free words *)
Definition words_nodot (f : fw) : bool := forallb nodot (path f ++ [name f]).

Lemma dest_inj f g : words_nodot f = true -> words_nodot g = true -> dest f = dest g -> (path f, name f) = (path g, name g).
Proof.
  unfold words_nodot, dest. intros Hf Hg E.
  apply join_dot_inj in E; [| destruct (path f); discriminate | destruct (path g); discriminate | exact Hf | exact Hg].
  apply app_inj_tail in E as [-> ->]. reflexivity.
Qed.

Lemma nodup_dest_of_pairs fs :
  forallb words_nodot fs = true -> NoDup (map (fun f => (path f, name f)) fs) -> NoDup (map dest fs).
Proof.
  induction fs as [|f r IH]; intros W N; cbn [map]; [constructor|].
  cbn [forallb] in W. apply andb_true_iff in W as [Wf Wr].
  cbn [map] in N. inversion N as [|? ? Hf Hr]; subst. constructor; [|exact (IH Wr Hr)].
  intros Hin. apply in_map_iff in Hin as [g [E Hg]]. apply Hf.
  rewrite forallb_forall in Wr.
  rewrite <- (dest_inj g f (Wr g Hg) Wf E). apply (in_map (fun f0 => (path f0, name f0))). exact Hg.
Qed.

(* every generated option string of a non-positional field wrapper starts with '-' *)
Lemma alias_parts_dash a : fst (alias_parts a) = "-" \/ fst (alias_parts a) = "--".
Proof.
  unfold alias_parts. destruct (prefixb "--" a); [now right|]. destruct (prefixb "-" a); [now left|].
  cbn [fst]. apply dash_for_cases.
Qed.

Lemma raw_pairs_dash c f p : In p (raw_pairs c f) -> fst p = "-" \/ fst p = "--".
Proof.
  unfold raw_pairs.
  set (cands := match gm c with GFlat => _ | GNested => _ | GBoth => _ end).
  set (gen := (map (fun o => (dash_for (name f), o)) cands
               ++ (if String.eqb (dash_for (name f)) "-" then map (fun o => ("--", o)) cands else []))%list).
  set (als := map (fun a => let (d, n) := alias_parts a in (d, pfx f ++ n)) (aliases f)).
  assert (B : forall q, In q (gen ++ als)%list -> fst q = "-" \/ fst q = "--").
  { intros q Hq. apply in_app_or in Hq as [Hq|Hq].
    - unfold gen in Hq. apply in_app_or in Hq as [Hq|Hq].
      + apply in_map_iff in Hq as [x [<- _]]. cbn [fst]. apply dash_for_cases.
      + destruct (String.eqb (dash_for (name f)) "-"); [|contradiction].
        apply in_map_iff in Hq as [x [<- _]]. now right.
    - unfold als in Hq. apply in_map_iff in Hq as [a [<- _]].
      pose proof (alias_parts_dash a) as Ha. destruct (alias_parts a) as [d n]. exact Ha. }
  intros Hp. apply in_app_or in Hp as [Hp|Hp]; [exact (B p Hp)|].
  destruct (dv c); try contradiction.
  apply in_map_iff in Hp as [q [<- _]]. cbn [fst]. apply dash_for_cases.
Qed.

Lemma option_strings_dashed c f o : positional f = false -> In o (option_strings c f) -> prefixb "-" o = true.
Proof.
  intros P H. apply (option_strings_In c f o P) in H. unfold raw_options in H. rewrite P in H.
  apply in_map_iff in H as [p [<- Hp]]. destruct (raw_pairs_dash c f p Hp) as [-> | ->]; reflexivity.
Qed.

(* ====================================================================== *)
(* small facts about the option table                                     *)
(* ====================================================================== *)
Lemma lookup_opt_nodup (tbl : list (string * nat)) : NoDup (map fst tbl) ->
  forall o i, In (o, i) tbl -> lookup_opt tbl o = Some i.
Proof.
  unfold lookup_opt. induction tbl as [|[k j] r IH]; intros N o i H; [contradiction|].
  cbn [map fst] in N. inversion N as [|? ? Hk Hr]; subst. cbn [filter fst].
  destruct H as [H|H].
  - injection H as -> ->. now rewrite String.eqb_refl.
  - destruct (String.eqb k o) eqn:E; [|exact (IH Hr o i H)].
    apply String.eqb_eq in E. subst k. exfalso. apply Hk. change o with (fst (o, i)). now apply in_map.
Qed.

Lemma lookup_opt_absent (tbl : list (string * nat)) t : ~ In t (map fst tbl) -> lookup_opt tbl t = None.
Proof.
  intros H. destruct (lookup_opt tbl t) as [i|] eqn:E; [|reflexivity].
  apply lookup_opt_In in E. exfalso. apply H. change t with (fst (t, i)). now apply in_map.
Qed.

Lemma split_eq_app o v : has_char "="%char o = false -> split_eq (o ++ "=" ++ v) = Some (o, v).
Proof.
  unfold split_eq. intros H.
  assert (G : forall a acc, has_char "="%char a = false ->
              split_at_char "="%char (a ++ "=" ++ v) acc = Some (acc ++ a, v)).
  { induction a as [|x r IH]; intros acc Ha.
    - cbn [append split_at_char]. rewrite Ascii.eqb_refl, append_nil_r. reflexivity.
    - cbn [has_char] in Ha. apply orb_false_iff in Ha as [Hx Hr].
      cbn [append split_at_char]. rewrite Hx, (IH _ Hr), append_assoc. reflexivity. }
  exact (G o "" H).
Qed.

(* the `=` spelling of an exact option string is lexed as that option with an explicit argument *)
Lemma classify_eq ab tbl hn o v i :
  prefixb "-" o = true -> has_char "="%char o = false ->
  lookup_opt tbl (o ++ "=" ++ v) = None -> lookup_opt tbl o = Some i ->
  classify ab tbl hn (o ++ "=" ++ v) = CO i o (Some v).
Proof.
  intros D Heq Lt Lo. pose proof (split_eq_app o v Heq) as Hs.
  destruct o as [|c r]; [discriminate|]. rewrite prefixb_dash in D.
  assert (Hlen : Nat.eqb (String.length (String c r ++ "=" ++ v)) 1 = false).
  { rewrite length_append, length_append. cbn [String.length]. apply Nat.eqb_neq. lia. }
  revert Lt Hs Hlen. cbn [append]. set (t := String c (r ++ String "="%char v)). intros Lt Hs Hlen.
  unfold classify. unfold t at 1. cbv beta iota. fold t.
  rewrite Ascii.eqb_sym, D. cbn [negb]. rewrite Lt, Hlen, Hs, Lo. reflexivity.
Qed.

(* ====================================================================== *)
(* the action list of a forest                                            *)
(* ====================================================================== *)
Section Effect.
  Variable V : Type.
  Variable K : Type.
  Variable cvt : K -> string -> res V.
  Variable veqb : V -> V -> bool.
  Variable opts : fw -> list string.       (* the same `opts` as resolve_gen's *)
  Variable k : K.                          (* the converter description given as `type=` *)
  Variable d0 : string.                    (* the (string) default token *)

  (* add_argument(option strings..., dest=<dotted destination>, type=k, default=d0) *)
  Definition act_of_fw (f : fw) : act V K := mkact (opts f) (dest f) NaOne k None (SRaw d0) false.
  Definition acts_of_forest (fs : list fw) : list (act V K) := map act_of_fw fs.

  (* every option string of every wrapper starts with '-' *)
  Definition forest_dashed (fs : list fw) : bool := forallb (fun f => forallb (prefixb "-") (opts f)) fs.

  Lemma forest_dests fs : map a_dest (acts_of_forest fs) = map dest fs.
  Proof. unfold acts_of_forest. rewrite map_map. reflexivity. Qed.

  Lemma forest_opts_dashed fs : opts_dashed (acts_of_forest fs) = forest_dashed fs.
  Proof.
    unfold opts_dashed, forest_dashed, acts_of_forest.
    induction fs as [|f r IH]; cbn [map forallb]; [reflexivity|]. rewrite IH. reflexivity.
  Qed.

  Lemma forest_tbl fs : forall i0, all_opts i0 (acts_of_forest fs) = index_opts opts i0 fs.
  Proof. induction fs as [|f r IH]; intros i0; cbn [acts_of_forest map all_opts index_opts]; [reflexivity|].
         fold (acts_of_forest r). rewrite IH. reflexivity. Qed.

  Lemma forest_tbl_keys fs : map fst (all_opts 0 (acts_of_forest fs)) = List.concat (map opts fs).
  Proof. rewrite forest_tbl. apply map_fst_index_opts. Qed.

  Lemma index_opts_In fs : forall i0 i f o,
    nth_error fs i = Some f -> In o (opts f) -> In (o, i0 + i) (index_opts opts i0 fs).
  Proof.
    induction fs as [|x r IH]; intros i0 i f o Hn Ho; [destruct i; discriminate|].
    cbn [index_opts]. apply in_or_app. destruct i as [|i].
    - injection Hn as ->. left. rewrite Nat.add_0_r. apply (in_map (fun o' => (o', i0))). exact Ho.
    - right. replace (i0 + S i) with (S i0 + i) by lia. exact (IH (S i0) i f o Hn Ho).
  Qed.

  Lemma nth_opts_field fs i o : In o (nth i (map opts fs) []) ->
    nth_error fs i = Some (nth_fw fs i) /\ In o (opts (nth_fw fs i)) /\ i < List.length fs.
  Proof.
    revert i. induction fs as [|x r IH]; intros i H; [destruct i; contradiction|].
    destruct i as [|i]; cbn [map nth] in H.
    - repeat split; [exact H | cbn; lia].
    - destruct (IH i H) as [A [B C]]. repeat split; [exact A | exact B | cbn; lia].
  Qed.

  Lemma forest_lookup fs i o :
    NoDup (List.concat (map opts fs)) -> In o (nth i (map opts fs) []) ->
    lookup_opt (all_opts 0 (acts_of_forest fs)) o = Some i.
  Proof.
    intros N H. destruct (nth_opts_field fs i o H) as [Hn [Ho _]].
    apply lookup_opt_nodup; [rewrite forest_tbl_keys; exact N|].
    rewrite forest_tbl. exact (index_opts_In fs 0 i _ o Hn Ho).
  Qed.

  (* ---------- the per-field specification on at most one written group ---------- *)
  Section OneGroup.
    Variables (v : string) (cv cd : V).
    Hypothesis Hv : cvt k v = Ok cv.
    Hypothesis Hd : cvt k d0 = Ok cd.

    Lemma value_written f : values_of cvt veqb (act_of_fw f) [v] = Ok (SOne cv).
    Proof. unfold values_of, act_of_fw. cbn [a_na a_cv]. rewrite Hv. reflexivity. Qed.

    Lemma spec_fields_sel gs g (sel : nat -> bool) :
      (forall j, last_group j gs = if sel j then Some g else None) -> g_toks g = [v] ->
      forall r i0, spec_fields cvt veqb i0 (acts_of_forest r) gs false
                   = Ok (ns_of (acts_of_forest r) (fun j _ => if sel j then SOne cv else SOne cd) i0).
    Proof.
      intros HL Hg. induction r as [|f r IH]; intros i0; [reflexivity|].
      cbn [acts_of_forest map spec_fields ns_of]. fold (acts_of_forest r).
      rewrite HL. destruct (sel i0).
      - rewrite Hg, value_written, IH. reflexivity.
      - unfold default_value. cbn [act_of_fw a_req a_dflt a_cv a_dest]. rewrite Hd, IH. reflexivity.
    Qed.
  End OneGroup.

  (* ====================================================================== *)
  (* THE THEOREM                                                            *)
  (* ====================================================================== *)
  (* the namespace of the empty command line: every destination holds the converted default *)
  Definition defaults_ns (fs : list fw) (cd : V) : ns (stored V) :=
    ns_of (acts_of_forest fs) (fun _ _ => SOne cd) 0.

  Lemma defaults_lookup fs cd j : NoDup (map dest fs) -> j < List.length fs ->
    lookup (dest (nth_fw fs j)) (defaults_ns fs cd) = Some (SOne cd).
  Proof.
    intros N Hj. unfold defaults_ns.
    assert (Hn : nth_error (acts_of_forest fs) j = Some (act_of_fw (nth_fw fs j))).
    { unfold acts_of_forest. rewrite nth_error_map. unfold nth_fw. rewrite (nth_error_nth' fs (mkfw [] "" "" [] false) Hj). reflexivity. }
    rewrite <- forest_dests in N.
    exact (lookup_ns_of V K (acts_of_forest fs) N (fun _ _ => SOne cd) 0 j _ Hn).
  Qed.

  Section Resolved.
    Variables (m : crmode) (fs fs' : list fw).
    Hypothesis Hres : resolve_gen opts m fs = Ok fs'.
    Hypothesis Hdash : forest_dashed fs' = true.
    Hypothesis Hdest : NoDup (map dest fs).

    Lemma resolved_dests : NoDup (map a_dest (acts_of_forest fs')).
    Proof.
      rewrite forest_dests, (map_shape_transfer dest fs fs' dest_shape (resolve_frame opts m fs fs' Hres)). exact Hdest.
    Qed.

    Lemma resolved_dashed : opts_dashed (acts_of_forest fs') = true.
    Proof. rewrite forest_opts_dashed. exact Hdash. Qed.

    Theorem empty_gives_defaults ab cd : cvt k d0 = Ok cd ->
      parse_args cvt veqb ab (acts_of_forest fs') [] = Ok (defaults_ns fs' cd).
    Proof.
      intros Hd. rewrite (I1_empty V K cvt veqb ab _ resolved_dests resolved_dashed). unfold spec_empty.
      exact (spec_fields_sel d0 cd cd Hd Hd [] (mkgroup 0 "" [d0]) (fun _ => false) (fun _ => eq_refl) eq_refl fs' 0).
    Qed.

    Section OneOption.
      Variables (ab : bool) (i : nat) (o v : string) (cv cd : V).
      Hypothesis Ho : In o (nth i (map opts fs') []).
      Hypothesis Hplain : tok_plain ab (acts_of_forest fs') v = true.
      Hypothesis Hv : cvt k v = Ok cv.
      Hypothesis Hd : cvt k d0 = Ok cd.

      Lemma resolved_lookup : lookup_opt (all_opts 0 (acts_of_forest fs')) o = Some i.
      Proof. exact (forest_lookup fs' i o (resolve_ok_nodup opts m fs fs' Hres) Ho). Qed.

      Lemma resolved_nth : nth_error (acts_of_forest fs') i = Some (act_of_fw (nth_fw fs' i)).
      Proof.
        destruct (nth_opts_field fs' i o Ho) as [Hn _]. unfold acts_of_forest. rewrite nth_error_map, Hn. reflexivity.
      Qed.

      (* `opt value`: exactly one store, at the option's own destination, over the defaults *)
      Theorem option_is_one_store :
        parse_args cvt veqb ab (acts_of_forest fs') [o; v]
        = Ok (set_ns (defaults_ns fs' cd) (dest (nth_fw fs' i)) (SOne cv)).
      Proof.
        pose proof resolved_lookup as L. pose proof resolved_nth as Hn.
        set (g := mkgroup i o [v]).
        assert (G : forallb (group_ok ab (acts_of_forest fs')) [g] = true).
        { cbn [forallb]. unfold group_ok, g. cbn [g_opt g_idx g_toks]. rewrite L, Hn.
          cbn [opt_eqb act_of_fw a_na List.length]. rewrite Nat.eqb_refl.
          unfold tokens_plain. cbn [forallb]. rewrite Hplain. reflexivity. }
        change [o; v] with (flatten [g]).
        rewrite (per_field V K cvt veqb ab _ [g] resolved_dests resolved_dashed G).
        unfold spec_groups. cbn [group_values g g_idx g_toks]. rewrite Hn, (value_written v cv Hv).
        rewrite (spec_fields_sel v cv cd Hv Hd [g] g (fun j => Nat.eqb i j)); [| |reflexivity].
        - f_equal. unfold defaults_ns.
          change (dest (nth_fw fs' i)) with (a_dest (act_of_fw (nth_fw fs' i))).
          rewrite (set_ns_ns_of V K _ resolved_dests _ 0 i _ (SOne cv) Hn).
          apply ns_of_ext. intros j a _. cbn [Nat.add]. rewrite (Nat.eqb_sym i j). reflexivity.
        - intros j. rewrite last_group_cons. reflexivity.
      Qed.

      (* read per destination: the addressed leaf holds the converted token, every other leaf its converted default *)
      Theorem option_changes_exactly_its_leaf :
        exists n n0, parse_args cvt veqb ab (acts_of_forest fs') [o; v] = Ok n
          /\ parse_args cvt veqb ab (acts_of_forest fs') [] = Ok n0
          /\ lookup (dest (nth_fw fs' i)) n = Some (SOne cv)
          /\ (forall j, j <> i -> j < List.length fs' -> lookup (dest (nth_fw fs' j)) n = Some (SOne cd))
          /\ (forall d, d <> dest (nth_fw fs' i) -> lookup d n = lookup d n0).
      Proof.
        exists (set_ns (defaults_ns fs' cd) (dest (nth_fw fs' i)) (SOne cv)), (defaults_ns fs' cd).
        split; [exact option_is_one_store|]. split; [exact (empty_gives_defaults ab cd Hd)|]. split; [apply I2_own_dest|].
        assert (N' : NoDup (map dest fs')) by (rewrite <- forest_dests; exact resolved_dests).
        destruct (nth_opts_field fs' i o Ho) as [_ [_ Hi]].
        split.
        - intros j Hji Hj. rewrite I2_only_own_dest.
          + exact (defaults_lookup fs' cd j N' Hj).
          + intros E. apply Hji. symmetry.
            apply (proj1 (NoDup_nth (map dest fs') (dest (mkfw [] "" "" [] false))) N' i j); [now rewrite map_length | now rewrite map_length|].
            unfold nth_fw in E. rewrite !(map_nth dest). exact E.
        - intros d Hne. apply I2_only_own_dest. intros E. apply Hne. now symmetry.
      Qed.

      (* the one-token spelling `opt=value` (any dashed option string without '=' in it, as long as the
         whole token is not itself a registered option string) *)
      Hypothesis Hnoeq : has_char "="%char o = false.
      Hypothesis Hfresh : str_in (o ++ "=" ++ v) (List.concat (map opts fs')) = false.

      Lemma eq_spelling_same :
        parse_args cvt veqb ab (acts_of_forest fs') [o ++ "=" ++ v] = parse_args cvt veqb ab (acts_of_forest fs') [o; v].
      Proof.
        pose proof resolved_lookup as L. pose proof resolved_nth as Hn.
        assert (D : prefixb "-" o = true) by exact (dashed_opt V K _ o i resolved_dashed L).
        assert (Lt : lookup_opt (all_opts 0 (acts_of_forest fs')) (o ++ "=" ++ v) = None).
        { apply lookup_opt_absent. rewrite forest_tbl_keys. apply str_in_false. exact Hfresh. }
        unfold parse_args.
        rewrite (I3_twin V K cvt veqb ab (acts_of_forest fs') [o ++ "=" ++ v] [o; v] resolved_dashed); [reflexivity|].
        cbn [twin_ok].
        rewrite (classify_eq ab _ _ o v i D Hnoeq Lt L), L, Hn, D, Hplain, !String.eqb_refl.
        cbn [opt_eqb act_of_fw a_na lex map count_A]. rewrite Nat.eqb_refl.
        apply orb_true_r.
      Qed.

      Theorem option_changes_exactly_its_leaf_eq_spelling :
        exists n n0, parse_args cvt veqb ab (acts_of_forest fs') [o ++ "=" ++ v] = Ok n
          /\ parse_args cvt veqb ab (acts_of_forest fs') [] = Ok n0
          /\ lookup (dest (nth_fw fs' i)) n = Some (SOne cv)
          /\ (forall j, j <> i -> j < List.length fs' -> lookup (dest (nth_fw fs' j)) n = Some (SOne cd))
          /\ (forall d, d <> dest (nth_fw fs' i) -> lookup d n = lookup d n0).
      Proof. rewrite eq_spelling_same. exact option_changes_exactly_its_leaf. Qed.
    End OneOption.
  End Resolved.
End Effect.

(* ====================================================================== *)
(* instantiated with the generated option strings (Model/OptStr.v)         *)
(* ====================================================================== *)
Section Generated.
  Variable V : Type.
  Variable K : Type.
  Variable cvt : K -> string -> res V.
  Variable veqb : V -> V -> bool.
  Variable c : cfg.
  Variable k : K.
  Variable d0 : string.
  Notation acts := (acts_of_forest V K (option_strings c) k d0).

  Definition no_positional (fs : list fw) : bool := forallb (fun f => negb (positional f)) fs.

  (* side condition 1, proved: without positional fields every registered option string starts with '-' *)
  Lemma generated_dashed m fs fs' :
    resolve_gen (option_strings c) m fs = Ok fs' -> no_positional fs = true ->
    forest_dashed (option_strings c) fs' = true.
  Proof.
    intros Hres Hp. unfold forest_dashed. rewrite forallb_forall. intros f Hf. rewrite forallb_forall. intros o Ho.
    apply (option_strings_dashed c f o); [|exact Ho].
    pose proof (map_shape_transfer positional fs fs' positional_shape (resolve_frame _ m fs fs' Hres)) as E.
    apply (in_map positional) in Hf. rewrite E in Hf. apply in_map_iff in Hf as [g [Eg Hg]].
    unfold no_positional in Hp. rewrite forallb_forall in Hp. specialize (Hp g Hg).
    rewrite <- Eg. now apply negb_true_iff in Hp.
  Qed.

  Theorem generated_option_changes_exactly_its_leaf m fs fs' ab i o v cv cd :
    resolve_gen (option_strings c) m fs = Ok fs' ->
    no_positional fs = true ->
    forallb words_nodot fs = true ->
    NoDup (map (fun f => (path f, name f)) fs) ->
    In o (nth i (map (option_strings c) fs') []) ->
    tok_plain ab (acts fs') v = true ->
    cvt k v = Ok cv -> cvt k d0 = Ok cd ->
    exists n n0, parse_args cvt veqb ab (acts fs') [o; v] = Ok n
      /\ parse_args cvt veqb ab (acts fs') [] = Ok n0
      /\ lookup (dest (nth_fw fs' i)) n = Some (SOne cv)
      /\ (forall j, j <> i -> j < List.length fs' -> lookup (dest (nth_fw fs' j)) n = Some (SOne cd))
      /\ (forall d, d <> dest (nth_fw fs' i) -> lookup d n = lookup d n0).
  Proof.
    intros Hres Hp Hw Hn. 
    exact (option_changes_exactly_its_leaf V K cvt veqb (option_strings c) k d0 m fs fs' Hres
             (generated_dashed m fs fs' Hres Hp) (nodup_dest_of_pairs fs Hw Hn) ab i o v cv cd).
  Qed.

  Theorem generated_option_changes_exactly_its_leaf_eq_spelling m fs fs' ab i o v cv cd :
    resolve_gen (option_strings c) m fs = Ok fs' ->
    no_positional fs = true ->
    forallb words_nodot fs = true ->
    NoDup (map (fun f => (path f, name f)) fs) ->
    In o (nth i (map (option_strings c) fs') []) ->
    tok_plain ab (acts fs') v = true ->
    cvt k v = Ok cv -> cvt k d0 = Ok cd ->
    has_char "="%char o = false ->
    str_in (o ++ "=" ++ v) (List.concat (map (option_strings c) fs')) = false ->
    exists n n0, parse_args cvt veqb ab (acts fs') [o ++ "=" ++ v] = Ok n
      /\ parse_args cvt veqb ab (acts fs') [] = Ok n0
      /\ lookup (dest (nth_fw fs' i)) n = Some (SOne cv)
      /\ (forall j, j <> i -> j < List.length fs' -> lookup (dest (nth_fw fs' j)) n = Some (SOne cd))
      /\ (forall d, d <> dest (nth_fw fs' i) -> lookup d n = lookup d n0).
  Proof.
    intros Hres Hp Hw Hn.
    exact (option_changes_exactly_its_leaf_eq_spelling V K cvt veqb (option_strings c) k d0 m fs fs' Hres
             (generated_dashed m fs fs' Hres Hp) (nodup_dest_of_pairs fs Hw Hn) ab i o v cv cd).
  Qed.
End Generated.

