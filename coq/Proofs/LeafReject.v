(* Proofs/LeafReject.v — C04, the two mutation classes that are "argparse's own": a missing required field and an
   unknown option are REJECTED with exit status 2 (never coerced, never defaulted), as theorems about the composition
   of the leaf model (Model/Leaf.v: which argparse action each field becomes) with the token-level argparse model
   (Model/ArgparseM.v), for ALL field lists and ALL command lines made of well-formed groups.
   Also: a surplus value token after a complete group of a fixed-arity field is rejected.
   First part: generic facts about the argparse model; second part: the leaf fields, with the converter facts
   regenerated from the source (Gen/FactsBool.v str2bool_gen, Gen/FactsLeaf.v enum_miss_cls_gen). *)
From SPV Require Import Base.Str Model.Namespace Model.Leaf Model.LeafSpec Gen.FactsBool Gen.FactsLeaf
     Model.ArgparseM Model.ArgparseMSpec Proofs.ArgparseMProofs Proofs.ArgparsePipeline.

(* ====================================================================== *)
(* generic: errors of the argparse model when converters only fail through *)
(* argparse's error path                                                   *)
(* ====================================================================== *)
Definition fixed_arity (n : nargs_t) (k : nat) : bool :=
  match n with NaOne => Nat.eqb k 1 | NaNum m => Nat.eqb k m | _ => false end.

Lemma fixed_arity_count n k extra : fixed_arity n k = true -> count_for n (k + extra) = Some k.
Proof.
  destruct n as [| | | |m]; cbn [fixed_arity count_for]; intros H; try discriminate; apply Nat.eqb_eq in H; subst.
  - reflexivity.
  - destruct (Nat.leb_spec m (m + extra)); [reflexivity | lia].
Qed.

Lemma fixed_arity_admissible n k : fixed_arity n k = true -> admissible n k = true.
Proof.
  intros H. unfold admissible. pose proof (fixed_arity_count n k 0 H) as E. rewrite Nat.add_0_r in E.
  rewrite E. cbn [opt_eqb]. apply Nat.eqb_refl.
Qed.

Lemma asA_no_ambig vs : existsb (fun p => is_ambig (snd p)) (asA vs) = false.
Proof. induction vs as [|t r IH]; [reflexivity | exact IH]. Qed.

Section G.
  Variable V : Type.
  Variable K : Type.
  Variable cvt : K -> string -> res V.
  Variable veqb : V -> V -> bool.
  Notation actT := (act V K).
  Notation run := (run cvt veqb).
  Notation values_of := (values_of cvt veqb).
  Notation finish := (finish cvt).
  Notation parse_known := (parse_known cvt veqb).
  Notation parse_args := (parse_args cvt veqb).
  Notation group_values := (group_values cvt veqb).
  Implicit Types (acts : list actT).

  (* every converter of the action set fails only with ValueError/TypeError/ArgumentTypeError *)
  Definition cvt_exit2 acts : Prop := forall a, In a acts -> forall s x, cvt (a_cv a) s = Err x -> x = Exit 2.

  (* a token argparse takes for an option it does not know: not an option string, not an `opt=v` spelling, not an
     abbreviation or single-dash prefix of one, not negative-number-like (unless the parser has such options), no blank *)
  Definition tok_unknown (ab : bool) acts (u : string) : bool :=
    let tbl := all_opts 0 acts in
    match classify ab tbl (has_neg tbl) u with CUnknown => true | _ => false end.

  Lemma finish_err_exit2 acts : cvt_exit2 acts -> forall l i seen n m e,
    (forall a, In a l -> In a acts) -> finish i l seen n m = Err e -> e = Exit 2.
  Proof.
    intros C. induction l as [|a r IH]; intros i seen n m e Hin H; cbn [ArgparseM.finish] in H.
    - destruct m; [now injection H as <- | discriminate].
    - assert (Hr : forall b, In b r -> In b acts) by (intros b Hb; apply Hin; now right).
      destruct (existsb (Nat.eqb i) seen); [exact (IH _ _ _ _ _ Hr H)|].
      destruct (a_req a); [exact (IH _ _ _ _ _ Hr H)|].
      destruct (a_dflt a) as [dv| |dvs|s]; try exact (IH _ _ _ _ _ Hr H).
      destruct (holds_raw n (a_dest a) s); [|exact (IH _ _ _ _ _ Hr H)].
      destruct (cvt (a_cv a) s) as [v|x] eqn:E; [exact (IH _ _ _ _ _ Hr H)|].
      injection H as <-. exact (C a (Hin a (or_introl eq_refl)) s x E).
  Qed.

  Lemma group_values_err_exit2 acts gs e : cvt_exit2 acts -> group_values acts gs = Err e -> e = Exit 2.
  Proof.
    intros C. induction gs as [|g gs IH]; cbn [ArgparseMSpec.group_values]; [discriminate|].
    destruct (nth_error acts (g_idx g)) as [a|] eqn:Hn; [|intros H; now injection H as <-].
    destruct (values_of a (g_toks g)) as [v|x] eqn:Hv.
    - destruct (group_values acts gs) as [l|x]; [discriminate|]. intros H. injection H as <-. now apply IH.
    - intros H. injection H as <-. apply (I5_exit2 _ _ cvt veqb a (g_toks g) x); [|exact Hv].
      intros s y _ Hs. exact (C a (nth_error_In _ _ Hn) s y Hs).
  Qed.

  (* the token loop over the groups, continued on whatever follows them *)
  Lemma run_lexed_app acts : forall gs n seen ex rest,
    groups_indexed acts gs -> head_not_A rest ->
    run acts n seen ex 0 (lexed gs ++ rest) =
      match group_values acts gs with
      | Err e => Err e
      | Ok occs => run acts (apply_all occs n) (rev (map g_idx gs) ++ seen)%list ex 0 rest
      end.
  Proof.
    induction gs as [|g gs IH]; intros n seen ex rest H Hr; [reflexivity|].
    destruct (H g (or_introl eq_refl)) as [a [Hn Ha]].
    change (lexed (g :: gs)) with (((g_opt g, CO (g_idx g) (g_opt g) None) :: asA (g_toks g)) ++ lexed gs)%list.
    rewrite <- app_assoc. cbn [app].
    assert (Hh : head_not_A (lexed gs ++ rest)) by (destruct gs; [exact Hr | reflexivity]).
    rewrite (I2_group_step _ _ cvt veqb acts n seen ex _ _ a _ _ Hn Ha Hh).
    cbn [ArgparseMSpec.group_values]. rewrite Hn.
    destruct (values_of a (g_toks g)) as [v|e]; [|reflexivity].
    rewrite IH by (try exact Hr; intros g' Hg'; apply H; now right).
    destruct (group_values acts gs) as [occs|e]; [|reflexivity].
    cbn [map rev]. rewrite <- app_assoc. reflexivity.
  Qed.

  Lemma existsb_ambig_app (x y : list (string * cls)) :
    existsb (fun p => is_ambig (snd p)) (x ++ y) =
    existsb (fun p => is_ambig (snd p)) x || existsb (fun p => is_ambig (snd p)) y.
  Proof. apply existsb_app. Qed.

  (* what parse_args answers once the token loop is known to end with a leftover (or with an error) *)
  Lemma parse_args_leftover ab acts argv :
    cvt_exit2 acts ->
    existsb (fun p => is_ambig (snd p)) (lex ab acts argv) = false ->
    match run acts (init_ns acts) [] [] 0 (lex ab acts argv) with
    | Ok (_, _, ex) => ex <> []
    | Err e => e = Exit 2
    end ->
    parse_args ab acts argv = Err (Exit 2).
  Proof.
    intros C Ha Hr. unfold ArgparseM.parse_args, ArgparseM.parse_known. rewrite Ha.
    destruct (run acts (init_ns acts) [] [] 0 (lex ab acts argv)) as [[[n seen] ex]|e]; [|now subst].
    destruct (finish 0 acts seen n false) as [n'|e] eqn:F.
    - destruct ex; [contradiction | reflexivity].
    - f_equal. exact (finish_err_exit2 acts C acts 0 seen n false e (fun a H => H) F).
  Qed.

  (* ---------- an unknown option between two runs of well-formed groups ---------- *)
  Theorem unknown_option_rejected ab acts gs1 u gs2 :
    opts_dashed acts = true -> cvt_exit2 acts ->
    forallb (group_ok ab acts) gs1 = true -> forallb (group_ok ab acts) gs2 = true ->
    tok_unknown ab acts u = true ->
    parse_args ab acts (flatten gs1 ++ u :: flatten gs2) = Err (Exit 2).
  Proof.
    intros D C H1 H2 Hu.
    assert (L : lex ab acts (flatten gs1 ++ u :: flatten gs2) = (lexed gs1 ++ (u, CUnknown) :: lexed gs2)%list).
    { change (u :: flatten gs2) with ([u] ++ flatten gs2)%list.
      rewrite !lex_app, (lex_flatten _ _ ab acts gs1 D H1), (lex_flatten _ _ ab acts gs2 D H2).
      unfold tok_unknown in Hu. unfold lex at 1. cbn [map app].
      destruct (classify ab (all_opts 0 acts) (has_neg (all_opts 0 acts)) u); try discriminate. reflexivity. }
    apply parse_args_leftover; [exact C | |]; rewrite L.
    - rewrite existsb_ambig_app. cbn [existsb snd is_ambig orb]. now rewrite !lexed_no_ambig.
    - rewrite (run_lexed_app acts gs1 _ _ _ _ (groups_ok_indexed _ _ ab acts gs1 H1)) by reflexivity.
      destruct (group_values acts gs1) as [o1|e] eqn:G1; [|exact (group_values_err_exit2 acts gs1 e C G1)].
      cbn [ArgparseM.run app].
      rewrite <- (app_nil_r (lexed gs2)).
      rewrite (run_lexed_app acts gs2 _ _ _ _ (groups_ok_indexed _ _ ab acts gs2 H2)) by reflexivity.
      destruct (group_values acts gs2) as [o2|e] eqn:G2; [|exact (group_values_err_exit2 acts gs2 e C G2)].
      cbn [ArgparseM.run]. discriminate.
  Qed.

  (* ---------- one value token too many after a complete group of a fixed-arity option ---------- *)
  Lemma I2_fixed_surplus acts n seen ex i o a vs v rest :
    nth_error acts i = Some a -> fixed_arity (a_na a) (List.length vs) = true ->
    run acts n seen ex 0 ((o, CO i o None) :: asA vs ++ (v, CA) :: rest) =
      match values_of a vs with
      | Ok x => run acts (set_ns n (a_dest a) x) (i :: seen) (ex ++ [v])%list 0 rest
      | Err e => Err e
      end.
  Proof.
    intros Hn Hf. cbn [ArgparseM.run]. rewrite Hn, count_A_asA, (fixed_arity_count _ _ _ Hf).
    rewrite firstn_asA, map_fst_asA.
    destruct (values_of a vs) as [x|e]; [|reflexivity].
    rewrite <- (asA_length vs), run_skip. reflexivity.
  Qed.

  Theorem surplus_token_rejected ab acts gs1 g v gs2 a :
    opts_dashed acts = true -> cvt_exit2 acts ->
    forallb (group_ok ab acts) gs1 = true -> group_ok ab acts g = true -> forallb (group_ok ab acts) gs2 = true ->
    nth_error acts (g_idx g) = Some a -> fixed_arity (a_na a) (List.length (g_toks g)) = true ->
    tok_plain ab acts v = true ->
    parse_args ab acts (flatten gs1 ++ group_tokens g ++ v :: flatten gs2) = Err (Exit 2).
  Proof.
    intros D C H1 Hg H2 Hn Hf Hv.
    destruct (group_ok_inv _ _ ab acts g Hg) as [HL [_ HP]].
    assert (L : lex ab acts (flatten gs1 ++ group_tokens g ++ v :: flatten gs2) =
                (lexed gs1 ++ (g_opt g, CO (g_idx g) (g_opt g) None) :: asA (g_toks g) ++ (v, CA) :: lexed gs2)%list).
    { unfold group_tokens.
      change (g_opt g :: g_toks g)%list with ([g_opt g] ++ g_toks g)%list.
      change (v :: flatten gs2) with ([v] ++ flatten gs2)%list.
      rewrite !lex_app, (lex_flatten _ _ ab acts gs1 D H1), (lex_flatten _ _ ab acts gs2 D H2),
              (lex_exact _ _ ab acts _ _ D HL), (lex_plain _ _ ab acts _ HP).
      rewrite (lex_plain _ _ ab acts [v]) by (cbn [tokens_plain forallb]; unfold tokens_plain; cbn [forallb]; now rewrite Hv).
      rewrite <- !app_assoc. reflexivity. }
    apply parse_args_leftover; [exact C | |]; rewrite L.
    - rewrite existsb_ambig_app, lexed_no_ambig. cbn [existsb snd is_ambig orb].
      rewrite existsb_ambig_app. cbn [existsb snd is_ambig orb]. rewrite lexed_no_ambig, orb_false_r.
      apply asA_no_ambig.
    - rewrite (run_lexed_app acts gs1 _ _ _ _ (groups_ok_indexed _ _ ab acts gs1 H1)) by reflexivity.
      destruct (group_values acts gs1) as [o1|e] eqn:G1; [|exact (group_values_err_exit2 acts gs1 e C G1)].
      rewrite (I2_fixed_surplus acts _ _ _ _ _ a _ v _ Hn Hf).
      destruct (values_of a (g_toks g)) as [x|e] eqn:Hx.
      + rewrite <- (app_nil_r (lexed gs2)).
        rewrite (run_lexed_app acts gs2 _ _ _ _ (groups_ok_indexed _ _ ab acts gs2 H2)) by reflexivity.
        destruct (group_values acts gs2) as [o2|e] eqn:G2; [|exact (group_values_err_exit2 acts gs2 e C G2)].
        cbn [ArgparseM.run app]. discriminate.
      + apply (I5_exit2 _ _ cvt veqb a (g_toks g) e); [|exact Hx].
        intros s y _ Hs. exact (C a (nth_error_In _ _ Hn) s y Hs).
  Qed.

  (* ---------- a required option that is not written ---------- *)
  Theorem required_rejected ab acts gs j a :
    NoDup (map a_dest acts) -> opts_dashed acts = true -> cvt_exit2 acts ->
    forallb (group_ok ab acts) gs = true ->
    nth_error acts j = Some a -> a_req a = true -> ~ In j (map g_idx gs) ->
    parse_args ab acts (flatten gs) = Err (Exit 2).
  Proof.
    intros N D C H Hj Hr Hnin.
    destruct (I5_required _ _ cvt veqb ab acts gs j a N D H Hj Hr Hnin) as [e He]. rewrite He. f_equal.
    rewrite (composition _ _ cvt veqb ab acts gs D H) in He.
    destruct (group_values acts gs) as [occs|x] eqn:G.
    - exact (finish_err_exit2 acts C acts 0 _ _ false e (fun b Hb => Hb) He).
    - injection He as <-. exact (group_values_err_exit2 acts gs x C G).
  Qed.
End G.

Arguments cvt_exit2 {V K}. Arguments tok_unknown {V K}.

(* ====================================================================== *)
(* the leaf fields of a dataclass                                          *)
(* ====================================================================== *)
(* a field: destination, annotation, default (None = the field is required) — as CorrDefs/CorrC02.v fcase *)
Record rfield := mkrfield { rf_dest : string; rf_ty : ty; rf_dflt : option raw }.

Definition lfield_of (f : rfield) : lfield :=
  mklfield (rf_dest f) (rf_ty f) (match rf_dflt f with Some d => d | None => RNone end).

(* the same add_argument call as Proofs/ArgparsePipeline.v act_of_field (option `--dest`, nargs / converter / choices from
   Leaf.arg_options), required exactly when the field has no default *)
Definition act_of_rfield (f : rfield) : act value conv :=
  let a := act_of_field (lfield_of f) in
  mkact (a_opts a) (a_dest a) (a_na a) (a_cv a) (a_choices a) (a_dflt a)
        (match rf_dflt f with None => true | Some _ => false end).
Definition acts_of_rfields (fs : list rfield) : list (act value conv) := map act_of_rfield fs.

(* same side condition as ARGP_leaf_pipeline: a store action (no bool flag) with a position-free converter *)
Definition rfield_ok (f : rfield) : bool := field_ok (lfield_of f).

(* converters whose every failure is one argparse catches *)
Definition conv_exit2 (emc : string) (k : conv) : bool :=
  match k with
  | KEnum _ => caught emc
  | KFail cls => caught cls
  | KSeq _ => false
  | _ => true
  end.

Section L.
  Variable str2bool : string -> option bool.
  Variable emc : string.
  Hypothesis emc_caught : caught emc = true.

  Lemma conv_exit2_sound k : conv_exit2 emc k = true -> forall i s x, convert str2bool emc k i s = Err x -> x = Exit 2.
  Proof.
    destruct k as [| | | | |ms|cls|ks|k']; unfold conv_exit2; cbn [convert]; intros H i s x E; try discriminate.
    - destruct (py_int s); [discriminate | now injection E as <-].
    - destruct (py_float s); [discriminate | now injection E as <-].
    - destruct (str2bool s); [discriminate | now injection E as <-].
    - destruct (str_in s ms); [discriminate|]. injection E as <-. unfold conv_err. now rewrite H.
    - injection E as <-. unfold conv_err. now rewrite H.
    - destruct (convert str2bool emc k' i s); [discriminate | now injection E as <-].
  Qed.

  Lemma parsing_fn_exit2 : forall t, no_seq (parsing_fn t) = true -> conv_exit2 emc (parsing_fn t) = true.
  Proof.
    fix IH 1. intros t. destruct t as [| | | | |ms|cs|u|ts|u|u]; cbn [parsing_fn]; intros H; try reflexivity.
    - exact emc_caught.
    - apply IH, H.
    - destruct ts as [|t0 r]; [reflexivity|].
      destruct (forallb (ty_eqb t0) r); [apply IH, H | discriminate].
    - apply IH, H.
  Qed.

  Lemma container_conv_exit2 u : no_seq (container_conv u) = true -> conv_exit2 emc (container_conv u) = true.
  Proof.
    destruct u; cbn [container_conv]; intros H; try reflexivity; try exact emc_caught;
      try (apply parsing_fn_exit2; exact H).
  Qed.

  Lemma arg_options_exit2 t n k ch :
    arg_options t = AStore n k ch -> no_seq k = true -> conv_exit2 emc k = true.
  Proof.
    intros E H.
    assert (P : forall t', k = parsing_fn t' -> conv_exit2 emc k = true)
      by (intros t' ->; apply parsing_fn_exit2; exact H).
    assert (Q : forall u', k = container_conv u' -> conv_exit2 emc k = true)
      by (intros u' ->; apply container_conv_exit2; exact H).
    destruct t as [| | | | |ms|cs|u|ts|u|u]; cbn [arg_options] in E.
    - injection E as _ <- _. reflexivity.
    - injection E as _ <- _. reflexivity.
    - injection E as _ <- _. reflexivity.
    - discriminate.
    - injection E as _ <- _. reflexivity.
    - injection E as _ <- _. reflexivity.
    - injection E as _ <- _. reflexivity.
    - injection E as _ E _. symmetry in E. exact (Q _ E).
    - injection E as _ E _. symmetry in E. exact (P (TTupFix ts) E).
    - injection E as _ E _. symmetry in E. exact (P (TTupVar u) E).
    - destruct u as [| | | | |ms|cs|u'|ts'|u'|u']; injection E as _ E _; symmetry in E;
        first [exact (P TInt E) | exact (P TFloat E) | exact (P TStr E) | exact (P TBool E) | exact (P TPath E)
              | exact (P (TEnum ms) E) | exact (P (TLit cs) E) | exact (Q u' E) | exact (P (TTupFix ts') E)
              | exact (P (TTupVar u') E) | exact (P (TOpt u') E)].
  Qed.

  Lemma rfields_cvt_exit2 fs :
    forallb rfield_ok fs = true -> cvt_exit2 (lcvt str2bool emc) (acts_of_rfields fs).
  Proof.
    intros F a Ha s x E. unfold acts_of_rfields in Ha. apply in_map_iff in Ha as [f [<- Hf]].
    rewrite forallb_forall in F. specialize (F f Hf).
    unfold rfield_ok, field_ok in F. unfold act_of_rfield, act_of_field in E.
    destruct (arg_options (lf_ty (lfield_of f))) as [n k ch|] eqn:A; [|discriminate].
    cbn [a_cv] in E. unfold lcvt in E.
    exact (conv_exit2_sound k (arg_options_exit2 _ n k ch A F) 0 s x E).
  Qed.

  Lemma rfields_dashed fs : opts_dashed (acts_of_rfields fs) = true.
  Proof.
    unfold opts_dashed, acts_of_rfields. rewrite forallb_forall. intros a Ha.
    apply in_map_iff in Ha as [f [<- _]]. unfold act_of_rfield, act_of_field.
    destruct (arg_options (lf_ty (lfield_of f))); reflexivity.
  Qed.

  Lemma rfields_dests fs : map a_dest (acts_of_rfields fs) = map rf_dest fs.
  Proof.
    unfold acts_of_rfields. rewrite map_map. apply map_ext. intros f. unfold act_of_rfield, act_of_field.
    destruct (arg_options (lf_ty (lfield_of f))); reflexivity.
  Qed.

  Lemma rfields_nth fs j : nth_error (acts_of_rfields fs) j = option_map act_of_rfield (nth_error fs j).
  Proof. apply nth_error_map. Qed.

  (* (a) a required field that is not written *)
  Theorem leaf_missing_required_rejected ab fs gs j f :
    NoDup (map rf_dest fs) -> forallb rfield_ok fs = true ->
    forallb (group_ok ab (acts_of_rfields fs)) gs = true ->
    nth_error fs j = Some f -> rf_dflt f = None -> ~ In j (map g_idx gs) ->
    parse_args (lcvt str2bool emc) value_eqb ab (acts_of_rfields fs) (flatten gs) = Err (Exit 2).
  Proof.
    intros N F H Hj Hd Hnin.
    apply (required_rejected _ _ _ value_eqb ab _ gs j (act_of_rfield f)); try assumption.
    - rewrite rfields_dests. exact N.
    - apply rfields_dashed.
    - apply rfields_cvt_exit2, F.
    - rewrite rfields_nth, Hj. reflexivity.
    - unfold act_of_rfield. cbn [a_req]. now rewrite Hd.
  Qed.

  (* (b) an option that is not registered, written at a group boundary *)
  Theorem leaf_unknown_option_rejected ab fs gs1 u gs2 :
    forallb rfield_ok fs = true ->
    forallb (group_ok ab (acts_of_rfields fs)) gs1 = true -> forallb (group_ok ab (acts_of_rfields fs)) gs2 = true ->
    tok_unknown ab (acts_of_rfields fs) u = true ->
    parse_args (lcvt str2bool emc) value_eqb ab (acts_of_rfields fs) (flatten gs1 ++ u :: flatten gs2) = Err (Exit 2).
  Proof.
    intros F H1 H2 Hu. apply unknown_option_rejected; try assumption.
    - apply rfields_dashed.
    - apply rfields_cvt_exit2, F.
  Qed.

  (* (c) one value token too many after a complete group of a fixed-arity field (nargs None or N) *)
  Theorem leaf_surplus_token_rejected ab fs gs1 g v gs2 f :
    forallb rfield_ok fs = true ->
    forallb (group_ok ab (acts_of_rfields fs)) gs1 = true -> group_ok ab (acts_of_rfields fs) g = true ->
    forallb (group_ok ab (acts_of_rfields fs)) gs2 = true ->
    nth_error fs (g_idx g) = Some f ->
    fixed_arity (a_na (act_of_rfield f)) (List.length (g_toks g)) = true ->
    tok_plain ab (acts_of_rfields fs) v = true ->
    parse_args (lcvt str2bool emc) value_eqb ab (acts_of_rfields fs)
               (flatten gs1 ++ group_tokens g ++ v :: flatten gs2) = Err (Exit 2).
  Proof.
    intros F H1 Hg H2 Hn Hf Hv.
    apply (surplus_token_rejected _ _ _ value_eqb ab _ gs1 g v gs2 (act_of_rfield f)); try assumption.
    - apply rfields_dashed.
    - apply rfields_cvt_exit2, F.
    - rewrite rfields_nth, Hn. reflexivity.
  Qed.
End L.

(* ---------- with the converter facts regenerated from the source ---------- *)
Definition cvt_gen := lcvt str2bool_gen enum_miss_cls_gen.
Definition leaf_parse_args (ab : bool) (fs : list rfield) (argv : list string) : res (ns (stored value)) :=
  parse_args cvt_gen value_eqb ab (acts_of_rfields fs) argv.

Lemma enum_miss_cls_gen_caught : caught enum_miss_cls_gen = true.
Proof. vm_compute. reflexivity. Qed.

Theorem missing_required_rejected_gen ab fs gs j f :
  NoDup (map rf_dest fs) -> forallb rfield_ok fs = true ->
  forallb (group_ok ab (acts_of_rfields fs)) gs = true ->
  nth_error fs j = Some f -> rf_dflt f = None -> ~ In j (map g_idx gs) ->
  leaf_parse_args ab fs (flatten gs) = Err (Exit 2).
Proof. exact (leaf_missing_required_rejected str2bool_gen enum_miss_cls_gen enum_miss_cls_gen_caught ab fs gs j f). Qed.

Theorem unknown_option_rejected_gen ab fs gs1 u gs2 :
  forallb rfield_ok fs = true ->
  forallb (group_ok ab (acts_of_rfields fs)) gs1 = true -> forallb (group_ok ab (acts_of_rfields fs)) gs2 = true ->
  tok_unknown ab (acts_of_rfields fs) u = true ->
  leaf_parse_args ab fs (flatten gs1 ++ u :: flatten gs2) = Err (Exit 2).
Proof. exact (leaf_unknown_option_rejected str2bool_gen enum_miss_cls_gen enum_miss_cls_gen_caught ab fs gs1 u gs2). Qed.

Theorem surplus_token_rejected_gen ab fs gs1 g v gs2 f :
  forallb rfield_ok fs = true ->
  forallb (group_ok ab (acts_of_rfields fs)) gs1 = true -> group_ok ab (acts_of_rfields fs) g = true ->
  forallb (group_ok ab (acts_of_rfields fs)) gs2 = true ->
  nth_error fs (g_idx g) = Some f ->
  fixed_arity (a_na (act_of_rfield f)) (List.length (g_toks g)) = true ->
  tok_plain ab (acts_of_rfields fs) v = true ->
  leaf_parse_args ab fs (flatten gs1 ++ group_tokens g ++ v :: flatten gs2) = Err (Exit 2).
Proof. exact (leaf_surplus_token_rejected str2bool_gen enum_miss_cls_gen enum_miss_cls_gen_caught ab fs gs1 g v gs2 f). Qed.
