(* Proofs/FrontProofs.v — the model of the callable front-ends (Model/Front.v, instantiated with the REGENERATED facts)
   meets what C20 demands, for every signature / value map / call-site arguments (no size bound). *)
From Coq Require Import Permutation.
From SPV Require Import Base.Str Model.Front Model.FrontSpec Gen.FactsFront.

(* ====================================================================== *)
(* generic list facts                                                      *)
(* ====================================================================== *)
Lemma filter_comm {A} (f g : A -> bool) l : filter f (filter g l) = filter g (filter f l).
Proof.
  induction l as [|x r IH]; [reflexivity|]. cbn [filter].
  destruct (g x) eqn:G; destruct (f x) eqn:Fx; cbn [filter]; rewrite ?G, ?Fx, IH; reflexivity.
Qed.

Lemma filter_map_comm {A B} (h : A -> B) (f : B -> bool) (g : A -> bool) l :
  (forall x, f (h x) = g x) -> filter f (map h l) = map h (filter g l).
Proof.
  intros E. induction l as [|x r IH]; [reflexivity|]. cbn [map filter]. rewrite E.
  destruct (g x); cbn [map]; rewrite IH; reflexivity.
Qed.

Lemma partition_perm {A} (d : A -> bool) l :
  Permutation (filter (fun x => negb (d x)) l ++ filter d l) l.
Proof.
  induction l as [|x r IH]; [constructor|]. cbn [filter]. destruct (d x); cbn [negb app].
  - apply Permutation_sym. eapply Permutation_trans; [|apply Permutation_middle].
    constructor. apply Permutation_sym. exact IH.
  - constructor. exact IH.
Qed.

Lemma partition_perm2 {A} (k d : A -> bool) l :
  Permutation (filter (fun x => k x && negb (d x)) l ++ filter (fun x => k x && d x) l) (filter k l).
Proof.
  induction l as [|x r IH]; [constructor|]. cbn [filter]. destruct (k x); cbn [andb]; [|exact IH].
  destruct (d x); cbn [negb app].
  - apply Permutation_sym. eapply Permutation_trans; [|apply Permutation_middle].
    constructor. apply Permutation_sym. exact IH.
  - constructor. exact IH.
Qed.

Lemma ordered_true_all {A} (d : A -> bool) l : forallb d l = true -> forall b, ordered d b l = true.
Proof.
  induction l as [|x r IH]; intros H b; [reflexivity|]. cbn [forallb] in H. apply andb_true_iff in H as [Hx Hr].
  cbn [ordered]. rewrite Hx. apply IH. exact Hr.
Qed.

Lemma ordered_app {A} (d : A -> bool) l1 l2 :
  forallb (fun x => negb (d x)) l1 = true -> forallb d l2 = true -> ordered d false (l1 ++ l2) = true.
Proof.
  intros H1 H2. induction l1 as [|x r IH]; cbn [app].
  - apply ordered_true_all. exact H2.
  - cbn [forallb] in H1. apply andb_true_iff in H1 as [Hx Hr]. apply negb_true_iff in Hx.
    cbn [ordered]. rewrite Hx. cbn [negb andb]. apply IH. exact Hr.
Qed.

Lemma ordered_seen_all {A} (d : A -> bool) l : ordered d true l = true -> forallb d l = true.
Proof.
  induction l as [|x r IH]; intros H; [reflexivity|]. cbn [ordered] in H. cbn [forallb].
  destruct (d x); [cbn [andb]; apply IH; exact H | cbn [negb andb] in H; discriminate].
Qed.

(* an ordered list is its unmarked part followed by its marked part *)
Lemma ordered_split {A} (d : A -> bool) l :
  ordered d false l = true -> (filter (fun x => negb (d x)) l ++ filter d l)%list = l.
Proof.
  induction l as [|x r IH]; intros H; [reflexivity|]. cbn [ordered] in H. cbn [filter].
  destruct (d x) eqn:Dx; cbn [negb].
  - apply ordered_seen_all in H.
    assert (E : filter (fun y => negb (d y)) r = []).
    { clear -H. induction r as [|y q IH]; [reflexivity|]. cbn [forallb] in H. apply andb_true_iff in H as [Hy Hq].
      cbn [filter]. rewrite Hy. cbn [negb]. apply IH. exact Hq. }
    rewrite E. cbn [app]. f_equal.
    clear -H. induction r as [|y q IH]; [reflexivity|]. cbn [forallb] in H. apply andb_true_iff in H as [Hy Hq].
    cbn [filter]. rewrite Hy. f_equal. apply IH. exact Hq.
  - cbn [negb andb] in H. cbn [app]. f_equal. apply IH. exact H.
Qed.

Lemma forallb_filter_id {A} (f : A -> bool) l : forallb f (filter f l) = true.
Proof. induction l as [|x r IH]; [reflexivity|]. cbn [filter]. destruct (f x) eqn:E; [cbn [forallb]; rewrite E|]; exact IH. Qed.

Lemma existsb_same_elems {A} (f : A -> bool) l1 l2 :
  (forall x, In x l1 <-> In x l2) -> existsb f l1 = existsb f l2.
Proof.
  intros H. destruct (existsb f l1) eqn:E1; destruct (existsb f l2) eqn:E2; try reflexivity.
  - apply existsb_exists in E1 as [x [Hx Fx]]. apply H in Hx.
    assert (existsb f l2 = true) by (apply existsb_exists; exists x; auto). congruence.
  - apply existsb_exists in E2 as [x [Hx Fx]]. apply H in Hx.
    assert (existsb f l1 = true) by (apply existsb_exists; exists x; auto). congruence.
Qed.

(* stable sort by a 0/1 key = the 0s, then the 1s, each in their original order *)
Section Sort01.
  Context {A : Type} (d : A -> bool).
  Let key (x : A) : nat := if d x then 1 else 0.

  Lemma ins_by_marked x l : d x = true -> ins_by key x l = (l ++ [x])%list.
  Proof.
    intros Dx. induction l as [|y r IH]; [reflexivity|]. cbn [ins_by app]. unfold key at 1 2. rewrite Dx.
    destruct (d y); cbn [Nat.ltb Nat.leb]; rewrite IH; reflexivity.
  Qed.

  Lemma ins_by_unmarked x l1 l2 :
    d x = false -> forallb (fun y => negb (d y)) l1 = true -> forallb d l2 = true ->
    ins_by key x (l1 ++ l2) = (l1 ++ x :: l2)%list.
  Proof.
    intros Dx H1 H2. induction l1 as [|y r IH]; cbn [app].
    - destruct l2 as [|z q]; [reflexivity|]. cbn [forallb] in H2. apply andb_true_iff in H2 as [Hz _].
      cbn [ins_by]. unfold key. rewrite Dx, Hz. reflexivity.
    - cbn [forallb] in H1. apply andb_true_iff in H1 as [Hy Hr]. apply negb_true_iff in Hy.
      cbn [ins_by]. unfold key at 1 2. rewrite Dx, Hy. cbn [Nat.ltb Nat.leb]. rewrite IH by exact Hr. reflexivity.
  Qed.

  Lemma sort_by_fold l : forall l1 l2,
    forallb (fun y => negb (d y)) l1 = true -> forallb d l2 = true ->
    fold_left (fun acc x => ins_by key x acc) l (l1 ++ l2)%list
    = ((l1 ++ filter (fun y => negb (d y)) l) ++ (l2 ++ filter d l))%list.
  Proof.
    induction l as [|x r IH]; intros l1 l2 H1 H2.
    - cbn [fold_left filter]. rewrite !app_nil_r. reflexivity.
    - cbn [fold_left filter]. destruct (d x) eqn:Dx; cbn [negb].
      + rewrite ins_by_marked by exact Dx. rewrite <- app_assoc.
        rewrite (IH l1 (l2 ++ [x])%list H1).
        * rewrite <- !app_assoc. reflexivity.
        * rewrite forallb_app, H2. cbn [forallb]. rewrite Dx. reflexivity.
      + rewrite ins_by_unmarked by assumption.
        replace (l1 ++ x :: l2)%list with ((l1 ++ [x]) ++ l2)%list by (rewrite <- app_assoc; reflexivity).
        rewrite (IH (l1 ++ [x])%list l2).
        * rewrite <- !app_assoc. reflexivity.
        * rewrite forallb_app, H1. cbn [forallb]. rewrite Dx. reflexivity.
        * exact H2.
  Qed.

  Lemma sort_by_01 l : sort_by key l = (filter (fun y => negb (d y)) l ++ filter d l)%list.
  Proof. unfold sort_by. apply (sort_by_fold l [] []); reflexivity. Qed.
End Sort01.

(* ====================================================================== *)
(* assoc lists                                                             *)
(* ====================================================================== *)
Section Assoc.
  Context {V : Type}.
  Implicit Types (l base upd : list (string * V)) (k : string).

  Lemma lookup_app l1 l2 k :
    lookup (l1 ++ l2) k = match lookup l1 k with Some v => Some v | None => lookup l2 k end.
  Proof.
    induction l1 as [|[k' v] r IH]; [reflexivity|]. cbn [app lookup]. destruct (String.eqb k k'); [reflexivity | exact IH].
  Qed.

  Lemma lookup_none_iff l k : lookup l k = None <-> str_in k (keys l) = false.
  Proof.
    unfold keys. induction l as [|[k' v] r IH]; cbn [lookup map fst str_in existsb]; [tauto|].
    fold (str_in k (map fst r)). destruct (String.eqb k k'); cbn [orb]; [split; discriminate | exact IH].
  Qed.

  (* a dict built from names by a function of the name *)
  Lemma lookup_by_name {A} (nm : A -> string) (g : string -> V) (L : list A) k :
    lookup (map (fun q => (nm q, g (nm q))) L) k = if str_in k (map nm L) then Some (g k) else None.
  Proof.
    induction L as [|q r IH]; [reflexivity|]. cbn [map lookup str_in existsb]. fold (str_in k (map nm r)).
    destruct (String.eqb k (nm q)) eqn:E; cbn [orb]; [apply String.eqb_eq in E; subst; reflexivity | exact IH].
  Qed.

  Lemma keys_by_name {A} (nm : A -> string) (g : string -> V) (L : list A) :
    keys (map (fun q => (nm q, g (nm q))) L) = map nm L.
  Proof. unfold keys. rewrite map_map. reflexivity. Qed.

  Lemma dict_update_nil_r l : dict_update l [] = l.
  Proof.
    unfold dict_update. cbn [filter lookup]. rewrite app_nil_r.
    induction l as [|[k v] r IH]; [reflexivity|]. cbn [map fst snd]. rewrite IH. reflexivity.
  Qed.

  Lemma dict_update_nil_l l : dict_update [] l = l.
  Proof.
    unfold dict_update, keys. cbn [map app]. induction l as [|kv r IH]; [reflexivity|].
    cbn [filter]. unfold str_in at 1. cbn [existsb negb]. f_equal. exact IH.
  Qed.

  Lemma lookup_updated_part base upd k :
    lookup (map (fun kv => (fst kv, match lookup upd (fst kv) with Some v => v | None => snd kv end)) base) k
    = match lookup base k with
      | Some b => Some (match lookup upd k with Some v => v | None => b end)
      | None => None
      end.
  Proof.
    induction base as [|[k' v] r IH]; [reflexivity|]. cbn [map lookup fst snd].
    destruct (String.eqb k k') eqn:E; [apply String.eqb_eq in E; subst; reflexivity | exact IH].
  Qed.

  Lemma lookup_new_part base upd k :
    str_in k (keys base) = false ->
    lookup (filter (fun kv => negb (str_in (fst kv) (keys base))) upd) k = lookup upd k.
  Proof.
    intros Hk. induction upd as [|[k' v] r IH]; [reflexivity|]. cbn [filter fst lookup].
    destruct (String.eqb k k') eqn:E.
    - apply String.eqb_eq in E. subst k'. rewrite Hk. cbn [negb lookup]. rewrite String.eqb_refl. reflexivity.
    - destruct (negb (str_in k' (keys base))); [cbn [lookup]; rewrite E|]; exact IH.
  Qed.

  (* d = dict(base); d.update(upd): upd wins, everything else is kept *)
  Lemma lookup_dict_update base upd k :
    lookup (dict_update base upd) k = match lookup upd k with Some v => Some v | None => lookup base k end.
  Proof.
    unfold dict_update. rewrite lookup_app, lookup_updated_part.
    destruct (lookup base k) eqn:B.
    - destruct (lookup upd k); reflexivity.
    - apply lookup_none_iff in B. rewrite lookup_new_part by exact B. destruct (lookup upd k); reflexivity.
  Qed.

  Lemma keys_dict_update base upd :
    keys (dict_update base upd) = (keys base ++ filter (fun k => negb (str_in k (keys base))) (keys upd))%list.
  Proof.
    unfold dict_update, keys. rewrite map_app, map_map. cbn [fst]. f_equal.
    induction upd as [|kv r IH]; [reflexivity|]. cbn [filter map].
    destruct (negb (str_in (fst kv) (map fst base))); cbn [map]; rewrite IH; reflexivity.
  Qed.
End Assoc.

(* ====================================================================== *)
(* signatures                                                              *)
(* ====================================================================== *)
Section Sigs.
  Context {V : Type}.
  Implicit Types (s : sig V) (p q : param V).

  Definition nonpo (p : param V) : bool := negb (is_po p).

  Lemma nonpo_kw_capable p : nonpo p = true -> kw_capable (p_kind p) = true.
  Proof. unfold nonpo, is_po. destruct (p_kind p); cbn; congruence. Qed.
  Lemma po_kinds p : is_po p = true -> pos_capable (p_kind p) = true /\ kw_capable (p_kind p) = false.
  Proof. unfold is_po. destruct (p_kind p); cbn; intros; split; congruence. Qed.

  Lemma name_inj s p q :
    NoDup (map p_name s) -> In p s -> In q s -> p_name p = p_name q -> p = q.
  Proof.
    induction s as [|x r IH]; intros N Hp Hq E; [contradiction|].
    cbn [map] in N. inversion N as [|? ? Nx Nr]; subst.
    destruct Hp as [Hp|Hp]; destruct Hq as [Hq|Hq]; subst.
    - reflexivity.
    - exfalso. apply Nx. rewrite E. apply in_map. exact Hq.
    - exfalso. apply Nx. rewrite <- E. apply in_map. exact Hp.
    - apply IH; assumption.
  Qed.

  Lemma filter_all {A} (f : A -> bool) l : forallb f l = true -> filter f l = l.
  Proof.
    induction l as [|y q IH]; intros H; [reflexivity|]. cbn [forallb] in H. apply andb_true_iff in H as [Hy Hq].
    cbn [filter]. rewrite Hy. f_equal. apply IH. exact Hq.
  Qed.
  Lemma filter_none_po (l : sig V) : forallb nonpo l = true -> filter is_po l = [].
  Proof.
    induction l as [|y q IH]; intros H; [reflexivity|]. cbn [forallb] in H. apply andb_true_iff in H as [Hy Hq].
    unfold nonpo in Hy. apply negb_true_iff in Hy. cbn [filter]. rewrite Hy. apply IH. exact Hq.
  Qed.

  (* positional-only parameters form a prefix *)
  Lemma po_prefix s :
    forallb nonpo (skip_po s) = true -> s = (filter is_po s ++ filter nonpo s)%list.
  Proof.
    induction s as [|p r IH]; intros H; [reflexivity|]. cbn [skip_po] in H. cbn [filter].
    assert (Np : nonpo p = negb (is_po p)) by reflexivity.
    destruct (is_po p) eqn:E; rewrite Np; cbn [negb].
    - cbn [app]. f_equal. apply IH. exact H.
    - cbn [forallb] in H. apply andb_true_iff in H as [_ Hr].
      rewrite (filter_none_po r Hr), (filter_all nonpo r Hr). reflexivity.
  Qed.
End Sigs.

(* ====================================================================== *)
(* decorators.main                                                         *)
(* ====================================================================== *)
Section Main.
  Context {V : Type}.
  Variable F : facts.
  Hypothesis Fpos : f_main_pos_kinds F = [PosOnly].
  Hypothesis Fsorted : f_main_sorted F = true.
  Hypothesis Fkeys : String.eqb (f_field_pos_key F) (f_main_pos_key F) = true.
  Implicit Types (s : sig V) (p q : param V) (vals : string -> V).

  Definition reqs_of s := filter (fun p => negb (has_def p)) s.
  Definition defs_of s := filter has_def s.

  Lemma main_order_eq s : main_order F s = (reqs_of s ++ defs_of s)%list.
  Proof. unfold main_order. rewrite Fsorted. unfold pkey. apply (sort_by_01 (@has_def V)). Qed.

  Lemma main_order_perm s : Permutation (main_order F s) s.
  Proof. rewrite main_order_eq. apply partition_perm. Qed.

  Lemma main_order_in s p : In p (main_order F s) <-> In p s.
  Proof. split; apply Permutation_in; [|apply Permutation_sym]; apply main_order_perm. Qed.

  Lemma fl_pos_main p : fl_pos (main_field F p) = is_po p.
  Proof. unfold main_field. cbn [fl_pos]. rewrite Fpos, Fkeys. cbn [existsb]. rewrite orb_false_r, andb_true_r. reflexivity. Qed.

  Lemma fl_has_def_main p : fl_has_def (main_field F p) = has_def p.
  Proof. reflexivity. Qed.

  (* the synthesised class is accepted by dataclasses: required fields first *)
  Lemma main_fields_ordered s : order_ok false (main_fields F s) = true.
  Proof.
    unfold order_ok, main_fields. rewrite main_order_eq, map_app. apply ordered_app.
    - unfold reqs_of. induction s as [|p r IH]; [reflexivity|]. cbn [filter]. destruct (has_def p) eqn:E; cbn [negb map forallb].
      + exact IH.
      + rewrite fl_has_def_main, E. exact IH.
    - unfold defs_of. induction s as [|p r IH]; [reflexivity|]. cbn [filter]. destruct (has_def p) eqn:E; cbn [map forallb].
      + rewrite fl_has_def_main, E. exact IH.
      + exact IH.
  Qed.

  Lemma main_fields_perm s : Permutation (main_fields F s) (map (main_field F) s).
  Proof. unfold main_fields. apply Permutation_map, main_order_perm. Qed.

  (* filtering the ordered parameters: when the filtered sub-list is itself ordered, its order is the signature's *)
  Lemma filter_main_order (g : param V -> bool) s :
    ordered has_def false (filter g s) = true -> filter g (main_order F s) = filter g s.
  Proof.
    intros H. rewrite main_order_eq, filter_app. unfold reqs_of, defs_of.
    rewrite (filter_comm g), (filter_comm g has_def). apply ordered_split. exact H.
  Qed.

  Lemma filter_main_order_perm (g : param V -> bool) s : Permutation (filter g (main_order F s)) (filter g s).
  Proof.
    rewrite main_order_eq, filter_app. unfold reqs_of, defs_of.
    rewrite (filter_comm g), (filter_comm g has_def). apply partition_perm.
  Qed.

  Definition main_safe s : bool :=
    negb (existsb (fun p => has_def p && main_refuses F p) s)
    && (negb (existsb (fun p => is_bool_ann (p_ann p)) s) || match main_bogus F with [] => true | _ => false end).

  Lemma existsb_main_fields (g : fld V -> bool) (h : param V -> bool) s :
    (forall p, g (main_field F p) = h p) -> existsb g (main_fields F s) = existsb h s.
  Proof.
    intros E. unfold main_fields.
    rewrite (existsb_same_elems h s (main_order F s)) by (intros x; symmetry; apply main_order_in).
    induction (main_order F s) as [|p r IH]; [reflexivity|]. cbn [map existsb]. rewrite E, IH. reflexivity.
  Qed.

  Lemma main_setup_ok s : main_safe s = true -> setup F (main_fields F s) = Ok tt.
  Proof.
    unfold main_safe, setup. intros H. apply andb_true_iff in H as [Hm Hb]. apply negb_true_iff in Hm.
    rewrite (existsb_main_fields _ (fun p => has_def p && main_refuses F p)) by reflexivity. rewrite Hm.
    rewrite main_fields_ordered. cbn [negb].
    rewrite (existsb_main_fields _ (fun p => is_bool_ann (p_ann p) && match main_bogus F with [] => false | _ => true end))
      by reflexivity.
    destruct (main_bogus F) eqn:B.
    - assert (E : existsb (fun p : param V => is_bool_ann (p_ann p) && false) s = false).
      { clear. induction s as [|p r IH]; [reflexivity|]. cbn [existsb]. rewrite andb_false_r. exact IH. }
      rewrite E. reflexivity.
    - rewrite orb_false_r in Hb. apply negb_true_iff in Hb.
      assert (E : existsb (fun p : param V => is_bool_ann (p_ann p) && true) s = false).
      { rewrite <- Hb. clear. induction s as [|p r IH]; [reflexivity|]. cbn [existsb]. rewrite andb_true_r, IH. reflexivity. }
      rewrite E. reflexivity.
  Qed.

  (* a bool parameter with a forwarded keyword the boolean action cannot take: set-up fails *)
  Lemma main_setup_bool_fails s :
    existsb (fun p => has_def p && main_refuses F p) s = false ->
    existsb (fun p => is_bool_ann (p_ann p)) s = true -> main_bogus F <> [] ->
    setup F (main_fields F s) = Err TE.
  Proof.
    intros Hm Hb Hbog. unfold setup.
    rewrite (existsb_main_fields _ (fun p => has_def p && main_refuses F p)) by reflexivity. rewrite Hm.
    rewrite main_fields_ordered. cbn [negb].
    rewrite (existsb_main_fields _ (fun p => is_bool_ann (p_ann p) && match main_bogus F with [] => false | _ => true end))
      by reflexivity.
    destruct (main_bogus F) eqn:B; [congruence|].
    assert (E : existsb (fun p : param V => is_bool_ann (p_ann p) && true) s
                = existsb (fun p : param V => is_bool_ann (p_ann p)) s).
    { clear. induction s as [|p r IH]; [reflexivity|]. cbn [existsb]. rewrite andb_true_r, IH. reflexivity. }
    rewrite E, Hb. reflexivity.
  Qed.

  (* ---------- the call ---------- *)
  Lemma main_call_pos s vals xk :
    c_pos (main_call F s vals [] xk) = map (fun p => vals (p_name p)) (filter is_po (main_order F s)).
  Proof.
    unfold main_call, main_fields. cbn [c_pos].
    rewrite (filter_map_comm (main_field F) fl_pos is_po) by apply fl_pos_main. rewrite map_map.
    destruct (f_main_parsed_pos_first F); [apply app_nil_r | reflexivity].
  Qed.

  (* run-time positionals come after the parsed ones *)
  Lemma main_call_pos_runtime s vals xp xk :
    f_main_parsed_pos_first F = true ->
    c_pos (main_call F s vals xp xk) = (map (fun p => vals (p_name p)) (filter is_po (main_order F s)) ++ xp)%list.
  Proof.
    intros Hf. unfold main_call, main_fields. cbn [c_pos]. rewrite Hf. f_equal.
    rewrite (filter_map_comm (main_field F) fl_pos is_po) by apply fl_pos_main. rewrite map_map. reflexivity.
  Qed.

  Lemma main_call_kw s vals :
    c_kw (main_call F s vals [] []) = want_all (filter nonpo (main_order F s)) vals.
  Proof.
    unfold main_call, main_fields, want_all. cbn [c_kw].
    rewrite (filter_map_comm (main_field F) (fun f => negb (fl_pos f)) nonpo)
      by (intros p; rewrite fl_pos_main; reflexivity).
    rewrite map_map. cbn [main_field fl_name].
    destruct (f_main_parsed_wins F); [apply dict_update_nil_l | apply dict_update_nil_r].
  Qed.

  (* binding: the positional-only prefix takes the positionals ... *)
  Lemma bind_po_part (P R : sig V) vals kw :
    forallb is_po P = true -> (forall p, In p P -> str_in (p_name p) (keys kw) = false) ->
    bind_params (P ++ R)%list (map (fun p => vals (p_name p)) P) kw
    = bind (bind_params R [] kw) (fun b => Ok (want_all P vals ++ b)%list).
  Proof.
    induction P as [|p r IH]; intros HP Hk.
    - cbn [app map want_all]. destruct (bind_params R [] kw); reflexivity.
    - cbn [forallb] in HP. apply andb_true_iff in HP as [Hp Hr].
      cbn [app map bind_params]. destruct (po_kinds p Hp) as [Hc _]. rewrite Hc.
      rewrite (Hk p) by (left; reflexivity).
      rewrite IH by (try exact Hr; intros q Hq; apply Hk; right; exact Hq).
      destruct (bind_params R [] kw); reflexivity.
  Qed.

  (* ... and every other parameter finds its keyword *)
  Lemma bind_kw_part (R : sig V) vals kw :
    forallb nonpo R = true -> (forall p, In p R -> lookup kw (p_name p) = Some (vals (p_name p))) ->
    bind_params R [] kw = Ok (want_all R vals).
  Proof.
    induction R as [|p r IH]; intros HR Hl; [reflexivity|].
    cbn [forallb] in HR. apply andb_true_iff in HR as [Hp Hr].
    cbn [bind_params]. replace (if pos_capable (p_kind p) then [] else []) with (@nil V) by (destruct (pos_capable (p_kind p)); reflexivity).
    unfold from_kw. rewrite (nonpo_kw_capable p Hp), (Hl p) by (left; reflexivity). cbn [bind].
    rewrite IH by (try exact Hr; intros q Hq; apply Hl; right; exact Hq). reflexivity.
  Qed.

  Theorem main_binds s vals :
    sig_wf s = true ->
    bind_call s (main_call F s vals [] []) = Ok (want_all s vals)
    /\ c_pos (main_call F s vals [] []) = map (fun p => vals (p_name p)) (filter is_po s)
    /\ Permutation (c_kw (main_call F s vals [] [])) (want_all (filter nonpo s) vals).
  Proof.
    unfold sig_wf. intros W. apply andb_true_iff in W as [W Word]. apply andb_true_iff in W as [Wnd Wpre].
    apply str_nodupb_NoDup in Wnd. assert (Hsplit := po_prefix s Wpre).
    assert (Hpos : c_pos (main_call F s vals [] []) = map (fun p => vals (p_name p)) (filter is_po s)).
    { rewrite main_call_pos, filter_main_order by exact Word. reflexivity. }
    assert (Hperm : Permutation (c_kw (main_call F s vals [] [])) (want_all (filter nonpo s) vals)).
    { rewrite main_call_kw. unfold want_all. apply Permutation_map, filter_main_order_perm. }
    split; [|split; assumption].
    unfold bind_call. rewrite Hpos, main_call_kw.
    assert (Hkeys : keys (want_all (filter nonpo (main_order F s)) vals) = map p_name (filter nonpo (main_order F s))).
    { unfold want_all. apply (keys_by_name (@p_name V) vals). }
    assert (Hin : forall q, In q (filter nonpo (main_order F s)) <-> In q s /\ nonpo q = true).
    { intros q. rewrite filter_In, main_order_in. tauto. }
    (* every keyword names a keyword-capable parameter *)
    assert (Hok : kw_names_ok s (want_all (filter nonpo (main_order F s)) vals) = true).
    { unfold kw_names_ok. rewrite Hkeys. apply forallb_forall. intros k Hk. apply in_map_iff in Hk as [q [Eq Hq]].
      apply Hin in Hq as [Hq Hn]. apply existsb_exists. exists q. split; [exact Hq|].
      subst k. rewrite String.eqb_refl, (nonpo_kw_capable q Hn). reflexivity. }
    rewrite Hok. rewrite Hsplit at 1.
    rewrite bind_po_part.
    - rewrite (bind_kw_part _ vals).
      + cbn [bind]. unfold want_all. rewrite <- map_app, <- Hsplit. reflexivity.
      + apply forallb_filter_id.
      + intros p Hp. unfold want_all. rewrite (lookup_by_name (@p_name V) vals).
        assert (I : In (p_name p) (map p_name (filter nonpo (main_order F s)))).
        { apply in_map. apply Hin. apply filter_In in Hp. exact Hp. }
        apply str_in_In in I. rewrite I. reflexivity.
    - apply forallb_filter_id.
    - intros p Hp. rewrite Hkeys. apply str_in_false. intros I. apply in_map_iff in I as [q [Eq Hq]].
      apply Hin in Hq as [Hq Hn]. apply filter_In in Hp as [Hp Hpo].
      assert (p = q) by (apply (name_inj s); auto). subst q. unfold nonpo in Hn. rewrite Hpo in Hn. discriminate.
  Qed.

  Theorem main_run_safe s vals :
    sig_wf s = true -> main_safe s = true ->
    main_run F s (Ok vals) [] [] = (Some (main_call F s vals [] []), Ok (want_all s vals)).
  Proof.
    intros W S. unfold main_run. rewrite (main_setup_ok s S). destruct (main_binds s vals W) as [B _]. rewrite B. reflexivity.
  Qed.
End Main.

(* ====================================================================== *)
(* partial.config_for / Partial.__call__                                   *)
(* ====================================================================== *)
Section ConfigFor.
  Context {V : Type}.
  Variable F : facts.
  Hypothesis Ffront : f_cf_req_front F = true.
  Hypothesis Fskips : f_cf_skips_ignored F = true.
  Variable ignore : list string.
  Variable over : list (string * V).
  Implicit Types (s : sig V) (p q : param V) (vals : string -> V).

  (* the parameters that get an option *)
  Definition cf_keeps p : bool := negb (str_in (p_name p) ignore) && negb (cf_untyped over p).
  Definition cf_hd p : bool := match eff_default over p with Some _ => true | None => false end.
  Let cf := cf_field F over.

  Lemma fl_has_def_cf p : fl_has_def (cf p) = cf_hd p.
  Proof. reflexivity. Qed.

  Lemma cf_step_skip acc p : cf_keeps p = false -> cf_step F ignore over acc p = acc.
  Proof.
    unfold cf_keeps, cf_step. rewrite Fskips. cbn [andb]. intros K.
    destruct (str_in (p_name p) ignore); [reflexivity|]. cbn [negb andb] in K. apply negb_false_iff in K. rewrite K. reflexivity.
  Qed.
  Lemma cf_step_keep acc p :
    cf_keeps p = true -> cf_step F ignore over acc p = if cf_hd p then (acc ++ [cf p])%list else cf p :: acc.
  Proof.
    unfold cf_keeps, cf_step. rewrite Fskips, Ffront. cbn [andb]. intros K. apply andb_true_iff in K as [K1 K2].
    apply negb_true_iff in K1, K2. rewrite K1, K2. rewrite fl_has_def_cf. reflexivity.
  Qed.

  Lemma cf_fields_fold s : forall A B,
    fold_left (cf_step F ignore over) s (rev A ++ B)%list
    = (rev (A ++ map cf (filter (fun p => cf_keeps p && negb (cf_hd p)) s))
       ++ (B ++ map cf (filter (fun p => cf_keeps p && cf_hd p) s)))%list.
  Proof.
    induction s as [|p r IH]; intros A B.
    - cbn [fold_left filter map]. rewrite !app_nil_r. reflexivity.
    - cbn [fold_left filter]. destruct (cf_keeps p) eqn:K; cbn [andb].
      + rewrite (cf_step_keep _ p K). destruct (cf_hd p); cbn [negb map].
        * rewrite <- app_assoc. rewrite IH. rewrite <- !app_assoc. reflexivity.
        * replace (cf p :: rev A ++ B)%list with (rev (A ++ [cf p]) ++ B)%list
            by (rewrite rev_app_distr; reflexivity).
          rewrite IH. rewrite <- !app_assoc. reflexivity.
      + rewrite (cf_step_skip _ p K). apply IH.
  Qed.

  (* required parameters (latest first), then defaulted ones in signature order *)
  Lemma cf_fields_shape s :
    cf_fields F ignore over s
    = (rev (map cf (filter (fun p => cf_keeps p && negb (cf_hd p)) s))
       ++ map cf (filter (fun p => cf_keeps p && cf_hd p) s))%list.
  Proof. unfold cf_fields. apply (cf_fields_fold s [] []). Qed.

  Theorem cf_fields_perm s : Permutation (cf_fields F ignore over s) (map cf (filter cf_keeps s)).
  Proof.
    rewrite cf_fields_shape. eapply Permutation_trans.
    - apply Permutation_app_tail. apply Permutation_sym, Permutation_rev.
    - rewrite <- map_app. apply Permutation_map, partition_perm2.
  Qed.

  Theorem cf_fields_ordered s : order_ok false (cf_fields F ignore over s) = true.
  Proof.
    rewrite cf_fields_shape. unfold order_ok. apply ordered_app.
    - apply forallb_forall. intros f Hf. apply in_rev in Hf. apply in_map_iff in Hf as [p [E Hp]]. subst f.
      apply filter_In in Hp as [_ Hp]. apply andb_true_iff in Hp as [_ Hp]. rewrite fl_has_def_cf. exact Hp.
    - apply forallb_forall. intros f Hf. apply in_map_iff in Hf as [p [E Hp]]. subst f.
      apply filter_In in Hp as [_ Hp]. apply andb_true_iff in Hp as [_ Hp]. rewrite fl_has_def_cf. exact Hp.
  Qed.

  Lemma cf_field_names_in s n :
    In n (map fl_name (cf_fields F ignore over s)) <-> exists p, In p s /\ p_name p = n /\ cf_keeps p = true.
  Proof.
    split.
    - intros H. apply in_map_iff in H as [f [E Hf]]. apply (Permutation_in _ (cf_fields_perm s)) in Hf.
      apply in_map_iff in Hf as [p [Ep Hp]]. apply filter_In in Hp as [Hp Hk]. exists p. subst. auto.
    - intros [p [Hp [E Hk]]]. subst n. apply in_map_iff. exists (cf p). split; [reflexivity|].
      apply (Permutation_in _ (Permutation_sym (cf_fields_perm s))). apply in_map. apply filter_In. auto.
  Qed.

  (* ---------- the call ---------- *)
  Hypothesis Fwins : f_call_site_wins F = true.

  Theorem partial_call_kwargs (fs : list (fld V)) vals call_pos call_kw :
    let c := partial_call F fs vals call_pos call_kw in
    c_pos c = call_pos
    /\ (forall k, lookup (c_kw c) k =
                  match lookup call_kw k with
                  | Some v => Some v                                                        (* the call site wins *)
                  | None => if str_in k (map fl_name fs) then Some (vals k) else None       (* else the field's value *)
                  end)
    /\ keys (c_kw c) = (map fl_name fs ++ filter (fun k => negb (str_in k (map fl_name fs))) (keys call_kw))%list.
  Proof.
    cbn zeta. unfold partial_call. rewrite Fwins. cbn [c_pos c_kw]. split; [reflexivity|]. split.
    - intros k. rewrite lookup_dict_update. rewrite (lookup_by_name (@fl_name V) vals). reflexivity.
    - rewrite keys_dict_update. rewrite (keys_by_name (@fl_name V) vals). reflexivity.
  Qed.

  (* which value a parameter ends up with *)
  Definition expected_value (names : list string) vals (call_kw : list (string * V)) p : option V :=
    match lookup call_kw (p_name p) with
    | Some v => Some v
    | None => if str_in (p_name p) names then Some (vals (p_name p)) else p_default p
    end.

  Lemma want_bindings_spec s names vals call_kw :
    want_bindings s names vals call_kw =
    (fix go l := match l with
                 | [] => Some []
                 | p :: r => match expected_value names vals call_kw p, go r with
                             | Some v, Some rest => Some ((p_name p, v) :: rest)
                             | _, _ => None
                             end
                 end) s.
  Proof. induction s as [|p r IH]; [reflexivity|]. cbn [want_bindings]. rewrite IH. reflexivity. Qed.

  Lemma bind_params_expected (l : sig V) names vals call_kw kw w :
    (forall p, In p l -> from_kw p kw = match expected_value names vals call_kw p with Some v => Ok v | None => Err TE end) ->
    want_bindings l names vals call_kw = Some w ->
    bind_params l [] kw = Ok w.
  Proof.
    revert w. induction l as [|p r IH]; intros w Hf Hw.
    - cbn in Hw. injection Hw as <-. reflexivity.
    - cbn [want_bindings] in Hw. cbn [bind_params].
      replace (if pos_capable (p_kind p) then [] else []) with (@nil V) by (destruct (pos_capable (p_kind p)); reflexivity).
      rewrite (Hf p) by (left; reflexivity). unfold expected_value.
      destruct (match lookup call_kw (p_name p) with
                | Some v => Some v
                | None => if str_in (p_name p) names then Some (vals (p_name p)) else p_default p
                end) as [v|]; [|discriminate].
      destruct (want_bindings r names vals call_kw) as [rest|] eqn:Er; [|discriminate].
      injection Hw as <-. cbn [bind]. rewrite (IH rest) by (try reflexivity; intros q Hq; apply Hf; right; exact Hq).
      reflexivity.
  Qed.

  (* no positional-only parameter became a field (Partial.__call__ passes every field by keyword) *)
  Definition no_po_field s : bool :=
    forallb (fun p => negb (is_po p && cf_keeps p)) s.

  Theorem partial_call_binds s vals call_kw w :
    str_nodupb (map p_name s) = true ->
    no_po_field s = true ->
    call_kw_plain s call_kw = true ->
    want_bindings s (map fl_name (cf_fields F ignore over s)) vals call_kw = Some w ->
    bind_call s (partial_call F (cf_fields F ignore over s) vals [] call_kw) = Ok w.
  Proof.
    intros Hnd Hnpo Hplain Hw. apply str_nodupb_NoDup in Hnd.
    set (fs := cf_fields F ignore over s) in *. set (names := map fl_name fs) in *.
    destruct (partial_call_kwargs fs vals [] call_kw) as [Hpos [Hlook Hkeys]]. cbn zeta in *.
    unfold bind_call. rewrite Hpos.
    assert (Hfield_nonpo : forall p, In p s -> str_in (p_name p) names = true -> is_po p = false).
    { intros p Hp Hn. apply str_in_In in Hn. apply cf_field_names_in in Hn as [q [Hq [E Hk]]].
      assert (q = p) by (apply (name_inj s); auto). subst q.
      unfold no_po_field in Hnpo. rewrite forallb_forall in Hnpo. specialize (Hnpo p Hp).
      rewrite Hk, andb_true_r in Hnpo. apply negb_true_iff in Hnpo. exact Hnpo. }
    assert (Hok : kw_names_ok s (c_kw (partial_call F fs vals [] call_kw)) = true).
    { unfold kw_names_ok. rewrite Hkeys. apply forallb_forall. intros k Hk. apply in_app_or in Hk as [Hk|Hk].
      - fold names in Hk. assert (Hk' := Hk). apply cf_field_names_in in Hk as [p [Hp [E _]]]. subst k.
        apply existsb_exists. exists p. split; [exact Hp|]. rewrite String.eqb_refl. cbn [andb].
        apply nonpo_kw_capable. unfold nonpo. rewrite (Hfield_nonpo p Hp); [reflexivity|]. apply str_in_In. exact Hk'.
      - apply filter_In in Hk as [Hk _]. unfold call_kw_plain in Hplain. rewrite forallb_forall in Hplain.
        specialize (Hplain k Hk). apply existsb_exists in Hplain as [p [Hp Hq]]. apply andb_true_iff in Hq as [E Hn].
        apply existsb_exists. exists p. split; [exact Hp|]. rewrite E. cbn [andb]. apply nonpo_kw_capable. exact Hn. }
    rewrite Hok. apply (bind_params_expected s names vals call_kw); [|exact Hw].
    intros p Hp. unfold from_kw, expected_value. destruct (is_po p) eqn:Epo.
    - destruct (po_kinds p Epo) as [_ Hkc]. rewrite Hkc.
      (* a positional-only parameter: not a field, and no call-site keyword can name it *)
      assert (L : lookup call_kw (p_name p) = None).
      { apply lookup_none_iff. apply str_in_false. intros I. unfold call_kw_plain in Hplain. rewrite forallb_forall in Hplain.
        specialize (Hplain _ I). apply existsb_exists in Hplain as [q [Hq Hqq]]. apply andb_true_iff in Hqq as [E Hn].
        apply String.eqb_eq in E. assert (q = p) by (apply (name_inj s); auto). subst q. rewrite Epo in Hn. discriminate. }
      rewrite L. destruct (str_in (p_name p) names) eqn:En.
      + rewrite (Hfield_nonpo p Hp En) in Epo. discriminate.
      + destruct (p_default p); reflexivity.
    - rewrite (nonpo_kw_capable p) by (unfold nonpo; rewrite Epo; reflexivity).
      rewrite Hlook. fold names. destruct (lookup call_kw (p_name p)); [reflexivity|].
      destruct (str_in (p_name p) names); [reflexivity|]. destruct (p_default p); reflexivity.
  Qed.
End ConfigFor.

(* ====================================================================== *)
(* the class cache                                                         *)
(* ====================================================================== *)
Section Cache.
  Context {V : Type}.
  Variable veqb : V -> V -> bool.
  Hypothesis veqb_refl : forall v, veqb v v = true.
  Variable F : facts.
  Variable s : sig V.
  Implicit Types (r : cfreq V) (st : cstate V) (t : list (cfreq V * nat)).

  Lemma list_eqb'_refl {A} (e : A -> A -> bool) (l : list A) : (forall x, e x x = true) -> list_eqb' e l l = true.
  Proof. intros H. induction l as [|x q IH]; [reflexivity|]. cbn. rewrite H, IH. reflexivity. Qed.

  Lemma req_eqb_refl r : req_eqb veqb r r = true.
  Proof.
    unfold req_eqb. apply andb_true_iff. split; [apply andb_true_iff; split|].
    - destruct (rq_ignore r); cbn; try reflexivity; try apply String.eqb_refl; apply list_eqb'_refl; apply String.eqb_refl.
    - destruct (rq_frozen r) as [[|]|]; reflexivity.
    - apply list_eqb'_refl. intros [k v]. cbn. rewrite String.eqb_refl, veqb_refl. reflexivity.
  Qed.

  Lemma find_req_app t t' r c : find_req veqb t r = Some c -> find_req veqb (t ++ t') r = Some c.
  Proof.
    induction t as [|[r' c'] q IH]; intros H; [discriminate|]. cbn [app find_req] in *.
    destruct (req_eqb veqb r r'); [exact H | apply IH; exact H].
  Qed.

  Lemma find_req_new t r c : find_req veqb t r = None -> find_req veqb (t ++ [(r, c)]) r = Some c.
  Proof.
    induction t as [|[r' c'] q IH]; intros H; cbn [app find_req] in *.
    - rewrite req_eqb_refl. reflexivity.
    - destruct (req_eqb veqb r r'); [discriminate | apply IH; exact H].
  Qed.

  (* the table only grows, at the end *)
  Lemma cf_request_grows st r st' o : cf_request veqb F s st r = (st', o) -> exists t', fst st' = (fst st ++ t')%list.
  Proof.
    unfold cf_request. intros H.
    destruct (f_cf_cached F && rq_hashable r).
    - destruct (find_req veqb (fst st) r).
      + injection H as <- _. exists []. rewrite app_nil_r. reflexivity.
      + destruct (setup F _); injection H as <- _; [eexists; reflexivity | exists []; rewrite app_nil_r; reflexivity].
    - destruct (setup F _); injection H as <- _; exists []; cbn [fst]; rewrite app_nil_r; reflexivity.
  Qed.

  Lemma cf_session_grows rs : forall st st' os, cf_session veqb F s st rs = (st', os) -> exists t', fst st' = (fst st ++ t')%list.
  Proof.
    induction rs as [|r q IH]; intros st st' os H; cbn [cf_session] in H.
    - injection H as <- _. exists []. rewrite app_nil_r. reflexivity.
    - destruct (cf_request veqb F s st r) as [st1 o] eqn:E1. destruct (cf_session veqb F s st1 q) as [st2 os2] eqn:E2.
      injection H as <- _. apply cf_request_grows in E1 as [t1 H1]. apply IH in E2 as [t2 H2].
      exists (t1 ++ t2)%list. rewrite H2, H1, app_assoc. reflexivity.
  Qed.

  (* once a class has been returned for hashable arguments, the same class is returned for them ever after,
     whatever other requests happen in between *)
  Theorem cached_stable st r st1 c rs st2 os :
    f_cf_cached F = true -> rq_hashable r = true ->
    cf_request veqb F s st r = (st1, Ok c) ->
    cf_session veqb F s st1 rs = (st2, os) ->
    cf_request veqb F s st2 r = (st2, Ok c).
  Proof.
    intros Hc Hh H1 H2.
    assert (Hfound : find_req veqb (fst st1) r = Some c).
    { unfold cf_request in H1. rewrite Hc, Hh in H1. cbn [andb] in H1.
      destruct (find_req veqb (fst st) r) eqn:Ef.
      - injection H1 as <- <-. exact Ef.
      - destruct (setup F _); [|discriminate]. injection H1 as <- <-. cbn [fst]. apply find_req_new. exact Ef. }
    apply cf_session_grows in H2 as [t' Ht].
    unfold cf_request. rewrite Hc, Hh. cbn [andb]. rewrite Ht, (find_req_app _ t' _ _ Hfound). reflexivity.
  Qed.
End Cache.

(* ====================================================================== *)
(* several callables: a class is never shared between two of them          *)
(* ====================================================================== *)
Section PairCache.
  Context {V : Type}.
  Variable veqb : V -> V -> bool.
  Variable F : facts.
  Variable sigs : nat -> sig V.
  Implicit Types (st : pstate V).

  (* every cached class was allocated for the callable it is filed under *)
  Definition pinv st : Prop := forall k r c, In (k, r, c) (fst st) -> nth_error (snd st) c = Some k.

  Lemma pfind_in t k r c : pfind veqb t k r = Some c -> exists k' r', In (k', r', c) t /\ k' = k.
  Proof.
    induction t as [|[[k' r'] c'] q IH]; intros H; [discriminate|]. cbn [pfind] in H.
    destruct (Nat.eqb k k' && req_eqb veqb r r') eqn:E.
    - injection H as <-. apply andb_true_iff in E as [E _]. apply Nat.eqb_eq in E. exists k', r'. split; [left; reflexivity | auto].
    - destruct (IH H) as [k2 [r2 [I E2]]]. exists k2, r2. split; [right; exact I | exact E2].
  Qed.

  Lemma nth_error_keep {A} (l l' : list A) n x : nth_error l n = Some x -> nth_error (l ++ l') n = Some x.
  Proof. intros H. rewrite nth_error_app1; [exact H|]. apply nth_error_Some. congruence. Qed.
  Lemma nth_error_fresh {A} (l : list A) x : nth_error (l ++ [x]) (List.length l) = Some x.
  Proof. rewrite nth_error_app2 by lia. rewrite Nat.sub_diag. reflexivity. Qed.

  Lemma p_request_inv st k r st' o :
    pinv st -> p_request veqb F sigs st k r = (st', o) ->
    pinv st' /\ (exists l, snd st' = (snd st ++ l)%list) /\ (forall c, o = Ok c -> nth_error (snd st') c = Some k).
  Proof.
    intros I H. unfold p_request in H.
    destruct (f_cf_cached F && rq_hashable r).
    - destruct (pfind veqb (fst st) k r) as [c0|] eqn:Ef.
      + injection H as <- <-. split; [exact I|]. split; [exists []; rewrite app_nil_r; reflexivity|].
        intros c Hc. injection Hc as <-. destruct (pfind_in _ _ _ _ Ef) as [k' [r' [Hin Ek]]]. subst k'. exact (I _ _ _ Hin).
      + destruct (setup F _).
        * injection H as <- <-. cbn [fst snd]. split; [|split].
          -- intros k2 r2 c2 Hin. apply in_app_or in Hin as [Hin|Hin].
             ++ apply nth_error_keep. exact (I _ _ _ Hin).
             ++ destruct Hin as [Hin|[]]. injection Hin as <- <- <-. apply nth_error_fresh.
          -- eexists; reflexivity.
          -- intros c Hc. injection Hc as <-. apply nth_error_fresh.
        * injection H as <- <-. split; [exact I|]. split; [exists []; rewrite app_nil_r; reflexivity | discriminate].
    - destruct (setup F _).
      + injection H as <- <-. cbn [fst snd]. split; [|split].
        * intros k2 r2 c2 Hin. apply nth_error_keep. exact (I _ _ _ Hin).
        * eexists; reflexivity.
        * intros c Hc. injection Hc as <-. apply nth_error_fresh.
      + injection H as <- <-. split; [exact I|]. split; [exists []; rewrite app_nil_r; reflexivity | discriminate].
  Qed.

  Lemma p_session_inv steps : forall st st' outs,
    pinv st -> p_session veqb F sigs st steps = (st', outs) ->
    pinv st' /\ (exists l, snd st' = (snd st ++ l)%list)
    /\ (forall k r c, In ((k, r), Ok c) (combine steps outs) -> nth_error (snd st') c = Some k).
  Proof.
    induction steps as [|[k r] q IH]; intros st st' outs I H; cbn [p_session] in H.
    - injection H as <- <-. split; [exact I|]. split; [exists []; rewrite app_nil_r; reflexivity | intros ? ? ? []].
    - destruct (p_request veqb F sigs st k r) as [st1 o] eqn:E1. destruct (p_session veqb F sigs st1 q) as [st2 os] eqn:E2.
      injection H as <- <-. destruct (p_request_inv _ _ _ _ _ I E1) as [I1 [[l1 L1] O1]].
      destruct (IH _ _ _ I1 E2) as [I2 [[l2 L2] O2]]. split; [exact I2|]. split.
      + exists (l1 ++ l2)%list. rewrite L2, L1, app_assoc. reflexivity.
      + intros k2 r2 c Hin. cbn [combine] in Hin. destruct Hin as [Hin|Hin].
        * injection Hin as <- <- ->. rewrite L2. apply nth_error_keep. apply O1. reflexivity.
        * exact (O2 _ _ _ Hin).
  Qed.

  (* whatever the history of requests: a class id returned for callable k is never returned for another callable *)
  Theorem distinct_callables_distinct_classes steps st' outs k r k' r' c :
    p_session veqb F sigs ([], []) steps = (st', outs) ->
    In ((k, r), Ok c) (combine steps outs) -> In ((k', r'), Ok c) (combine steps outs) -> k = k'.
  Proof.
    intros H H1 H2. assert (I : pinv ([], [])) by (intros ? ? ? []).
    destruct (p_session_inv steps _ _ _ I H) as [_ [_ O]]. assert (A := O _ _ _ H1). assert (B := O _ _ _ H2). congruence.
  Qed.
End PairCache.

(* ====================================================================== *)
(* the model's behaviour satisfies the executable spec (Model/FrontSpec.v)  *)
(* ====================================================================== *)
Lemma err_eqb_refl_local (e : err) : err_eqb e e = true.
Proof. destruct e; cbn; try reflexivity; [apply Nat.eqb_refl | apply String.eqb_refl]. Qed.

Section Meets.
  Context {V : Type}.
  Variable veqb : V -> V -> bool.
  Hypothesis veqb_refl : forall v, veqb v v = true.
  Implicit Types (s : sig V) (p q : param V) (vals : string -> V).

  Lemma bind_eqb_refl (l : list (string * V)) : bind_eqb veqb l l = true.
  Proof. apply list_eqb'_refl. intros [k v]. unfold kv_eqb. cbn. rewrite String.eqb_refl, veqb_refl. reflexivity. Qed.
  Lemma vlist_eqb_refl (l : list V) : vlist_eqb veqb l l = true.
  Proof. apply list_eqb'_refl. exact veqb_refl. Qed.

  Lemma lookup_in_nodup (l : list (string * V)) k v : NoDup (keys l) -> In (k, v) l -> lookup l k = Some v.
  Proof.
    unfold keys. induction l as [|[k' v'] r IH]; intros N H; [contradiction|]. cbn [map fst] in N. inversion N as [|? ? Nx Nr]; subst.
    cbn [lookup]. destruct H as [H|H].
    - injection H as -> ->. rewrite String.eqb_refl. reflexivity.
    - destruct (String.eqb k k') eqn:E.
      + apply String.eqb_eq in E. subst k'. exfalso. apply Nx. change k with (fst (k, v)). apply in_map. exact H.
      + apply IH; assumption.
  Qed.

  Lemma same_dict_perm (a b : list (string * V)) : NoDup (keys a) -> Permutation a b -> same_dict veqb a b = true.
  Proof.
    intros N P. assert (Nb : NoDup (keys b)) by (unfold keys; eapply Permutation_NoDup; [apply Permutation_map; exact P | exact N]).
    unfold same_dict. rewrite (proj2 (str_nodupb_NoDup _) N), (proj2 (str_nodupb_NoDup _) Nb), (Permutation_length P), Nat.eqb_refl.
    cbn [andb]. apply forallb_forall. intros [k v] H. cbn [fst snd].
    rewrite (lookup_in_nodup b k v Nb) by (eapply Permutation_in; eauto). apply veqb_refl.
  Qed.

  Lemma nodup_names_filter (g : param V -> bool) s : NoDup (map p_name s) -> NoDup (map p_name (filter g s)).
  Proof.
    induction s as [|p r IH]; intros N; [constructor|]. cbn [map] in N. inversion N as [|? ? Nx Nr]; subst. cbn [filter].
    destruct (g p); [|apply IH; exact Nr]. cbn [map]. constructor; [|apply IH; exact Nr].
    intros I. apply Nx. apply in_map_iff in I as [q [E Hq]]. apply filter_In in Hq as [Hq _]. rewrite <- E. apply in_map. exact Hq.
  Qed.

  Variable F : facts.
  Hypothesis Fpos : f_main_pos_kinds F = [PosOnly].
  Hypothesis Fsorted : f_main_sorted F = true.
  Hypothesis Fkeys : String.eqb (f_field_pos_key F) (f_main_pos_key F) = true.

  Theorem main_meets_spec s parsed :
    sig_wf s = true -> main_safe F s = true -> spec_main veqb s parsed false (main_run F s parsed [] []) = true.
  Proof.
    intros W S. unfold main_run. rewrite (main_setup_ok F Fsorted s S). unfold spec_main.
    destruct parsed as [vals|e]; [|apply err_eqb_refl_local].
    destruct (main_binds F Fpos Fsorted Fkeys s vals W) as [B [Hp Hk]]. rewrite B, Hp.
    rewrite bind_eqb_refl, vlist_eqb_refl. cbn [andb].
    apply same_dict_perm; [|exact Hk].
    unfold keys. eapply Permutation_NoDup; [apply Permutation_map, Permutation_sym, Hk|].
    unfold want_all. rewrite map_map. cbn [fst]. apply nodup_names_filter.
    unfold sig_wf in W. apply andb_true_iff in W as [W _]. apply andb_true_iff in W as [W _]. apply str_nodupb_NoDup. exact W.
  Qed.
End Meets.

Section MeetsCF.
  Context {V : Type}.
  Variable veqb : V -> V -> bool.
  Hypothesis veqb_refl : forall v, veqb v v = true.
  Variable F : facts.
  Hypothesis Ffront : f_cf_req_front F = true.
  Hypothesis Fskips : f_cf_skips_ignored F = true.
  Implicit Types (s : sig V) (p q : param V).

  Definition observed_fields (fs : list (fld V)) : list (string * option V) := map (fun f => (fl_name f, fl_default f)) fs.

  Lemma vopt_eqb_refl (o : option V) : vopt_eqb veqb o o = true.
  Proof. destruct o; cbn; [apply veqb_refl | reflexivity]. Qed.

  Lemma cf_field_names_nodup s ignore over :
    NoDup (map p_name s) -> NoDup (map fl_name (cf_fields F ignore over s)).
  Proof.
    intros N. eapply Permutation_NoDup.
    - apply Permutation_map, Permutation_sym, (cf_fields_perm F Ffront Fskips ignore over s).
    - rewrite map_map. cbn [cf_field fl_name]. apply nodup_names_filter. exact N.
  Qed.

  Theorem cf_fields_meet_spec s ignore over :
    str_nodupb (map p_name s) = true ->
    spec_fields veqb s ignore over (Ok (observed_fields (cf_fields F ignore over s))) = true.
  Proof.
    intros N. apply str_nodupb_NoDup in N. unfold spec_fields, observed_fields.
    set (fs := cf_fields F ignore over s).
    assert (Hnames : map fst (map (fun f : fld V => (fl_name f, fl_default f)) fs) = map fl_name fs)
      by (rewrite map_map; reflexivity).
    rewrite Hnames. apply andb_true_iff. split; [apply andb_true_iff; split|].
    - apply str_nodupb_NoDup. apply cf_field_names_nodup. exact N.
    - apply forallb_forall. intros [n d] H. apply in_map_iff in H as [f [E Hf]]. injection E as <- <-. cbn [fst snd].
      apply (Permutation_in _ (cf_fields_perm F Ffront Fskips ignore over s)) in Hf.
      apply in_map_iff in Hf as [p [E Hp]]. subst f. apply filter_In in Hp as [Hp Hk].
      unfold cf_keeps in Hk. apply andb_true_iff in Hk as [Hi _]. cbn [cf_field fl_name fl_default]. rewrite Hi. cbn [andb].
      apply existsb_exists. exists p. split; [exact Hp|]. rewrite String.eqb_refl. cbn [andb]. apply vopt_eqb_refl.
    - apply forallb_forall. intros p Hp. destruct (cf_keeps ignore over p) eqn:K.
      + assert (I : In (p_name p) (map fl_name fs)).
        { apply (cf_field_names_in F Ffront Fskips ignore over s). exists p. auto. }
        apply str_in_In in I. rewrite I. apply orb_true_r.
      + unfold cf_keeps in K. destruct (str_in (p_name p) ignore); [reflexivity|]. cbn [negb andb] in K.
        apply negb_false_iff in K. unfold cf_untyped, eff_default in K. unfold untypeable, spec_default. rewrite K. reflexivity.
  Qed.
End MeetsCF.

Section MeetsCall.
  Context {V : Type}.
  Variable veqb : V -> V -> bool.
  Hypothesis veqb_refl : forall v, veqb v v = true.
  Variable F : facts.
  Hypothesis Ffront : f_cf_req_front F = true.
  Hypothesis Fskips : f_cf_skips_ignored F = true.
  Hypothesis Fwins : f_call_site_wins F = true.

  Lemma nodup_app {A} (l1 l2 : list A) :
    NoDup l1 -> NoDup l2 -> (forall x, In x l1 -> ~ In x l2) -> NoDup (l1 ++ l2).
  Proof.
    induction l1 as [|x r IH]; intros N1 N2 D; [exact N2|]. inversion N1 as [|? ? Nx Nr]; subst. cbn [app]. constructor.
    - intros I. apply in_app_or in I as [I|I]; [exact (Nx I) | exact (D x (or_introl eq_refl) I)].
    - apply IH; [exact Nr | exact N2 | intros y Hy; apply D; right; exact Hy].
  Qed.
  Lemma nodup_filter {A} (g : A -> bool) l : NoDup l -> NoDup (filter g l).
  Proof.
    induction l as [|x r IH]; intros N; [constructor|]. inversion N as [|? ? Nx Nr]; subst. cbn [filter].
    destruct (g x); [constructor|]; try (apply IH; exact Nr). intros I. apply filter_In in I as [I _]. exact (Nx I).
  Qed.
  Lemma str_in_filter (g : string -> bool) l k : str_in k (filter g l) = str_in k l && g k.
  Proof.
    induction l as [|x r IH]; [reflexivity|]. cbn [filter]. destruct (g x) eqn:G; cbn [str_in existsb];
      fold (str_in k (filter g r)); fold (str_in k r); rewrite IH.
    - destruct (String.eqb k x) eqn:E; cbn [orb]; [apply String.eqb_eq in E; subst; rewrite G; reflexivity | reflexivity].
    - destruct (String.eqb k x) eqn:E; cbn [orb]; [apply String.eqb_eq in E; subst; rewrite G, andb_false_r; reflexivity | reflexivity].
  Qed.

  Lemma same_dict_lookup (a b : list (string * V)) :
    NoDup (keys a) -> NoDup (keys b) -> (forall k, lookup a k = lookup b k) -> same_dict veqb a b = true.
  Proof.
    intros Na Nb L. unfold same_dict.
    rewrite (proj2 (str_nodupb_NoDup _) Na), (proj2 (str_nodupb_NoDup _) Nb). cbn [andb].
    assert (Hk : forall k, In k (keys a) <-> In k (keys b)).
    { intros k. rewrite <- !str_in_In. specialize (L k).
      destruct (str_in k (keys a)) eqn:Ea; destruct (str_in k (keys b)) eqn:Eb; try tauto.
      - apply lookup_none_iff in Eb. rewrite <- L in Eb. apply lookup_none_iff in Eb. congruence.
      - apply lookup_none_iff in Ea. rewrite L in Ea. apply lookup_none_iff in Ea. congruence. }
    assert (Hl : List.length a = List.length b).
    { rewrite <- (map_length fst a), <- (map_length fst b). apply Permutation_length. apply NoDup_Permutation; assumption. }
    rewrite Hl, Nat.eqb_refl. cbn [andb]. apply forallb_forall. intros [k v] H. cbn [fst snd].
    rewrite <- L, (lookup_in_nodup a k v Na H). apply veqb_refl.
  Qed.

  Theorem partial_call_meets_spec (s : sig V) ignore over parsed call_pos call_kw :
    str_nodupb (map p_name s) = true ->
    setup F (cf_fields F ignore over s) = Ok tt ->
    str_nodupb (keys call_kw) = true ->
    no_po_field ignore over s = true ->
    spec_partial_call veqb s (map fl_name (cf_fields F ignore over s)) parsed call_pos call_kw
                      (cf_run F s ignore over parsed call_pos call_kw) = true.
  Proof.
    intros N S Nk P. unfold cf_run. rewrite S. unfold spec_partial_call.
    destruct parsed as [vals|e]; [|apply err_eqb_refl_local].
    set (fs := cf_fields F ignore over s). set (names := map fl_name fs).
    destruct (partial_call_kwargs F Fwins fs vals call_pos call_kw) as [Hpos [Hlook Hkeys]]. cbn zeta in *.
    rewrite Hpos, vlist_eqb_refl by exact veqb_refl. cbn [andb].
    assert (Nn : NoDup names) by (apply (cf_field_names_nodup F Ffront Fskips); apply str_nodupb_NoDup; exact N).
    apply str_nodupb_NoDup in Nk.
    apply andb_true_iff. split.
    - apply same_dict_lookup.
      + rewrite Hkeys. fold names. apply nodup_app; [exact Nn | apply nodup_filter; exact Nk|].
        intros k Hk I. apply filter_In in I as [_ I]. apply str_in_In in Hk. rewrite Hk in I. discriminate.
      + unfold merged_kwargs. unfold keys at 1. rewrite map_app, map_map. cbn [fst]. rewrite map_id.
        apply nodup_app; [exact Nk | apply nodup_filter; exact Nn|].
        intros k Hk I. apply filter_In in I as [_ I]. apply str_in_In in Hk. fold (keys call_kw) in Hk. rewrite Hk in I. discriminate.
      + intros k. rewrite Hlook. unfold merged_kwargs. rewrite lookup_app.
        destruct (lookup call_kw k) eqn:E; [reflexivity|].
        rewrite (lookup_by_name (fun n : string => n) vals). rewrite map_id, str_in_filter.
        apply lookup_none_iff in E. rewrite E. cbn [negb]. rewrite andb_true_r. reflexivity.
    - destruct call_pos; [|reflexivity]. destruct (call_kw_plain s call_kw) eqn:K; [|reflexivity].
      destruct (want_bindings s names vals call_kw) as [w|] eqn:W; [|reflexivity].
      subst names fs. cbn [snd].
      rewrite (partial_call_binds F Ffront Fskips ignore over Fwins s vals call_kw w N P K W). apply bind_eqb_refl. exact veqb_refl.
  Qed.
End MeetsCall.

(* ====================================================================== *)
(* instantiation with the regenerated facts                                *)
(* ====================================================================== *)
Lemma gen_pos_kinds : f_main_pos_kinds facts_gen = [PosOnly]. Proof. reflexivity. Qed.
Lemma gen_sorted : f_main_sorted facts_gen = true. Proof. reflexivity. Qed.
(* helpers.field stores `positional` under the metadata key main reads back *)
Lemma gen_pos_keys : String.eqb (f_field_pos_key facts_gen) (f_main_pos_key facts_gen) = true. Proof. reflexivity. Qed.
Lemma gen_req_front : f_cf_req_front facts_gen = true. Proof. reflexivity. Qed.
Lemma gen_skips_ignored : f_cf_skips_ignored facts_gen = true. Proof. reflexivity. Qed.
Lemma gen_call_site_wins : f_call_site_wins facts_gen = true. Proof. reflexivity. Qed.
Lemma gen_cached : f_cf_cached facts_gen = true. Proof. reflexivity. Qed.
(* config_for only forwards keywords a boolean action accepts *)
Lemma gen_cf_custom_ok :
  bogus_for_bool facts_gen (custom_of facts_gen (f_cf_req_kwargs facts_gen)) = []
  /\ bogus_for_bool facts_gen (custom_of facts_gen (f_cf_opt_kwargs facts_gen)) = [].
Proof. vm_compute. split; reflexivity. Qed.

Definition required_first {V} (fs : list (fld V)) : bool := order_ok false fs.

(* ---------- config_for: where a field's type comes from (regenerated if/elif chain) ---------- *)
(* an annotated parameter's field carries the parameter's own annotation, whatever the class says under the same name *)
Lemma gen_annotated_param_wins : forall has_hint hint_same has_default,
  type_source (f_cf_type_chain facts_gen) true has_hint has_default = Some SrcParam
  /\ field_type_ok (f_cf_type_chain facts_gen) true has_hint hint_same has_default = true.
Proof. intros [|] [|] [|]; split; reflexivity. Qed.
(* un-annotated: the class-level hint, else the type inferred from the default, else the parameter is skipped *)
Lemma gen_unannotated_sources : forall has_default,
  type_source (f_cf_type_chain facts_gen) false true has_default = Some SrcClass
  /\ type_source (f_cf_type_chain facts_gen) false false true = Some SrcInfer
  /\ type_source (f_cf_type_chain facts_gen) false false false = None.
Proof. intros [|]; repeat split; reflexivity. Qed.
(* the model's "skipped" test is that chain (p_ann is the effective annotation: own, else class-level) *)
Lemma gen_untyped_is_chain {V} (over : list (string * V)) (p : param V) :
  cf_untyped over p =
  match type_source (f_cf_type_chain facts_gen) (negb (is_none_ann (p_ann p))) false
                    (match eff_default over p with Some _ => true | None => false end) with
  | None => true | Some _ => false end.
Proof. unfold cf_untyped. destruct (is_none_ann (p_ann p)); destruct (eff_default over p); reflexivity. Qed.

(* ---------- config_for: ignore_args given as a str names ONE parameter ---------- *)
Lemma gen_ignore_names : forall i, ignore_names (f_cf_str_single facts_gen) i = spec_ignore_names i.
Proof. intros [| | |]; reflexivity. Qed.
Lemma gen_target_set : f_cf_target_set facts_gen = true. Proof. reflexivity. Qed.
Lemma gen_parsed_pos_first : f_main_parsed_pos_first facts_gen = true. Proof. reflexivity. Qed.

(* ---------- infer_type_annotation_from_default ---------- *)
(* the regenerated head of the function types a bool / int / float / str default as exactly its own builtin type *)
Lemma gen_infer_scalar : forall d t, type_of d = Some t -> infer_scalar (f_infer facts_gen) d = Some t.
Proof. intros d t. destruct d; cbn [type_of]; intros H; try discriminate; injection H as <-; vm_compute; reflexivity. Qed.
Lemma gen_infer_nonscalar : forall d, type_of d = None -> infer_scalar (f_infer facts_gen) d = None.
Proof. intros d. destruct d; cbn [type_of]; intros H; try discriminate; vm_compute; reflexivity. Qed.

Theorem inferred_is_builtin_type : forall d, infer (f_infer facts_gen) d = spec_ity d.
Proof.
  fix IH 1. intros d. destruct d as [| | | | l | | l | e].
  - cbn [infer]. rewrite (gen_infer_scalar DBool TBool eq_refl). reflexivity.
  - cbn [infer]. rewrite (gen_infer_scalar DInt TInt eq_refl). reflexivity.
  - cbn [infer]. rewrite (gen_infer_scalar DFloat TFloat eq_refl). reflexivity.
  - cbn [infer]. rewrite (gen_infer_scalar DStr TStr eq_refl). reflexivity.
  - cbn [infer spec_ity]. rewrite (gen_infer_nonscalar (DTuple l) eq_refl). f_equal.
    induction l as [|x r IHl]; [reflexivity|]. cbn [map]. f_equal; [apply IH | exact IHl].
  - cbn [infer]. rewrite (gen_infer_nonscalar DOther eq_refl). reflexivity.
  - cbn [infer spec_ity]. rewrite (gen_infer_nonscalar (DList l) eq_refl). destruct l as [|x r]; [reflexivity|]. f_equal. apply IH.
  - cbn [infer spec_ity]. rewrite (gen_infer_nonscalar (DDict e) eq_refl). destruct e; reflexivity.
Qed.

(* ---------- main ---------- *)
Definition main_statement {V} (s : sig V) (vals : string -> V) : Prop :=
  let c := main_call facts_gen s vals [] [] in
  main_run facts_gen s (Ok vals) [] [] = (Some c, Ok (want_all s vals))        (* every parameter gets its parsed value, once *)
  /\ c_pos c = map (fun p => vals (p_name p)) (filter is_po s)                 (* positional-only, in signature order *)
  /\ Permutation (c_kw c) (want_all (filter (fun p => negb (is_po p)) s) vals) (* every other parameter once, by keyword *)
  /\ Permutation (main_fields facts_gen s) (map (main_field facts_gen) s)       (* one field per parameter *)
  /\ required_first (main_fields facts_gen s) = true.

Theorem main_partial {V} (s : sig V) vals :
  sig_wf s = true -> main_safe facts_gen s = true -> main_statement s vals.
Proof.
  intros W S. unfold main_statement. cbn zeta.
  destruct (main_binds facts_gen gen_pos_kinds gen_sorted gen_pos_keys s vals W) as [_ [Hp Hk]].
  repeat split.
  - apply (main_run_safe facts_gen gen_pos_kinds gen_sorted gen_pos_keys); assumption.
  - exact Hp.
  - exact Hk.
  - apply (main_fields_perm facts_gen gen_sorted).
  - apply (main_fields_ordered facts_gen gen_sorted).
Qed.

(* the side condition, spelled out for today's facts: no bool parameter, no unhashable default *)
Lemma main_safe_when_plain {V} (s : sig V) :
  existsb (fun p => is_bool_ann (p_ann p)) s = false -> existsb (fun p => has_def p && main_refuses facts_gen p) s = false ->
  main_safe facts_gen s = true.
Proof. intros H1 H2. unfold main_safe. rewrite H1, H2. reflexivity. Qed.

(* once nothing bogus is forwarded any more, bool parameters are covered too *)
Lemma main_safe_when_nothing_bogus {V} (s : sig V) :
  main_bogus facts_gen = [] -> existsb (fun p => has_def p && main_refuses facts_gen p) s = false -> main_safe facts_gen s = true.
Proof. intros H1 H2. unfold main_safe. rewrite H1, H2. cbn [negb andb]. apply orb_true_r. Qed.

(* ---------- list / dict / set defaults are copied (regenerated facts); only other unhashable defaults are refused ---------- *)
Lemma gen_main_copied : f_main_copied facts_gen = [KList; KDict; KSet]. Proof. reflexivity. Qed.
Lemma gen_cf_copied : f_cf_copied facts_gen = [KList; KDict; KSet]. Proof. reflexivity. Qed.
Lemma main_refuses_gen {V} (p : param V) : main_refuses facts_gen p = is_mut_other (p_mut p).
Proof. unfold main_refuses. rewrite gen_main_copied. destruct (p_mut p) as [|[| |]|]; reflexivity. Qed.
Lemma cf_refuses_gen {V} (p : param V) : cf_refuses facts_gen p = is_mut_other (p_mut p).
Proof. unfold cf_refuses. rewrite gen_cf_copied. destruct (p_mut p) as [|[| |]|]; reflexivity. Qed.

Lemma existsb_ext_local {A} (f g : A -> bool) l : (forall x, f x = g x) -> existsb f l = existsb g l.
Proof. intros E. induction l as [|x r IH]; [reflexivity|]. cbn [existsb]. rewrite E, IH. reflexivity. Qed.

(* the full domain of main: any parameter types including bool, any defaults including list/dict/set ones; the only
   exclusion left is an unhashable default of another kind (a dataclass instance) *)
Lemma main_safe_full {V} (s : sig V) :
  main_bogus facts_gen = [] ->
  existsb (fun p => has_def p && is_mut_other (p_mut p)) s = false -> main_safe facts_gen s = true.
Proof.
  intros B H. apply main_safe_when_nothing_bogus; [exact B|]. rewrite <- H. apply existsb_ext_local.
  intros p. rewrite main_refuses_gen. reflexivity.
Qed.

Lemma cf_no_refusal {V} (s : sig V) ignore over :
  existsb (fun p => has_def p && is_mut_other (p_mut p)) s = false ->
  existsb (fun f => fl_has_def f && fl_mut f) (cf_fields facts_gen ignore over s) = false.
Proof.
  intros H. apply Bool.not_true_is_false. intros X. apply existsb_exists in X as [f [Hf Hb]].
  apply (Permutation_in _ (cf_fields_perm facts_gen gen_req_front gen_skips_ignored ignore over s)) in Hf.
  apply in_map_iff in Hf as [p [E Hp]]. subst f. apply filter_In in Hp as [Hp _].
  apply andb_true_iff in Hb as [Hd Hm]. cbn [cf_field fl_mut] in Hm. unfold fl_has_def in Hd. cbn [cf_field fl_default] in Hd.
  unfold eff_default in Hd. destruct (lookup over (p_name p)); [discriminate|]. rewrite cf_refuses_gen in Hm.
  assert (E : existsb (fun p => has_def p && is_mut_other (p_mut p)) s = true).
  { apply existsb_exists. exists p. split; [exact Hp|]. unfold has_def. rewrite Hm. destruct (p_default p); [reflexivity | discriminate]. }
  congruence.
Qed.

Definition flag_sig : sig string := [mkparam "flag" PosOrKw ABool (Some "false") Immut].
Definition mutable_sig : sig string := [mkparam "cfg" PosOrKw ADc (Some "Cfg()") MutOther].

(* defect #18, stated so that this file keeps building once nothing bogus is forwarded any more: IF main forwards a keyword
   the boolean action refuses, `def f(flag: bool = False)` fails at set-up and the full statement is refuted *)
Lemma main_bool_outcome_if x l vals :
  main_bogus facts_gen = x :: l -> main_run facts_gen flag_sig (Ok vals) [] [] = (None, Err (Raise "TypeError")).
Proof.
  intros B. unfold main_run.
  rewrite (main_setup_bool_fails facts_gen gen_sorted flag_sig eq_refl eq_refl) by (rewrite B; discriminate). reflexivity.
Qed.

Theorem main_refuted_bool_if x l :
  main_bogus facts_gen = x :: l -> exists (s : sig string) vals, sig_wf s = true /\ ~ main_statement s vals.
Proof.
  intros B. exists flag_sig, (fun _ => "false"). split; [reflexivity|].
  unfold main_statement. cbn zeta. intros [H _]. rewrite (main_bool_outcome_if x l _ B) in H. discriminate H.
Qed.

Theorem main_refuted_mutable_default : exists (s : sig string) vals, sig_wf s = true /\ ~ main_statement s vals.
Proof.
  exists mutable_sig, (fun _ => "Cfg()"). split; [reflexivity|].
  unfold main_statement. cbn zeta. intros [H _]. vm_compute in H. discriminate H.
Qed.

Lemma main_mutable_outcome : main_run facts_gen mutable_sig (Ok (fun _ => "x")) [] [] = (None, Err (Raise "ValueError")).
Proof. vm_compute. reflexivity. Qed.

Theorem main_meets_spec_gen {V} (veqb : V -> V -> bool) (s : sig V) parsed :
  (forall v, veqb v v = true) -> sig_wf s = true -> main_safe facts_gen s = true ->
  spec_main veqb s parsed false (main_run facts_gen s parsed [] []) = true.
Proof. intros R. apply (main_meets_spec veqb R facts_gen gen_pos_kinds gen_sorted gen_pos_keys). Qed.

(* ---------- config_for ---------- *)
Theorem config_for_fields {V} (s : sig V) ignore over :
  let fs := cf_fields facts_gen ignore over s in
  Permutation (map (fun f => (fl_name f, fl_default f)) fs)
              (map (fun p => (p_name p, eff_default over p)) (filter (cf_keeps ignore over) s))
  /\ required_first fs = true
  /\ forallb (fun f => negb (fl_pos f)) fs = true.
Proof.
  cbn zeta. split; [|split].
  - eapply Permutation_trans.
    + apply Permutation_map. apply (cf_fields_perm facts_gen gen_req_front gen_skips_ignored).
    + rewrite map_map. apply Permutation_refl.
  - apply (cf_fields_ordered facts_gen gen_req_front gen_skips_ignored).
  - apply forallb_forall. intros f Hf.
    apply (Permutation_in _ (cf_fields_perm facts_gen gen_req_front gen_skips_ignored ignore over s)) in Hf.
    apply in_map_iff in Hf as [p [E _]]. subst f. reflexivity.
Qed.

(* fully annotated (or defaulted) parameters, no overrides: fields <-> non-ignored parameters, defaults preserved *)
Corollary config_for_fields_typed {V} (s : sig V) ignore :
  forallb (fun p => negb (cf_untyped [] p)) s = true ->
  Permutation (map (fun f => (fl_name f, fl_default f)) (cf_fields facts_gen ignore [] s))
              (map (fun p => (p_name p, p_default p)) (filter (fun p => negb (str_in (p_name p) ignore)) s)).
Proof.
  intros T. destruct (config_for_fields s ignore []) as [P _]. cbn zeta in P.
  eapply Permutation_trans; [exact P|].
  assert (E : filter (cf_keeps ignore []) s = filter (fun p => negb (str_in (p_name p) ignore)) s).
  { apply filter_ext_in. intros p Hp. rewrite forallb_forall in T. unfold cf_keeps. rewrite (T p Hp). apply andb_true_r. }
  rewrite E. apply Permutation_refl.
Qed.

Theorem config_for_fields_meet_spec {V} (veqb : V -> V -> bool) (s : sig V) ignore over :
  (forall v, veqb v v = true) -> str_nodupb (map p_name s) = true ->
  spec_fields veqb s ignore over (Ok (observed_fields (cf_fields facts_gen ignore over s))) = true.
Proof. intros R. apply (cf_fields_meet_spec veqb R facts_gen gen_req_front gen_skips_ignored). Qed.

(* set-up of the derived class succeeds unless a kept default is unhashable *)
Theorem config_for_setup {V} (s : sig V) ignore over :
  existsb (fun f => fl_has_def f && fl_mut f) (cf_fields facts_gen ignore over s) = false ->
  setup facts_gen (cf_fields facts_gen ignore over s) = Ok tt.
Proof.
  intros M. unfold setup. rewrite M.
  change (order_ok false (cf_fields facts_gen ignore over s)) with (required_first (cf_fields facts_gen ignore over s)).
  destruct (config_for_fields s ignore over) as [_ [O _]]. cbn zeta in O. rewrite O. cbn [negb].
  assert (E : existsb (fun f : fld V => is_bool_ann (fl_ann f)
                && match bogus_for_bool facts_gen (fl_custom f) with [] => false | _ => true end)
              (cf_fields facts_gen ignore over s) = false).
  { apply Bool.not_true_is_false. intros X. apply existsb_exists in X as [f [Hf Hb]].
    apply (Permutation_in _ (cf_fields_perm facts_gen gen_req_front gen_skips_ignored ignore over s)) in Hf.
    apply in_map_iff in Hf as [p [E _]]. subst f. cbn [cf_field fl_custom fl_ann] in Hb.
    destruct gen_cf_custom_ok as [C1 C2]. destruct (eff_default over p); [rewrite C2 in Hb | rewrite C1 in Hb];
      rewrite andb_false_r in Hb; discriminate. }
  rewrite E. reflexivity.
Qed.

(* ---------- Partial.__call__ ---------- *)
Theorem partial_call_gen {V} (fs : list (fld V)) vals call_pos call_kw :
  let c := partial_call facts_gen fs vals call_pos call_kw in
  c_pos c = call_pos
  /\ (forall k, lookup (c_kw c) k = match lookup call_kw k with
                                   | Some v => Some v
                                   | None => if str_in k (map fl_name fs) then Some (vals k) else None
                                   end)
  /\ keys (c_kw c) = (map fl_name fs ++ filter (fun k => negb (str_in k (map fl_name fs))) (keys call_kw))%list.
Proof. apply (partial_call_kwargs facts_gen gen_call_site_wins). Qed.

Definition call_binds_statement {V} (s : sig V) ignore over vals call_kw : Prop :=
  forall w, want_bindings s (map fl_name (cf_fields facts_gen ignore over s)) vals call_kw = Some w ->
            snd (cf_run facts_gen s ignore over (Ok vals) [] call_kw) = Ok w.

Theorem partial_binds_partial {V} (s : sig V) ignore over vals call_kw :
  str_nodupb (map p_name s) = true ->
  existsb (fun f => fl_has_def f && fl_mut f) (cf_fields facts_gen ignore over s) = false ->
  no_po_field ignore over s = true ->
  call_kw_plain s call_kw = true ->
  call_binds_statement s ignore over vals call_kw.
Proof.
  intros N M P K w Hw. unfold cf_run. rewrite (config_for_setup s ignore over M). cbn [snd].
  apply (partial_call_binds facts_gen gen_req_front gen_skips_ignored ignore over gen_call_site_wins); assumption.
Qed.

Definition po_sig : sig string := [mkparam "a" PosOnly AInt None Immut].
Theorem partial_binds_refuted :
  exists (s : sig string) vals, sig_wf s = true /\ call_kw_plain s [] = true /\ ~ call_binds_statement s [] [] vals [].
Proof.
  exists po_sig, (fun _ => "1"). split; [reflexivity|]. split; [reflexivity|].
  unfold call_binds_statement. intros H. specialize (H [("a", "1")] eq_refl). vm_compute in H. discriminate H.
Qed.

Theorem partial_call_meets_spec_gen {V} (veqb : V -> V -> bool) (s : sig V) ignore over parsed call_pos call_kw :
  (forall v, veqb v v = true) -> str_nodupb (map p_name s) = true ->
  existsb (fun f => fl_has_def f && fl_mut f) (cf_fields facts_gen ignore over s) = false ->
  str_nodupb (keys call_kw) = true -> no_po_field ignore over s = true ->
  spec_partial_call veqb s (map fl_name (cf_fields facts_gen ignore over s)) parsed call_pos call_kw
                    (cf_run facts_gen s ignore over parsed call_pos call_kw) = true.
Proof.
  intros R N M. apply (partial_call_meets_spec veqb R facts_gen gen_req_front gen_skips_ignored gen_call_site_wins); [exact N|].
  apply config_for_setup. exact M.
Qed.

(* ---------- the class cache ---------- *)
Theorem cached_partial {V} (veqb : V -> V -> bool) (s : sig V) st r st1 c rs st2 os :
  (forall v, veqb v v = true) -> rq_hashable r = true ->
  cf_request veqb facts_gen s st r = (st1, Ok c) ->
  cf_session veqb facts_gen s st1 rs = (st2, os) ->
  cf_request veqb facts_gen s st2 r = (st2, Ok c).
Proof. intros R H. apply (cached_stable veqb R facts_gen s st r st1 c rs st2 os gen_cached H). Qed.

Theorem cached_refuted :
  exists (s : sig string) (r : cfreq string) st1 c c',
    cf_request String.eqb facts_gen s ([], 0) r = (st1, Ok c)
    /\ snd (cf_request String.eqb facts_gen s st1 r) = Ok c' /\ c <> c'.
Proof.
  exists [mkparam "p" PosOrKw ANone None Immut; mkparam "x" PosOrKw AInt (Some "1") Immut].
  exists (mkreq (IgList ["p"]) None []), ([], 1), 0, 1.
  split; [vm_compute; reflexivity|]. split; [vm_compute; reflexivity | discriminate].
Qed.
