NOTES = ("Machine-checked proof in Coq 8.16.1 about an executable model of SimpleParsing's logic; the model is tied to /repo on every "
         "run by (a) ast translators that regenerate coq/Gen/Facts*.v and (b) a vm_compute correspondence run. See DESIGN.md.")
COMMON_NOTE = ("Trusted: Coq kernel+VM; the ast translators; the correspondence harness (generators, canonicaliser, Coq emitters); "
               "argparse/dataclasses/typing are modelled, not verified. No axioms, no extraction. ")
CLAIMED = {
    "C12": {
        "text": "Theorems for every occurrence sequence / casing / path prefix over the model instantiated with the regenerated vocabulary, "
                "negative prefix and __call__ decision table (C12_flag_meets_spec, C12_last_wins, C12_vocab_*, C12_negative_is_documented, "
                "C12_negatives_injective); negative-option construction and argparse delivery are hand-modelled and tied by correspondence.",
        "note": COMMON_NOTE + "argparse's delivery of an occurrence to the action (type= first, nargs='?') is modelled.",
        "technique": "Coq proof over regenerated facts + vm_compute model/impl correspondence",
    },
}
CLAIMED["C03"] = {
    "text": "Theorems over the resolver model with max_attempts, the AUTO word-index expression, the strict nesting-level test and the "
            "exhaustion error regenerated from conflicts.py, for ALL forests and ANY option-string function: success => all registered "
            "option strings pairwise distinct (C03_resolved_options_unique); only prefixes change (C03_frame); NONE raises iff a clash exists; "
            "every failure is a ConflictResolutionError; without user prefixes every final prefix is a suffix of the destination path "
            "(C03_auto_suffix/C03_suffix_name), full path or nothing under EXPLICIT. 'A field whose name clashes with nothing keeps its bare name' "
            "and 'passing an option changes exactly its leaf' are evaluated by the Coq spec on every observed parser (sampled, not proved).",
    "note": COMMON_NOTE + "The traversal order of field wrappers is computed by the harness and compared with the implementation's in every case.",
    "technique": "Coq proof over regenerated facts + vm_compute model/impl correspondence",
}
CLAIMED["C10"] = {
    "text": "C10_options_are_documented: for every configuration (3 dash variants x 3 generation modes x 2 nested modes), every name, destination "
            "path and alias list, the model's registered spellings are exactly the documented set; no spelling registered twice; positional "
            "fields addressed by their destination only. option_strings is hand-modelled and tied by a correspondence that enumerates all "
            "18 configurations x both APIs x trees of depth <= 3, parsing every registered spelling and probing spellings of other modes.",
    "note": COMMON_NOTE + "argparse abbreviation matching is excluded from the 'no other spelling' probe.",
    "technique": "Coq proof + exhaustive-over-configurations vm_compute model/impl correspondence",
}
CLAIMED["C06"] = {
    "text": "Theorems for all schemas/layers (induction on trees): dict_union is a right-biased leaf-wise merge (C06_dict_union_lookup); the final "
            "value of every leaf is the highest-priority layer that mentions it with a non-null value (C06_layers_partial; the full statement is "
            "refuted by `x: Optional[int]=5`, file `x: null`, a known finding); siblings untouched; unknown keys are errors at any depth. "
            "dict_union, the order of the two config-file loops, the re-rooting condition and the unknown-name error are regenerated from the source.",
    "note": COMMON_NOTE + "argparse ('an explicit option overrides the default'), file I/O and json/yaml loading are modelled.",
    "technique": "Coq proof over regenerated facts + vm_compute model/impl correspondence",
}
CLAIMED["C20"] = {
    "text": "Theorems for all signatures: main passes every parameter exactly its parsed value once, positional-only ones positionally in order "
            "(C20_main_partial; domain includes bool parameters since the regenerated fact C20_nothing_bogus_forwarded holds); config_for fields = "
            "non-ignored parameters with defaults preserved; Partial.__call__ = field values updated by call-site kwargs; class cache for hashable "
            "arguments. Mutable defaults, positional-only fields of config_for and unhashable ignore_args are refuted with witnesses (known findings).",
    "note": COMMON_NOTE + "inspect.signature, lru_cache, CPython call binding and the 'equivalent dataclass parse' are modelled.",
    "technique": "Coq proof over regenerated facts + vm_compute model/impl correspondence",
}
NOT_CLAIMED = {}
