NOTES = ("Machine-checked proof in Coq 8.16.1 about an executable model of SimpleParsing's logic; the model is tied to /repo on every "
         "run by (a) ast translators that regenerate coq/Gen/Facts*.v and (b) a vm_compute correspondence run. See DESIGN.md.")
COMMON_NOTE = ("Trusted: Coq kernel+VM; the ast translators; the correspondence harness (generators, canonicaliser, Coq emitters); "
               "argparse/dataclasses/typing are modelled, not verified. No axioms, no extraction. ")
CLAIMED = {
    "C12": {
        "text": "Theorems for every occurrence sequence / casing / path prefix over the model instantiated with the regenerated vocabulary, "
                "negative prefix and __call__ decision table (C12_flag_meets_spec, C12_last_wins, C12_vocab_*, C12_negative_is_documented, "
                "C12_negatives_injective); the negative-option construction of BooleanOptionalAction.__init__ is dumped from its ast into the MiniPy deep "
                "embedding on every run and C12_source_is_model proves that interpreting it equals the model's negative_option_strings for every "
                "prefix / explicit negative / conflict prefix / option-string list (NotImplementedError branch and the constructor's assertion "
                "included); argparse delivery is hand-modelled and tied by correspondence (and by the ARGP engine).",
        "note": COMMON_NOTE + "argparse's delivery of an occurrence to the action (type= first, nargs='?') is modelled.",
        "technique": "Coq proof over regenerated facts + vm_compute model/impl correspondence",
    },
}
CLAIMED["C03"] = {
    "text": "Theorems over the resolver model with max_attempts, the AUTO word-index expression, the strict nesting-level test and the "
            "exhaustion error regenerated from conflicts.py, for ALL forests and ANY option-string function: success => all registered "
            "option strings pairwise distinct (C03_resolved_options_unique); only prefixes change (C03_frame); NONE raises iff a clash exists; "
            "every failure is a ConflictResolutionError; without user prefixes every final prefix is a suffix of the destination path "
            "(C03_auto_suffix/C03_suffix_name), full path or nothing under EXPLICIT; a field whose name clashes with nothing keeps its bare name "
            "(C03_unclashed_keeps_bare_name); an option string identifies one field (C03_option_identifies_field) and, composed with the token-level "
            "argparse model ARGP, passing it with a plain value token (either spelling) sets exactly that leaf's destination and leaves every other "
            "destination as the empty command line does (C03_option_changes_exactly_its_leaf, ..._eq_spelling, and their instances for the generated "
            "option strings). The same is evaluated by the Coq spec on every observed parser. Since the resolver bridge the theorems are about the SOURCE: "
            "get_conflict, _fix_conflict_explicit/_auto and the bounded while loop of resolve_and_flatten are dumped from the ast on every run and "
            "C03_source_is_model proves that interpreting them equals resolve_gen for NONE/EXPLICIT/AUTO on every flat forest (aliased field wrappers are "
            "represented by positions in one store; the loop's fuel is the regenerated max_attempts and provably never runs out); "
            "C03_source_resolved_options_unique / C03_source_none_iff_clash transport the results.",
    "note": COMMON_NOTE + "The traversal order of field wrappers is computed by the harness and compared with the implementation's in every case.",
    "technique": "Coq proof over regenerated facts + vm_compute model/impl correspondence",
}
CLAIMED["C10"] = {
    "text": "C10_options_are_documented: for every configuration (3 dash variants x 3 generation modes x 2 nested modes), every name, destination "
            "path and alias list, the model's registered spellings are exactly the documented set; no spelling registered twice; positional "
            "fields addressed by their destination only. FieldWrapper.option_strings is tied to the model by a THEOREM: its ast is dumped on every "
            "run into a deep embedding (Model/MiniPy.v, Gen/FactsOptStrSrc.v) and C10_source_is_model proves that interpreting the regenerated "
            "body equals the functional model for all configurations and field wrappers (so C10_source_options_are_documented is about the "
            "current source text); in addition a correspondence enumerates all "
            "18 configurations x both APIs x trees of depth <= 3, parsing every registered spelling and probing spellings of other modes.",
    "note": COMMON_NOTE + "argparse abbreviation matching is excluded from the 'no other spelling' probe.",
    "technique": "Coq proof incl. regenerated-source bridge (deep embedding) + exhaustive-over-configurations vm_compute model/impl correspondence",
}
CLAIMED["C06"] = {
    "text": "Theorems for all schemas/layers (induction on trees): dict_union is a right-biased leaf-wise merge (C06_dict_union_lookup); the final "
            "value of every leaf is the highest-priority layer that mentions it with a non-null value (C06_layers_partial; the full statement is "
            "refuted by `x: Optional[int]=5`, file `x: null`, a known finding); siblings untouched; unknown keys are errors at any depth. "
            "dict_union, the order of the two config-file loops, the re-rooting condition and the unknown-name error are regenerated from the source.",
    "note": COMMON_NOTE + "argparse ('an explicit option overrides the default'), file I/O and json/yaml loading are modelled.",
    "technique": "Coq proof over regenerated facts + vm_compute model/impl correspondence",
}
CLAIMED["C20"] = {
    "text": "Theorems for all signatures: main passes every parameter exactly its parsed value once, positional-only ones positionally in order "
            "(C20_main_partial; domain includes bool parameters since the regenerated fact C20_nothing_bogus_forwarded holds); config_for fields = "
            "non-ignored parameters with defaults preserved; Partial.__call__ = field values updated by call-site kwargs; class cache for hashable "
            "arguments. Composed with the argparse engine (C20_main_positionals_in_signature_order): over the actions main registers in the stably "
            "partitioned field order, the i-th plain token is what the callable receives as its i-th positional-only argument in signature order, "
            "too few tokens end with exit 2 before the call. Dataclass-instance defaults, positional-only fields of config_for and unhashable "
            "ignore_args are refuted with witnesses (known findings).",
    "note": COMMON_NOTE + "inspect.signature, lru_cache, CPython call binding and the 'equivalent dataclass parse' are modelled.",
    "technique": "Coq proof over regenerated facts + vm_compute model/impl correspondence",
}

T = "Coq proof over regenerated facts + vm_compute model/impl correspondence"
CLAIMED["C02"] = {
    "text": "C02_leaf_roundtrip: for EVERY type of the CLI grammar (int, float, str, bool, Path, Enum, Literal, lists, fixed/variadic tuples, Optional of "
            "these) and every well-typed value, the canonical tokens parse back to exactly that value (induction over items/tuples; int() round trip for "
            "integers of any size via the stdlib decimal lemmas; float() round trip for every exact decimal); order independence and 'unmentioned fields "
            "keep their default' for any number of distinct options; Optional[Literal]/List[Literal] refuted with a witness (known finding). Converter tables "
            "and decision-chain orders are regenerated; get_arg_options/postprocess are hand-modelled and tied by correspondence. "
            "The per-field abstraction itself is a theorem about the token-level argparse model (ARGP_leaf_pipeline), and the same composition gives "
            "C04_missing_required_rejected / C04_unknown_option_rejected / C04_surplus_token_rejected (Proofs/LeafReject.v).",
    "note": COMMON_NOTE + "argparse's slicing of one option group (nargs) and `--o=v` == `--o v` are modelled; floats are exact decimals (repr through decimal.Decimal); exponent spellings by instances + correspondence.",
    "technique": T,
}
CLAIMED["C04"] = {
    "text": "C04_accepted_is_well_typed (any token list: an accepted field value conforms to its annotation) and C04_refused_means_exit_2 (any refusal is "
            "argparse's error path, status 2 - true since the fix: commits, through the regenerated exception class of parse_enum and the regenerated "
            "BooleanOptionalAction.__call__ table), plus one theorem per mutation class (arity, surplus token, unknown Enum/Literal member, ill-typed "
            "item, value on a negative flag). Missing-required and unknown-option are argparse's own and covered by correspondence. "
            "They are now also theorems about the composition of the leaf model with the token-level argparse model (Proofs/LeafReject.v), for all field "
            "lists and all command lines made of well-formed groups: C04_missing_required_rejected, C04_unknown_option_rejected and "
            "C04_surplus_token_rejected (each: parse_args = Err (Exit 2)).",
    "note": COMMON_NOTE + "argparse's required/unknown-option handling is modelled; user __post_init__ is not exercised.",
    "technique": T,
}
CLAIMED["C11"] = {
    "text": "C11_scalar / C11_scalar_count_rule for all n >= 2 and all token lists (absent -> defaults, one -> all, n -> i-th to i-th in registration order, "
            "otherwise InconsistentArgumentError), C11_merge_order; the container statement is refuted with four witnesses (known findings) and proved as "
            "C11_container_partial for bracketed literals with safe defaults. duplicate_if_needed's chain, the default packaging condition and nargs are regenerated; "
            "in addition the BODY of duplicate_if_needed is dumped from its ast into the MiniPy deep embedding on every run and C11_source_is_model proves that "
            "interpreting it equals the model's duplicate_gen for all n >= 2, container kinds and parsed-value lists.",
    "note": COMMON_NOTE + "token literals (ast.literal_eval) and nested layouts are covered by correspondence only.",
    "technique": T,
}
CLAIMED["C14"] = {
    "text": "For all hierarchies and every enumeration order of subclasses (C14_any_permutation): the class chosen has every serialized key and minimal field "
            "count (C14_superset); an identified class loads back as itself with an equal value (C14_identified, init-only side condition; refuted otherwise); "
            "drop_extra_fields gives exactly the base; save_dc_types restores the exact class through dataclass-typed fields (partial; List/Dict items refuted).",
    "note": COMMON_NOTE + "__subclasses__ enumeration order is an input of each correspondence case; import machinery is modelled.",
    "technique": T,
}
CLAIMED["C17"] = {
    "text": "Induction on type expressions: every spelling denotes the same CLI type (C17_denote_render); union normalisation and the textual rewriter are "
            "correct on the stated sub-grammars (partial; tuple[X, ...] | None and bracketed bars refuted with witnesses = known findings); inheritance "
            "chains flatten to the flat class's field list. The property's pairwise oracle runs on real modules in 4 styles x flat/inherited x module/function scope.",
    "note": COMMON_NOTE + "typing.get_type_hints, frames and namespaces are not modelled (pairwise runs only).",
    "technique": T,
}
CLAIMED["C18"] = {
    "text": "For all trees and change sets: frame (addressed leaves new, every other leaf/node unchanged), empty change set, dotted = nested = keyword forms, "
            "equality with level-by-level dataclasses.replace, errors for non-init/unknown fields at any depth (C18_*); a mapping assigned to a field that holds no dataclass instance arrives unchanged whatever its keys, dotted ones included (C18_mapping_value_is_leaf). replace_subgroups: full statement "
            "refuted with witnesses (known findings), proved for no selection and one top-level selection.",
    "note": COMMON_NOTE + "dataclasses.replace itself is modelled.",
    "technique": T,
}
CLAIMED["C19"] = {
    "text": "C19_scan_render: the model of the docstring.py line scanner applied to the rendering of ANY well-formed layout returns exactly the documentation "
            "written for each field (no leakage, nothing invented), C19_precedence over the regenerated or-chain, C19_nearest_class over the MRO fold "
            "(partial: inherited-entry case refuted), history independence on single-inheritance chains (mixin case refuted) - the refutations are known findings.",
    "note": COMMON_NOTE + "inspect.getsource and docstring_parser are oracles; checked on generated real module files.",
    "technique": T,
}
CLAIMED["C15"] = {
    "text": "C15_what_comes_back: for every type of the CLI/serialisation intersection grammar and every well-typed value, exactly what the save -> config file "
            "-> parse loop returns; it equals the saved value under items_plain and not_null_over_default (C15_loop_partial, C15_tree_loop for whole nested "
            "instances and the 4 suffixes); the full statement is refuted with witnesses (None over a definition default; List[Path]/Tuple[Enum,..] items stay "
            "strings) = known findings. encode registrations, suffix table and the default->postprocess order are regenerated.",
    "note": COMMON_NOTE + "json/yaml/pickle are modelled as the identity on encoded documents; file I/O is trusted.",
    "technique": T,
}
CLAIMED["C09"] = {
    "text": "Section over an ARBITRARY argparse behaviour AP: parse_known_args = post(AP(plain ++ generated)); C09_frame (reject iff AP rejects, leftovers identical, "
            "plain entries untouched), C09_no_leak / C09_keys (every dotted dest registered at set-up is popped; keys = plain keys + destinations (+ subgroups)), "
            "C09_collision, C09_parents and C09_groups (full theorems since the two fix: commits, selected by regenerated facts), C09_help. The differential run "
            "against the stdlib twin is the property's own oracle.",
    "note": COMMON_NOTE + "argparse itself is the universally quantified AP in the theorems and the real argparse in the correspondence.",
    "technique": T,
}
CLAIMED["C08"] = {
    "text": "A process-level state machine (global FieldWrapper settings, per-parser cached set-up, tuple counters, config-path argument, config defaults) with "
            "C08_history_partial proved by induction over operation lists of ANY length: under the decidable predicate `benign`, every parse equals the fresh "
            "interpreter's answer; each clause of `benign` is guarded by a regenerated fact (two of them flipped by the fix: commits for spelling and the "
            "config-path argument; a third says that the set-up-done flag is assigned after the work, from which C08_failed_setup_leaves_parser / "
            "C08_failed_help_leaves_parser follow); the remaining situations are refuted with minimal witnesses (known findings). Each history of the correspondence runs in "
            "its own fresh process and is compared with the model and with a fresh-interpreter oracle.",
    "note": COMMON_NOTE + "thread interleavings are not exhibited (the library has no synchronisation; API-call-level interleavings are the op sequences).",
    "technique": T,
}
CLAIMED["C05"] = {
    "text": "C05_roundtrip_partial: for every serialisable type and every well-typed value (nested induction, no depth bound), decode(T(to_dict v)) = v for the "
            "dict/json/yaml/pickle transports and any set-iteration order, under union_safe (the full statement with Unions is refuted: first-success order "
            "is lossy - a known finding); C05_lenient (numbers/bools as strings, tuples as lists); C05_file through the regenerated suffix table; the "
            "dispatch order of get_decoding_fn, the union strategy and the encode registrations are regenerated from the source.",
    "note": COMMON_NOTE + "json/yaml/pickle codecs and file I/O are modelled as functions on primitives; non-ASCII text only impl-vs-spec.",
    "technique": T,
}
CLAIMED["C13"] = {
    "text": "C13_primitive_partial (to_dict of a well-typed value of a plain type contains only dict/list/str/int/float/bool/None; OrderedDict and tuple-keyed "
            "dicts refuted = known findings), C13_hooks_* (to_dict omits exactly the to_dict=False fields, applies field i's encoding_fn to field i only, "
            "from_dict applies decoding_fn; plain dataclasses inside containers refuted), C13_function (equal values, equal output for a fixed set order; "
            "refuted across orders). Aliasing / mutation probes on every mutable node are run by the correspondence (sampled).",
    "note": COMMON_NOTE + "CPython set iteration order is an explicit parameter; object identity is probed on the implementation only.",
    "technique": T,
}
CLAIMED["C07"] = {
    "text": "For subgroup trees of ANY depth (induction on the tree / fuel = nesting depth): C07_fuel (the itertools.count() rounds terminate after depth rounds), "
            "C07_key (last key given, else the declared default), C07_key_rejected_partial (unknown / missing required key => exit 2), "
            "C07_value_namespace_partial (value = chosen entry's defaults, partial overrides or frozen instance values, overridden by the passed options; "
            "`subgroups` reports the chosen keys), C07_no_crash (unconditional since the fix: commit), C07_foreign_rejected. Union-of-dataclass fields: "
            "C07_cmd_*_partial (sub-command name selects the type); argparse's own segmentation is covered by correspondence only. Abbreviated subgroup "
            "options are refuted with a witness (known finding).",
    "note": COMMON_NOTE + "argparse prefix matching is set aside (the spec is silent on foreign options that abbreviate a registered one).",
    "technique": T,
}
CLAIMED["C01"] = {
    "text": "C01_empty_defaults_partial: for all dataclass trees (induction, no depth bound) and all 144 configurations x both APIs, an empty command line "
            "delivers at every destination the caller's default instance or what the constructor produces - unconditionally for NONE/EXPLICIT/AUTO "
            "(C01_empty_defaults_plain_modes, since the fix: commit for Optional members), under a decidable side condition for ALWAYS_MERGE whose excluded "
            "shapes (partial default instances, mixed depths, merged Optional members) are refuted with witnesses = known findings; lemmas for the three "
            "default propagation paths, postprocess-of-a-default = identity (falsy values included), bottom-up instantiation. The instantiation pipeline is "
            "tied to the source by theorems: _fill_constructor_arguments_with_fields, FieldWrapper.__call__, _instantiate_dataclasses and "
            "_create_dataclass_instance are dumped from the ast into the MiniPy deep embedding on every run (C01_source_fill_is_model, _call_, "
            "_instantiate_, _create_is_model: interpreting them equals Model/Pipeline.v) and C01_source_pipeline_defaults links that model to the function "
            "the main theorem reasons about, for the empty command line.",
    "note": COMMON_NOTE + "the dataclass constructor is modelled (`construct`); Enum name round trip modelled as identity.",
    "technique": T,
}
CLAIMED["C16"] = {
    "text": "PARTIAL by design (HelpFormatter layout is not modelled; the help is modelled as groups of entries): C16_complete (entries <-> cmd-exposed init fields in "
            "declaration order, option strings = the accepted set), C16_hidden_never, C16_default_shown, C16_exit0, C16_reproducible (full since the fix: commit: "
            "proved from the regenerated fact that duplicates are removed in insertion order), C16_print_help_inert_partial (refuted with config files = known "
            "finding). The correspondence sweeps PYTHONHASHSEED in fresh interpreters and compares the raw text across seeds.",
    "note": COMMON_NOTE + "argparse HelpFormatter line wrapping/usage line and the help-text parser of the harness are trusted/sampled.",
    "technique": T,
}
NOT_CLAIMED = {}
