"""Shared DSL for command-line field types and values (C01, C02, C04, C15).

type  := {"k": "int"|"float"|"str"|"bool"|"path"} | {"k":"enum","name":N,"members":[..]} | {"k":"lit","choices":[str|int..]}
       | {"k":"list","item":type} | {"k":"tupfix","items":[type..]} | {"k":"tupvar","item":type} | {"k":"opt","item":type}
value := the JSON produced by implutil.canon  ({"t":"int","v":"5"}, {"t":"tuple","v":[..]}, ...)
"""
from __future__ import annotations

from decimal import Decimal

from coqemit import cZ, cbool, clist, cstr

ENUMS = {"Color": ["RED", "GREEN", "BLUE"], "Mode": ["fast", "slow"], "Lvl": ["A", "B", "C", "D"],
         # an IntEnum and a str-mixin Enum, each with a FALSY member: their members are ints / strs, which argparse and the
         # library's truthiness tests treat differently from plain Enum members (defects repaired by e04e845 / e9c428e)
         "Pri": ["ZERO", "LOW", "HIGH"], "Tag": ["EMPTY", "A", "B"],
         # a plain Enum whose VALUES are the NAMES of other members: a lookup by value instead of by name (seeded change
         # C02-06) silently yields the wrong member
         "Tog": ["ON", "OFF", "MID"]}
ENUM_BASES = {"Pri": ("IntEnum", ["0", "1", "3"]), "Tag": ("str, Enum", ["''", "'a'", "'b'"]),
              "Tog": ("Enum", ["'OFF'", "'MID'", "'ON'"])}


# ---- types ------------------------------------------------------------------------------------------

def annotation(t) -> str:
    k = t["k"]
    if k in ("int", "float", "str", "bool"):
        return k
    if k == "path":
        return "Path"
    if k == "enum":
        return t["name"]
    if k == "lit":
        return "Literal[" + ", ".join(repr(c) for c in t["choices"]) + "]"
    if k == "list":
        return f"List[{annotation(t['item'])}]"
    if k == "tupfix":
        return "Tuple[" + ", ".join(annotation(x) for x in t["items"]) + "]"
    if k == "tupvar":
        return f"Tuple[{annotation(t['item'])}, ...]"
    if k == "opt":
        return f"Optional[{annotation(t['item'])}]"
    raise ValueError(t)


def _enum_src(n, ms):
    base, vals = ENUM_BASES.get(n, ("Enum", [str(i + 1) for i in range(len(ms))]))
    return f"class {n}({base}):\n" + "".join(f"    {m} = {v}\n" for m, v in zip(ms, vals))


PRELUDE = ("from dataclasses import dataclass, field\nfrom enum import Enum, IntEnum\nfrom pathlib import Path\n"
           "from typing import List, Tuple, Optional, Union\nfrom typing_extensions import Literal\n"
           + "".join(_enum_src(n, ms) for n, ms in ENUMS.items()))


def ty_coq(t) -> str:
    k = t["k"]
    simple = {"int": "TInt", "float": "TFloat", "str": "TStr", "bool": "TBool", "path": "TPath"}
    if k in simple:
        return simple[k]
    if k == "enum":
        return "(TEnum " + clist([cstr(m) for m in t["members"]]) + ")"
    if k == "lit":
        return "(TLit " + clist([f"(LStr {cstr(c)})" if isinstance(c, str) else f"(LInt {cZ(c)})" for c in t["choices"]]) + ")"
    if k == "list":
        return f"(TList {ty_coq(t['item'])})"
    if k == "tupfix":
        return "(TTupFix " + clist([ty_coq(x) for x in t["items"]]) + ")"
    if k == "tupvar":
        return f"(TTupVar {ty_coq(t['item'])})"
    if k == "opt":
        return f"(TOpt {ty_coq(t['item'])})"
    raise ValueError(t)


# ---- values -----------------------------------------------------------------------------------------

class OutOfScope(Exception):
    pass


def float_parts(rep: str):
    """repr of a float -> (neg, integer part, fraction digits without trailing zeros), exactly."""
    d = Decimal(rep)
    if not d.is_finite():
        raise OutOfScope("non-finite float")
    sign, digits, exp = d.as_tuple()
    ds = "".join(map(str, digits))
    if exp >= 0:
        ip, frac = ds + "0" * exp, ""
    elif -exp >= len(ds):
        ip, frac = "0", "0" * (-exp - len(ds)) + ds
    else:
        ip, frac = ds[:exp], ds[exp:]
    frac = frac.rstrip("0")
    ipz = int(ip)
    neg = bool(sign) and not (ipz == 0 and frac == "")
    return neg, ipz, frac


def value_coq(v) -> str:
    t = v["t"]
    if t == "int":
        return f"(VInt {cZ(int(v['v']))})"
    if t == "float":
        n, i, f = float_parts(v["v"])
        return f"(VFlt {cbool(n)} {cZ(i)} {cstr(f)})"
    if t == "str":
        return f"(VStr {cstr(v['v'])})"
    if t == "bool":
        return f"(VBool {cbool(v['v'])})"
    if t == "none":
        return "VNone"
    if t == "enum":
        return f"(VEnum {cstr(v['v'])})"
    if t == "path":
        return f"(VPath {cstr(v['v'])})"
    if t == "list":
        return "(VList " + clist([value_coq(x) for x in v["v"]]) + ")"
    if t == "tuple":
        return "(VTup " + clist([value_coq(x) for x in v["v"]]) + ")"
    raise OutOfScope(f"value kind {t}")


def value_py(v) -> str:
    """Python source expression (used for defaults in generated dataclasses)."""
    t = v["t"]
    if t == "int":
        return v["v"]
    if t == "float":
        return f"float({v['v']!r})"
    if t == "str":
        return repr(v["v"])
    if t == "bool":
        return "True" if v["v"] else "False"
    if t == "none":
        return "None"
    if t == "enum":
        return f"{v['c']}.{v['v']}"
    if t == "path":
        return f"Path({v['v']!r})"
    if t == "list":
        return "[" + ", ".join(value_py(x) for x in v["v"]) + "]"
    if t == "tuple":
        return "(" + "".join(value_py(x) + ", " for x in v["v"]) + ")"
    raise ValueError(v)


def default_src(v) -> str:
    if v["t"] in ("list",):
        return f"field(default_factory=lambda: {value_py(v)})"
    return value_py(v)


def scalar_token(v) -> str:
    t = v["t"]
    if t == "bool":
        return "True" if v["v"] else "False"
    if t in ("int", "float", "str", "enum", "path"):
        return v["v"]
    raise ValueError(v)


def canon_tokens(v):
    if v["t"] == "none":
        return []
    if v["t"] in ("list", "tuple"):
        return [scalar_token(x) for x in v["v"]]
    return [scalar_token(v)]


def token_plain(s: str) -> bool:
    import re
    return not s.startswith("-") or bool(re.match(r"^-\d+$|^-\d*\.\d+$", s))


# ---- generators -------------------------------------------------------------------------------------

INTS = ["0", "1", "-1", "2", "-2", "7", "42", "-300", "1180591620717411303424", "-99999999999999999999"]
FLOATS = ["0.0", "1.5", "-0.25", "2.0", "100.0", "0.001", "-3.75", "1e-05", "12345.678", "1e+16", "0.1", "-2.5e-07"]
STRS = ["", "a", "hello", "x y", "123", "True", "a=b", "ü", "1.5", "none", "[1, 2]", "a,b"]
PATHS = ["a", "a/b", "/tmp/x.txt", "..", "rel/dir/file", "x y/z"]
# Literal choice sets, falsy members (0, '') included
LITS = [{"k": "lit", "choices": ["a", "b", "cc"]}, {"k": "lit", "choices": [1, 2, 30]}, {"k": "lit", "choices": ["x", 5]},
        {"k": "lit", "choices": [0, 1, 2]}, {"k": "lit", "choices": ["", "a"]}, {"k": "lit", "choices": [-1, 0]}]


def rand_item_type(rng):
    k = rng.choice(["int", "int", "float", "str", "str", "bool", "path", "enum"])
    if k == "enum":
        n = rng.choice(sorted(ENUMS))
        return {"k": "enum", "name": n, "members": ENUMS[n]}
    return {"k": k}


def rand_type(rng, allow_lit=True):
    r = rng.random()
    if r < 0.42:
        t = rand_item_type(rng)
        if allow_lit and rng.random() < 0.12:
            t = rng.choice(LITS)
        return t
    if r < 0.55:
        return {"k": "list", "item": rand_item_type(rng)}
    if r < 0.68:
        n = rng.randint(1, 3)
        if rng.random() < 0.5:
            it = rand_item_type(rng)
            return {"k": "tupfix", "items": [it] * n}
        return {"k": "tupfix", "items": [rand_item_type(rng) for _ in range(n)]}
    if r < 0.76:
        return {"k": "tupvar", "item": rand_item_type(rng)}
    inner = rand_type(rng, allow_lit=False)
    while inner["k"] == "opt":
        inner = rand_type(rng, allow_lit=False)
    return {"k": "opt", "item": inner}


def rand_value(rng, t, allow_none=True):
    k = t["k"]
    if k == "int":
        return {"t": "int", "v": rng.choice(INTS)}
    if k == "float":
        return {"t": "float", "v": repr(float(rng.choice(FLOATS)))}
    if k == "str":
        return {"t": "str", "v": rng.choice(STRS)}
    if k == "bool":
        return {"t": "bool", "v": rng.random() < 0.5}
    if k == "path":
        return {"t": "path", "v": rng.choice(PATHS)}
    if k == "enum":
        return {"t": "enum", "c": t["name"], "v": rng.choice(t["members"])}
    if k == "lit":
        c = rng.choice(t["choices"])
        return {"t": "str", "v": c} if isinstance(c, str) else {"t": "int", "v": str(c)}
    if k == "list":
        return {"t": "list", "v": [rand_value(rng, t["item"]) for _ in range(rng.choice([0, 1, 2, 3]))]}
    if k == "tupvar":
        return {"t": "tuple", "v": [rand_value(rng, t["item"]) for _ in range(rng.choice([0, 1, 2, 3]))]}
    if k == "tupfix":
        return {"t": "tuple", "v": [rand_value(rng, x) for x in t["items"]]}
    if k == "opt":
        if allow_none and rng.random() < 0.25:
            return {"t": "none"}
        return rand_value(rng, t["item"])
    raise ValueError(t)


def expressible(t, v) -> bool:
    """can v be written as tokens after the option of a field of type t (C02's quantifier)?"""
    if v["t"] == "none":
        return t["k"] == "opt" and t["item"]["k"] not in ("list", "tupfix", "tupvar")
    return all(token_plain(s) for s in canon_tokens(v))
