#!/venv/bin/python
"""./check Cxx [--tier quick|thorough] [--replay file]

One run = translate (regenerate coq/Gen/Facts*.v from the repository's working tree) -> prove (make the
property's .vo, capture Print Assumptions) -> correspond (same generated cases on the implementation and,
inside Coq with vm_compute, on the model and the spec) -> classify -> evidence.  See DESIGN.md 1.1.
"""
from __future__ import annotations

import argparse
import collections
import concurrent.futures as cf
import fcntl
import hashlib
import importlib
import json
import os
import re
import shutil
import subprocess
import sys
import time

HERE = os.path.dirname(os.path.abspath(__file__))
ROOT = os.path.dirname(HERE)
sys.path.insert(0, HERE)

REPO = os.environ.get("VERIF_REPO", "/repo")
COQ = os.environ.get("VERIF_COQDIR", os.path.join(ROOT, "coq"))
PY = "/venv/bin/python"
NPROC = int(os.environ.get("VERIF_JOBS", "16"))
FORBIDDEN = re.compile(
    r"\bAdmitted\b|\badmit\b|\bAxiom\b|\bParameter\b|\bConjecture\b|Unset\s+Guard|bypass_check|type-in-type"
    r"|\bAdmit\s+Obligations\b|impredicative-set|^\s*(Variable|Hypothesis|Variables|Hypotheses)\b"
)
LAST_DEPS = {}
OBLIG = re.compile(r"^\s*(Theorem|Lemma|Example|Corollary|Fact|Remark|Proposition)\s+([A-Za-z0-9_']+)", re.M)
SUBDIRS = ["Base", "Gen", "Model", "Proofs", "Properties", "CorrDefs"]


def log(*a):
    print(*a, flush=True)


# --------------------------------------------------------------------------------------------------
# locking


class Lock:
    def __init__(self, exclusive: bool):
        self.exclusive = exclusive

    def __enter__(self):
        os.makedirs(COQ, exist_ok=True)
        self.f = open(os.path.join(COQ, ".lock"), "w")
        fcntl.flock(self.f, fcntl.LOCK_EX if self.exclusive else fcntl.LOCK_SH)
        return self

    def __exit__(self, *a):
        fcntl.flock(self.f, fcntl.LOCK_UN)
        self.f.close()


# --------------------------------------------------------------------------------------------------
# translate


def write_if_changed(path: str, text: str) -> bool:
    try:
        if open(path).read() == text:
            return False
    except FileNotFoundError:
        pass
    os.makedirs(os.path.dirname(path), exist_ok=True)
    with open(path, "w") as f:
        f.write(text)
    return True


def all_fact_modules():
    d = os.path.join(HERE, "translate")
    return sorted(f[:-3] for f in os.listdir(d) if f.endswith(".py") and f[0].isupper())


def translate(names):
    """Regenerate coq/Gen/Facts<name>.v for each translator module.  Fail closed: a module that cannot
    recognise its source emits a stub (dependents then fail to build) and is reported."""
    failures = {}
    for name in names:
        out = os.path.join(COQ, "Gen", f"Facts{name}.v")
        try:
            mod = importlib.import_module(f"translate.{name}")
            text = mod.emit(REPO)
        except Exception as e:  # noqa: BLE001
            failures[name] = f"{type(e).__name__}: {e}"
            text = f"(* translator {name} FAILED CLOSED: {type(e).__name__}: {str(e)[:500]} *)\n"
        text = f"(* GENERATED from {REPO} by harness/translate/{name}.py on every check - do not edit *)\n" + text
        write_if_changed(out, text)
    return failures


def mkproject():
    files = []
    for sd in SUBDIRS:
        d = os.path.join(COQ, sd)
        if os.path.isdir(d):
            for f in sorted(os.listdir(d)):
                if f.endswith(".v"):
                    files.append(f"{sd}/{f}")
    text = "-Q . SPV\n" + "\n".join(files) + "\n"
    changed = write_if_changed(os.path.join(COQ, "_CoqProject"), text)
    if changed or not os.path.exists(os.path.join(COQ, "Makefile")):
        subprocess.run(["coq_makefile", "-f", "_CoqProject", "-o", "Makefile"], cwd=COQ, check=True,
                       stdout=subprocess.DEVNULL, stderr=subprocess.DEVNULL)
    return files


# --------------------------------------------------------------------------------------------------
# build / proof accounting


def run(cmd, cwd=None, timeout=None, env=None):
    t = time.time()
    try:
        p = subprocess.run(cmd, cwd=cwd, timeout=timeout, env=env, stdout=subprocess.PIPE,
                           stderr=subprocess.STDOUT, text=True, errors="replace")
        return p.returncode, p.stdout, time.time() - t
    except subprocess.TimeoutExpired as e:
        out = e.stdout if isinstance(e.stdout, str) else (e.stdout or b"").decode(errors="replace")
        return 124, out + f"\nTIMEOUT after {timeout}s", time.time() - t


def make(targets, timeout):
    return run(["make", f"-j{NPROC}", "--no-print-directory"] + targets, cwd=COQ, timeout=timeout)


def dep_cone(vfile, files):
    """Transitive SPV dependencies of vfile (paths relative to coq/), using coqdep."""
    rc, out, _ = run(["coqdep", "-Q", ".", "SPV"] + files, cwd=COQ, timeout=120)
    deps = {}
    for line in out.splitlines():
        if ":" not in line:
            continue
        lhs, rhs = line.split(":", 1)
        tgt = [x for x in lhs.split() if x.endswith(".vo")]
        if not tgt:
            continue
        src = tgt[0][:-1]
        deps[src] = [x[:-1] for x in rhs.split() if x.endswith(".vo")]
    global LAST_DEPS
    LAST_DEPS = {os.path.normpath(k): [os.path.normpath(x) for x in v] for k, v in deps.items()}
    cone, todo = [], [vfile]
    while todo:
        f = todo.pop()
        f = os.path.normpath(f)
        if f in cone:
            continue
        cone.append(f)
        todo.extend(deps.get(f, []))
    return sorted(cone)


def obligations_in(files):
    names = []
    for f in files:
        try:
            text = open(os.path.join(COQ, f)).read()
        except FileNotFoundError:
            continue
        names += [(f, m.group(2)) for m in OBLIG.finditer(text)]
    return names


def forbidden_in(files):
    hits = []
    for f in files:
        try:
            lines = open(os.path.join(COQ, f)).read().splitlines()
        except FileNotFoundError:
            continue
        in_section = 0
        for i, line in enumerate(lines, 1):
            code = re.sub(r"\(\*.*?\*\)", "", line)
            if re.match(r"\s*Section\b", code):
                in_section += 1
            if re.match(r"\s*End\b", code) and in_section:
                in_section -= 1
            m = FORBIDDEN.search(code)
            if m:
                if m.group(1) and in_section:
                    continue  # Variable/Hypothesis inside a Section is allowed
                hits.append(f"{f}:{i}: {line.strip()[:120]}")
    return hits


def enclosing_obligation(f, lineno):
    try:
        lines = open(os.path.join(COQ, f)).read().splitlines()
    except FileNotFoundError:
        return None
    for i in range(min(lineno, len(lines)) - 1, -1, -1):
        m = OBLIG.match(lines[i])
        if m:
            return m.group(2)
    return None


def first_error(out):
    m = re.search(r'File "\./?([^"]+)", line (\d+), characters[^\n]*\n((?:.*\n){0,12})', out)
    if not m:
        return None
    f, ln, msg = m.group(1), int(m.group(2)), m.group(3)
    return {"file": f, "line": ln, "obligation": enclosing_obligation(f, ln), "message": msg.strip()[:600]}


def print_assumptions(prop_v):
    """Re-run coqc on the property file to capture what Print Assumptions says for each theorem."""
    rc, out, _ = run(["coqc", "-Q", ".", "SPV", prop_v], cwd=COQ, timeout=600)
    res, axioms = [], set()
    text = out
    closed = len(re.findall(r"Closed under the global context", text))
    for m in re.finditer(r"Axioms:\n((?:.+\n?)+?)(?:\n|$)", text):
        for line in m.group(1).splitlines():
            mm = re.match(r"^([A-Za-z0-9_.']+)\s*:", line)
            if mm:
                axioms.add(mm.group(1))
    return rc, closed, sorted(axioms), out


# --------------------------------------------------------------------------------------------------
# correspondence


def impl_env(hashseed="0"):
    env = dict(os.environ)
    env["PYTHONPATH"] = REPO + os.pathsep + HERE
    env["PYTHONHASHSEED"] = hashseed
    env["PYTHONDONTWRITEBYTECODE"] = "1"
    env["LEBRICE_SIMPLEPARSING_VERIF"] = "1"
    env["VERIF_REPO"] = REPO
    return env


def run_impl(prop, cases, workdir, nshards=NPROC):
    """Run mod.run_impl over the cases in parallel worker interpreters; returns obs list."""
    if not cases:
        return []
    n = max(1, min(nshards, (len(cases) + 19) // 20))
    shards = [cases[i::n] for i in range(n)]
    os.makedirs(workdir, exist_ok=True)

    def one(i):
        fin = os.path.join(workdir, f"in_{i}.json")
        fout = os.path.join(workdir, f"out_{i}.json")
        json.dump(shards[i], open(fin, "w"))
        rc, out, _ = run([PY, os.path.join(HERE, "worker.py"), prop, fin, fout], cwd=workdir,
                         timeout=3600, env=impl_env())
        if rc != 0:
            raise RuntimeError(f"impl worker {i} failed rc={rc}:\n{out[-3000:]}")
        return json.load(open(fout))

    with cf.ThreadPoolExecutor(n) as ex:
        outs = list(ex.map(one, range(n)))
    obs = [None] * len(cases)
    for i, o in enumerate(outs):
        for j, x in enumerate(o):
            obs[i + j * n] = x
    return obs


def coq_eval(mod, cases, obs, rundir, chunk=400):
    """Write cases_k.v files and evaluate them with coqc (vm_compute).  Returns (bad_model, bad_spec, out_scope,
    errors) as index lists into `cases`."""
    shutil.rmtree(rundir, ignore_errors=True)
    os.makedirs(rundir, exist_ok=True)
    rel = os.path.relpath(rundir, COQ)
    files = []
    for k in range(0, len(cases), chunk):
        name = f"cases_{k // chunk}"
        body = [mod.COQ_HEADER, "Open Scope string_scope.", f"Definition cases : list {mod.COQ_CASE_TYPE} := ["]
        terms = [mod.to_coq(c, o) for c, o in zip(cases[k:k + chunk], obs[k:k + chunk])]
        body.append(";\n".join(terms))
        body.append("].")
        body.append("Definition r_model := bad_idx model_ok cases.")
        body.append("Definition r_spec := bad_idx spec_ok cases.")
        body.append("Definition r_scope := bad_idx in_scope cases.")
        body.append('Eval vm_compute in ("MODEL", r_model).')
        body.append('Eval vm_compute in ("SPEC", r_spec).')
        body.append('Eval vm_compute in ("SCOPE", r_scope).')
        path = os.path.join(rundir, name + ".v")
        open(path, "w").write("\n".join(body) + "\n")
        files.append((k, os.path.join(rel, name + ".v")))

    def one(item):
        k, f = item
        rc, out, _ = run(["bash", "-c", f"ulimit -s unlimited 2>/dev/null; exec coqc -Q . SPV {f}"], cwd=COQ, timeout=1800)
        if rc == 0 and not os.environ.get("VERIF_KEEP_CASES"):
            # the generated case files of a thorough run are gigabytes: keep only chunks that failed to evaluate
            base = os.path.join(COQ, f[:-2])
            for ext in (".v", ".vo", ".vok", ".vos", ".glob"):
                try:
                    os.remove(base + ext)
                except OSError:
                    pass
            try:
                os.remove(os.path.join(os.path.dirname(base), "." + os.path.basename(base) + ".aux"))
            except OSError:
                pass
        return k, rc, out

    bad_model, bad_spec, out_scope, errors = [], [], [], []
    with cf.ThreadPoolExecutor(NPROC) as ex:
        for k, rc, out in ex.map(one, files):
            flat = " ".join(out.split())
            if rc != 0:
                errors.append(f"coqc cases chunk at {k} failed: {out[-1500:]}")
                continue
            for tag, dst in (("MODEL", bad_model), ("SPEC", bad_spec), ("SCOPE", out_scope)):
                m = re.search(r'= \("' + tag + r'", (\[[^\]]*\])', flat)
                if not m:
                    errors.append(f"could not parse {tag} result for chunk {k}: {flat[:400]}")
                    continue
                nums = re.findall(r"\d+", m.group(1))
                dst.extend(k + int(x) for x in nums)
    return sorted(bad_model), sorted(bad_spec), sorted(out_scope), errors


# --------------------------------------------------------------------------------------------------
# findings


def load_findings(prop):
    known, fixed = {}, []
    p = os.path.join(ROOT, "KNOWN_FINDINGS.txt")
    if os.path.exists(p):
        for line in open(p):
            line = line.strip()
            if not line or line.startswith("#"):
                continue
            m = re.match(r"known:\s+property=(\S+)\s+sig=(\S+)\s+what=(.*)$", line)
            if m and m.group(1) == prop:
                known[m.group(2)] = m.group(3)
            m = re.match(r"fixed:\s+property=(\S+)\s+(.*)$", line)
            if m and m.group(1) == prop:
                fixed.append(m.group(2))
    return known, fixed


def write_replay(prop, payload):
    os.makedirs(os.path.join(ROOT, "replays"), exist_ok=True)
    h = hashlib.sha1(json.dumps(payload, sort_keys=True, default=str).encode()).hexdigest()[:12]
    path = os.path.join(ROOT, "replays", f"{prop}-{h}.json")
    json.dump(payload, open(path, "w"), indent=1, default=str)
    return path


def shrink_case(mod, prop, case, sig, workdir):
    """Greedy delta-debugging over mod.shrink candidates; keeps the violation's signature."""
    if not hasattr(mod, "shrink"):
        return case
    budget = 60
    cur = case
    progress = True
    while progress and budget > 0:
        progress = False
        cands = list(mod.shrink(cur))[:24]
        if not cands:
            break
        budget -= 1
        obs = run_impl(prop, cands, os.path.join(workdir, "shrink"))
        for c, o in zip(cands, obs):
            r = mod.py_spec(c, o)
            if r and mod.signature(c, o, r) == sig:
                cur, progress = c, True
                break
    return cur


# --------------------------------------------------------------------------------------------------
# main


def main():
    ap = argparse.ArgumentParser()
    ap.add_argument("prop")
    ap.add_argument("--tier", default=os.environ.get("VERIF_TIER", "quick"), choices=["quick", "thorough"])
    ap.add_argument("--replay")
    ap.add_argument("--no-coqchk", action="store_true")
    args = ap.parse_args()
    prop, tier = args.prop, args.tier
    seed = int(os.environ.get("VERIF_SEED", "0"))
    t0 = time.time()
    mod = importlib.import_module(f"props.{prop}")
    workdir = os.path.join(ROOT, ".work", f"{prop}-{os.getpid()}")
    os.makedirs(workdir, exist_ok=True)
    try:
        rc = check(mod, prop, tier, seed, t0, workdir, args)
    finally:
        shutil.rmtree(workdir, ignore_errors=True)
    sys.exit(rc)


def check(mod, prop, tier, seed, t0, workdir, args):
    known, fixed = load_findings(prop)
    tie_broken = []  # reasons the model<->code tie or a proof obligation is broken
    violations = []  # (sig, case, obs, reason, source)
    prop_v = f"Properties/{prop}.v"
    corr_v = f"CorrDefs/Corr{prop}.v"

    # ---- 1+2. translate and build, under the exclusive lock --------------------------------------
    with Lock(True):
        tfail = translate(all_fact_modules())
        files = mkproject()
        for name in getattr(mod, "FACTS", []):
            if name in tfail:
                tie_broken.append({"kind": "translator", "what": f"translate/{name}.py", "detail": tfail[name]})
        cone = dep_cone(prop_v, files)
        corr_cone = dep_cone(corr_v, files)
        hits = forbidden_in(sorted(set(cone + corr_cone)))
        if hits:
            tie_broken.append({"kind": "forbidden-construct", "what": hits[0], "detail": "\n".join(hits[:20])})
        rc_c, out_c, t_c = make([corr_v + "o"], 1500)
        rc_p, out_p, t_p = make([prop_v + "o"], 1500)
    corr_built = rc_c == 0
    if not corr_built:
        e = first_error(out_c) or {"message": out_c[-800:]}
        tie_broken.append({"kind": "model-does-not-build", "what": corr_v, "detail": e})
    obls = obligations_in(cone)
    n_obl = len(obls)
    discharged = n_obl
    if rc_p != 0:
        e = first_error(out_p) or {"file": prop_v, "message": out_p[-800:]}
        tie_broken.append({"kind": "proof-obligation", "what": f"{e.get('file')}:{e.get('obligation')}", "detail": e})
        # a file counts as checked only if its .vo is newer than its source AND than the .vo of everything it depends on
        # (a stale .vo left by an earlier build of an unchanged-looking file is not a discharged obligation)
        memo = {}

        def fresh(f):
            if f in memo:
                return memo[f]
            memo[f] = False
            vo, v = os.path.join(COQ, f + "o"), os.path.join(COQ, f)
            ok = os.path.exists(vo) and os.path.exists(v) and os.path.getmtime(vo) >= os.path.getmtime(v)
            for d in LAST_DEPS.get(f, []):
                if not ok:
                    break
                ok = fresh(d) and os.path.getmtime(vo) >= os.path.getmtime(os.path.join(COQ, d + "o"))
            memo[f] = ok
            return ok

        ok_files = [f for f in cone if fresh(f)]
        discharged = len(obligations_in(ok_files))
        axioms, closed, pa_out = [], 0, ""
    else:
        with Lock(False):
            rc_a, closed, axioms, pa_out = print_assumptions(prop_v)
        if rc_a != 0:
            tie_broken.append({"kind": "proof-obligation", "what": prop_v, "detail": pa_out[-800:]})
            discharged = 0
    prop_theorems = [n for f, n in obls if f == prop_v]
    log(f"[{prop}] proof: obligations={n_obl} discharged={discharged} property-theorems={len(prop_theorems)} "
        f"closed={closed} axioms={axioms} (make {t_c + t_p:.1f}s)")

    coqchk_out = None
    if tier == "thorough" and rc_p == 0 and not args.no_coqchk and not os.environ.get("VERIF_NO_COQCHK"):
        with Lock(False):
            rc_k, out_k, t_k = run(["coqchk", "-silent", "-o", "-Q", ".", "SPV", f"SPV.Properties.{prop}"], cwd=COQ, timeout=3000)
        coqchk_out = out_k[-3000:]
        log(f"[{prop}] coqchk rc={rc_k} ({t_k:.0f}s)")
        if rc_k != 0:
            tie_broken.append({"kind": "coqchk", "what": prop_v, "detail": coqchk_out})

    # ---- 3. correspondence ----------------------------------------------------------------------
    if args.replay:
        payload = json.load(open(args.replay))
        cases = [payload["case"]] if "case" in payload else []
        log(f"[{prop}] replaying {args.replay}")
    else:
        cases = mod.gen(tier, seed)
    try:
        obs = run_impl(prop, cases, workdir)
    except RuntimeError as e:
        # the implementation runner itself died (an exception escaped from the harness code around the library call):
        # that is a broken tie, reported as such, never a Python traceback of the check
        tie_broken.append({"kind": "impl-runner-crash", "what": f"harness/props/{prop}.py run_impl", "detail": str(e)[-1500:]})
        log(f"[{prop}] implementation runner crashed: {str(e)[-400:]}")
        cases, obs = [], []
    t_impl = time.time() - t0
    reasons = [mod.py_spec(c, o) for c, o in zip(cases, obs)]
    py_bad = [i for i, r in enumerate(reasons) if r]
    bad_model = bad_spec = out_scope = []
    cerrors = []
    if corr_built and cases:
        with Lock(False):
            bad_model, bad_spec, out_scope, cerrors = coq_eval(mod, cases, obs, os.path.join(COQ, "CorrRun", prop))
        for e in cerrors:
            tie_broken.append({"kind": "correspondence-eval", "what": corr_v, "detail": e})
    if not corr_built:
        log(f"[{prop}] correspondence: model side NOT EVALUATED (CorrDefs did not build); implementation judged by the Python spec only")
    log(f"[{prop}] correspondence: cases={len(cases)} impl-vs-model mismatches={len(bad_model)} "
        f"coq-spec failures={len(bad_spec)} python-spec failures={len(py_bad)} outside-model-scope={len(out_scope)}")

    if args.replay:
        for i, (c, o) in enumerate(zip(cases, obs)):
            log(json.dumps({"case": c, "observed": o, "python_spec": reasons[i],
                            "model_agrees": i not in bad_model, "coq_spec_holds": i not in bad_spec}, default=str)[:4000])

    spec_bad = sorted(set(py_bad) | set(bad_spec))
    for i in spec_bad:
        r = reasons[i] or "coq-spec: observed behaviour does not satisfy the Coq spec predicate"
        violations.append((mod.signature(cases[i], obs[i], r), cases[i], obs[i], r, "stream"))
    model_only = [i for i in bad_model if i not in spec_bad]
    if model_only:
        i = model_only[0]
        tie_broken.append({"kind": "correspondence", "what": f"{corr_v}:model_ok",
                           "detail": {"count": len(model_only), "first_case": cases[i], "observed": obs[i]}})
    if out_scope:
        tie_broken.append({"kind": "generator-outside-model-scope", "what": corr_v,
                           "detail": {"count": len(out_scope), "first_case": cases[out_scope[0]]}})

    # ---- 4. classify ----------------------------------------------------------------------------
    unlisted = [v for v in violations if v[0] not in known]
    searched = 0
    if tie_broken and not unlisted and not args.replay:
        # the tie is broken: search for a concrete failing input (thorough-size stream + the neighbours the
        # property module derives from the disagreement), judged by the executable spec.
        extra = []
        if hasattr(mod, "search"):
            extra = mod.search(seed, tie_broken, [cases[i] for i in model_only[:50]])
        scases = extra + (mod.gen("thorough", seed + 1) if tier == "quick" else mod.gen("thorough", seed + 7))
        scases = scases[: int(os.environ.get("VERIF_SEARCH_MAX", "20000"))]
        try:
            sobs = run_impl(prop, scases, os.path.join(workdir, "search"))
        except RuntimeError as e:
            log(f"[{prop}] implementation runner crashed during the search: {str(e)[-300:]}")
            scases, sobs = [], []
        searched = len(scases)
        sbad_coq = []
        if corr_built and scases:
            with Lock(False):
                _, sbad_coq, _, _ = coq_eval(mod, scases, sobs, os.path.join(COQ, "CorrRun", prop + "_search"))
        for i, (c, o) in enumerate(zip(scases, sobs)):
            r = mod.py_spec(c, o)
            if not r and i in sbad_coq:
                r = "coq-spec: observed behaviour does not satisfy the Coq spec predicate"
            if r:
                sig = mod.signature(c, o, r)
                violations.append((sig, c, o, r, "search"))
        unlisted = [v for v in violations if v[0] not in known]
        log(f"[{prop}] tie broken ({', '.join(sorted({t['kind'] for t in tie_broken}))}): searched {searched} inputs, "
            f"{len(unlisted)} unlisted failing input(s)")

    exit_code = 0
    printed = set()
    for sig, c, o, r, src in violations:
        if sig in known and sig not in printed:
            printed.add(sig)
            log(f"KNOWN-FINDING: property={prop} {sig}: {known[sig]}")
    n_viol = 0
    if unlisted:
        by_sig = collections.OrderedDict()
        for v in unlisted:
            by_sig.setdefault(v[0], v)
        if os.environ.get("VERIF_LIST_SIGS"):
            for sig, (s_, c, o, r, src) in by_sig.items():
                log(f"SIG {sig} :: {r[:300]}")
        for sig, (s, c, o, r, src) in list(by_sig.items())[:5]:
            c2 = shrink_case(mod, prop, c, sig, workdir)
            o2 = run_impl(prop, [c2], os.path.join(workdir, "final"))[0]
            path = write_replay(prop, {"property": prop, "signature": sig, "reason": r, "case": c2, "observed": o2,
                                       "found_by": src, "tie_broken": tie_broken, "seed": seed, "tier": tier,
                                       "replay_cmd": f"./check {prop} --replay <this file>"})
            log(f"[{prop}] failing input ({sig}): {r}")
            log(f"VIOLATION property={prop} replay={path}")
            n_viol += 1
        exit_code = 1
    elif tie_broken:
        t = tie_broken[0]
        path = write_replay(prop, {"property": prop, "no_failing_input_found": True,
                                   "broken": [{"kind": x["kind"], "what": x["what"], "detail": x["detail"]} for x in tie_broken],
                                   "searched_inputs": searched, "seed": seed, "tier": tier})
        log(f"[{prop}] no longer shown to hold: {t['kind']} {t['what']}")
        log(f"VIOLATION property={prop} replay={path} no-failing-input-found")
        n_viol = 1
        exit_code = 1

    # ---- 5. evidence ----------------------------------------------------------------------------
    nontriv = set()
    hist = collections.Counter()
    for c, o in zip(cases, obs):
        for k, v in mod.features(c, o).items():
            hist[f"{k}={v}"] += 1
        if mod.nontrivial(c, o):
            nontriv.add(hashlib.sha1(json.dumps(c, sort_keys=True, default=str).encode()).hexdigest())
    samples = [{"case": c, "observed": o} for c, o in list(zip(cases, obs))[:: max(1, len(cases) // 3)][:3]]
    trusted = [
        "Coq 8.16.1 kernel + VM (vm_compute used for finite side conditions and to run the model); native_compute not used",
        "axioms reported by Print Assumptions this run: " + (", ".join(axioms) if axioms else "none (Closed under the global context)"),
        "harness/translate/*.py (Python ast -> Gallina facts, fail closed)",
        "harness/props/%s.py (case generator, observation canonicaliser, Coq term emitter)" % prop,
        "no extraction",
    ] + list(getattr(mod, "TRUSTED", []))
    evidence = {
        "property_id": prop, "tier": tier, "seed": seed, "level": "proof",
        "coverage": {
            "obligations": n_obl, "discharged": discharged,
            "checker_cmd": f"make -C coq {prop_v}o  (coqc 8.16.1, full .vo build) + coqc {prop_v} for Print Assumptions"
                           + ("; coqchk -o SPV.Properties.%s" % prop if coqchk_out is not None else ""),
            "trusted_base": trusted,
            "property_theorems": prop_theorems,
            "print_assumptions_closed": closed, "axioms": axioms,
            "evaluations": len(cases), "distinct_nontrivial": len(nontriv),
            "rule": getattr(mod, "RULE", ""),
            "samples": samples,
            "traces_validated_against_impl": len(cases) - len(bad_model) if corr_built else 0,
            "impl_vs_model_mismatches": len(bad_model), "coq_spec_failures": len(bad_spec),
            "python_spec_failures": len(py_bad), "outside_model_scope": len(out_scope),
            "input_distribution": dict(sorted(hist.items())),
            "known_findings_reproduced": sorted(printed),
            "tie_broken": [{"kind": t["kind"], "what": t["what"]} for t in tie_broken],
            "search_inputs": searched,
            "exhaustive": bool(getattr(mod, "EXHAUSTIVE", {}).get(tier, False)),
            "coqchk": coqchk_out,
        },
        "assumptions": list(getattr(mod, "ASSUMPTIONS", [])),
        "wall_s": round(time.time() - t0, 2),
        "violations": n_viol,
    }
    if not args.replay:
        # evidence/ describes /repo itself; runs against another tree (VERIF_REPO, used to try seeded changes) write elsewhere
        evdir = os.path.join(ROOT, "evidence") if os.path.realpath(REPO) == "/repo" else os.path.join(ROOT, ".work", "alt-evidence")
        os.makedirs(evdir, exist_ok=True)
        json.dump(evidence, open(os.path.join(evdir, f"{prop}.json"), "w"), indent=1, default=str)
    log(f"[{prop}] {'OK' if exit_code == 0 else 'FAIL'} tier={tier} seed={seed} wall={time.time() - t0:.1f}s")
    return exit_code


if __name__ == "__main__":
    main()
