"""Runs a property's `run_impl` on a shard of cases inside the implementation interpreter.

usage: worker.py <prop> <cases.json> <obs.json>
env:   PYTHONPATH must put the repository under test first (set by check.py), PYTHONHASHSEED fixed.
"""
import importlib
import json
import os
import sys

sys.path.insert(0, os.path.dirname(os.path.abspath(__file__)))


def main():
    prop, fin, fout = sys.argv[1:4]
    mod = importlib.import_module(f"props.{prop}")
    cases = json.load(open(fin))
    obs = mod.run_impl(cases)
    assert len(obs) == len(cases)
    json.dump(obs, open(fout, "w"))


if __name__ == "__main__":
    main()
