"""C16 driver: runs a shard of C16 cases in ONE fresh interpreter (started by props/C16.run_impl with a given
PYTHONHASHSEED) and writes one observation per case.

usage: c16_driver.py <cases.json> <out.json> <scratch dir>

Everything that touches the implementation lives here; `parse_help` (the tolerant help-text parser) and the small
helpers on the case description are also imported by props/C16.py.
"""
import io
import json
import os
import re
import sys

sys.path.insert(0, os.path.dirname(os.path.abspath(__file__)))

DOC = "Doc of {}."


# --------------------------------------------------------------------------------------------------
# the case description (shared with props/C16.py)


def walk(case):
    """yield (path words, class name, tree) for every dataclass wrapper, in the implementation's flattened order"""

    def rec(path, tree):
        yield path, tree
        for kn, sub in tree["kids"]:
            yield from rec(path + [kn], sub)

    for d, t, _ in case["dests"]:
        yield from rec([d], t)


def help_wrappers(case):
    """(path of the first destination, tree, further destinations) for every argument group the help shows, in order.
    Under ALWAYS_MERGE the wrappers of one class (the generator gives them no members of dataclass type) are one group
    that lists every destination in registration order; otherwise one group per dataclass wrapper."""
    if case.get("mode") != "ALWAYS_MERGE":
        return [(p, t, []) for p, t in walk(case)]
    out, seen = [], {}
    for d, t, _ in case["dests"]:
        if t["cls"] in seen:
            out[seen[t["cls"]]][2].append(d)
        else:
            seen[t["cls"]] = len(out)
            out.append(([d], t, []))
    return out


def merged_text(v, n):
    """the default of a field of a wrapper merged over n destinations, as `%(default)s` prints it"""
    x = py_value(v)
    if x is None:
        return None
    return str(x) if n == 1 else str([x] * n)


def user_prefix(case, path):
    for d, _, p in case["dests"]:
        if d == path[0]:
            return p if len(path) == 1 else ""
    return ""


def exposed(f):
    return f["init"] and f["cmd"]


def py_value(v):
    """the Python value of a ["int", 3] / ["str", "q"] / ["float", "0.5"] / ["bool", true] / ["list", [64, 64]] description"""
    k = v[0]
    if k in ("int", "str", "bool"):
        return v[1]
    if k == "float":
        return float(v[1])
    if k == "list":
        return list(v[1])
    return None  # "none" / "req"


def value_text(v):
    """how argparse's `%(default)s` renders the value"""
    x = py_value(v)
    return None if x is None else str(x)


def is_falsy(v):
    return v[0] in ("int", "str", "float", "bool", "list") and not py_value(v)


def field_type(f):
    from typing import List

    return {"str": str, "float": float, "bool": bool, "list": List[int]}.get(f.get("type") or f["default"][0], int)


# --------------------------------------------------------------------------------------------------
# tolerant help-text parser


def parse_help(text):
    """-> {"usage": str, "sections": [[title, [description lines], [[option strings], default|None, help text]]]}
    Tolerant of argparse's layout: an entry starts on a line indented by two blanks whose first character is '-';
    its help text starts after a run of >= 2 blanks on that line or on the following more deeply indented lines,
    which are joined with single blanks.  The trailing "(default: X)" is split off the help text."""
    lines = text.split("\n")
    usage, i = [], 0
    while i < len(lines) and lines[i].strip():
        usage.append(lines[i].strip())
        i += 1
    sections, cur, entry = [], None, None
    for line in lines[i:]:
        if not line.strip():
            entry = None
            continue
        ind = len(line) - len(line.lstrip(" "))
        if ind == 0 and line.rstrip().endswith(":"):
            cur = [line.rstrip()[:-1], [], []]
            sections.append(cur)
            entry = None
        elif cur is None:
            usage.append(line.strip())
        elif ind == 2 and line.lstrip().startswith("-"):
            m = re.match(r"^  (\S.*?)(?:\s{2,}(\S.*))?$", line.rstrip())
            head, rest = m.group(1), m.group(2) or ""
            opts = [part.split(" ")[0] for part in head.split(", ")]
            entry = [opts, [rest] if rest else []]
            cur[2].append(entry)
        elif ind > 2 and entry is not None:
            entry[1].append(line.strip())
        else:
            cur[1].append(line.strip())
            entry = None
    out = []
    for title, desc, entries in sections:
        es = []
        for opts, parts in entries:
            helptext = " ".join(parts).strip()
            default = None
            m = re.match(r"^(.*?)\s*\(default: (.*)\)$", helptext)
            if m:
                helptext, default = m.group(1), m.group(2)
            es.append([opts, default, helptext])
        out.append([title, desc, es])
    return {"usage": " ".join(usage), "sections": out}


# --------------------------------------------------------------------------------------------------
# building the parser from the description


def _classes(case):
    import dataclasses

    import simple_parsing

    memo = {}

    def build(tree):
        if tree["cls"] in memo:
            return memo[tree["cls"]]
        flds = []
        for f in tree["fields"]:
            typ = field_type(f)
            kw = {}
            if f["default"][0] == "list":
                kw["default_factory"] = list(f["default"][1]).copy
            elif f["default"][0] != "req":
                kw["default"] = py_value(f["default"])
            if not f["init"]:
                kw["init"] = False
            if f.get("via", "sp") == "sp":
                if f["aliases"]:
                    kw["alias"] = list(f["aliases"])
                if not f["cmd"]:
                    kw["cmd"] = False
                if f["help"]:
                    kw["help"] = f["help"]
                fld = simple_parsing.field(**kw)
            else:  # plain dataclasses.field with the metadata keys the library reads
                md = {}
                if f["aliases"]:
                    md["alias"] = list(f["aliases"])
                if not f["cmd"]:
                    md["cmd"] = False
                if f["help"]:
                    md["help"] = f["help"]
                fld = dataclasses.field(metadata=md, **kw)
            flds.append((f["name"], typ, fld))
        for kn, sub in tree["kids"]:
            c = build(sub)
            flds.append((kn, c, dataclasses.field(default_factory=c)))
        cls = dataclasses.make_dataclass(tree["cls"], flds, kw_only=True, module="c16_generated")  # no source to scan
        if tree.get("doc", "explicit") == "explicit":
            cls.__doc__ = DOC.format(tree["cls"])
        # else: keep the docstring `dataclasses` generated (the constructor signature)
        memo[tree["cls"]] = cls
        return cls

    return [(d, build(t), p, t) for d, t, p in case["dests"]]


def _over_tree(case, dest):
    """nested dict {field: value, kid: {...}} of the overrides below top-level destination `dest`"""
    root = {}
    for path, v in case["over"]:
        w = path.split(".")
        if w[0] != dest:
            continue
        cur = root
        for k in w[1:-1]:
            cur = cur.setdefault(k, {})
        cur[w[-1]] = py_value(v)
    return root


def _instance(cls, tree, vals):
    kw = {}
    for f in tree["fields"]:
        if f["init"] and f["name"] in vals:
            kw[f["name"]] = vals[f["name"]]
        elif f["init"] and f["default"][0] == "req":
            kw[f["name"]] = 0
    import dataclasses
    kids = {f.name: f.type for f in dataclasses.fields(cls)}
    for kn, sub in tree["kids"]:
        kw[kn] = _instance(kids[kn], sub, vals.get(kn, {}))
    return cls(**kw)


def build_parser(case, scratch):
    from simple_parsing import ArgumentParser, ConflictResolution
    from simple_parsing.wrappers.field_wrapper import ArgumentGenerationMode, DashVariant, NestedMode

    kw = {}
    src = case["source"]
    if src == "config":
        path = case.get("_cfg")
        if path is None:  # stand-alone use of the driver
            os.makedirs(scratch, exist_ok=True)
            path = os.path.join(scratch, f"c16_{os.getpid()}.json")
            doc = {d: _over_tree(case, d) for d, _, _ in case["dests"]}
            doc = {d: v for d, v in doc.items() if v}
            if case["nm"] == "WITHOUT_ROOT" and len(case["dests"]) == 1:
                doc = doc.get(case["dests"][0][0], {})
            json.dump(doc, open(path, "w"))
        kw["config_path"] = path
    p = ArgumentParser(
        prog="prog",
        conflict_resolution=ConflictResolution[case["mode"]],
        add_option_string_dash_variants=DashVariant[case["dv"]],
        argument_generation_mode=ArgumentGenerationMode[case["gm"]],
        nested_mode=NestedMode[case["nm"]],
        **kw,
    )
    for d, cls, pref, tree in _classes(case):
        if src == "instance" and _over_tree(case, d):
            p.add_arguments(cls, d, prefix=pref, default=_instance(cls, tree, _over_tree(case, d)))
        else:
            p.add_arguments(cls, d, prefix=pref)
    if src == "set_defaults":
        sd = {d: _over_tree(case, d) for d, _, _ in case["dests"]}
        sd = {d: v for d, v in sd.items() if v}
        if sd:
            p.set_defaults(**sd)
    return p


# --------------------------------------------------------------------------------------------------
# observations


def _leaf_values(ns, case):
    out = {}

    def rec(obj, path, tree):
        for f in tree["fields"]:
            if exposed(f):
                v = getattr(obj, f["name"])
                # text as `%(default)s` / str() gives it, plus the Python type (7 vs "7" vs 7.0 vs True must stay apart)
                out[".".join(path + [f["name"]])] = [None if v is None else str(v), type(v).__name__,
                                                     [type(x).__name__ for x in v] if isinstance(v, (list, tuple)) else None]
        for kn, sub in tree["kids"]:
            rec(getattr(obj, kn), path + [kn], sub)

    for d, t, _ in case["dests"]:
        rec(getattr(ns, d), [d], t)
    return out


def observe(case, scratch, full=True):
    from implutil import outcome_of, reset_simple_parsing_state

    reset_simple_parsing_state()
    o = {}
    # 1. --help through parse_args, recording (harness-side hook, the repository is untouched) every list that
    #    FieldWrapper.option_strings returns with two spellings of the same length: the order in which THIS
    #    interpreter (this hash seed) enumerates that set of spellings
    from simple_parsing.wrappers.field_wrapper import FieldWrapper

    box = {}
    rows = []
    orig = FieldWrapper.__dict__["option_strings"]

    def recording(self):
        r = orig.fget(self)
        lens = [len(x) for x in r]
        if len(set(lens)) != len(lens) and list(r) not in rows:
            rows.append(list(r))
        return r

    def run_help():
        box["p"] = build_parser(case, scratch)
        box["p"].parse_args(["--help"])

    FieldWrapper.option_strings = property(recording)
    try:
        r = outcome_of(run_help)
    finally:
        FieldWrapper.option_strings = orig
    o["oracle"] = rows
    p = box.get("p")
    if r[0] == "exit":
        o["help"] = ["exit", r[1], r[2], r[3]]
    else:
        o["help"] = list(r[:2])
    done = p is not None and getattr(p, "_preprocessing_done", False)
    o["setup_done"] = bool(done)
    # 2. what was registered (the parser's own view after set-up)
    groups = []
    if done:
        for w in p._wrappers:
            acts = []
            for fw in w.fields:
                opts = list(fw.option_strings)
                act = p._option_string_actions.get(opts[0]) if opts else None
                acts.append([fw.dest, list(act.option_strings) if act is not None else None,
                             sorted(k for k, a in p._option_string_actions.items() if a is act)])
            groups.append([w.title, acts, w.dataclass.__doc__])
        registered_dests = sorted(a.dest for a in p._actions)
        o["format_help_same"] = (p.format_help() == o["help"][3])
    else:
        registered_dests = []
        o["format_help_same"] = None
    o["registered"] = groups
    o["action_dests"] = registered_dests
    o["full"] = bool(full)
    if not full:
        # light observation (most hash seeds): the help text, what was registered and the enumeration orders only
        o["hidden"], o["api"], o["api_help"], o["after"], o["fresh"], o["fresh_format_help_sections"] = [], None, None, None, None, -1
        return o
    # 4. cmd=False / init=False fields: never parseable
    hidden = []
    rq = outcome_of(lambda: _required_argv(case, scratch)) if done else ["ok", []]
    req_argv = rq[1] if rq[0] == "ok" else []
    if done:
        allopts = list(p._option_string_actions)
        for path, tree in walk(case):
            for f in tree["fields"]:
                if exposed(f):
                    continue
                n = f["name"]
                full = ".".join(path + [n])
                probes = []
                for body in dict.fromkeys([n, n.replace("_", "-"), full, full.replace("_", "-"), ".".join((path + [n])[1:])]):
                    if not body:
                        continue
                    for dash in ("--", "-"):
                        probes.append(dash + body)
                res = []
                for pr in probes:
                    if any(x.startswith(pr) for x in allopts):
                        continue  # argparse would accept it as an abbreviation of / as another field's option
                    reset_simple_parsing_state()

                    def probe():
                        q = build_parser(case, scratch)
                        return _leaf_values(q.parse_args(req_argv + [pr, "41"]), case)

                    rr = outcome_of(probe)
                    res.append([pr, rr[0], rr[1] if rr[0] in ("exit", "raise") else None])
                hidden.append([full, res, full in registered_dests])
    o["hidden"] = hidden
    # 5. print_help() through the API on a fresh parser, then a parse on the same parser, against a fresh parse
    #    (also when `--help` could not set the parser up: print_help() is observed on its own)
    reset_simple_parsing_state()
    buf = io.StringIO()
    box2 = {}

    def api_print():
        box2["q"] = build_parser(case, scratch)
        box2["q"].print_help(file=buf)

    rp = outcome_of(api_print)
    o["api"] = rp[:2] if rp[0] != "ok" else ["ok"]
    o["api_help"] = buf.getvalue()
    if rp[0] == "ok":
        ra = outcome_of(lambda: _leaf_values(box2["q"].parse_args(req_argv), case))
        o["after"] = ra[:2]
    else:
        o["after"] = o["api"]
    reset_simple_parsing_state()

    def fresh():
        q = build_parser(case, scratch)
        return _leaf_values(q.parse_args(req_argv), case)

    rf = outcome_of(fresh)
    o["fresh"] = rf[:2]
    reset_simple_parsing_state()

    def fresh_fmt():
        return build_parser(case, scratch).format_help()

    rff = outcome_of(fresh_fmt)
    o["fresh_format_help_sections"] = len(parse_help(rff[1])["sections"]) if rff[0] == "ok" else -1
    return o


def _flat(wrappers):
    out = []
    for w in wrappers:
        out.append(w)
        out.extend(w.descendants)
    return out


def _required_argv(case, scratch):
    """values for the required fields, spelled with an option string that a THROW-AWAY parser of the same definition
    registered for them (the parser under test is not touched)"""
    from implutil import reset_simple_parsing_state

    if not any(exposed(f) and f["default"][0] == "req" for _, t in walk(case) for f in t["fields"]):
        return []
    parser = build_parser(case, scratch)
    parser._preprocessing(args=[])
    argv = []
    byd = {fw.dest: fw for w in parser._wrappers for fw in w.fields}
    for path, tree in walk(case):
        for f in tree["fields"]:
            if exposed(f) and f["default"][0] == "req":
                fw = byd[".".join(path + [f["name"]])]
                argv += [sorted(fw.option_strings)[0], "5"]
    reset_simple_parsing_state()
    return argv


def main():
    fin, fout, scratch = sys.argv[1:4]
    cases = json.load(open(fin))
    full = os.environ.get("C16_FULL", "1") == "1"
    out = [observe(c, scratch, full) for c in cases]
    json.dump(out, open(fout, "w"))
    try:
        os.remove(os.path.join(scratch, f"c16_{os.getpid()}.json"))
    except OSError:
        pass


if __name__ == "__main__":
    main()
