"""Python rendering of the C01 code model (coq/Model/Defaults.v: parse_merge / run_fld with today's regenerated facts), used ONLY by
props/C01.signature to decide whether a failing run behaves exactly as the listed ALWAYS_MERGE findings do ("as-modelled").
A run that fails in a listed shape but does NOT behave as this model predicts gets another signature and is reported.
It mirrors the code as of the fix commits 32a0b9e (guard looks at wrapper.defaults) and 97f358f (single_value packaging);
if it drifts from the implementation the only effect is that listed findings are reported again (never the opposite).

cls  := {"c": cname, "fields": [fld]} ; fld := leaf {"k","n","ty","d","fac"} | nest {"k","n","opt","cls","d": "fac"|"none"|inst}
"""
import copy

NONE = {"t": "none"}


class Fail(Exception):
    def __init__(self, kind):
        self.kind = kind


def is_none(v):
    return v is None or v.get("t") == "none"


# ---------------------------------------------------------------------------------- spec
def construct(cls):
    out = []
    for f in cls["fields"]:
        if f["k"] == "leaf":
            out.append([f["n"], f["d"]])
        elif f["d"] == "fac":
            out.append([f["n"], construct(f["cls"])])
        elif f["d"] == "none":
            out.append([f["n"], NONE])
        else:
            out.append([f["n"], f["d"]])
    return {"t": "dc", "c": cls["c"], "v": out}


def spec(forest):
    return [[d, (i if i is not None else construct(c))] for d, c, i in forest]


# ---------------------------------------------------------------------------------- leaf
def postprocess(ty, v):
    """FieldWrapper.postprocess on a python value (Leaf.v postprocess o raw_of_value)."""
    k = ty["k"]
    t = v["t"]
    if k == "enum":
        return v
    if k == "lit":
        if t == "str":
            m = None
            for c in ty["choices"]:
                if str(c) == v["v"]:
                    m = c
            if m is not None:
                return {"t": "str", "v": m} if isinstance(m, str) else {"t": "int", "v": str(m)}
        return v
    if k in ("tupfix", "tupvar"):
        if t == "list":
            return {"t": "tuple", "v": v["v"]}
        return v
    if k == "bool":
        return v
    if k == "list":
        if t == "tuple":
            return {"t": "list", "v": v["v"]}
        return v
    if k == "opt":
        if ty["item"]["k"] in ("tupfix", "tupvar") and t == "list":
            return {"t": "tuple", "v": v["v"]}
        return v
    return v


def attr(inst, name):
    for n, v in inst["v"]:
        if n == name:
            return v
    raise Fail("AttributeError")


# ---------------------------------------------------------------------------------- structural (non-merge) model
def guard_none(guard, wd, defs):
    """the test of _create_dataclass_instance besides wrapper.optional"""
    if guard == "default":
        return wd is None
    if guard == "default+defaults":
        return wd is None and all(is_none(d) for d in defs)
    raise ValueError(guard)


def run_fields(guard, fields, wd, defs):
    out = []
    for f in fields:
        if f["k"] == "leaf":
            if wd is not None and not is_none(attr(wd, f["n"])):
                dv = attr(wd, f["n"])            # _default set by set_default
            elif any(not is_none(d) for d in defs):
                ds = [attr(d, f["n"]) for d in defs if not is_none(d)]
                dv = ds[0]                       # len(defs) == 1 in the non-merging modes
            else:
                dv = f["d"]
            out.append([f["n"], postprocess(f["ty"], dv)])
        else:
            cd = None
            if wd is not None:
                a = attr(wd, f["n"])
                cd = None if is_none(a) else a
            if cd is not None:
                cdefs = [cd]
            elif defs:
                cdefs = [(NONE if is_none(d) else attr(d, f["n"])) for d in defs]
            else:
                cdefs = [default_value(f)]
            sub = f["cls"]
            vals = run_fields(guard, sub["fields"], cd, cdefs)
            inst = {"t": "dc", "c": sub["c"], "v": vals}
            if f["opt"] and guard_none(guard, cd, cdefs) and leaves_at_default(sub["fields"], vals, cd, cdefs):
                out.append([f["n"], NONE])
            else:
                out.append([f["n"], inst])
    return out


def leaf_default(f, wd, defs):
    if wd is not None and not is_none(attr(wd, f["n"])):
        return attr(wd, f["n"])
    if any(not is_none(d) for d in defs):
        return [attr(d, f["n"]) for d in defs if not is_none(d)][0]
    return f["d"]


def leaves_at_default(fields, vals, wd, defs):
    for f, (n, v) in zip(fields, vals):
        if f["k"] == "leaf" and v != leaf_default(f, wd, defs):
            return False
    return True


def default_value(f):
    if f["d"] == "fac":
        return construct(f["cls"])
    if f["d"] == "none":
        return NONE
    return f["d"]


def parse_plain(guard, forest):
    out = []
    for d, c, i in forest:
        out.append([d, {"t": "dc", "c": c["c"], "v": run_fields(guard, c["fields"], i, [i] if i is not None else [])}])
    return out


# ---------------------------------------------------------------------------------- option strings (OptStr.v)
def option_strings(cfg, path, name, pfx):
    dash = "-" if len(name) == 1 else "--"
    option0 = pfx + name
    dest = ".".join(path + [name])
    nested0 = dest if cfg["nm"] == "DEFAULT" else ".".join(dest.split(".")[1:])
    us2dash = lambda s: s.replace("_", "-")
    option = us2dash(option0) if cfg["dash"] == "DASH" else option0
    nested = us2dash(nested0) if cfg["dash"] == "DASH" else nested0
    cands = {"FLAT": [option], "NESTED": [nested], "BOTH": [option, nested]}[cfg["gen"]]
    pairs = [(dash, o) for o in cands] + ([("--", o) for o in cands] if dash == "-" else [])
    extra = []
    if cfg["dash"] == "UNDERSCORE_AND_DASH":
        for d, o in pairs:
            if "_" in o:
                o2 = us2dash(o)
                extra.append(("-" if len(o2) == 1 else "--", o2))
    raw = [d + o for d, o in pairs + extra]
    seen, out = [], []
    for o in raw:
        if o not in seen:
            seen.append(o)
            out.append(o)
    return sorted(out, key=len)


# ---------------------------------------------------------------------------------- wrapper store (all modes)
class W:
    pass


def build(store, order, dest_path, cls, default, parent, field, optional):
    """DataclassWrapper.__init__ ; returns the wrapper's key (its dest)."""
    w = W()
    w.path = dest_path
    w.key = ".".join(dest_path)
    w.name = dest_path[-1]
    w.cls = cls
    w.parent = parent
    w.field = field
    w.optional = optional
    w.default = default
    w.defaults = [default] if default is not None else []
    w.dests = []
    w.children = []
    w.fields = []          # [ [fld, prefix, _default] ]
    store[w.key] = w
    order.append(w.key)
    for f in cls["fields"]:
        if f["k"] == "leaf":
            fd = None
            # the debug f-string evaluates .default once: caches a factory value when no other source applies
            # (the factory result is kept in `_default_factory_result`, not in `_default`)
            if default is not None:
                a = attr(default, f["n"])
                fd = None if is_none(a) else a
            w.fields.append([f, "", fd])
        else:
            cd = None
            if default is not None:
                a = attr(default, f["n"])
                cd = None if is_none(a) else a
            k = build(store, order, dest_path + [f["n"]], f["cls"], cd, w.key, f, f["opt"])
            w.children.append(k)
    get_defaults(store, w)
    return w.key


def get_defaults(store, w):
    """DataclassWrapper.defaults (caches when the computed list is non-empty)"""
    if w.defaults:
        return w.defaults
    if w.field is None:
        return []
    p = store[w.parent]
    pd = get_defaults(store, p)
    if pd:
        w.defaults = [(d if is_none(d) else attr(d, w.name)) for d in pd]
        w.defaults = [NONE if is_none(d) else d for d in w.defaults]
    else:
        w.defaults = [default_value(w.field)]
    return w.defaults


def get_dests(store, w):
    if not w.dests:
        if w.parent is not None:
            w.dests = [d + "." + w.name for d in get_dests(store, store[w.parent])]
        else:
            w.dests = [w.name]
    return w.dests


def descendants(store, w):
    out = []
    for c in w.children:
        out.append(c)
        out += descendants(store, store[c])
    return out


def level(w):
    return len(w.path) - 1


def field_opts(cfg, w, fe):
    return option_strings(cfg, w.path, fe[0]["n"], fe[1])


def get_conflict(cfg, store, flat, only=None):
    """first option string (insertion order) held by two or more field wrappers -> (opt, [(wkey, idx)])"""
    table = []
    for k in flat:
        w = store[k]
        for i, fe in enumerate(w.fields):
            if only is not None and (k, i) not in only:
                continue
            for o in field_opts(cfg, w, fe):
                table.append((o, (k, i)))
    seen = []
    for o, _ in table:
        if o in seen:
            continue
        seen.append(o)
        hs = [h for (o2, h) in table if o2 == o]
        if len(hs) > 1:
            return o, hs
    return None


def remove(store, flat, key):
    w = store[key]
    if key not in flat:
        raise Fail("ValueError")
    flat = [k for k in flat if k != key] if flat.count(key) == 1 else flat  # keys are unique
    for c in descendants(store, w):
        if c not in flat:
            raise Fail("ValueError")
        flat = [k for k in flat if k != c]
    for k in flat:
        o = store[k]
        if key in o.children:
            o.children = [c for c in o.children if c != key]
    return flat


def merge(store, a, b):
    """DataclassWrapper.merge: a absorbs b"""
    da = get_dests(store, a)
    for d in get_dests(store, b):
        if d not in da:
            da.append(d)
    ad = get_defaults(store, a)
    bd = get_defaults(store, b)
    if a.defaults:           # the property returned the stored list: extended in place
        a.defaults = a.defaults + list(bd)
    # else: a fresh [] was extended and dropped
    for fe in a.fields:
        fe[2] = None
    for ca, cb in zip(list(a.children), list(b.children)):
        merge(store, store[ca], store[cb])


def fix_merge(cfg, store, flat, conflict):
    o, hs = conflict
    srt = sorted(hs, key=lambda h: level(store[h[0]]))
    first = srt[0][0]
    fw = store[first]
    original_parent = fw.parent
    flat = remove(store, flat, first)
    for (k, _) in hs[1:]:
        flat = remove(store, flat, k)
        merge(store, fw, store[k])
    # assert first.multiple
    if len(get_dests(store, fw)) <= 1:
        raise Fail("AssertionError")
    flat = flat + [first] + descendants(store, fw)
    if original_parent is not None:
        store[original_parent].children.append(first)
    return flat


def words(s):
    return [w for w in s.split(".") if w]


def resolve(cfg, store, flat, max_attempts=50):
    cr = cfg["cr"]
    conflict = get_conflict(cfg, store, flat)
    attempts = 0
    while conflict:
        o, hs = conflict
        if cr == "NONE":
            raise Fail("cre")
        elif cr == "EXPLICIT":
            if any(store[k].fields[i][1] for k, i in hs):
                raise Fail("cre")
            for k, i in hs:
                store[k].fields[i][1] = store[k].key + "."
            c2 = get_conflict(cfg, store, flat, only=hs)
            if c2 and c2[0] == o:
                raise Fail("cre")
        elif cr == "ALWAYS_MERGE":
            flat = fix_merge(cfg, store, flat, conflict)
        else:
            srt = sorted(hs, key=lambda h: level(store[h[0]]))
            if level(store[srt[0][0]]) < level(store[srt[1][0]]):
                srt = srt[1:]
            for k, i in srt:
                cur = store[k].fields[i][1]
                ex = store[k].key + "."
                if cur == ex:
                    raise Fail("cre")
                av, us = words(ex), words(cur)
                if len(av) <= len(us):
                    raise Fail("cre")
                store[k].fields[i][1] = av[(len(av) - 1) - len(us)] + "." + cur
        conflict = get_conflict(cfg, store, flat)
        attempts += 1
        if attempts == max_attempts:
            raise Fail("cre")
    return flat


def is_tuple_or_list(ty):
    return ty["k"] in ("list", "tupfix", "tupvar")


def py_len(v):
    if v["t"] in ("list", "tuple"):
        return len(v["v"])
    if v["t"] == "str":
        return len(v["v"])
    raise Fail("TypeError")


def fw_default(store, w, fe, pk="orig"):
    """FieldWrapper.default -> value (a python list is {"t":"list"})"""
    f, _, fd = fe
    defs = get_defaults(store, w)
    single = True
    if fd is not None:
        default = fd
        single = False
    elif any(not is_none(d) for d in defs):
        ds = [attr(d, f["n"]) for d in defs if not is_none(d)]
        if len(defs) == 1:
            default = ds[0]
        else:
            default = {"t": "list", "v": ds}
            single = False
    else:
        default = f["d"]
    n = len(get_dests(store, w))
    if n > 1 and not is_none(default):
        if single:
            default = {"t": "list", "v": [default] * n}
        elif is_tuple_or_list(f["ty"]) and py_len(default) != n:
            default = {"t": "list", "v": [default] * n}
        elif default["t"] != "list":
            default = {"t": "list", "v": [default] * n}
        if py_len(default) != n:
            raise Fail("AssertionError")
    return default


def nesting_level(v):
    if v["t"] not in ("list", "tuple"):
        return 0
    if not v["v"]:
        return 1
    return 1 + max(nesting_level(x) for x in v["v"])


def duplicate_if_needed(ty, v, n):
    if ty["k"] == "list" and v["t"] == "tuple":
        v = {"t": "list", "v": v["v"]}
    if ty["k"] not in ("list", "tupfix", "tupvar") and v["t"] == "list":
        if nesting_level(v) == 2 and len(v["v"]) == 1 and py_len(v["v"][0]) == n:
            x = v["v"][0]
            return x["v"]
    if v["t"] not in ("list", "tuple"):
        vs = [v]
    else:
        vs = v["v"]
    if len(vs) == n:
        return vs
    if len(vs) == 1:
        return vs * n
    raise Fail("inconsistent")


def flatten(store, flat):
    roots = [k for k in flat if store[k].parent is None]
    out = []
    for r in roots:
        out += [r] + descendants(store, store[r])
    return out


def parse_store(guard, cfg, forest):
    """-> [[dest, inst]] or raises Fail"""
    store, order = {}, []
    for d, c, i in forest:
        build(store, order, [d], c, i, None, None, False)
    flat = resolve(cfg, store, list(order))
    flat = flatten(store, flat)
    if len(flat) != len(set(flat)):
        raise Fail("RuntimeError")
    # add_arguments: every field's default is evaluated
    ns = {}
    for k in flat:
        w = store[k]
        for fe in w.fields:
            ns[(k, fe[0]["n"])] = fw_default(store, w, fe)
    # _postprocessing
    cargs = {}
    for k in flat:
        for d in get_dests(store, store[k]):
            cargs.setdefault(d, {})
    if cfg["cr"] != "ALWAYS_MERGE" and len(flat) != len(cargs):
        raise Fail("AssertionError")
    for k in flat:
        w = store[k]
        dests = get_dests(store, w)
        for fe in w.fields:
            f = fe[0]
            values = ns[(k, f["n"])]
            if len(dests) > 1:
                vals = duplicate_if_needed(f["ty"], values, len(dests))
            else:
                vals = [values]
            for d, v in zip(dests, vals):
                cargs.setdefault(d, {})[f["n"]] = postprocess(f["ty"], v)
    result = {}
    srt = sorted(flat, key=lambda k: -level(store[k]))
    for k in srt:
        w = store[k]
        for d in get_dests(store, w):
            if d not in cargs:
                raise Fail("KeyError")
            args = cargs.pop(d)
            val = create_instance(guard, store, w, args)
            if w.parent is not None:
                pk, _, a = d.rpartition(".")
                cargs.setdefault(pk, {})[a] = val
            elif d in result:
                raise Fail("RuntimeError")
            else:
                result[d] = val
    if cargs:
        raise Fail("AssertionError")
    out = []
    for d, c, i in forest:
        if d not in result:
            raise Fail("AttributeError")
        out.append([d, result[d]])
    return out


def create_instance(guard, store, w, args):
    if w.optional and guard_none(guard, w.default, get_defaults(store, w)):
        brk = False
        for fe in w.fields:
            if fe[0]["n"] not in args:
                raise Fail("KeyError")
            if args[fe[0]["n"]] != fw_default(store, w, fe):
                brk = True
                break
        if not brk:
            return NONE
    # constructor(**args): unknown keyword -> TypeError; missing -> the field's own default
    names = [f["n"] for f in w.cls["fields"]]
    for a in args:
        if a not in names:
            raise Fail("TypeError")
    vals = []
    for f in w.cls["fields"]:
        if f["n"] in args:
            vals.append([f["n"], args[f["n"]]])
        else:
            vals.append([f["n"], f["d"] if f["k"] == "leaf" else default_value(f)])
    return {"t": "dc", "c": w.cls["c"], "v": vals}


def model(guard, cfg, forest):
    try:
        return ["ok", parse_store(guard, cfg, copy.deepcopy(forest))]
    except Fail as e:
        return ["fail", e.kind]


GUARD = "default+defaults"


def predict(case):
    """-> ["ok", [value per destination]] | ["fail", "cre" | "inconsistent" | exception class name]"""
    r = model(GUARD, case["cfg"], case["forest"])
    if r[0] == "ok":
        return ["ok", [v for _, v in r[1]]]
    return r


def observed(obs):
    o = obs["outcome"]
    if o[0] == "ok":
        return ["ok", obs["values"]]
    return ["fail", "cre" if o[0] == "cre" else ("inconsistent" if o[0] == "inconsistent" else (o[1] if len(o) > 1 else o[0]))]
